(* C12, last sentence: "at any fixed instant repeated reads return 'nothing to send' after finitely
   many packets, and once no object remains only FDT packets are ever produced".
   Q1 (quiescence): an explicit potential [MU now s] (packets still owed at the instant [now]) that
      no read at [now] increases and every read that returns a packet decreases; an RNothing read at
      [now] is followed by RNothing reads that leave the state exactly unchanged.
   Q2: with no file object left, reads return RNothing or RFdt only.
   The proofs reuse the ownership invariant [Inv] of C13Full and the description of a read as a
   path of session visits ([vstep], [qpath]). *)
From FluteV Require Import Model.SenderCtl Spec.SenderSpec Proofs.SenderProofs Proofs.C13Full.
From Coq Require Import Lia Permutation Sorted.
Open Scope N_scope.

Arguments N.add : simpl never. Arguments N.mul : simpl never. Arguments N.sub : simpl never.
Arguments N.eqb : simpl never. Arguments N.ltb : simpl never. Arguments N.leb : simpl never.
Arguments Z.add : simpl never. Arguments Z.sub : simpl never. Arguments Z.mul : simpl never.
Arguments Z.ltb : simpl never. Arguments Z.leb : simpl never. Arguments Z.max : simpl never.

(* ============================== part 1: the potential of one object ============================== *)

(* carousel delays are durations: not negative *)
Definition car_ok (c : carousel) : bool :=
  match c with CNone => true | CDelay d | CInterval d => (0 <=? d)%Z end.

(* the carousel test of [should_transfer_now] (its last branch) *)
Definition car_due (now : Z) (o : odesc) (t : tinfo) : bool :=
  match o_car o, t_last_end t, t_last_start t with
  | CNone, _, _ => true
  | _, None, _ => true
  | _, _, None => true
  | CDelay d, Some le, Some _ => (d <? Z.max 0 (now - le))%Z
  | CInterval d, Some _, Some ls => (d <? Z.max 0 (now - ls))%Z
  end.

(* number of transfers a waiting object can still start at the instant [now] *)
Definition phiW (now : Z) (o : odesc) (t : tinfo) : nat :=
  if t_count t <? o_max o then N.to_nat (o_max o - t_count t)
  else if car_due now o t then (if t_count t =? o_max o then Nat.max 1 (N.to_nat (o_max o)) else 1%nat)
  else 0%nat.

(* ... an object that is being transferred, after the transfer in progress *)
Definition phiA (now : Z) (o : odesc) (t : tinfo) : nat :=
  if is_expired (mk_fdesc o false (t_done now t)) then 0%nat else phiW now o (t_done now t).

Lemma stn_count_or_due f prio full now :
  should_transfer_now f prio full now = true ->
  t_count (f_t f) <? o_max (f_o f) = true \/ car_due now (f_o f) (f_t f) = true.
Proof.
  unfold should_transfer_now, car_due.
  destruct (negb (o_prio (f_o f) =? prio)); [discriminate|].
  destruct (full && negb (f_pub f)); [discriminate|].
  destruct (match t_start_time (f_t f) with Some stt => (now <? stt)%Z | None => false end); [discriminate|].
  destruct (t_transferring (f_t f)); [discriminate|].
  destruct (t_count (f_t f) <? o_max (f_o f)); [auto|]. intros H. right. exact H.
Qed.

Lemma car_due_after now o t x y :
  car_ok (o_car o) = true -> car_some (o_car o) = true ->
  t_last_end t = Some now -> t_last_start t = Some now ->
  car_due now o (mk_tinfo (t_transferring t) x y (t_last_end t) (t_last_start t) (t_next_ts t) (t_tick t) (t_start_time t)) = false.
Proof.
  unfold car_due, car_ok. cbn [t_last_end t_last_start]. intros Hok Hs He Hl. rewrite He, Hl.
  destruct (o_car o) as [|d|d]; [discriminate| |]; rewrite Z.sub_diag;
    apply Z.leb_le in Hok; apply Z.ltb_ge; lia.
Qed.

(* starting a transfer uses up one unit *)
Lemma phi_start divf f prio full now ti :
  car_ok (o_car (f_o f)) = true ->
  should_transfer_now f prio full now = true ->
  t_init divf (f_o f) now (f_t f) = Some ti ->
  (S (phiA now (f_o f) ti) <= phiW now (f_o f) (f_t f))%nat.
Proof.
  intros Hok Hs Hi. apply stn_count_or_due in Hs.
  set (o := f_o f) in *. set (t := f_t f) in *.
  unfold t_init in Hi.
  destruct (match o_target o with
            | TNone | TFast => Some None
            | TDuration d => match divf d (N.max 1 (o_nsrc o)) with Some k => Some (Some k) | None => None end
            | TTime tm => match divf (Z.max 0 (tm - now)) (N.max 1 (o_nsrc o)) with Some k => Some (Some k) | None => None end
            end) as [tk|]; [|discriminate].
  inversion Hi; subst ti; clear Hi.
  unfold phiA, phiW, is_expired, t_done. cbn [f_t f_o t_count t_total t_last_end t_last_start t_transferring t_next_ts t_tick t_start_time].
  assert (Hnd : forall c, car_some (o_car o) = true ->
            car_due now o (mk_tinfo false c (t_total t + 1) (Some now) (Some now)
                                    (if is_some tk then Some now else t_next_ts t) tk (t_start_time t)) = false).
  { intros c Hc. unfold car_due, car_ok in *. cbn [t_last_end t_last_start].
    destruct (o_car o) as [|d|d]; [discriminate| |]; rewrite Z.sub_diag; apply Z.leb_le in Hok; apply Z.ltb_ge; lia. }
  destruct (N.ltb_spec (t_count t) (o_max o)) as [Hlt|Hge].
  - (* count < max: no reset *)
    assert (E : ((t_count t =? o_max o) && car_some (o_car o)) = false).
    { destruct (N.eqb_spec (t_count t) (o_max o)); [lia|reflexivity]. }
    rewrite E.
    destruct (N.ltb_spec (t_count t + 1) (o_max o)) as [Hlt2|Hge2].
    + lia.
    + destruct (car_some (o_car o)) eqn:Ec; cbn [negb]; [|lia].
      rewrite Hnd by reflexivity. lia.
  - destruct Hs as [Hs|Hs]; [discriminate|]. rewrite Hs.
    destruct (car_some (o_car o)) eqn:Ec.
    + destruct (N.eqb_spec (t_count t) (o_max o)) as [Eq|Ne]; cbn [andb].
      * destruct (N.ltb_spec (0 + 1) (o_max o)) as [Hlt2|Hge2]; cbn [negb].
        -- lia.
        -- rewrite Hnd by reflexivity. lia.
      * destruct (N.ltb_spec (t_count t + 1) (o_max o)) as [Hlt2|Hge2]; [lia|]. cbn [negb].
        rewrite Hnd by reflexivity. lia.
    + rewrite andb_false_r.
      destruct (N.ltb_spec (t_count t + 1) (o_max o)) as [Hlt2|Hge2]; [lia|]. cbn [negb].
      destruct (t_count t =? o_max o); lia.
Qed.

(* pacing ticks do not change the potential *)
Lemma phiW_tickf now o t : phiW now o (t_tickf t) = phiW now o t.
Proof. unfold t_tickf. destruct (t_tick t), (t_next_ts t); reflexivity. Qed.
Lemma phiA_tickf now o t : phiA now o (t_tickf t) = phiA now o t.
Proof. unfold t_tickf. destruct (t_tick t), (t_next_ts t); reflexivity. Qed.

(* packets an encoder can still emit *)
Definition pk (e : enc) : nat :=
  if e_stopped e then 0%nat
  else match e_left e with O => if e_sent e =? 0 then 1%nat else 0%nat | S l => S l end.

Lemma pk_read_some force e c e' : enc_read force e = (Some c, e') -> (S (pk e') <= pk e)%nat.
Proof.
  unfold enc_read, pk. destruct (e_stopped e); [discriminate|].
  destruct (e_left e) as [|l].
  - destruct (e_sent e =? 0); [|discriminate]. intros H. inversion H; subst. cbn [e_stopped e_left e_sent].
    change (1 =? 0) with false. destruct force; lia.
  - intros H. inversion H; subst. cbn [e_stopped e_left e_sent].
    destruct force; [lia|]. destruct l; [|lia].
    destruct (N.eqb_spec (e_sent e + 1) 0); lia.
Qed.

Lemma pk_fresh n c : pk (mk_enc n 0 false c) = Nat.max 1 n.
Proof. unfold pk. cbn. destruct n; reflexivity. Qed.

(* ============================== part 2: the potential of a state ============================== *)

Definition oW (now : Z) (t : st) (id : nat) : nat := phiW now (f_o (obj t id)) (f_t (obj t id)).
Definition oA (now : Z) (t : st) (id : nat) : nat := phiA now (f_o (obj t id)) (f_t (obj t id)).
Definition oP (t : st) (id : nat) : nat := Nat.max 1 (o_npk (f_o (obj t id))).

(* transfers still to start / packets still owed by the object of one session *)
Definition slot_cnt (now : Z) (t : st) (ss : session) : nat :=
  match ss_file ss, ss_enc ss with Some id, Some _ => oA now t id | _, _ => 0%nat end.
Definition slot_pk (now : Z) (t : st) (ss : session) : nat :=
  match ss_file ss, ss_enc ss with Some id, Some e => (pk e + oA now t id * oP t id)%nat | _, _ => 0%nat end.

Definition sumf {A} (f : A -> nat) (l : list A) : nat := list_sum (map f l).

Lemma sumf_app {A} (f : A -> nat) a b : sumf f (a ++ b) = (sumf f a + sumf f b)%nat.
Proof. unfold sumf. rewrite map_app, list_sum_app. reflexivity. Qed.
Lemma sumf_cons {A} (f : A -> nat) x l : sumf f (x :: l) = (f x + sumf f l)%nat.
Proof. reflexivity. Qed.
Lemma sumf_nil {A} (f : A -> nat) : sumf f [] = 0%nat.
Proof. reflexivity. Qed.
Lemma sumf_ext {A} (f g : A -> nat) l : (forall x, In x l -> f x = g x) -> sumf f l = sumf g l.
Proof. intros H. unfold sumf. f_equal. apply map_ext_in. exact H. Qed.
Lemma sumf_mid {A} (f : A -> nat) a x b : sumf f (a ++ x :: b) = (sumf f a + f x + sumf f b)%nat.
Proof. rewrite sumf_app, sumf_cons. lia. Qed.

(* file objects: transfers still to start, packets still owed *)
Definition Fcnt (now : Z) (L : list session) (t : st) : nat :=
  (sumf (slot_cnt now t) L + sumf (oW now t) (queue t))%nat.
Definition Fpk (now : Z) (L : list session) (t : st) : nat :=
  (sumf (slot_pk now t) L + sumf (fun id => oW now t id * oP t id)%nat (queue t))%nat.

(* FDT instances: the one in transmission, the current one (carousel), the queued ones *)
Definition cur_pk (now : Z) (t : st) : nat :=
  match cur_fdt t with
  | Some c => if tr_of t c then 0%nat else (oW now t c * oP t c)%nat
  | None => 0%nat
  end.
Definition Dpk (now : Z) (fs : session) (t : st) : nat :=
  (slot_pk now t fs + cur_pk now t + sumf (oP t) (fdtq t))%nat.

(* will the FDT be republished at [now] once the queued instances are out? *)
Definition lp_due (now : Z) (t : st) : bool :=
  match last_publish t with
  | None => true
  | Some lp =>
    let elapsed := Z.max 0 (now - lp) in
    let d := fdt_duration t in
    if (30000000000 <? d)%Z then (d - 5000000000 <? elapsed)%Z
    else if (10000000000 <? d)%Z then (d - 1000000000 <? elapsed)%Z
    else (d <=? elapsed)%Z
  end.
Definition exp_due (now : Z) (t : st) : bool :=
  lp_due now t || (negb (is_some (cur_fdt t)) && Nat.eqb (length (fdtq t)) 0).
Definition Ecnt (now : Z) (t : st) : nat := if exp_due now t then 1%nat else 0%nat.

(* publications still possible at [now], and the packets of the instances they create *)
Definition Kcnt (now : Z) (L : list session) (t : st) : nat :=
  ((if full_fdt t then 0 else Fcnt now L t) + Ecnt now t)%nat.

Definition next_id (id : N) : N := (id + 1) mod 1048576.

Section Cost.
  Variable fdt_npk : N -> nat.
  Fixpoint fdt_cost (id : N) (k : nat) : nat :=
    match k with
    | O => 0%nat
    | S k' => (Nat.max 1 (fdt_npk id) + fdt_cost (next_id id) k')%nat
    end.

  Lemma fdt_cost_mono : forall k k' id, (k' <= k)%nat -> (fdt_cost id k' <= fdt_cost id k)%nat.
  Proof.
    induction k as [|k IH]; intros k' id H.
    - replace k' with 0%nat by lia. apply Nat.le_refl.
    - destruct k' as [|k']; cbn [fdt_cost]; [lia|]. specialize (IH k' (next_id id)). lia.
  Qed.

  Lemma fdt_cost_pub k k' id : (S k' <= k)%nat ->
    (Nat.max 1 (fdt_npk id) + fdt_cost (next_id id) k' <= fdt_cost id k)%nat.
  Proof. intros H. change (fdt_cost id (S k') <= fdt_cost id k)%nat. apply fdt_cost_mono. exact H. Qed.

  (* the potential: packets still owed at the instant [now] *)
  Definition MU (now : Z) (L : list session) (fs : session) (t : st) : nat :=
    (Fpk now L t + Dpk now fs t + fdt_cost (fdtid t) (Kcnt now L t))%nat.

  Lemma mu_same now L fs t L' fs' t' :
    (Fpk now L' t' <= Fpk now L t)%nat -> (Dpk now fs' t' <= Dpk now fs t)%nat ->
    (Kcnt now L' t' <= Kcnt now L t)%nat -> fdtid t' = fdtid t ->
    (MU now L' fs' t' <= MU now L fs t)%nat.
  Proof.
    intros H1 H2 H3 H4. unfold MU. rewrite H4.
    pose proof (fdt_cost_mono _ _ (fdtid t) H3). lia.
  Qed.

  Lemma mu_same_lt now L fs t L' fs' t' :
    (S (Fpk now L' t' + Dpk now fs' t') <= Fpk now L t + Dpk now fs t)%nat ->
    (Kcnt now L' t' <= Kcnt now L t)%nat -> fdtid t' = fdtid t ->
    (S (MU now L' fs' t') <= MU now L fs t)%nat.
  Proof.
    intros H1 H3 H4. unfold MU. rewrite H4.
    pose proof (fdt_cost_mono _ _ (fdtid t) H3). lia.
  Qed.

  Lemma mu_pub now L fs t L' fs' t' :
    (Fpk now L' t' <= Fpk now L t)%nat ->
    (Dpk now fs' t' <= Dpk now fs t + Nat.max 1 (fdt_npk (fdtid t)))%nat ->
    (S (Kcnt now L' t') <= Kcnt now L t)%nat -> fdtid t' = next_id (fdtid t) ->
    (MU now L' fs' t' <= MU now L fs t)%nat.
  Proof.
    intros H1 H2 H3 H4. unfold MU. rewrite H4.
    pose proof (fdt_cost_pub _ _ (fdtid t) H3). lia.
  Qed.
End Cost.

(* ---------- objects that look the same in two states ---------- *)
Definition same_obj (t t' : st) (j : nat) : Prop :=
  f_o (obj t' j) = f_o (obj t j) /\ f_t (obj t' j) = f_t (obj t j).

Lemma same_oW now t t' j : same_obj t t' j -> oW now t' j = oW now t j.
Proof. intros [A B]. unfold oW. rewrite A, B. reflexivity. Qed.
Lemma same_oA now t t' j : same_obj t t' j -> oA now t' j = oA now t j.
Proof. intros [A B]. unfold oA. rewrite A, B. reflexivity. Qed.
Lemma same_oP t t' j : same_obj t t' j -> oP t' j = oP t j.
Proof. intros [A B]. unfold oP. rewrite A. reflexivity. Qed.
Lemma same_tr t t' j : same_obj t t' j -> tr_of t' j = tr_of t j.
Proof. intros [A B]. unfold tr_of. rewrite B. reflexivity. Qed.

Lemma same_obj_refl t j : same_obj t t j.
Proof. split; reflexivity. Qed.
Lemma same_obj_trans t t1 t2 j : same_obj t t1 j -> same_obj t1 t2 j -> same_obj t t2 j.
Proof. intros [A B] [C D]. split; congruence. Qed.

Lemma in_slot_ids_of L ss id : In ss L -> ss_file ss = Some id -> In id (slot_ids L).
Proof.
  intros H Hf. unfold slot_ids. change id with (fst (id, ss_prio ss)). apply in_map.
  unfold slot_pairs. apply in_flat_map. exists ss. split; [assumption|]. rewrite Hf. left. reflexivity.
Qed.

Lemma slot_cnt_same now t t' L :
  (forall j, In j (slot_ids L) -> same_obj t t' j) -> sumf (slot_cnt now t') L = sumf (slot_cnt now t) L.
Proof.
  intros H. apply sumf_ext. intros ss Hss. unfold slot_cnt.
  destruct (ss_file ss) as [id|] eqn:Hf; [|reflexivity]. destruct (ss_enc ss); [|reflexivity].
  apply same_oA. apply H. eapply in_slot_ids_of; eauto.
Qed.

Lemma slot_pk_same now t t' L :
  (forall j, In j (slot_ids L) -> same_obj t t' j) -> sumf (slot_pk now t') L = sumf (slot_pk now t) L.
Proof.
  intros H. apply sumf_ext. intros ss Hss. unfold slot_pk.
  destruct (ss_file ss) as [id|] eqn:Hf; [|reflexivity]. destruct (ss_enc ss); [|reflexivity].
  assert (S : same_obj t t' id) by (apply H; eapply in_slot_ids_of; eauto).
  rewrite (same_oA now _ _ _ S), (same_oP _ _ _ S). reflexivity.
Qed.

Lemma queue_cnt_same now t t' l :
  (forall j, In j l -> same_obj t t' j) -> sumf (oW now t') l = sumf (oW now t) l.
Proof. intros H. apply sumf_ext. intros j Hj. apply same_oW. auto. Qed.

Lemma queue_pk_same now t t' l :
  (forall j, In j l -> same_obj t t' j) ->
  sumf (fun id => oW now t' id * oP t' id)%nat l = sumf (fun id => oW now t id * oP t id)%nat l.
Proof.
  intros H. apply sumf_ext. intros j Hj. cbv beta.
  rewrite (same_oW now _ _ _ (H j Hj)), (same_oP _ _ _ (H j Hj)). reflexivity.
Qed.

Lemma fdtq_pk_same t t' l : (forall j, In j l -> same_obj t t' j) -> sumf (oP t') l = sumf (oP t) l.
Proof. intros H. apply sumf_ext. intros j Hj. apply same_oP. auto. Qed.

(* ============================== part 3: the additional invariant ============================== *)

(* an FDT instance as [publish] creates it *)
Record fdt_shape (t : st) (f : fdesc) : Prop := mk_shape {
  shp_max : o_max (f_o f) = 1;
  shp_car : o_car (f_o f) = fdt_car t;
  shp_target : o_target (f_o f) = TNone;
  shp_prio : o_prio (f_o f) = 0;
  shp_pub : f_pub f = true;
  shp_start : t_start_time (f_t f) = None
}.

Definition fdt_ids (fs : session) (t : st) : list nat := Dq t ++ opt_list (ss_file fs).

Record XINV (fs : session) (t : st) : Prop := mk_XINV {
  x_car : forall j, car_ok (o_car (f_o (obj t j))) = true;
  x_fcar : car_some (fdt_car t) = true /\ car_ok (fdt_car t) = true;
  x_dur : (0 < fdt_duration t)%Z;
  x_shape : forall j, In j (fdt_ids fs t) -> fdt_shape t (obj t j);
  x_fresh : forall j, In j (fdtq t) -> t_transferring (f_t (obj t j)) = false /\ t_count (f_t (obj t j)) = 0;
  x_nodup : NoDup (Dq t);
  x_fs : forall c, ss_file fs = Some c -> cur_fdt t = Some c /\ tr_of t c = true;
  x_files : forall j, In j (files t) -> ~ In j (fdt_ids fs t)
}.

Lemma X_fields fs t t' :
  objs t' = objs t -> incl (files t') (files t) -> fdtq t' = fdtq t -> cur_fdt t' = cur_fdt t ->
  fdt_car t' = fdt_car t -> fdt_duration t' = fdt_duration t ->
  XINV fs t -> XINV fs t'.
Proof.
  intros E1 E2 E3 E4 E5 E6 [A B C D E F G H].
  assert (Eo : forall j, obj t' j = obj t j) by (intros j; unfold obj; rewrite E1; reflexivity).
  assert (Ed : fdt_ids fs t' = fdt_ids fs t) by (unfold fdt_ids, Dq; rewrite E3, E4; reflexivity).
  constructor.
  - intros j. rewrite Eo. apply A.
  - rewrite E5. exact B.
  - rewrite E6. exact C.
  - intros j Hj. rewrite Ed in Hj. destruct (D j Hj) as [D1 D2 D3 D4 D5 D6]. rewrite Eo. constructor; auto.
    rewrite E5. exact D2.
  - intros j Hj. rewrite E3 in Hj. rewrite Eo. apply E. exact Hj.
  - unfold Dq. rewrite E3, E4. exact F.
  - intros c Hc. rewrite E4. unfold tr_of. rewrite Eo. apply G. exact Hc.
  - intros j Hj. apply E2 in Hj. rewrite Ed. apply H. exact Hj.
Qed.

(* a change of the transfer state of an object that is not an FDT instance *)
Lemma X_upd_t fs t id g : XINV fs t -> ~ In id (fdt_ids fs t) -> XINV fs (upd_t t id g).
Proof.
  intros [A B C D E F G H] Hn.
  assert (Ed : fdt_ids fs (upd_t t id g) = fdt_ids fs t) by reflexivity.
  assert (Eo : forall j, In j (fdt_ids fs t) -> obj (upd_t t id g) j = obj t j).
  { intros j Hj. apply obj_upd_t_other. intros ->. contradiction. }
  constructor.
  - intros j. rewrite obj_upd_t_o. apply A.
  - exact B.
  - exact C.
  - intros j Hj. rewrite Ed in Hj. destruct (D j Hj) as [D1 D2 D3 D4 D5 D6]. rewrite (Eo j Hj). constructor; auto.
  - intros j Hj. change (fdtq (upd_t t id g)) with (fdtq t) in Hj. rewrite Eo; [apply E; exact Hj|].
    unfold fdt_ids, Dq. apply in_or_app. left. apply in_or_app. left. exact Hj.
  - exact F.
  - intros c Hc. change (cur_fdt (upd_t t id g)) with (cur_fdt t). unfold tr_of. rewrite Eo; [apply G; exact Hc|].
    unfold fdt_ids. apply in_or_app. right. rewrite Hc. left. reflexivity.
  - intros j Hj. rewrite Ed. apply H. exact Hj.
Qed.

(* a change that keeps the flags the invariant reads (pacing tick) *)
Lemma X_upd_keep fs t id g :
  (forall x, t_transferring (g x) = t_transferring x /\ t_count (g x) = t_count x /\ t_start_time (g x) = t_start_time x) ->
  XINV fs t -> XINV fs (upd_t t id g).
Proof.
  intros Hg [A B C D E F G H].
  assert (Ed : fdt_ids fs (upd_t t id g) = fdt_ids fs t) by reflexivity.
  assert (Et : forall j, t_transferring (f_t (obj (upd_t t id g) j)) = t_transferring (f_t (obj t j))
                         /\ t_count (f_t (obj (upd_t t id g) j)) = t_count (f_t (obj t j))
                         /\ t_start_time (f_t (obj (upd_t t id g) j)) = t_start_time (f_t (obj t j))).
  { intros j. destruct (obj_upd_t_t_cases t id g j) as [Ej|(-> & _ & Ej)]; rewrite Ej; [auto|apply Hg]. }
  constructor.
  - intros j. rewrite obj_upd_t_o. apply A.
  - exact B.
  - exact C.
  - intros j Hj. rewrite Ed in Hj. destruct (D j Hj) as [D1 D2 D3 D4 D5 D6].
    constructor; rewrite ?obj_upd_t_o, ?obj_upd_t_pub; auto.
    destruct (Et j) as (_ & _ & E3). rewrite E3. exact D6.
  - intros j Hj. change (fdtq (upd_t t id g)) with (fdtq t) in Hj. destruct (Et j) as (E1 & E2 & _).
    rewrite E1, E2. apply E. exact Hj.
  - exact F.
  - intros c Hc. change (cur_fdt (upd_t t id g)) with (cur_fdt t). unfold tr_of. destruct (Et c) as (E1 & _).
    rewrite E1. apply G. exact Hc.
  - intros j Hj. rewrite Ed. apply H. exact Hj.
Qed.

Lemma X_tick fs t id : XINV fs t -> XINV fs (upd_t t id t_tickf).
Proof.
  apply X_upd_keep. intros x. unfold t_tickf. destruct (t_tick x), (t_next_ts x); auto.
Qed.

Lemma X_session fs fs' t : ss_file fs' = ss_file fs -> XINV fs t -> XINV fs' t.
Proof.
  intros Ef [A B C D E F G H].
  assert (Ed : fdt_ids fs' t = fdt_ids fs t) by (unfold fdt_ids; rewrite Ef; reflexivity).
  constructor; auto.
  - intros j Hj. rewrite Ed in Hj. auto.
  - intros c Hc. rewrite Ef in Hc. auto.
  - intros j Hj. rewrite Ed. auto.
Qed.

Section X.
  Variable fdt_npk : N -> nat.
  Variable fdt_ok : N -> bool.
  Notation publ := (publish fdt_npk fdt_ok).
  Notation pub_st := (pub_st fdt_npk).

  (* the end of the transfer of a file object (TOI <> 0) *)
  Lemma X_td_file fs t id now :
    XINV fs t -> toi_of t id <> 0 -> ~ In id (fdt_ids fs t) -> XINV fs (transfer_done id now t).
  Proof.
    intros X Hz Hn.
    pose proof (X_upd_t fs t id (t_done now) X Hn) as X1.
    destruct (transfer_done_cases id now t) as [(E0 & _)|(_ & [(Ea & E)|[(Ea & Ee & E)|(Ea & Ee & E)]])];
      [contradiction| | |]; cbv zeta in E; rewrite E.
    - eapply X_fields; [..|exact X1]; try reflexivity. apply incl_refl.
    - eapply X_fields; [..|exact X1]; try reflexivity. apply incl_refl.
    - eapply X_fields; [..|exact X1]; try reflexivity. apply filter_incl.
  Qed.

  Lemma X_pub_st fs t now :
    XINV fs t -> (forall j, In j (fdt_ids fs t) -> (j < length (objs t))%nat) ->
    (forall j, In j (files t) -> (j < length (objs t))%nat) ->
    XINV fs (pub_st now t).
  Proof.
    intros [A B C D E F G H] Hb Hf.
    destruct (pub_st_objs fdt_npk now t) as (P1 & P2 & P3 & P4).
    set (n := length (objs t)) in *.
    assert (Ed : forall j, In j (fdt_ids fs (pub_st now t)) <-> j = n \/ In j (fdt_ids fs t)).
    { intros j. unfold fdt_ids, Dq. cbn [fdtq cur_fdt pub_st]. rewrite !in_app_iff. cbn [In]. fold n. intuition. }
    assert (Hpubn : f_pub (obj (pub_st now t) n) = true).
    { unfold obj, pub_st. cbn [objs].
      set (ob := objs t ++ [mk_fdesc (fdt_obj fdt_npk t) true dummy_t]).
      destruct (fold_set_pub_nth (files t) ob n) as (_ & _ & Cn). cbv zeta in Cn. apply Cn.
      unfold ob. rewrite app_nth2 by (fold n; lia). fold n. rewrite Nat.sub_diag. reflexivity. }
    constructor.
    - intros j. destruct (Nat.lt_ge_cases j n) as [Hl|Hl].
      + destruct (P2 j Hl) as (E1 & _). rewrite E1. apply A.
      + destruct (Nat.eq_dec j n) as [->|Hne].
        * rewrite P3. cbn. apply B.
        * unfold obj. rewrite nth_overflow by (rewrite P1; fold n; lia). reflexivity.
    - exact B.
    - exact C.
    - intros j Hj. apply Ed in Hj. destruct Hj as [->|Hj].
      + constructor; rewrite ?P3, ?P4; try reflexivity. exact Hpubn.
      + destruct (P2 j (Hb j Hj)) as (E1 & E2 & E3). destruct (D j Hj) as [D1 D2 D3 D4 D5 D6].
        constructor; rewrite ?E1, ?E2; auto.
    - intros j Hj. cbn [fdtq pub_st] in Hj. apply in_app_or in Hj. destruct Hj as [Hj|[<-|[]]].
      + assert (Hl : (j < n)%nat) by (apply Hb; unfold fdt_ids, Dq; rewrite !in_app_iff; auto).
        destruct (P2 j Hl) as (_ & E2 & _). rewrite E2. apply E. exact Hj.
      + fold n. rewrite P4. split; reflexivity.
    - unfold Dq. cbn [fdtq cur_fdt pub_st]. fold n.
      assert (Hp : Permutation ((fdtq t ++ [n]) ++ opt_list (cur_fdt t)) (n :: Dq t)).
      { unfold Dq. rewrite <- app_assoc. cbn [app]. symmetry. apply Permutation_middle. }
      eapply Permutation_NoDup; [symmetry; exact Hp|]. constructor; [|exact F].
      intros Hin. assert (n < n)%nat; [|lia]. apply Hb. unfold fdt_ids. apply in_or_app. left. exact Hin.
    - intros c Hc. cbn [cur_fdt pub_st]. destruct (G c Hc) as [G1 G2]. split; [exact G1|].
      assert (Hl : (c < n)%nat) by (apply Hb; unfold fdt_ids; rewrite Hc; apply in_or_app; right; left; reflexivity).
      unfold tr_of. destruct (P2 c Hl) as (_ & E2 & _). rewrite E2. exact G2.
    - intros j Hj. cbn [files pub_st] in Hj. intros Hin. apply Ed in Hin. destruct Hin as [->|Hin].
      + specialize (Hf n Hj). lia.
      + apply (H j Hj Hin).
  Qed.

  Lemma X_publish L fs t now : INV L fs t -> XINV fs t -> XINV fs (snd (publ now t)).
  Proof.
    intros I X. destruct (fdt_ok (fdtid t)) eqn:E.
    - rewrite publish_ok_eq by assumption. cbn [snd]. apply X_pub_st; [assumption| |].
      + intros j Hj. apply (own_fdt _ _ _ _ _ _ _ _ (inv_own _ _ _ I) j Hj).
      + apply (own_files _ _ _ _ _ _ _ _ (inv_own _ _ _ I)).
    - rewrite publish_fail by assumption. assumption.
  Qed.
End X.

(* ============================== part 4: one visit of a file session ============================== *)

Definition is_pkt (o : rout) : bool := match o with RFdt _ _ | RObj _ _ => true | _ => false end.

(* all weights agree *)
Definition wsame (now : Z) (t t' : st) : Prop :=
  forall j, oW now t' j = oW now t j /\ oA now t' j = oA now t j /\ oP t' j = oP t j /\ tr_of t' j = tr_of t j.

Lemma Ecnt_fields now t t' :
  fdtq t' = fdtq t -> cur_fdt t' = cur_fdt t -> last_publish t' = last_publish t ->
  fdt_duration t' = fdt_duration t -> Ecnt now t' = Ecnt now t.
Proof. intros E1 E2 E3 E4. unfold Ecnt, exp_due, lp_due. rewrite E1, E2, E3, E4. reflexivity. Qed.

Lemma comps_wsame now t t' :
  wsame now t t' -> queue t' = queue t -> fdtq t' = fdtq t -> cur_fdt t' = cur_fdt t ->
  forall L fs, Fcnt now L t' = Fcnt now L t /\ Fpk now L t' = Fpk now L t /\ Dpk now fs t' = Dpk now fs t.
Proof.
  intros W Eq Ef Ec L fs.
  assert (Hc : forall ss, slot_cnt now t' ss = slot_cnt now t ss).
  { intros ss. unfold slot_cnt. destruct (ss_file ss) as [id|]; [|reflexivity]. destruct (ss_enc ss); [|reflexivity]. apply W. }
  assert (Hp : forall ss, slot_pk now t' ss = slot_pk now t ss).
  { intros ss. unfold slot_pk. destruct (ss_file ss) as [id|]; [|reflexivity]. destruct (ss_enc ss); [|reflexivity].
    destruct (W id) as (_ & A & B & _). rewrite A, B. reflexivity. }
  unfold Fcnt, Fpk, Dpk, cur_pk. rewrite Eq, Ef, Ec, Hp. repeat split.
  - f_equal; apply sumf_ext; intros; [apply Hc|apply W].
  - f_equal; apply sumf_ext; intros x _; [apply Hp|]. destruct (W x) as (A & _ & B & _). rewrite A, B. reflexivity.
  - f_equal; [f_equal|].
    + destruct (cur_fdt t) as [c|]; [|reflexivity]. destruct (W c) as (A & _ & B & C). rewrite A, B, C. reflexivity.
    + apply sumf_ext. intros x _. apply W.
Qed.

Lemma wsame_tick now t id : wsame now t (upd_t t id t_tickf).
Proof.
  intros j. unfold oW, oA, oP, tr_of. rewrite obj_upd_t_o.
  destruct (obj_upd_t_t_cases t id t_tickf j) as [E|(-> & _ & E)]; rewrite E; [auto|].
  rewrite phiW_tickf, phiA_tickf. repeat split. unfold t_tickf.
  destruct (t_tick (f_t (obj t id))), (t_next_ts (f_t (obj t id))); reflexivity.
Qed.

Lemma nodup_app_l {A} (a b : list A) : NoDup (a ++ b) -> NoDup a.
Proof.
  induction a as [|x a IH]; intros H; [constructor|]. cbn [app] in H. apply NoDup_cons_iff in H.
  destruct H as [H1 H2]. constructor; [|auto]. intros Hx. apply H1. apply in_or_app. left. exact Hx.
Qed.

Lemma nodup_mid_out {A} (a : list A) x b : NoDup (a ++ x :: b) -> ~ In x (a ++ b).
Proof. apply NoDup_remove_2. Qed.

(* the object of a slot is nowhere else *)
Lemma slot_sep L1 ss L2 fs t id :
  INV (L1 ++ ss :: L2) fs t -> ss_file ss = Some id ->
  ~ In id (slot_ids L1) /\ ~ In id (slot_ids L2) /\ ~ In id (queue t) /\ ~ In id (fdt_ids fs t)
  /\ (id < length (objs t))%nat.
Proof.
  intros I Hf. pose proof (inv_own _ _ _ I) as O.
  pose proof (own_nodup _ _ _ _ _ _ _ _ O) as Hnd.
  rewrite (slot_pairs_mid_some _ _ _ _ Hf), ids_mid, <- app_assoc in Hnd. cbn [app] in Hnd.
  apply nodup_mid_out in Hnd. fold (slot_ids L1) (slot_ids L2) in Hnd. rewrite !in_app_iff in Hnd.
  assert (Hin : In id (map fst (slot_pairs (L1 ++ ss :: L2)) ++ queue t)).
  { rewrite (slot_pairs_mid_some _ _ _ _ Hf), ids_mid. apply in_or_app. left. apply in_or_app. right. left. reflexivity. }
  repeat split; try tauto.
  - intros Hd. destruct (own_fdt _ _ _ _ _ _ _ _ O id Hd) as (_ & _ & Hn). contradiction.
  - apply (own_bound _ _ _ _ _ _ _ _ O id Hin).
Qed.

(* a waiting object is nowhere else *)
Lemma queue_sep L fs t a id r :
  INV L fs t -> queue t = a ++ id :: r ->
  ~ In id (slot_ids L) /\ ~ In id a /\ ~ In id r /\ ~ In id (fdt_ids fs t) /\ (id < length (objs t))%nat.
Proof.
  intros I Hq. pose proof (inv_own _ _ _ I) as O.
  pose proof (own_nodup _ _ _ _ _ _ _ _ O) as Hnd. rewrite Hq, app_assoc in Hnd.
  apply nodup_mid_out in Hnd. fold (slot_ids L) in Hnd. rewrite !in_app_iff in Hnd.
  assert (Hin : In id (map fst (slot_pairs L) ++ queue t)).
  { rewrite Hq. apply in_or_app. right. apply in_or_app. right. left. reflexivity. }
  repeat split; try tauto.
  - intros Hd. destruct (own_fdt _ _ _ _ _ _ _ _ O id Hd) as (_ & _ & Hn). contradiction.
  - apply (own_bound _ _ _ _ _ _ _ _ O id Hin).
Qed.

Lemma slot_cnt_empty now t ss : ss_file ss = None -> slot_cnt now t ss = 0%nat.
Proof. intros H. unfold slot_cnt. rewrite H. reflexivity. Qed.
Lemma slot_pk_empty now t ss : ss_file ss = None -> slot_pk now t ss = 0%nat.
Proof. intros H. unfold slot_pk. rewrite H. reflexivity. Qed.

Lemma slot_cnt_full now t ss id e : ss_file ss = Some id -> ss_enc ss = Some e -> slot_cnt now t ss = oA now t id.
Proof. intros H1 H2. unfold slot_cnt. rewrite H1, H2. reflexivity. Qed.
Lemma slot_pk_full now t ss id e : ss_file ss = Some id -> ss_enc ss = Some e ->
  slot_pk now t ss = (pk e + oA now t id * oP t id)%nat.
Proof. intros H1 H2. unfold slot_pk. rewrite H1, H2. reflexivity. Qed.

(* the FDT part only reads FDT instances *)
Lemma Dpk_same now fs t t' :
  (forall j, In j (fdt_ids fs t) -> same_obj t t' j) -> fdtq t' = fdtq t -> cur_fdt t' = cur_fdt t ->
  Dpk now fs t' = Dpk now fs t.
Proof.
  intros H Ef Ec. unfold Dpk, cur_pk. rewrite Ef, Ec. f_equal; [f_equal|].
  - unfold slot_pk. destruct (ss_file fs) as [c|] eqn:Hf; [|reflexivity]. destruct (ss_enc fs); [|reflexivity].
    assert (S : same_obj t t' c) by (apply H; unfold fdt_ids; rewrite Hf; apply in_or_app; right; left; reflexivity).
    rewrite (same_oA now _ _ _ S), (same_oP _ _ _ S). reflexivity.
  - destruct (cur_fdt t) as [c|] eqn:Hc; [|reflexivity].
    assert (S : same_obj t t' c).
    { apply H. unfold fdt_ids, Dq. rewrite Hc. apply in_or_app. left. apply in_or_app. right. left. reflexivity. }
    rewrite (same_oW now _ _ _ S), (same_oP _ _ _ S), (same_tr _ _ _ S). reflexivity.
  - apply fdtq_pk_same. intros j Hj. apply H. unfold fdt_ids, Dq. apply in_or_app. left. apply in_or_app. left. exact Hj.
Qed.

Lemma Kcnt_le now L t L' t' :
  full_fdt t' = full_fdt t -> (Fcnt now L' t' <= Fcnt now L t)%nat -> (Ecnt now t' <= Ecnt now t)%nat ->
  (Kcnt now L' t' <= Kcnt now L t)%nat.
Proof. intros Ef H1 H2. unfold Kcnt. rewrite Ef. destruct (full_fdt t); lia. Qed.

Section FileVisit.
  Variable fdt_npk : N -> nat.
  Variable fdt_ok : N -> bool.
  Variable divf : Z -> N -> option Z.

  Notation srun := (session_run fdt_npk fdt_ok divf).
  Notation gnft := (get_next_file_transfer fdt_npk fdt_ok divf).
  Notation publ := (publish fdt_npk fdt_ok).
  Notation file_run := (file_run fdt_npk fdt_ok divf).
  Notation fresh_run := (fresh_run fdt_npk fdt_ok divf).
  Notation pub_st := (pub_st fdt_npk).
  Notation mpub := (maybe_publish fdt_npk fdt_ok).
  Notation MU := (MU fdt_npk).

  (* ---------- a packet of the transfer in progress ---------- *)
  Lemma emit_mu now L1 ss L2 fs t id e c e' force :
    ss_file ss = Some id -> ss_enc ss = Some e -> enc_read force e = (Some c, e') ->
    (S (MU now (L1 ++ loaded ss id e' :: L2) fs (upd_t t id t_tickf)) <= MU now (L1 ++ ss :: L2) fs t)%nat.
  Proof.
    intros Hf He Er. set (t' := upd_t t id t_tickf). set (L' := L1 ++ loaded ss id e' :: L2).
    destruct (comps_wsame now t t' (wsame_tick now t id) eq_refl eq_refl eq_refl L' fs) as (C1 & C2 & C3).
    assert (EE : Ecnt now t' = Ecnt now t) by (apply Ecnt_fields; reflexivity).
    pose proof (pk_read_some _ _ _ _ Er) as Hpk.
    assert (Hc : Fcnt now L' t = Fcnt now (L1 ++ ss :: L2) t).
    { unfold Fcnt, L'. rewrite !sumf_mid.
      rewrite (slot_cnt_full now t ss id e Hf He), (slot_cnt_full now t (loaded ss id e') id e' eq_refl eq_refl). reflexivity. }
    assert (Hp : (S (Fpk now L' t) <= Fpk now (L1 ++ ss :: L2) t)%nat).
    { unfold Fpk, L'. rewrite !sumf_mid.
      rewrite (slot_pk_full now t ss id e Hf He), (slot_pk_full now t (loaded ss id e') id e' eq_refl eq_refl). lia. }
    apply mu_same_lt; [rewrite C2, C3; lia| |reflexivity].
    apply Kcnt_le; [reflexivity|rewrite C1, Hc; apply Nat.le_refl|rewrite EE; apply Nat.le_refl].
  Qed.

  (* ---------- the end of a transfer ---------- *)
  Lemma td_obj_self id now t : (id < length (objs t))%nat ->
    f_o (obj (transfer_done id now t) id) = f_o (obj t id)
    /\ f_t (obj (transfer_done id now t) id) = t_done now (f_t (obj t id)).
  Proof.
    intros Hl. split; [apply td_obj_o|].
    unfold obj. rewrite td_objs. apply (obj_upd_t_same t id (t_done now) Hl).
  Qed.

  Lemma expired_obj_eq f g : f_o f = f_o g -> f_t f = f_t g -> is_expired f = is_expired g.
  Proof. intros A B. unfold is_expired. rewrite A, B. reflexivity. Qed.

  Lemma release_mu now L1 ss L2 fs t id e :
    INV (L1 ++ ss :: L2) fs t -> NZ (L1 ++ ss :: L2) t ->
    ss_file ss = Some id -> ss_enc ss = Some e ->
    (MU now (L1 ++ empty_of ss :: L2) fs (transfer_done id now t) <= MU now (L1 ++ ss :: L2) fs t)%nat.
  Proof.
    intros I Z Hf He. set (t' := transfer_done id now t). set (L' := L1 ++ empty_of ss :: L2).
    destruct (slot_sep _ _ _ _ _ _ I Hf) as (N1 & N2 & N3 & N4 & Hl).
    assert (Hz : toi_of t id <> 0).
    { apply Z. apply live_mid. right. left. exact Hf. }
    assert (Hsame : forall j, j <> id -> same_obj t t' j).
    { intros j Hj. unfold same_obj, t'. rewrite td_obj_other by assumption. split; reflexivity. }
    destruct (td_obj_self id now t Hl) as (So & St). fold t' in So, St.
    set (s1 := upd_t t id (t_done now)).
    assert (Hfields : fdtq t' = fdtq t /\ cur_fdt t' = cur_fdt t /\ last_publish t' = last_publish t
                      /\ fdt_duration t' = fdt_duration t /\ full_fdt t' = full_fdt t /\ fdtid t' = fdtid t
                      /\ (queue t' = queue t
                          \/ (queue t' = queue t ++ [id] /\ is_expired (obj s1 id) = false))).
    { unfold t'.
      destruct (transfer_done_cases id now t) as [(E0 & _)|(_ & [(Ea & E)|[(Ea & Ee & E)|(Ea & Ee & E)]])];
        [contradiction| | |]; cbv zeta in E; rewrite E; cbn; repeat split; auto. }
    destruct Hfields as (F1 & F2 & F3 & F4 & F5 & F6 & Fq).
    assert (HL1 : forall j, In j (slot_ids L1) -> same_obj t t' j) by (intros j Hj; apply Hsame; intros ->; contradiction).
    assert (HL2 : forall j, In j (slot_ids L2) -> same_obj t t' j) by (intros j Hj; apply Hsame; intros ->; contradiction).
    assert (HQ : forall j, In j (queue t) -> same_obj t t' j) by (intros j Hj; apply Hsame; intros ->; contradiction).
    assert (HD : forall j, In j (fdt_ids fs t) -> same_obj t t' j) by (intros j Hj; apply Hsame; intros ->; contradiction).
    assert (Hw : is_expired (obj s1 id) = false -> oW now t' id = oA now t id /\ oP t' id = oP t id).
    { intros Hx. unfold oW, oA, oP, phiA. rewrite So, St.
      rewrite (expired_obj_eq (mk_fdesc (f_o (obj t id)) false (t_done now (f_t (obj t id)))) (obj s1 id)), Hx; [auto| |].
      - unfold s1. rewrite obj_upd_t_o. reflexivity.
      - unfold s1. rewrite obj_upd_t_same by assumption. reflexivity. }
    assert (Hc : (Fcnt now L' t' <= Fcnt now (L1 ++ ss :: L2) t)%nat).
    { unfold Fcnt, L'. rewrite !sumf_mid. rewrite (slot_cnt_same now t t' L1 HL1), (slot_cnt_same now t t' L2 HL2).
      rewrite (slot_cnt_empty now t' (empty_of ss) eq_refl).
      rewrite (slot_cnt_full now t ss id e Hf He).
      destruct Fq as [Fq|[Fq Hx]]; rewrite Fq.
      - rewrite (queue_cnt_same now t t' _ HQ). lia.
      - rewrite sumf_app, (queue_cnt_same now t t' _ HQ), sumf_cons, sumf_nil. destruct (Hw Hx) as [W1 _]. lia. }
    assert (Hp : (Fpk now L' t' <= Fpk now (L1 ++ ss :: L2) t)%nat).
    { unfold Fpk, L'. rewrite !sumf_mid. rewrite (slot_pk_same now t t' L1 HL1), (slot_pk_same now t t' L2 HL2).
      rewrite (slot_pk_empty now t' (empty_of ss) eq_refl).
      rewrite (slot_pk_full now t ss id e Hf He).
      destruct Fq as [Fq|[Fq Hx]]; rewrite Fq.
      - rewrite (queue_pk_same now t t' _ HQ). lia.
      - rewrite sumf_app, (queue_pk_same now t t' _ HQ), sumf_cons, sumf_nil. destruct (Hw Hx) as [W1 W2].
        rewrite W1, W2. lia. }
    assert (Hd : Dpk now fs t' = Dpk now fs t) by (apply Dpk_same; assumption).
    apply mu_same; [exact Hp|rewrite Hd; apply Nat.le_refl| |exact F6].
    apply Kcnt_le; [exact F5|exact Hc|]. rewrite (Ecnt_fields now t t' F1 F2 F3 F4). apply Nat.le_refl.
  Qed.

  (* ---------- a publication ---------- *)
  Lemma lp_due_now now t : (0 < fdt_duration t)%Z -> last_publish t = Some now -> lp_due now t = false.
  Proof.
    intros Hd Hl. unfold lp_due. rewrite Hl. cbv zeta. rewrite Z.sub_diag.
    change (Z.max 0 0) with 0%Z.
    destruct (30000000000 <? fdt_duration t)%Z eqn:E1; [apply Z.ltb_lt in E1; apply Z.ltb_ge; lia|].
    destruct (10000000000 <? fdt_duration t)%Z eqn:E2; [apply Z.ltb_lt in E2; apply Z.ltb_ge; lia|].
    apply Z.leb_gt. exact Hd.
  Qed.

  Lemma pub_comps now L fs t : INV L fs t -> XINV fs t ->
    Fcnt now L (pub_st now t) = Fcnt now L t /\ Fpk now L (pub_st now t) = Fpk now L t
    /\ Dpk now fs (pub_st now t) = (Dpk now fs t + Nat.max 1 (fdt_npk (fdtid t)))%nat
    /\ Ecnt now (pub_st now t) = 0%nat.
  Proof.
    intros I X. set (t' := pub_st now t). pose proof (inv_own _ _ _ I) as O.
    destruct (pub_st_objs fdt_npk now t) as (P1 & P2 & P3 & P4). fold t' in P1, P2, P3, P4.
    assert (Hs : forall j, (j < length (objs t))%nat -> same_obj t t' j).
    { intros j Hj. destruct (P2 j Hj) as (A & B & _). split; assumption. }
    assert (HL : forall j, In j (slot_ids L) -> same_obj t t' j).
    { intros j Hj. apply Hs. apply (own_bound _ _ _ _ _ _ _ _ O). apply in_or_app. left. exact Hj. }
    assert (HQ : forall j, In j (queue t) -> same_obj t t' j).
    { intros j Hj. apply Hs. apply (own_bound _ _ _ _ _ _ _ _ O). apply in_or_app. right. exact Hj. }
    assert (HD : forall j, In j (fdt_ids fs t) -> same_obj t t' j).
    { intros j Hj. apply Hs. apply (own_fdt _ _ _ _ _ _ _ _ O j Hj). }
    split; [|split; [|split]].
    - unfold Fcnt. change (queue t') with (queue t).
      rewrite (slot_cnt_same now t t' L HL), (queue_cnt_same now t t' _ HQ). reflexivity.
    - unfold Fpk. change (queue t') with (queue t).
      rewrite (slot_pk_same now t t' L HL), (queue_pk_same now t t' _ HQ). reflexivity.
    - unfold Dpk. change (fdtq t') with (fdtq t ++ [length (objs t)]).
      rewrite sumf_app, sumf_cons, sumf_nil.
      assert (E1 : slot_pk now t' fs = slot_pk now t fs).
      { unfold slot_pk. destruct (ss_file fs) as [c|] eqn:Hf; [|reflexivity]. destruct (ss_enc fs); [|reflexivity].
        assert (S : same_obj t t' c) by (apply HD; unfold fdt_ids; rewrite Hf; apply in_or_app; right; left; reflexivity).
        rewrite (same_oA now _ _ _ S), (same_oP _ _ _ S). reflexivity. }
      assert (E2 : cur_pk now t' = cur_pk now t).
      { unfold cur_pk. change (cur_fdt t') with (cur_fdt t). destruct (cur_fdt t) as [c|] eqn:Hc; [|reflexivity].
        assert (S : same_obj t t' c).
        { apply HD. unfold fdt_ids, Dq. rewrite Hc. apply in_or_app. left. apply in_or_app. right. left. reflexivity. }
        rewrite (same_oW now _ _ _ S), (same_oP _ _ _ S), (same_tr _ _ _ S). reflexivity. }
      assert (E3 : sumf (oP t') (fdtq t) = sumf (oP t) (fdtq t)).
      { apply fdtq_pk_same. intros j Hj. apply HD. unfold fdt_ids, Dq. apply in_or_app. left. apply in_or_app. left. exact Hj. }
      rewrite E1, E2, E3. unfold oP at 2. rewrite P3. cbn [o_npk fdt_obj]. lia.
    - unfold Ecnt, exp_due. rewrite (lp_due_now now t' (x_dur _ _ X) eq_refl).
      change (fdtq t') with (fdtq t ++ [length (objs t)]). rewrite app_length. cbn [length].
      replace (length (fdtq t) + 1)%nat with (S (length (fdtq t))) by lia. cbn [Nat.eqb]. rewrite andb_false_r. reflexivity.
  Qed.

  (* ---------- the start of a transfer ---------- *)
  Lemma start_pre now L1 ss L2 fs t a id r ti e :
    INV (L1 ++ ss :: L2) fs t -> XINV fs t -> ss_file ss = None ->
    queue t = a ++ id :: r -> should_transfer_now (obj t id) (ss_prio ss) (full_fdt t) now = true ->
    t_init divf (f_o (obj t id)) now (f_t (obj t id)) = Some ti ->
    pk e = oP t id ->
    let tm := upd_t (log_ev (set_queue t (a ++ r)) (EvStart (toi_of t id))) id (fun _ => ti) in
    let L' := L1 ++ loaded ss id e :: L2 in
    XINV fs tm
    /\ (S (Fcnt now L' tm) <= Fcnt now (L1 ++ ss :: L2) t)%nat
    /\ (Fpk now L' tm <= Fpk now (L1 ++ ss :: L2) t)%nat
    /\ Dpk now fs tm = Dpk now fs t /\ Ecnt now tm = Ecnt now t
    /\ oP tm id = oP t id.
  Proof.
    intros I X Hfn Hq Hs Hi Hpk tm L'.
    destruct (queue_sep _ _ _ _ _ _ I Hq) as (N0 & Na & Nr & Nd & Hl).
    rewrite slot_ids_mid, Hfn in N0. cbn [opt_list app] in N0. rewrite in_app_iff in N0.
    set (t0 := log_ev (set_queue t (a ++ r)) (EvStart (toi_of t id))) in *.
    assert (X0 : XINV fs t0) by (eapply X_fields; [..|exact X]; try reflexivity; apply incl_refl).
    assert (Xm : XINV fs tm) by (apply X_upd_t; [exact X0|exact Nd]).
    assert (Hsame : forall j, j <> id -> same_obj t tm j).
    { intros j Hj. unfold same_obj, tm. rewrite obj_upd_t_other by congruence. split; reflexivity. }
    assert (So : f_o (obj tm id) = f_o (obj t id)) by (unfold tm; rewrite obj_upd_t_o; reflexivity).
    assert (St : f_t (obj tm id) = ti) by (unfold tm; rewrite obj_upd_t_same; [reflexivity|exact Hl]).
    assert (HL1 : forall j, In j (slot_ids L1) -> same_obj t tm j) by (intros j Hj; apply Hsame; intros ->; tauto).
    assert (HL2 : forall j, In j (slot_ids L2) -> same_obj t tm j) by (intros j Hj; apply Hsame; intros ->; tauto).
    assert (HA : forall j, In j a -> same_obj t tm j) by (intros j Hj; apply Hsame; intros ->; tauto).
    assert (HR : forall j, In j r -> same_obj t tm j) by (intros j Hj; apply Hsame; intros ->; tauto).
    assert (HD : forall j, In j (fdt_ids fs t) -> same_obj t tm j) by (intros j Hj; apply Hsame; intros ->; tauto).
    assert (Hphi : (S (oA now tm id) <= oW now t id)%nat).
    { unfold oA, oW. rewrite So, St. eapply phi_start; [apply (x_car _ _ X)|exact Hs|exact Hi]. }
    assert (HP : oP tm id = oP t id) by (unfold oP; rewrite So; reflexivity).
    split; [exact Xm|]. split; [|split; [|split; [|split]]].
    - unfold Fcnt, L'. change (queue tm) with (a ++ r). rewrite Hq, !sumf_mid, !sumf_app.
      rewrite (slot_cnt_same now t tm L1 HL1), (slot_cnt_same now t tm L2 HL2).
      rewrite (queue_cnt_same now t tm a HA), (queue_cnt_same now t tm r HR).
      rewrite (slot_cnt_empty now t ss Hfn), (slot_cnt_full now tm (loaded ss id e) id e eq_refl eq_refl). lia.
    - unfold Fpk, L'. change (queue tm) with (a ++ r). rewrite Hq, !sumf_mid, !sumf_app.
      rewrite (slot_pk_same now t tm L1 HL1), (slot_pk_same now t tm L2 HL2).
      rewrite (queue_pk_same now t tm a HA), (queue_pk_same now t tm r HR).
      rewrite (slot_pk_empty now t ss Hfn), (slot_pk_full now tm (loaded ss id e) id e eq_refl eq_refl).
      rewrite Hpk, HP.
      assert ((oP t id + oA now tm id * oP t id <= oW now t id * oP t id)%nat); [|lia].
      change (oP t id + oA now tm id * oP t id)%nat with (S (oA now tm id) * oP t id)%nat.
      apply Nat.mul_le_mono_r. exact Hphi.
    - apply Dpk_same; [exact HD|reflexivity|reflexivity].
    - apply Ecnt_fields; reflexivity.
    - exact HP.
  Qed.

  Lemma start_all now L1 ss L2 fs t id t1 :
    INV (L1 ++ ss :: L2) fs t -> XINV fs t -> ss_enc ss = None ->
    gnft (ss_prio ss) now t = ROk _ (Some id, t1) ->
    XINV fs t1
    /\ (MU now (L1 ++ loaded ss id (fresh_enc t1 id) :: L2) fs t1 <= MU now (L1 ++ ss :: L2) fs t)%nat.
  Proof.
    intros I X He G.
    destruct (Lwf_mid _ _ _ (inv_L _ _ _ I)) as (_ & A2 & _). pose proof (A2 He) as Hfn.
    pose proof G as G0.
    apply gnft_some in G. destruct G as (a & r & ti & Hq & Hs & _ & Hi & Et1).
    set (tm := upd_t (log_ev (set_queue t (a ++ r)) (EvStart (toi_of t id))) id (fun _ => ti)) in *.
    assert (Im : forall e, INV (L1 ++ loaded ss id e :: L2) fs tm).
    { intros e. eapply inv_start; eauto. eapply stn_prio; eauto. }
    destruct (queue_sep _ _ _ _ _ _ I Hq) as (_ & _ & _ & _ & Hl).
    assert (Hlm : (id < length (objs tm))%nat) by (unfold tm; rewrite len_upd_t; exact Hl).
    (* the encoder of the new transfer has the packets of one transfer *)
    assert (Hpk1 : forall t2, f_o (obj t2 id) = f_o (obj t id) -> pk (fresh_enc t2 id) = oP t id).
    { intros t2 E. unfold fresh_enc. rewrite pk_fresh. unfold oP. rewrite E. reflexivity. }
    assert (Hom : f_o (obj tm id) = f_o (obj t id)) by (unfold tm; rewrite obj_upd_t_o; reflexivity).
    pose proof (fun e Hpe => start_pre now L1 ss L2 fs t a id r ti e I X Hfn Hq Hs Hi Hpe) as Pre.
    cbv zeta in Pre. fold tm in Pre.
    unfold maybe_publish in Et1. change (full_fdt tm) with (full_fdt t) in Et1.
    destruct (full_fdt t) eqn:Efull.
    - (* full FDT: no publication *)
      subst t1.
      destruct (Pre (fresh_enc tm id) (Hpk1 tm Hom)) as (Xm & C1 & C2 & C3 & C4 & _).
      split; [exact Xm|]. apply mu_same; [exact C2|rewrite C3; apply Nat.le_refl| |reflexivity].
      apply Kcnt_le; [reflexivity|lia|rewrite C4; apply Nat.le_refl].
    - destruct (fdt_ok (fdtid tm)) eqn:Eok.
      + rewrite publish_ok_eq in Et1 by assumption. cbn [snd] in Et1. subst t1.
        destruct (pub_st_objs fdt_npk now tm) as (_ & P2 & _).
        assert (Ho1 : f_o (obj (pub_st now tm) id) = f_o (obj t id)) by (destruct (P2 id Hlm) as (E & _); congruence).
        set (e := fresh_enc (pub_st now tm) id).
        destruct (Pre e (Hpk1 _ Ho1)) as (Xm & C1 & C2 & C3 & C4 & _).
        destruct (pub_comps now _ fs tm (Im e) Xm) as (Q1 & Q2 & Q3 & Q4).
        split.
        * apply X_pub_st; [exact Xm| |].
          -- intros j Hj. apply (own_fdt _ _ _ _ _ _ _ _ (inv_own _ _ _ (Im e)) j Hj).
          -- apply (own_files _ _ _ _ _ _ _ _ (inv_own _ _ _ (Im e))).
        * apply mu_pub.
          -- rewrite Q2. exact C2.
          -- rewrite Q3, C3. apply Nat.le_refl.
          -- unfold Kcnt. change (full_fdt (pub_st now tm)) with (full_fdt t). rewrite Efull, Q1, Q4. lia.
          -- reflexivity.
      + rewrite publish_fail in Et1 by assumption. cbn [snd] in Et1. subst t1.
        destruct (Pre (fresh_enc tm id) (Hpk1 tm Hom)) as (Xm & C1 & C2 & C3 & C4 & _).
        split; [exact Xm|]. apply mu_same; [exact C2|rewrite C3; apply Nat.le_refl| |reflexivity].
        apply Kcnt_le; [reflexivity|lia|rewrite C4; apply Nat.le_refl].
  Qed.

  (* ---------- one visit ---------- *)
  Lemma mu_slot_eq now L1 ss ss' L2 fs t :
    slot_cnt now t ss' = slot_cnt now t ss -> slot_pk now t ss' = slot_pk now t ss ->
    MU now (L1 ++ ss' :: L2) fs t = MU now (L1 ++ ss :: L2) fs t.
  Proof.
    intros E1 E2. unfold C12Quiesce.MU, Kcnt, Fcnt, Fpk. rewrite !sumf_mid, E1, E2. reflexivity.
  Qed.

  Lemma fresh_run_mu now L1 ss0 L2 fs t o ss' t' :
    INV (L1 ++ ss0 :: L2) fs t -> XINV fs t -> ss_enc ss0 = None -> fresh_run now ss0 t o ss' t' ->
    XINV fs t' /\ (MU now (L1 ++ ss' :: L2) fs t' <= MU now (L1 ++ ss0 :: L2) fs t)%nat
    /\ (is_pkt o = true -> (S (MU now (L1 ++ ss' :: L2) fs t') <= MU now (L1 ++ ss0 :: L2) fs t)%nat).
  Proof.
    intros I X He R.
    destruct (Lwf_mid _ _ _ (inv_L _ _ _ I)) as (_ & A2 & _). pose proof (A2 He) as Hfn.
    destruct R as [G|G|id t1 G Hw|id t1 c e' G Hq Hp Er].
    - split; [exact X|]. split; [apply Nat.le_refl|discriminate].
    - split; [exact X|]. rewrite (mu_slot_eq now L1 ss0 (empty_of ss0) L2 fs t).
      + split; [apply Nat.le_refl|discriminate].
      + rewrite (slot_cnt_empty now t ss0 Hfn). apply slot_cnt_empty. reflexivity.
      + rewrite (slot_pk_empty now t ss0 Hfn). apply slot_pk_empty. reflexivity.
    - destruct (start_all now L1 ss0 L2 fs t id t1 I X He G) as [X1 M1].
      split; [exact X1|]. split; [exact M1|discriminate].
    - destruct (start_all now L1 ss0 L2 fs t id t1 I X He G) as [X1 M1].
      pose proof (emit_mu now L1 (loaded ss0 id (fresh_enc t1 id)) L2 fs t1 id _ c e' _ eq_refl eq_refl Er) as M2.
      change (loaded (loaded ss0 id (fresh_enc t1 id)) id e') with (loaded ss0 id e') in M2.
      split; [apply X_tick; exact X1|]. split; [lia|intros _; lia].
  Qed.

  Lemma file_run_mu now L1 ss L2 fs t o ss' t' :
    INV (L1 ++ ss :: L2) fs t -> XINV fs t -> NZ (L1 ++ ss :: L2) t -> file_run now ss t o ss' t' ->
    XINV fs t' /\ (MU now (L1 ++ ss' :: L2) fs t' <= MU now (L1 ++ ss :: L2) fs t)%nat
    /\ (is_pkt o = true -> (S (MU now (L1 ++ ss' :: L2) fs t') <= MU now (L1 ++ ss :: L2) fs t)%nat).
  Proof.
    intros I X Z R.
    destruct R as [id e Hf He Hw|e He Hf|id e c e' Hf He Hq Hp Er|o ss' t' He R|id e e' o ss' t' Hf He Hq Hp Er R].
    - split; [exact X|]. split; [apply Nat.le_refl|discriminate].
    - split; [exact X|]. split; [apply Nat.le_refl|discriminate].
    - pose proof (emit_mu now L1 ss L2 fs t id e c e' _ Hf He Er) as M.
      split; [apply X_tick; exact X|]. split; [lia|intros _; exact M].
    - eapply fresh_run_mu; eauto.
    - destruct (slot_sep _ _ _ _ _ _ I Hf) as (_ & _ & _ & N4 & _).
      assert (Hz : toi_of t id <> 0) by (apply Z; apply live_mid; right; left; exact Hf).
      pose proof (release_mu now L1 ss L2 fs t id e I Z Hf He) as M1.
      pose proof (X_td_file fs t id now X Hz N4) as X1.
      pose proof (inv_transfer_done L1 ss L2 fs t id now I Hf) as I1.
      destruct (fresh_run_mu now L1 (empty_of ss) L2 fs _ o ss' t' I1 X1 eq_refl R) as (X2 & M2 & M3).
      split; [exact X2|]. split; [lia|intros Ho; specialize (M3 Ho); lia].
  Qed.

  Notation vstep := (vstep fdt_npk fdt_ok divf).
  Notation qpath := (qpath fdt_npk fdt_ok divf).

  Lemma vstep_mu now L fs t ss o L' t' :
    INV L fs t -> XINV fs t -> NZ L t -> vstep now L t ss o L' t' ->
    INV L' fs t' /\ XINV fs t' /\ NZ L' t' /\ (MU now L' fs t' <= MU now L fs t)%nat
    /\ (is_pkt o = true -> (S (MU now L' fs t') <= MU now L fs t)%nat).
  Proof.
    intros I X Z V.
    pose proof (inv_vstep _ _ _ _ _ _ _ _ _ _ _ I V) as I'.
    pose proof (nz_shrink _ _ _ _ _ I Z (shrink_vstep _ _ _ _ _ _ _ _ _ _ _ I V)) as Z'.
    destruct V as [L1 ss L2 t o ss' t' H].
    destruct (Lwf_mid _ _ _ (inv_L _ _ _ I)) as (A1 & _).
    apply file_run_inv in H; [|assumption].
    destruct (file_run_mu now L1 ss L2 fs t o ss' t' I X Z H) as (X' & M1 & M2).
    split; [exact I'|]. split; [exact X'|]. split; [exact Z'|]. split; [exact M1|exact M2].
  Qed.

  Lemma qpath_mu now L fs t L' t' :
    INV L fs t -> XINV fs t -> NZ L t -> qpath now L t L' t' ->
    INV L' fs t' /\ XINV fs t' /\ NZ L' t' /\ (MU now L' fs t' <= MU now L fs t)%nat.
  Proof.
    intros I X Z P. revert I X Z. induction P as [|L t ss L1 t1 L2 t2 V P IH]; intros I X Z.
    - split; [exact I|]. split; [exact X|]. split; [exact Z|apply Nat.le_refl].
    - destruct (vstep_mu now L fs t ss RNothing L1 t1 I X Z V) as (I1 & X1 & Z1 & M1 & _).
      destruct (IH I1 X1 Z1) as (I2 & X2 & Z2 & M2).
      split; [exact I2|]. split; [exact X2|]. split; [exact Z2|lia].
  Qed.
End FileVisit.

(* ============================== part 5: one run of the FDT session ============================== *)

Definition pop_fdt (t : st) : st :=
  match fdtq t with [] => t | x :: r => set_cur_fdt (set_fdtq t r) (Some x) end.

Section FdtVisit.
  Variable fdt_npk : N -> nat.
  Variable fdt_ok : N -> bool.
  Variable divf : Z -> N -> option Z.

  Notation srun := (session_run fdt_npk fdt_ok divf).
  Notation gnfdt := (get_next_fdt_transfer fdt_npk fdt_ok divf).
  Notation publ := (publish fdt_npk fdt_ok).
  Notation pub_st := (pub_st fdt_npk).
  Notation MU := (MU fdt_npk).

  (* the FDT part of the potential; K0 = transfers of file objects that will publish *)
  Definition DM (now : Z) (fs : session) (t : st) (K0 : nat) : nat :=
    (Dpk now fs t + fdt_cost fdt_npk (fdtid t) (K0 + Ecnt now t))%nat.

  Lemma dm_same now fs t fs' t' K0 :
    (Dpk now fs' t' <= Dpk now fs t)%nat -> (Ecnt now t' <= Ecnt now t)%nat -> fdtid t' = fdtid t ->
    (DM now fs' t' K0 <= DM now fs t K0)%nat.
  Proof.
    intros H1 H2 H3. unfold DM. rewrite H3.
    assert (H : (K0 + Ecnt now t' <= K0 + Ecnt now t)%nat) by lia.
    pose proof (fdt_cost_mono fdt_npk _ _ (fdtid t) H). lia.
  Qed.

  Lemma dm_same_lt now fs t fs' t' K0 :
    (S (Dpk now fs' t') <= Dpk now fs t)%nat -> (Ecnt now t' <= Ecnt now t)%nat -> fdtid t' = fdtid t ->
    (S (DM now fs' t' K0) <= DM now fs t K0)%nat.
  Proof.
    intros H1 H2 H3. unfold DM. rewrite H3.
    assert (H : (K0 + Ecnt now t' <= K0 + Ecnt now t)%nat) by lia.
    pose proof (fdt_cost_mono fdt_npk _ _ (fdtid t) H). lia.
  Qed.

  (* [current_fdt_will_expire] is covered by the indicator of the potential *)
  Lemma will_expire_due now t : current_fdt_will_expire now t = true -> Ecnt now t = 1%nat.
  Proof.
    unfold current_fdt_will_expire, Ecnt, exp_due, lp_due. intros H.
    destruct (fdtq t) as [|x r]; [|discriminate]. cbn [length Nat.eqb]. rewrite andb_true_r.
    destruct (cur_fdt t) as [c|]; cbn [is_some negb]; [|rewrite orb_true_r; reflexivity].
    destruct (last_publish t) as [lp|]; [|reflexivity].
    cbv zeta in H. rewrite H. reflexivity.
  Qed.

  (* ---------- republication by expiry ---------- *)
  Lemma exp_publish_mu now L fs t K0 :
    INV L fs t -> XINV fs t ->
    let t' := if current_fdt_will_expire now t then snd (publ now t) else t in
    INV L fs t' /\ XINV fs t' /\ (DM now fs t' K0 <= DM now fs t K0)%nat.
  Proof.
    intros I X. cbv zeta. destruct (current_fdt_will_expire now t) eqn:Ew.
    2:{ split; [exact I|]. split; [exact X|apply Nat.le_refl]. }
    split; [apply inv_publish; exact I|]. split; [eapply X_publish; eauto|].
    destruct (fdt_ok (fdtid t)) eqn:Eo.
    - rewrite publish_ok_eq by assumption. cbn [snd].
      destruct (pub_comps fdt_npk now L fs t I X) as (_ & _ & Q3 & Q4).
      unfold DM. rewrite Q3, Q4, (will_expire_due now t Ew).
      change (fdtid (pub_st now t)) with (next_id (fdtid t)).
      assert (H : (S (K0 + 0) <= K0 + 1)%nat) by lia.
      pose proof (fdt_cost_pub fdt_npk _ _ (fdtid t) H). lia.
    - rewrite publish_fail by assumption. apply Nat.le_refl.
  Qed.

  (* ---------- the next queued instance becomes the current one ---------- *)
  Lemma oW_fresh now fs t x : XINV fs t -> In x (fdtq t) -> oW now t x = 1%nat.
  Proof.
    intros X Hx. destruct (x_fresh _ _ X x Hx) as [_ Hc].
    assert (Hs : fdt_shape t (obj t x)).
    { apply (x_shape _ _ X). unfold fdt_ids, Dq. apply in_or_app. left. apply in_or_app. left. exact Hx. }
    unfold oW, phiW. rewrite Hc, (shp_max _ _ Hs). reflexivity.
  Qed.

  Lemma pop_mu now fs t K0 :
    XINV fs t -> ss_file fs = None ->
    XINV fs (pop_fdt t) /\ (DM now fs (pop_fdt t) K0 <= DM now fs t K0)%nat.
  Proof.
    intros X Hfn. unfold pop_fdt. destruct (fdtq t) as [|x r] eqn:Eq.
    { split; [exact X|apply Nat.le_refl]. }
    set (t2 := set_cur_fdt (set_fdtq t r) (Some x)).
    assert (Eo : forall j, obj t2 j = obj t j) by reflexivity.
    assert (Hsub : forall j, In j (fdt_ids fs t2) -> In j (fdt_ids fs t)).
    { intros j. unfold fdt_ids, Dq. cbn [fdtq cur_fdt t2 set_cur_fdt set_fdtq]. rewrite Eq, Hfn. cbn [opt_list].
      rewrite !in_app_iff. cbn [In]. intuition. }
    split.
    - destruct X as [A B C D E F G H]. constructor.
      + intros j. rewrite Eo. apply A.
      + exact B.
      + exact C.
      + intros j Hj. destruct (D j (Hsub j Hj)) as [D1 D2 D3 D4 D5 D6]. rewrite Eo. constructor; auto.
      + intros j Hj. cbn [fdtq t2 set_cur_fdt set_fdtq] in Hj. rewrite Eo. apply E. rewrite Eq. right. exact Hj.
      + unfold Dq in *. cbn [fdtq cur_fdt t2 set_cur_fdt set_fdtq opt_list]. rewrite Eq in F.
        apply nodup_app_l in F. eapply Permutation_NoDup; [|exact F].
        change (x :: r) with ([x] ++ r). apply Permutation_app_comm.
      + intros c Hc. rewrite Hfn in Hc. discriminate.
      + intros j Hj Hin. apply (H j Hj). apply Hsub. exact Hin.
    - assert (Hx : In x (fdtq t)) by (rewrite Eq; left; reflexivity).
      pose proof (oW_fresh now fs t x X Hx) as Hw.
      apply dm_same; [| |reflexivity].
      + unfold Dpk. change (slot_pk now t2 fs) with (slot_pk now t fs).
        change (fdtq t2) with r. rewrite Eq, sumf_cons. change (sumf (oP t2) r) with (sumf (oP t) r).
        unfold cur_pk at 1. change (cur_fdt t2) with (Some x). cbv iota.
        change (tr_of t2 x) with (tr_of t x). change (oW now t2 x) with (oW now t x). change (oP t2 x) with (oP t x).
        rewrite Hw. destruct (tr_of t x); lia.
      + unfold Ecnt, exp_due. change (lp_due now t2) with (lp_due now t).
        change (cur_fdt t2) with (Some x). rewrite Eq. cbn [is_some negb andb length Nat.eqb].
        rewrite andb_false_r. apply Nat.le_refl.
  Qed.

  (* ---------- the current instance starts a transfer ---------- *)
  Lemma t_init_keeps o now x ti : t_init divf o now x = Some ti ->
    t_transferring ti = true /\ t_start_time ti = t_start_time x.
  Proof.
    unfold t_init.
    destruct (match o_target o with
              | TNone | TFast => Some None
              | TDuration d => match divf d (N.max 1 (o_nsrc o)) with Some k => Some (Some k) | None => None end
              | TTime tm => match divf (Z.max 0 (tm - now)) (N.max 1 (o_nsrc o)) with Some k => Some (Some k) | None => None end
              end) as [tk|]; [|discriminate].
    intros H. inversion H; subst. split; reflexivity.
  Qed.

  Lemma fdt_start_mu now fs t c ti K0 :
    (c < length (objs t))%nat -> XINV fs t -> ss_file fs = None -> cur_fdt t = Some c ->
    should_transfer_now (obj t c) 0 (full_fdt t) now = true ->
    t_init divf (f_o (obj t c)) now (f_t (obj t c)) = Some ti ->
    let t' := upd_t t c (fun _ => ti) in
    let fs' := loaded fs c (fresh_enc t' c) in
    XINV fs' t' /\ (DM now fs' t' K0 <= DM now fs t K0)%nat.
  Proof.
    intros Hl X Hfn Hc Hs Hi t' fs'.
    destruct (t_init_keeps _ _ _ _ Hi) as [Htr Hst].
    assert (Hcd : In c (Dq t)) by (unfold Dq; rewrite Hc; apply in_or_app; right; left; reflexivity).
    assert (Hnq : ~ In c (fdtq t)).
    { pose proof (x_nodup _ _ X) as Hnd. unfold Dq in Hnd. rewrite Hc in Hnd. cbn [opt_list] in Hnd.
      intros Hin. apply in_split in Hin. destruct Hin as (l1 & l2 & El). rewrite El, <- app_assoc in Hnd.
      cbn [app] in Hnd. apply NoDup_remove_2 in Hnd. apply Hnd. apply in_or_app. right. apply in_or_app. right. left. reflexivity. }
    assert (So : forall j, f_o (obj t' j) = f_o (obj t j)) by (intros j; unfold t'; apply obj_upd_t_o).
    assert (St : f_t (obj t' c) = ti) by (unfold t'; rewrite obj_upd_t_same; [reflexivity|exact Hl]).
    assert (Hother : forall j, j <> c -> obj t' j = obj t j) by (intros j Hj; unfold t'; apply obj_upd_t_other; congruence).
    assert (Hids : forall j, In j (fdt_ids fs' t') <-> In j (fdt_ids fs t)).
    { intros j. unfold fdt_ids. change (Dq t') with (Dq t). cbn [ss_file fs' loaded]. rewrite Hfn. cbn [opt_list].
      rewrite !in_app_iff. cbn [In]. split; [intros [H|[<-|[]]]; auto|intros [H|[]]; auto]. }
    split.
    - destruct X as [A B C D E F G H]. constructor.
      + intros j. rewrite So. apply A.
      + exact B.
      + exact C.
      + intros j Hj. apply Hids in Hj. destruct (D j Hj) as [D1 D2 D3 D4 D5 D6].
        constructor; rewrite ?So; auto.
        * unfold t'. rewrite obj_upd_t_pub. exact D5.
        * destruct (Nat.eq_dec j c) as [->|Hne]; [rewrite St, Hst; exact D6|rewrite Hother by assumption; exact D6].
      + intros j Hj. change (fdtq t') with (fdtq t) in Hj. rewrite Hother; [apply E; exact Hj|].
        intros ->. contradiction.
      + exact F.
      + intros c0 Hc0. cbn [ss_file fs' loaded] in Hc0. inversion Hc0; subst c0.
        split; [exact Hc|]. unfold tr_of. rewrite St. exact Htr.
      + intros j Hj Hin. apply Hids in Hin. apply (H j Hj Hin).
    - apply dm_same; [| |reflexivity].
      + unfold Dpk. change (fdtq t') with (fdtq t).
        assert (E3 : sumf (oP t') (fdtq t) = sumf (oP t) (fdtq t)).
        { apply sumf_ext. intros j Hj. unfold oP. rewrite So. reflexivity. }
        rewrite E3. rewrite (slot_pk_empty now t fs Hfn).
        rewrite (slot_pk_full now t' fs' c (fresh_enc t' c) eq_refl eq_refl).
        unfold cur_pk. change (cur_fdt t') with (cur_fdt t). rewrite Hc.
        assert (T1 : tr_of t' c = true) by (unfold tr_of; rewrite St; exact Htr).
        assert (T0 : tr_of t c = false) by (unfold tr_of; eapply stn_not_transferring; eauto).
        rewrite T1, T0. unfold fresh_enc. rewrite pk_fresh.
        assert (HP : oP t' c = oP t c) by (unfold oP; rewrite So; reflexivity).
        fold (oP t' c). rewrite HP.
        assert (Hphi : (S (oA now t' c) <= oW now t c)%nat).
        { unfold oA, oW. rewrite So, St. eapply phi_start; [apply (x_car _ _ X)|exact Hs|exact Hi]. }
        assert ((oP t c + oA now t' c * oP t c <= oW now t c * oP t c)%nat); [|lia].
        change (oP t c + oA now t' c * oP t c)%nat with (S (oA now t' c) * oP t c)%nat.
        apply Nat.mul_le_mono_r. exact Hphi.
      + rewrite (Ecnt_fields now t t'); [apply Nat.le_refl|reflexivity..].
  Qed.

  (* ---------- the end of the transfer of an FDT instance ---------- *)
  Lemma td_fdt_eq now fs t c :
    XINV fs t -> ss_file fs = Some c -> toi_of t c = 0 -> transfer_done c now t = upd_t t c (t_done now).
  Proof.
    intros X Hf Hz. unfold transfer_done.
    assert (Hs : fdt_shape t (obj t c)).
    { apply (x_shape _ _ X). unfold fdt_ids. rewrite Hf. apply in_or_app. right. left. reflexivity. }
    rewrite obj_upd_t_o. fold (toi_of t c). rewrite Hz. change (0 =? 0) with true. cbv iota.
    unfold is_expired. rewrite obj_upd_t_o, (shp_car _ _ Hs). rewrite (proj1 (x_fcar _ _ X)).
    destruct (_ <? _); reflexivity.
  Qed.

  Lemma fdt_done_mu now fs t c e K0 :
    (c < length (objs t))%nat -> toi_of t c = 0 -> XINV fs t -> ss_file fs = Some c -> ss_enc fs = Some e ->
    let t' := transfer_done c now t in
    XINV (empty_of fs) t' /\ (DM now (empty_of fs) t' K0 <= DM now fs t K0)%nat.
  Proof.
    intros Hl Hz X Hf He t'. unfold t'. rewrite (td_fdt_eq now fs t c X Hf Hz). clear t'. set (t' := upd_t t c (t_done now)).
    destruct (x_fs _ _ X c Hf) as [Hc Htr].
    assert (Hs : fdt_shape t (obj t c)).
    { apply (x_shape _ _ X). unfold fdt_ids. rewrite Hf. apply in_or_app. right. left. reflexivity. }
    assert (Hnq : ~ In c (fdtq t)).
    { pose proof (x_nodup _ _ X) as Hnd. unfold Dq in Hnd. rewrite Hc in Hnd. cbn [opt_list] in Hnd.
      intros Hin. apply in_split in Hin. destruct Hin as (l1 & l2 & El). rewrite El, <- app_assoc in Hnd.
      cbn [app] in Hnd. apply NoDup_remove_2 in Hnd. apply Hnd. apply in_or_app. right. apply in_or_app. right. left. reflexivity. }
    assert (So : forall j, f_o (obj t' j) = f_o (obj t j)) by (intros j; unfold t'; apply obj_upd_t_o).
    assert (St : f_t (obj t' c) = t_done now (f_t (obj t c))) by (unfold t'; rewrite obj_upd_t_same; [reflexivity|exact Hl]).
    assert (Hother : forall j, j <> c -> obj t' j = obj t j) by (intros j Hj; unfold t'; apply obj_upd_t_other; congruence).
    assert (Hids : forall j, In j (fdt_ids (empty_of fs) t') -> In j (fdt_ids fs t)).
    { intros j. unfold fdt_ids. change (Dq t') with (Dq t). cbn [ss_file empty_of opt_list]. rewrite app_nil_r.
      intros H. apply in_or_app. left. exact H. }
    split.
    - destruct X as [A B C D E F G H]. constructor.
      + intros j. rewrite So. apply A.
      + exact B.
      + exact C.
      + intros j Hj. apply Hids in Hj. destruct (D j Hj) as [D1 D2 D3 D4 D5 D6].
        constructor; rewrite ?So; auto.
        * unfold t'. rewrite obj_upd_t_pub. exact D5.
        * destruct (Nat.eq_dec j c) as [->|Hne]; [rewrite St; exact D6|rewrite Hother by assumption; exact D6].
      + intros j Hj. change (fdtq t') with (fdtq t) in Hj. rewrite Hother; [apply E; exact Hj|].
        intros ->. contradiction.
      + exact F.
      + intros c0 Hc0. discriminate.
      + intros j Hj Hin. apply Hids in Hin. apply (H j Hj Hin).
    - apply dm_same; [| |reflexivity].
      + unfold Dpk. change (fdtq t') with (fdtq t).
        assert (E3 : sumf (oP t') (fdtq t) = sumf (oP t) (fdtq t)).
        { apply sumf_ext. intros j Hj. unfold oP. rewrite So. reflexivity. }
        rewrite E3. rewrite (slot_pk_empty now t' (empty_of fs) eq_refl).
        rewrite (slot_pk_full now t fs c e Hf He).
        unfold cur_pk. change (cur_fdt t') with (cur_fdt t). rewrite Hc, Htr.
        assert (T1 : tr_of t' c = false) by (unfold tr_of; rewrite St; reflexivity).
        rewrite T1.
        assert (HP : oP t' c = oP t c) by (unfold oP; rewrite So; reflexivity).
        assert (HW : oW now t' c = oA now t c).
        { unfold oW, oA, phiA. rewrite So, St. unfold is_expired. cbn [f_o f_t].
          rewrite (shp_car _ _ Hs), (proj1 (x_fcar _ _ X)). destruct (_ <? _); reflexivity. }
        rewrite HP, HW. lia.
      + rewrite (Ecnt_fields now t t'); [apply Nat.le_refl|reflexivity..].
  Qed.

  (* ---------- a packet of the FDT instance in transmission ---------- *)
  Lemma fdt_emit_mu now fs t c e cl e' force K0 :
    XINV fs t -> ss_file fs = Some c -> ss_enc fs = Some e -> enc_read force e = (Some cl, e') ->
    XINV (loaded fs c e') (upd_t t c t_tickf)
    /\ (S (DM now (loaded fs c e') (upd_t t c t_tickf) K0) <= DM now fs t K0)%nat.
  Proof.
    intros X Hf He Er. split.
    - apply X_tick. eapply X_session; [|exact X]. cbn. symmetry. exact Hf.
    - set (t' := upd_t t c t_tickf).
      destruct (comps_wsame now t t' (wsame_tick now t c) eq_refl eq_refl eq_refl [] (loaded fs c e')) as (_ & _ & C3).
      pose proof (pk_read_some _ _ _ _ Er) as Hpk.
      apply dm_same_lt; [| |reflexivity].
      + rewrite C3. unfold Dpk. rewrite (slot_pk_full now t fs c e Hf He).
        rewrite (slot_pk_full now t (loaded fs c e') c e' eq_refl eq_refl). lia.
      + rewrite (Ecnt_fields now t t'); [apply Nat.le_refl|reflexivity..].
  Qed.

  (* ---------- get_next_fdt_transfer ---------- *)
  Lemma Dq_pop t j : In j (Dq (pop_fdt t)) -> In j (Dq t).
  Proof.
    unfold pop_fdt. destruct (fdtq t) as [|x r] eqn:Eq; [auto|].
    unfold Dq. cbn [fdtq cur_fdt set_cur_fdt set_fdtq opt_list]. rewrite Eq, !in_app_iff. cbn [In]. intuition.
  Qed.

  Lemma gnfdt_unfold now t :
    gnfdt now t =
    if match cur_fdt t with Some c => t_transferring (f_t (obj t c)) | None => false end then ROk _ (None, t)
    else
      let t2 := pop_fdt (if current_fdt_will_expire now t then snd (publ now t) else t) in
      match cur_fdt t2 with
      | None => ROk _ (None, t2)
      | Some c =>
        if should_transfer_now (obj t2 c) 0 (full_fdt t2) now then
          match t_init divf (f_o (obj t2 c)) now (f_t (obj t2 c)) with
          | None => RPanicked _
          | Some ti => ROk _ (Some c, upd_t t2 c (fun _ => ti))
          end
        else ROk _ (None, t2)
      end.
  Proof.
    unfold get_next_fdt_transfer, pop_fdt, transfer_started.
    destruct (match cur_fdt t with Some c => t_transferring (f_t (obj t c)) | None => false end); [reflexivity|].
    cbv zeta.
    destruct (cur_fdt _) as [c|]; [|reflexivity].
    destruct (should_transfer_now _ _ _ _); [|reflexivity].
    destruct (t_init _ _ _ _); reflexivity.
  Qed.

  Lemma gnfdt_mu now L fs t x t1 K0 :
    INV L fs t -> XINV fs t -> ss_file fs = None ->
    gnfdt now t = ROk _ (x, t1) ->
    match x with
    | None => XINV fs t1 /\ (DM now fs t1 K0 <= DM now fs t K0)%nat
    | Some c => XINV (loaded fs c (fresh_enc t1 c)) t1
                /\ (DM now (loaded fs c (fresh_enc t1 c)) t1 K0 <= DM now fs t K0)%nat
                /\ paced now t1 c = false
    end.
  Proof.
    intros I X Hfn G. rewrite gnfdt_unfold in G.
    destruct (match cur_fdt t with Some c => t_transferring (f_t (obj t c)) | None => false end).
    { inversion G; subst. split; [exact X|apply Nat.le_refl]. }
    cbv zeta in G.
    destruct (exp_publish_mu now L fs t K0 I X) as (I1 & X1 & M1). cbv zeta in I1, X1, M1.
    set (t1' := if current_fdt_will_expire now t then snd (publ now t) else t) in *.
    destruct (pop_mu now fs t1' K0 X1 Hfn) as (X2 & M2).
    set (t2 := pop_fdt t1') in *.
    destruct (cur_fdt t2) as [c|] eqn:Ec.
    2:{ inversion G; subst. split; [exact X2|lia]. }
    destruct (should_transfer_now (obj t2 c) 0 (full_fdt t2) now) eqn:Es.
    2:{ inversion G; subst. split; [exact X2|lia]. }
    destruct (t_init divf (f_o (obj t2 c)) now (f_t (obj t2 c))) as [ti|] eqn:Hi; [|discriminate].
    inversion G; subst x t1.
    assert (Hcd : In c (Dq t1')).
    { apply Dq_pop. fold t2. unfold Dq. rewrite Ec. apply in_or_app. right. left. reflexivity. }
    assert (Hl : (c < length (objs t2))%nat).
    { replace (objs t2) with (objs t1') by (unfold t2, pop_fdt; destruct (fdtq t1'); reflexivity).
      apply (own_fdt _ _ _ _ _ _ _ _ (inv_own _ _ _ I1) c). apply in_or_app. left. exact Hcd. }
    destruct (fdt_start_mu now fs t2 c ti K0 Hl X2 Hfn Ec Es Hi) as (X3 & M3). cbv zeta in X3, M3.
    split; [exact X3|]. split; [lia|].
    assert (Hu : untimed (obj t2 c)).
    { replace (obj t2 c) with (obj t1' c) by (unfold t2, pop_fdt; destruct (fdtq t1'); reflexivity).
      apply (inv_obj _ _ _ I1). }
    destruct (init_not_paced divf _ _ _ _ Hi Hu) as [_ Hn].
    unfold paced. rewrite obj_upd_t_same by exact Hl.
    destruct Hn as [Hn|Hn]; rewrite Hn; [apply Z.ltb_irrefl|reflexivity].
  Qed.

  (* ---------- the whole run ---------- *)
  Lemma fdt_fresh_mu now L fs t f o fs' t' K0 :
    INV L fs t -> XINV fs t -> ss_fdt_only fs = true -> ss_enc fs = None -> ss_file fs = None ->
    srun (S f) fs now t = (o, fs', t') ->
    XINV fs' t' /\ (DM now fs' t' K0 <= DM now fs t K0)%nat
    /\ (is_pkt o = true -> (S (DM now fs' t' K0) <= DM now fs t K0)%nat)
    /\ o <> RFuel
    /\ (o = RNothing -> ss_enc fs' = None /\ ss_file fs' = None).
  Proof.
    intros I X Hfo He Hfn H. cbn [session_run] in H. rewrite He in H. unfold get_next in H. rewrite Hfo in H.
    destruct (gnfdt now t) as [[[c|] t1]|] eqn:G.
    - pose proof (gnfdt_mu now L fs t _ _ K0 I X Hfn G) as (X1 & M1 & Hp).
      cbn [ss_prio ss_fdt_only ss_enc ss_file negb andb] in H.
      fold (paced now t1 c) in H. rewrite Hp in H. fold (fresh_enc t1 c) in H.
      destruct (enc_has_packet_read (fresh_enc t1 c) false (fresh_enc_has t1 c)) as (cl & e' & Er).
      rewrite Er in H. cbn [ss_prio ss_fdt_only ss_file ss_enc] in H.
      assert (Efs : mk_session (ss_prio fs) true (Some c) (Some e') = loaded fs c e') by (unfold loaded; rewrite Hfo; reflexivity).
      rewrite Efs in H. inversion H; subst o fs' t'.
      destruct (fdt_emit_mu now (loaded fs c (fresh_enc t1 c)) t1 c (fresh_enc t1 c) cl e' false K0 X1 eq_refl eq_refl Er)
        as (X2 & M2).
      change (loaded (loaded fs c (fresh_enc t1 c)) c e') with (loaded fs c e') in X2, M2.
      split; [exact X2|]. split; [lia|]. split; [intros _; lia|].
      split; [destruct (o_fdtid _); discriminate|destruct (o_fdtid _); discriminate].
    - pose proof (gnfdt_mu now L fs t _ _ K0 I X Hfn G) as (X1 & M1).
      cbn [ss_prio ss_fdt_only ss_enc ss_file negb andb] in H. inversion H; subst o fs' t'.
      split; [eapply X_session; [|exact X1]; cbn; symmetry; exact Hfn|].
      split; [|split; [discriminate|split; [discriminate|intros _; split; reflexivity]]].
      unfold DM in *. unfold Dpk in *. rewrite (slot_pk_empty now t1 fs Hfn) in M1.
      rewrite (slot_pk_empty now t1 (mk_session (ss_prio fs) true None None) eq_refl). exact M1.
    - inversion H; subst o fs' t'. split; [exact X|]. split; [apply Nat.le_refl|].
      split; [discriminate|split; [discriminate|discriminate]].
  Qed.

  Lemma fdt_run_dm now L fs t f o fs' t' K0 :
    INV L fs t -> XINV fs t ->
    srun (S (S f)) fs now t = (o, fs', t') ->
    XINV fs' t' /\ (DM now fs' t' K0 <= DM now fs t K0)%nat
    /\ (is_pkt o = true -> (S (DM now fs' t' K0) <= DM now fs t K0)%nat)
    /\ o <> RFuel.
  Proof.
    intros I X H. destruct (inv_fs _ _ _ I) as [Hfo Hwf].
    destruct (ss_enc fs) as [e|] eqn:He.
    2:{ destruct (fdt_fresh_mu now L fs t (S f) o fs' t' K0 I X Hfo He (Hwf eq_refl) H) as (A & B & C & D & _). auto. }
    remember (S f) as f1 eqn:Ef1. cbn [session_run] in H. rewrite He in H. rewrite Hfo, He in H. cbn [negb andb] in H.
    destruct (ss_file fs) as [c|] eqn:Hf.
    2:{ inversion H; subst. split; [exact X|]. split; [apply Nat.le_refl|]. split; discriminate. }
    destruct (match t_next_ts (f_t (obj t c)) with Some ts => (now <? ts)%Z | None => false end).
    { inversion H; subst. split; [exact X|]. split; [apply Nat.le_refl|]. split; discriminate. }
    destruct (enc_read false e) as [[cl|] e'] eqn:Er.
    - assert (Efs : mk_session (ss_prio fs) true (Some c) (Some e') = loaded fs c e') by (unfold loaded; rewrite Hfo; reflexivity).
      rewrite Efs in H. inversion H; subst o fs' t'.
      destruct (fdt_emit_mu now fs t c e cl e' false K0 X Hf He Er) as (X2 & M2).
      split; [exact X2|]. split; [lia|]. split; [intros _; exact M2|]. destruct (o_fdtid _); discriminate.
    - assert (Hin : In c (Dq t ++ opt_list (ss_file fs))) by (rewrite Hf; apply in_or_app; right; left; reflexivity).
      destruct (own_fdt _ _ _ _ _ _ _ _ (inv_own _ _ _ I) c Hin) as (Hl & [_ Hz] & _).
      destruct (fdt_done_mu now fs t c e K0 Hl Hz X Hf He) as (X1 & M1). cbv zeta in X1, M1.
      destruct (fdt_done_inv L t fs t c now I (frame_refl _ _) Hf) as [I1 _].
      assert (Efs : mk_session (ss_prio fs) true None None = empty_of fs) by (unfold empty_of; rewrite Hfo; reflexivity).
      rewrite Efs in H. subst f1.
      destruct (fdt_fresh_mu now L (empty_of fs) _ f o fs' t' K0 I1 X1 Hfo eq_refl eq_refl H) as (A & B & C & D & _).
      split; [exact A|]. split; [lia|]. split; [intros Ho; specialize (C Ho); lia|exact D].
  Qed.

  (* the file objects are not touched by the FDT session *)
  Lemma frame_file_part now L fs s t :
    INV L fs s -> Frame L s t ->
    Fcnt now L t = Fcnt now L s /\ Fpk now L t = Fpk now L s /\ full_fdt t = full_fdt s.
  Proof.
    intros I F. pose proof (inv_own _ _ _ I) as O.
    assert (Hs : forall j, In j (live L s) -> same_obj s t j).
    { intros j Hj. assert (Hl : (j < length (objs s))%nat) by (apply (own_bound _ _ _ _ _ _ _ _ O); exact Hj).
      destruct (fr_obj _ _ _ F j Hl) as (A & _ & B). split; [exact A|apply B; exact Hj]. }
    assert (HL : forall j, In j (slot_ids L) -> same_obj s t j) by (intros j Hj; apply Hs; apply in_or_app; left; exact Hj).
    assert (HQ : forall j, In j (queue s) -> same_obj s t j) by (intros j Hj; apply Hs; apply in_or_app; right; exact Hj).
    unfold Fcnt, Fpk. rewrite (fr_queue _ _ _ F).
    rewrite (slot_cnt_same now s t L HL), (queue_cnt_same now s t _ HQ).
    rewrite (slot_pk_same now s t L HL), (queue_pk_same now s t _ HQ).
    split; [reflexivity|]. split; [reflexivity|apply (fr_full _ _ _ F)].
  Qed.

  Lemma fdt_run_mu now L fs t o fs' t' :
    INV L fs t -> XINV fs t -> NZ L t ->
    srun 4 fs now t = (o, fs', t') ->
    INV L fs' t' /\ XINV fs' t' /\ NZ L t' /\ Frame L t t'
    /\ (MU now L fs' t' <= MU now L fs t)%nat
    /\ (is_pkt o = true -> (S (MU now L fs' t') <= MU now L fs t)%nat)
    /\ o <> RFuel /\ (forall toi c, o <> RObj toi c).
  Proof.
    intros I X Z H.
    destruct (fdt_run_inv fdt_npk fdt_ok divf L t now 4 fs t o fs' t' I (frame_refl _ _) H) as (I' & F' & Ho).
    set (K0 := if full_fdt t then 0%nat else Fcnt now L t).
    destruct (fdt_run_dm now L fs t 2 o fs' t' K0 I X H) as (X' & M1 & M2 & Hf).
    destruct (frame_file_part now L fs t t' I F') as (E1 & E2 & E3).
    assert (EMU : forall fs0 t0, Fcnt now L t0 = Fcnt now L t -> Fpk now L t0 = Fpk now L t -> full_fdt t0 = full_fdt t ->
              MU now L fs0 t0 = (Fpk now L t + DM now fs0 t0 K0)%nat).
    { intros fs0 t0 A B C. unfold C12Quiesce.MU, DM, Kcnt. rewrite A, B, C. fold K0. lia. }
    rewrite (EMU fs' t' E1 E2 E3), (EMU fs t eq_refl eq_refl eq_refl).
    split; [exact I'|]. split; [exact X'|]. split.
    { intros j Hj. unfold live in Hj. rewrite (fr_queue _ _ _ F') in Hj.
      assert (Hl : (j < length (objs t))%nat) by (apply (own_bound _ _ _ _ _ _ _ _ (inv_own _ _ _ I)); exact Hj).
      destruct (fr_obj _ _ _ F' j Hl) as (E & _). unfold toi_of. rewrite E. apply (Z j Hj). }
    split; [exact F'|]. split; [lia|]. split; [intros Hp; specialize (M2 Hp); lia|]. split; [exact Hf|exact Ho].
  Qed.
End FdtVisit.

(* ============================== part 6: one read ============================== *)

Record QInv (s : st) : Prop := mk_QInv {
  q_inv : Inv s;
  q_nz : NZs s;
  q_x : XINV (fdt_session s) s
}.

Section Read.
  Variable fdt_npk : N -> nat.
  Variable fdt_ok : N -> bool.
  Variable divf : Z -> N -> option Z.

  Notation srun := (session_run fdt_npk fdt_ok divf).
  Notation rqs := (read_queues fdt_npk fdt_ok divf).
  Notation sread := (sender_read fdt_npk fdt_ok divf).
  Notation runfdt := (run_fdt_session fdt_npk fdt_ok divf).
  Notation file_run := (file_run fdt_npk fdt_ok divf).
  Notation vstep := (vstep fdt_npk fdt_ok divf).
  Notation qpath := (qpath fdt_npk fdt_ok divf).
  Notation MU := (MU fdt_npk).

  (* the potential of a sender state *)
  Definition MUs (now : Z) (s : st) : nat := MU now (all_sessions (squeues s)) (fdt_session s) s.

  Lemma runfdt_mu now s o s1 :
    QInv s -> runfdt now s = (o, s1) ->
    QInv s1 /\ (MUs now s1 <= MUs now s)%nat /\ (is_pkt o = true -> (S (MUs now s1) <= MUs now s)%nat)
    /\ o <> RFuel /\ (forall toi c, o <> RObj toi c).
  Proof.
    intros [IS Z X] H.
    destruct (Inv_runfdt fdt_npk fdt_ok divf now s o s1 IS H) as (IS1 & F1 & _).
    apply runfdt_spec in H. destruct H as (fs' & t' & H & ->).
    destruct (fdt_run_mu fdt_npk fdt_ok divf now _ _ s o fs' t' (Inv_inv _ IS) X Z H)
      as (I' & X' & Z' & F' & M1 & M2 & Hf & Ho).
    assert (Esq : squeues t' = squeues s) by apply (fr_squeues _ _ _ F').
    assert (EM : MUs now (set_fdt_session t' fs') = MU now (all_sessions (squeues s)) fs' t').
    { unfold MUs. cbn [squeues fdt_session set_fdt_session]. rewrite Esq. reflexivity. }
    rewrite EM. split; [|split; [exact M1|split; [exact M2|split; [exact Hf|exact Ho]]]].
    constructor; [exact IS1| |].
    - unfold NZs. cbn [squeues set_fdt_session]. rewrite Esq. exact Z'.
    - cbn [fdt_session set_fdt_session]. eapply X_fields; [..|exact X']; try reflexivity. apply incl_refl.
  Qed.

  Lemma file_run_not_fuel now ss t o ss' t' : file_run now ss t o ss' t' -> o <> RFuel.
  Proof.
    assert (Ho : forall t id c, out_of t id c <> RFuel) by (intros; unfold out_of; destruct (o_fdtid _); discriminate).
    intros R. destruct R as [id e Hf He Hw|e He Hf|id e c e' Hf He Hq Hp Er|o ss' t' He R|id e e' o ss' t' Hf He Hq Hp Er R];
      try discriminate; try apply Ho; destruct R; try discriminate; apply Ho.
  Qed.

  Lemma vstep_not_fuel now L fs t ss o L' t' : INV L fs t -> vstep now L t ss o L' t' -> o <> RFuel.
  Proof.
    intros I V. destruct V as [L1 ss L2 t o ss' t' H].
    destruct (Lwf_mid _ _ _ (inv_L _ _ _ I)) as (A1 & _).
    apply file_run_inv in H; [|assumption]. eapply file_run_not_fuel; eauto.
  Qed.

  Lemma queues_mu now s o qs s2 :
    QInv s -> rqs [] (squeues s) now s = (o, qs, s2) ->
    QInv (set_squeues s2 qs) /\ (MUs now (set_squeues s2 qs) <= MUs now s)%nat
    /\ (is_pkt o = true -> (S (MUs now (set_squeues s2 qs)) <= MUs now s)%nat)
    /\ o <> RFuel.
  Proof.
    intros [IS Z X] H.
    destruct (Inv_after_queues fdt_npk fdt_ok divf now s o qs s2 IS H) as (IS3 & _).
    destruct (read_queues_path fdt_npk fdt_ok divf now _ _ _ _ _ _ (Forall_nil _) (Inv_wfq _ IS) H) as (_ & _ & (Lm & tm & Pm & Rm)).
    cbn [app] in *.
    destruct (qpath_mu fdt_npk fdt_ok divf now _ _ _ _ _ (Inv_inv _ IS) X Z Pm) as (Im & Xm & Zm & Mm).
    assert (Hend : INV (all_sessions qs) (fdt_session s) s2 /\ XINV (fdt_session s) s2 /\ NZ (all_sessions qs) s2
                   /\ (MU now (all_sessions qs) (fdt_session s) s2 <= MUs now s)%nat
                   /\ (is_pkt o = true -> (S (MU now (all_sessions qs) (fdt_session s) s2) <= MUs now s)%nat)
                   /\ o <> RFuel /\ static s2 = static s).
    { pose proof (qpath_static _ _ _ _ _ _ _ _ Pm) as Sm.
      destruct Rm as [(-> & -> & ->)|(_ & x & _ & Vx)].
      - split; [exact Im|]. split; [exact Xm|]. split; [exact Zm|]. split; [exact Mm|].
        split; [discriminate|]. split; [discriminate|exact Sm].
      - destruct (vstep_mu fdt_npk fdt_ok divf now _ _ _ _ _ _ _ Im Xm Zm Vx) as (I2 & X2 & Z2 & M2 & M3).
        split; [exact I2|]. split; [exact X2|]. split; [exact Z2|]. split; [unfold MUs in *; lia|].
        split; [intros Hp; specialize (M3 Hp); unfold MUs in *; lia|].
        split; [exact (vstep_not_fuel now _ _ _ _ _ _ _ Im Vx)|]. rewrite <- Sm. eapply vstep_static; eauto. }
    destruct Hend as (I2 & X2 & Z2 & M2 & M3 & Hf & St).
    assert (Efs : fdt_session s2 = fdt_session s) by (unfold static in St; congruence).
    assert (EM : MUs now (set_squeues s2 qs) = MU now (all_sessions qs) (fdt_session s) s2).
    { unfold MUs. cbn [squeues fdt_session set_squeues]. rewrite Efs. reflexivity. }
    rewrite EM. split; [|split; [exact M2|split; [exact M3|exact Hf]]].
    constructor; [exact IS3| |].
    - unfold NZs. cbn [squeues set_squeues]. exact Z2.
    - cbn [fdt_session set_squeues]. rewrite Efs. eapply X_fields; [..|exact X2]; try reflexivity. apply incl_refl.
  Qed.

  (* Q1, first half: no read at [now] increases the potential, a packet decreases it *)
  Theorem read_mu now s o s' :
    QInv s -> sread now s = (o, s') ->
    QInv s' /\ (MUs now s' <= MUs now s)%nat /\ (is_pkt o = true -> (S (MUs now s') <= MUs now s)%nat)
    /\ o <> RFuel.
  Proof.
    intros Q H. unfold sender_read in H.
    destruct (runfdt now s) as [o1 s1] eqn:E1.
    destruct (runfdt_mu now s o1 s1 Q E1) as (Q1 & M1 & P1 & F1 & _).
    assert (Hstop : forall o2, o2 = o1 -> (o, s') = (o2, s1) ->
              QInv s' /\ (MUs now s' <= MUs now s)%nat /\ (is_pkt o = true -> (S (MUs now s') <= MUs now s)%nat) /\ o <> RFuel).
    { intros o2 -> E. inversion E; subst. auto. }
    destruct o1; try (apply (Hstop _ eq_refl); symmetry; exact H).
    destruct (rqs [] (squeues s1) now s1) as [[o2 qs] s2] eqn:E2.
    destruct (queues_mu now s1 o2 qs s2 Q1 E2) as (Q2 & M2 & P2 & F2).
    assert (Hstop2 : forall o3, o3 = o2 -> (o, s') = (o3, set_squeues s2 qs) ->
              QInv s' /\ (MUs now s' <= MUs now s)%nat /\ (is_pkt o = true -> (S (MUs now s') <= MUs now s)%nat) /\ o <> RFuel).
    { intros o3 -> E. inversion E; subst. split; [exact Q2|]. split; [lia|]. split; [intros Hp; specialize (P2 Hp); lia|exact F2]. }
    destruct o2; try (apply (Hstop2 _ eq_refl); symmetry; exact H).
    destruct (runfdt_mu now _ o s' Q2 H) as (Q3 & M3 & P3 & F3 & _).
    split; [exact Q3|]. split; [lia|]. split; [intros Hp; specialize (P3 Hp); lia|exact F3].
  Qed.
End Read.

(* ============================== part 7: reachable states ============================== *)

(* accepted adds carry carousel delays that are durations *)
Definition op_car (o : op) : bool :=
  match o with OpAdd od _ true => car_ok (o_car od) | _ => true end.
Definition ops_car (ops : list op) : bool := forallb op_car ops.

(* the session configuration: a positive FDT duration, an FDT carousel with a delay that is a duration *)
Definition cfg_ok (dur : Z) (car : carousel) : bool := (0 <? dur)%Z && car_some car && car_ok car.

Section Reach.
  Variable fdt_npk : N -> nat.
  Variable fdt_ok : N -> bool.
  Variable divf : Z -> N -> option Z.

  Notation sread := (sender_read fdt_npk fdt_ok divf).
  Notation mstep := (step fdt_npk fdt_ok divf).
  Notation publ := (publish fdt_npk fdt_ok).

  Lemma find_file_in s toi id : find_file s toi = Some id -> In id (files s).
  Proof. unfold find_file. intros H. apply find_some in H. apply H. Qed.

  Lemma X_step s o :
    QInv s -> op_fresh s o = true -> op_nz o = true -> op_car o = true ->
    XINV (fdt_session (snd (mstep s o))) (snd (mstep s o)).
  Proof.
    intros [IS Z X] Hf Hn Hc. pose proof (Inv_inv _ IS) as I. pose proof (inv_own _ _ _ I) as O.
    destruct o as [od start acc|now|toi|toi ts| |now]; cbn [step].
    - destruct (negb (has_queue s (o_prio od))); [exact X|].
      destruct (complete s); [exact X|].
      destruct acc; cbn [negb]; [|exact X]. cbn [snd op_car] in *.
      set (nf := mk_fdesc od false _). set (sA := set_queue _ _).
      change (fdt_session sA) with (fdt_session s).
      set (n := length (objs s)).
      assert (Eobj : forall j, obj sA j = nth j (objs s ++ [nf]) dummy_f) by reflexivity.
      assert (Eold : forall j, (j < n)%nat -> obj sA j = obj s j).
      { intros j Hj. rewrite Eobj. rewrite app_nth1 by assumption. reflexivity. }
      assert (Hb : forall j, In j (fdt_ids (fdt_session s) s) -> (j < n)%nat).
      { intros j Hj. apply (own_fdt _ _ _ _ _ _ _ _ O j Hj). }
      destruct X as [A B C D E F G H]. constructor.
      + intros j. destruct (Nat.lt_ge_cases j n) as [Hl|Hl]; [rewrite Eold by assumption; apply A|].
        destruct (Nat.eq_dec j n) as [->|Hne].
        * rewrite Eobj. rewrite app_nth2 by (fold n; lia). fold n. rewrite Nat.sub_diag. exact Hc.
        * rewrite Eobj. rewrite nth_overflow by (rewrite app_length; cbn; fold n; lia). reflexivity.
      + exact B.
      + exact C.
      + intros j Hj. change (fdt_ids (fdt_session s) sA) with (fdt_ids (fdt_session s) s) in Hj.
        destruct (D j Hj) as [D1 D2 D3 D4 D5 D6]. rewrite (Eold j (Hb j Hj)). constructor; auto.
      + intros j Hj. change (fdtq sA) with (fdtq s) in Hj. rewrite Eold; [apply E; exact Hj|].
        apply Hb. unfold fdt_ids, Dq. apply in_or_app. left. apply in_or_app. left. exact Hj.
      + exact F.
      + intros c Hc0. change (cur_fdt sA) with (cur_fdt s). unfold tr_of. rewrite Eold; [apply G; exact Hc0|].
        apply Hb. unfold fdt_ids. rewrite Hc0. apply in_or_app. right. left. reflexivity.
      + intros j Hj. change (fdt_ids (fdt_session s) sA) with (fdt_ids (fdt_session s) s).
        change (files sA) with (files s ++ [n]) in Hj. apply in_app_or in Hj. destruct Hj as [Hj|[<-|[]]].
        * apply H. exact Hj.
        * intros Hin. specialize (Hb n Hin). lia.
    - destruct (publ now s) as [ok s'] eqn:E. cbn [snd].
      replace s' with (snd (publ now s)) by (rewrite E; reflexivity).
      pose proof (static_publish fdt_npk fdt_ok now s) as St. unfold static in St.
      replace (fdt_session (snd (publ now s))) with (fdt_session s) by congruence.
      eapply X_publish; eauto.
    - destruct (is_added s toi); [|exact X]. cbn [snd fdt_session set_queue set_files].
      eapply X_fields; [..|exact X]; try reflexivity. apply filter_incl.
    - destruct (find_file s toi) as [id|] eqn:Ef; [|exact X].
      destruct (t_transferring (f_t (obj s id))); [exact X|]. cbn [snd].
      change (fdt_session (upd_t s id (t_reset ts))) with (fdt_session s).
      apply X_upd_t; [exact X|]. apply (x_files _ _ X). eapply find_file_in; eauto.
    - cbn [snd fdt_session]. eapply X_fields; [..|exact X]; try reflexivity. apply incl_refl.
    - destruct (sread now s) as [r s'] eqn:E. cbn [snd].
      destruct (read_mu fdt_npk fdt_ok divf now s r s' (mk_QInv s IS Z X) E) as (Q' & _). apply (q_x _ Q').
  Qed.

  Lemma QInv_step s o :
    QInv s -> op_fresh s o = true -> op_nz o = true -> op_car o = true -> QInv (snd (mstep s o)).
  Proof.
    intros Q Hf Hn Hc. constructor.
    - apply Inv_step; [apply (q_inv _ Q)|exact Hf].
    - apply NZs_step; [apply (q_inv _ Q)|apply (q_nz _ Q)|exact Hf|exact Hn].
    - apply X_step; assumption.
  Qed.

  Lemma QInv_reach : forall ops s,
    QInv s -> ops_fresh fdt_npk fdt_ok divf s ops = true -> ops_nz ops = true -> ops_car ops = true ->
    QInv (snd (run_ops fdt_npk fdt_ok divf s ops)).
  Proof.
    induction ops as [|o r IH]; intros s Q Hf Hn Hc; cbn [run_ops]; [exact Q|].
    cbn [ops_fresh ops_nz ops_car forallb] in *.
    apply andb_true_iff in Hf. destruct Hf as [Hf1 Hf2].
    apply andb_true_iff in Hn. destruct Hn as [Hn1 Hn2].
    apply andb_true_iff in Hc. destruct Hc as [Hc1 Hc2].
    pose proof (QInv_step s o Q Hf1 Hn1 Hc1) as Q'.
    destruct (mstep s o) as [x s1]. cbn [snd] in *.
    specialize (IH s1 Q' Hf2 Hn2 Hc2).
    destruct (run_ops fdt_npk fdt_ok divf s1 r) as [xs s2]. cbn [snd] in *. exact IH.
  Qed.

  Lemma QInv_init full dur car sid queues :
    StronglySorted N.lt (map fst queues) -> cfg_ok dur car = true -> QInv (init_st full dur car sid queues).
  Proof.
    intros Hs Hc. unfold cfg_ok in Hc. apply andb_true_iff in Hc. destruct Hc as [Hc Hc3].
    apply andb_true_iff in Hc. destruct Hc as [Hc1 Hc2]. apply Z.ltb_lt in Hc1.
    constructor; [apply Inv_init; exact Hs|apply NZs_init|].
    unfold init_st. constructor; cbn [fdt_car fdt_duration fdtq cur_fdt files fdt_session ss_file].
    - intros j. unfold obj. cbn [objs]. destruct j; reflexivity.
    - split; assumption.
    - exact Hc1.
    - intros j Hj. destruct Hj.
    - intros j Hj. destruct Hj.
    - constructor.
    - intros c Hc. discriminate.
    - intros j Hj. destruct Hj.
  Qed.
End Reach.

(* ============================== part 8: a silent read changes nothing the next time ============================== *)

(* a file session that has nothing to do at [now] *)
Definition fstuck (now : Z) (ss : session) (t : st) : Prop :=
  match ss_enc ss, ss_file ss with
  | Some _, Some id => fdtq t <> [] \/ paced now t id = true
  | Some _, None => True
  | None, _ => ss_file ss = None
               /\ forall y, In y (queue t) -> should_transfer_now (obj t y) (ss_prio ss) (full_fdt t) now = false
  end.

Lemma find_remove_none_iff p l : (forall x, In x l -> p x = false) -> find_remove p l = None.
Proof.
  induction l as [|y l IH]; intros H; [reflexivity|]. cbn [find_remove].
  rewrite (H y (or_introl eq_refl)). rewrite IH; [reflexivity|]. intros x Hx. apply H. right. exact Hx.
Qed.

Section Quiet.
  Variable fdt_npk : N -> nat.
  Variable fdt_ok : N -> bool.
  Variable divf : Z -> N -> option Z.

  Notation srun := (session_run fdt_npk fdt_ok divf).
  Notation gnft := (get_next_file_transfer fdt_npk fdt_ok divf).
  Notation gnfdt := (get_next_fdt_transfer fdt_npk fdt_ok divf).
  Notation publ := (publish fdt_npk fdt_ok).
  Notation rrl := (rr_loop fdt_npk fdt_ok divf).
  Notation rqs := (read_queues fdt_npk fdt_ok divf).
  Notation sread := (sender_read fdt_npk fdt_ok divf).
  Notation runfdt := (run_fdt_session fdt_npk fdt_ok divf).
  Notation file_run := (file_run fdt_npk fdt_ok divf).
  Notation fresh_run := (fresh_run fdt_npk fdt_ok divf).
  Notation vstep := (vstep fdt_npk fdt_ok divf).
  Notation qpath := (qpath fdt_npk fdt_ok divf).

  (* a stuck session answers RNothing and nothing changes *)
  Lemma fstuck_run now ss t f :
    ss_fdt_only ss = false -> fstuck now ss t -> srun (S f) ss now t = (RNothing, ss, t).
  Proof.
    intros Hfo Hs. unfold fstuck in Hs. cbn [session_run].
    destruct (ss_enc ss) as [e|] eqn:He.
    - rewrite Hfo, He. cbn [negb andb].
      destruct (ss_file ss) as [id|] eqn:Hf.
      + destruct (fdtq t) as [|x r] eqn:Eq; cbn [length Nat.eqb negb]; [|reflexivity].
        destruct Hs as [Hs|Hs]; [contradiction|]. unfold paced in Hs. rewrite Hs. reflexivity.
      + destruct (negb (Nat.eqb (length (fdtq t)) 0)); reflexivity.
    - destruct Hs as [Hf Hq]. unfold get_next. rewrite Hfo. unfold get_next_file_transfer.
      rewrite (find_remove_none_iff _ _ Hq).
      assert (Ess : mk_session (ss_prio ss) false None None = ss).
      { destruct ss as [p fo fl en]. cbn in *. subst. reflexivity. }
      rewrite Ess, Hfo, He. cbn [negb andb].
      destruct (negb (Nat.eqb (length (fdtq t)) 0)); reflexivity.
  Qed.

  (* after a silent visit the session is stuck *)
  Lemma fresh_run_fstuck now ss0 t ss' t' :
    ss_enc ss0 = None -> fresh_run now ss0 t RNothing ss' t' -> fstuck now ss' t'.
  Proof.
    intros He R. remember RNothing as o eqn:Eo.
    destruct R as [G|G|id t1 G Hw|id t1 c e' G Hq Hp Er].
    - discriminate.
    - unfold fstuck. cbn [ss_enc ss_file empty_of ss_prio]. split; [reflexivity|].
      apply gnft_none in G. apply G.
    - unfold fstuck. cbn [ss_enc ss_file loaded]. exact Hw.
    - exfalso. eapply out_of_not_nothing; eauto.
  Qed.

  Lemma file_run_fstuck now ss t ss' t' : file_run now ss t RNothing ss' t' -> fstuck now ss' t'.
  Proof.
    intros R. remember RNothing as o eqn:Eo.
    destruct R as [id e Hf He Hw|e He Hf|id e c e' Hf He Hq Hp Er|o ss' t' He R|id e e' o ss' t' Hf He Hq Hp Er R].
    - unfold fstuck. rewrite He, Hf. exact Hw.
    - unfold fstuck. rewrite He, Hf. exact I.
    - exfalso. eapply out_of_not_nothing; eauto.
    - subst o. eapply fresh_run_fstuck; eauto.
    - subst o. eapply (fresh_run_fstuck now (empty_of ss)); [reflexivity|exact R].
  Qed.

  (* what a silent start leaves untouched *)
  Lemma fresh_quiet_frame now L1 y0 L2 fs tq y' t' :
    INV (L1 ++ y0 :: L2) fs tq -> ss_enc y0 = None -> fresh_run now y0 tq RNothing y' t' ->
    (fdtq tq <> [] -> fdtq t' <> [])
    /\ (forall j, In j (slot_ids (L1 ++ L2)) -> f_t (obj t' j) = f_t (obj tq j))
    /\ (forall z, In z (queue t') ->
          In z (queue tq)
          /\ forall p, should_transfer_now (obj t' z) p (full_fdt t') now = should_transfer_now (obj tq z) p (full_fdt tq) now)
    /\ (forall id2, ss_file y' = Some id2 ->
          In id2 (queue tq) /\ should_transfer_now (obj tq id2) (ss_prio y0) (full_fdt tq) now = true
          /\ ~ In id2 (queue t')).
  Proof.
    intros I He R. remember RNothing as o eqn:Eo.
    destruct (Lwf_mid _ _ _ (inv_L _ _ _ I)) as (_ & A2 & _). pose proof (A2 He) as Hfn.
    destruct R as [G|G|id t1 G Hw|id t1 c e' G Hq Hp Er].
    - discriminate.
    - split; [auto|]. split; [auto|]. split; [auto|]. intros id2 H. discriminate.
    - pose proof G as G0. apply gnft_some in G0. destruct G0 as (a0 & r0 & ti0 & Hq0 & _ & _ & _ & Et1).
      destruct (start_facts fdt_npk fdt_ok divf _ _ _ _ _ G) as (a & r & ti & Hq & Hq1 & _ & Hfull & Hs & _ & Hi & Hlen & Ho & Hfd & _).
      destruct (queue_sep _ _ _ _ _ _ I Hq) as (N0 & Na & Nr & _ & Hl).
      rewrite slot_ids_mid, Hfn in N0. cbn [opt_list app] in N0.
      pose proof (inv_own _ _ _ I) as O.
      assert (Hpub : full_fdt tq = true -> forall z, f_pub (obj t1 z) = f_pub (obj tq z)).
      { intros Hf z. rewrite Et1. unfold maybe_publish. cbn [full_fdt upd_t set_objs log_ev set_queue]. rewrite Hf.
        rewrite obj_upd_t_pub. reflexivity. }
      split; [|split; [|split]].
      + intros Hne Hc. apply Hne. apply Hfd. exact Hc.
      + intros j Hj.
        assert (Hjl : (j < length (objs tq))%nat).
        { apply (own_bound _ _ _ _ _ _ _ _ O). apply in_or_app. left. unfold slot_ids in *.
          rewrite slot_pairs_mid, !map_app. rewrite slot_pairs_app, map_app in Hj.
          apply in_app_or in Hj. apply in_or_app. destruct Hj; [left|right; apply in_or_app; right]; assumption. }
        destruct (Ho j Hjl) as (_ & Et). rewrite Et.
        destruct (Nat.eqb_spec j id) as [->|Hne]; [|reflexivity].
        exfalso. apply N0. unfold slot_ids in *. rewrite slot_pairs_app, map_app in Hj. exact Hj.
      + intros z Hz. rewrite Hq1 in Hz.
        assert (Hzq : In z (queue tq)).
        { rewrite Hq. apply in_app_or in Hz. apply in_or_app. destruct Hz; [left|right; right]; assumption. }
        split; [exact Hzq|]. intros p.
        assert (Hzl : (z < length (objs tq))%nat).
        { apply (own_bound _ _ _ _ _ _ _ _ O). apply in_or_app. right. exact Hzq. }
        assert (Hzne : z <> id) by (intros ->; apply in_app_or in Hz; tauto).
        destruct (Ho z Hzl) as (Eo1 & Et). apply Nat.eqb_neq in Hzne. rewrite Hzne in Et.
        rewrite Hfull. apply stn_congr; [exact Eo1|exact Et|]. intros Hf. apply Hpub. exact Hf.
      + intros id2 Hid2. cbn [ss_file loaded] in Hid2. inversion Hid2; subst id2.
        split; [rewrite Hq; apply in_or_app; right; left; reflexivity|]. split; [exact Hs|].
        rewrite Hq1. intros Hin. apply in_app_or in Hin. tauto.
    - exfalso. eapply out_of_not_nothing; eauto.
  Qed.

  Lemma stn_wrong_prio f p full now : o_prio (f_o f) <> p -> should_transfer_now f p full now = false.
  Proof.
    intros H. destruct (should_transfer_now f p full now) eqn:E; [|reflexivity].
    apply stn_prio in E. contradiction.
  Qed.

  (* stuck sessions stay stuck while another session is visited in silence *)
  Lemma fstuck_stable now L1 y L2 fs t y' t' ss :
    INV (L1 ++ y :: L2) fs t -> file_run now y t RNothing y' t' -> In ss (L1 ++ L2) ->
    fstuck now ss t -> fstuck now ss t'.
  Proof.
    intros I R Hin Hs. remember RNothing as o eqn:Eo.
    assert (Hslot : forall id, ss_file ss = Some id -> In id (slot_ids (L1 ++ L2)))
      by (intros id Hf; eapply in_slot_ids_of; eauto).
    destruct R as [id e Hf He Hw|e He Hf|id e c e' Hf He Hq Hp Er|o y' t' He R|idy e e' o y' t' Hf He Hq Hp Er R].
    - exact Hs.
    - exact Hs.
    - exfalso. eapply out_of_not_nothing; eauto.
    - subst o. destruct (fresh_quiet_frame now L1 y L2 fs t y' t' I He R) as (F1 & F2 & F3 & _).
      unfold fstuck in *. destruct (ss_enc ss) as [es|].
      + destruct (ss_file ss) as [id|] eqn:Hfs; [|exact I0 || exact Logic.I].
        destruct Hs as [Hs|Hs]; [left; auto|right].
        unfold paced in *. rewrite (F2 id (Hslot id eq_refl)). exact Hs.
      + destruct Hs as [Hs1 Hs2]. split; [exact Hs1|]. intros z Hz. destruct (F3 z Hz) as [Hzq Ez].
        rewrite Ez. apply Hs2. exact Hzq.
    - subst o.
      pose proof (inv_transfer_done L1 y L2 fs t idy now I Hf) as Id.
      destruct (slot_sep _ _ _ _ _ _ I Hf) as (N1 & N2 & N3 & _ & Hl).
      set (td := transfer_done idy now t) in *.
      destruct (fresh_quiet_frame now L1 (empty_of y) L2 fs td y' t' Id eq_refl R) as (F1 & F2 & F3 & F4).
      unfold fstuck in *. destruct (ss_enc ss) as [es|].
      + destruct (ss_file ss) as [id|] eqn:Hfs; [|exact Logic.I].
        destruct Hs as [Hs|Hs]; [left; apply F1; unfold td; rewrite td_fdtq; exact Hs|right].
        unfold paced in *. rewrite (F2 id (Hslot id eq_refl)). unfold td. rewrite td_next_ts. exact Hs.
      + destruct Hs as [Hs1 Hs2]. split; [exact Hs1|]. intros z Hz. destruct (F3 z Hz) as [Hzq Ez].
        rewrite Ez.
        assert (Hold : forall w, In w (queue t) ->
                  should_transfer_now (obj td w) (ss_prio ss) (full_fdt td) now = false).
        { intros w Hw. unfold td. rewrite td_obj_other, td_full; [apply Hs2; exact Hw|].
          intros ->. contradiction. }
        destruct (td_queue idy now t) as [Eq|Eq]; fold td in Eq; rewrite Eq in Hzq; [apply Hold; exact Hzq|].
        apply in_app_or in Hzq. destruct Hzq as [Hzq|[<-|[]]]; [apply Hold; exact Hzq|].
        (* the object that was queued again *)
        destruct (N.eq_dec (ss_prio y) (ss_prio ss)) as [Ep|Ep].
        2:{ apply stn_wrong_prio. unfold td. rewrite td_obj_o.
            assert (Hpr : o_prio (fo_of t idy) = ss_prio y).
            { apply (own_prio _ _ _ _ _ _ _ _ (inv_own _ _ _ I) idy (ss_prio y)).
              rewrite (slot_pairs_mid_some _ _ _ _ Hf). apply in_or_app. right. left. reflexivity. }
            unfold fo_of in Hpr. rewrite Hpr. exact Ep. }
        destruct (should_transfer_now (obj td idy) (ss_prio ss) (full_fdt td) now) eqn:Es; [exfalso|reflexivity].
        remember RNothing as o eqn:Eo. destruct R as [G|G|id2 t1 G Hw|id2 t1 c0 e0 G Hq0 Hp0 Er0].
        * discriminate.
        * apply gnft_none in G. destruct G as [_ G]. cbn [ss_prio empty_of] in G. rewrite Ep in G.
          rewrite G in Es; [discriminate|]. rewrite Eq. apply in_or_app. right. left. reflexivity.
        * destruct (F4 id2 eq_refl) as (G1 & G2 & G3). cbn [ss_prio empty_of] in G2. rewrite Ep in G2.
          rewrite Eq in G1. apply in_app_or in G1. destruct G1 as [G1|[<-|[]]].
          -- rewrite (Hold id2 G1) in G2. discriminate.
          -- contradiction.
        * eapply out_of_not_nothing; eauto.
  Qed.

  (* ---------- one queue, visited in silence: all its sessions end up stuck ---------- *)
  Lemma in_mid_pos {A} (a : list A) x b y : In y (a ++ b) ->
    exists j, j <> length a /\ nth_error (a ++ x :: b) j = Some y.
  Proof.
    intros H. apply in_app_or in H. destruct H as [H|H].
    - destruct (In_nth_error _ _ H) as (k & Hk). exists k.
      assert (k < length a)%nat by (apply nth_error_Some; congruence).
      split; [lia|]. rewrite nth_error_app1 by assumption. exact Hk.
    - destruct (In_nth_error _ _ H) as (k & Hk). exists (length a + S k)%nat. split; [lia|].
      rewrite nth_error_app2 by lia. replace (length a + S k - length a)%nat with (S k) by lia. exact Hk.
  Qed.

  Lemma nth_mid_other {A} (a : list A) x b j y :
    nth_error (a ++ x :: b) j = Some y -> j <> length a -> In y (a ++ b).
  Proof.
    intros H Hj. destruct (Nat.lt_ge_cases j (length a)) as [Hl|Hl].
    - rewrite nth_error_app1 in H by assumption. apply nth_error_In in H. apply in_or_app. left. exact H.
    - rewrite nth_error_app2 in H by assumption. destruct (j - length a)%nat as [|k] eqn:E; [lia|].
      cbn [nth_error] in H. apply nth_error_In in H. apply in_or_app. right. exact H.
  Qed.

  Lemma rr_quiet now Lpre Lpost fs : forall n q orig t q' t',
    wfq q -> (orig < length (q_sessions q))%nat ->
    INV (Lpre ++ q_sessions q ++ Lpost) fs t ->
    (rem (q_index q) orig (length (q_sessions q)) <= n)%nat ->
    (forall j ssj, nth_error (q_sessions q) j = Some ssj -> ~ in_arc (q_index q) orig j -> fstuck now ssj t) ->
    (forall ss, In ss Lpre -> fstuck now ss t) ->
    rrl n q orig now t = (RNothing, q', t') ->
    q_index q' = orig /\ (forall ss, In ss (q_sessions q') -> fstuck now ss t')
    /\ (forall ss, In ss Lpre -> fstuck now ss t').
  Proof.
    induction n as [|n IH]; intros q orig t q' t' W Ho I Hrem Hvis Hpre H.
    { exfalso. destruct W as [Wi _]. unfold rem in Hrem. destruct (Nat.ltb_spec (q_index q) orig); lia. }
    destruct (rr_step_eq fdt_npk fdt_ok divf n q orig now t W) as (a & ss & b & o1 & ss1 & t1 & Eq & Ea & Hss & Er & Hrest).
    cbv zeta in Hrest. destruct Hrest as [W1 Eloop]. rewrite Eloop in H. clear Eloop.
    set (idx2 := (if Nat.eqb (S (q_index q)) (length (q_sessions q)) then 0 else S (q_index q))%nat) in *.
    set (q1 := mk_squeue (q_prio q) idx2 (a ++ ss1 :: b)) in *.
    assert (Ectx : Lpre ++ q_sessions q ++ Lpost = (Lpre ++ a) ++ ss :: (b ++ Lpost))
      by (rewrite Eq, <- !app_assoc; reflexivity).
    assert (Ectx1 : Lpre ++ q_sessions q1 ++ Lpost = (Lpre ++ a) ++ ss1 :: (b ++ Lpost))
      by (unfold q1; cbn [q_sessions]; rewrite <- !app_assoc; reflexivity).
    rewrite Ectx in I.
    destruct (Lwf_mid _ _ _ (inv_L _ _ _ I)) as (A1 & _).
    pose proof (file_run_inv fdt_npk fdt_ok divf now _ _ _ _ _ _ A1 Er) as R.
    pose proof (inv_file_run _ _ _ _ _ _ _ _ _ _ _ _ I R) as I1. rewrite <- Ectx1 in I1.
    assert (Hlen : length (q_sessions q) = (length a + S (length b))%nat) by (rewrite Eq, app_length; reflexivity).
    destruct W as [Wi Wp].
    destruct o1; try (inversion H; fail).
    (* the visit was silent *)
    assert (S1 : fstuck now ss1 t1) by (eapply file_run_fstuck; eauto).
    assert (Sother : forall x, In x ((Lpre ++ a) ++ (b ++ Lpost)) -> fstuck now x t -> fstuck now x t1)
      by (intros x Hx Hsx; eapply fstuck_stable; eauto).
    assert (Hpre1 : forall x, In x Lpre -> fstuck now x t1).
    { intros x Hx. apply Sother; [|apply Hpre; exact Hx]. apply in_or_app. left. apply in_or_app. left. exact Hx. }
    assert (Hab : forall j x, j <> q_index q -> nth_error (q_sessions q) j = Some x -> ~ in_arc (q_index q) orig j ->
              fstuck now x t1).
    { intros j x Hj Hx Hn. apply Sother; [|eapply Hvis; eauto].
      rewrite Eq in Hx. rewrite <- Ea in Hj.
      pose proof (nth_mid_other _ _ _ _ _ Hx Hj) as Hx'.
      apply in_app_or in Hx'. apply in_or_app. destruct Hx'; [left; apply in_or_app; right|right; apply in_or_app; left]; assumption. }
    destruct (Nat.eqb_spec idx2 orig) as [Eo|Eo].
    - inversion H; subst q' t'. split; [exact Eo|]. split; [|exact Hpre1].
      intros x Hx. unfold q1 in Hx. cbn [q_sessions] in Hx.
      apply in_app_or in Hx. destruct Hx as [Hx|[<-|Hx]]; [|exact S1|].
      + destruct (In_nth_error _ _ Hx) as (k & Hk).
        assert (Hkl : (k < length a)%nat) by (apply nth_error_Some; congruence).
        apply (Hab k x); [lia|rewrite Eq, nth_error_app1 by assumption; exact Hk|].
        unfold in_arc, idx2 in *.
        destruct (Nat.eqb_spec (S (q_index q)) (length (q_sessions q))); destruct (Nat.ltb_spec (q_index q) orig); lia.
      + destruct (In_nth_error _ _ Hx) as (k & Hk).
        assert (Hkl : (k < length b)%nat) by (apply nth_error_Some; congruence).
        apply (Hab (length a + S k)%nat x); [lia| |].
        * rewrite Eq, nth_error_app2 by lia. replace (length a + S k - length a)%nat with (S k) by lia. exact Hk.
        * unfold in_arc, idx2 in *.
          destruct (Nat.eqb_spec (S (q_index q)) (length (q_sessions q))); destruct (Nat.ltb_spec (q_index q) orig); lia.
    - apply (IH q1 orig t1 q' t' W1); try assumption.
      + unfold q1. cbn [q_sessions]. rewrite app_length. cbn [length]. lia.
      + unfold q1, rem. cbn [q_sessions q_index]. rewrite app_length. cbn [length]. unfold rem in Hrem. unfold idx2 in *.
        destruct (Nat.eqb_spec (S (q_index q)) (length (q_sessions q)));
          destruct (Nat.ltb_spec (q_index q) orig); destruct (Nat.ltb_spec 0 orig);
          destruct (Nat.ltb_spec (S (q_index q)) orig); lia.
      + intros j x Hx Hn. unfold q1 in Hx, Hn. cbn [q_sessions q_index] in Hx, Hn.
        destruct (Nat.eq_dec j (q_index q)) as [Ej|Ej].
        * subst j. rewrite <- Ea, nth_error_mid in Hx. inversion Hx; subst x. exact S1.
        * assert (Hx0 : nth_error (q_sessions q) j = Some x).
          { rewrite Eq. rewrite <- Hx. apply nth_error_mid_neq. congruence. }
          assert (Hjl : (j < length (q_sessions q))%nat) by (apply nth_error_Some; congruence).
          apply (Hab j x Ej Hx0). intros Harc. apply Hn.
          unfold in_arc in *. unfold idx2 in *.
          destruct (Nat.eqb_spec (S (q_index q)) (length (q_sessions q)));
            destruct (Nat.ltb_spec (q_index q) orig); destruct (Nat.ltb_spec 0 orig);
            destruct (Nat.ltb_spec (S (q_index q)) orig); lia.
  Qed.

  Lemma rq_quiet now fs : forall todo done t qs' t',
    Forall wfq done -> Forall wfq todo -> INV (all_sessions (done ++ todo)) fs t ->
    (forall ss, In ss (all_sessions done) -> fstuck now ss t) ->
    rqs done todo now t = (RNothing, qs', t') ->
    forall ss, In ss (all_sessions qs') -> fstuck now ss t'.
  Proof.
    induction todo as [|q r IH]; intros done t qs' t' Wd Wt I Hd H.
    { cbn [read_queues] in H. inversion H; subst. exact Hd. }
    cbn [read_queues] in H.
    destruct (read_priority_queue fdt_npk fdt_ok divf q now t) as [[o1 q1] t1] eqn:Eq. unfold read_priority_queue in Eq.
    inversion Wt as [|? ? Wq Wr]; subst.
    rewrite all_sessions_mid in I.
    destruct (rr_loop_path fdt_npk fdt_ok divf now (all_sessions done) (all_sessions r) _ _ _ _ _ _ _ Wq Eq)
      as (W1 & P1 & L1 & (Lm & tm & Pm & Rm)).
    destruct o1; try (inversion H; fail).
    destruct Rm as [(_ & -> & ->)|(Hc & _)]; [|contradiction].
    assert (I1 : INV (all_sessions done ++ q_sessions q1 ++ all_sessions r) fs t1) by (eapply inv_qpath; eauto).
    assert (Hrem : (rem (q_index q) (q_index q) (length (q_sessions q)) <= length (q_sessions q))%nat).
    { unfold rem. rewrite Nat.ltb_irrefl. destruct Wq. lia. }
    destruct (rr_quiet now (all_sessions done) (all_sessions r) fs _ q (q_index q) t q1 t1 Wq (proj1 Wq) I Hrem) as (_ & S1 & S2).
    { intros j ssj _ Hn. exfalso. apply Hn. unfold in_arc. rewrite Nat.ltb_irrefl. lia. }
    { exact Hd. }
    { exact Eq. }
    assert (Wd' : Forall wfq (done ++ [q1])) by (apply Forall_app; split; [assumption|constructor; [assumption|constructor]]).
    apply (IH (done ++ [q1]) t1 qs' t' Wd' Wr); [| |exact H].
    - rewrite <- app_assoc. cbn [app]. rewrite all_sessions_mid. exact I1.
    - intros ss Hss. rewrite all_sessions_app in Hss. apply in_app_or in Hss. destruct Hss as [Hss|Hss]; [apply S2; exact Hss|].
      apply S1. unfold all_sessions in Hss. cbn [flat_map] in Hss. rewrite app_nil_r in Hss. exact Hss.
  Qed.

  (* ---------- stuck sessions: the queues are read in silence and come back unchanged ---------- *)
  Lemma rr_same now t : forall n q orig,
    wfq q -> (orig < length (q_sessions q))%nat ->
    (forall ss, In ss (q_sessions q) -> ss_fdt_only ss = false /\ fstuck now ss t) ->
    (rem (q_index q) orig (length (q_sessions q)) <= n)%nat ->
    rrl n q orig now t = (RNothing, mk_squeue (q_prio q) orig (q_sessions q), t).
  Proof.
    induction n as [|n IH]; intros q orig W Ho Hs Hrem.
    { exfalso. destruct W as [Wi _]. unfold rem in Hrem. destruct (Nat.ltb_spec (q_index q) orig); lia. }
    destruct (rr_step_eq fdt_npk fdt_ok divf n q orig now t W) as (a & ss & b & o1 & ss1 & t1 & Eq & Ea & Hss & Er & Hrest).
    cbv zeta in Hrest. destruct Hrest as [W1 Eloop]. rewrite Eloop. clear Eloop.
    assert (Hin : In ss (q_sessions q)) by (rewrite Eq; apply in_or_app; right; left; reflexivity).
    destruct (Hs ss Hin) as [Hfo Hst].
    rewrite (fstuck_run now ss t 3 Hfo Hst) in Er. inversion Er; subst o1 ss1 t1. clear Er.
    set (idx2 := (if Nat.eqb (S (q_index q)) (length (q_sessions q)) then 0 else S (q_index q))%nat) in *.
    rewrite <- Eq in *.
    destruct W as [Wi Wp].
    destruct (Nat.eqb_spec idx2 orig) as [Eo|Eo].
    - rewrite Eo. reflexivity.
    - rewrite (IH (mk_squeue (q_prio q) idx2 (q_sessions q)) orig W1); cbn [q_sessions q_index q_prio]; try assumption; [reflexivity|].
      unfold rem in *. unfold idx2 in *.
      destruct (Nat.eqb_spec (S (q_index q)) (length (q_sessions q)));
        destruct (Nat.ltb_spec (q_index q) orig); destruct (Nat.ltb_spec 0 orig);
        destruct (Nat.ltb_spec (S (q_index q)) orig); lia.
  Qed.

  Lemma rq_same now t : forall todo done,
    Forall wfq todo ->
    (forall ss, In ss (all_sessions todo) -> ss_fdt_only ss = false /\ fstuck now ss t) ->
    rqs done todo now t = (RNothing, done ++ todo, t).
  Proof.
    induction todo as [|q r IH]; intros done Wt Hs; cbn [read_queues]; [rewrite app_nil_r; reflexivity|].
    inversion Wt as [|? ? Wq Wr]; subst.
    unfold read_priority_queue.
    assert (Hrem : (rem (q_index q) (q_index q) (length (q_sessions q)) <= length (q_sessions q))%nat).
    { unfold rem. rewrite Nat.ltb_irrefl. destruct Wq. lia. }
    rewrite (rr_same now t _ q (q_index q) Wq (proj1 Wq)); [| |exact Hrem].
    - assert (Eq : mk_squeue (q_prio q) (q_index q) (q_sessions q) = q) by (destruct q; reflexivity).
      rewrite Eq. rewrite IH; [rewrite <- app_assoc; reflexivity|exact Wr|].
      intros ss Hss. apply Hs. unfold all_sessions in *. cbn [flat_map]. apply in_or_app. right. exact Hss.
    - intros ss Hss. apply Hs. unfold all_sessions. cbn [flat_map]. apply in_or_app. left. exact Hss.
  Qed.

  (* ---------- the FDT session with nothing to do ---------- *)
  Definition gn_stuck (now : Z) (t : st) : Prop :=
    match cur_fdt t with Some c => t_transferring (f_t (obj t c)) | None => false end = true
    \/ ((current_fdt_will_expire now t = false \/ fdt_ok (fdtid t) = false) /\ fdtq t = []
        /\ match cur_fdt t with
           | None => True
           | Some c => should_transfer_now (obj t c) 0 (full_fdt t) now = false
           end).

  Definition dstuck (now : Z) (fs : session) (t : st) : Prop :=
    match ss_enc fs, ss_file fs with
    | Some _, Some c => paced now t c = true
    | Some _, None => True
    | None, _ => ss_file fs = None /\ gn_stuck now t
    end.

  Lemma gn_stuck_run now t : gn_stuck now t -> gnfdt now t = ROk _ (None, t).
  Proof.
    intros H. rewrite (gnfdt_unfold fdt_npk fdt_ok divf).
    destruct H as [H|(Hp & Hq & Hc)]; [rewrite H; reflexivity|].
    destruct (match cur_fdt t with Some c => t_transferring (f_t (obj t c)) | None => false end); [reflexivity|].
    cbv zeta.
    assert (E1 : (if current_fdt_will_expire now t then snd (publ now t) else t) = t).
    { destruct Hp as [Hp|Hp]; [rewrite Hp; reflexivity|].
      destruct (current_fdt_will_expire now t); [|reflexivity]. rewrite publish_fail by assumption. reflexivity. }
    rewrite E1. unfold pop_fdt. rewrite Hq.
    destruct (cur_fdt t) as [c|]; [|reflexivity]. rewrite Hc. reflexivity.
  Qed.

  Lemma dstuck_run now fs t f : ss_fdt_only fs = true -> dstuck now fs t -> srun (S f) fs now t = (RNothing, fs, t).
  Proof.
    intros Hfo Hs. unfold dstuck in Hs. cbn [session_run].
    destruct (ss_enc fs) as [e|] eqn:He.
    - rewrite Hfo, He. cbn [negb andb].
      destruct (ss_file fs) as [c|] eqn:Hf; [|reflexivity].
      unfold paced in Hs. rewrite Hs. reflexivity.
    - destruct Hs as [Hf Hg]. unfold get_next. rewrite Hfo, (gn_stuck_run now t Hg).
      assert (Ess : mk_session (ss_prio fs) true None None = fs).
      { destruct fs as [p fo fl en]. cbn in *. subst. reflexivity. }
      rewrite Ess, Hfo, He. reflexivity.
  Qed.

  Lemma fresh_eligible now fs t x : XINV fs t -> In x (fdtq t) ->
    should_transfer_now (obj t x) 0 (full_fdt t) now = true.
  Proof.
    intros X Hx. destruct (x_fresh _ _ X x Hx) as [Htr Hc].
    assert (Hs : fdt_shape t (obj t x)).
    { apply (x_shape _ _ X). unfold fdt_ids, Dq. apply in_or_app. left. apply in_or_app. left. exact Hx. }
    unfold should_transfer_now. rewrite (shp_prio _ _ Hs), (shp_pub _ _ Hs), (shp_start _ _ Hs), Htr, Hc, (shp_max _ _ Hs).
    change (0 =? 0) with true. cbn [negb]. rewrite andb_false_r. reflexivity.
  Qed.

  Lemma fdt_fresh_quiet now L fs t f fs' t' :
    INV L fs t -> XINV fs t -> ss_fdt_only fs = true -> ss_enc fs = None -> ss_file fs = None ->
    srun (S f) fs now t = (RNothing, fs', t') ->
    t' = t /\ fs' = mk_session (ss_prio fs) true None None /\ gn_stuck now t.
  Proof.
    intros I X Hfo He Hfn H. cbn [session_run] in H. rewrite He in H. unfold get_next in H. rewrite Hfo in H.
    destruct (gnfdt now t) as [[[c|] t1]|] eqn:G.
    - exfalso. pose proof (gnfdt_mu fdt_npk fdt_ok divf now L fs t _ _ 0 I X Hfn G) as (_ & _ & Hp).
      cbn [ss_prio ss_fdt_only ss_enc ss_file negb andb] in H.
      fold (paced now t1 c) in H. rewrite Hp in H. fold (fresh_enc t1 c) in H.
      destruct (enc_has_packet_read (fresh_enc t1 c) false (fresh_enc_has t1 c)) as (cl & e' & Er).
      rewrite Er in H. destruct (o_fdtid _); discriminate.
    - cbn [ss_prio ss_fdt_only ss_enc ss_file negb andb] in H. inversion H; subst fs' t'. clear H.
      rewrite (gnfdt_unfold fdt_npk fdt_ok divf) in G.
      destruct (match cur_fdt t with Some c => t_transferring (f_t (obj t c)) | None => false end) eqn:Etr.
      { inversion G; subst. split; [reflexivity|]. split; [reflexivity|]. left. exact Etr. }
      cbv zeta in G.
      destruct (exp_publish_mu fdt_npk fdt_ok now L fs t 0 I X) as (_ & X1 & _). cbv zeta in X1.
      set (t1' := if current_fdt_will_expire now t then snd (publ now t) else t) in *.
      (* no instance is waiting: it would be started and a packet sent *)
      assert (Hq1 : fdtq t1' = []).
      { destruct (fdtq t1') as [|x r] eqn:Eq; [reflexivity|]. exfalso.
        assert (Hx : In x (fdtq t1')) by (rewrite Eq; left; reflexivity).
        pose proof (fresh_eligible now fs t1' x X1 Hx) as Hel.
        unfold pop_fdt in G. rewrite Eq in G. cbn [cur_fdt set_cur_fdt] in G.
        change (obj (set_cur_fdt (set_fdtq t1' r) (Some x)) x) with (obj t1' x) in G.
        change (full_fdt (set_cur_fdt (set_fdtq t1' r) (Some x))) with (full_fdt t1') in G.
        rewrite Hel in G. destruct (t_init _ _ _ _); discriminate. }
      assert (E1 : t1' = t /\ (current_fdt_will_expire now t = false \/ fdt_ok (fdtid t) = false)).
      { unfold t1' in *. destruct (current_fdt_will_expire now t); [|auto].
        destruct (fdt_ok (fdtid t)) eqn:Eo.
        - exfalso. rewrite publish_ok_eq in Hq1 by assumption. cbn [snd fdtq pub_st] in Hq1.
          destruct (fdtq t); discriminate.
        - rewrite publish_fail by assumption. auto. }
      destruct E1 as [E1 Hp]. rewrite E1 in *. clear E1.
      unfold pop_fdt in G. rewrite Hq1 in G.
      assert (Et : t1 = t /\ match cur_fdt t with None => True
                                 | Some c => should_transfer_now (obj t c) 0 (full_fdt t) now = false end).
      { destruct (cur_fdt t) as [c|]; [|inversion G; auto].
        destruct (should_transfer_now (obj t c) 0 (full_fdt t) now); [|inversion G; auto].
        destruct (t_init _ _ _ _); discriminate. }
      destruct Et as [-> Hc]. split; [reflexivity|]. split; [reflexivity|]. right. auto.
    - discriminate.
  Qed.

  Lemma fdt_quiet now L fs t fs' t' :
    INV L fs t -> XINV fs t -> srun 4 fs now t = (RNothing, fs', t') ->
    dstuck now fs' t' /\ (t' = t \/ exists c, In c (fdt_ids fs t) /\ t' = upd_t t c (t_done now)).
  Proof.
    intros I X H. destruct (inv_fs _ _ _ I) as [Hfo Hwf].
    destruct (ss_enc fs) as [e|] eqn:He.
    2:{ destruct (fdt_fresh_quiet now L fs t 3 fs' t' I X Hfo He (Hwf eq_refl) H) as (-> & -> & Hg).
        split; [|left; reflexivity]. unfold dstuck. cbn [ss_enc ss_file]. auto. }
    change 4%nat with (S 3) in H. remember 3%nat as f1 eqn:Ef1. cbn [session_run] in H. rewrite He in H. rewrite Hfo, He in H. cbn [negb andb] in H.
    destruct (ss_file fs) as [c|] eqn:Hf.
    2:{ inversion H; subst. split; [|left; reflexivity]. unfold dstuck. rewrite He, Hf. exact Logic.I. }
    destruct (match t_next_ts (f_t (obj t c)) with Some ts => (now <? ts)%Z | None => false end) eqn:Ep.
    { inversion H; subst. split; [|left; reflexivity]. unfold dstuck. rewrite He, Hf. exact Ep. }
    destruct (enc_read false e) as [[cl|] e'] eqn:Er.
    - exfalso. destruct (o_fdtid _); discriminate.
    - assert (Hin : In c (Dq t ++ opt_list (ss_file fs))) by (rewrite Hf; apply in_or_app; right; left; reflexivity).
      destruct (own_fdt _ _ _ _ _ _ _ _ (inv_own _ _ _ I) c Hin) as (Hl & [_ Hz] & _).
      destruct (fdt_done_mu fdt_npk now fs t c e 0 Hl Hz X Hf He) as (X1 & _). cbv zeta in X1.
      destruct (fdt_done_inv L t fs t c now I (frame_refl _ _) Hf) as [I1 _].
      assert (Efs : mk_session (ss_prio fs) true None None = empty_of fs) by (unfold empty_of; rewrite Hfo; reflexivity).
      rewrite Efs in H. subst f1.
      destruct (fdt_fresh_quiet now L (empty_of fs) _ 2 fs' t' I1 X1 Hfo eq_refl eq_refl H) as (-> & -> & Hg).
      split; [unfold dstuck; cbn [ss_enc ss_file]; auto|]. right. exists c. split; [exact Hin|].
      apply (td_fdt_eq now fs t c X Hf Hz).
  Qed.

  Lemma fstuck_fdt_done now L fs t c ss :
    INV L fs t -> In c (fdt_ids fs t) -> In ss L -> fstuck now ss t -> fstuck now ss (upd_t t c (t_done now)).
  Proof.
    intros I Hc Hss Hs. pose proof (inv_own _ _ _ I) as O.
    destruct (own_fdt _ _ _ _ _ _ _ _ O c Hc) as (_ & _ & Hn).
    assert (Hobj : forall j, In j (slot_ids L ++ queue t) -> obj (upd_t t c (t_done now)) j = obj t j).
    { intros j Hj. apply obj_upd_t_other. intros ->. contradiction. }
    unfold fstuck in *. destruct (ss_enc ss) as [e|].
    - destruct (ss_file ss) as [id|] eqn:Hf; [|exact Logic.I].
      destruct Hs as [Hs|Hs]; [left; exact Hs|right]. unfold paced in *.
      rewrite Hobj; [exact Hs|]. apply in_or_app. left. eapply in_slot_ids_of; eauto.
    - destruct Hs as [H1 H2]. split; [exact H1|]. intros z Hz. change (queue (upd_t t c (t_done now))) with (queue t) in Hz.
      rewrite Hobj; [apply H2; exact Hz|]. apply in_or_app. right. exact Hz.
  Qed.

  (* Q1, second half: after a silent read at [now] the next read at [now] is silent and changes nothing *)
  Theorem read_idem now s s' :
    QInv s -> sread now s = (RNothing, s') -> sread now s' = (RNothing, s').
  Proof.
    intros Q H.
    destruct (read_mu fdt_npk fdt_ok divf now s RNothing s' Q H) as (Q' & _).
    unfold sender_read in H.
    destruct (runfdt now s) as [o1 s1] eqn:E1.
    destruct (runfdt_mu fdt_npk fdt_ok divf now s o1 s1 Q E1) as (Q1 & _).
    destruct o1; try (inversion H; fail).
    destruct (rqs [] (squeues s1) now s1) as [[o2 qs] s2] eqn:E2.
    destruct (queues_mu fdt_npk fdt_ok divf now s1 o2 qs s2 Q1 E2) as (Q3 & _).
    destruct o2; try (inversion H; fail).
    (* every file session is stuck after the queues *)
    assert (S2 : forall ss, In ss (all_sessions qs) -> fstuck now ss s2).
    { apply (rq_quiet now (fdt_session s1) (squeues s1) [] s1 qs s2); auto.
      - apply (Inv_wfq _ (q_inv _ Q1)).
      - apply (Inv_inv _ (q_inv _ Q1)).
      - intros ss []. }
    set (s3 := set_squeues s2 qs) in *.
    pose proof H as H3. apply runfdt_spec in H3. destruct H3 as (fs' & t' & H3 & Es').
    pose proof (Inv_inv _ (q_inv _ Q3)) as I3. change (squeues s3) with qs in I3.
    destruct (fdt_quiet now _ _ s3 fs' t' I3 (q_x _ Q3) H3) as (D' & Ht').
    assert (S3 : forall ss, In ss (all_sessions qs) -> fstuck now ss t').
    { intros ss Hss. destruct Ht' as [->|(c & Hc & ->)].
      - apply (S2 ss Hss).
      - eapply fstuck_fdt_done; [exact I3|exact Hc|exact Hss|]. apply (S2 ss Hss). }
    assert (Esq : squeues t' = qs).
    { destruct Ht' as [->|(c & Hc & ->)]; reflexivity. }
    (* the second read *)
    assert (Efs : fdt_session s' = fs') by (rewrite Es'; reflexivity).
    assert (Esq' : squeues s' = qs) by (rewrite Es'; exact Esq).
    assert (Hfo : ss_fdt_only fs' = true).
    { rewrite <- Efs. apply (inv_fs _ _ _ (Inv_inv _ (q_inv _ Q'))). }
    assert (R1 : runfdt now s' = (RNothing, s')).
    { unfold run_fdt_session. rewrite Efs.
      assert (D'' : dstuck now fs' s') by (rewrite Es'; exact D').
      rewrite (dstuck_run now fs' s' 3 Hfo D''). rewrite Es'. reflexivity. }
    assert (R2 : rqs [] (squeues s') now s' = (RNothing, squeues s', s')).
    { apply (rq_same now s' (squeues s') []).
      - apply (Inv_wfq _ (q_inv _ Q')).
      - intros ss Hss. split.
        + apply (inv_L _ _ _ (Inv_inv _ (q_inv _ Q')) ss Hss).
        + rewrite Esq' in Hss. rewrite Es'. apply (S3 ss Hss). }
    unfold sender_read. rewrite R1, R2.
    assert (Eta : set_squeues s' (squeues s') = s') by (destruct s'; reflexivity).
    rewrite Eta. exact R1.
  Qed.
End Quiet.

(* ============================== part 9: repeated reads at one instant ============================== *)

Section Iterate.
  Variable fdt_npk : N -> nat.
  Variable fdt_ok : N -> bool.
  Variable divf : Z -> N -> option Z.

  Notation srun := (session_run fdt_npk fdt_ok divf).
  Notation sread := (sender_read fdt_npk fdt_ok divf).
  Notation rqs := (read_queues fdt_npk fdt_ok divf).
  Notation runfdt := (run_fdt_session fdt_npk fdt_ok divf).
  Notation MUs := (MUs fdt_npk).

  (* k successive reads at the same instant *)
  Fixpoint read_n (now : Z) (k : nat) (s : st) : list rout * st :=
    match k with
    | O => ([], s)
    | S k' => let (o, s1) := sread now s in let (os, s2) := read_n now k' s1 in (o :: os, s2)
    end.

  Definition pkt_count (os : list rout) : nat := length (filter is_pkt os).

  Lemma read_n_inv now : forall k s, QInv s -> QInv (snd (read_n now k s)).
  Proof.
    induction k as [|k IH]; intros s Q; cbn [read_n]; [exact Q|].
    destruct (sread now s) as [o s1] eqn:E.
    destruct (read_mu fdt_npk fdt_ok divf now s o s1 Q E) as (Q1 & _).
    specialize (IH s1 Q1). destruct (read_n now k s1) as [os s2]. exact IH.
  Qed.

  (* finitely many packets: never more than the potential *)
  Theorem packets_bounded now : forall k s, QInv s -> (pkt_count (fst (read_n now k s)) <= MUs now s)%nat.
  Proof.
    induction k as [|k IH]; intros s Q; cbn [read_n]; [apply Nat.le_0_l|].
    destruct (sread now s) as [o s1] eqn:E.
    destruct (read_mu fdt_npk fdt_ok divf now s o s1 Q E) as (Q1 & M1 & M2 & _).
    specialize (IH s1 Q1). destruct (read_n now k s1) as [os s2]. cbn [fst] in *.
    unfold pkt_count in *. cbn [filter]. destruct (is_pkt o) eqn:Ep; cbn [length]; [specialize (M2 eq_refl)|]; lia.
  Qed.

  (* silence is final at that instant *)
  Theorem silence_forever now s s1 :
    QInv s -> sread now s = (RNothing, s1) -> forall k, read_n now k s1 = (repeat RNothing k, s1).
  Proof.
    intros Q H. pose proof (read_idem fdt_npk fdt_ok divf now s s1 Q H) as Hi.
    induction k as [|k IH]; cbn [read_n repeat]; [reflexivity|]. rewrite Hi, IH. reflexivity.
  Qed.

  (* the packets come first: n <= potential reads that return a packet, then a read that does not *)
  Theorem quiescence now : forall s, QInv s ->
    exists n, (n <= MUs now s)%nat
      /\ Forall (fun o => is_pkt o = true) (fst (read_n now n s))
      /\ let sn := snd (read_n now n s) in
         let (o, s1) := sread now sn in
         (o = RNothing \/ o = RPanic)
         /\ (o = RNothing -> forall k, read_n now k s1 = (repeat RNothing k, s1)).
  Proof.
    intros s. remember (MUs now s) as m eqn:Em. revert s Em.
    induction m as [m IH] using lt_wf_ind. intros s Em Q.
    destruct (sread now s) as [o s1] eqn:E.
    destruct (read_mu fdt_npk fdt_ok divf now s o s1 Q E) as (Q1 & M1 & M2 & Hf).
    destruct (is_pkt o) eqn:Ep.
    - specialize (M2 eq_refl).
      assert (Hlt : (MUs now s1 < m)%nat) by lia.
      destruct (IH (MUs now s1) Hlt s1 eq_refl Q1) as (n & Hn & Hall & Hend).
      exists (S n). split; [lia|]. cbn [read_n]. rewrite E.
      destruct (read_n now n s1) as [os s2] eqn:En. cbn [fst snd] in *.
      split; [constructor; assumption|exact Hend].
    - exists 0%nat. split; [lia|]. cbn [read_n fst snd]. split; [constructor|]. rewrite E.
      split.
      + destruct o; try discriminate; [left; reflexivity|right; reflexivity|exfalso; apply Hf; reflexivity].
      + intros Eo. subst o. exact (silence_forever now s s1 Q E).
  Qed.

  (* ---------- RPanic is the panic of Duration::div_f64: absent when the division is defined ---------- *)
  Lemma srun_no_panic now : (forall d n, 1 <= n -> divf d n <> None) ->
    forall fuel ss t o ss' t', srun fuel ss now t = (o, ss', t') -> o <> RPanic.
  Proof.
    intros Hd. induction fuel as [|f IH]; intros ss t o ss' t' H; cbn [session_run] in H.
    { inversion H; subst. discriminate. }
    assert (Hr : match (match ss_enc ss with None => get_next fdt_npk fdt_ok divf ss now t | Some _ => ROk _ (ss, t) end) with
                 | RPanicked _ => False
                 | ROk _ _ => True
                 end).
    { destruct (ss_enc ss); [exact Logic.I|]. unfold get_next. destruct (ss_fdt_only ss).
      - rewrite (gnfdt_unfold fdt_npk fdt_ok divf).
        destruct (match cur_fdt t with Some c => t_transferring (f_t (obj t c)) | None => false end); [exact Logic.I|].
        cbv zeta. destruct (cur_fdt _) as [c|]; [|exact Logic.I].
        destruct (should_transfer_now _ _ _ _); [|exact Logic.I].
        destruct (t_init divf _ now _) eqn:Ei; [exact Logic.I|]. exfalso. eapply t_init_total; eauto.
      - unfold get_next_file_transfer. destruct (find_remove _ _) as [[id q']|]; [|exact Logic.I].
        unfold transfer_started. destruct (t_init divf _ now _) eqn:Ei; [exact Logic.I|]. exfalso. eapply t_init_total; eauto. }
    destruct (match ss_enc ss with None => get_next fdt_npk fdt_ok divf ss now t | Some _ => ROk _ (ss, t) end)
      as [[ss1 s1]|]; [|contradiction].
    destruct (negb (ss_fdt_only ss1) && negb (Nat.eqb (length (fdtq s1)) 0)); [inversion H; subst; discriminate|].
    destruct (ss_enc ss1) as [e|]; [|inversion H; subst; discriminate].
    destruct (ss_file ss1) as [id|]; [|inversion H; subst; discriminate].
    destruct (match t_next_ts (f_t (obj s1 id)) with Some ts => (now <? ts)%Z | None => false end);
      [inversion H; subst; discriminate|].
    destruct (enc_read _ e) as [[cl|] e'].
    - inversion H; subst. destruct (o_fdtid _); discriminate.
    - eapply IH; eauto.
  Qed.

  Lemma read_no_panic now s o s' :
    (forall d n, 1 <= n -> divf d n <> None) -> Inv s -> sread now s = (o, s') -> o <> RPanic.
  Proof.
    intros Hd IS H. unfold sender_read in H.
    destruct (runfdt now s) as [o1 s1] eqn:E1.
    destruct (Inv_runfdt fdt_npk fdt_ok divf now s o1 s1 IS E1) as (IS1 & _).
    pose proof E1 as E1'. apply runfdt_spec in E1'. destruct E1' as (fs1 & t1 & R1 & _).
    pose proof (srun_no_panic now Hd _ _ _ _ _ _ R1) as N1.
    destruct o1; try (inversion H; subst; assumption).
    destruct (rqs [] (squeues s1) now s1) as [[o2 qs] s2] eqn:E2.
    destruct (Inv_after_queues fdt_npk fdt_ok divf now s1 o2 qs s2 IS1 E2) as (IS3 & _).
    destruct (read_queues_path fdt_npk fdt_ok divf now _ _ _ _ _ _ (Forall_nil _) (Inv_wfq _ IS1) E2) as (_ & _ & (Lm & tm & Pm & Rm)).
    assert (N2 : o2 <> RPanic).
    { destruct Rm as [(-> & _)|(_ & x & _ & Vx)]; [discriminate|].
      destruct Vx as [L1 ss L2 t ox ss' t' Hx]. eapply srun_no_panic; eauto. }
    destruct o2; try (inversion H; subst; assumption).
    apply runfdt_spec in H. destruct H as (fs3 & t3 & R3 & _).
    eapply srun_no_panic; eauto.
  Qed.
End Iterate.

(* ============================== part 10: no object left ============================== *)

(* no file object waits or holds a transmission slot *)
Definition Idle (s : st) : Prop := queue s = [] /\ slot_ids (all_sessions (squeues s)) = [].

Definition op_no_add (o : op) : bool := match o with OpAdd _ _ true => false | _ => true end.
Definition out_not_obj (x : opout) : Prop := match x with OutRead (RObj _ _) => False | _ => True end.

Lemma slot_ids_nil_files L : slot_ids L = [] -> forall ss, In ss L -> ss_file ss = None.
Proof.
  intros H ss Hss. destruct (ss_file ss) as [id|] eqn:Hf; [|reflexivity].
  exfalso. pose proof (in_slot_ids_of L ss id Hss Hf) as Hin. rewrite H in Hin. destruct Hin.
Qed.

Section NoObject.
  Variable fdt_npk : N -> nat.
  Variable fdt_ok : N -> bool.
  Variable divf : Z -> N -> option Z.

  Notation srun := (session_run fdt_npk fdt_ok divf).
  Notation sread := (sender_read fdt_npk fdt_ok divf).
  Notation rqs := (read_queues fdt_npk fdt_ok divf).
  Notation runfdt := (run_fdt_session fdt_npk fdt_ok divf).
  Notation mstep := (step fdt_npk fdt_ok divf).
  Notation publ := (publish fdt_npk fdt_ok).

  (* with nothing to send, every file session is stuck *)
  Lemma idle_stuck now s : Inv s -> Idle s ->
    forall ss, In ss (all_sessions (squeues s)) -> ss_fdt_only ss = false /\ fstuck now ss s.
  Proof.
    intros IS [Hq Hs] ss Hss.
    destruct (inv_L _ _ _ (Inv_inv _ IS) ss Hss) as (A1 & A2 & A3).
    pose proof (slot_ids_nil_files _ Hs ss Hss) as Hf.
    split; [exact A1|]. unfold fstuck. rewrite (A3 Hf). split; [exact Hf|]. rewrite Hq. intros y [].
  Qed.

  Lemma runfdt_idle now s o s1 : Inv s -> Idle s -> runfdt now s = (o, s1) ->
    Inv s1 /\ Idle s1 /\ (forall toi c, o <> RObj toi c).
  Proof.
    intros IS [Hq Hs] H. destruct (Inv_runfdt fdt_npk fdt_ok divf now s o s1 IS H) as (IS1 & F1 & Ho).
    split; [exact IS1|]. split; [|exact Ho]. split.
    - rewrite (fr_queue _ _ _ F1). exact Hq.
    - rewrite (fr_squeues _ _ _ F1). exact Hs.
  Qed.

  (* a read of a state without file objects: RNothing or an FDT packet, and still no file object *)
  Theorem idle_read now s o s' : Inv s -> Idle s -> sread now s = (o, s') ->
    Inv s' /\ Idle s' /\ (forall toi c, o <> RObj toi c).
  Proof.
    intros IS Hi H. unfold sender_read in H.
    destruct (runfdt now s) as [o1 s1] eqn:E1.
    destruct (runfdt_idle now s o1 s1 IS Hi E1) as (IS1 & Hi1 & Ho1).
    destruct o1; try (inversion H; subst; auto; fail).
    rewrite (rq_same fdt_npk fdt_ok divf now s1 (squeues s1) [] (Inv_wfq _ IS1) (idle_stuck now s1 IS1 Hi1)) in H.
    cbn [app] in H.
    assert (Eta : set_squeues s1 (squeues s1) = s1) by (destruct s1; reflexivity).
    rewrite Eta in H. apply (runfdt_idle now s1 o s' IS1 Hi1 H).
  Qed.

  Lemma idle_step s o : Inv s -> Idle s -> op_no_add o = true ->
    Inv (snd (mstep s o)) /\ Idle (snd (mstep s o)) /\ out_not_obj (fst (mstep s o)).
  Proof.
    intros IS Hi Hn.
    assert (Hf : op_fresh s o = true) by (destruct o as [od st acc| | | | |]; try reflexivity; destruct acc; [discriminate|reflexivity]).
    pose proof (Inv_step fdt_npk fdt_ok divf s o IS Hf) as IS'.
    split; [exact IS'|]. clear IS'. destruct Hi as [Hq Hs].
    assert (Hsame : forall x : opout, out_not_obj x -> Idle (snd (x, s)) /\ out_not_obj (fst (x, s))).
    { intros x Hx. cbn [snd fst]. split; [split; assumption|exact Hx]. }
    destruct o as [od start acc|now|toi|toi ts| |now]; cbn [step].
    - destruct (negb (has_queue s (o_prio od))); [apply Hsame; exact Logic.I|].
      destruct (complete s); [apply Hsame; exact Logic.I|].
      destruct acc; [discriminate|]. apply Hsame. exact Logic.I.
    - destruct (publ now s) as [ok s'] eqn:E. cbn [snd fst]. split; [|exact Logic.I].
      replace s' with (snd (publ now s)) by (rewrite E; reflexivity).
      unfold publish. destruct (fdt_ok (fdtid s)); cbn [snd]; split; assumption.
    - destruct (is_added s toi); [|apply Hsame; exact Logic.I]. cbn [snd fst]. split; [|exact Logic.I]. split.
      + cbn [queue set_queue]. rewrite Hq. reflexivity.
      + exact Hs.
    - destruct (find_file s toi) as [id|]; [|apply Hsame; exact Logic.I].
      destruct (t_transferring (f_t (obj s id))); [apply Hsame; exact Logic.I|]. cbn [snd fst].
      split; [|exact Logic.I]. split; assumption.
    - cbn [snd fst]. split; [|exact Logic.I]. split; assumption.
    - destruct (sread now s) as [r s'] eqn:E. cbn [snd fst].
      destruct (idle_read now s r s' IS (conj Hq Hs) E) as (_ & Hi' & Ho). split; [exact Hi'|].
      destruct r; try exact Logic.I. exfalso. eapply Ho. reflexivity.
  Qed.

  (* Q2: until an add is accepted, no object packet is produced *)
  Theorem idle_run : forall ops s, Inv s -> Idle s -> forallb op_no_add ops = true ->
    Forall out_not_obj (fst (run_ops fdt_npk fdt_ok divf s ops))
    /\ Idle (snd (run_ops fdt_npk fdt_ok divf s ops)).
  Proof.
    induction ops as [|o r IH]; intros s IS Hi Hn; cbn [run_ops]; [split; [constructor|exact Hi]|].
    cbn [forallb] in Hn. apply andb_true_iff in Hn. destruct Hn as [Hn1 Hn2].
    destruct (idle_step s o IS Hi Hn1) as (IS' & Hi' & Ho).
    destruct (mstep s o) as [x s1]. cbn [fst snd] in *.
    destruct (IH s1 IS' Hi' Hn2) as [A B].
    destruct (run_ops fdt_npk fdt_ok divf s1 r) as [xs s2]. cbn [fst snd] in *.
    split; [constructor; assumption|exact B].
  Qed.
End NoObject.

(* ---------- the waiting list is part of Fdt.files: files = [] implies queue = [] ---------- *)
Definition JINV (L : list session) (t : st) : Prop :=
  (forall j, In j (files t) -> In j (live L t)) /\ (forall j, In j (queue t) -> In j (files t)).
Definition Js (s : st) : Prop := JINV (all_sessions (squeues s)) s.

Section Listed.
  Variable fdt_npk : N -> nat.
  Variable fdt_ok : N -> bool.
  Variable divf : Z -> N -> option Z.

  Notation sread := (sender_read fdt_npk fdt_ok divf).
  Notation rqs := (read_queues fdt_npk fdt_ok divf).
  Notation runfdt := (run_fdt_session fdt_npk fdt_ok divf).
  Notation mstep := (step fdt_npk fdt_ok divf).
  Notation publ := (publish fdt_npk fdt_ok).
  Notation gnft := (get_next_file_transfer fdt_npk fdt_ok divf).
  Notation file_run := (file_run fdt_npk fdt_ok divf).
  Notation fresh_run := (fresh_run fdt_npk fdt_ok divf).
  Notation vstep := (vstep fdt_npk fdt_ok divf).
  Notation qpath := (qpath fdt_npk fdt_ok divf).

  Lemma J_same_file L1 ss ss' L2 t t' :
    ss_file ss' = ss_file ss -> queue t' = queue t -> files t' = files t ->
    JINV (L1 ++ ss :: L2) t -> JINV (L1 ++ ss' :: L2) t'.
  Proof.
    intros Ef Eq Efl [J1 J2]. split.
    - intros j Hj. rewrite Efl in Hj. apply J1 in Hj. apply live_mid in Hj. apply live_mid. rewrite Ef, Eq. exact Hj.
    - intros j Hj. rewrite Eq in Hj. rewrite Efl. apply J2. exact Hj.
  Qed.

  Lemma J_start now L1 ss0 L2 fs t id t1 e :
    INV (L1 ++ ss0 :: L2) fs t -> ss_enc ss0 = None -> gnft (ss_prio ss0) now t = ROk _ (Some id, t1) ->
    JINV (L1 ++ ss0 :: L2) t -> JINV (L1 ++ loaded ss0 id e :: L2) t1.
  Proof.
    intros I He G [J1 J2].
    destruct (Lwf_mid _ _ _ (inv_L _ _ _ I)) as (_ & A2 & _). pose proof (A2 He) as Hfn.
    destruct (start_facts fdt_npk fdt_ok divf _ _ _ _ _ G) as (a & r & ti & Hq & Hq1 & Hf1 & _).
    split.
    - intros j Hj. rewrite Hf1 in Hj. apply J1 in Hj. apply live_mid in Hj. apply live_mid.
      cbn [ss_file loaded]. rewrite Hfn, Hq in Hj. rewrite Hq1.
      destruct Hj as [Hj|[Hj|[Hj|Hj]]]; auto; [discriminate|].
      apply in_app_or in Hj. destruct Hj as [Hj|[<-|Hj]]; [right; right; right; apply in_or_app; left; exact Hj|
        right; left; reflexivity|right; right; right; apply in_or_app; right; exact Hj].
    - intros j Hj. rewrite Hq1 in Hj. rewrite Hf1. apply J2. rewrite Hq.
      apply in_app_or in Hj. apply in_or_app. destruct Hj; [left|right; right]; assumption.
  Qed.

  Lemma J_fresh_run now L1 ss0 L2 fs t o ss' t' :
    INV (L1 ++ ss0 :: L2) fs t -> ss_enc ss0 = None -> fresh_run now ss0 t o ss' t' ->
    JINV (L1 ++ ss0 :: L2) t -> JINV (L1 ++ ss' :: L2) t'.
  Proof.
    intros I He R J.
    destruct (Lwf_mid _ _ _ (inv_L _ _ _ I)) as (_ & A2 & _). pose proof (A2 He) as Hfn.
    destruct R as [G|G|id t1 G Hw|id t1 c e' G Hq Hp Er].
    - exact J.
    - eapply J_same_file; [| | |exact J]; [cbn; symmetry; exact Hfn|reflexivity|reflexivity].
    - eapply J_start; eauto.
    - eapply (J_same_file L1 (loaded ss0 id e') (loaded ss0 id e') L2 t1); [reflexivity|reflexivity|reflexivity|].
      eapply J_start; eauto.
  Qed.

  Lemma find_in_some {A} (p : A -> bool) l x : In x l -> p x = true -> find p l <> None.
  Proof. intros Hin Hp Hn. pose proof (find_none _ _ Hn x Hin). congruence. Qed.

  Lemma J_release now L1 ss L2 fs t id :
    INV (L1 ++ ss :: L2) fs t -> NZ (L1 ++ ss :: L2) t -> ss_file ss = Some id ->
    JINV (L1 ++ ss :: L2) t -> JINV (L1 ++ empty_of ss :: L2) (transfer_done id now t).
  Proof.
    intros I Z Hf [J1 J2].
    destruct (slot_sep _ _ _ _ _ _ I Hf) as (N1 & N2 & N3 & _ & Hl).
    assert (Hz : toi_of t id <> 0) by (apply Z; apply live_mid; right; left; exact Hf).
    assert (Hlive : In id (live (L1 ++ ss :: L2) t)) by (apply live_mid; right; left; exact Hf).
    pose proof (own_toi _ _ _ _ _ _ _ _ (inv_own _ _ _ I)) as Hnd.
    assert (Hinj : forall j, In j (live (L1 ++ ss :: L2) t) -> toi_of t j = toi_of t id -> j = id).
    { intros j Hj E. eapply (NoDup_map_inj_in (fun j => o_toi (fo_of t j))); [exact Hnd|exact Hj|exact Hlive|exact E]. }
    (* live set after the release, without the object *)
    assert (Hdrop : forall j q', In j (live (L1 ++ ss :: L2) t) -> j <> id -> (forall x, In x (queue t) -> In x q') ->
              In j (slot_ids L1) \/ ss_file (empty_of ss) = Some j \/ In j (slot_ids L2) \/ In j q').
    { intros j q' Hj Hne Hq. apply live_mid in Hj. rewrite Hf in Hj.
      destruct Hj as [Hj|[Hj|[Hj|Hj]]]; auto. inversion Hj; subst. contradiction. }
    set (s1 := upd_t t id (t_done now)). set (s2 := log_ev s1 (EvStop (toi_of t id))).
    assert (Etoi : forall j, toi_of s2 j = toi_of t j) by (intros j; apply (toi_of_upd_t t id (t_done now) j)).
    assert (Eadd : is_added s2 (toi_of t id) = is_some (find (fun j => toi_of t j =? toi_of t id) (files t))).
    { unfold is_added, find_file. f_equal. apply find_ext_in. intros x _. rewrite Etoi. reflexivity. }
    destruct (transfer_done_cases id now t) as [(E0 & _)|(_ & [(Ea & E)|[(Ea & Ee & E)|(Ea & Ee & E)]])];
      [contradiction| | |]; cbv zeta in E, Ea; fold s1 s2 in E, Ea; rewrite E.
    - (* no longer listed: dropped *)
      assert (Hnf : ~ In id (files t)).
      { intros Hin. rewrite Eadd in Ea. destruct (find _ (files t)) eqn:Efd; [discriminate|].
        apply (find_in_some _ _ id Hin (N.eqb_refl _) Efd). }
      split.
      + intros j Hj. change (files s2) with (files t) in Hj. apply live_mid. change (queue s2) with (queue t).
        apply (Hdrop j (queue t)); [apply J1; exact Hj| |auto]. intros ->. contradiction.
      + intros j Hj. apply J2. exact Hj.
    - (* queued again *)
      assert (Hin : In id (files t)).
      { rewrite Eadd in Ea. destruct (find _ (files t)) as [id'|] eqn:Efd; [|discriminate].
        apply find_some in Efd. destruct Efd as [Hin' Ht']. apply N.eqb_eq in Ht'.
        rewrite <- (Hinj id' (J1 _ Hin') Ht'). exact Hin'. }
      split.
      + intros j Hj. change (files (set_queue s2 (queue t ++ [id]))) with (files t) in Hj. apply live_mid.
        change (queue (set_queue s2 (queue t ++ [id]))) with (queue t ++ [id]).
        destruct (Nat.eq_dec j id) as [->|Hne]; [right; right; right; apply in_or_app; right; left; reflexivity|].
        apply (Hdrop j (queue t ++ [id])); [apply J1; exact Hj|exact Hne|]. intros x Hx. apply in_or_app. left. exact Hx.
      + intros j Hj. change (queue (set_queue s2 (queue t ++ [id]))) with (queue t ++ [id]) in Hj.
        change (files (set_queue s2 (queue t ++ [id]))) with (files t).
        apply in_app_or in Hj. destruct Hj as [Hj|[<-|[]]]; [apply J2; exact Hj|exact Hin].
    - (* expired: unlisted *)
      assert (Hfl : forall j, In j (files (set_files s2 (remove_toi s2 (toi_of t id) (files t)))) <->
                              In j (files t) /\ toi_of t j <> toi_of t id).
      { intros j. cbn [files set_files]. unfold remove_toi. rewrite filter_In.
        rewrite Etoi. rewrite negb_true_iff, N.eqb_neq. reflexivity. }
      split.
      + intros j Hj. apply Hfl in Hj. destruct Hj as [Hj Ht]. apply live_mid.
        change (queue (set_files s2 (remove_toi s2 (toi_of t id) (files t)))) with (queue t).
        apply (Hdrop j (queue t)); [apply J1; exact Hj| |auto]. intros ->. apply Ht. reflexivity.
      + intros j Hj. change (queue (set_files s2 (remove_toi s2 (toi_of t id) (files t)))) with (queue t) in Hj.
        apply Hfl. split; [apply J2; exact Hj|]. intros Ht.
        assert (j = id) by (apply Hinj; [apply in_or_app; right; exact Hj|exact Ht]). subst j. contradiction.
  Qed.

  Lemma J_file_run now L1 ss L2 fs t o ss' t' :
    INV (L1 ++ ss :: L2) fs t -> NZ (L1 ++ ss :: L2) t -> file_run now ss t o ss' t' ->
    JINV (L1 ++ ss :: L2) t -> JINV (L1 ++ ss' :: L2) t'.
  Proof.
    intros I Z R J.
    destruct R as [id e Hf He Hw|e He Hf|id e c e' Hf He Hq Hp Er|o ss' t' He R|id e e' o ss' t' Hf He Hq Hp Er R].
    - exact J.
    - exact J.
    - eapply J_same_file; [| | |exact J]; [cbn; symmetry; exact Hf|reflexivity|reflexivity].
    - eapply J_fresh_run; eauto.
    - eapply (J_fresh_run now L1 (empty_of ss) L2); [apply inv_transfer_done; eassumption|reflexivity|exact R|].
      eapply J_release; eauto.
  Qed.

  Lemma J_vstep now L fs t ss o L' t' :
    INV L fs t -> NZ L t -> JINV L t -> vstep now L t ss o L' t' -> JINV L' t'.
  Proof.
    intros I Z J V. destruct V as [L1 ss L2 t o ss' t' H].
    destruct (Lwf_mid _ _ _ (inv_L _ _ _ I)) as (A1 & _).
    apply file_run_inv in H; [|assumption]. eapply J_file_run; eauto.
  Qed.

  Lemma J_qpath now L fs t L' t' :
    INV L fs t -> NZ L t -> JINV L t -> qpath now L t L' t' -> JINV L' t'.
  Proof.
    intros I Z J P. revert I Z J. induction P as [|L t ss L1 t1 L2 t2 V P IH]; intros I Z J; [exact J|].
    apply IH.
    - eapply inv_vstep; eauto.
    - eapply nz_shrink; [exact I|exact Z|eapply shrink_vstep; eauto].
    - eapply J_vstep; eauto.
  Qed.

  Lemma J_runfdt now s o s1 : Inv s -> Js s -> runfdt now s = (o, s1) -> Js s1.
  Proof.
    intros IS [J1 J2] H. destruct (Inv_runfdt fdt_npk fdt_ok divf now s o s1 IS H) as (_ & F & _).
    unfold Js, JINV, live. rewrite (fr_squeues _ _ _ F), (fr_queue _ _ _ F), (fr_files _ _ _ F). split; assumption.
  Qed.

  Lemma J_read now s o s' : QInv s -> Js s -> sread now s = (o, s') -> Js s'.
  Proof.
    intros Q J H. unfold sender_read in H.
    destruct (runfdt now s) as [o1 s1] eqn:E1.
    destruct (runfdt_mu fdt_npk fdt_ok divf now s o1 s1 Q E1) as (Q1 & _).
    pose proof (J_runfdt now s o1 s1 (q_inv _ Q) J E1) as J1.
    destruct o1; try (inversion H; subst; assumption).
    destruct (rqs [] (squeues s1) now s1) as [[o2 qs] s2] eqn:E2.
    destruct (queues_mu fdt_npk fdt_ok divf now s1 o2 qs s2 Q1 E2) as (Q3 & _).
    assert (J3 : Js (set_squeues s2 qs)).
    { destruct Q1 as [IS1 Z1 X1].
      destruct (read_queues_path fdt_npk fdt_ok divf now _ _ _ _ _ _ (Forall_nil _) (Inv_wfq _ IS1) E2) as (_ & _ & (Lm & tm & Pm & Rm)).
      cbn [app] in *.
      pose proof (J_qpath now _ _ _ _ _ (Inv_inv _ IS1) Z1 J1 Pm) as Jm.
      unfold Js. cbn [squeues set_squeues].
      destruct Rm as [(_ & -> & ->)|(_ & x & _ & Vx)]; [exact Jm|].
      destruct (qpath_mu fdt_npk fdt_ok divf now _ _ _ _ _ (Inv_inv _ IS1) X1 Z1 Pm) as (Im & _ & Zm & _).
      apply (J_vstep now _ _ _ _ _ _ _ Im Zm Jm Vx). }
    destruct o2; try (inversion H; subst; assumption).
    apply (J_runfdt now _ o s' (q_inv _ Q3) J3 H).
  Qed.

  Lemma J_step s o : QInv s -> Js s -> Js (snd (mstep s o)).
  Proof.
    intros Q [J1 J2]. destruct o as [od start acc|now|toi|toi ts| |now]; cbn [step].
    - destruct (negb (has_queue s (o_prio od))); [split; assumption|].
      destruct (complete s); [split; assumption|].
      destruct acc; cbn [negb snd]; [|split; assumption].
      unfold Js, JINV, live. cbn [squeues queue files set_queue set_files set_objs]. split.
      + intros j Hj. apply in_app_or in Hj. rewrite app_assoc. apply in_or_app.
        destruct Hj as [Hj|Hj]; [left; apply J1; exact Hj|right; exact Hj].
      + intros j Hj. apply in_app_or in Hj. apply in_or_app. destruct Hj as [Hj|Hj]; [left; apply J2; exact Hj|right; exact Hj].
    - destruct (publ now s) as [ok s'] eqn:E. cbn [snd].
      replace s' with (snd (publ now s)) by (rewrite E; reflexivity).
      unfold publish. destruct (fdt_ok (fdtid s)); cbn [snd]; split; assumption.
    - destruct (is_added s toi); [|split; assumption]. cbn [snd].
      unfold Js, JINV, live. cbn [squeues queue files set_queue set_files]. unfold remove_toi. split.
      + intros j Hj. apply filter_In in Hj. destruct Hj as [Hj Hp]. apply J1 in Hj. apply in_app_or in Hj.
        apply in_or_app. destruct Hj as [Hj|Hj]; [left; exact Hj|right; apply filter_In; split; assumption].
      + intros j Hj. apply filter_In in Hj. destruct Hj as [Hj Hp]. apply filter_In. split; [apply J2; exact Hj|exact Hp].
    - destruct (find_file s toi) as [id|]; [|split; assumption].
      destruct (t_transferring (f_t (obj s id))); [split; assumption|]. cbn [snd]. split; assumption.
    - cbn [snd]. split; assumption.
    - destruct (sread now s) as [r s'] eqn:E. cbn [snd]. eapply J_read; eauto. split; assumption.
  Qed.

  Lemma Js_init full dur car sid queues : Js (init_st full dur car sid queues).
  Proof. split; intros j Hj; destruct Hj. Qed.

  Lemma Js_reach : forall ops s,
    QInv s -> Js s -> ops_fresh fdt_npk fdt_ok divf s ops = true -> ops_nz ops = true -> ops_car ops = true ->
    Js (snd (run_ops fdt_npk fdt_ok divf s ops)).
  Proof.
    induction ops as [|o r IH]; intros s Q J Hf Hn Hc; cbn [run_ops]; [exact J|].
    cbn [ops_fresh ops_nz ops_car forallb] in *.
    apply andb_true_iff in Hf. destruct Hf as [Hf1 Hf2].
    apply andb_true_iff in Hn. destruct Hn as [Hn1 Hn2].
    apply andb_true_iff in Hc. destruct Hc as [Hc1 Hc2].
    pose proof (QInv_step fdt_npk fdt_ok divf s o Q Hf1 Hn1 Hc1) as Q'.
    pose proof (J_step s o Q J) as J'.
    destruct (mstep s o) as [x s1]. cbn [snd] in *.
    specialize (IH s1 Q' J' Hf2 Hn2 Hc2).
    destruct (run_ops fdt_npk fdt_ok divf s1 r) as [xs s2]. cbn [snd] in *. exact IH.
  Qed.

  (* no object remains: Fdt.files is empty and no session holds a file object *)
  Lemma no_object_idle s : Js s -> files s = [] -> slot_ids (all_sessions (squeues s)) = [] -> Idle s.
  Proof.
    intros [_ J2] Hf Hs. split; [|exact Hs].
    destruct (queue s) as [|x r] eqn:Eq; [reflexivity|]. exfalso.
    assert (Hin : In x (files s)) by (apply J2; left; reflexivity). rewrite Hf in Hin. destruct Hin.
  Qed.
End Listed.

(* ============================== part 11: statements for reachable states ============================== *)

Section Final.
  Variable fdt_npk : N -> nat.
  Variable fdt_ok : N -> bool.
  Variable divf : Z -> N -> option Z.

  Notation sread := (sender_read fdt_npk fdt_ok divf).
  Notation runs := (run_ops fdt_npk fdt_ok divf).
  Notation read_n := (read_n fdt_npk fdt_ok divf).
  Notation MUs := (MUs fdt_npk).

  (* the premises: ascending queue keys, a positive FDT duration and an FDT carousel whose delay is a
     duration, adds under TOIs that are neither live nor 0, carousel delays that are durations *)
  Definition reach_ok (full : bool) (dur : Z) (car : carousel) (sid : N) (queues : list (N * nat)) (ops : list op) : Prop :=
    StronglySorted N.lt (map fst queues) /\ cfg_ok dur car = true
    /\ ops_fresh fdt_npk fdt_ok divf (init_st full dur car sid queues) ops = true
    /\ ops_nz ops = true /\ ops_car ops = true.

  Lemma reach_QInv full dur car sid queues ops :
    reach_ok full dur car sid queues ops ->
    QInv (snd (runs (init_st full dur car sid queues) ops)) /\ Js (snd (runs (init_st full dur car sid queues) ops)).
  Proof.
    intros (Hs & Hc & Hf & Hn & Hk).
    pose proof (QInv_init full dur car sid queues Hs Hc) as Q0. split.
    - apply QInv_reach; assumption.
    - apply Js_reach; try assumption. apply Js_init.
  Qed.

  (* Q1 (a): at any instant, however many reads: at most MUs packets *)
  Theorem quiesce_packets_bounded full dur car sid queues ops now k :
    reach_ok full dur car sid queues ops ->
    let s := snd (runs (init_st full dur car sid queues) ops) in
    (pkt_count (fst (read_n now k s)) <= MUs now s)%nat.
  Proof. intros H. cbv zeta. apply packets_bounded. apply (reach_QInv _ _ _ _ _ _ H). Qed.

  (* Q1 (b): n <= MUs reads return a packet, the next one does not, and if it returns RNothing every
     later read at that instant returns RNothing and leaves the state (all of it) unchanged *)
  Theorem quiesce_reads full dur car sid queues ops now :
    reach_ok full dur car sid queues ops ->
    let s := snd (runs (init_st full dur car sid queues) ops) in
    exists n, (n <= MUs now s)%nat
      /\ Forall (fun o => is_pkt o = true) (fst (read_n now n s))
      /\ let (o, s1) := sread now (snd (read_n now n s)) in
         (o = RNothing \/ o = RPanic)
         /\ (o = RNothing -> forall k, read_n now k s1 = (repeat RNothing k, s1)).
  Proof. intros H. cbv zeta. apply quiescence. apply (reach_QInv _ _ _ _ _ _ H). Qed.

  (* Q1 (c): the step behind (b) *)
  Theorem quiesce_silent_read_idempotent full dur car sid queues ops now s1 :
    reach_ok full dur car sid queues ops ->
    let s := snd (runs (init_st full dur car sid queues) ops) in
    sread now s = (RNothing, s1) -> sread now s1 = (RNothing, s1).
  Proof. intros H. cbv zeta. apply read_idem. apply (reach_QInv _ _ _ _ _ _ H). Qed.

  (* Q1 (d): every read: the potential does not grow, a packet lowers it, the fuel of the session
     loop is never exhausted; no panic when Duration::div_f64 is defined *)
  Theorem quiesce_read_step full dur car sid queues ops now o s' :
    reach_ok full dur car sid queues ops ->
    let s := snd (runs (init_st full dur car sid queues) ops) in
    sread now s = (o, s') ->
    (MUs now s' <= MUs now s)%nat /\ (is_pkt o = true -> (S (MUs now s') <= MUs now s)%nat) /\ o <> RFuel
    /\ ((forall d n, 1 <= n -> divf d n <> None) -> o <> RPanic).
  Proof.
    intros H. cbv zeta. intros E. destruct (reach_QInv _ _ _ _ _ _ H) as [Q _].
    destruct (read_mu fdt_npk fdt_ok divf now _ o s' Q E) as (_ & A & B & C).
    split; [exact A|]. split; [exact B|]. split; [exact C|].
    intros Hd. eapply read_no_panic; [exact Hd|apply (q_inv _ Q)|exact E].
  Qed.

  (* Q2: no object remains (Fdt.files empty, no session holds a file object): whatever follows, as
     long as no add is accepted, no read returns an object packet *)
  Theorem only_fdt_when_no_object full dur car sid queues ops more :
    reach_ok full dur car sid queues ops ->
    let s := snd (runs (init_st full dur car sid queues) ops) in
    files s = [] -> slot_ids (all_sessions (squeues s)) = [] ->
    forallb op_no_add more = true ->
    Forall out_not_obj (fst (runs s more)).
  Proof.
    intros H. cbv zeta. intros Hf Hs Hm. destruct (reach_QInv _ _ _ _ _ _ H) as [Q J].
    apply (idle_run fdt_npk fdt_ok divf more _ (q_inv _ Q)); [|exact Hm].
    apply no_object_idle; assumption.
  Qed.
End Final.

(* boolean companions for examples *)
Definition all_pkt (os : list rout) : bool := forallb is_pkt os.
Definition slots_empty (s : st) : bool :=
  forallb (fun ss => negb (is_some (ss_file ss))) (all_sessions (squeues s)).

Lemma slots_empty_ids s : slots_empty s = true -> slot_ids (all_sessions (squeues s)) = [].
Proof.
  unfold slots_empty, slot_ids, slot_pairs. generalize (all_sessions (squeues s)) as L.
  induction L as [|x L IH]; intros H; [reflexivity|]. cbn [forallb] in H. apply andb_true_iff in H. destruct H as [H1 H2].
  cbn [flat_map]. destruct (ss_file x); [discriminate|]. cbn [app]. apply IH. exact H2.
Qed.

(* ---------- the bound fails without the two new premises ---------- *)
(* without [cfg_ok] *)
Definition packets_bounded_without_cfg : Prop :=
  forall fdt_npk fdt_ok divf full dur car sid queues ops now k,
    StronglySorted N.lt (map fst queues) ->
    ops_fresh fdt_npk fdt_ok divf (init_st full dur car sid queues) ops = true -> ops_nz ops = true -> ops_car ops = true ->
    let s := snd (run_ops fdt_npk fdt_ok divf (init_st full dur car sid queues) ops) in
    (pkt_count (fst (read_n fdt_npk fdt_ok divf now k s)) <= MUs fdt_npk now s)%nat.

Lemma packets_bounded_without_cfg_false : ~ packets_bounded_without_cfg.
Proof.
  intros H.
  assert (Hs : StronglySorted N.lt (map fst [(0, 1%nat)])) by repeat constructor.
  specialize (H cex_npk cex_ok cex_div true 0%Z (CDelay 1000000000) 1 [(0, 1%nat)] [] 0%Z 5%nat Hs eq_refl eq_refl eq_refl).
  vm_compute in H. lia.
Qed.

(* without [ops_car] *)
Definition packets_bounded_without_car : Prop :=
  forall fdt_npk fdt_ok divf full dur car sid queues ops now k,
    StronglySorted N.lt (map fst queues) -> cfg_ok dur car = true ->
    ops_fresh fdt_npk fdt_ok divf (init_st full dur car sid queues) ops = true -> ops_nz ops = true ->
    let s := snd (run_ops fdt_npk fdt_ok divf (init_st full dur car sid queues) ops) in
    (pkt_count (fst (read_n fdt_npk fdt_ok divf now k s)) <= MUs fdt_npk now s)%nat.

Lemma packets_bounded_without_car_false : ~ packets_bounded_without_car.
Proof.
  intros H.
  assert (Hs : StronglySorted N.lt (map fst [(0, 1%nat)])) by repeat constructor.
  specialize (H cex_npk cex_ok cex_div true 3600000000000%Z (CDelay 1000000000) 1 [(0, 1%nat)]
                [OpAdd (mk_odesc 1 0 1 1 1 (CDelay (-1)) TNone false None []) None true] 0%Z 8%nat Hs eq_refl eq_refl eq_refl).
  vm_compute in H. lia.
Qed.
