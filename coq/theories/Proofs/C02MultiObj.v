(* C02 / C01 with SEVERAL objects in one session (Model/Recv.v).
   A. the part of the context (builder counter, write counters, log) that belongs to one TOI: [CSame t];
      every function of the object plane (Model/ObjRecv.v), applied to an object of TOI t, reads and changes only
      that part (two-run statement [Par2]: same object out, t-parts stay equal, every other TOI's part untouched).
   B. I1, isolation at the receiver: a packet of TOI t <> 0 changes, of the receiver state, only the entry of t in
      rv_objects, t's membership in rv_completed / rv_error, the expiry marks of rv_fdt_current and the
      close-session flag; of the rest of rv_error it can only trim a prefix (gc_error); of the context only the
      t-part.
   C. I2: the FDT-first delivery theorem of Proofs/C02SessionRS.v (interface SessIface) for a packet list in which
      the packets of the object are interleaved with ARBITRARY packets of other non-zero TOIs.
   D. instances (No-Code, Reed-Solomon, RaptorQ/Raptor), the statements for m objects, examples. *)
From FluteV Require Import Model.BlockEnc Model.SenderCtl Proofs.C01Full Proofs.C01Esi.
From FluteV Require Import Model.Partition Spec.C07Spec Proofs.PartitionProofs Model.ObjRecv Model.Recv
  Spec.RecvSpec Spec.SessionSpec Proofs.RecvProofs Proofs.SessionProofs Proofs.C02Full Proofs.C09Full
  Proofs.C02Session Proofs.C02RS Proofs.C02SessionRS.
From Coq Require Import Lia.
Open Scope N_scope.

Arguments N.add : simpl never. Arguments N.mul : simpl never. Arguments N.sub : simpl never.
Arguments N.eqb : simpl never. Arguments N.ltb : simpl never. Arguments N.leb : simpl never.
Arguments N.div : simpl never. Arguments N.modulo : simpl never. Arguments N.min : simpl never.

(* ================= A. the part of the context that belongs to a TOI ================= *)
Definition ev_toi (e : wev) : N :=
  match e with
  | EvBuilder t _ => t
  | EvOpen w _ | EvWrite w _ _ | EvComplete w | EvError w | EvInterrupted w => fst w
  end.
Definition tlog (t : N) (l : list wev) : list wev := filter (fun e => ev_toi e =? t) l.

(* c and c' agree on TOI t: builder calls made for t, write counters of the writers (t, n), events of t *)
Definition CSame (t : N) (c c' : ctx) : Prop :=
  ncalls c t = ncalls c' t /\ (forall n, wcount c (t, n) = wcount c' (t, n)) /\ tlog t (c_log c) = tlog t (c_log c').
(* c' differs from c at most on TOI t, and its log is the log of c followed by events of t *)
Definition LogExt (t : N) (c c' : ctx) : Prop :=
  exists evs, c_log c' = c_log c ++ evs /\ Forall (fun e => ev_toi e = t) evs.
Definition Fr (t : N) (c c' : ctx) : Prop := (forall u, u <> t -> CSame u c c') /\ LogExt t c c'.

Lemma CSame_refl t c : CSame t c c.
Proof. split; [|split]; reflexivity. Qed.
Lemma CSame_sym t c c' : CSame t c c' -> CSame t c' c.
Proof. intros (A & B & C). split; [|split]; [symmetry; exact A|intros n; symmetry; apply B|symmetry; exact C]. Qed.
Lemma CSame_trans t c1 c2 c3 : CSame t c1 c2 -> CSame t c2 c3 -> CSame t c1 c3.
Proof.
  intros (A & B & C) (A' & B' & C'). split; [|split]; [congruence|intros n; rewrite B; apply B'|congruence].
Qed.
Lemma LogExt_refl t c : LogExt t c c.
Proof. exists []. split; [rewrite app_nil_r; reflexivity|constructor]. Qed.
Lemma LogExt_trans t c1 c2 c3 : LogExt t c1 c2 -> LogExt t c2 c3 -> LogExt t c1 c3.
Proof.
  intros (e1 & A1 & B1) (e2 & A2 & B2). exists (e1 ++ e2). split; [rewrite A2, A1, app_assoc; reflexivity|].
  apply Forall_app. split; assumption.
Qed.
Lemma LogExt_ceq t c c' : c_log c' = c_log c -> LogExt t c c'.
Proof. intros H. exists []. split; [rewrite app_nil_r; exact H|constructor]. Qed.
Lemma Fr_refl t c : Fr t c c.
Proof. split; [intros u _; apply CSame_refl|apply LogExt_refl]. Qed.
Lemma Fr_trans t c1 c2 c3 : Fr t c1 c2 -> Fr t c2 c3 -> Fr t c1 c3.
Proof.
  intros [A A'] [B B']. split; [|eapply LogExt_trans; eassumption].
  intros u Hu. eapply CSame_trans; [apply A|apply B]; exact Hu.
Qed.
Lemma CSame_ceq t c c' : c_next c' = c_next c -> c_wcount c' = c_wcount c -> c_log c' = c_log c -> CSame t c c'.
Proof.
  intros A B C. split; [|split].
  - unfold ncalls. rewrite A. reflexivity.
  - intros n. unfold wcount. rewrite B. reflexivity.
  - rewrite C. reflexivity.
Qed.

Lemma tlog_app t a b : tlog t (a ++ b) = tlog t a ++ tlog t b.
Proof. apply filter_app. Qed.

Lemma calls_of_tlog t n l : calls_of (t, n) (tlog t l) = calls_of (t, n) l.
Proof.
  induction l as [|e l IH]; [reflexivity|]. cbn [tlog filter].
  change (e :: l) with ([e] ++ l). rewrite (calls_of_app (t, n) [e] l).
  destruct (N.eqb_spec (ev_toi e) t) as [He|He].
  - change (e :: filter (fun e0 => ev_toi e0 =? t) l) with ([e] ++ tlog t l).
    rewrite calls_of_app. unfold tlog in IH. unfold tlog. rewrite IH. reflexivity.
  - fold (tlog t l). rewrite IH.
    assert (X : calls_of (t, n) [e] = []).
    { rewrite calls_of_single. destruct e as [t0 a|w ok|w d ok|w|w|w]; cbn [ev_call]; try reflexivity;
      cbn [ev_toi] in He; (rewrite wid_eqb_neq; [reflexivity|intros Eq; apply He; rewrite <- Eq; reflexivity]). }
    rewrite X. reflexivity.
Qed.

Lemma CSame_calls t n c c' : CSame t c c' -> calls_of (t, n) (c_log c) = calls_of (t, n) (c_log c').
Proof. intros (_ & _ & L). rewrite <- (calls_of_tlog t n (c_log c)), <- (calls_of_tlog t n (c_log c')), L. reflexivity. Qed.

(* ---- the primitive operations on the context ---- *)
Lemma find_wfilter_other (w w' : wid) (l : list (wid * nat)) : w' <> w ->
  find (fun p => wid_eqb (fst p) w') (filter (fun p => negb (wid_eqb (fst p) w)) l) = find (fun p => wid_eqb (fst p) w') l.
Proof.
  intros H. induction l as [|x l IH]; cbn [filter find]; [reflexivity|].
  destruct (wid_eqb (fst x) w) eqn:E1; cbn [negb].
  - apply wid_eqb_eq in E1. rewrite wid_eqb_neq by congruence. exact IH.
  - cbn [find]. destruct (wid_eqb (fst x) w'); [reflexivity|exact IH].
Qed.
Lemma wcount_inc_same c w : wcount (inc_wcount c w) w = S (wcount c w).
Proof. unfold wcount at 1, inc_wcount. cbn [c_wcount find fst]. rewrite wid_eqb_refl. reflexivity. Qed.
Lemma wcount_inc_other c w w' : w' <> w -> wcount (inc_wcount c w) w' = wcount c w'.
Proof.
  intros H. unfold wcount at 1, inc_wcount. cbn [c_wcount find fst].
  rewrite wid_eqb_neq by congruence. rewrite find_wfilter_other by assumption. reflexivity.
Qed.

Lemma logc_same t c cs e : CSame t c cs -> CSame t (logc c e) (logc cs e).
Proof.
  intros (A & B & C). split; [exact A|]. split; [exact B|].
  cbn [logc c_log]. rewrite !tlog_app, C. reflexivity.
Qed.
Lemma logc_fr t c e : ev_toi e = t -> Fr t c (logc c e).
Proof.
  intros He. split; [|exists [e]; split; [reflexivity|constructor; [exact He|constructor]]].
  intros u Hu. split; [reflexivity|]. split; [reflexivity|].
  cbn [logc c_log]. rewrite tlog_app. cbn [tlog filter]. rewrite He.
  destruct (N.eqb_spec t u) as [X|_]; [congruence|]. rewrite app_nil_r. reflexivity.
Qed.
Lemma inc_calls_same t c cs : CSame t c cs -> CSame t (inc_calls c t) (inc_calls cs t).
Proof.
  intros (A & B & C). split; [rewrite !ncalls_inc_same, A; reflexivity|]. split; [exact B|exact C].
Qed.
Lemma inc_calls_fr t c : Fr t c (inc_calls c t).
Proof.
  split; [|apply LogExt_ceq; reflexivity].
  intros u Hu. split; [rewrite ncalls_inc_other by exact Hu; reflexivity|]. split; reflexivity.
Qed.
Lemma inc_wcount_same t c cs w : fst w = t -> CSame t c cs -> CSame t (inc_wcount c w) (inc_wcount cs w).
Proof.
  intros Hw (A & B & C). split; [exact A|]. split; [|exact C].
  intros n. destruct (wid_eq_dec (t, n) w) as [<-|Ne].
  - rewrite !wcount_inc_same, B. reflexivity.
  - rewrite !wcount_inc_other by exact Ne. apply B.
Qed.
Lemma inc_wcount_fr t c w : fst w = t -> Fr t c (inc_wcount c w).
Proof.
  intros Hw. split; [|apply LogExt_ceq; reflexivity].
  intros u Hu. split; [reflexivity|]. split; [|reflexivity].
  intros n. rewrite wcount_inc_other; [reflexivity|]. intros <-. apply Hu. exact Hw.
Qed.
Lemma panicc_same t c cs : CSame t c cs -> CSame t (panicc c) (panicc cs).
Proof. intros H. exact H. Qed.
Lemma panicc_fr t c : Fr t c (panicc c).
Proof. split; [intros u _; apply CSame_ceq; reflexivity|apply LogExt_ceq; reflexivity]. Qed.
Lemma CSame_panic_l t c cs : CSame t c cs -> CSame t (panicc c) cs.
Proof. intros H. exact H. Qed.

(* ---- the walk through the object plane ---- *)
Ltac prj := cbn [r_state r_toi r_oti r_cache r_cache_size r_max r_blocks r_off r_tlen r_cenc r_md5 r_md5chk
                 r_al r_as r_nal r_writer r_bw r_fdt_id r_nb_alloc r_alloc_size r_clen r_nocache] in *.

Section Walk.
  Variable E : env.
  Variable t : N.

  (* an object of TOI t whose writer, if any, is a writer of t *)
  Definition OkO (o : objrecv) : Prop := r_toi o = t /\ forall w ws, r_writer o = Some (w, ws) -> fst w = t.
  Definition OkR (r : res) : Prop := OkO (res_obj r).

  (* the two runs of a function from contexts c and cs that agree on t *)
  Definition Par2 {X} (okx : X -> Prop) (c : ctx) (a b : X * ctx) : Prop :=
    fst a = fst b /\ CSame t (snd a) (snd b) /\ Fr t c (snd a) /\ okx (fst a).

  Lemma OkO_upd o o' : OkO o -> r_toi o' = r_toi o ->
    (forall w ws, r_writer o' = Some (w, ws) -> exists ws0, r_writer o = Some (w, ws0)) -> OkO o'.
  Proof.
    intros [T W] T' W'. split; [congruence|]. intros w ws H. destruct (W' _ _ H) as [ws0 H0]. exact (W _ _ H0).
  Qed.

  Lemma OkO_writer o w ws : OkO o -> r_writer o = Some (w, ws) -> fst w = t.
  Proof. intros [_ W] H. exact (W _ _ H). Qed.

  Lemma par_complete o c cs : OkO o -> CSame t c cs -> Par2 OkO c (complete o c) (complete o cs).
  Proof.
    intros K HC. unfold complete, Par2. destruct (r_writer o) as [[w ws]|] eqn:Ew; cbn [fst snd].
    - pose proof (OkO_writer _ _ _ K Ew) as Hw.
      split; [reflexivity|]. split; [apply logc_same; exact HC|]. split; [apply logc_fr; exact Hw|].
      apply (OkO_upd o); [exact K|reflexivity|]. cbn. rewrite Ew. intros w0 ws0 H. inversion H; subst. eexists; reflexivity.
    - split; [reflexivity|]. split; [exact HC|]. split; [apply Fr_refl|].
      apply (OkO_upd o); [exact K|reflexivity|]. cbn. rewrite Ew. intros w0 ws0 H. discriminate.
  Qed.

  Lemma par_error o i c cs : OkO o -> CSame t c cs -> Par2 OkO c (error o i c) (error o i cs).
  Proof.
    intros K HC. unfold error, Par2. destruct (r_writer o) as [[w ws]|] eqn:Ew; cbn [fst snd].
    - pose proof (OkO_writer _ _ _ K Ew) as Hw.
      split; [reflexivity|]. split; [apply logc_same; exact HC|]. split; [apply logc_fr; destruct i; exact Hw|].
      apply (OkO_upd o); [exact K|reflexivity|]. cbn. rewrite Ew. intros w0 ws0 H. inversion H; subst. eexists; reflexivity.
    - split; [reflexivity|]. split; [exact HC|]. split; [apply Fr_refl|].
      apply (OkO_upd o); [exact K|reflexivity|]. cbn. rewrite Ew. intros w0 ws0 H. discriminate.
  Qed.

  Lemma par_do_write w data c cs : fst w = t -> CSame t c cs ->
    Par2 (fun _ => True) c (do_write E w data c) (do_write E w data cs).
  Proof.
    intros Hw HC. unfold do_write, Par2. cbn [fst snd].
    assert (Hn : wcount c w = wcount cs w).
    { destruct w as [a b]. cbn [fst] in Hw. subst a. destruct HC as (_ & B & _). apply B. }
    rewrite Hn. split; [reflexivity|]. split; [|split; [|exact I]].
    - apply inc_wcount_same; [exact Hw|]. apply logc_same. exact HC.
    - eapply Fr_trans; [|apply inc_wcount_fr; exact Hw]. apply logc_fr. exact Hw.
  Qed.

  Lemma par_bw_write w sbn b bw c cs : fst w = t -> CSame t c cs ->
    Par2 (fun _ => True) c (bw_write E w sbn b bw c) (bw_write E w sbn b bw cs).
  Proof.
    intros Hw HC. unfold bw_write.
    assert (Triv : forall (x : bwres), Par2 (fun _ : bwres => True) c (x, c) (x, cs)).
    { intros x. split; [reflexivity|]. split; [exact HC|]. split; [apply Fr_refl|exact I]. }
    destruct (negb (bw_sbn bw =? sbn)); [apply Triv|].
    destruct (bd_data b) as [data0|]; [|apply Triv].
    set (data := if lenN_ data0 <? bw_left bw then data0 else firstn (N.to_nat (bw_left bw)) data0).
    destruct (bw_cenc bw).
    - pose proof (par_do_write w data c cs Hw HC) as (E1 & C1 & F1 & _).
      destruct (do_write E w data c) as [ok c1], (do_write E w data cs) as [oks cs1]. cbn [fst snd] in *. subst oks.
      destruct ok; (split; [reflexivity|]; split; [exact C1|]; split; [exact F1|exact I]).
    - destruct (bw_dead bw && negb (lenN_ data =? 0)); [apply Triv|].
      destruct (e_inflate E CZlib (bw_acc bw) false) as [before|]; [|apply Triv].
      destruct (e_inflate E CZlib (bw_acc bw ++ data) (bw_left bw - lenN_ data =? 0)) as [after|]; [|apply Triv].
      destruct (skipn (length before) after) as [|x fresh].
      + split; [reflexivity|]. split; [exact HC|]. split; [apply Fr_refl|exact I].
      + pose proof (par_do_write w (x :: fresh) c cs Hw HC) as (E1 & C1 & F1 & _).
        destruct (do_write E w (x :: fresh) c) as [ok c1], (do_write E w (x :: fresh) cs) as [oks cs1]. cbn [fst snd] in *. subst oks.
        destruct ok; (split; [reflexivity|]; split; [exact C1|]; split; [exact F1|exact I]).
    - destruct (bw_dead bw && negb (lenN_ data =? 0)); [apply Triv|].
      destruct (e_inflate E CDeflate (bw_acc bw) false) as [before|]; [|apply Triv].
      destruct (e_inflate E CDeflate (bw_acc bw ++ data) (bw_left bw - lenN_ data =? 0)) as [after|]; [|apply Triv].
      destruct (skipn (length before) after) as [|x fresh].
      + split; [reflexivity|]. split; [exact HC|]. split; [apply Fr_refl|exact I].
      + pose proof (par_do_write w (x :: fresh) c cs Hw HC) as (E1 & C1 & F1 & _).
        destruct (do_write E w (x :: fresh) c) as [ok c1], (do_write E w (x :: fresh) cs) as [oks cs1]. cbn [fst snd] in *. subst oks.
        destruct ok; (split; [reflexivity|]; split; [exact C1|]; split; [exact F1|exact I]).
    - destruct (bw_dead bw && negb (lenN_ data =? 0)); [apply Triv|].
      destruct (e_inflate E CGzip (bw_acc bw) false) as [before|]; [|apply Triv].
      destruct (e_inflate E CGzip (bw_acc bw ++ data) (bw_left bw - lenN_ data =? 0)) as [after|]; [|apply Triv].
      destruct (skipn (length before) after) as [|x fresh].
      + split; [reflexivity|]. split; [exact HC|]. split; [apply Fr_refl|exact I].
      + pose proof (par_do_write w (x :: fresh) c cs Hw HC) as (E1 & C1 & F1 & _).
        destruct (do_write E w (x :: fresh) c) as [ok c1], (do_write E w (x :: fresh) cs) as [oks cs1]. cbn [fst snd] in *. subst oks.
        destruct ok; (split; [reflexivity|]; split; [exact C1|]; split; [exact F1|exact I]).
  Qed.

  Lemma par_ret {X} (okx : X -> Prop) (x : X) c cs : CSame t c cs -> okx x -> Par2 okx c (x, c) (x, cs).
  Proof. intros HC K. split; [reflexivity|]. split; [exact HC|]. split; [apply Fr_refl|exact K]. Qed.

  Lemma par_frame {X} (okx : X -> Prop) c0 c a b : Fr t c0 c -> Par2 okx c a b -> Par2 okx c0 a b.
  Proof. intros F0 (A & B & C & D). split; [exact A|]. split; [exact B|]. split; [eapply Fr_trans; eassumption|exact D]. Qed.

  Lemma OkO_set_blocks o bl off nb sz bw : OkO o -> OkO (set_blocks o bl off nb sz bw).
  Proof. intros K. apply (OkO_upd o); [exact K|reflexivity|]. cbn. intros w ws H. eexists; exact H. Qed.
  Lemma OkO_set_state o s : OkO o -> OkO (set_state o s).
  Proof. intros K. apply (OkO_upd o); [exact K|reflexivity|]. cbn. intros w ws H. eexists; exact H. Qed.

  Lemma par_write_blocks : forall fuel sbn o c cs, OkO o -> CSame t c cs ->
    Par2 OkR c (write_blocks E fuel sbn o c) (write_blocks E fuel sbn o cs).
  Proof.
    induction fuel as [|f IH]; intros sbn o c cs K HC; cbn [write_blocks]; [apply par_ret; assumption|].
    destruct (r_writer o) as [[w ws]|] eqn:Ew; [|apply par_ret; assumption].
    pose proof (OkO_writer _ _ _ K Ew) as Hw.
    destruct ws; try (apply par_ret; assumption).
    destruct (r_bw o) as [bw|]; [|apply par_ret; assumption].
    destruct ((r_off o <=? sbn) && (sbn - r_off o <? N.of_nat (length (r_blocks o)))); [|apply par_ret; assumption].
    destruct (negb (bd_completed (nth (N.to_nat (sbn - r_off o)) (r_blocks o) bdec_new))); [apply par_ret; assumption|].
    pose proof (par_bw_write w sbn (nth (N.to_nat (sbn - r_off o)) (r_blocks o) bdec_new) bw c cs Hw HC) as (E1 & C1 & F1 & _).
    destruct (bw_write E w sbn (nth (N.to_nat (sbn - r_off o)) (r_blocks o) bdec_new) bw c) as [x c1],
             (bw_write E w sbn (nth (N.to_nat (sbn - r_off o)) (r_blocks o) bdec_new) bw cs) as [xs cs1].
    cbn [fst snd] in *. subst xs. apply (par_frame OkR c c1 _ _ F1).
    destruct x as [|bw'| |]; try (apply par_ret; assumption).
    2:{ split; [reflexivity|]. split; [exact C1|]. split; [apply panicc_fr|exact K]. }
    destruct (Nat.eqb (N.to_nat (sbn - r_off o)) 0); cbv zeta beta iota;
    match goal with |- context [set_blocks o ?a ?b ?d ?e ?g] => set (o1 := set_blocks o a b d e g) end;
    assert (K1 : OkO o1) by (apply OkO_set_blocks; exact K);
    (destruct (bw_left bw' =? 0); [|apply IH; assumption]);
    (destruct (match r_md5 o1, bw_md5 bw' with Some want, Some got => eqb_bytes want got | _, _ => true end);
     [pose proof (par_complete o1 c1 cs1 K1 C1) as (E2 & C2 & F2 & K2);
      destruct (complete o1 c1) as [o2 c2], (complete o1 cs1) as [o2s cs2]
     |pose proof (par_error o1 false c1 cs1 K1 C1) as (E2 & C2 & F2 & K2);
      destruct (error o1 false c1) as [o2 c2], (error o1 false cs1) as [o2s cs2]]);
    cbn [fst snd] in *; subst o2s; (split; [reflexivity|]; split; [exact C2|]; split; [exact F2|exact K2]).
  Qed.

  Lemma par_push_to_block2 p o c cs : OkO o -> CSame t c cs ->
    Par2 OkR c (push_to_block2 E p o c) (push_to_block2 E p o cs).
  Proof.
    intros K HC. unfold push_to_block2.
    destruct (r_oti o) as [oti|].
    2:{ split; [reflexivity|]. split; [exact HC|]. split; [apply panicc_fr|exact K]. }
    destruct (r_tlen o) as [tlen|].
    2:{ split; [reflexivity|]. split; [exact HC|]. split; [apply panicc_fr|exact K]. }
    destruct (a_pid_with (ro_fec oti) p) as [[[sbn esi] sbl]|]; [|apply par_ret; assumption].
    destruct (tlen =? 0).
    { destruct (r_writer o); [|apply par_ret; assumption].
      pose proof (par_complete o c cs K HC) as (E2 & C2 & F2 & K2).
      destruct (complete o c) as [o2 c2], (complete o cs) as [o2s cs2]. cbn [fst snd] in *. subst o2s.
      split; [reflexivity|]. split; [exact C2|]. split; [exact F2|exact K2]. }
    destruct (sbn <? r_off o); [apply par_ret; assumption|].
    destruct (match sbl with None => nb_blocks_of oti tlen <=? sbn | Some _ => false end); [apply par_ret; assumption|].
    destruct ((N.of_nat (length (r_blocks o)) <=? sbn - r_off o) && (4096 <? sbn - r_off o)).
    { apply par_ret; [assumption|]. apply OkO_set_state. exact K. }
    cbv zeta.
    match goal with |- context [bd_completed ?b] => destruct (bd_completed b) end.
    { apply par_ret; [assumption|]. apply OkO_set_blocks. exact K. }
    match goal with |- context [match ?x with None => _ | Some _ => _ end] =>
      destruct x as [[[[b1 nb] sz]|]|] end.
    - destruct (bd_push E (r_toi o) oti sbn esi (a_payload p) b1) as [b2 pan].
      match goal with |- context [set_blocks ?a ?b ?d ?e ?g ?h] => set (o1 := set_blocks a b d e g h) end.
      assert (K1 : OkO o1) by (unfold o1; apply OkO_set_blocks, OkO_set_blocks; exact K).
      assert (HC1 : CSame t (if pan then panicc c else c) (if pan then panicc cs else cs)) by (destruct pan; exact HC).
      assert (F1 : Fr t c (if pan then panicc c else c)) by (destruct pan; [apply panicc_fr|apply Fr_refl]).
      destruct (bd_completed b2).
      + apply (par_frame OkR c _ _ _ F1). apply par_write_blocks; assumption.
      + split; [reflexivity|]. split; [exact HC1|]. split; [exact F1|exact K1].
    - apply par_ret; [assumption|]. apply OkO_set_state, OkO_set_blocks. exact K.
    - split; [reflexivity|]. split; [exact HC|]. split; [apply panicc_fr|apply OkO_set_blocks; exact K].
  Qed.

  Lemma par_push_to_block p o c cs : OkO o -> CSame t c cs ->
    Par2 OkR c (push_to_block E p o c) (push_to_block E p o cs).
  Proof.
    intros K HC. unfold push_to_block.
    pose proof (par_push_to_block2 p o c cs K HC) as (E1 & C1 & F1 & K1).
    destruct (push_to_block2 E p o c) as [x c1], (push_to_block2 E p o cs) as [xs cs1]. cbn [fst snd] in *. subst xs.
    destruct x as [o1|o1]; [|split; [reflexivity|]; split; [exact C1|]; split; [exact F1|exact K1]].
    destruct (a_close_obj p); [|split; [reflexivity|]; split; [exact C1|]; split; [exact F1|exact K1]].
    destruct (r_state o1); try (split; [reflexivity|]; split; [exact C1|]; split; [exact F1|exact K1]).
    destruct (r_writer o1) as [wr1|] eqn:Ewr1; [|split; [reflexivity|]; split; [exact C1|]; split; [exact F1|exact K1]].
    apply (par_frame OkR c c1 _ _ F1).
    pose proof (par_error o1 true c1 cs1 K1 C1) as (E2 & C2 & F2 & K2).
    destruct (error o1 true c1) as [o2 c2], (error o1 true cs1) as [o2s cs2]. cbn [fst snd] in *. subst o2s.
    split; [reflexivity|]. split; [exact C2|]. split; [exact F2|exact K2].
  Qed.

  Lemma par_drain_cache : forall cache o c cs, OkO o -> CSame t c cs ->
    Par2 OkO c (drain_cache E cache o c) (drain_cache E cache o cs).
  Proof.
    induction cache as [|p rest IH]; intros o c cs K HC; cbn [drain_cache]; [apply par_ret; assumption|].
    match goal with |- context [push_to_block E p ?x c] => set (o0 := x) end.
    assert (K0 : OkO o0).
    { apply (OkO_upd o); [exact K|reflexivity|]. cbn. intros w ws H. eexists; exact H. }
    pose proof (par_push_to_block p o0 c cs K0 HC) as (E1 & C1 & F1 & K1).
    destruct (push_to_block E p o0 c) as [x c1], (push_to_block E p o0 cs) as [xs cs1]. cbn [fst snd] in *. subst xs.
    apply (par_frame OkO c c1 _ _ F1).
    destruct x as [o1|o1].
    - destruct (r_cache o1); [apply par_ret; assumption|]. apply IH; assumption.
    - apply par_error; assumption.
  Qed.

  Lemma par_push_from_cache o c cs : OkO o -> CSame t c cs ->
    Par2 OkO c (push_from_cache E o c) (push_from_cache E o cs).
  Proof.
    intros K HC. unfold push_from_cache. destruct (cache_replay_blocked o); [apply par_ret; assumption|].
    pose proof (par_drain_cache (r_cache o) o c cs K HC) as (E1 & C1 & F1 & K1).
    destruct (drain_cache E (r_cache o) o c) as [o1 c1], (drain_cache E (r_cache o) o cs) as [o1s cs1].
    cbn [fst snd] in *. subst o1s.
    split; [reflexivity|]. split; [exact C1|]. split; [exact F1|].
    apply (OkO_upd o1); [exact K1|reflexivity|]. cbn. intros w ws H. eexists; exact H.
  Qed.

  Lemma OkO_init_partition o : OkO o -> OkO (init_partition o).
  Proof.
    intros K. unfold init_partition. destruct (0 <? nb_block o); [exact K|].
    destruct (r_oti o) as [oti|]; [|exact K]. destruct (r_tlen o) as [tl|]; [|exact K].
    destruct (block_partitioning (ro_b oti) tl (ro_e oti)) as [[[al as_] nal] n].
    apply (OkO_upd o); [exact K|reflexivity|]. cbn. intros w ws H. eexists; exact H.
  Qed.

  Lemma par_init_writer o c cs : OkO o -> CSame t c cs ->
    Par2 OkO c (init_writer E o c) (init_writer E o cs).
  Proof.
    intros K HC. unfold init_writer. destruct (r_writer o) as [x|] eqn:Ew; [apply par_ret; assumption|].
    destruct (r_fdt_id o) as [fid|]; [|apply par_ret; assumption].
    destruct (r_cenc o) as [ce|]; [|apply par_ret; assumption].
    destruct (r_tlen o) as [tl|]; [|apply par_ret; assumption].
    destruct (r_oti o) as [oti|]; [|apply par_ret; assumption].
    pose proof K as [T _]. rewrite T.
    assert (Hn : ncalls c t = ncalls cs t) by (destruct HC as (A & _); exact A). rewrite Hn.
    set (n := ncalls cs t). set (ans := e_builder E t n).
    assert (C1 : CSame t (inc_calls (logc c (EvBuilder t ans)) t) (inc_calls (logc cs (EvBuilder t ans)) t)).
    { apply inc_calls_same, logc_same. exact HC. }
    assert (F1 : Fr t c (inc_calls (logc c (EvBuilder t ans)) t)).
    { eapply Fr_trans; [|apply inc_calls_fr]. apply logc_fr. reflexivity. }
    set (c1 := inc_calls (logc c (EvBuilder t ans)) t) in *. set (cs1 := inc_calls (logc cs (EvBuilder t ans)) t) in *.
    destruct ans.
    - cbv zeta.
      match goal with |- context [error ?x false _] => set (o1 := x) end.
      assert (K1 : OkO o1).
      { split; [reflexivity|]. unfold o1. prj. intros w ws H. inversion H. reflexivity. }
      assert (C3 : CSame t (logc c1 (EvOpen (t, n) (e_open_ok E (t, n)))) (logc cs1 (EvOpen (t, n) (e_open_ok E (t, n)))))
        by (apply logc_same; exact C1).
      assert (F3 : Fr t c (logc c1 (EvOpen (t, n) (e_open_ok E (t, n))))).
      { eapply Fr_trans; [exact F1|]. apply logc_fr. reflexivity. }
      destruct (negb (e_open_ok E (t, n))).
      + apply (par_frame OkO c _ _ _ F3). apply par_error; assumption.
      + split; [reflexivity|]. split; [exact C3|]. split; [exact F3|].
        split; [reflexivity|]. prj. intros w ws H. inversion H. reflexivity.
    - split; [reflexivity|]. split; [exact C1|]. split; [exact F1|apply OkO_set_state; exact K].
    - split; [reflexivity|]. split; [exact C1|]. split; [exact F1|apply OkO_set_state; exact K].
  Qed.

  Theorem par_or_push p o c cs : OkO o -> CSame t c cs -> Par2 OkO c (or_push E p o c) (or_push E p o cs).
  Proof.
    intros K HC. unfold or_push. destruct (r_state o); try (apply par_ret; assumption).
    destruct (match r_oti o, a_oti p with
              | None, Some (ot, l) => (Some ot, match r_tlen o with Some x => Some x | None => Some l end)
              | x, _ => (x, r_tlen o)
              end) as [oti tl].
    match goal with |- context [init_partition ?x] => set (o1 := x) end.
    assert (K1 : OkO o1).
    { apply (OkO_upd o); [exact K|reflexivity|]. cbn. intros w ws H. eexists; exact H. }
    pose proof (OkO_init_partition o1 K1) as K2.
    pose proof (par_init_writer (init_partition o1) c cs K2 HC) as (E3 & C3 & F3 & K3).
    destruct (init_writer E (init_partition o1) c) as [o3 c3], (init_writer E (init_partition o1) cs) as [o3s cs3].
    cbn [fst snd] in *. subst o3s. apply (par_frame OkO c c3 _ _ F3).
    destruct (r_state o3); try (apply par_ret; assumption).
    pose proof (par_push_from_cache o3 c3 cs3 K3 C3) as (E4 & C4 & F4 & K4).
    destruct (push_from_cache E o3 c3) as [o4 c4], (push_from_cache E o3 cs3) as [o4s cs4].
    cbn [fst snd] in *. subst o4s. apply (par_frame OkO c3 c4 _ _ F4).
    destruct (r_state o4); try (apply par_ret; assumption).
    destruct (r_oti o4).
    - pose proof (par_push_to_block p o4 c4 cs4 K4 C4) as (E5 & C5 & F5 & K5).
      destruct (push_to_block E p o4 c4) as [x c5], (push_to_block E p o4 cs4) as [xs cs5].
      cbn [fst snd] in *. subst xs. apply (par_frame OkO c4 c5 _ _ F5).
      destruct x as [o5|o5]; [apply par_ret; assumption|apply par_error; assumption].
    - destruct (r_max o4 <=? r_cache_size o4); [apply par_error; assumption|].
      apply par_ret; [assumption|]. apply (OkO_upd o4); [exact K4|reflexivity|]. cbn. intros w ws H. eexists; exact H.
  Qed.

  Lemma par_d48_step o c cs : OkO o -> CSame t c cs -> Par2 OkO c (d48_step o c) (d48_step o cs).
  Proof.
    intros K HC. unfold d48_step.
    destruct (r_tlen o) as [[|l]|]; try (apply par_ret; assumption).
    destruct (r_oti o); try (apply par_ret; assumption).
    destruct (r_state o); try (apply par_ret; assumption).
    destruct (r_writer o) eqn:Ew; try (apply par_ret; assumption).
    apply par_complete; assumption.
  Qed.

  Theorem par_or_attach fid files ioti o c cs : OkO o -> CSame t c cs ->
    Par2 (fun x => OkO (snd x)) c (or_attach E fid files ioti o c) (or_attach E fid files ioti o cs).
  Proof.
    intros K HC. unfold or_attach. destruct (r_fdt_id o); [apply par_ret; assumption|].
    destruct (find (fun f => ff_toi f =? r_toi o) files) as [f|]; [|apply par_ret; assumption].
    destruct (match r_oti o with
              | Some x => (Some x, match r_tlen o with Some l => Some l | None => Some (ff_tlen f) end)
              | None => match (match ff_oti f with Some x => Some x | None => ioti end) with
                        | Some x => (Some x, Some (ff_tlen f))
                        | None => (None, match r_tlen o with Some l => Some l | None => Some (ff_tlen f) end)
                        end
              end) as [oti tl].
    match goal with |- context [init_partition ?x] => set (o1 := x) end.
    assert (K1 : OkO o1).
    { apply (OkO_upd o); [exact K|reflexivity|]. cbn. intros w ws H. eexists; exact H. }
    pose proof (OkO_init_partition o1 K1) as K2.
    pose proof (par_init_writer (init_partition o1) c cs K2 HC) as (E3 & C3 & F3 & K3).
    destruct (init_writer E (init_partition o1) c) as [o3a c3a], (init_writer E (init_partition o1) cs) as [o3s cs3a].
    cbn [fst snd] in *. subst o3s. apply (par_frame _ c c3a _ _ F3).
    fold (d48_step o3a c3a). fold (d48_step o3a cs3a).
    pose proof (par_d48_step o3a c3a cs3a K3 C3) as (E3b & C3b & F3b & K3b).
    destruct (d48_step o3a c3a) as [o3 c3], (d48_step o3a cs3a) as [o3s cs3].
    cbn [fst snd] in *. subst o3s. apply (par_frame _ c3a c3 _ _ F3b). clear K3 C3. rename K3b into K3, C3b into C3.
    pose proof (par_push_from_cache o3 c3 cs3 K3 C3) as (E4 & C4 & F4 & K4).
    destruct (push_from_cache E o3 c3) as [o4 c4], (push_from_cache E o3 cs3) as [o4s cs4].
    cbn [fst snd] in *. subst o4s. apply (par_frame _ c3 c4 _ _ F4).
    pose proof (par_write_blocks (S (length (r_blocks o4))) 0 o4 c4 cs4 K4 C4) as (E5 & C5 & F5 & K5).
    destruct (write_blocks E (S (length (r_blocks o4))) 0 o4 c4) as [x c5],
             (write_blocks E (S (length (r_blocks o4))) 0 o4 cs4) as [xs cs5].
    cbn [fst snd] in *. subst xs. apply (par_frame _ c4 c5 _ _ F5).
    assert (G : Par2 OkO c5 (match x with ROk y => (y, c5) | RErr y => error y false c5 end)
                            (match x with ROk y => (y, cs5) | RErr y => error y false cs5 end)).
    { destruct x as [y|y]; [apply par_ret; assumption|apply par_error; assumption]. }
    destruct G as (E6 & C6 & F6 & K6).
    destruct x as [y|y].
    - cbn [fst snd] in *.
      pose proof (par_push_from_cache y c5 cs5 K6 C6) as (E7 & C7 & F7 & K7).
      destruct (push_from_cache E y c5) as [o6 c6], (push_from_cache E y cs5) as [o6s cs6].
      cbn [fst snd] in *. subst o6s. split; [reflexivity|]. split; [exact C7|]. split; [exact F7|exact K7].
    - destruct (error y false c5) as [o5 c5'], (error y false cs5) as [o5s cs5']. cbn [fst snd] in *. subst o5s.
      apply (par_frame _ c5 c5' _ _ F6).
      pose proof (par_push_from_cache o5 c5' cs5' K6 C6) as (E7 & C7 & F7 & K7).
      destruct (push_from_cache E o5 c5') as [o6 c6], (push_from_cache E o5 cs5') as [o6s cs6].
      cbn [fst snd] in *. subst o6s. split; [reflexivity|]. split; [exact C7|]. split; [exact F7|exact K7].
  Qed.

  Lemma par_or_drop o c cs : OkO o -> CSame t c cs -> CSame t (or_drop o c) (or_drop o cs) /\ Fr t c (or_drop o c).
  Proof.
    intros K HC. unfold or_drop. destruct (r_writer o) as [[w ws]|]; [|split; [exact HC|apply Fr_refl]].
    pose proof (par_error o false c cs K HC) as (_ & C1 & F1 & _).
    destruct ws; try (split; [exact HC|apply Fr_refl]); split; assumption.
  Qed.
End Walk.

(* ================= B. isolation at the receiver ================= *)
Notation inb t l := (existsb (N.eqb t) l).
Notation others t l := (filter (fun x => negb (x =? t)) l).

(* ---- the object map ---- *)
Lemma find_put_other k o' u (l : list (N * objrecv)) : u <> k ->
  find (fun q => fst q =? u) (put_obj k o' l) = find (fun q => fst q =? u) l.
Proof.
  intros H. unfold put_obj. destruct (existsb (fun q => fst q =? k) l).
  - induction l as [|x l IH]; [reflexivity|]. cbn [map find].
    destruct (N.eqb_spec (fst x) k) as [e|ne].
    + cbn [fst]. destruct (N.eqb_spec k u) as [X|_]; [congruence|]. rewrite e.
      destruct (N.eqb_spec k u) as [X|_]; [congruence|]. exact IH.
    + destruct (fst x =? u); [reflexivity|exact IH].
  - induction l as [|x l IH]; cbn [app find fst].
    + destruct (N.eqb_spec k u) as [X|_]; [congruence|reflexivity].
    + destruct (fst x =? u); [reflexivity|exact IH].
Qed.
Lemma find_put_same k o' (l : list (N * objrecv)) : find (fun q => fst q =? k) (put_obj k o' l) = Some (k, o').
Proof.
  unfold put_obj. destruct (existsb (fun q => fst q =? k) l) eqn:Ex.
  - induction l as [|x l IH]; [discriminate|]. cbn [existsb] in Ex. cbn [map find].
    destruct (N.eqb_spec (fst x) k) as [e|ne].
    + cbn [fst]. rewrite N.eqb_refl. reflexivity.
    + destruct (N.eqb_spec (fst x) k) as [X|_]; [contradiction|]. cbn [orb] in Ex. apply IH. exact Ex.
  - induction l as [|x l IH]; cbn [app find fst]; [rewrite N.eqb_refl; reflexivity|].
    cbn [existsb] in Ex. apply orb_false_iff in Ex. destruct Ex as [E1 E2]. rewrite E1. apply IH. exact E2.
Qed.
Lemma find_del_other k u (l : list (N * objrecv)) : u <> k ->
  find (fun q => fst q =? u) (del_obj k l) = find (fun q => fst q =? u) l.
Proof.
  intros H. unfold del_obj. induction l as [|x l IH]; [reflexivity|]. cbn [filter find].
  destruct (N.eqb_spec (fst x) k) as [e|ne]; cbn [negb].
  - destruct (N.eqb_spec (fst x) u) as [X|_]; [congruence|]. exact IH.
  - cbn [find]. destruct (fst x =? u); [reflexivity|exact IH].
Qed.
Lemma find_del_same k (l : list (N * objrecv)) : find (fun q => fst q =? k) (del_obj k l) = None.
Proof.
  unfold del_obj. induction l as [|x l IH]; [reflexivity|]. cbn [filter].
  destruct (N.eqb_spec (fst x) k) as [e|ne]; cbn [negb]; [exact IH|].
  cbn [find]. destruct (N.eqb_spec (fst x) k) as [X|_]; [contradiction|exact IH].
Qed.
Lemma find_snoc_other k o u (l : list (N * objrecv)) : u <> k ->
  find (fun q => fst q =? u) (l ++ [(k, o)]) = find (fun q => fst q =? u) l.
Proof.
  intros H. induction l as [|x l IH]; cbn [app find fst].
  - destruct (N.eqb_spec k u) as [X|_]; [congruence|reflexivity].
  - destruct (fst x =? u); [reflexivity|exact IH].
Qed.

Lemma get_obj_objs r r' u : rv_objects r' = rv_objects r -> get_obj r' u = get_obj r u.
Proof. intros H. unfold get_obj. rewrite H. reflexivity. Qed.
Lemma get_put_other r k o' u : u <> k -> get_obj (set_objects r (put_obj k o' (rv_objects r))) u = get_obj r u.
Proof. intros H. unfold get_obj. cbn [set_objects rv_objects]. rewrite find_put_other by exact H. reflexivity. Qed.
Lemma get_put_same r k o' : get_obj (set_objects r (put_obj k o' (rv_objects r))) k = Some o'.
Proof. unfold get_obj. cbn [set_objects rv_objects]. rewrite find_put_same. reflexivity. Qed.

Lemma get_obj_in r k o : get_obj r k = Some o -> In (k, o) (rv_objects r).
Proof.
  unfold get_obj. destruct (find (fun q => fst q =? k) (rv_objects r)) as [q|] eqn:Ef; [|discriminate].
  intros H. inversion H; subst. apply find_some in Ef. destruct Ef as [Hin Hk]. apply N.eqb_eq in Hk.
  destruct q as [k' o']. cbn [fst snd] in *. subst k'. exact Hin.
Qed.
Lemma get_obj_none_notin r k : get_obj r k = None -> forall o, ~ In (k, o) (rv_objects r).
Proof.
  unfold get_obj. destruct (find (fun q => fst q =? k) (rv_objects r)) as [q|] eqn:Ef; [discriminate|].
  intros _ o Hin. pose proof (find_none _ _ Ef _ Hin) as H. cbn [fst] in H. rewrite N.eqb_refl in H. discriminate.
Qed.

Lemma RI_OkO r c k o : RI r c -> get_obj r k = Some o -> OkO k o.
Proof.
  intros (_ & H & _) G. apply get_obj_in in G. destruct (H _ _ G) as (T & _ & W). split; [exact T|].
  intros w ws Hw. rewrite Hw in W. cbn [WInv] in W. destruct W as (W1 & _). congruence.
Qed.

(* ---- lists of TOIs ---- *)
Lemma inb_others_other t u (l : list N) : u <> t -> inb u (others t l) = inb u l.
Proof.
  intros H. induction l as [|x l IH]; [reflexivity|]. cbn [filter existsb].
  destruct (N.eqb_spec x t) as [e|ne]; cbn [negb].
  - destruct (N.eqb_spec u x) as [X|_]; [congruence|]. exact IH.
  - cbn [existsb]. rewrite IH. reflexivity.
Qed.
Lemma inb_others_same t (l : list N) : inb t (others t l) = false.
Proof.
  induction l as [|x l IH]; [reflexivity|]. cbn [filter].
  destruct (N.eqb_spec x t) as [e|ne]; cbn [negb]; [exact IH|].
  cbn [existsb]. destruct (N.eqb_spec t x) as [X|_]; [congruence|exact IH].
Qed.
Lemma others_idem t (l : list N) : others t (others t l) = others t l.
Proof.
  induction l as [|x l IH]; [reflexivity|]. cbn [filter].
  destruct (N.eqb_spec x t) as [e|ne]; cbn [negb]; [exact IH|].
  cbn [filter]. destruct (N.eqb_spec x t) as [X|_]; [contradiction|]. cbn [negb]. rewrite IH. reflexivity.
Qed.
Lemma others_snoc_same t (l : list N) : others t (l ++ [t]) = others t l.
Proof. rewrite filter_app. cbn [filter]. rewrite N.eqb_refl. cbn [negb]. apply app_nil_r. Qed.
Lemma others_insert_same t (l : list N) : others t (insert_sorted t l) = others t l.
Proof.
  induction l as [|y l IH]; cbn [insert_sorted].
  - cbn [filter]. rewrite N.eqb_refl. reflexivity.
  - destruct (N.eqb_spec t y) as [e|ne]; [reflexivity|].
    destruct (t <? y).
    + cbn [filter]. rewrite N.eqb_refl. cbn [negb]. reflexivity.
    + cbn [filter]. rewrite IH. reflexivity.
Qed.
Lemma inb_insert_same t (l : list N) : inb t (insert_sorted t l) = true.
Proof.
  induction l as [|y l IH]; cbn [insert_sorted].
  - cbn [existsb]. rewrite N.eqb_refl. reflexivity.
  - destruct (N.eqb_spec t y) as [e|ne]; [cbn [existsb]; subst; rewrite N.eqb_refl; reflexivity|].
    destruct (t <? y); cbn [existsb]; [rewrite N.eqb_refl; reflexivity|]. rewrite IH. apply orb_true_r.
Qed.
Lemma length_insert_le t (l : list N) : (length (insert_sorted t l) <= S (length l))%nat.
Proof.
  induction l as [|y l IH]; cbn [insert_sorted length]; [lia|].
  destruct (t =? y); [cbn [length]; lia|]. destruct (t <? y); cbn [length]; lia.
Qed.
Lemma inb_others_eq t u (l l' : list N) : others t l' = others t l -> u <> t -> inb u l' = inb u l.
Proof. intros H Hu. rewrite <- (inb_others_other t u l Hu), <- (inb_others_other t u l' Hu), H. reflexivity. Qed.
Lemma inb_In u (l : list N) : inb u l = true <-> In u l.
Proof.
  rewrite existsb_exists. split.
  - intros (x & Hin & Hx). apply N.eqb_eq in Hx. subst. exact Hin.
  - intros H. exists u. split; [exact H|apply N.eqb_refl].
Qed.

(* l' is l without a prefix (what gc_error does to rv_error) *)
Definition Trim (l l' : list N) : Prop := exists k, l' = skipn k l.
Lemma skipn_skipn' {A} (j k : nat) (l : list A) : skipn j (skipn k l) = skipn (k + j) l.
Proof.
  revert l. induction k as [|k IH]; intros l; [reflexivity|]. destruct l as [|x l]; [destruct j; reflexivity|].
  cbn [skipn Nat.add]. apply IH.
Qed.
Lemma In_skipn' {A} (x : A) k l : In x (skipn k l) -> In x l.
Proof.
  revert l. induction k as [|k IH]; intros l H; [exact H|]. destruct l as [|y l]; [exact H|]. right. apply IH. exact H.
Qed.
Lemma Trim_refl l : Trim l l.
Proof. exists 0%nat. reflexivity. Qed.
Lemma Trim_trans a b c : Trim a b -> Trim b c -> Trim a c.
Proof. intros [k ->] [j ->]. exists (k + j)%nat. rewrite skipn_skipn'. reflexivity. Qed.
Lemma Trim_filter (P : N -> bool) l l' : Trim l l' -> Trim (filter P l) (filter P l').
Proof.
  intros [k ->]. revert l. induction k as [|k IH]; intros l; [apply Trim_refl|].
  destruct l as [|x l]; [apply Trim_refl|]. cbn [skipn filter].
  destruct (P x); [|apply IH]. eapply Trim_trans; [exists 1%nat; reflexivity|]. cbn [skipn]. apply IH.
Qed.
Lemma Trim_inb u l l' : Trim l l' -> inb u l = false -> inb u l' = false.
Proof.
  intros [k ->] H. destruct (inb u (skipn k l)) eqn:X; [|reflexivity].
  apply inb_In in X. apply In_skipn' in X. apply inb_In in X. congruence.
Qed.

Section Iso.
  Variable E : env.
  Variable parse_fdt : list N -> option fdtinst.
  Variable cfg : rconfig.

  (* r' differs from r only in what belongs to TOI t; the error list of the others may have lost a prefix *)
  Definition ROut (t : N) (r r' : recv) : Prop :=
    (forall u, u <> t -> get_obj r' u = get_obj r u)
    /\ others t (rv_completed r') = others t (rv_completed r)
    /\ Trim (others t (rv_error r)) (others t (rv_error r'))
    /\ rv_fdt_receivers r' = rv_fdt_receivers r
    /\ rv_fdt_current r' = rv_fdt_current r
    /\ rv_closed r' = rv_closed r.

  Lemma ROut_refl t r : ROut t r r.
  Proof. split; [reflexivity|]. split; [reflexivity|]. split; [apply Trim_refl|]. repeat split. Qed.
  Lemma ROut_trans t r1 r2 r3 : ROut t r1 r2 -> ROut t r2 r3 -> ROut t r1 r3.
  Proof.
    intros (A1 & A2 & A3 & A4 & A5 & A6) (B1 & B2 & B3 & B4 & B5 & B6).
    split; [intros u Hu; rewrite B1, A1 by exact Hu; reflexivity|]. split; [congruence|].
    split; [eapply Trim_trans; eassumption|]. repeat split; congruence.
  Qed.

  (* the entries of the error list, except t, have no object *)
  Definition EDX (t : N) (r : recv) : Prop := forall u, inb u (rv_error r) = true -> u <> t -> get_obj r u = None.
  Definition EDisj (r : recv) : Prop := forall u, inb u (rv_error r) = true -> get_obj r u = None.

  Lemma remove_obj_none k r c : get_obj r k = None -> remove_obj k r c = (r, c).
  Proof. intros H. unfold remove_obj. rewrite H. reflexivity. Qed.

  Lemma remove_obj_iso k r c : RI r c ->
    let (r', c') := remove_obj k r c in
    ROut k r r' /\ Fr k c c' /\ get_obj r' k = None /\ rv_error r' = rv_error r /\ rv_completed r' = rv_completed r.
  Proof.
    intros R. unfold remove_obj. destruct (get_obj r k) as [o|] eqn:G.
    - pose proof (RI_OkO r c k o R G) as K.
      destruct (par_or_drop k o c c K (CSame_refl k c)) as [_ F1].
      split; [|split; [exact F1|split; [|split; reflexivity]]].
      + split; [|repeat split; try reflexivity; apply Trim_refl].
        intros u Hu. unfold get_obj. cbn [set_objects rv_objects]. rewrite find_del_other by exact Hu. reflexivity.
      + unfold get_obj. cbn [set_objects rv_objects]. rewrite find_del_same. reflexivity.
    - split; [apply ROut_refl|]. split; [apply Fr_refl|]. split; [exact G|split; reflexivity].
  Qed.

  Definition GcOut (t : N) (r : recv) (c : ctx) (r' : recv) (c' : ctx) : Prop :=
    (forall u, u <> t -> get_obj r' u = get_obj r u) /\ (get_obj r' t = get_obj r t \/ get_obj r' t = None)
    /\ rv_completed r' = rv_completed r
    /\ Trim (rv_error r) (rv_error r')
    /\ (rv_error r' = rv_error r \/ cf_max_err cfg < N.of_nat (length (rv_error r)))
    /\ rv_fdt_receivers r' = rv_fdt_receivers r /\ rv_fdt_current r' = rv_fdt_current r /\ rv_closed r' = rv_closed r
    /\ Fr t c c' /\ RI r' c'.

  Lemma GcOut_refl t r c : RI r c -> GcOut t r c r c.
  Proof.
    intros R. split; [reflexivity|]. split; [left; reflexivity|]. split; [reflexivity|]. split; [apply Trim_refl|].
    split; [left; reflexivity|]. split; [reflexivity|]. split; [reflexivity|]. split; [reflexivity|].
    split; [apply Fr_refl|exact R].
  Qed.

  Lemma gc_error_iso t : forall fuel r c, RI r c -> EDX t r ->
    let (r', c') := gc_error cfg fuel r c in GcOut t r c r' c'.
  Proof.
    induction fuel as [|f IH]; intros r c R D; cbn [gc_error]; [apply GcOut_refl; exact R|].
    destruct (cf_max_err cfg <? N.of_nat (length (rv_error r))) eqn:Hlt; [|apply GcOut_refl; exact R].
    destruct (rv_error r) as [|toi rest] eqn:Eerr; [apply GcOut_refl; exact R|].
    apply N.ltb_lt in Hlt.
    set (r1 := mk_recv (rv_objects r) (rv_completed r) rest (rv_fdt_receivers r) (rv_fdt_current r) (rv_closed r)).
    assert (R1 : RI r1 c) by exact R.
    assert (G1 : forall u, get_obj r1 u = get_obj r u) by reflexivity.
    pose proof (remove_obj_iso toi r1 c R1) as K. pose proof (remove_obj_inv toi r1 c R1) as R2.
    assert (Kt : toi <> t -> remove_obj toi r1 c = (r1, c)).
    { intros Ne. apply remove_obj_none. rewrite G1. apply D; [|exact Ne]. rewrite Eerr. cbn [existsb]. rewrite N.eqb_refl. reflexivity. }
    destruct (remove_obj toi r1 c) as [r2 c2] eqn:Erm. unfold RI2 in R2. cbn [fst snd] in R2.
    destruct K as ((K1 & K2 & K3 & K4 & K5 & K6) & FK & Gk & Ke & Kc).
    assert (D2 : EDX t r2).
    { intros u Hu Ne. destruct (N.eq_dec u toi) as [->|Nu]; [exact Gk|]. rewrite K1 by exact Nu. rewrite G1.
      apply D; [|exact Ne]. rewrite Eerr. cbn [existsb]. rewrite Ke in Hu. cbn [r1 rv_error] in Hu. rewrite Hu. apply orb_true_r. }
    specialize (IH r2 c2 R2 D2). destruct (gc_error cfg f r2 c2) as [r3 c3].
    destruct IH as (I1 & I2 & I3 & I4 & I5 & I6 & I7 & I8 & I9 & I10).
    assert (Ft : Fr t c c2 /\ (forall u, u <> t -> get_obj r2 u = get_obj r u) /\ (get_obj r2 t = get_obj r t \/ get_obj r2 t = None)).
    { destruct (N.eq_dec toi t) as [->|Ne].
      - split; [exact FK|]. split; [intros u Hu; rewrite K1 by exact Hu; apply G1|right; exact Gk].
      - specialize (Kt Ne). inversion Kt; subst r2 c2. split; [apply Fr_refl|]. split; [intros u _; apply G1|left; apply G1]. }
    destruct Ft as (Ft1 & Ft2 & Ft3).
    split; [intros u Hu; rewrite I1, Ft2 by exact Hu; reflexivity|].
    split; [destruct I2 as [I2|I2]; [rewrite I2; exact Ft3|right; exact I2]|].
    split; [rewrite I3, Kc; reflexivity|].
    split; [rewrite Eerr; eapply Trim_trans; [exists 1%nat; reflexivity|]; cbn [skipn]; rewrite Ke in I4; exact I4|].
    split; [right; rewrite Eerr; exact Hlt|].
    split; [rewrite I6, K4; reflexivity|]. split; [rewrite I7, K5; reflexivity|]. split; [rewrite I8, K6; reflexivity|].
    split; [eapply Fr_trans; eassumption|exact I10].
  Qed.

  Definition CkOut (t : N) (r : recv) (c : ctx) (r' : recv) (c' : ctx) : Prop :=
    ROut t r r' /\ Fr t c c' /\ RI r' c' /\ EDisj r'
    /\ (others t (rv_error r') = others t (rv_error r) \/ cf_max_err cfg <= N.of_nat (length (rv_error r))).

  Lemma CkOut_refl t r c : RI r c -> EDisj r -> CkOut t r c r c.
  Proof.
    intros R D. split; [apply ROut_refl|]. split; [apply Fr_refl|]. split; [exact R|]. split; [exact D|left; reflexivity].
  Qed.

  Lemma check_state_iso t r c : RI r c -> EDisj r ->
    let (r', c') := check_state cfg t r c in CkOut t r c r' c'.
  Proof.
    intros R D. unfold check_state. destruct (get_obj r t) as [o|] eqn:G; [|apply CkOut_refl; assumption].
    destruct (r_state o); [apply CkOut_refl; assumption| | |].
    - (* Completed *)
      match goal with |- context [remove_obj t ?x c] => set (r1 := x) end.
      assert (R1 : RI r1 c) by exact R.
      pose proof (remove_obj_iso t r1 c R1) as K. pose proof (remove_obj_inv t r1 c R1) as R2.
      destruct (remove_obj t r1 c) as [r2 c2]. unfold RI2 in R2. cbn [fst snd] in R2.
      destruct K as ((K1 & K2 & K3 & K4 & K5 & K6) & FK & Gk & Ke & Kc).
      split; [|split; [exact FK|split; [exact R2|split]]].
      + split; [intros u Hu; rewrite K1 by exact Hu; reflexivity|].
        split; [|split; [exact K3|split; [exact K4|split; [exact K5|exact K6]]]].
        rewrite K2. unfold r1. cbn [rv_completed].
        destruct (r_nocache o); [reflexivity|]. destruct (inb t (rv_completed r)); [reflexivity|apply others_snoc_same].
      + intros u Hu. rewrite Ke in Hu. destruct (N.eq_dec u t) as [->|Ne]; [exact Gk|].
        rewrite K1 by exact Ne. apply (D u Hu).
      + left. rewrite Ke. reflexivity.
    - (* Interrupted *)
      match goal with |- context [gc_error cfg ?n ?x c] => set (r1 := x) end.
      match goal with |- context [gc_error cfg ?n r1 c] => set (fuel := n) end.
      assert (R1 : RI r1 c) by exact R.
      assert (D1 : EDX t r1).
      { intros u Hu Ne. change (get_obj r1 u) with (get_obj r u). apply D.
        unfold r1 in Hu. cbn [rv_error] in Hu. rewrite <- (inb_others_other t u _ Ne) in Hu.
        rewrite others_insert_same, inb_others_other in Hu by exact Ne. exact Hu. }
      pose proof (gc_error_iso t fuel r1 c R1 D1) as K. destruct (gc_error cfg fuel r1 c) as [r2 c2].
      destruct K as (I1 & I2 & I3 & I4 & I5 & I6 & I7 & I8 & I9 & I10).
      pose proof (remove_obj_iso t r2 c2 I10) as K. pose proof (remove_obj_inv t r2 c2 I10) as R3.
      destruct (remove_obj t r2 c2) as [r3 c3]. unfold RI2 in R3. cbn [fst snd] in R3.
      destruct K as ((K1 & K2 & K3 & K4 & K5 & K6) & FK & Gk & Ke & Kc).
      assert (T3 : Trim (others t (rv_error r)) (others t (rv_error r3))).
      { rewrite Ke. rewrite <- (others_insert_same t (rv_error r)). apply Trim_filter. exact I4. }
      split; [|split; [eapply Fr_trans; eassumption|split; [exact R3|split]]].
      + split; [intros u Hu; rewrite K1, I1 by exact Hu; reflexivity|].
        split; [rewrite K2, I3; reflexivity|]. split; [exact T3|].
        split; [rewrite K4, I6; reflexivity|]. split; [rewrite K5, I7; reflexivity|rewrite K6, I8; reflexivity].
      + intros u Hu. destruct (N.eq_dec u t) as [->|Ne]; [exact Gk|].
        rewrite K1, I1 by exact Ne. change (get_obj r1 u) with (get_obj r u). apply D.
        rewrite <- (inb_others_other t u _ Ne). destruct (inb u (others t (rv_error r))) eqn:X; [reflexivity|].
        pose proof (Trim_inb u _ _ T3 X) as Y. rewrite inb_others_other in Y by exact Ne. congruence.
      + destruct I5 as [I5|I5].
        * left. rewrite Ke, I5. unfold r1. cbn [rv_error]. apply others_insert_same.
        * right. unfold r1 in I5. cbn [rv_error] in I5. pose proof (length_insert_le t (rv_error r)). lia.
    - (* Errored *)
      match goal with |- context [gc_error cfg ?n ?x c] => set (r1 := x) end.
      match goal with |- context [gc_error cfg ?n r1 c] => set (fuel := n) end.
      assert (R1 : RI r1 c) by exact R.
      assert (D1 : EDX t r1).
      { intros u Hu Ne. change (get_obj r1 u) with (get_obj r u). apply D.
        unfold r1 in Hu. cbn [rv_error] in Hu. rewrite <- (inb_others_other t u _ Ne) in Hu.
        rewrite others_insert_same, inb_others_other in Hu by exact Ne. exact Hu. }
      pose proof (gc_error_iso t fuel r1 c R1 D1) as K. destruct (gc_error cfg fuel r1 c) as [r2 c2].
      destruct K as (I1 & I2 & I3 & I4 & I5 & I6 & I7 & I8 & I9 & I10).
      pose proof (remove_obj_iso t r2 c2 I10) as K. pose proof (remove_obj_inv t r2 c2 I10) as R3.
      destruct (remove_obj t r2 c2) as [r3 c3]. unfold RI2 in R3. cbn [fst snd] in R3.
      destruct K as ((K1 & K2 & K3 & K4 & K5 & K6) & FK & Gk & Ke & Kc).
      assert (T3 : Trim (others t (rv_error r)) (others t (rv_error r3))).
      { rewrite Ke. rewrite <- (others_insert_same t (rv_error r)). apply Trim_filter. exact I4. }
      split; [|split; [eapply Fr_trans; eassumption|split; [exact R3|split]]].
      + split; [intros u Hu; rewrite K1, I1 by exact Hu; reflexivity|].
        split; [rewrite K2, I3; reflexivity|]. split; [exact T3|].
        split; [rewrite K4, I6; reflexivity|]. split; [rewrite K5, I7; reflexivity|rewrite K6, I8; reflexivity].
      + intros u Hu. destruct (N.eq_dec u t) as [->|Ne]; [exact Gk|].
        rewrite K1, I1 by exact Ne. change (get_obj r1 u) with (get_obj r u). apply D.
        rewrite <- (inb_others_other t u _ Ne). destruct (inb u (others t (rv_error r))) eqn:X; [reflexivity|].
        pose proof (Trim_inb u _ _ T3 X) as Y. rewrite inb_others_other in Y by exact Ne. congruence.
      + destruct I5 as [I5|I5].
        * left. rewrite Ke, I5. unfold r1. cbn [rv_error]. apply others_insert_same.
        * right. unfold r1 in I5. cbn [rv_error] in I5. pose proof (length_insert_le t (rv_error r)). lia.
  Qed.

  (* the expiry marks: looking up an instance for a new object re-evaluates fr_update_expired at [now] *)
  Definition CurRel (now : Z) (l l' : list fdtrecv) : Prop :=
    Forall2 (fun f f' => f' = f \/ f' = fr_update_expired f now) l l'.
  Lemma CurRel_refl now l : CurRel now l l.
  Proof. induction l as [|f l IH]; constructor; [left; reflexivity|exact IH]. Qed.

  Definition RIso (t : N) (now : Z) (r r' : recv) : Prop :=
    (forall u, u <> t -> get_obj r' u = get_obj r u)
    /\ others t (rv_completed r') = others t (rv_completed r)
    /\ Trim (others t (rv_error r)) (others t (rv_error r'))
    /\ rv_fdt_receivers r' = rv_fdt_receivers r
    /\ CurRel now (rv_fdt_current r) (rv_fdt_current r')
    /\ rv_closed r' = rv_closed r.

  Lemma RIso_of_ROut t now r r' : ROut t r r' -> RIso t now r r'.
  Proof.
    intros (A1 & A2 & A3 & A4 & A5 & A6). split; [exact A1|]. split; [exact A2|]. split; [exact A3|]. split; [exact A4|].
    split; [rewrite A5; apply CurRel_refl|exact A6].
  Qed.
  Lemma RIso_ROut_trans t now r1 r2 r3 : RIso t now r1 r2 -> ROut t r2 r3 -> RIso t now r1 r3.
  Proof.
    intros (A1 & A2 & A3 & A4 & A5 & A6) (B1 & B2 & B3 & B4 & B5 & B6).
    split; [intros u Hu; rewrite B1, A1 by exact Hu; reflexivity|]. split; [congruence|].
    split; [eapply Trim_trans; eassumption|]. split; [congruence|]. split; [rewrite B5; exact A5|congruence].
  Qed.
  Lemma ROut_RIso_trans t now r1 r2 r3 : ROut t r1 r2 -> RIso t now r2 r3 -> RIso t now r1 r3.
  Proof.
    intros (A1 & A2 & A3 & A4 & A5 & A6) (B1 & B2 & B3 & B4 & B5 & B6).
    split; [intros u Hu; rewrite B1, A1 by exact Hu; reflexivity|]. split; [congruence|].
    split; [eapply Trim_trans; eassumption|]. split; [congruence|]. split; [rewrite <- A5; exact B5|congruence].
  Qed.

  Lemma OkO_new t m : OkO t (or_new t m).
  Proof. split; [reflexivity|]. intros w ws H. discriminate. Qed.

  Lemma create_attach_iso t : forall cur now o c, OkO t o ->
    let '(cur', o', c') := create_attach E cur now o c in Fr t c c' /\ OkO t o' /\ CurRel now cur cur'.
  Proof.
    induction cur as [|f rest IH]; intros now o c K; cbn [create_attach].
    { split; [apply Fr_refl|]. split; [exact K|constructor]. }
    assert (Skip : let '(cur', o', c') := (let '(rest', o2, c2) := create_attach E rest now o c in (fr_update_expired f now :: rest', o2, c2)) in
                   Fr t c c' /\ OkO t o' /\ CurRel now (f :: rest) cur').
    { specialize (IH now o c K). destruct (create_attach E rest now o c) as [[rest' o2] c2].
      destruct IH as (A & B & C). split; [exact A|]. split; [exact B|]. constructor; [right; reflexivity|exact C]. }
    destruct (fr_state (fr_update_expired f now)); try exact Skip.
    destruct (fr_inst (fr_update_expired f now)) as [i|]; [|exact Skip].
    pose proof (par_or_attach E t (fr_id (fr_update_expired f now)) (fi_files i) (fi_oti i) o c c K (CSame_refl t c)) as (_ & _ & F1 & K1).
    destruct (or_attach E (fr_id (fr_update_expired f now)) (fi_files i) (fi_oti i) o c) as [[ok o1] c1]. cbn [fst snd] in *.
    destruct ok.
    - split; [exact F1|]. split; [exact K1|]. constructor; [right; reflexivity|apply CurRel_refl].
    - specialize (IH now o1 c1 K1). destruct (create_attach E rest now o1 c1) as [[rest' o2] c2].
      destruct IH as (A & B & C). split; [eapply Fr_trans; eassumption|]. split; [exact B|].
      constructor; [right; reflexivity|exact C].
  Qed.

  Definition IsoOut (t : N) (now : Z) (r : recv) (c : ctx) (r' : recv) (c' : ctx) : Prop :=
    RIso t now r r' /\ Fr t c c' /\ RI r' c' /\ EDisj r'
    /\ (others t (rv_error r') = others t (rv_error r) \/ cf_max_err cfg <= N.of_nat (length (rv_error r))).

  Lemma push_tail_iso p now r2 c : RI r2 c -> EDisj r2 -> inb (a_toi p) (rv_error r2) = false ->
    let '(x, r', c') := push_tail E cfg p now r2 c in IsoOut (a_toi p) now r2 c r' c'.
  Proof.
    intros R D Ne. unfold push_tail. cbv zeta. set (t := a_toi p) in *.
    assert (G : exists r3 o c3,
      (match get_obj r2 t with
       | Some o => (r2, o, c)
       | None =>
         let '(cur, o1, c1) := create_attach E (rv_fdt_current r2) now (or_new t (cf_max_cache cfg)) c in
         (mk_recv (rv_objects r2 ++ [(t, o1)]) (rv_completed r2) (rv_error r2) (rv_fdt_receivers r2) cur (rv_closed r2),
          o1, c1)
       end) = (r3, o, c3) /\ RI r3 c3 /\ get_obj r3 t = Some o /\ Fr t c c3
            /\ (forall u, u <> t -> get_obj r3 u = get_obj r2 u)
            /\ rv_completed r3 = rv_completed r2 /\ rv_error r3 = rv_error r2 /\ rv_fdt_receivers r3 = rv_fdt_receivers r2
            /\ CurRel now (rv_fdt_current r2) (rv_fdt_current r3) /\ rv_closed r3 = rv_closed r2).
    { destruct (get_obj r2 t) as [o|] eqn:G.
      - exists r2, o, c. split; [reflexivity|]. split; [exact R|]. split; [exact G|]. split; [apply Fr_refl|].
        split; [reflexivity|]. split; [reflexivity|]. split; [reflexivity|]. split; [reflexivity|]. split; [apply CurRel_refl|reflexivity].
      - pose proof G as G'. unfold get_obj in G.
        destruct (find (fun q => fst q =? t) (rv_objects r2)) as [q|] eqn:Ef; [discriminate|].
        apply find_none_notin in Ef.
        pose proof (RInv_add _ _ t (cf_max_cache cfg) R Ef) as R1.
        assert (P0 : C09Full.Pre (or_new t (cf_max_cache cfg)) c).
        { eapply RInv_pre; [exact R1|apply in_or_app; right; left; reflexivity]. }
        pose proof (create_attach_ext E (rv_fdt_current r2) now _ c P0) as X.
        pose proof (create_attach_iso t (rv_fdt_current r2) now _ c (OkO_new t (cf_max_cache cfg))) as Y.
        destruct (create_attach E (rv_fdt_current r2) now (or_new t (cf_max_cache cfg)) c) as [[cur o1] c1].
        unfold ExtC in X. cbn [fst snd] in X. destruct Y as (Y1 & Y2 & Y3).
        eexists _, o1, c1. split; [reflexivity|]. split; [|split; [|split; [exact Y1|split]]].
        + unfold RI. cbn [rv_objects]. eapply RInv_replace with (l2 := []); eassumption.
        + unfold get_obj. cbn [rv_objects]. rewrite find_snoc by assumption. reflexivity.
        + intros u Hu. unfold get_obj. cbn [rv_objects]. rewrite find_snoc_other by exact Hu. reflexivity.
        + cbn [rv_completed rv_error rv_fdt_receivers rv_fdt_current rv_closed]. repeat split; try reflexivity. exact Y3. }
    destruct G as (r3 & o & c3 & -> & R3 & G3 & F3 & H1 & H2 & H3 & H4 & H5 & H6).
    pose proof (or_push_ext E p o c3 (RI_get_pre _ _ _ _ R3 G3)) as X.
    pose proof (par_or_push E t p o c3 c3 (RI_OkO _ _ _ _ R3 G3) (CSame_refl t c3)) as (_ & _ & F4 & _).
    destruct (or_push E p o c3) as [o2 c4]. unfold ExtP in X. cbn [fst snd] in X, F4.
    pose proof (RI_put _ _ _ _ _ _ R3 G3 X) as R4.
    set (r4 := set_objects r3 (put_obj t o2 (rv_objects r3))) in *.
    assert (D4 : EDisj r4).
    { intros u Hu. change (rv_error r4) with (rv_error r3) in Hu. rewrite H3 in Hu.
      assert (Nu : u <> t) by (intros ->; congruence).
      unfold r4. rewrite get_put_other by exact Nu. rewrite H1 by exact Nu. apply D. exact Hu. }
    pose proof (check_state_iso t r4 c4 R4 D4) as K. destruct (check_state cfg t r4 c4) as [r5 c5].
    destruct K as (K1 & K2 & K3 & K4 & K5).
    assert (I24 : RIso t now r2 r4).
    { split; [intros u Hu; unfold r4; rewrite get_put_other by exact Hu; apply H1; exact Hu|].
      change (rv_completed r4) with (rv_completed r3). change (rv_error r4) with (rv_error r3).
      change (rv_fdt_receivers r4) with (rv_fdt_receivers r3). change (rv_fdt_current r4) with (rv_fdt_current r3).
      change (rv_closed r4) with (rv_closed r3). rewrite H2, H3.
      split; [reflexivity|]. split; [apply Trim_refl|]. split; [exact H4|]. split; [exact H5|exact H6]. }
    split; [eapply RIso_ROut_trans; eassumption|]. split; [eapply Fr_trans; [exact F3|eapply Fr_trans; eassumption]|].
    split; [exact K3|]. split; [exact K4|]. change (rv_error r4) with (rv_error r3) in K5. rewrite H3 in K5. exact K5.
  Qed.

  Lemma IsoOut_refl t now r c : RI r c -> EDisj r -> IsoOut t now r c r c.
  Proof.
    intros R D. split; [apply RIso_of_ROut, ROut_refl|]. split; [apply Fr_refl|]. split; [exact R|]. split; [exact D|left; reflexivity].
  Qed.

  Lemma IsoOut_pre t now r r0 c r' c' :
    ROut t r r0 -> (length (rv_error r0) <= length (rv_error r))%nat -> others t (rv_error r0) = others t (rv_error r) ->
    IsoOut t now r0 c r' c' -> IsoOut t now r c r' c'.
  Proof.
    intros A L Eq (B1 & B2 & B3 & B4 & B5). split; [eapply ROut_RIso_trans; eassumption|]. split; [exact B2|].
    split; [exact B3|]. split; [exact B4|]. destruct B5 as [B5|B5]; [left; congruence|right; lia].
  Qed.

  Lemma length_others t (l : list N) : (length (others t l) <= length l)%nat.
  Proof. induction l as [|x l IH]; [cbn; lia|]. cbn [filter]. destruct (negb (x =? t)); cbn [length]; lia. Qed.

  (* I1 for push_obj: a packet of TOI t *)
  Theorem push_obj_iso p now r c : RI r c -> EDisj r ->
    let '(x, r', c') := push_obj E cfg p now r c in IsoOut (a_toi p) now r c r' c'.
  Proof.
    intros R D. unfold push_obj. fold (push_tail E cfg p now). cbv zeta. set (t := a_toi p).
    set (r1 := mk_recv (rv_objects r) (others t (rv_completed r)) (rv_error r) (rv_fdt_receivers r) (rv_fdt_current r) (rv_closed r)).
    assert (O1 : ROut t r r1).
    { split; [reflexivity|]. split; [apply others_idem|]. split; [apply Trim_refl|]. repeat split. }
    assert (Tail : forall r0, ROut t r r0 -> rv_error r0 = rv_error r -> RI r0 c -> EDisj r0 ->
              let '(x, r', c') :=
                match (if inb t (rv_error r0)
                       then match is_first_symbol p with
                            | None => None
                            | Some true => Some (Some (mk_recv (rv_objects r0) (rv_completed r0) (others t (rv_error r0))
                                                               (rv_fdt_receivers r0) (rv_fdt_current r0) (rv_closed r0)))
                            | Some false => Some None
                            end
                       else Some (Some r0)) with
                | None => (PErr, r0, c)
                | Some None => (POk, r0, c)
                | Some (Some r2) => push_tail E cfg p now r2 c
                end in IsoOut t now r c r' c').
    { intros r0 O0 Ee R0 D0.
      assert (Id : IsoOut t now r c r0 c).
      { apply (IsoOut_pre t now r r0 c r0 c O0); [rewrite Ee; lia|rewrite Ee; reflexivity|apply IsoOut_refl; assumption]. }
      destruct (inb t (rv_error r0)) eqn:Ie.
      - destruct (is_first_symbol p) as [[|]|]; try exact Id.
        set (r2 := mk_recv (rv_objects r0) (rv_completed r0) (others t (rv_error r0)) (rv_fdt_receivers r0) (rv_fdt_current r0) (rv_closed r0)).
        assert (O2 : ROut t r0 r2).
        { split; [reflexivity|]. split; [reflexivity|]. split; [cbn [r2 rv_error]; rewrite others_idem; apply Trim_refl|]. repeat split. }
        assert (D2 : EDisj r2).
        { intros u Hu. change (get_obj r2 u) with (get_obj r0 u). apply D0. cbn [r2 rv_error] in Hu.
          destruct (N.eq_dec u t) as [->|Nu]; [rewrite inb_others_same in Hu; discriminate|].
          rewrite inb_others_other in Hu by exact Nu. exact Hu. }
        pose proof (push_tail_iso p now r2 c R0 D2 (inb_others_same t (rv_error r0))) as K.
        destruct (push_tail E cfg p now r2 c) as [[x r'] c'].
        apply (IsoOut_pre t now r r2 c r' c'); [eapply ROut_trans; eassumption| | |exact K].
        + cbn [r2 rv_error]. rewrite <- Ee. apply length_others.
        + cbn [r2 rv_error]. rewrite others_idem, Ee. reflexivity.
      - pose proof (push_tail_iso p now r0 c R0 D0 Ie) as K.
        destruct (push_tail E cfg p now r0 c) as [[x r'] c'].
        apply (IsoOut_pre t now r r0 c r' c'); [exact O0|rewrite Ee; lia|rewrite Ee; reflexivity|exact K]. }
    assert (Id : IsoOut t now r c r c) by (apply IsoOut_refl; assumption).
    destruct (inb t (rv_completed r)).
    - destruct (cf_once cfg); [exact Id|].
      destruct (is_first_symbol p) as [[|]|]; try exact Id.
      apply (Tail r1 O1 eq_refl R D).
    - apply (Tail r (ROut_refl t r) eq_refl R D).
  Qed.

  (* I1 for recv_step: a packet of TOI t <> 0 *)
  Theorem recv_step_iso p now r c : a_toi p <> 0 -> RI r c -> EDisj r ->
    let '(x, r', c') := recv_step E parse_fdt cfg r (RvPush p now) c in
    let t := a_toi p in
    (forall u, u <> t -> get_obj r' u = get_obj r u)
    /\ others t (rv_completed r') = others t (rv_completed r)
    /\ Trim (others t (rv_error r)) (others t (rv_error r'))
    /\ (others t (rv_error r') = others t (rv_error r) \/ cf_max_err cfg <= N.of_nat (length (rv_error r)))
    /\ rv_fdt_receivers r' = rv_fdt_receivers r
    /\ CurRel now (rv_fdt_current r) (rv_fdt_current r')
    /\ rv_closed r' = (rv_closed r || a_close_sess p)%bool
    /\ Fr t c c' /\ RI r' c' /\ EDisj r'.
  Proof.
    intros Ht R D. cbn [recv_step]. destruct (N.eqb_spec (a_toi p) 0) as [X|_]; [contradiction|].
    set (r0 := if a_close_sess p
               then mk_recv (rv_objects r) (rv_completed r) (rv_error r) (rv_fdt_receivers r) (rv_fdt_current r) true
               else r).
    assert (R0 : RI r0 c) by (unfold r0; destruct (a_close_sess p); exact R).
    assert (D0 : EDisj r0) by (unfold r0; destruct (a_close_sess p); exact D).
    pose proof (push_obj_iso p now r0 c R0 D0) as K. destruct (push_obj E cfg p now r0 c) as [[x r'] c'].
    destruct K as ((K1 & K2 & K3 & K4 & K5 & K6) & F1 & R1 & D1 & Q).
    assert (Eq : rv_objects r0 = rv_objects r /\ rv_completed r0 = rv_completed r /\ rv_error r0 = rv_error r
                 /\ rv_fdt_receivers r0 = rv_fdt_receivers r /\ rv_fdt_current r0 = rv_fdt_current r
                 /\ rv_closed r0 = (rv_closed r || a_close_sess p)%bool).
    { unfold r0. destruct (a_close_sess p); cbn; repeat split; try reflexivity; symmetry; [apply orb_true_r|apply orb_false_r]. }
    destruct Eq as (Q1 & Q2 & Q3 & Q4 & Q5 & Q6). rewrite Q2 in K2. rewrite Q3 in K3, Q. rewrite Q4 in K4. rewrite Q5 in K5. rewrite Q6 in K6.
    cbv zeta. split; [intros u Hu; rewrite K1 by exact Hu; apply get_obj_objs; exact Q1|].
    split; [exact K2|]. split; [exact K3|]. split; [exact Q|]. split; [exact K4|]. split; [exact K5|]. split; [exact K6|].
    split; [exact F1|]. split; [exact R1|exact D1].
  Qed.

  (* ---- EDisj is an invariant of the receiver (every event) ---- *)
  Lemma EDisj_same r r' : rv_objects r' = rv_objects r -> rv_error r' = rv_error r -> EDisj r -> EDisj r'.
  Proof. intros A B D u Hu. rewrite B in Hu. rewrite (get_obj_objs r r' u A). apply D. exact Hu. Qed.

  Lemma remove_obj_edisj k r c : RI r c -> EDisj r -> EDisj (fst (remove_obj k r c)).
  Proof.
    intros R D. pose proof (remove_obj_iso k r c R) as K. destruct (remove_obj k r c) as [r' c']. cbn [fst].
    destruct K as ((K1 & _) & _ & Gk & Ke & _). intros u Hu. rewrite Ke in Hu.
    destruct (N.eq_dec u k) as [->|Nu]; [exact Gk|]. rewrite K1 by exact Nu. apply D. exact Hu.
  Qed.

  Lemma attach_all_edisj id i : forall tois r c att, RI r c -> EDisj r ->
    EDisj (fst (fst (attach_all E id i tois r c att))).
  Proof.
    induction tois as [|t rest IH]; intros r c att R D; cbn [attach_all]; [exact D|].
    destruct (get_obj r t) as [o|] eqn:G; [|apply IH; assumption].
    pose proof (or_attach_ext E id (fi_files i) (fi_oti i) o c (RI_get_pre _ _ _ _ R G)) as X.
    destruct (or_attach E id (fi_files i) (fi_oti i) o c) as [[ok o1] c1]. unfold ExtA in X. cbn [fst snd] in X.
    apply IH.
    - unfold RI. cbn [set_objects rv_objects]. eapply RI_put; eassumption.
    - intros u Hu. cbn [set_objects rv_error] in Hu. destruct (N.eq_dec u t) as [->|Nu].
      + rewrite (D t Hu) in G. discriminate.
      + rewrite get_put_other by exact Nu. apply D. exact Hu.
  Qed.

  Lemma check_all_edisj : forall tois r c, RI r c -> EDisj r -> EDisj (fst (check_all cfg tois r c)).
  Proof.
    induction tois as [|t rest IH]; intros r c R D; cbn [check_all]; [exact D|].
    pose proof (check_state_iso t r c R D) as K. destruct (check_state cfg t r c) as [r1 c1].
    destruct K as (_ & _ & R1 & D1 & _). apply IH; assumption.
  Qed.

  Lemma push_fdt_obj_edisj p now r c : RI r c -> EDisj r -> EDisj (snd (fst (push_fdt_obj E parse_fdt cfg p now r c))).
  Proof.
    intros R D. unfold push_fdt_obj.
    destruct (a_fdt_id p) as [id|]; [|destruct (a_close_obj p || a_close_sess p); exact D].
    destruct (cf_once cfg && existsb (fun f => fr_id f =? id) (rv_fdt_current r)); [exact D|].
    cbv zeta.
    match goal with |- context [match fr_state ?f0 with _ => _ end] => destruct (fr_state f0) end; try exact D.
    match goal with |- context [fr_push E parse_fdt p now ?f] => destruct (fr_push E parse_fdt p now f) as [f1 pan] end.
    assert (R0 : RI r (if pan then panicc c else c)).
    { destruct pan; [|exact R]. eapply RInv_ceq; [| |exact R]; reflexivity. }
    set (c0 := if pan then panicc c else c) in *. clearbody c0.
    match goal with |- context [match fr_state ?f2 with _ => _ end] => set (ff2 := f2) end.
    destruct (fr_state ff2); cbn [fst snd]; try (eapply EDisj_same; [| |exact D]; reflexivity).
    destruct (fr_inst ff2) as [i|]; [|cbn [fst snd]; eapply EDisj_same; [| |exact D]; reflexivity].
    match goal with |- context [attach_all E id i ?l ?r1 c0 []] =>
      pose proof (attach_all_inv E id i l r1 c0 [] R0) as R2;
      pose proof (attach_all_edisj id i l r1 c0 [] R0 (EDisj_same r r1 eq_refl eq_refl D)) as D2;
      destruct (attach_all E id i l r1 c0 []) as [[r2 c2] att] end.
    unfold RIa in R2. cbn [fst snd] in R2, D2.
    pose proof (check_all_edisj att r2 c2 R2 D2) as D3. destruct (check_all cfg att r2 c2) as [r3 c3].
    cbn [fst snd] in *. eapply EDisj_same; [| |exact D3]; reflexivity.
  Qed.

  Theorem recv_step_edisj r e c : RI r c -> EDisj r -> EDisj (snd (fst (recv_step E parse_fdt cfg r e c))).
  Proof.
    intros R D. destruct e as [p now| |now expired expired_fdt|]; cbn [recv_step].
    - assert (R0 : RI (if a_close_sess p then mk_recv (rv_objects r) (rv_completed r) (rv_error r) (rv_fdt_receivers r) (rv_fdt_current r) true else r) c)
        by (destruct (a_close_sess p); exact R).
      assert (D0 : EDisj (if a_close_sess p then mk_recv (rv_objects r) (rv_completed r) (rv_error r) (rv_fdt_receivers r) (rv_fdt_current r) true else r))
        by (destruct (a_close_sess p); exact D).
      destruct (a_toi p =? 0); [apply push_fdt_obj_edisj; assumption|].
      pose proof (push_obj_iso p now _ c R0 D0) as K.
      destruct (push_obj E cfg p now _ c) as [[x r'] c']. destruct K as (_ & _ & _ & D1 & _). exact D1.
    - exact D.
    - cbv zeta.
      match goal with |- context [fold_left ?st ?l (r, c)] => set (step := st); set (ex := l) end.
      assert (G : forall l acc, RI2 acc /\ EDisj (fst acc) -> RI2 (fold_left step l acc) /\ EDisj (fst (fold_left step l acc))).
      { induction l as [|t l IH]; intros acc Ra; cbn [fold_left]; [exact Ra|].
        apply IH. destruct acc as [r1 c1]. destruct Ra as [Ra Da]. unfold step. cbn [fst] in Da.
        match goal with |- context [remove_obj t ?rr c1] => set (r2 := rr) end.
        assert (R2 : RI r2 c1) by exact Ra.
        assert (D2 : EDisj r2).
        { intros u Hu. change (get_obj r2 u) with (get_obj r1 u). apply Da. cbn [r2 rv_error] in Hu.
          destruct (N.eq_dec u t) as [->|Nu]; [rewrite inb_others_same in Hu; discriminate|].
          rewrite inb_others_other in Hu by exact Nu. exact Hu. }
        split; [apply remove_obj_inv; exact R2|apply remove_obj_edisj; assumption]. }
      pose proof (G ex (r, c) (conj R D)) as [_ D1]. destruct (fold_left step ex (r, c)) as [r1 c1]. cbn [fst snd] in *.
      eapply EDisj_same; [| |exact D1]; reflexivity.
    - cbn [fst snd]. intros u _. reflexivity.
  Qed.

  Lemma EDisj0 : EDisj recv0.
  Proof. intros u Hu. discriminate. Qed.

  (* every state the receiver reaches from recv0 / ctx0 satisfies the two invariants I1 needs *)
  Theorem recv_run_invariants : forall evs r c, RI r c -> EDisj r ->
    let '(_, r', c') := recv_run E parse_fdt cfg r evs c in RI r' c' /\ EDisj r'.
  Proof.
    induction evs as [|e rest IH]; intros r c R D; cbn [recv_run]; [split; assumption|].
    pose proof (recv_step_inv E parse_fdt cfg r e c R) as R1. pose proof (recv_step_edisj r e c R D) as D1.
    destruct (recv_step E parse_fdt cfg r e c) as [[x r1] c1]. unfold RI3 in R1. cbn [fst snd] in R1, D1.
    specialize (IH r1 c1 R1 D1). destruct (recv_run E parse_fdt cfg r1 rest c1) as [[xs r2] c2]. exact IH.
  Qed.
End Iso.

(* ================= C. I2: delivery of one object among arbitrary traffic of other TOIs ================= *)
Lemma or_drop_closed o c w ws : C09Full.Pre o c -> r_writer o = Some (w, ws) ->
  runw w (c_log c) = Some PhDone -> or_drop o c = c.
Proof.
  intros (_ & W & _) Hw Rn. rewrite Hw in W. cbn [WInv] in W. destruct W as (_ & _ & ph & Rn' & K).
  rewrite Rn in Rn'. inversion Rn'; subst ph. unfold or_drop. rewrite Hw.
  destruct ws; cbn [phase_ok] in K; try contradiction; reflexivity.
Qed.

Lemma notheld_absent r c toi n : RI r c -> get_obj r toi = None -> NotHeld (toi, n) (rv_objects r).
Proof.
  intros (_ & H & _) G k o Hin ws Hw. destruct (H _ _ Hin) as (T & _ & W). rewrite Hw in W. cbn [WInv fst] in W.
  destruct W as (W1 & _). assert (Hk : k = toi) by congruence. rewrite Hk in Hin.
  exact (get_obj_none_notin r toi G o Hin).
Qed.

Section MultiIface.
  Variable E : env.
  Variable parse_fdt : list N -> option fdtinst.
  Variable cfg : rconfig.
  Variable content : list N.
  Variable toi : N.
  Variable now : Z.
  Hypothesis Htoi : toi <> 0.
  Notation max := (cf_max_cache cfg).
  Notation w := (toi, 0%nat).
  Variables (id : N) (inst : fdtinst) (f : fdtfile).
  Hypothesis Hfind : find (fun f => ff_toi f =? toi) (fi_files inst) = Some f.

  (* ---- the interface of Proofs/C02SessionRS.v (section SessIface) ---- *)
  Variable SP : objrecv -> ctx -> Prop.
  Variable LV : list (N * N) -> objrecv -> Prop.
  Variable gen : apkt -> Prop.
  Variable pid : apkt -> N * N.
  Variable cov : list (N * N) -> Prop.
  Hypothesis I_state : forall o c, SP o c -> r_state o = Receiving.
  Hypothesis I_writer : forall o c, SP o c -> r_writer o = Some (w, WOpened).
  Hypothesis I_nc : forall o c p, SP o c -> r_nocache (fst (or_push E p o c)) = r_nocache o.
  Hypothesis I_step : forall o c seen p, SP o c -> LV seen o -> gen p ->
    (a_close_obj p = true -> cov (pid p :: seen)) ->
    let (o2, c2) := or_push E p o c in
    (SP o2 c2 /\ LV (pid p :: seen) o2) \/ (r_state o2 = Completed /\ ShapeDone content w toi c2).
  Hypothesis I_notcov : forall o c seen, SP o c -> LV seen o -> cov seen -> False.
  Hypothesis I_cov_incl : forall l l', cov l -> incl l l' -> cov l'.
  Hypothesis I_attach : forall fid c, Blank c ->
    exists o0 c0, or_attach E fid (fi_files inst) (fi_oti inst) (or_new toi max) c = (true, o0, c0)
                  /\ SP o0 c0 /\ LV [] o0 /\ r_nocache o0 = ff_nocache f.


  Notation push := (fun p => RvPush p now).
  Notation closed_of p r :=
    (if a_close_sess p
     then mk_recv (rv_objects r) (rv_completed r) (rv_error r) (rv_fdt_receivers r) (rv_fdt_current r) true
     else r).

  (* the instance that lists the object is the head of rv_fdt_current, complete and not expired at [now] *)
  Definition HeadOk (cur : list fdtrecv) : Prop :=
    exists F2 rest, cur = F2 :: rest /\ fr_update_expired F2 now = F2 /\ fr_state F2 = FComplete /\ fr_inst F2 = Some inst.
  Definition Common (r : recv) (c : ctx) : Prop := RI r c /\ EDisj r /\ HeadOk (rv_fdt_current r).
  (* the three phases of the object in a receiver that also holds other objects *)
  Definition MStart (r : recv) (c : ctx) : Prop :=
    get_obj r toi = None /\ inb toi (rv_completed r) = false /\ inb toi (rv_error r) = false /\ CSame toi c ctx0.
  Definition MRecv (seen : list (N * N)) (r : recv) (c : ctx) : Prop :=
    exists o cs, get_obj r toi = Some o /\ inb toi (rv_completed r) = false /\ inb toi (rv_error r) = false
                 /\ CSame toi c cs /\ SP o cs /\ LV seen o /\ r_nocache o = ff_nocache f.
  Definition MDone (r : recv) (c : ctx) : Prop :=
    FI w r c /\ delivered_calls content (calls_of w (c_log c))
    /\ (cf_once cfg = true -> ff_nocache f = false ->
        get_obj r toi = None /\ inb toi (rv_completed r) = true /\ inb toi (rv_error r) = false
        /\ exists cs, CSame toi c cs /\ ShapeDone content w toi cs).

  Lemma m_tail_step seen p r3 o c3 cs :
    RI r3 c3 -> get_obj r3 toi = Some o -> inb toi (rv_completed r3) = false -> inb toi (rv_error r3) = false ->
    CSame toi c3 cs -> SP o cs -> LV seen o -> r_nocache o = ff_nocache f -> gen p ->
    (a_close_obj p = true -> cov (pid p :: seen)) ->
    let (o2, c4) := or_push E p o c3 in
    let (r5, c5) := check_state cfg toi (set_objects r3 (put_obj toi o2 (rv_objects r3))) c4 in
    MRecv (pid p :: seen) r5 c5 \/ MDone r5 c5.
  Proof.
    intros R3 G3 Hc He HC HS Lv Hnc Gp Cl.
    pose proof (RI_OkO _ _ _ _ R3 G3) as K.
    pose proof (par_or_push E toi p o c3 cs K HC) as (E1 & C1 & F1 & K1).
    pose proof (I_step o cs seen p HS Lv Gp Cl) as H. pose proof (I_nc o cs p HS) as NC.
    pose proof (or_push_ext E p o c3 (RI_get_pre _ _ _ _ R3 G3)) as X.
    pose proof (RI_put _ _ _ _ _ _ R3 G3 X) as R4.
    destruct (or_push E p o c3) as [o2 c4], (or_push E p o cs) as [o2s cs4]. unfold ExtP in X. cbn [fst snd] in *. subst o2s.
    set (r4 := set_objects r3 (put_obj toi o2 (rv_objects r3))) in *.
    assert (G4 : get_obj r4 toi = Some o2) by apply get_put_same.
    unfold check_state. rewrite G4.
    destruct H as [(S1 & L1)|(H1 & H2)].
    - rewrite (I_state _ _ S1). left. exists o2, cs4. split; [exact G4|]. split; [exact Hc|]. split; [exact He|].
      split; [exact C1|]. split; [exact S1|]. split; [exact L1|congruence].
    - rewrite H1. cbv iota.
      destruct (e_stable _ _ _ _ X _ _ (I_writer _ _ HS)) as [ws Hw].
      assert (Rn : runw w (c_log c4) = Some PhDone).
      { unfold runw. rewrite (CSame_calls toi 0%nat c4 cs4 C1). exact (done_runw content w toi cs4 H2). }
      pose proof (e_pre _ _ _ _ X) as P2.
      match goal with |- context [remove_obj toi ?x c4] => set (r4' := x) end.
      assert (G4' : get_obj r4' toi = Some o2) by exact G4.
      assert (R4' : RI r4' c4) by exact R4.
      pose proof (remove_obj_inv toi r4' c4 R4') as R5. unfold remove_obj in *. rewrite G4' in *.
      rewrite (or_drop_closed o2 c4 w ws P2 Hw Rn) in *. unfold RI2 in R5. cbn [fst snd] in R5.
      set (r5 := set_objects r4' (del_obj toi (rv_objects r4'))) in *.
      assert (G5 : get_obj r5 toi = None).
      { unfold get_obj, r5. cbn [set_objects rv_objects]. rewrite find_del_same. reflexivity. }
      right. split; [|split].
      + split.
        * destruct P2 as (_ & W & _). rewrite Hw in W. cbn [WInv] in W. destruct W as (_ & W2 & _). exact W2.
        * apply (notheld_absent r5 c4 toi 0%nat R5 G5).
      + rewrite (CSame_calls toi 0%nat c4 cs4 C1). exact (done_calls content w toi cs4 H2).
      + intros Ho Hn. split; [exact G5|]. split; [|split; [exact He|exists cs4; split; assumption]].
        change (rv_completed r5) with (if r_nocache o2 then rv_completed r3
                                       else if inb toi (rv_completed r3) then rv_completed r3 else rv_completed r3 ++ [toi]).
        rewrite NC, Hnc, Hn, Hc. rewrite existsb_app. cbn [existsb]. rewrite N.eqb_refl. apply orb_true_r.
  Qed.

  Lemma headcur_rel cur cur' : HeadOk cur -> CurRel now cur cur' -> HeadOk cur'.
  Proof.
    intros (F2 & rest & -> & Hup & Hst & Hin) H. inversion H as [|a b l l' Hab Hl]; subst. exists F2, l'.
    split; [destruct Hab as [->| ->]; [reflexivity|rewrite Hup; reflexivity]|]. split; [exact Hup|split; assumption].
  Qed.

  Lemma common_of_iso t r c r' c' : Common r c -> IsoOut cfg t now r c r' c' -> Common r' c'.
  Proof.
    intros (_ & _ & Hd) ((_ & _ & _ & _ & K5 & _) & _ & R1 & D1 & _). split; [exact R1|]. split; [exact D1|].
    exact (headcur_rel _ _ Hd K5).
  Qed.

  Lemma common_closed p r c : Common r c -> Common (closed_of p r) c.
  Proof. intros H. destruct (a_close_sess p); exact H. Qed.

  (* a packet of the object on the attached, receiving object *)
  Lemma m_push_recv seen r c p :
    MRecv seen r c -> Common r c -> a_toi p = toi -> gen p -> (a_close_obj p = true -> cov (pid p :: seen)) ->
    let '(x, r', c') := push_obj E cfg p now r c in (MRecv (pid p :: seen) r' c' \/ MDone r' c') /\ Common r' c'.
  Proof.
    intros (o & cs & G & Hc & He & HC & HS & Lv & Hnc) Cm Ht Gp Cl.
    pose proof Cm as (R & D & _).
    pose proof (push_obj_iso E cfg p now r c R D) as Iso.
    pose proof (m_tail_step seen p r o c cs R G Hc He HC HS Lv Hnc Gp Cl) as T.
    assert (Eq : push_obj E cfg p now r c =
                 (let (o2, c4) := or_push E p o c in
                  let (r5, c5) := check_state cfg toi (set_objects r (put_obj toi o2 (rv_objects r))) c4 in
                  (POk, r5, c5))).
    { unfold push_obj. cbv zeta. rewrite Ht, Hc. cbv iota beta. rewrite He. cbv iota beta. rewrite G. reflexivity. }
    rewrite Eq in *. clear Eq.
    destruct (or_push E p o c) as [o2 c4].
    destruct (check_state cfg toi (set_objects r (put_obj toi o2 (rv_objects r))) c4) as [r5 c5].
    split; [exact T|exact (common_of_iso _ _ _ _ _ Cm Iso)].
  Qed.

  (* the first packet of the object *)
  Lemma m_push_first r c p :
    MStart r c -> Common r c -> a_toi p = toi -> gen p -> (a_close_obj p = true -> cov [pid p]) ->
    let '(x, r', c') := push_obj E cfg p now r c in (MRecv [pid p] r' c' \/ MDone r' c') /\ Common r' c'.
  Proof.
    intros (G & Hc & He & HC) Cm Ht Gp Cl.
    pose proof Cm as (R & D & F2 & rest & Hcur & Hup & Hst & Hin).
    pose proof (push_obj_iso E cfg p now r c R D) as Iso.
    destruct (I_attach (fr_id F2) ctx0 (conj eq_refl eq_refl)) as (o0 & c0g & Hat & S0 & L0 & Hnc).
    pose proof (par_or_attach E toi (fr_id F2) (fi_files inst) (fi_oti inst) (or_new toi max) c ctx0 (OkO_new toi max) HC)
      as (E1 & C1 & _ & _).
    rewrite Hat in E1, C1.
    assert (Ef : ~ In toi (map fst (rv_objects r))).
    { unfold get_obj in G. destruct (find (fun q => fst q =? toi) (rv_objects r)) as [q|] eqn:Ef; [discriminate|].
      apply find_none_notin. exact Ef. }
    pose proof (RInv_add _ _ toi max R Ef) as R1.
    assert (P0 : C09Full.Pre (or_new toi max) c).
    { eapply RInv_pre; [exact R1|apply in_or_app; right; left; reflexivity]. }
    pose proof (or_attach_ext E (fr_id F2) (fi_files inst) (fi_oti inst) _ c P0) as X.
    destruct (or_attach E (fr_id F2) (fi_files inst) (fi_oti inst) (or_new toi max) c) as [[ok o0'] c0] eqn:Hat'.
    unfold ExtA in X. cbn [fst snd] in E1, C1, X. inversion E1; subst ok o0'. clear E1.
    set (r3 := mk_recv (rv_objects r ++ [(toi, o0)]) (rv_completed r) (rv_error r) (rv_fdt_receivers r) (F2 :: rest) (rv_closed r)).
    assert (R3 : RI r3 c0).
    { unfold RI, r3. cbn [rv_objects]. eapply RInv_replace with (l2 := []); eassumption. }
    assert (G3 : get_obj r3 toi = Some o0).
    { unfold get_obj, r3. cbn [rv_objects]. rewrite find_snoc by assumption. reflexivity. }
    pose proof (m_tail_step [] p r3 o0 c0 c0g R3 G3 Hc He C1 S0 L0 Hnc Gp Cl) as T.
    assert (Eq : push_obj E cfg p now r c =
                 (let (o2, c4) := or_push E p o0 c0 in
                  let (r5, c5) := check_state cfg toi (set_objects r3 (put_obj toi o2 (rv_objects r3))) c4 in
                  (POk, r5, c5))).
    { unfold push_obj. cbv zeta. rewrite Ht, Hc. cbv iota beta. rewrite He. cbv iota beta. rewrite G.
      rewrite Hcur. cbn [create_attach]. rewrite Hup, Hst, Hin, Hat'. cbv iota beta. reflexivity. }
    rewrite Eq in *. clear Eq.
    destruct (or_push E p o0 c0) as [o2 c4].
    destruct (check_state cfg toi (set_objects r3 (put_obj toi o2 (rv_objects r3))) c4) as [r5 c5].
    split; [exact T|exact (common_of_iso _ _ _ _ _ Cm Iso)].
  Qed.

  Lemma step_is_push r c p : a_toi p <> 0 ->
    recv_step E parse_fdt cfg r (RvPush p now) c = push_obj E cfg p now (closed_of p r) c.
  Proof. intros Ht. cbn [recv_step]. destruct (N.eqb_spec (a_toi p) 0) as [G|_]; [contradiction|reflexivity]. Qed.

  (* a packet of another TOI *)
  Lemma m_frame r c p : a_toi p <> 0 -> a_toi p <> toi -> Common r c ->
    let '(x, r', c') := recv_step E parse_fdt cfg r (RvPush p now) c in
    Common r' c' /\ (MStart r c -> MStart r' c') /\ (forall seen, MRecv seen r c -> MRecv seen r' c')
    /\ (MDone r c -> MDone r' c').
  Proof.
    intros H0 Hne Cm. pose proof Cm as (R & D & Hd).
    pose proof (recv_step_iso E parse_fdt cfg p now r c H0 R D) as K.
    pose proof (recv_step_frame E parse_fdt cfg w r (RvPush p now) c R) as Fm.
    destruct (recv_step E parse_fdt cfg r (RvPush p now) c) as [[x r'] c']. cbv zeta in K.
    destruct K as (K1 & K2 & K3 & _ & _ & K5 & _ & F1 & R1 & D1).
    assert (Ne : toi <> a_toi p) by congruence.
    assert (Gt : get_obj r' toi = get_obj r toi) by (apply K1; exact Ne).
    assert (Ct : inb toi (rv_completed r') = inb toi (rv_completed r)) by (eapply inb_others_eq; eassumption).
    assert (Et : inb toi (rv_error r) = false -> inb toi (rv_error r') = false).
    { intros H. rewrite <- (inb_others_other (a_toi p) toi (rv_error r) Ne) in H.
      rewrite <- (inb_others_other (a_toi p) toi (rv_error r') Ne). exact (Trim_inb _ _ _ K3 H). }
    assert (St : CSame toi c c') by (apply (proj1 F1); exact Ne).
    split; [|split; [|split]].
    - split; [exact R1|]. split; [exact D1|]. exact (headcur_rel _ _ Hd K5).
    - intros (G & Hc & He & HC). split; [congruence|]. split; [congruence|]. split; [exact (Et He)|].
      eapply CSame_trans; [apply CSame_sym; exact St|exact HC].
    - intros seen (o & cs & G & Hc & He & HC & Rest). exists o, cs. split; [congruence|]. split; [congruence|].
      split; [exact (Et He)|]. split; [eapply CSame_trans; [apply CSame_sym; exact St|exact HC]|exact Rest].
    - intros (Fi & Dc & B). destruct (Fm Fi) as (_ & Fi' & Sc). cbn [fst snd] in Fi', Sc.
      split; [exact Fi'|]. split; [unfold SameCalls in Sc; rewrite Sc; exact Dc|].
      intros Ho Hn. destruct (B Ho Hn) as (G & Hc & He & cs & HC & Sh).
      split; [congruence|]. split; [congruence|]. split; [exact (Et He)|].
      exists cs. split; [eapply CSame_trans; [apply CSame_sym; exact St|exact HC]|exact Sh].
  Qed.

  (* once delivered: any packet of a non-zero TOI *)
  Lemma m_done_step r c p : a_toi p <> 0 -> Common r c -> MDone r c ->
    let '(x, r', c') := recv_step E parse_fdt cfg r (RvPush p now) c in Common r' c' /\ MDone r' c'.
  Proof.
    intros H0 Cm Dn. destruct (N.eq_dec (a_toi p) toi) as [Ht|Hne].
    2:{ pose proof (m_frame r c p H0 Hne Cm) as K. destruct (recv_step E parse_fdt cfg r (RvPush p now) c) as [[x r'] c'].
        destruct K as (K1 & _ & _ & K4). split; [exact K1|exact (K4 Dn)]. }
    pose proof Cm as (R & D & Hd).
    pose proof (recv_step_iso E parse_fdt cfg p now r c H0 R D) as K.
    pose proof (recv_step_frame E parse_fdt cfg w r (RvPush p now) c R) as Fm.
    destruct Dn as (Fi & Dc & B).
    assert (Eqb : cf_once cfg = true -> ff_nocache f = false ->
                  recv_step E parse_fdt cfg r (RvPush p now) c = (POk, closed_of p r, c)).
    { intros Ho Hn. destruct (B Ho Hn) as (_ & Hc & _). rewrite (step_is_push r c p H0).
      unfold push_obj. cbv zeta. rewrite Ht.
      assert (Hc' : inb toi (rv_completed (closed_of p r)) = true) by (destruct (a_close_sess p); exact Hc).
      rewrite Hc', Ho. reflexivity. }
    destruct (recv_step E parse_fdt cfg r (RvPush p now) c) as [[x r'] c']. cbv zeta in K.
    destruct K as (_ & _ & _ & _ & _ & K5 & _ & _ & R1 & D1).
    destruct (Fm Fi) as (_ & Fi' & Sc). cbn [fst snd] in Fi', Sc.
    split; [split; [exact R1|split; [exact D1|exact (headcur_rel _ _ Hd K5)]]|].
    split; [exact Fi'|]. split; [unfold SameCalls in Sc; rewrite Sc; exact Dc|].
    intros Ho Hn. specialize (Eqb Ho Hn). inversion Eqb; subst x r' c'. pose proof (B Ho Hn) as Bn.
    destruct (a_close_sess p); exact Bn.
  Qed.

  (* the packets of the object among the others *)
  Definition mine (pkts : list apkt) : list apkt := filter (fun p => a_toi p =? toi) pkts.
  Notation nz := (fun p : apkt => a_toi p <> 0).

  Lemma mrecv_closed seen r c b : MRecv seen r c ->
    MRecv seen (mk_recv (rv_objects r) (rv_completed r) (rv_error r) (rv_fdt_receivers r) (rv_fdt_current r) b) c.
  Proof. intros H. exact H. Qed.

  Lemma m_run_done pkts : forall r c, Common r c -> MDone r c -> Forall nz pkts ->
    let '(_, r', c') := recv_run E parse_fdt cfg r (map push pkts) c in Common r' c' /\ MDone r' c'.
  Proof.
    induction pkts as [|p pkts IH]; intros r c Cm Dn Z; [split; assumption|].
    pose proof (Forall_inv Z) as Zp; pose proof (Forall_inv_tail Z) as Zr. cbn beta in Zp. cbn [map recv_run].
    pose proof (m_done_step r c p Zp Cm Dn) as K. destruct (recv_step E parse_fdt cfg r (RvPush p now) c) as [[x r1] c1].
    destruct K as [Cm1 Dn1]. specialize (IH r1 c1 Cm1 Dn1 Zr).
    destruct (recv_run E parse_fdt cfg r1 (map push pkts) c1) as [[xs r2] c2]. exact IH.
  Qed.

  Lemma m_run_recv pkts : forall r c seen, Common r c -> MRecv seen r c -> Forall nz pkts ->
    Forall gen (mine pkts) -> gclose pid cov seen (mine pkts) -> cov (List.rev (map pid (mine pkts)) ++ seen) ->
    let '(_, r', c') := recv_run E parse_fdt cfg r (map push pkts) c in Common r' c' /\ MDone r' c'.
  Proof.
    induction pkts as [|p pkts IH]; intros r c seen Cm HR Z G Cl Cv.
    - exfalso. destruct HR as (o & cs & _ & _ & _ & _ & HS & Lv & _). cbn [mine filter map List.rev app] in Cv.
      exact (I_notcov o cs seen HS Lv Cv).
    - pose proof (Forall_inv Z) as Zp; pose proof (Forall_inv_tail Z) as Zr. cbn beta in Zp. cbn [map recv_run].
      unfold mine in G, Cl, Cv. cbn [filter] in G, Cl, Cv. fold (mine pkts) in G, Cl, Cv.
      destruct (N.eqb_spec (a_toi p) toi) as [Tp|Tp].
      + pose proof (Forall_inv G) as Gp; pose proof (Forall_inv_tail G) as Gr.
        rewrite (step_is_push r c p Zp).
        assert (HR0 : MRecv seen (closed_of p r) c) by (destruct (a_close_sess p); exact HR).
        assert (Clp : a_close_obj p = true -> cov (pid p :: seen)).
        { intros Hcl. exact (Cl [] p (mine pkts) eq_refl Hcl). }
        pose proof (m_push_recv seen _ c p HR0 (common_closed p r c Cm) Tp Gp Clp) as H.
        destruct (push_obj E cfg p now (closed_of p r) c) as [[x r1] c1]. destruct H as [[H|H] Cm1].
        * assert (Cv1 : cov (List.rev (map pid (mine pkts)) ++ pid p :: seen)).
          { cbn [map List.rev] in Cv. rewrite <- app_assoc in Cv. exact Cv. }
          specialize (IH r1 c1 (pid p :: seen) Cm1 H Zr Gr (gclose_tail pid cov I_cov_incl seen p (mine pkts) Cl) Cv1).
          destruct (recv_run E parse_fdt cfg r1 (map push pkts) c1) as [[xs r2] c2]. exact IH.
        * pose proof (m_run_done pkts r1 c1 Cm1 H Zr) as Dn.
          destruct (recv_run E parse_fdt cfg r1 (map push pkts) c1) as [[xs r2] c2]. exact Dn.
      + pose proof (m_frame r c p Zp Tp Cm) as K.
        destruct (recv_step E parse_fdt cfg r (RvPush p now) c) as [[x r1] c1].
        destruct K as (Cm1 & _ & K3 & _).
        specialize (IH r1 c1 seen Cm1 (K3 seen HR) Zr G Cl Cv).
        destruct (recv_run E parse_fdt cfg r1 (map push pkts) c1) as [[xs r2] c2]. exact IH.
  Qed.

  Lemma m_run_start pkts : forall r c, Common r c -> MStart r c -> Forall nz pkts ->
    Forall gen (mine pkts) -> gclose pid cov [] (mine pkts) -> cov (map pid (mine pkts)) ->
    let '(_, r', c') := recv_run E parse_fdt cfg r (map push pkts) c in Common r' c' /\ MDone r' c'.
  Proof.
    induction pkts as [|p pkts IH]; intros r c Cm HS Z G Cl Cv.
    - exfalso. destruct (I_attach 0 ctx0 (conj eq_refl eq_refl)) as (o0 & c0 & _ & S0 & L0 & _).
      exact (I_notcov o0 c0 [] S0 L0 Cv).
    - pose proof (Forall_inv Z) as Zp; pose proof (Forall_inv_tail Z) as Zr. cbn beta in Zp. cbn [map recv_run].
      unfold mine in G, Cl, Cv. cbn [filter] in G, Cl, Cv. fold (mine pkts) in G, Cl, Cv.
      destruct (N.eqb_spec (a_toi p) toi) as [Tp|Tp].
      + pose proof (Forall_inv G) as Gp; pose proof (Forall_inv_tail G) as Gr.
        rewrite (step_is_push r c p Zp).
        assert (HS0 : MStart (closed_of p r) c) by (destruct (a_close_sess p); exact HS).
        assert (Clp : a_close_obj p = true -> cov [pid p]).
        { intros Hcl. pose proof (Cl [] p (mine pkts) eq_refl Hcl) as K. cbn [app map] in K. exact K. }
        pose proof (m_push_first _ c p HS0 (common_closed p r c Cm) Tp Gp Clp) as H.
        destruct (push_obj E cfg p now (closed_of p r) c) as [[x r1] c1]. destruct H as [[H|H] Cm1].
        * apply (g_cov_rev cov I_cov_incl) in Cv. cbn [map List.rev] in Cv. rewrite <- !app_assoc in Cv.
          pose proof (m_run_recv pkts r1 c1 [pid p] Cm1 H Zr Gr (gclose_tail pid cov I_cov_incl [] p (mine pkts) Cl) Cv) as Dn.
          destruct (recv_run E parse_fdt cfg r1 (map push pkts) c1) as [[xs r2] c2]. exact Dn.
        * pose proof (m_run_done pkts r1 c1 Cm1 H Zr) as Dn.
          destruct (recv_run E parse_fdt cfg r1 (map push pkts) c1) as [[xs r2] c2]. exact Dn.
      + pose proof (m_frame r c p Zp Tp Cm) as K.
        destruct (recv_step E parse_fdt cfg r (RvPush p now) c) as [[x r1] c1].
        destruct K as (Cm1 & K2 & _ & _).
        specialize (IH r1 c1 Cm1 (K2 HS) Zr G Cl Cv).
        destruct (recv_run E parse_fdt cfg r1 (map push pkts) c1) as [[xs r2] c2]. exact IH.
  Qed.

  (* ---------- the FDT packet first ---------- *)
  Variables (pf : apkt) (foti : roti) (d : list N).
  Hypothesis Hpf : fdt_pkt_ok pf id foti d.
  Hypothesis Hparse : parse_fdt d = Some inst.
  Hypothesis Hlive : fdt_live cfg inst pf now.

  Theorem m_fdt_first_delivers pkts :
    Forall nz pkts -> Forall gen (mine pkts) -> gclose pid cov [] (mine pkts) -> cov (map pid (mine pkts)) ->
    let '(_, r, c) := recv_run E parse_fdt cfg recv0 (map push (pf :: pkts)) ctx0 in
    RI r c /\ EDisj r /\ MDone r c.
  Proof.
    intros Z G Cl Cv. cbn [map recv_run]. cbn [recv_step].
    pose proof Hpf as (Hz & _). rewrite Hz. rewrite N.eqb_refl.
    set (r0 := closed_of pf recv0).
    destruct (push_fdt_first E parse_fdt cfg pf id foti d inst now Hpf Hparse Hlive r0 ctx0) as (c0 & Hc0 & Eq).
    { unfold r0. destruct (a_close_sess pf); reflexivity. }
    { unfold r0. destruct (a_close_sess pf); reflexivity. }
    rewrite Eq. clear Eq.
    assert (Ho : rv_objects r0 = []) by (unfold r0; destruct (a_close_sess pf); reflexivity).
    assert (Hcm : rv_completed r0 = []) by (unfold r0; destruct (a_close_sess pf); reflexivity).
    assert (Her : rv_error r0 = []) by (unfold r0; destruct (a_close_sess pf); reflexivity).
    cbv zeta. cbn [rv_objects]. rewrite Ho. cbn [map attach_all check_all].
    cbn [rv_objects rv_completed rv_error rv_fdt_receivers rv_fdt_current rv_closed firstn].
    assert (Hcomp0 : match fi_files inst with
                     | [] => rv_completed r0
                     | _ :: _ => filter (fun t => existsb (fun f0 => ff_toi f0 =? t) (fi_files inst)) (rv_completed r0)
                     end = []).
    { rewrite Hcm. destruct (fi_files inst); reflexivity. }
    rewrite Hcomp0, Her.
    match goal with |- context [recv_run E parse_fdt cfg ?rr _ c0] => set (r1 := rr) end.
    assert (R1 : RI r1 c0).
    { unfold RI, r1. cbn [rv_objects]. destruct Hc0 as [->| ->]; [exact RInv0|].
      eapply RInv_ceq; [| |exact RInv0]; reflexivity. }
    assert (Cm : Common r1 c0).
    { split; [exact R1|]. split; [intros u Hu; discriminate|].
      exists (fdt_done cfg id d inst pf now), []. split; [reflexivity|].
      split; [exact (live_update _ _ _ _ _ _ Hlive)|split; reflexivity]. }
    assert (St : MStart r1 c0).
    { split; [reflexivity|]. split; [reflexivity|]. split; [reflexivity|].
      destruct Hc0 as [->| ->]; [apply CSame_refl|apply CSame_ceq; reflexivity]. }
    pose proof (m_run_start pkts r1 c0 Cm St Z G Cl Cv) as Dn.
    destruct (recv_run E parse_fdt cfg r1 (map push pkts) c0) as [[xs r2] c2].
    destruct Dn as ((R2 & D2 & _) & Dn). split; [exact R2|]. split; [exact D2|exact Dn].
  Qed.
End MultiIface.

(* ================= D. the statements ================= *)
(* what the session has done for the object [toi] when the run ends, in a receiver that also handled other objects:
   the calls of its first writer (toi,0) are open . writes = content . complete; with receive-once and a cacheable
   object the object has left the map, is listed in rv_completed and not in rv_error, and the events of the log that
   belong to the TOI are exactly builder, open, writes, complete (no second writer was created) *)
Definition obj_log_done (content : list N) (toi : N) (c : ctx) : Prop :=
  exists evs, tlog toi (c_log c) = hdr (toi, 0%nat) toi ++ evs ++ [EvComplete (toi, 0%nat)]
              /\ forallb (is_write (toi, 0%nat)) evs = true /\ wdata evs = content.

Definition multi_delivered (cfg : rconfig) (inst : fdtinst) (content : list N) (toi : N) (r : recv) (c : ctx) : Prop :=
  delivered_calls content (calls_of (toi, 0%nat) (c_log c))
  /\ (forall m, complete_exact content (m, calls_of (toi, 0%nat) (c_log c)) = true)
  /\ (cf_once cfg = true -> entry_nocache inst toi = false ->
      get_obj r toi = None /\ In toi (rv_completed r) /\ ~ In toi (rv_error r) /\ obj_log_done content toi c).

Lemma tlog_writes toi evs : forallb (is_write (toi, 0%nat)) evs = true -> tlog toi evs = evs.
Proof.
  induction evs as [|e evs IH]; intros H; [reflexivity|]. cbn [forallb] in H. apply andb_true_iff in H. destruct H as [H1 H2].
  cbn [tlog filter]. destruct e as [| |w' dat ok| | |]; cbn [is_write] in H1; try discriminate.
  apply wid_eqb_eq in H1. subst w'. cbn [ev_toi fst]. rewrite N.eqb_refl. f_equal. apply IH. exact H2.
Qed.

Lemma shape_done_log content toi c cs : CSame toi c cs -> ShapeDone content (toi, 0%nat) toi cs -> obj_log_done content toi c.
Proof.
  intros (_ & _ & L) (evs & H1 & H2 & H3). exists evs. split; [|split; assumption].
  rewrite L, H1. unfold hdr. rewrite !tlog_app. rewrite (tlog_writes toi evs H2).
  cbn [tlog filter ev_toi fst]. rewrite N.eqb_refl. reflexivity.
Qed.

Lemma mdone_delivered cfg inst content toi f r c :
  find (fun f => ff_toi f =? toi) (fi_files inst) = Some f ->
  MDone cfg content toi f r c -> multi_delivered cfg inst content toi r c.
Proof.
  intros Hf (_ & Dc & B). split; [exact Dc|]. split; [intros m; apply delivered_exact; exact Dc|].
  intros Ho Hn. unfold entry_nocache in Hn. rewrite Hf in Hn. destruct (B Ho Hn) as (D1 & D2 & D3 & cs & D4 & D5).
  split; [exact D1|]. split; [apply inb_In; exact D2|]. split; [|exact (shape_done_log content toi c cs D4 D5)].
  intros Hin. apply inb_In in Hin. congruence.
Qed.

(* ---- No-Code ---- *)
Section NoCodeMulti.
  Variable E : env.
  Variable parse_fdt : list N -> option fdtinst.
  Variable cfg : rconfig.
  Variable oti : roti.
  Variable content : list N.
  Variable toi : N.
  Variable md5 : option (list N).
  Variables al as_ nal n : N.
  Variable now : Z.
  Hypothesis Hfec : ro_fec oti = FNoCode.
  Hypothesis He : 0 < ro_e oti.
  Hypothesis Hb : 0 < ro_b oti.
  Hypothesis HL : 0 < lenN_ content.
  Hypothesis Hu64 : lenN_ content + ro_e oti < U64.
  Hypothesis Hpart : block_partitioning (ro_b oti) (lenN_ content) (ro_e oti) = (al, as_, nal, n).
  Notation max := (cf_max_cache cfg).
  Notation w := (toi, 0%nat).
  Hypothesis Hnice : C02Full.Nice2 E content w md5 max n.
  Hypothesis Hacc : writer_accepts E toi.
  Variables (id : N) (inst : fdtinst) (f : fdtfile).
  Hypothesis Hfind : find (fun f => ff_toi f =? toi) (fi_files inst) = Some f.
  Hypothesis Hce : ff_cenc f = CNull.
  Hypothesis Hfo : match ff_oti f with Some x => Some x | None => fi_oti inst end = Some oti.
  Hypothesis Htl : ff_tlen f = lenN_ content.
  Hypothesis Hmd5 : ff_md5 f = md5.
  Variables (pf : apkt) (foti : roti) (d : list N).
  Hypothesis Hpf : fdt_pkt_ok pf id foti d.
  Hypothesis Hparse : parse_fdt d = Some inst.
  Hypothesis Hlive : fdt_live cfg inst pf now.

  Lemma nocode_multi_core pkts :
    Forall (fun p => a_toi p <> 0) pkts ->
    Forall (C02Full.genuine oti content al as_ nal n) (mine toi pkts) ->
    C02Full.close_ok al as_ nal n [] (mine toi pkts) -> C02Full.covered al as_ nal n (map pid_of (mine toi pkts)) ->
    let '(_, r, c) := recv_run E parse_fdt cfg recv0 (map (fun p => RvPush p now) (pf :: pkts)) ctx0 in
    RI r c /\ EDisj r /\ MDone cfg content toi f r c.
  Proof.
    intros Z G Cl Cv.
    exact (m_fdt_first_delivers E parse_fdt cfg content toi now id inst f Hfind
             (C02Full.Struct oti content w toi md5 max al as_ nal n) C02Full.LiveAll
             (C02Full.genuine oti content al as_ nal n) pid_of (C02Full.covered al as_ nal n)
             (nci_state cfg oti content toi md5 al as_ nal n)
             (nci_writer cfg oti content toi md5 al as_ nal n)
             (nci_nc E cfg oti content toi md5 al as_ nal n He Hb HL Hu64)
             (nci_step E cfg oti content toi md5 al as_ nal n Hfec He Hb HL Hu64 Hpart Hnice)
             (nci_notcov cfg oti content toi md5 al as_ nal n He Hb HL Hu64 Hpart)
             (covered_incl' al as_ nal n)
             (nci_attach E cfg oti content toi md5 al as_ nal n He Hb HL Hu64 Hpart Hacc inst f Hfind Hce Hfo Htl Hmd5)
             pf foti d Hpf Hparse Hlive pkts Z G Cl Cv).
  Qed.
End NoCodeMulti.

(* I2, No-Code: the FDT instance first, then ANY packets of non-zero TOIs; those of [toi], taken in their order of
   arrival, satisfy the premises of session_fdt_first_delivers (C02Session.v).  Nothing is assumed of the packets of
   the other TOIs (they need not even belong to an object the FDT lists) *)
Theorem nocode_among_others_delivers E parse_fdt cfg oti content toi md5 now pf id foti d inst pkts :
  let L := lenN_ content in
  nocode_ok oti L ->
  fdt_pkt_ok pf id foti d -> parse_fdt d = Some inst -> fdt_live cfg inst pf now ->
  fdt_entry_for (fi_files inst) (fi_oti inst) toi oti L md5 ->
  writer_accepts E toi -> writes_succeed E toi -> md5_good E content md5 ->
  L <= cf_max_cache cfg -> nb_blocks_of oti L <= 4097 ->
  Forall (fun p => a_toi p <> 0) pkts ->
  let mine := filter (fun p => a_toi p =? toi) pkts in
  Forall (fun p => genuine_pkt oti content p = true) mine ->
  close_flag_ok oti L mine ->
  recoverable oti L mine = true ->
  let '(_, r, c) := recv_run E parse_fdt cfg recv0 (map (fun p => RvPush p now) (pf :: pkts)) ctx0 in
  multi_delivered cfg inst content toi r c.
Proof.
  intros L (Hfec & He & Hb & HL & Hu) Hpf Hparse Hlive (f & F1 & F2 & F3 & F4 & F5) Hacc Hwr Hmd5 Hmax Hn Z mn G Cl Rec.
  destruct (partition_of oti L) as [[[al as_] nal] n] eqn:Hpart. unfold partition_of in Hpart.
  assert (Hnb : nb_blocks_of oti L = n) by (unfold nb_blocks_of; rewrite Hpart; reflexivity).
  assert (Cov : forall l, recoverable oti L l = true -> C02Full.covered al as_ nal n (map pid_of l)).
  { intros l H. apply recoverable_covered. unfold recoverable, source_ks, partition_of in H. rewrite Hpart in H. exact H. }
  assert (Nc : C02Full.Nice2 E content (toi, 0%nat) md5 (cf_max_cache cfg) n).
  { split; [split; [exact Hwr|exact Hmd5]|]. split; [exact Hmax|]. rewrite <- Hnb. exact Hn. }
  pose proof (nocode_multi_core E parse_fdt cfg oti content toi md5 al as_ nal n now Hfec He Hb HL Hu Hpart Nc Hacc
                id inst f F1 F2 F3 F4 F5 pf foti d Hpf Hparse Hlive pkts Z
                (genuine_pkt_spec _ _ _ _ _ _ _ Hpart G)) as D.
  assert (D' : let '(_, r, c) := recv_run E parse_fdt cfg recv0 (map (fun p => RvPush p now) (pf :: pkts)) ctx0 in
               RI r c /\ EDisj r /\ MDone cfg content toi f r c).
  { apply D.
    - intros pre p post Eq Hp. rewrite app_nil_r. apply Cov. apply (Cl pre p post Eq Hp).
    - apply Cov. exact Rec. }
  destruct (recv_run E parse_fdt cfg recv0 (map (fun p => RvPush p now) (pf :: pkts)) ctx0) as [[xs r] c].
  destruct D' as (_ & _ & Dn). eapply mdone_delivered; eassumption.
Qed.
Print Assumptions nocode_among_others_delivers.

(* ---- the oracle schemes: Reed-Solomon, RaptorQ / Raptor ---- *)
Section RSMulti.
  Variable E : env.
  Variable parse_fdt : list N -> option fdtinst.
  Variable cfg : rconfig.
  Variable oti : roti.
  Variable content : list N.
  Variable rep : N -> N -> list N.
  Variable toi : N.
  Variable md5 : option (list N).
  Variables al as_ nal n : N.
  Variable now : Z.
  Hypothesis Hfec : fec_oracle (ro_fec oti) = true.
  Hypothesis He : 0 < ro_e oti.
  Hypothesis Hb : 0 < ro_b oti.
  Hypothesis HL : 0 < lenN_ content.
  Hypothesis Hu64 : lenN_ content + ro_e oti < U64.
  Hypothesis Hpart : block_partitioning (ro_b oti) (lenN_ content) (ro_e oti) = (al, as_, nal, n).
  Hypothesis Htoi : toi <> 0.
  Notation max := (cf_max_cache cfg).
  Notation w := (toi, 0%nat).
  Hypothesis Hsound : forall s sh d, s < n -> Callable oti al as_ nal s sh ->
    NoDup (map fst sh) -> Forall (shard_ok oti content rep al as_ nal s) sh ->
    e_fec E toi (ro_fec oti) s (k_of al as_ nal s) (ro_e oti) (bsz oti content al as_ nal s) sh = Some d ->
    Good oti content al as_ nal n s d.
  Hypothesis HM : Mds E oti content rep toi al as_ nal n.
  Hypothesis Hnice : C02RS.Nice2 E oti content w md5 max al as_ nal n.
  Hypothesis Hacc : writer_accepts E toi.
  Variables (id : N) (inst : fdtinst) (f : fdtfile).
  Hypothesis Hfind : find (fun f => ff_toi f =? toi) (fi_files inst) = Some f.
  Hypothesis Hce : ff_cenc f = CNull.
  Hypothesis Hfo : match ff_oti f with Some x => Some x | None => fi_oti inst end = Some oti.
  Hypothesis Htl : ff_tlen f = lenN_ content.
  Hypothesis Hmd5 : ff_md5 f = md5.
  Variables (pf : apkt) (foti : roti) (d : list N).
  Hypothesis Hpf : fdt_pkt_ok pf id foti d.
  Hypothesis Hparse : parse_fdt d = Some inst.
  Hypothesis Hlive : fdt_live cfg inst pf now.

  Lemma rs_multi_core pkts :
    Forall (fun p => a_toi p <> 0) pkts ->
    Forall (genr oti content rep al as_ nal n) (mine toi pkts) ->
    gclose (rs_pid oti) (C02RS.covered oti al as_ nal n) [] (mine toi pkts) ->
    C02RS.covered oti al as_ nal n (map (rs_pid oti) (mine toi pkts)) ->
    let '(_, r, c) := recv_run E parse_fdt cfg recv0 (map (fun p => RvPush p now) (pf :: pkts)) ctx0 in
    RI r c /\ EDisj r /\ MDone cfg content toi f r c.
  Proof.
    intros Z G Cl Cv.
    exact (m_fdt_first_delivers E parse_fdt cfg content toi now id inst f Hfind
             (C02RS.Struct E oti content rep w toi md5 max al as_ nal n) C02RS.LiveAll
             (genr oti content rep al as_ nal n) (rs_pid oti) (C02RS.covered oti al as_ nal n)
             (rsi_state E cfg oti content rep toi md5 al as_ nal n)
             (rsi_writer E cfg oti content rep toi md5 al as_ nal n)
             (rsi_nc E cfg oti content rep toi md5 al as_ nal n He Hb HL Hu64)
             (rsi_step E cfg oti content rep toi md5 al as_ nal n Hfec He Hb HL Hu64 Hpart Hsound HM Hnice)
             (rsi_notcov E cfg oti content rep toi md5 al as_ nal n He Hb HL Hu64 Hpart HM)
             (rsi_cov_incl oti al as_ nal n)
             (rsi_attach E cfg oti content rep toi md5 al as_ nal n He Hb HL Hu64 Hpart Htoi Hacc inst f Hfind Hce Hfo Htl Hmd5)
             pf foti d Hpf Hparse Hlive pkts Z G Cl Cv).
  Qed.
End RSMulti.

Theorem rs_among_others_delivers E parse_fdt cfg oti content rep toi md5 now pf id foti d inst pkts :
  let L := lenN_ content in
  rs_scheme_ok oti L -> rs_blocks_ok oti L -> toi <> 0 ->
  fdt_pkt_ok pf id foti d -> parse_fdt d = Some inst -> fdt_live cfg inst pf now ->
  fdt_entry_for (fi_files inst) (fi_oti inst) toi oti L md5 ->
  writer_accepts E toi -> writes_succeed E toi -> md5_good E content md5 ->
  rs_oracle_mds E oti content rep toi -> rs_rep_sized oti rep ->
  rs_mem_need oti L <= cf_max_cache cfg -> nb_blocks_of oti L <= 4097 ->
  Forall (fun p => a_toi p <> 0) pkts ->
  let mine := filter (fun p => a_toi p =? toi) pkts in
  Forall (fun p => rs_genuine_pkt oti content rep p = true) mine ->
  rs_close_flag_ok oti L mine ->
  rs_recoverable oti L mine = true ->
  let '(_, r, c) := recv_run E parse_fdt cfg recv0 (map (fun p => RvPush p now) (pf :: pkts)) ctx0 in
  multi_delivered cfg inst content toi r c.
Proof.
  intros L (Hrsf & He & Hb & HL & Hu) Hrs Htoi Hpf Hparse Hlive (f & F1 & F2 & F3 & F4 & F5) Hacc Hwr Hmd5 Hor Hrz Hmax Hn Z mn G Cl Rec.
  destruct (rs_is_cls oti Hrsf) as [Hcls Hfec].
  destruct (partition_of oti L) as [[[al as_] nal] n] eqn:Hpart.
  pose proof (top_sound E oti content rep toi al as_ nal n Hcls He Hb HL Hpart (rs_oracle_mds_sound _ _ _ _ _ Hor)) as Hsound.
  pose proof (top_mds E oti content rep toi al as_ nal n Hcls Hpart Hor) as HM.
  pose proof Hpart as Hpart'. unfold partition_of in Hpart'.
  assert (Hnb : nb_blocks_of oti L = n) by (unfold nb_blocks_of; rewrite Hpart'; reflexivity).
  assert (Cov : forall l, rs_recoverable oti L l = true -> covered oti al as_ nal n (map (rs_pid oti) l)).
  { intros l H. apply (recoverable_covered_rs oti); [exact Hcls|]. unfold rs_recoverable, source_ks in H. rewrite Hpart in H. exact H. }
  assert (Nc : C02RS.Nice2 E oti content (toi, 0%nat) md5 (cf_max_cache cfg) al as_ nal n).
  { split; [split; [exact Hwr|exact Hmd5]|]. split; [rewrite M_mem_need; exact Hmax|]. split; [rewrite <- Hnb; exact Hn|].
    apply (rs_blocks_ok_spec oti L); assumption. }
  assert (G' : Forall (genr oti content rep al as_ nal n) mn).
  { pose proof (rs_genuine_pkt_spec oti content rep al as_ nal n mn Hpart G) as G1. eapply Forall_impl; [|exact G1].
    intros p Hp. split; [exact Hp|exact (rs_genuine_sized oti content rep al as_ nal n p Hrsf Hrz Hp)]. }
  pose proof (rs_multi_core E parse_fdt cfg oti content rep toi md5 al as_ nal n now Hfec He Hb HL Hu Hpart' Htoi Hsound HM Nc Hacc
                id inst f F1 F2 F3 F4 F5 pf foti d Hpf Hparse Hlive pkts Z G') as D.
  assert (D' : let '(_, r, c) := recv_run E parse_fdt cfg recv0 (map (fun p => RvPush p now) (pf :: pkts)) ctx0 in
               RI r c /\ EDisj r /\ MDone cfg content toi f r c).
  { apply D.
    - intros pre p post Eq Hp. rewrite app_nil_r. apply Cov. apply (Cl pre p post Eq Hp).
    - apply Cov. exact Rec. }
  destruct (recv_run E parse_fdt cfg recv0 (map (fun p => RvPush p now) (pf :: pkts)) ctx0) as [[xs r] c].
  destruct D' as (_ & _ & Dn). eapply mdone_delivered; eassumption.
Qed.

Theorem fq_among_others_delivers E parse_fdt cfg oti content enc toi md5 now pf id foti d inst pkts :
  let L := lenN_ content in
  fq_scheme_ok oti L -> fq_blocks_ok oti L -> toi <> 0 ->
  fdt_pkt_ok pf id foti d -> parse_fdt d = Some inst -> fdt_live cfg inst pf now ->
  fdt_entry_for (fi_files inst) (fi_oti inst) toi oti L md5 ->
  writer_accepts E toi -> writes_succeed E toi -> md5_good E content md5 ->
  fq_oracle_sound E oti content enc toi -> fq_oracle_complete E oti content enc toi ->
  L <= cf_max_cache cfg -> nb_blocks_of oti L <= 4097 ->
  Forall (fun p => a_toi p <> 0) pkts ->
  let mine := filter (fun p => a_toi p =? toi) pkts in
  Forall (fun p => fq_genuine_pkt oti content enc p = true) mine ->
  Forall (fun p => fq_sized_pkt oti p = true) mine ->
  fq_close_flag_ok oti L mine ->
  fq_recoverable oti L mine = true ->
  let '(_, r, c) := recv_run E parse_fdt cfg recv0 (map (fun p => RvPush p now) (pf :: pkts)) ctx0 in
  multi_delivered cfg inst content toi r c.
Proof.
  intros L (Hf & He & Hb & HL & Hu) Hsch Htoi Hpf Hparse Hlive (f & F1 & F2 & F3 & F4 & F5) Hacc Hwr Hmd5 Hos Hoc Hmax Hn Z mn G Zs Cl Rec.
  destruct (fq_is_fq oti Hf) as (Hcls & Hus & Hfec).
  destruct (partition_of oti L) as [[[al as_] nal] n] eqn:Hpart.
  pose proof Hpart as Hpart'. unfold partition_of in Hpart'.
  pose proof (top_sound_fq E oti content enc toi al as_ nal n Hcls Hus He Hb HL Hu Hpart Hos) as Hsound.
  pose proof (top_complete_fq E oti content enc toi al as_ nal n Hcls Hus He Hb HL Hu Hpart Hoc) as HM.
  assert (Hnb : nb_blocks_of oti L = n) by (unfold nb_blocks_of; rewrite Hpart'; reflexivity).
  assert (Cov : forall l, fq_recoverable oti L l = true -> covered oti al as_ nal n (map (rs_pid oti) l)).
  { intros l H. apply (recoverable_covered_fq oti); [exact Hcls|]. unfold fq_recoverable, source_ks in H. rewrite Hpart in H. exact H. }
  assert (Nc : C02RS.Nice2 E oti content (toi, 0%nat) md5 (cf_max_cache cfg) al as_ nal n).
  { split; [split; [exact Hwr|exact Hmd5]|]. split; [unfold M; rewrite Hus; exact Hmax|]. split; [rewrite <- Hnb; exact Hn|].
    apply (fq_blocks_ok_spec oti L); assumption. }
  assert (G' : Forall (genr oti content enc al as_ nal n) mn).
  { pose proof (fq_genuine_pkt_spec oti content enc al as_ nal n mn Hpart G) as G1.
    pose proof (fq_sized_pkt_spec oti mn Zs) as Z1. rewrite Forall_forall in *. intros p Hp. split; [exact (G1 p Hp)|exact (Z1 p Hp)]. }
  pose proof (rs_multi_core E parse_fdt cfg oti content enc toi md5 al as_ nal n now Hfec He Hb HL Hu Hpart' Htoi Hsound HM Nc Hacc
                id inst f F1 F2 F3 F4 F5 pf foti d Hpf Hparse Hlive pkts Z G') as D.
  assert (D' : let '(_, r, c) := recv_run E parse_fdt cfg recv0 (map (fun p => RvPush p now) (pf :: pkts)) ctx0 in
               RI r c /\ EDisj r /\ MDone cfg content toi f r c).
  { apply D.
    - intros pre p post Eq Hp. rewrite app_nil_r. apply Cov. apply (Cl pre p post Eq Hp).
    - apply Cov. exact Rec. }
  destruct (recv_run E parse_fdt cfg recv0 (map (fun p => RvPush p now) (pf :: pkts)) ctx0) as [[xs r] c].
  destruct D' as (_ & _ & Dn). eapply mdone_delivered; eassumption.
Qed.
Print Assumptions rs_among_others_delivers.
Print Assumptions fq_among_others_delivers.

(* ---- interleavings ---- *)
(* [Merge ls pkts]: pkts is an interleaving of the lists ls (each list keeps its order) *)
Inductive Merge : list (list apkt) -> list apkt -> Prop :=
| merge_done ls : Forall (fun l => l = []) ls -> Merge ls []
| merge_take ls1 p l ls2 pkts : Merge (ls1 ++ l :: ls2) pkts -> Merge (ls1 ++ (p :: l) :: ls2) (p :: pkts).

Lemma app_eq_len {A} (a b c d : list A) : a ++ b = c ++ d -> length a = length c -> a = c /\ b = d.
Proof.
  revert c. induction a as [|x a IH]; intros c H L; destruct c as [|y c]; cbn in L; try discriminate.
  - split; [reflexivity|exact H].
  - cbn [app] in H. inversion H; subst. destruct (IH c H2 ltac:(lia)) as [-> ->]. split; reflexivity.
Qed.

Lemma Forall2_length' {A B} (R : A -> B -> Prop) l l' : Forall2 R l l' -> length l = length l'.
Proof. induction 1; cbn; congruence. Qed.

Lemma Forall2_impl_in' {A B} (R R' : A -> B -> Prop) l l' :
  (forall a b, In a l -> In b l' -> R a b -> R' a b) -> Forall2 R l l' -> Forall2 R' l l'.
Proof.
  intros H F. induction F as [|a b l l' Hab F IH]; constructor.
  - apply H; [left; reflexivity|left; reflexivity|exact Hab].
  - apply IH. intros a' b' Ha Hb. apply H; right; assumption.
Qed.

(* when the lists carry pairwise distinct TOIs, each list is recovered from the interleaving by filtering on its TOI *)
Lemma merge_spec : forall ls pkts, Merge ls pkts -> forall tois, NoDup tois ->
  Forall2 (fun t l => Forall (fun p => a_toi p = t) l) tois ls ->
  Forall2 (fun t l => filter (fun p => a_toi p =? t) pkts = l) tois ls /\ Forall (fun p => In (a_toi p) tois) pkts.
Proof.
  induction 1 as [ls Hn|ls1 p l ls2 pkts M IH]; intros tois ND F.
  - split; [|constructor]. clear ND. induction F as [|t l ts ls' Htl F IHF]; [constructor|].
    pose proof (Forall_inv Hn) as H1. pose proof (Forall_inv_tail Hn) as H2. cbn beta in H1. subst l.
    constructor; [reflexivity|exact (IHF H2)].
  - apply Forall2_app_inv_r in F. destruct F as (ts1 & ts' & F1 & F' & ->).
    inversion F' as [|t l0 ts2 ls0 Htl F2]; subst.
    pose proof (Forall_inv Htl) as Hp. pose proof (Forall_inv_tail Htl) as Hl. cbn beta in Hp. subst t.
    assert (Fm : Forall2 (fun t l => Forall (fun p => a_toi p = t) l) (ts1 ++ a_toi p :: ts2) (ls1 ++ l :: ls2)).
    { apply Forall2_app; [exact F1|]. constructor; [exact Hl|exact F2]. }
    destruct (IH _ ND Fm) as [Q Hin].
    apply Forall2_app_inv_l in Q. destruct Q as (l1' & l2' & Q1 & Q' & Eq).
    inversion Q' as [|t0 l0 ts0 ls0 Qt Q2]; subst.
    assert (Len : length ls1 = length l1').
    { rewrite <- (Forall2_length' _ _ _ F1), <- (Forall2_length' _ _ _ Q1). reflexivity. }
    destruct (app_eq_len _ _ _ _ Eq Len) as [<- Eq2]. inversion Eq2; subst. clear Eq Eq2.
    apply NoDup_remove_2 in ND.
    split.
    + apply Forall2_app.
      * eapply Forall2_impl_in'; [|exact Q1]. intros t' l' Ht' _ Hq. cbn [filter].
        destruct (N.eqb_spec (a_toi p) t') as [X|_]; [|exact Hq]. exfalso. apply ND. apply in_or_app. left. rewrite X. exact Ht'.
      * constructor; [cbn [filter]; rewrite N.eqb_refl; reflexivity|].
        eapply Forall2_impl_in'; [|exact Q2]. intros t' l' Ht' _ Hq. cbn [filter].
        destruct (N.eqb_spec (a_toi p) t') as [X|_]; [|exact Hq]. exfalso. apply ND. apply in_or_app. right. rewrite X. exact Ht'.
    + constructor; [apply in_or_app; right; left; reflexivity|exact Hin].
Qed.

Lemma Forall2_map_same {A B C} (R : B -> C -> Prop) (f : A -> B) (g : A -> C) l :
  Forall2 R (map f l) (map g l) <-> Forall (fun x => R (f x) (g x)) l.
Proof.
  induction l as [|x l IH]; cbn [map]; split; intros H; try constructor.
  - inversion H; subst; assumption.
  - inversion H; subst. apply IH. assumption.
  - exact (Forall_inv H).
  - apply IH. exact (Forall_inv_tail H).
Qed.

(* ---- several No-Code objects announced by one FDT instance ---- *)
Record nc_obj := mk_nc_obj {
  no_toi : N; no_oti : roti; no_content : list N; no_md5 : option (list N);
  no_pkts : list apkt      (* the packets of the object that arrive, in their order of arrival *)
}.

(* the premises of session_fdt_first_delivers for one object of the session *)
Definition nc_obj_ok (E : env) (cfg : rconfig) (inst : fdtinst) (o : nc_obj) : Prop :=
  let L := lenN_ (no_content o) in
  nocode_ok (no_oti o) L /\ no_toi o <> 0
  /\ fdt_entry_for (fi_files inst) (fi_oti inst) (no_toi o) (no_oti o) L (no_md5 o)
  /\ writer_accepts E (no_toi o) /\ writes_succeed E (no_toi o) /\ md5_good E (no_content o) (no_md5 o)
  /\ L <= cf_max_cache cfg /\ nb_blocks_of (no_oti o) L <= 4097
  /\ Forall (fun p => a_toi p = no_toi o) (no_pkts o)
  /\ Forall (fun p => genuine_pkt (no_oti o) (no_content o) p = true) (no_pkts o)
  /\ close_flag_ok (no_oti o) L (no_pkts o)
  /\ recoverable (no_oti o) L (no_pkts o) = true.

Theorem nocode_session_multi_delivers E parse_fdt cfg now pf id foti d inst objs pkts :
  fdt_pkt_ok pf id foti d -> parse_fdt d = Some inst -> fdt_live cfg inst pf now ->
  NoDup (map no_toi objs) -> Forall (nc_obj_ok E cfg inst) objs ->
  Merge (map no_pkts objs) pkts ->
  let '(_, r, c) := recv_run E parse_fdt cfg recv0 (map (fun p => RvPush p now) (pf :: pkts)) ctx0 in
  Forall (fun o => multi_delivered cfg inst (no_content o) (no_toi o) r c) objs.
Proof.
  intros Hpf Hparse Hlive ND Ok Mg.
  assert (F2 : Forall2 (fun t l => Forall (fun p => a_toi p = t) l) (map no_toi objs) (map no_pkts objs)).
  { apply Forall2_map_same. eapply Forall_impl; [|exact Ok]. intros o (_ & _ & _ & _ & _ & _ & _ & _ & T & _). exact T. }
  destruct (merge_spec _ _ Mg _ ND F2) as [Q Hin]. apply Forall2_map_same in Q.
  assert (Z : Forall (fun p => a_toi p <> 0) pkts).
  { eapply Forall_impl; [|exact Hin]. intros p Hp Hz. cbn beta in Hp. apply in_map_iff in Hp. destruct Hp as (o & Ho & Hio).
    rewrite Forall_forall in Ok. destruct (Ok o Hio) as (_ & Hnz & _). congruence. }
  assert (All : forall o, In o objs ->
            let '(_, r, c) := recv_run E parse_fdt cfg recv0 (map (fun p => RvPush p now) (pf :: pkts)) ctx0 in
            multi_delivered cfg inst (no_content o) (no_toi o) r c).
  { intros o Hio. rewrite Forall_forall in Ok, Q. pose proof (Q o Hio) as Qo. cbn beta in Qo.
    destruct (Ok o Hio) as (A1 & A2 & A3 & A4 & A5 & A6 & A7 & A8 & A9 & A10 & A11 & A12).
    pose proof (nocode_among_others_delivers E parse_fdt cfg (no_oti o) (no_content o) (no_toi o) (no_md5 o) now pf id foti d
                  inst pkts A1 Hpf Hparse Hlive A3 A4 A5 A6 A7 A8 Z) as K.
    cbv zeta in K. rewrite Qo in K. specialize (K A10 A11 A12).
    destruct (recv_run E parse_fdt cfg recv0 (map (fun p => RvPush p now) (pf :: pkts)) ctx0) as [[xs r] c].
    exact K. }
  destruct (recv_run E parse_fdt cfg recv0 (map (fun p => RvPush p now) (pf :: pkts)) ctx0) as [[xs r] c].
  apply Forall_forall. exact All.
Qed.
Print Assumptions nocode_session_multi_delivers.

(* ================= E. toy sessions with two objects ================= *)
(* TOI 7 = ex_content of C02Full (5 bytes, E = 2, B = 2: blocks (0: 2 symbols) (1: 1 symbol)); TOI 9 = 3 bytes, same OTI
   (one block of 2 symbols); one FDT instance (the document tx_doc of C02Session.v) lists both *)
Definition tm_content9 : list N := [10; 20; 30].
Definition tm_inst : fdtinst :=
  mk_fi [mk_ff 7 CNull (Some ex_oti) 5 None None false; mk_ff 9 CNull (Some ex_oti) 3 None None false] None None.
Definition tm_parse (d : list N) : option fdtinst := if eqb_bytes d tx_doc then Some tm_inst else None.
Definition tm_pkts7 : list apkt := ex_pkts.
Definition tm_pkts9 : list apkt := [src_pkt 9 0 1 false [30]; src_pkt 9 0 0 false [10; 20]; src_pkt 9 0 1 false [30]].
(* an interleaving of the two *)
Definition tm_pkts : list apkt :=
  [src_pkt 7 1 0 false [5]; src_pkt 9 0 1 false [30]; src_pkt 7 0 1 false [3; 4]; src_pkt 9 0 0 false [10; 20];
   src_pkt 7 1 0 false [5]; src_pkt 7 0 0 false [1; 2]; src_pkt 9 0 1 false [30]; src_pkt 7 0 1 false [3; 4]].
Definition tm_obj7 : nc_obj := mk_nc_obj 7 ex_oti ex_content None tm_pkts7.
Definition tm_obj9 : nc_obj := mk_nc_obj 9 ex_oti tm_content9 None tm_pkts9.

Example tm_merge : Merge (map no_pkts [tm_obj7; tm_obj9]) tm_pkts.
Proof.
  cbn [map no_pkts tm_obj7 tm_obj9]. unfold tm_pkts, tm_pkts7, tm_pkts9, ex_pkts.
  apply (merge_take [] _ _ [_]). apply (merge_take [_] _ _ []). apply (merge_take [] _ _ [_]). apply (merge_take [_] _ _ []).
  apply (merge_take [] _ _ [_]). apply (merge_take [] _ _ [_]). apply (merge_take [_] _ _ []). apply (merge_take [] _ _ [_]).
  apply merge_done. repeat constructor.
Qed.

(* computed: both objects are delivered, each by its own writer; the events of the two objects are interleaved in the
   log as their packets are *)
Example tm_session_computed :
  sess tm_parse (tx_cfg true false) (tx_fdt None :: tm_pkts)
  = ([POk; POk; POk; POk; POk; POk; POk; POk; POk], [], [9; 7], [],
     [EvBuilder 7 WStore; EvOpen (7, 0%nat) true; EvBuilder 9 WStore; EvOpen (9, 0%nat) true;
      EvWrite (9, 0%nat) [10; 20; 30] true; EvComplete (9, 0%nat);
      EvWrite (7, 0%nat) [1; 2; 3; 4] true; EvWrite (7, 0%nat) [5] true; EvComplete (7, 0%nat)]).
Proof. vm_compute. reflexivity. Qed.

Lemma tm_obj_ok o : In o [tm_obj7; tm_obj9] -> nc_obj_ok env_ok (tx_cfg true false) tm_inst o.
Proof.
  intros [<-|[<-|[]]]; unfold nc_obj_ok; cbn [no_toi no_oti no_content no_md5 no_pkts tm_obj7 tm_obj9].
  - split; [repeat split; vm_compute; reflexivity|]. split; [discriminate|].
    split; [exists (mk_ff 7 CNull (Some ex_oti) 5 None None false); repeat split|].
    split; [split; reflexivity|]. split; [intros i; reflexivity|]. split; [exact I|].
    split; [vm_compute; discriminate|]. split; [vm_compute; discriminate|].
    split; [repeat constructor|]. split; [repeat constructor|].
    split; [apply close_flag_ok_noflag; repeat constructor|vm_compute; reflexivity].
  - split; [repeat split; vm_compute; reflexivity|]. split; [discriminate|].
    split; [exists (mk_ff 9 CNull (Some ex_oti) 3 None None false); repeat split|].
    split; [split; reflexivity|]. split; [intros i; reflexivity|]. split; [exact I|].
    split; [vm_compute; discriminate|]. split; [vm_compute; discriminate|].
    split; [repeat constructor|]. split; [repeat constructor|].
    split; [apply close_flag_ok_noflag; repeat constructor|vm_compute; reflexivity].
Qed.

(* by the theorem: its premises are satisfiable *)
Example tm_session_by_theorem :
  let '(_, r, c) := recv_run env_ok tm_parse (tx_cfg true false) recv0 (map (fun p => RvPush p 100%Z) (tx_fdt None :: tm_pkts)) ctx0 in
  multi_delivered (tx_cfg true false) tm_inst ex_content 7 r c
  /\ multi_delivered (tx_cfg true false) tm_inst tm_content9 9 r c.
Proof.
  pose proof (nocode_session_multi_delivers env_ok tm_parse (tx_cfg true false) 100%Z (tx_fdt None) 1 tx_foti tx_doc tm_inst
                [tm_obj7; tm_obj9] tm_pkts (tx_fdt_ok None) eq_refl (or_introl eq_refl)) as K.
  assert (ND : NoDup (map no_toi [tm_obj7; tm_obj9])).
  { cbn. constructor; [intros [H|[]]; discriminate|constructor; [intros []|constructor]]. }
  specialize (K ND (proj2 (Forall_forall _ _) tm_obj_ok) tm_merge).
  destruct (recv_run env_ok tm_parse (tx_cfg true false) recv0 (map (fun p => RvPush p 100%Z) (tx_fdt None :: tm_pkts)) ctx0) as [[xs r] c].
  split; [exact (Forall_inv K)|exact (Forall_inv (Forall_inv_tail K))].
Qed.

(* THE ONE CROSS-OBJECT EFFECT (what I1 calls trimming): rv_error is bounded by cf_max_err (max_objects_error, default
   0) and gc_error evicts its SMALLEST TOI (BTreeSet::pop_first), not the oldest entry and not the one that just failed.
   Here cf_max_err = 1, the instance lists TOI 5 and TOI 7.  TOI 5 is interrupted (close-object flag on an early
   packet) and error-listed: a later packet of TOI 5 other than symbol (0,0) is ignored (first run).  In the second
   run a packet of TOI 7 that fails the same way comes in between: gc_error evicts TOI 5 (5 < 7), and the same
   later packet of TOI 5 now re-creates the object and opens a second writer (5,1).  No object loses anything by it
   (an evicted TOI is received again rather than ignored), and the calls of every existing writer are untouched. *)
Definition tg_inst : fdtinst :=
  mk_fi [mk_ff 5 CNull (Some ex_oti) 5 None None false; mk_ff 7 CNull (Some ex_oti) 5 None None false] None None.
Definition tg_parse (d : list N) : option fdtinst := if eqb_bytes d tx_doc then Some tg_inst else None.
Example error_list_eviction_crosses_objects :
  sess tg_parse (mk_rcfg 1 1000 false false)
       [tx_fdt None; src_pkt 5 0 1 true [3; 4]; src_pkt 5 1 0 false [5]]
  = ([POk; POk; POk], [], [], [5], [EvBuilder 5 WStore; EvOpen (5, 0%nat) true; EvInterrupted (5, 0%nat)])
  /\ sess tg_parse (mk_rcfg 1 1000 false false)
       [tx_fdt None; src_pkt 5 0 1 true [3; 4]; src_pkt 7 0 1 true [3; 4]; src_pkt 5 1 0 false [5]]
  = ([POk; POk; POk; POk], [5], [], [7],
     [EvBuilder 5 WStore; EvOpen (5, 0%nat) true; EvInterrupted (5, 0%nat);
      EvBuilder 7 WStore; EvOpen (7, 0%nat) true; EvInterrupted (7, 0%nat);
      EvBuilder 5 WStore; EvOpen (5, 1%nat) true]).
Proof. vm_compute. split; reflexivity. Qed.

(* ================= F. I1 for every reachable state ================= *)
(* whatever the receiver has been through (any events from recv0 / ctx0), a packet of TOI t <> 0 then leaves alone
   every other TOI u: its object, its membership in rv_completed, its builder counter, write counters and writer
   calls; u can only LEAVE rv_error, and only when the list was already full (gc_error trims a prefix of the
   sorted list); the log grows by events of t only; the FDT receivers are untouched, the current instances only get
   their expiry re-evaluated at [now]; the close-session flag is recorded *)
Theorem isolation_reachable E parse_fdt cfg evs p now :
  a_toi p <> 0 ->
  let '(_, r, c) := recv_run E parse_fdt cfg recv0 evs ctx0 in
  let '(_, r', c') := recv_step E parse_fdt cfg r (RvPush p now) c in
  let t := a_toi p in
  (forall u, u <> t ->
     get_obj r' u = get_obj r u
     /\ (In u (rv_completed r') <-> In u (rv_completed r))
     /\ (In u (rv_error r') -> In u (rv_error r))
     /\ ncalls c' u = ncalls c u
     /\ forall n, wcount c' (u, n) = wcount c (u, n) /\ calls_of (u, n) (c_log c') = calls_of (u, n) (c_log c))
  /\ others t (rv_completed r') = others t (rv_completed r)
  /\ (exists k, others t (rv_error r') = skipn k (others t (rv_error r))
                /\ (k <> 0%nat -> cf_max_err cfg <= N.of_nat (length (rv_error r))))
  /\ (exists evs', c_log c' = c_log c ++ evs' /\ Forall (fun e => ev_toi e = t) evs')
  /\ rv_fdt_receivers r' = rv_fdt_receivers r
  /\ Forall2 (fun f f' => f' = f \/ f' = fr_update_expired f now) (rv_fdt_current r) (rv_fdt_current r')
  /\ rv_closed r' = (rv_closed r || a_close_sess p)%bool.
Proof.
  intros Ht. pose proof (recv_run_invariants E parse_fdt cfg evs recv0 ctx0 RInv0 EDisj0) as Inv.
  destruct (recv_run E parse_fdt cfg recv0 evs ctx0) as [[xs r] c]. destruct Inv as [R D].
  pose proof (recv_step_iso E parse_fdt cfg p now r c Ht R D) as K.
  destruct (recv_step E parse_fdt cfg r (RvPush p now) c) as [[x r'] c']. cbv zeta in K |- *.
  destruct K as (K1 & K2 & K3 & Q & K4 & K5 & K6 & (F1 & F2) & _ & _).
  split; [|split; [exact K2|split; [|split; [exact F2|split; [exact K4|split; [exact K5|exact K6]]]]]].
  - intros u Hu. split; [apply K1; exact Hu|]. split; [|split; [|split]].
    + rewrite <- !inb_In. rewrite (inb_others_eq (a_toi p) u _ _ K2 Hu). reflexivity.
    + intros Hin. apply inb_In in Hin. apply inb_In. destruct (inb u (rv_error r)) eqn:X; [reflexivity|].
      rewrite <- (inb_others_other (a_toi p) u _ Hu) in X. pose proof (Trim_inb u _ _ K3 X) as Y.
      rewrite inb_others_other in Y by exact Hu. congruence.
    + destruct (F1 u Hu) as (A & _). symmetry. exact A.
    + intros n. destruct (F1 u Hu) as (_ & B & _). split; [symmetry; apply B|].
      symmetry. apply CSame_calls. apply F1. exact Hu.
  - destruct Q as [Q|Q].
    + exists 0%nat. split; [exact Q|]. intros X. contradiction.
    + destruct K3 as [k Hk]. exists k. split; [exact Hk|]. intros _. exact Q.
Qed.
Print Assumptions isolation_reachable.

(* ================= G. C01: clean channel, several No-Code objects ================= *)
(* the sender side of one object (Model/BlockEnc.v, as in C01_clean_channel_nocode) and what the receiver is told *)
Record tx_obj := mk_tx_obj { to_c : ecfg; to_content : list N; to_oti : roti; to_toi : N; to_md5 : option (list N) }.

Definition tx_obj_ok (E : env) (rcfg : rconfig) (inst : fdtinst) (o : tx_obj) : Prop :=
  let c := to_c o in
  c_fec c = NoCode /\ filedesc_accepts c = true /\ c_tlen c = lenN (to_content o) /\ 0 < c_tlen c
  /\ (1 <= c_window c)%nat /\ c_e c < 65536 /\ oti_matches c (to_oti o) /\ to_toi o <> 0
  /\ fdt_entry_for (fi_files inst) (fi_oti inst) (to_toi o) (to_oti o) (c_tlen c) (to_md5 o)
  /\ writer_accepts E (to_toi o) /\ writes_succeed E (to_toi o) /\ md5_good E (to_content o) (to_md5 o)
  /\ c_tlen c <= cf_max_cache rcfg /\ nb_blocks_of (to_oti o) (c_tlen c) <= 4097.

Definition to_wire rep raptor_src (o : tx_obj) : list apkt := wire_pkts rep raptor_src (to_c o) (to_content o) (to_toi o).

Lemma tx_obj_nc rep raptor_src E rcfg inst o : tx_obj_ok E rcfg inst o ->
  nc_obj_ok E rcfg inst (mk_nc_obj (to_toi o) (to_oti o) (to_content o) (to_md5 o) (to_wire rep raptor_src o)).
Proof.
  intros (Hfec & Hacc & Hlen & Hl & Hw & He16 & Hoti & Htoi & Hfdt & Hwa & Hws & Hmd5 & Hmax & Hnb).
  pose proof (Hok (to_c o) (to_content o) (to_oti o) (cf_max_cache rcfg) Hfec Hacc Hlen Hl Hw He16 Hoti Hmax Hnb) as Hnok.
  destruct (wire_facts rep raptor_src (to_c o) (to_content o) (to_oti o) (to_toi o) Hfec Hacc Hlen Hl Hw
              (accepts_esi_fits (to_c o) Hfec Hacc Hl) Hoti) as (G & Rec & body & lst & Ew & Fb & _).
  assert (Ll : lenN_ (to_content o) = c_tlen (to_c o)) by (rewrite Hlen; reflexivity).
  unfold nc_obj_ok. cbn [no_toi no_oti no_content no_md5 no_pkts]. fold (to_wire rep raptor_src o) in *.
  assert (RecAll : recoverable (to_oti o) (lenN_ (to_content o)) (to_wire rep raptor_src o) = true) by (apply Rec, incl_refl).
  split; [exact Hnok|]. split; [exact Htoi|]. split; [rewrite Ll; exact Hfdt|]. split; [exact Hwa|]. split; [exact Hws|].
  split; [exact Hmd5|]. split; [rewrite Ll; exact Hmax|]. split; [rewrite Ll; exact Hnb|].
  split; [|split; [exact G|split; [|exact RecAll]]].
  - unfold to_wire, wire_pkts. apply Forall_forall. intros q Hq. apply in_map_iff in Hq. destruct Hq as (x & <- & _). reflexivity.
  - unfold to_wire in *. rewrite Ew in *. apply close_flag_ok_last; assumption.
Qed.

(* C01, several objects: the FDT instance, then the wire images of one uninterrupted transfer of each object (any
   window, last transfer or not), interleaved in ANY way (the sender's multiplexing is one such interleaving) *)
Theorem clean_channel_multi_delivers rep raptor_src E parse_fdt rcfg now pf id foti d inst objs pkts :
  fdt_pkt_ok pf id foti d -> parse_fdt d = Some inst -> fdt_live rcfg inst pf now ->
  NoDup (map to_toi objs) -> Forall (tx_obj_ok E rcfg inst) objs ->
  Merge (map (to_wire rep raptor_src) objs) pkts ->
  let '(_, r, c) := recv_run E parse_fdt rcfg recv0 (map (fun p => RvPush p now) (pf :: pkts)) ctx0 in
  Forall (fun o => multi_delivered rcfg inst (to_content o) (to_toi o) r c
                   /\ forall m, P_C01_object m (to_content o) 1 [(m, calls_of (to_toi o, 0%nat) (c_log c))] = true) objs.
Proof.
  intros Hpf Hparse Hlive ND Ok Mg.
  set (conv := fun o => mk_nc_obj (to_toi o) (to_oti o) (to_content o) (to_md5 o) (to_wire rep raptor_src o)).
  pose proof (nocode_session_multi_delivers E parse_fdt rcfg now pf id foti d inst (map conv objs) pkts Hpf Hparse Hlive) as K.
  rewrite !map_map in K. cbn [conv no_toi no_pkts] in K.
  assert (Ok' : Forall (nc_obj_ok E rcfg inst) (map conv objs)).
  { apply Forall_forall. intros x Hx. apply in_map_iff in Hx. destruct Hx as (o & <- & Ho).
    rewrite Forall_forall in Ok. apply tx_obj_nc. exact (Ok o Ho). }
  specialize (K ND Ok' Mg).
  destruct (recv_run E parse_fdt rcfg recv0 (map (fun p => RvPush p now) (pf :: pkts)) ctx0) as [[xs r] c].
  rewrite Forall_forall in K |- *. intros o Ho. specialize (K (conv o) (in_map conv _ _ Ho)). cbn [conv no_content no_toi] in K.
  split; [exact K|]. intros m. destruct K as (_ & X & _). apply exact_once. apply X.
Qed.
Print Assumptions clean_channel_multi_delivers.

(* non-vacuity: the 5-byte object of C01Full (TOI 7, two interleaved blocks, last transfer) and a 3-byte object (TOI 9),
   each sent by the sender model, multiplexed packet by packet *)
Definition tc_cfg9 : ecfg := mk_ecfg NoCode 2 2 0 2 true 3 true.
Definition tc_obj7 : tx_obj := mk_tx_obj (ex_cfg true) ex_content ex_oti 7 None.
Definition tc_obj9 : tx_obj := mk_tx_obj tc_cfg9 tm_content9 ex_oti 9 None.
Definition tc_w7 : list apkt := to_wire no_rep no_rsrc tc_obj7.
Definition tc_w9 : list apkt := to_wire no_rep no_rsrc tc_obj9.
Definition tc_pkts : list apkt :=
  match tc_w7, tc_w9 with
  | [a1; a2; a3], [b1; b2] => [a1; b1; a2; b2; a3]
  | _, _ => []
  end.

Example tc_wire :
  map (fun q => (a_toi q, pid_of q, a_payload q, a_close_obj q)) tc_pkts
  = [(7, (0, 0), [1; 2], false); (9, (0, 0), [10; 20], false); (7, (1, 0), [5], false); (9, (0, 1), [30], true);
     (7, (0, 1), [3; 4], true)].
Proof. vm_compute. reflexivity. Qed.

Example tc_session_computed :
  sess tm_parse (tx_cfg true false) (tx_fdt None :: tc_pkts)
  = ([POk; POk; POk; POk; POk; POk], [], [9; 7], [],
     [EvBuilder 7 WStore; EvOpen (7, 0%nat) true; EvBuilder 9 WStore; EvOpen (9, 0%nat) true;
      EvWrite (9, 0%nat) [10; 20; 30] true; EvComplete (9, 0%nat);
      EvWrite (7, 0%nat) [1; 2; 3; 4] true; EvWrite (7, 0%nat) [5] true; EvComplete (7, 0%nat)]).
Proof. vm_compute. reflexivity. Qed.

Example tc_session_by_theorem :
  let '(_, r, c) := recv_run env_ok tm_parse (tx_cfg true false) recv0 (map (fun p => RvPush p 100%Z) (tx_fdt None :: tc_pkts)) ctx0 in
  multi_delivered (tx_cfg true false) tm_inst ex_content 7 r c
  /\ multi_delivered (tx_cfg true false) tm_inst tm_content9 9 r c.
Proof.
  pose proof (clean_channel_multi_delivers no_rep no_rsrc env_ok tm_parse (tx_cfg true false) 100%Z (tx_fdt None) 1 tx_foti tx_doc
                tm_inst [tc_obj7; tc_obj9] tc_pkts (tx_fdt_ok None) eq_refl (or_introl eq_refl)) as K.
  assert (ND : NoDup (map to_toi [tc_obj7; tc_obj9])).
  { cbn. constructor; [intros [H|[]]; discriminate|constructor; [intros []|constructor]]. }
  assert (Ok : Forall (tx_obj_ok env_ok (tx_cfg true false) tm_inst) [tc_obj7; tc_obj9]).
  { constructor; [|constructor; [|constructor]]; unfold tx_obj_ok; cbn [to_c to_content to_oti to_toi to_md5 tc_obj7 tc_obj9].
    - split; [reflexivity|]. split; [vm_compute; reflexivity|]. split; [reflexivity|]. split; [vm_compute; reflexivity|].
      split; [cbn; lia|]. split; [vm_compute; reflexivity|]. split; [repeat split|]. split; [discriminate|].
      split; [exists (mk_ff 7 CNull (Some ex_oti) 5 None None false); repeat split|].
      split; [split; reflexivity|]. split; [intros i; reflexivity|]. split; [exact I|].
      split; vm_compute; discriminate.
    - split; [reflexivity|]. split; [vm_compute; reflexivity|]. split; [reflexivity|]. split; [vm_compute; reflexivity|].
      split; [cbn; lia|]. split; [vm_compute; reflexivity|]. split; [repeat split|]. split; [discriminate|].
      split; [exists (mk_ff 9 CNull (Some ex_oti) 3 None None false); repeat split|].
      split; [split; reflexivity|]. split; [intros i; reflexivity|]. split; [exact I|].
      split; vm_compute; discriminate. }
  assert (Mg : Merge (map (to_wire no_rep no_rsrc) [tc_obj7; tc_obj9]) tc_pkts).
  { cbn [map]. fold tc_w7 tc_w9. unfold tc_pkts.
    assert (E7 : exists a1 a2 a3, tc_w7 = [a1; a2; a3]) by (vm_compute; eexists _, _, _; reflexivity).
    assert (E9 : exists b1 b2, tc_w9 = [b1; b2]) by (vm_compute; eexists _, _; reflexivity).
    destruct E7 as (a1 & a2 & a3 & ->). destruct E9 as (b1 & b2 & ->).
    apply (merge_take [] _ _ [_]). apply (merge_take [_] _ _ []). apply (merge_take [] _ _ [_]). apply (merge_take [_] _ _ []).
    apply (merge_take [] _ _ [_]). apply merge_done. repeat constructor. }
  specialize (K ND Ok Mg).
  destruct (recv_run env_ok tm_parse (tx_cfg true false) recv0 (map (fun p => RvPush p 100%Z) (tx_fdt None :: tc_pkts)) ctx0) as [[xs r] c].
  split; [exact (proj1 (Forall_inv K))|exact (proj1 (Forall_inv (Forall_inv_tail K)))].
Qed.

(* ================= H. the vocabulary, unfolded once (for Properties/C02.v, C01.v) ================= *)
Lemma receiver_invariants_reachable E parse_fdt cfg evs :
  let '(_, r, c) := recv_run E parse_fdt cfg recv0 evs ctx0 in
  RI r c /\ (forall u, In u (rv_error r) -> get_obj r u = None).
Proof.
  pose proof (recv_run_invariants E parse_fdt cfg evs recv0 ctx0 RInv0 (EDisj0)) as K.
  destruct (recv_run E parse_fdt cfg recv0 evs ctx0) as [[xs r] c]. destruct K as [R D]. split; [exact R|].
  intros u Hu. apply D. apply inb_In. exact Hu.
Qed.

Lemma multi_delivered_statement cfg inst content toi r c :
  multi_delivered cfg inst content toi r c <->
  delivered_calls content (calls_of (toi, 0%nat) (c_log c))
  /\ (forall m, complete_exact content (m, calls_of (toi, 0%nat) (c_log c)) = true)
  /\ (cf_once cfg = true -> entry_nocache inst toi = false ->
      get_obj r toi = None /\ In toi (rv_completed r) /\ ~ In toi (rv_error r)
      /\ exists evs, filter (fun e => ev_toi e =? toi) (c_log c)
                     = [EvBuilder toi WStore; EvOpen (toi, 0%nat) true] ++ evs ++ [EvComplete (toi, 0%nat)]
                     /\ forallb (is_write (toi, 0%nat)) evs = true /\ wdata evs = content).
Proof. reflexivity. Qed.

Lemma multi_statements :
  (forall E cfg inst o, nc_obj_ok E cfg inst o <->
     let L := lenN_ (no_content o) in
     nocode_ok (no_oti o) L /\ no_toi o <> 0
     /\ fdt_entry_for (fi_files inst) (fi_oti inst) (no_toi o) (no_oti o) L (no_md5 o)
     /\ writer_accepts E (no_toi o) /\ writes_succeed E (no_toi o) /\ md5_good E (no_content o) (no_md5 o)
     /\ L <= cf_max_cache cfg /\ nb_blocks_of (no_oti o) L <= 4097
     /\ Forall (fun p => a_toi p = no_toi o) (no_pkts o)
     /\ Forall (fun p => genuine_pkt (no_oti o) (no_content o) p = true) (no_pkts o)
     /\ close_flag_ok (no_oti o) L (no_pkts o)
     /\ recoverable (no_oti o) L (no_pkts o) = true)
  /\ (forall ls, Forall (fun l => l = []) ls -> Merge ls [])
  /\ (forall ls1 p l ls2 pkts, Merge (ls1 ++ l :: ls2) pkts -> Merge (ls1 ++ (p :: l) :: ls2) (p :: pkts))
  /\ (forall ls pkts, Merge ls pkts -> forall tois, NoDup tois ->
        Forall2 (fun t l => Forall (fun p => a_toi p = t) l) tois ls ->
        Forall2 (fun t l => filter (fun p => a_toi p =? t) pkts = l) tois ls /\ Forall (fun p => In (a_toi p) tois) pkts).
Proof.
  split; [intros; reflexivity|]. split; [exact merge_done|]. split; [exact merge_take|exact merge_spec].
Qed.

Lemma tx_obj_statement E rcfg inst o :
  tx_obj_ok E rcfg inst o <->
  let c := to_c o in
  c_fec c = NoCode /\ filedesc_accepts c = true /\ c_tlen c = lenN (to_content o) /\ 0 < c_tlen c
  /\ (1 <= c_window c)%nat /\ c_e c < 65536 /\ oti_matches c (to_oti o) /\ to_toi o <> 0
  /\ fdt_entry_for (fi_files inst) (fi_oti inst) (to_toi o) (to_oti o) (c_tlen c) (to_md5 o)
  /\ writer_accepts E (to_toi o) /\ writes_succeed E (to_toi o) /\ md5_good E (to_content o) (to_md5 o)
  /\ c_tlen c <= cf_max_cache rcfg /\ nb_blocks_of (to_oti o) (c_tlen c) <= 4097.
Proof. reflexivity. Qed.
