(* C04: the executable statement (Spec/C04Spec.v) holds of the models. *)
From FluteV Require Import Spec.C04Spec.
From FluteV Require Import Model.AlcFixed Proofs.AlcFixedProofs.
From FluteV Require Import Model.Recv Model.RecvBytes Proofs.RecvTotalProofs Proofs.RecvBytesProofs.
From Coq Require Import Lia.
Open Scope N_scope.

Arguments N.ltb : simpl never.

(* a model result as an observed outcome; exhausted fuel would be a call that does not return *)
Definition outcome_of_res {A} (r : Bytes.res A) : outcome :=
  match r with Bytes.Ok _ => OOk | Bytes.Err => OErr | Bytes.Panic => OPanic | Bytes.OutOfFuel => OHang end.

Lemma spec_parse_holds data : P_C04_parse data (outcome_of_res (parse_alc_pkt_fixed data)) = true.
Proof.
  unfold P_C04_parse. pose proof (parse_alc_pkt_fixed_total data) as T.
  destruct (N.ltb_spec (N.of_nat (length data)) 8) as [Hs|Hs].
  - rewrite (parse_alc_pkt_fixed_short data Hs). reflexivity.
  - destruct (parse_alc_pkt_fixed data); try discriminate; reflexivity.
Qed.

(* one call of the receiver model as an observed outcome: the panic flag is the unwinding *)
Definition outcome_of_step (x : pres) (c : ctx) : outcome :=
  if c_panic c then OPanic else match x with POk => OOk | PErr => OErr end.

Section R.
  Variable E : env.
  Variable parse_fdt : list N -> option fdtinst.
  Variable cfg : rconfig.
  Variable tsi : N.
  Hypothesis parse_fdt_ok : forall xml i, parse_fdt xml = Some i -> inst_ok i.

  Fixpoint model_calls (r : recv) (ds : list (list N)) (now : Z) (c : ctx) : list outcome :=
    match ds with
    | [] => []
    | d :: rest =>
      let '(x, r1, c1) := recv_push_data E parse_fdt cfg tsi r d now c in
      outcome_of_step x c1 :: model_calls r1 rest now c1
    end.

  Lemma spec_calls_holds : forall ds r now c,
    rinv r -> Forall bytes ds -> c_panic c = false ->
    P_C04_calls (model_calls r ds now c) = true.
  Proof.
    induction ds as [|d rest IH]; intros r now c I HF Hc; cbn [model_calls P_C04_calls forallb]; [reflexivity|].
    inversion HF as [|? ? Hd Hr]; subst.
    destruct (recv_push_data_total E parse_fdt cfg tsi parse_fdt_ok r d now c I Hd) as [I1 N1].
    destruct (recv_push_data E parse_fdt cfg tsi r d now c) as [[x r1] c1]. cbn [fst snd] in *.
    cbn [forallb]. unfold outcome_of_step at 1. rewrite (N1 Hc).
    change (forallb P_C04_call (model_calls r1 rest now c1)) with (P_C04_calls (model_calls r1 rest now c1)).
    rewrite (IH r1 now c1 I1 Hr (N1 Hc)). destruct x; reflexivity.
  Qed.
End R.
