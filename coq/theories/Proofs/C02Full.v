(* Object-level delivery theorem for the No-Code FEC scheme on the object-receiver model
   (Model/ObjRecv.v): C02 (every recoverable reception delivers the object byte-exact),
   C03 (safety: what a writer receives is always a prefix of the object, complete means exact)
   and the receiver half of C01. *)
From FluteV Require Import Model.Partition Spec.C07Spec Proofs.PartitionProofs Model.ObjRecv
  Spec.RecvSpec Spec.SessionSpec Proofs.SessionProofs Proofs.D48Step.
From Coq Require Import Lia FinFun.
Open Scope N_scope.

Arguments N.add : simpl never. Arguments N.mul : simpl never. Arguments N.sub : simpl never.
Arguments N.eqb : simpl never. Arguments N.ltb : simpl never. Arguments N.leb : simpl never.
Arguments N.div : simpl never. Arguments N.modulo : simpl never. Arguments N.min : simpl never.

(* ================= byte strings ================= *)
Definition take (n : N) (l : list N) : list N := firstn (N.to_nat n) l.
Definition drop (n : N) (l : list N) : list N := skipn (N.to_nat n) l.

Lemma lenN_take n l : lenN_ (take n l) = N.min n (lenN_ l).
Proof. unfold lenN_, take. rewrite firstn_length. lia. Qed.
Lemma lenN_drop n l : lenN_ (drop n l) = lenN_ l - n.
Proof. unfold lenN_, drop. rewrite skipn_length. lia. Qed.
Lemma lenN_app (a b : list N) : lenN_ (a ++ b) = lenN_ a + lenN_ b.
Proof. unfold lenN_. rewrite app_length. lia. Qed.
Lemma take_all n l : lenN_ l <= n -> take n l = l.
Proof. unfold lenN_, take. intros H. apply firstn_all2. lia. Qed.

Lemma firstn_add_skipn {A} (a b : nat) (l : list A) :
  firstn a l ++ firstn b (skipn a l) = firstn (a + b) l.
Proof.
  revert l. induction a as [|a IH]; intros l; [reflexivity|].
  destruct l as [|x l]; cbn [firstn skipn app plus].
  - destruct b; reflexivity.
  - f_equal. apply IH.
Qed.
Lemma skipn_add {A} (a b : nat) (l : list A) : skipn a (skipn b l) = skipn (b + a) l.
Proof.
  revert l. induction b as [|b IH]; intros l; [reflexivity|].
  destruct l as [|x l]; cbn [skipn plus]; [destruct a; reflexivity|apply IH].
Qed.

Lemma take_add a b l : take a l ++ take b (drop a l) = take (a + b) l.
Proof. unfold take, drop. rewrite firstn_add_skipn. f_equal. lia. Qed.
Lemma drop_add a b l : drop a (drop b l) = drop (b + a) l.
Proof. unfold drop. rewrite skipn_add. f_equal. lia. Qed.
Lemma take_min n l : take n l = take (N.min n (lenN_ l)) l.
Proof.
  destruct (N.le_gt_cases n (lenN_ l)) as [H|H]; [rewrite N.min_l by lia; reflexivity|].
  rewrite N.min_r by lia. rewrite !take_all by lia. reflexivity.
Qed.

Lemma is_prefix_firstn k l : is_prefix (firstn k l) l = true.
Proof.
  revert l. induction k as [|k IH]; intros l; [reflexivity|].
  destruct l as [|x l]; cbn [firstn is_prefix]; [reflexivity|]. rewrite N.eqb_refl. apply IH.
Qed.
Lemma is_prefix_take n l : is_prefix (take n l) l = true.
Proof. apply is_prefix_firstn. Qed.
Lemma eqb_bytes_refl x : eqb_bytes x x = true.
Proof. induction x as [|a x IH]; cbn [eqb_bytes]; [reflexivity|]. rewrite N.eqb_refl. exact IH. Qed.
Lemma eqb_bytes_eq x : forall y, eqb_bytes x y = true -> x = y.
Proof.
  induction x as [|a x IH]; intros [|b y] H; cbn [eqb_bytes] in H; try discriminate; [reflexivity|].
  apply andb_true_iff in H. destruct H as [H1 H2]. apply N.eqb_eq in H1. f_equal; [exact H1|apply IH; exact H2].
Qed.

(* ================= counting: distinct numbers below k ================= *)
Definition below (k : N) : list N := map N.of_nat (seq 0 (N.to_nat k)).
Lemma in_below k j : In j (below k) <-> j < k.
Proof.
  unfold below. rewrite in_map_iff. split.
  - intros (x & <- & Hx). apply in_seq in Hx. lia.
  - intros H. exists (N.to_nat j). split; [lia|]. apply in_seq. lia.
Qed.
Lemma nodup_below k : NoDup (below k).
Proof.
  unfold below. apply FinFun.Injective_map_NoDup; [|apply seq_NoDup].
  intros x y H. lia.
Qed.
Lemma length_below k : length (below k) = N.to_nat k.
Proof. unfold below. rewrite map_length, seq_length. reflexivity. Qed.

Lemma count_le (l : list N) k : NoDup l -> (forall x, In x l -> x < k) -> N.of_nat (length l) <= k.
Proof.
  intros ND H. assert (length l <= length (below k))%nat.
  { apply NoDup_incl_length; [exact ND|]. intros x Hx. apply in_below. apply H. exact Hx. }
  rewrite length_below in H0. lia.
Qed.
Lemma count_all_le (l : list N) k : (forall j, j < k -> In j l) -> k <= N.of_nat (length l).
Proof.
  intros H. assert (length (below k) <= length l)%nat.
  { apply NoDup_incl_length; [apply nodup_below|]. intros x Hx. apply H. apply in_below. exact Hx. }
  rewrite length_below in H0. lia.
Qed.
Lemma count_eq_all (l : list N) k : NoDup l -> (forall x, In x l -> x < k) -> N.of_nat (length l) = k ->
  forall j, j < k -> In j l.
Proof.
  intros ND H Hlen j Hj.
  assert (I : incl (below k) l).
  { apply NoDup_length_incl; [exact ND|rewrite length_below; lia|].
    intros x Hx. apply in_below. apply H. exact Hx. }
  apply I. apply in_below. exact Hj.
Qed.

(* ================= the partition of a non-empty object ================= *)
Section Part.
  Set Default Proof Using "All".
  Variables b e L al as_ nal n : N.
  Hypothesis Hb : 0 < b.
  Hypothesis He : 0 < e.
  Hypothesis HL : 0 < L.
  Hypothesis Hpart : block_partitioning b L e = (al, as_, nal, n).

  Definition k_of (s : N) : N := nominal_syms al as_ nal s.
  Definition soff (s : N) : N := sym_off al as_ nal s.
  Definition boff (s : N) : N := N.min L (soff s * e).
  Definition blen (s : N) : N := boff (s + 1) - boff s.

  Lemma part_ok : exists T r, partition_ok b T al as_ nal n /\ L + r = T * e /\ r < e.
  Proof.
    pose proof (partition_covers_proof b L e Hb He HL) as P. rewrite Hpart in P. destruct P as [P _].
    destruct (ceil_witness L e He) as (r & HT & Hr). eauto.
  Qed.

  Lemma n_pos : 0 < n.
  Proof. destruct part_ok as (T & r & P & _). destruct P. assumption. Qed.
  Lemma k_pos s : 0 < k_of s.
  Proof. destruct part_ok as (T & r & P & _). destruct P. unfold k_of, nominal_syms. destruct (s <? nal); lia. Qed.
  Lemma soff_lt s : s < n -> soff s * e < L.
  Proof.
    intros Hs. destruct part_ok as (T & r & P & HT & Hr).
    apply (block_length_closed_form _ _ _ _ _ _ _ _ _ s P He HT Hr Hs).
  Qed.
  Lemma boff_lt s : s < n -> boff s = soff s * e /\ boff s < L.
  Proof. intros Hs. pose proof (soff_lt s Hs). unfold boff. rewrite N.min_r by lia. lia. Qed.
  Lemma boff_le s : boff s <= L.
  Proof. unfold boff. lia. Qed.
  Lemma boff_mono s s' : s <= s' -> boff s <= boff s'.
  Proof.
    intros H. unfold boff, soff. pose proof (sym_off_mono al as_ nal s s' H).
    assert (sym_off al as_ nal s * e <= sym_off al as_ nal s' * e) by (apply N.mul_le_mono_r; assumption). lia.
  Qed.
  Lemma boff_ge s : n <= s -> boff s = L.
  Proof.
    intros Hs. destruct part_ok as (T & r & P & HT & Hr). unfold boff, soff.
    pose proof (sym_off_total _ _ _ _ _ _ P) as Tt. pose proof (sym_off_mono al as_ nal n s Hs) as M.
    rewrite Tt in M. pose proof (syms_ge L e T r _ HT M) as G. apply N.min_l. exact G.
  Qed.
  Lemma boff_0 : boff 0 = 0.
  Proof. unfold boff, soff. rewrite sym_off_0. lia. Qed.
  Lemma blen_spec s : s < n ->
    blen s = N.min (k_of s * e) (L - soff s * e) /\ 0 < blen s /\ boff (s + 1) = boff s + blen s.
  Proof.
    intros Hs. destruct part_ok as (T & r & P & HT & Hr).
    destruct (closed_step _ _ _ _ _ _ _ _ _ s P He HT Hr Hs) as [St Pos].
    destruct (boff_lt s Hs) as [B1 B2]. unfold blen. unfold block_len_closed in *.
    change (N.min L (sym_off al as_ nal (s + 1) * e)) with (boff (s + 1)) in St.
    change (sym_off al as_ nal s) with (soff s) in *. change (nominal_syms al as_ nal s) with (k_of s) in *. lia.
  Qed.
  Hypothesis Hu64 : L + e < U64.
  Lemma bl64 s : s < n -> block_length64 al as_ nal L e s = Some (blen s).
  Proof.
    intros Hs. destruct part_ok as (T & r & P & HT & Hr).
    rewrite (block_length64_eq _ _ _ _ _ _ _ _ _ s P He HT Hr Hs Hu64).
    destruct (block_length_closed_form _ _ _ _ _ _ _ _ _ s P He HT Hr Hs) as [E _]. rewrite E.
    destruct (blen_spec s Hs) as [B _]. rewrite B. reflexivity.
  Qed.
  Lemma soff_succ s : soff (s + 1) = soff s + k_of s.
  Proof. apply sym_off_succ. Qed.
End Part.
Unset Default Proof Using.

(* ================= shards ================= *)
Lemma NoDup_app_single {A} (l : list A) x : NoDup l -> ~ In x l -> NoDup (l ++ [x]).
Proof.
  intros ND NI. induction ND as [|y l Hy ND IH]; cbn [app].
  - constructor; [intros []|constructor].
  - constructor.
    + intros C. apply in_app_or in C. destruct C as [C|[C|[]]]; [contradiction|]. subst. apply NI. left. reflexivity.
    + apply IH. intros C. apply NI. right. exact C.
Qed.
Lemma has_esi_in esi sh : has_esi esi sh = true <-> In esi (map fst sh).
Proof.
  unfold has_esi. rewrite existsb_exists, in_map_iff. split.
  - intros (p & Hp & Heq). apply N.eqb_eq in Heq. exists p. auto.
  - intros (p & Heq & Hp). exists p. split; [exact Hp|]. apply N.eqb_eq. exact Heq.
Qed.
Lemma get_esi_in i sh d : get_esi i sh = Some d -> In (i, d) sh.
Proof.
  unfold get_esi. destruct (find (fun p => fst p =? i) sh) as [p|] eqn:F; [|discriminate].
  intros [= <-]. apply find_some in F. destruct F as [F1 F2]. apply N.eqb_eq in F2.
  destruct p as [x y]. cbn [fst snd] in *. subst. exact F1.
Qed.
Lemma count_lt_all k sh : Forall (fun p : N * list N => fst p < k) sh -> count_lt k sh = N.of_nat (length sh).
Proof.
  unfold count_lt. intros H.
  assert (R : filter (fun p : N * list N => fst p <? k) sh = sh).
  { induction H as [|x l Hx Hl IH]; cbn [filter]; [reflexivity|].
    destruct (N.ltb_spec (fst x) k); [f_equal; exact IH|lia]. }
  rewrite R. reflexivity.
Qed.

Section Delivery.
  Variable E : env.
  Variable oti : roti.
  Variable content : list N.
  Variable w : wid.
  Variable toi : N.
  Variable md5 : option (list N).
  Variable max : N.
  Variables al as_ nal n : N.
  Let e := ro_e oti.
  Let b := ro_b oti.
  Let L := lenN_ content.
  Hypothesis Hfec : ro_fec oti = FNoCode.
  Hypothesis He : 0 < e.
  Hypothesis Hb : 0 < b.
  Hypothesis HL : 0 < L.
  Hypothesis Hu64 : L + e < U64.
  Hypothesis Hpart : block_partitioning b L e = (al, as_, nal, n).

  Notation PF lem := (lem b e L al as_ nal n Hb He HL Hpart) (only parsing).
  Notation kof := (k_of al as_ nal).
  Notation sof := (soff al as_ nal).
  Notation bof := (boff e L al as_ nal).
  Notation bln := (blen e L al as_ nal).

  Definition sym_bytes (i : N) : list N := take e (drop (i * e) content).
  Definition blk_bytes (s : N) : list N := take (bln s) (drop (bof s) content).

  Lemma concat_src_val o sh :
    Forall (fun p : N * list N => snd p = sym_bytes (o + fst p)) sh ->
    forall m i d, concat_src m i sh = Some d ->
    d = take (N.of_nat m * e) (drop ((o + i) * e) content).
  Proof.
    intros F. induction m as [|m IH]; intros i d; cbn [concat_src].
    - intros [= <-]. reflexivity.
    - destruct (get_esi i sh) as [d1|] eqn:G; [|discriminate].
      destruct (concat_src m (i + 1) sh) as [r|] eqn:C; [|discriminate]. intros [= <-].
      apply get_esi_in in G. rewrite Forall_forall in F. specialize (F _ G). cbn [fst snd] in F.
      rewrite (IH _ _ C), F. unfold sym_bytes.
      replace ((o + (i + 1)) * e) with ((o + i) * e + e) by lia.
      rewrite <- drop_add, take_add. f_equal. lia.
  Qed.

  Lemma blk_bytes_syms s : s < n -> take (kof s * e) (drop (sof s * e) content) = blk_bytes s.
  Proof.
    intros Hs. unfold blk_bytes.
    destruct (PF boff_lt s Hs) as [B1 _].
    destruct (PF blen_spec s Hs) as [B2 _].
    rewrite B1, B2. rewrite take_min. rewrite lenN_drop. reflexivity.
  Qed.

  (* ---------- the block invariant ---------- *)
  Definition shard_ok (s : N) (p : N * list N) : Prop := fst p < kof s /\ snd p = sym_bytes (sof s + fst p).

  Record BlockInit (s : N) (d : bdec) : Prop := {
    bi_init : bd_init d = true;
    bi_k : bd_k d = kof s;
    bi_size : bd_size d = bln s;
    bi_alloc : bd_alloc d = true;
    bi_lt : s < n;
    bi_nodup : NoDup (map fst (bd_shards d));
    bi_shards : Forall (shard_ok s) (bd_shards d);
    bi_open : bd_completed d = false -> bd_data d = None /\ N.of_nat (length (bd_shards d)) < kof s;
    bi_done : bd_completed d = true -> bd_data d = Some (blk_bytes s)
  }.
  Definition BlockOk (s : N) (d : bdec) : Prop :=
    (bd_init d = false -> bd_completed d = false) /\ (bd_init d = true -> BlockInit s d).

  Lemma blockok_new s : BlockOk s bdec_new.
  Proof. split; [reflexivity|discriminate]. Qed.

  Lemma shards_fst_lt s sh : Forall (shard_ok s) sh -> forall x, In x (map fst sh) -> x < kof s.
  Proof.
    intros F x Hx. apply in_map_iff in Hx. destruct Hx as (p & <- & Hp).
    rewrite Forall_forall in F. apply (F p Hp).
  Qed.

  Lemma bd_push_ok toi' s esi payload d :
    BlockInit s d -> bd_completed d = false -> esi < kof s -> payload = sym_bytes (sof s + esi) ->
    let r := bd_push E toi' oti s esi payload d in
    snd r = false /\ BlockInit s (fst r) /\ has_esi esi (bd_shards (fst r)) = true
    /\ (forall i, has_esi i (bd_shards d) = true -> has_esi i (bd_shards (fst r)) = true).
  Proof.
    intros [I1 I2 I3 I4 I5 I6 I7 I8 I9] Hc Hesi Hpay. destruct (I8 Hc) as [Hd Hlen].
    unfold bd_push. rewrite Hc, I4. cbn [negb].
    assert (Hlp : lenN_ payload <= ro_e oti) by (rewrite Hpay; unfold sym_bytes; rewrite lenN_take; fold e; lia).
    destruct (N.ltb_spec (ro_e oti) (lenN_ payload)) as [G0|_]; [lia|]. rewrite Hfec, Hd.
    destruct (N.ltb_spec esi (bd_k d)) as [_|G]; [|lia]. cbn [andb]. rewrite andb_true_r.
    set (sh := if negb (has_esi esi (bd_shards d)) then bd_shards d ++ [(esi, payload)] else bd_shards d).
    assert (S1 : NoDup (map fst sh)).
    { unfold sh. destruct (has_esi esi (bd_shards d)) eqn:H; cbn [negb]; [exact I6|].
      rewrite map_app. cbn [map fst]. apply NoDup_app_single; [exact I6|].
      intros C. apply has_esi_in in C. congruence. }
    assert (S2 : Forall (shard_ok s) sh).
    { unfold sh. destruct (has_esi esi (bd_shards d)); cbn [negb]; [exact I7|].
      apply Forall_app. split; [exact I7|]. constructor; [|constructor]. split; cbn [fst snd]; assumption. }
    assert (S3 : has_esi esi sh = true).
    { unfold sh. destruct (has_esi esi (bd_shards d)) eqn:H; cbn [negb]; [exact H|].
      apply has_esi_in. rewrite map_app. apply in_or_app. right. left. reflexivity. }
    assert (S4 : forall i, has_esi i (bd_shards d) = true -> has_esi i sh = true).
    { intros i H. unfold sh. destruct (has_esi esi (bd_shards d)); cbn [negb]; [exact H|].
      apply has_esi_in. rewrite map_app. apply in_or_app. left. apply has_esi_in. exact H. }
    assert (S5 : count_lt (bd_k d) sh = N.of_nat (length sh)).
    { apply count_lt_all. rewrite I2. eapply Forall_impl; [|exact S2]. intros p [Hp _]. exact Hp. }
    assert (S6 : N.of_nat (length sh) <= kof s).
    { rewrite <- (map_length fst). apply count_le; [exact S1|]. apply shards_fst_lt. exact S2. }
    clearbody sh. cbn [fst snd]. rewrite S5.
    split; [reflexivity|].
    destruct (N.eqb_spec (N.of_nat (length sh)) (bd_k d)) as [Heq|Hne].
    - (* every source symbol is stored: the block is reassembled *)
      assert (All : forall j, 0 <= j < 0 + N.of_nat (N.to_nat (bd_k d)) -> has_esi j sh = true).
      { intros j Hj. apply has_esi_in. apply (count_eq_all _ (kof s)); [exact S1|apply shards_fst_lt; exact S2| |lia].
        rewrite map_length. lia. }
      apply (concat_src_spec sh) in All.
      destruct (concat_src (N.to_nat (bd_k d)) 0 sh) as [dat|] eqn:C; [|congruence].
      assert (Hdat : dat = blk_bytes s).
      { rewrite <- (blk_bytes_syms s I5).
        rewrite (concat_src_val (sof s) sh) with (m := N.to_nat (bd_k d)) (i := 0) (d := dat).
        - rewrite I2. f_equal; [lia|]. f_equal. lia.
        - eapply Forall_impl; [|exact S2]. intros p [_ Hp]. exact Hp.
        - exact C. }
      split; [|split; [exact S3|exact S4]].
      constructor; cbn [bd_init bd_k bd_size bd_alloc bd_shards bd_completed bd_data is_some_b]; try assumption; try reflexivity.
      + discriminate.
      + intros _. rewrite Hdat. reflexivity.
    - split; [|split; [exact S3|exact S4]].
      constructor; cbn [bd_init bd_k bd_size bd_alloc bd_shards bd_completed bd_data is_some_b]; try assumption; try reflexivity.
      + intros _. split; [reflexivity|lia].
      + discriminate.
  Qed.

  (* ---------- memory accounting: bytes of the initialised blocks still in the window ---------- *)
  Fixpoint asum (s : N) (l : list bdec) : N :=
    match l with [] => 0 | d :: r => (if bd_init d then bln s else 0) + asum (s + 1) r end.

  Lemma asum_bound l : forall s, asum s l <= bof (s + N.of_nat (length l)) - bof s.
  Proof.
    induction l as [|d l IH]; intros s; cbn [asum length]; [lia|].
    specialize (IH (s + 1)).
    pose proof (PF boff_mono s (s + 1) ltac:(lia)) as M1.
    pose proof (PF boff_mono (s + 1) (s + 1 + N.of_nat (length l)) ltac:(lia)) as M2.
    replace (s + N.of_nat (S (length l))) with (s + 1 + N.of_nat (length l)) by lia.
    unfold blen. destruct (bd_init d); lia.
  Qed.
  Lemma asum_le_L l s : asum s l <= L.
  Proof. pose proof (asum_bound l s). pose proof (PF boff_le (s + N.of_nat (length l))). lia. Qed.

  Lemma asum_app_new l m : forall s, asum s (l ++ repeat bdec_new m) = asum s l.
  Proof.
    induction l as [|d l IH]; intros s; cbn [app asum].
    - revert s. induction m as [|m IHm]; intros s; cbn [repeat asum bd_init bdec_new]; [reflexivity|]. rewrite IHm. lia.
    - rewrite IH. reflexivity.
  Qed.

  Lemma length_upd i f l : length (upd_nthb i f l) = length l.
  Proof. revert i. induction l as [|x l IH]; intros [|i]; cbn [upd_nthb length]; auto. Qed.
  Lemma nth_upd_eq i f l d0 : (i < length l)%nat -> nth i (upd_nthb i f l) d0 = f (nth i l d0).
  Proof. revert i. induction l as [|x l IH]; intros [|i] H; cbn [upd_nthb length nth] in *; try lia; auto. apply IH. lia. Qed.
  Lemma nth_upd_ne i j f l d0 : j <> i -> nth j (upd_nthb i f l) d0 = nth j l d0.
  Proof.
    revert i j. induction l as [|x l IH]; intros [|i] [|j] H; cbn [upd_nthb nth]; try reflexivity; try congruence.
    apply IH. congruence.
  Qed.
  Lemma asum_upd_same i f l : forall s, bd_init (f (nth i l bdec_new)) = bd_init (nth i l bdec_new) ->
    asum s (upd_nthb i f l) = asum s l.
  Proof.
    revert i. induction l as [|x l IH]; intros [|i] s H; cbn [upd_nthb asum nth] in *; try reflexivity.
    - rewrite H. reflexivity.
    - rewrite IH by exact H. reflexivity.
  Qed.
  Lemma asum_upd_new i f l : forall s, (i < length l)%nat ->
    bd_init (nth i l bdec_new) = false -> bd_init (f (nth i l bdec_new)) = true ->
    asum s (upd_nthb i f l) = asum s l + bln (s + N.of_nat i).
  Proof.
    revert i. induction l as [|x l IH]; intros [|i] s Hi H0 H1; cbn [upd_nthb asum nth length] in *; try lia.
    - rewrite H0, H1. replace (s + N.of_nat 0) with s by lia. lia.
    - rewrite IH by (try lia; assumption). replace (s + 1 + N.of_nat i) with (s + N.of_nat (S i)) by lia. lia.
  Qed.
  Lemma nth_app_new (l : list bdec) m i : nth i (l ++ repeat bdec_new m) bdec_new = nth i l bdec_new.
  Proof.
    destruct (Nat.lt_ge_cases i (length l)) as [H|H].
    - apply app_nth1. exact H.
    - rewrite app_nth2 by exact H. rewrite (nth_overflow l) by exact H. apply nth_repeat.
  Qed.

  (* ---------- the log ---------- *)
  Definition hdr : list wev := [EvBuilder toi WStore; EvOpen w true].
  Definition is_write (ev : wev) : bool := match ev with EvWrite w' _ _ => wid_eqb w w' | _ => false end.
  Definition wdata (evs : list wev) : list N :=
    flat_map (fun ev => match ev with EvWrite _ d _ => d | _ => [] end) evs.
  Definition ShapeRecv (c : ctx) (off : N) : Prop :=
    exists evs, c_log c = hdr ++ evs /\ forallb is_write evs = true /\ wdata evs = take off content.
  Definition ShapeDone (c : ctx) : Prop :=
    exists evs, c_log c = hdr ++ evs ++ [EvComplete w] /\ forallb is_write evs = true /\ wdata evs = content.
  Definition ShapeErr (c : ctx) : Prop :=
    exists evs off t, c_log c = hdr ++ evs ++ [t] /\ (t = EvError w \/ t = EvInterrupted w)
                      /\ forallb is_write evs = true /\ wdata evs = take off content.

  (* ---------- the object invariant ---------- *)
  Record Static (o : objrecv) : Prop := {
    st_state : r_state o = Receiving;
    st_oti : r_oti o = Some oti;
    st_tlen : r_tlen o = Some L;
    st_cenc : r_cenc o = Some CNull;
    st_fdt : r_fdt_id o <> None;
    st_cache : r_cache o = [];
    st_csz : r_cache_size o = 0;
    st_al : r_al o = al;
    st_as : r_as o = as_;
    st_nal : r_nal o = nal;
    st_md5 : r_md5 o = md5;
    st_max : r_max o = max;
    st_writer : r_writer o = Some (w, WOpened)
  }.

  Record BwInv (off : N) (bw : bwriter) : Prop := {
    bw_1 : bw_sbn bw = off;
    bw_2 : bw_left bw = L - bof off;
    bw_3 : bw_cenc bw = CNull;
    bw_4 : bw_acc bw = take (bof off) content;
    bw_5 : bw_md5 bw = None
  }.

  Record Dyn (o : objrecv) (c : ctx) : Prop := {
    dy_bw : exists bw, r_bw o = Some bw /\ BwInv (r_off o) bw;
    dy_off : r_off o < n;
    dy_nb : 0 < r_off o + N.of_nat (length (r_blocks o));
    dy_blocks : forall i, BlockOk (r_off o + N.of_nat i) (nth i (r_blocks o) bdec_new);
    dy_alloc : r_alloc_size o <= asum (r_off o) (r_blocks o);
    dy_log : ShapeRecv c (bof (r_off o))
  }.
  Definition Flushed (o : objrecv) : Prop := bd_completed (nth 0 (r_blocks o) bdec_new) = false.
  Definition Pre (o : objrecv) (c : ctx) : Prop := Static o /\ Dyn o c.
  Definition Struct (o : objrecv) (c : ctx) : Prop := Static o /\ Dyn o c /\ Flushed o.

  Definition LiveOne (s i : N) (o : objrecv) : Prop :=
    s < r_off o \/
    (r_off o <= s /\
     let d := nth (N.to_nat (s - r_off o)) (r_blocks o) bdec_new in
     bd_init d = true /\ (bd_completed d = true \/ has_esi i (bd_shards d) = true)).
  Definition Mono (o o' : objrecv) : Prop := forall s i, LiveOne s i o -> LiveOne s i o'.

  Ltac prj := cbn [r_state r_toi r_oti r_cache r_cache_size r_max r_blocks r_off r_tlen r_cenc r_md5 r_md5chk
                   r_al r_as r_nal r_writer r_bw r_fdt_id r_nb_alloc r_alloc_size r_clen r_nocache] in *.

  Lemma static_set_blocks o bl off nb sz bw : Static o -> Static (set_blocks o bl off nb sz bw).
  Proof. intros []. constructor; unfold set_blocks; prj; assumption. Qed.

  Lemma or_push_static o c p : Static o -> 0 < nb_block o ->
    or_push E p o c = match push_to_block E p o c with
                      | (ROk o5, c5) => (o5, c5)
                      | (RErr o5, c5) => error o5 false c5
                      end.
  Proof.
    intros [S1 S2 S3 S4 S5 S6 S7 S8 S9 S10 S11 S12 S13] Hnb. destruct o. prj. subst.
    destruct r_fdt_id as [fid|]; [|congruence].
    unfold or_push. prj.
    match goal with |- context [init_partition ?x] => set (o0 := x) end.
    assert (Hnb0 : 0 < nb_block o0) by exact Hnb.
    assert (I1 : init_partition o0 = o0).
    { unfold init_partition. destruct (N.ltb_spec 0 (nb_block o0)) as [_|G]; [reflexivity|lia]. }
    assert (I2 : init_writer E o0 c = (o0, c)) by reflexivity.
    assert (I3 : push_from_cache E o0 c = (o0, c)).
    { unfold push_from_cache, cache_replay_blocked. change (r_oti o0) with (Some oti). cbv iota beta.
      destruct (N.eqb_spec (nb_block o0) 0) as [G|_]; [lia|]. reflexivity. }
    rewrite I1, I2. cbv iota beta. change (r_state o0) with Receiving. cbv iota beta.
    rewrite I3. cbv iota beta. change (r_state o0) with Receiving. cbv iota beta.
    change (r_oti o0) with (Some oti). cbv iota beta. reflexivity.
  Qed.

  (* ---------- log shapes ---------- *)
  Lemma wid_eqb_refl x : wid_eqb x x = true.
  Proof. unfold wid_eqb. rewrite N.eqb_refl, Nat.eqb_refl. reflexivity. Qed.
  Lemma wdata_app a c : wdata (a ++ c) = wdata a ++ wdata c.
  Proof. unfold wdata. apply flat_map_app. Qed.

  Lemma shape_write c c1 off off' dat ok :
    ShapeRecv c off -> c_log c1 = c_log c ++ [EvWrite w dat ok] ->
    take off content ++ dat = take off' content -> ShapeRecv c1 off'.
  Proof.
    intros (evs & H1 & H2 & H3) Hl Hd. exists (evs ++ [EvWrite w dat ok]). split; [|split].
    - rewrite Hl, H1, app_assoc. reflexivity.
    - rewrite forallb_app, H2. cbn [forallb is_write]. rewrite wid_eqb_refl. reflexivity.
    - rewrite wdata_app, H3. cbn [wdata flat_map]. rewrite app_nil_r. exact Hd.
  Qed.
  Lemma shape_done c c1 : ShapeRecv c L -> c_log c1 = c_log c ++ [EvComplete w] -> ShapeDone c1.
  Proof.
    intros (evs & H1 & H2 & H3) Hl. exists evs. split; [|split; [exact H2|]].
    - rewrite Hl, H1, app_assoc. reflexivity.
    - rewrite H3. apply take_all. unfold L. lia.
  Qed.
  Lemma shape_err c c1 off t : ShapeRecv c off -> c_log c1 = c_log c ++ [t] ->
    t = EvError w \/ t = EvInterrupted w -> ShapeErr c1.
  Proof.
    intros (evs & H1 & H2 & H3) Hl Ht. exists evs, off, t. split; [|split; [exact Ht|split; assumption]].
    rewrite Hl, H1, app_assoc. reflexivity.
  Qed.

  Lemma complete_res o c ws : r_writer o = Some (w, ws) ->
    exists o', complete o c = (o', logc c (EvComplete w)) /\ r_state o' = Completed.
  Proof. intros H. unfold complete. rewrite H. eexists. split; reflexivity. Qed.
  Lemma error_res o c ws i : r_writer o = Some (w, ws) ->
    exists o', error o i c = (o', logc c (if i then EvInterrupted w else EvError w))
               /\ r_state o' = (if i then Interrupted else Errored).
  Proof. intros H. unfold error. rewrite H. eexists. split; [reflexivity|]. destruct i; reflexivity. Qed.

  (* ---------- the block writer ---------- *)
  Lemma lenN_blk s : s < n -> lenN_ (blk_bytes s) = bln s /\ bof s + bln s = bof (s + 1) /\ bof (s + 1) <= L.
  Proof.
    intros Hs. destruct (PF blen_spec s Hs) as (B1 & B2 & B3). pose proof (PF boff_le (s + 1)) as B4.
    unfold blk_bytes. rewrite lenN_take, lenN_drop. fold L. split; [lia|]. split; [lia|exact B4].
  Qed.

  Lemma bw_write_ok off d bw c : BwInv off bw -> BlockInit off d -> bd_completed d = true ->
    let ok := e_write_ok E w (wcount c w) in
    let c1 := inc_wcount (logc c (EvWrite w (blk_bytes off) ok)) w in
    exists bw', bw_write E w off d bw c = ((if ok then BwOk bw' else BwErr), c1)
      /\ BwInv (off + 1) (mk_bw (bw_sbn bw') (bw_left bw') (bw_clen_left bw') (bw_cenc bw') (bw_inited bw')
                                (bw_dead bw') (bw_acc bw') (bw_md5ctx bw') None)
      /\ (bw_md5 bw' = None \/ (off + 1 = n /\ bw_md5 bw' = Some (e_md5 E content))).
  Proof.
    intros [W1 W2 W3 W4 W5] BI Hc. pose proof (bi_done _ _ BI Hc) as Hd. pose proof (bi_lt _ _ BI) as Hs.
    destruct (lenN_blk off Hs) as (B1 & B2 & B3).
    cbv zeta. unfold bw_write. rewrite W1, N.eqb_refl. cbn [negb]. rewrite Hd, W3.
    set (dat := if lenN_ (blk_bytes off) <? bw_left bw then blk_bytes off
                else firstn (N.to_nat (bw_left bw)) (blk_bytes off)).
    assert (Hdat : dat = blk_bytes off).
    { unfold dat. destruct (lenN_ (blk_bytes off) <? bw_left bw); [reflexivity|].
      change (firstn (N.to_nat (bw_left bw)) (blk_bytes off)) with (take (bw_left bw) (blk_bytes off)).
      apply take_all. rewrite B1, W2. lia. }
    clearbody dat. subst dat. unfold do_write.
    set (ok := e_write_ok E w (wcount c w)).
    assert (Hacc : bw_acc bw ++ blk_bytes off = take (bof (off + 1)) content).
    { rewrite W4. unfold blk_bytes. rewrite take_add, B2. reflexivity. }
    eexists. split; [destruct ok; reflexivity|]. split.
    - constructor; cbn [bw_sbn bw_left bw_cenc bw_acc bw_md5]; try reflexivity.
      + rewrite W2, B1. lia.
      + exact Hacc.
    - cbn [bw_md5]. destruct (N.eqb_spec (bw_left bw - lenN_ (blk_bytes off)) 0) as [Z|NZ]; cbn [andb]; [|left; exact W5].
      destruct (bw_md5ctx bw); [|left; exact W5]. right.
      assert (Hn : off + 1 = n).
      { destruct (N.lt_ge_cases (off + 1) n) as [G|G]; [|lia].
        destruct (PF boff_lt (off + 1) G) as [_ G2]. rewrite W2, B1 in Z. lia. }
      split; [exact Hn|]. rewrite Hacc, Hn. rewrite (PF boff_ge n) by lia.
      rewrite take_all by (unfold L; lia). reflexivity.
  Qed.

  Lemma acc_step s : s < n -> take (bof s) content ++ blk_bytes s = take (bof (s + 1)) content.
  Proof. intros Hs. destruct (lenN_blk s Hs) as (_ & B2 & _). unfold blk_bytes. rewrite take_add, B2. reflexivity. Qed.

  Lemma nth_tl {A} i (l : list A) d0 : nth i (tl l) d0 = nth (S i) l d0.
  Proof. destruct l; destruct i; reflexivity. Qed.

  (* ---------- outcomes ---------- *)
  Definition md5_good : Prop :=
    match md5 with Some want => eqb_bytes want (e_md5 E content) = true | None => True end.
  Definition NiceEnv : Prop := (forall i, e_write_ok E w i = true) /\ md5_good.
  Definition ErrPending (o : objrecv) (c : ctx) : Prop :=
    r_writer o = Some (w, WOpened) /\ exists off, ShapeRecv c off.

  Definition WOut (nice : Prop) (o : objrecv) (r : res * ctx) : Prop :=
    match r with
    | (ROk o', c') => (Struct o' c' /\ Mono o o') \/ (r_state o' = Completed /\ ShapeDone c')
                      \/ (r_state o' = Errored /\ ShapeErr c' /\ ~ nice)
    | (RErr o', c') => ErrPending o' c' /\ ~ nice
    end.

  Lemma wout_trans nice o o1 r : Mono o o1 -> WOut nice o1 r -> WOut nice o r.
  Proof.
    intros M. destruct r as [[o'|o'] c']; cbn [WOut]; [|tauto].
    intros [[S1 M1]|H]; [left|right; exact H]. split; [exact S1|]. intros s i H. apply M1, M, H.
  Qed.

  (* write_blocks started at the first block of the window: flushes every completed block in order *)
  Lemma wb_loop : forall fuel o c, Pre o c -> (length (r_blocks o) <= fuel)%nat ->
    WOut NiceEnv o (write_blocks E fuel (r_off o) o c).
  Proof.
    induction fuel as [|f IH]; intros o c [St Dy] Hlen.
    - cbn [write_blocks WOut]. left. split; [|intros s i H; exact H].
      split; [exact St|split; [exact Dy|]]. unfold Flushed. destruct (r_blocks o); [reflexivity|cbn in Hlen; lia].
    - cbn [write_blocks]. rewrite (st_writer _ St). destruct (dy_bw _ _ Dy) as (bw & Hbw & BW). rewrite Hbw.
      destruct (N.leb_spec (r_off o) (r_off o)) as [_|G]; [|lia]. cbn [andb].
      replace (r_off o - r_off o) with 0 by lia. change (N.to_nat 0) with 0%nat.
      destruct (r_blocks o) as [|d l] eqn:Hbl.
      { cbn [length N.of_nat]. destruct (N.ltb_spec 0 0) as [G|_]; [lia|]. cbn [WOut]. left.
        split; [|intros s i H; exact H]. split; [exact St|split; [exact Dy|]]. unfold Flushed. rewrite Hbl. reflexivity. }
      destruct (N.ltb_spec 0 (N.of_nat (length (d :: l)))) as [_|G]; [|cbn [length] in G; lia].
      cbn [nth]. destruct (bd_completed d) eqn:Hc; cbn [negb].
      2:{ cbn [WOut]. left. split; [|intros s i H; exact H]. split; [exact St|split; [exact Dy|]].
          unfold Flushed. rewrite Hbl. exact Hc. }
      assert (BI : BlockInit (r_off o) d).
      { pose proof (dy_blocks _ _ Dy 0%nat) as [B0 B1]. rewrite Hbl in B0, B1. cbn [nth] in B0, B1.
        replace (r_off o + N.of_nat 0) with (r_off o) in * by lia.
        destruct (bd_init d) eqn:Hi; [apply B1; reflexivity|rewrite B0 in Hc; [discriminate|reflexivity]]. }
      pose proof (dy_off _ _ Dy) as Hoff.
      destruct (bw_write_ok (r_off o) d bw c BW BI Hc) as (bw' & Hw & BW' & Hmd5). cbv zeta in Hw. rewrite Hw.
      set (c1 := inc_wcount (logc c (EvWrite w (blk_bytes (r_off o)) (e_write_ok E w (wcount c w)))) w).
      assert (Sh1 : ShapeRecv c1 (bof (r_off o + 1))).
      { eapply shape_write; [apply (dy_log _ _ Dy)|reflexivity|apply acc_step; exact Hoff]. }
      destruct (e_write_ok E w (wcount c w)) eqn:Hok.
      2:{ cbn [WOut]. split; [split; [apply (st_writer _ St)|eexists; exact Sh1]|].
          intros [N1 _]. rewrite N1 in Hok. discriminate. }
      cbn [Nat.eqb tl]. cbv beta iota zeta.
      set (o1 := set_blocks o l (r_off o + 1) (r_nb_alloc o - 1) (r_alloc_size o - bd_size d) (Some bw')).
      assert (St1 : Static o1) by (apply static_set_blocks; exact St).
      assert (Hleft : bw_left bw' = L - bof (r_off o + 1)) by (apply (bw_2 _ _ BW')).
      assert (M1 : Mono o o1).
      { intros s i [H|[H1 H2]]; [left; unfold o1, set_blocks; prj; lia|].
        destruct (N.eq_dec s (r_off o)) as [->|Ne]; [left; unfold o1, set_blocks; prj; lia|].
        right. unfold o1, set_blocks; prj. split; [lia|]. rewrite Hbl in H2.
        replace (N.to_nat (s - r_off o)) with (S (N.to_nat (s - (r_off o + 1)))) in H2 by lia. exact H2. }
      destruct (N.eqb_spec (bw_left bw') 0) as [Z|NZ].
      + (* the last block has been written *)
        assert (Hn : r_off o + 1 = n).
        { destruct (N.lt_ge_cases (r_off o + 1) n) as [G|G]; [|lia].
          destruct (PF boff_lt (r_off o + 1) G) as [_ G2]. lia. }
        assert (ShL : ShapeRecv c1 L).
        { rewrite Hn in Sh1. rewrite (PF boff_ge n) in Sh1 by lia. exact Sh1. }
        assert (Hw1 : r_writer o1 = Some (w, WOpened)) by apply (st_writer _ St1).
        set (valid := match r_md5 o1, bw_md5 bw' with Some want, Some got => eqb_bytes want got | _, _ => true end).
        destruct valid eqn:V.
        * destruct (complete_res o1 c1 _ Hw1) as (o2 & Hcp & Hst). rewrite Hcp. cbn [WOut]. right; left.
          split; [exact Hst|]. eapply shape_done; [exact ShL|reflexivity].
        * destruct (error_res o1 c1 _ false Hw1) as (o2 & Hcp & Hst). rewrite Hcp. cbn [WOut]. right; right.
          split; [exact Hst|]. split; [eapply shape_err; [exact ShL|reflexivity|left; reflexivity]|].
          intros [_ G]. unfold md5_good in G. unfold valid in V. rewrite (st_md5 _ St1) in V.
          destruct md5 as [want|]; [|discriminate].
          destruct Hmd5 as [H|[_ H]]; rewrite H in V; [discriminate|congruence].
      + assert (Hn : r_off o + 1 < n).
        { destruct (N.lt_ge_cases (r_off o + 1) n) as [G|G]; [exact G|].
          rewrite (PF boff_ge (r_off o + 1)) in Hleft by lia. lia. }
        assert (P1 : Pre o1 c1).
        { split; [exact St1|]. constructor; unfold o1, set_blocks; prj.
          - exists bw'. split; [reflexivity|]. destruct Hmd5 as [H|[H _]]; [|lia].
            destruct BW' as [V1 V2 V3 V4 V5]. cbn [bw_sbn bw_left bw_cenc bw_acc bw_md5] in *. constructor; assumption.
          - exact Hn.
          - lia.
          - intros i. pose proof (dy_blocks _ _ Dy (S i)) as B. rewrite Hbl in B. cbn [nth] in B.
            replace (r_off o + 1 + N.of_nat i) with (r_off o + N.of_nat (S i)) by lia. exact B.
          - pose proof (dy_alloc _ _ Dy) as A. rewrite Hbl in A. cbn [asum] in A.
            rewrite (bi_init _ _ BI) in A. rewrite (bi_size _ _ BI). lia.
          - exact Sh1. }
        change (r_off o + 1) with (r_off o1).
        apply (wout_trans _ o o1); [exact M1|]. apply IH; [exact P1|].
        unfold o1, set_blocks; prj. cbn [length] in Hlen. lia.
  Qed.

  Definition bad (o : objrecv) : Prop := r_state o = Errored \/ r_state o = Interrupted.
  Definition POut (nice : Prop) (o : objrecv) (s i : N) (r : res * ctx) : Prop :=
    match r with
    | (ROk o', c') => (Struct o' c' /\ Mono o o' /\ LiveOne s i o') \/ (r_state o' = Completed /\ ShapeDone c')
                      \/ (bad o' /\ ShapeErr c' /\ ~ nice)
    | (RErr o', c') => (exists ws, r_writer o' = Some (w, ws)) /\ (exists off, ShapeRecv c' off) /\ ~ nice
    end.
  Lemma pout_weaken (nice nice' : Prop) o s i r : (nice' -> nice) -> POut nice o s i r -> POut nice' o s i r.
  Proof. intros H. destruct r as [[o'|o'] c']; cbn [POut]; tauto. Qed.
  Lemma wout_pout nice o o1 s i r : Mono o o1 -> LiveOne s i o1 -> WOut nice o1 r -> POut nice o s i r.
  Proof.
    intros M Lv. destruct r as [[o'|o'] c']; cbn [WOut POut].
    - intros [[S1 M1]|[H|(H1 & H2 & H3)]]; [left|right; left; exact H|right; right].
      + split; [exact S1|]. split; [intros s' i' H; apply M1, M, H|apply M1, Lv].
      + split; [left; exact H1|]. split; assumption.
    - intros [[H1 H2] H3]. split; [eexists; exact H1|]. split; assumption.
  Qed.

  Lemma p2b_tail o c sbn esi payload b1 nb sz :
    Struct o c -> r_off o <= sbn -> sbn < n ->
    let idx := N.to_nat (sbn - r_off o) in
    (idx < length (r_blocks o))%nat ->
    let d := nth idx (r_blocks o) bdec_new in
    bd_completed d = false -> BlockInit sbn b1 -> bd_completed b1 = false ->
    (bd_init d = true -> b1 = d /\ sz = r_alloc_size o) ->
    (bd_init d = false -> sz = r_alloc_size o + bln sbn) ->
    esi < kof sbn -> payload = sym_bytes (sof sbn + esi) ->
    POut NiceEnv o sbn esi
      (let (b2, pan) := bd_push E (r_toi o) oti sbn esi payload b1 in
       let c1 := if pan then panicc c else c in
       let o1 := set_blocks o (upd_nthb idx (fun _ => b2) (r_blocks o)) (r_off o) nb sz (r_bw o) in
       if bd_completed b2 then write_blocks E (S (length (r_blocks o1))) sbn o1 c1 else (ROk o1, c1)).
  Proof.
    intros (St & Dy & Fl) Hge Hlt idx Hidx d Hdc BI1 Hc1 Hinit Hnew Hesi Hpay.
    destruct (bd_push_ok (r_toi o) sbn esi payload b1 BI1 Hc1 Hesi Hpay) as (Q1 & Q2 & Q3 & Q4).
    destruct (bd_push E (r_toi o) oti sbn esi payload b1) as [b2 pan]. cbn [fst snd] in Q1, Q2, Q3, Q4. subst pan.
    cbv zeta.
    set (o1 := set_blocks o (upd_nthb idx (fun _ => b2) (r_blocks o)) (r_off o) nb sz (r_bw o)).
    assert (Hsbn : r_off o + N.of_nat idx = sbn) by (unfold idx; lia).
    assert (P1 : Pre o1 c).
    { split; [apply static_set_blocks; exact St|]. constructor; unfold o1, set_blocks; prj.
      - exact (dy_bw _ _ Dy).
      - exact (dy_off _ _ Dy).
      - rewrite length_upd. exact (dy_nb _ _ Dy).
      - intros i. destruct (Nat.eq_dec i idx) as [->|Ne].
        + rewrite nth_upd_eq by exact Hidx. rewrite Hsbn. split; [rewrite (bi_init _ _ Q2); discriminate|intros _; exact Q2].
        + rewrite nth_upd_ne by exact Ne. apply (dy_blocks _ _ Dy).
      - pose proof (dy_alloc _ _ Dy) as A. destruct (bd_init d) eqn:Hi.
        + destruct (Hinit eq_refl) as [_ ->]. rewrite asum_upd_same; [exact A|]. fold d. rewrite Hi. apply (bi_init _ _ Q2).
        + rewrite (Hnew eq_refl). rewrite asum_upd_new; [rewrite Hsbn; lia|exact Hidx|exact Hi|apply (bi_init _ _ Q2)].
      - exact (dy_log _ _ Dy). }
    assert (M1 : Mono o o1).
    { intros s i [H|[H1 H2]]; [left; exact H|]. right. split; [exact H1|]. unfold o1, set_blocks; prj.
      destruct (Nat.eq_dec (N.to_nat (s - r_off o)) idx) as [Eq|Ne].
      - rewrite Eq in *. rewrite nth_upd_eq by exact Hidx. fold d in H2. cbv zeta in H2. destruct H2 as [H2 H3].
        split; [apply (bi_init _ _ Q2)|]. right. destruct H3 as [H3|H3]; [congruence|].
        apply Q4. destruct (Hinit H2) as [-> _]. exact H3.
      - rewrite nth_upd_ne by exact Ne. exact H2. }
    assert (Lv : LiveOne sbn esi o1).
    { right. split; [exact Hge|]. unfold o1, set_blocks; prj. fold idx. rewrite nth_upd_eq by exact Hidx.
      split; [apply (bi_init _ _ Q2)|right; exact Q3]. }
    destruct (bd_completed b2) eqn:Hc2.
    2:{ cbn [POut]. left. split; [|split; [exact M1|exact Lv]]. destruct P1 as [S1 D1]. split; [exact S1|split; [exact D1|]].
        unfold Flushed, o1, set_blocks; prj. destruct (Nat.eq_dec 0 idx) as [Eq|Ne].
        - rewrite <- Eq in *. rewrite nth_upd_eq by exact Hidx. exact Hc2.
        - rewrite nth_upd_ne by exact Ne. exact Fl. }
    destruct (N.eq_dec sbn (r_off o)) as [Eq|Ne].
    - (* the first block of the window completed: flush *)
      rewrite Eq. change (r_off o) with (r_off o1) at 2.
      apply (wout_pout _ o o1); [exact M1|rewrite <- Eq; exact Lv|]. apply wb_loop; [exact P1|lia].
    - (* a later block completed: nothing can be written yet *)
      cbn [write_blocks]. destruct P1 as [S1 D1]. rewrite (st_writer _ S1).
      destruct (dy_bw _ _ D1) as (bw & Hbw & BW). rewrite Hbw.
      assert (R1 : r_off o1 = r_off o) by reflexivity. rewrite R1.
      assert (R2 : length (r_blocks o1) = length (r_blocks o)) by (unfold o1, set_blocks; prj; apply length_upd).
      rewrite R2.
      destruct (N.leb_spec (r_off o) sbn) as [_|G]; [|lia].
      destruct (N.ltb_spec (sbn - r_off o) (N.of_nat (length (r_blocks o)))) as [_|G]; [|unfold idx in Hidx; lia].
      cbn [andb]. fold idx.
      assert (R3 : nth idx (r_blocks o1) bdec_new = b2) by (unfold o1, set_blocks; prj; apply nth_upd_eq; exact Hidx).
      rewrite R3, Hc2. cbn [negb]. unfold bw_write. rewrite (bw_1 _ _ BW), R1.
      destruct (N.eqb_spec (r_off o) sbn) as [G|_]; [congruence|]. cbn [negb POut].
      left. split; [|split; [exact M1|exact Lv]]. split; [exact S1|split; [exact D1|]].
      unfold Flushed, o1, set_blocks; prj. rewrite nth_upd_ne; [exact Fl|]. unfold idx. lia.
  Qed.

  Lemma pout_mono nice o o0 s i r : Mono o o0 -> POut nice o0 s i r -> POut nice o s i r.
  Proof.
    intros M. destruct r as [[o'|o'] c']; cbn [POut]; [|tauto].
    intros [(S1 & M1 & L1)|H]; [left|right; exact H]. split; [exact S1|]. split; [|exact L1].
    intros s' i' H. apply M1, M, H.
  Qed.

  (* a packet is genuine for (oti, content) at (sbn, esi) *)
  Definition genuine_at (p : apkt) (sbn esi : N) : Prop :=
    a_pid_with FNoCode p = Some (sbn, esi, None) /\ sbn < n /\ esi < kof sbn
    /\ a_payload p = sym_bytes (sof sbn + esi).

  Definition Nice2 : Prop := NiceEnv /\ L <= max /\ n <= 4097.

  Lemma p2b o c p sbn esi : Struct o c -> genuine_at p sbn esi ->
    POut Nice2 o sbn esi (push_to_block2 E p o c).
  Proof.
    intros S0 (Hpid & Hlt & Hesi & Hpay). pose proof S0 as (St & Dy & Fl).
    unfold push_to_block2. rewrite (st_oti _ St), (st_tlen _ St), Hfec, Hpid.
    destruct (N.eqb_spec L 0) as [G|_]; [lia|].
    destruct (N.ltb_spec sbn (r_off o)) as [Hold|Hge].
    { cbn [POut]. left. split; [exact S0|]. split; [intros ? ? H; exact H|left; exact Hold]. }
    assert (Hnb : nb_blocks_of oti L = n) by (unfold nb_blocks_of; fold b e; rewrite Hpart; reflexivity).
    rewrite Hnb. destruct (N.leb_spec n sbn) as [G|_]; [lia|].
    set (len := N.of_nat (length (r_blocks o))). set (off := sbn - r_off o).
    destruct ((len <=? off) && (4096 <? off)) eqn:X.
    { cbn [POut]. split; [exists WOpened; apply (st_writer _ St)|]. split; [eexists; apply (dy_log _ _ Dy)|].
      intros (_ & _ & Hn). apply andb_true_iff in X. destruct X as [_ X]. apply N.ltb_lt in X. unfold off in X. lia. }
    cbv zeta.
    set (bl0 := if len <=? off then r_blocks o ++ repeat bdec_new (N.to_nat off + 1 - length (r_blocks o)) else r_blocks o).
    assert (F : (forall i, nth i bl0 bdec_new = nth i (r_blocks o) bdec_new)
                /\ (forall s, asum s bl0 = asum s (r_blocks o))
                /\ (N.to_nat off < length bl0)%nat /\ (length (r_blocks o) <= length bl0)%nat).
    { unfold bl0. destruct (N.leb_spec len off) as [G|G]; unfold len in G.
      - split; [intros i; apply nth_app_new|]. split; [intros s; apply asum_app_new|].
        rewrite app_length, repeat_length. lia.
      - split; [reflexivity|]. split; [reflexivity|]. lia. }
    destruct F as (F1 & F2 & F3 & F4). clearbody bl0.
    set (o0 := set_blocks o bl0 (r_off o) (r_nb_alloc o) (r_alloc_size o) (r_bw o)).
    assert (S0' : Struct o0 c).
    { split; [apply static_set_blocks; exact St|]. split.
      - constructor; unfold o0, set_blocks; prj.
        + exact (dy_bw _ _ Dy).
        + exact (dy_off _ _ Dy).
        + pose proof (dy_nb _ _ Dy). lia.
        + intros i. rewrite F1. apply (dy_blocks _ _ Dy).
        + rewrite F2. exact (dy_alloc _ _ Dy).
        + exact (dy_log _ _ Dy).
      - unfold Flushed, o0, set_blocks; prj. rewrite F1. exact Fl. }
    assert (M0 : Mono o o0).
    { intros s i [H|[H1 H2]]; [left; exact H|right; split; [exact H1|]]. unfold o0, set_blocks; prj. rewrite F1. exact H2. }
    set (d := nth (N.to_nat off) bl0 bdec_new).
    assert (Bd : BlockOk sbn d).
    { unfold d. rewrite F1. replace sbn with (r_off o + N.of_nat (N.to_nat off)) at 1 by (unfold off; lia).
      apply (dy_blocks _ _ Dy). }
    destruct (bd_completed d) eqn:Hc.
    { cbn [POut]. left. split; [exact S0'|]. split; [exact M0|]. right. split; [exact Hge|].
      unfold o0, set_blocks; prj. fold off. fold d. split; [|left; exact Hc].
      destruct (bd_init d) eqn:Hi; [reflexivity|]. destruct Bd as [B0 _]. rewrite B0 in Hc by exact Hi. discriminate. }
    destruct (bd_init d) eqn:Hi.
    - cbv iota beta.
      apply (pout_weaken NiceEnv); [intros H; apply H|]. apply (pout_mono _ o o0); [exact M0|].
      assert (BId : BlockInit sbn d) by (destruct Bd as [_ B1]; apply B1; exact Hi).
      refine (p2b_tail o0 c sbn esi (a_payload p) d (r_nb_alloc o) (r_alloc_size o) S0' Hge Hlt F3 Hc BId Hc _ _ Hesi Hpay).
      + intros _. split; reflexivity.
      + intros G. change (bd_init d = false) in G. congruence.
    - rewrite (st_al _ St), (st_as _ St), (st_nal _ St).
      change (if sbn <? nal then al else as_) with (kof sbn). fold e.
      rewrite (PF bl64 Hu64 sbn Hlt).
      destruct ((2 <=? r_nb_alloc o) && (r_max o <? r_alloc_size o + bln sbn)) eqn:Y.
      { cbn [POut]. split; [exists WOpened; apply (st_writer _ St)|]. split; [eexists; apply (dy_log _ _ Dy)|].
        intros (_ & Hm & _). apply andb_true_iff in Y. destruct Y as [_ Y]. apply N.ltb_lt in Y.
        rewrite (st_max _ St) in Y. pose proof (dy_alloc _ _ Dy) as A. rewrite <- F2 in A.
        pose proof (asum_upd_new (N.to_nat off) (fun x => mk_bdec false true 0 0 [] None false) bl0 (r_off o) F3 Hi eq_refl) as U.
        pose proof (asum_le_L (upd_nthb (N.to_nat off) (fun x => mk_bdec false true 0 0 [] None false) bl0) (r_off o)) as B.
        replace (r_off o + N.of_nat (N.to_nat off)) with sbn in U by (unfold off; lia). lia. }
      unfold bd_init_block. rewrite Hi, Hfec. cbv iota beta.
      apply (pout_weaken NiceEnv); [intros H; apply H|]. apply (pout_mono _ o o0); [exact M0|].
      set (b1 := mk_bdec (bd_completed d) true (bln sbn) (kof sbn) [] None true).
      assert (BI1 : BlockInit sbn b1).
      { constructor; unfold b1; cbn [bd_init bd_k bd_size bd_alloc bd_shards bd_completed bd_data length map]; try reflexivity; try assumption.
        - constructor.
        - constructor.
        - intros _. split; [reflexivity|]. pose proof (PF k_pos sbn). cbn [N.of_nat]. lia.
        - rewrite Hc. discriminate. }
      refine (p2b_tail o0 c sbn esi (a_payload p) b1 (r_nb_alloc o + 1) (r_alloc_size o + bln sbn) S0' Hge Hlt F3 Hc BI1 Hc _ _ Hesi Hpay).
      + intros G. change (bd_init d = true) in G. congruence.
      + intros _. reflexivity.
  Qed.

  (* the close-object flag is harmless when it arrives with (or after) the packet that completes the
     object: it must not leave any receiving successor state *)
  Definition FlagOk (o : objrecv) (p : apkt) (s i : N) : Prop :=
    a_close_obj p = true -> forall o1 c1, Struct o1 c1 -> Mono o o1 -> LiveOne s i o1 -> False.

  Lemma ptb o c p sbn esi : Struct o c -> genuine_at p sbn esi ->
    POut (Nice2 /\ FlagOk o p sbn esi) o sbn esi (push_to_block E p o c).
  Proof.
    intros S0 G. pose proof (p2b o c p sbn esi S0 G) as H. unfold push_to_block.
    destruct (push_to_block2 E p o c) as [[o1|o1] c1].
    2:{ apply (pout_weaken Nice2); [tauto|exact H]. }
    destruct (a_close_obj p) eqn:Hcl; [|apply (pout_weaken Nice2); [tauto|exact H]].
    cbn [POut] in H. destruct H as [(S1 & M1 & L1)|[(H1 & H2)|(H1 & H2 & H3)]].
    - pose proof S1 as (St1 & Dy1 & _). rewrite (st_state _ St1), (st_writer _ St1).
      destruct (error_res o1 c1 _ true (st_writer _ St1)) as (o2 & Hcp & Hst). rewrite Hcp. cbn [POut].
      right; right. split; [right; exact Hst|]. split; [|intros [_ G']; exact (G' Hcl o1 c1 S1 M1 L1)].
      eapply shape_err; [apply (dy_log _ _ Dy1)|reflexivity|right; reflexivity].
    - rewrite H1. cbn [POut]. right; left. split; assumption.
    - cbn [POut]. destruct H1 as [H1|H1]; rewrite H1; right; right; (split; [|split; [exact H2|tauto]]);
        [left|right]; exact H1.
  Qed.

  Definition StepOut (nice : Prop) (o : objrecv) (s i : N) (r : objrecv * ctx) : Prop :=
    let (o', c') := r in
    (Struct o' c' /\ Mono o o' /\ LiveOne s i o') \/ (r_state o' = Completed /\ ShapeDone c')
    \/ (bad o' /\ ShapeErr c' /\ ~ nice).

  Lemma step o c p sbn esi : Struct o c -> genuine_at p sbn esi ->
    StepOut (Nice2 /\ FlagOk o p sbn esi) o sbn esi (or_push E p o c).
  Proof.
    intros S0 G. pose proof S0 as (St & Dy & _).
    rewrite or_push_static; [|exact St|unfold nb_block; exact (dy_nb _ _ Dy)].
    pose proof (ptb o c p sbn esi S0 G) as H.
    destruct (push_to_block E p o c) as [[o1|o1] c1]; cbn [POut StepOut] in *; [exact H|].
    destruct H as ((ws & Hw) & (off & Sh) & Hn).
    destruct (error_res o1 c1 _ false Hw) as (o2 & Hcp & Hst). rewrite Hcp.
    right; right. split; [left; exact Hst|]. split; [|exact Hn].
    eapply shape_err; [exact Sh|reflexivity|left; reflexivity].
  Qed.

  (* ---------- runs ---------- *)
  Definition run (pkts : list apkt) (oc : objrecv * ctx) : objrecv * ctx :=
    fold_left (fun oc p => or_push E p (fst oc) (snd oc)) pkts oc.
  Definition pid_of (p : apkt) : N * N :=
    match a_pid_with FNoCode p with Some (s, i, _) => (s, i) | None => (0, 0) end.
  Definition genuine (p : apkt) : Prop := genuine_at p (fst (pid_of p)) (snd (pid_of p)).
  Definition genuineb (p : apkt) : bool :=
    match a_pid_with FNoCode p with
    | Some (s, i, None) => (s <? n) && (i <? kof s) && eqb_bytes (a_payload p) (sym_bytes (sof s + i))
    | _ => false
    end.
  Lemma genuineb_spec p : genuineb p = true -> genuine p.
  Proof.
    unfold genuineb, genuine, genuine_at, pid_of.
    destruct (a_pid_with FNoCode p) as [[[s i] [x|]]|]; try discriminate. cbn [fst snd].
    intros H. apply andb_true_iff in H. destruct H as [H H3]. apply andb_true_iff in H. destruct H as [H1 H2].
    apply N.ltb_lt in H1. apply N.ltb_lt in H2. apply eqb_bytes_eq in H3. auto.
  Qed.

  Lemma run_closed pkts : forall o c, r_state o <> Receiving -> run pkts (o, c) = (o, c).
  Proof.
    induction pkts as [|p pkts IH]; intros o c H; [reflexivity|].
    unfold run. cbn [fold_left fst snd].
    assert (R : or_push E p o c = (o, c)).
    { unfold or_push. destruct (r_state o); [congruence|reflexivity|reflexivity|reflexivity]. }
    rewrite R. apply IH. exact H.
  Qed.

  (* T2 (safety): whatever genuine packets are pushed, in whatever order and multiplicity *)
  Definition RunOut (r : objrecv * ctx) : Prop :=
    let (o', c') := r in
    Struct o' c' \/ (r_state o' = Completed /\ ShapeDone c') \/ (bad o' /\ ShapeErr c').

  Lemma run_safe pkts : forall o c, Struct o c -> Forall genuine pkts -> RunOut (run pkts (o, c)).
  Proof.
    induction pkts as [|p pkts IH]; intros o c S0 G; [left; exact S0|].
    inversion G as [|? ? Gp Gr]; subst. unfold run. cbn [fold_left fst snd].
    pose proof (step o c p _ _ S0 Gp) as H. destruct (or_push E p o c) as [o1 c1]. cbn [StepOut] in H.
    destruct H as [(S1 & _)|[(H1 & H2)|(H1 & H2 & _)]].
    - apply IH; assumption.
    - fold (run pkts (o1, c1)). rewrite run_closed by congruence. right; left. split; assumption.
    - fold (run pkts (o1, c1)). rewrite run_closed by (destruct H1; congruence). right; right. split; assumption.
  Qed.

  (* T1 (delivery) *)
  Definition LiveAll (seen : list (N * N)) (o : objrecv) : Prop := forall s i, In (s, i) seen -> LiveOne s i o.

  Definition covered (l : list (N * N)) : Prop := forall s i, s < n -> i < kof s -> In (s, i) l.

  Lemma struct_not_covered o c seen : Struct o c -> LiveAll seen o -> covered seen -> False.
  Proof.
    intros (St & Dy & Fl) Lv Cov. pose proof (dy_off _ _ Dy) as Hoff.
    set (d := nth 0 (r_blocks o) bdec_new).
    assert (A : forall i, i < kof (r_off o) -> bd_init d = true /\ has_esi i (bd_shards d) = true).
    { intros i Hi. destruct (Lv _ _ (Cov _ _ Hoff Hi)) as [H|[_ H]]; [lia|].
      replace (N.to_nat (r_off o - r_off o)) with 0%nat in H by lia. fold d in H. cbv zeta in H.
      destruct H as [H1 [H2|H2]]; [|split; assumption]. unfold Flushed in Fl. fold d in Fl. congruence. }
    pose proof (PF k_pos (r_off o)) as Kp. destruct (A 0 Kp) as [Hi _].
    pose proof (dy_blocks _ _ Dy 0%nat) as [_ B]. fold d in B. replace (r_off o + N.of_nat 0) with (r_off o) in B by lia.
    specialize (B Hi). destruct (bi_open _ _ B Fl) as [_ Hlen].
    assert (kof (r_off o) <= N.of_nat (length (map fst (bd_shards d)))).
    { apply count_all_le. intros j Hj. apply has_esi_in. apply A. exact Hj. }
    rewrite map_length in H. lia.
  Qed.

  (* a packet carrying the close-object flag arrives only once the object is recoverable *)
  Definition close_ok (seen : list (N * N)) (pkts : list apkt) : Prop :=
    forall pre p post, pkts = pre ++ p :: post -> a_close_obj p = true ->
      covered (map pid_of (pre ++ [p]) ++ seen).

  Lemma run_live pkts : forall o c seen, Struct o c -> LiveAll seen o -> Nice2 ->
    Forall genuine pkts -> close_ok seen pkts ->
    let (o', c') := run pkts (o, c) in
    (Struct o' c' /\ LiveAll (List.rev (map pid_of pkts) ++ seen) o') \/ (r_state o' = Completed /\ ShapeDone c').
  Proof.
    induction pkts as [|p pkts IH]; intros o c seen S0 Lv Nc G Cl; [left; split; assumption|].
    inversion G as [|? ? Gp Gr]; subst. unfold run. cbn [fold_left fst snd].
    pose proof (step o c p _ _ S0 Gp) as H. destruct (or_push E p o c) as [o1 c1]. cbn [StepOut] in H.
    assert (LvP : forall o2, Mono o o2 -> LiveOne (fst (pid_of p)) (snd (pid_of p)) o2 -> LiveAll (pid_of p :: seen) o2).
    { intros o2 M2 L2 s i [Eq|Hin]; [rewrite Eq in L2; exact L2|apply M2, Lv, Hin]. }
    destruct H as [(S1 & M1 & L1)|[(H1 & H2)|(_ & _ & H3)]].
    - fold (run pkts (o1, c1)).
      specialize (IH o1 c1 (pid_of p :: seen) S1 (LvP o1 M1 L1) Nc Gr).
      assert (Cl1 : close_ok (pid_of p :: seen) pkts).
      { intros pre q post Eq Hq s i Hs Hi. specialize (Cl (p :: pre) q post). rewrite Eq in Cl.
        specialize (Cl eq_refl Hq s i Hs Hi). cbn [app map] in Cl. destruct Cl as [Cl|Cl].
        - apply in_or_app. right. left. exact Cl.
        - apply in_app_or in Cl. apply in_or_app. destruct Cl as [Cl|Cl]; [left; exact Cl|right; right; exact Cl]. }
      specialize (IH Cl1).
      destruct (run pkts (o1, c1)) as [o' c']. cbn [map List.rev]. rewrite <- app_assoc. exact IH.
    - fold (run pkts (o1, c1)). rewrite run_closed by congruence. right. split; assumption.
    - exfalso. apply H3. split; [exact Nc|]. intros Hcl o2 c2 S2 M2 L2.
      apply (struct_not_covered o2 c2 (pid_of p :: seen) S2 (LvP o2 M2 L2)).
      intros s i Hs Hi. specialize (Cl [] p pkts eq_refl Hcl s i Hs Hi). exact Cl.
  Qed.

  Theorem deliver pkts o c : Struct o c -> Nice2 -> Forall genuine pkts ->
    close_ok [] pkts -> covered (map pid_of pkts) ->
    let (o', c') := run pkts (o, c) in r_state o' = Completed /\ ShapeDone c'.
  Proof.
    intros S0 Nc G Cl Cov. pose proof (run_live pkts o c [] S0 (fun s i H => match H with end) Nc G Cl) as H.
    destruct (run pkts (o, c)) as [o' c']. destruct H as [(S1 & Lv)|H]; [exfalso|exact H].
    apply (struct_not_covered o' c' _ S1 Lv). intros s i Hs Hi. rewrite app_nil_r. apply in_rev. rewrite rev_involutive.
    apply Cov; assumption.
  Qed.

  (* ---------- from the shape of the log to the vocabulary of Spec/RecvSpec ---------- *)
  Lemma wid_eqb_eq x y : wid_eqb x y = true -> x = y.
  Proof.
    unfold wid_eqb. intros H. apply andb_true_iff in H. destruct H as [H1 H2].
    apply N.eqb_eq in H1. apply Nat.eqb_eq in H2. destruct x, y. cbn [fst snd] in *. congruence.
  Qed.
  Lemma calls_of_app w' a c : calls_of w' (a ++ c) = calls_of w' a ++ calls_of w' c.
  Proof. unfold calls_of. apply flat_map_app. Qed.
  Lemma written_app a c : written (a ++ c) = written a ++ written c.
  Proof. unfold written. apply flat_map_app. Qed.
  Lemma completed_app a c : completed (a ++ c) = completed a || completed c.
  Proof. unfold completed. apply existsb_app. Qed.
  Lemma failed_app a c : failed (a ++ c) = failed a || failed c.
  Proof. unfold failed. apply existsb_app. Qed.

  Lemma calls_writes_mine evs : forallb is_write evs = true ->
    written (calls_of w evs) = wdata evs /\ completed (calls_of w evs) = false /\ failed (calls_of w evs) = false.
  Proof.
    induction evs as [|ev evs IH]; cbn [forallb]; intros H; [repeat split|].
    apply andb_true_iff in H. destruct H as [H1 H2]. destruct (IH H2) as (I1 & I2 & I3).
    destruct ev as [| |w' dat ok| | |]; cbn [is_write] in H1; try discriminate.
    change (EvWrite w' dat ok :: evs) with ([EvWrite w' dat ok] ++ evs).
    rewrite calls_of_app, written_app, completed_app, failed_app, wdata_app, I1, I2, I3.
    cbn [calls_of flat_map]. rewrite H1. cbn [app written completed failed flat_map existsb wdata].
    rewrite !app_nil_r. destruct ok; repeat split.
  Qed.
  Lemma calls_writes_other w' evs : forallb is_write evs = true -> wid_eqb w' w = false -> calls_of w' evs = [].
  Proof.
    intros H Hw. induction evs as [|ev evs IH]; [reflexivity|]. cbn [forallb] in H.
    apply andb_true_iff in H. destruct H as [H1 H2].
    destruct ev as [| |w2 dat ok| | |]; cbn [is_write] in H1; try discriminate.
    apply wid_eqb_eq in H1. subst w2. cbn [calls_of flat_map]. rewrite Hw. cbn [app]. apply IH. exact H2.
  Qed.

  Definition SafeLog (log : list wev) : Prop :=
    forall w', is_prefix (written (calls_of w' log)) content = true
               /\ P_C03_writer content true (calls_of w' log) = true.

  Lemma safe_shape evs off T : forallb is_write evs = true -> wdata evs = take off content ->
    T = [] \/ (T = [EvComplete w] /\ wdata evs = content) \/ T = [EvError w] \/ T = [EvInterrupted w] ->
    SafeLog (hdr ++ evs ++ T).
  Proof.
    intros H1 H2 HT w'. rewrite !calls_of_app.
    destruct (wid_eqb w' w) eqn:Hw.
    - apply wid_eqb_eq in Hw. subst w'. destruct (calls_writes_mine evs H1) as (I1 & I2 & I3).
      unfold hdr. cbn [calls_of flat_map]. rewrite wid_eqb_refl. cbn [app].
      change (CallOpen true :: calls_of w evs ++ calls_of w T) with ([CallOpen true] ++ calls_of w evs ++ calls_of w T).
      unfold P_C03_writer. rewrite !written_app, !completed_app, !failed_app, I1, I2, I3.
      cbn [written completed failed flat_map existsb app orb].
      destruct HT as [->|[[-> Hc]|[->| ->]]]; cbn [calls_of flat_map]; rewrite ?wid_eqb_refl;
        cbn [app written completed failed flat_map existsb orb negb andb]; rewrite ?app_nil_r.
      + rewrite H2. split; [apply is_prefix_take|reflexivity].
      + rewrite Hc. rewrite eqb_bytes_refl. split; [|reflexivity].
        rewrite <- (take_all (lenN_ content) content) at 1 by lia. apply is_prefix_take.
      + rewrite H2. split; [apply is_prefix_take|reflexivity].
      + rewrite H2. split; [apply is_prefix_take|reflexivity].
    - rewrite (calls_writes_other w' evs H1 Hw).
      assert (Hh : calls_of w' hdr = []) by (unfold hdr; cbn [calls_of flat_map]; rewrite Hw; reflexivity).
      assert (Ht : calls_of w' T = []).
      { destruct HT as [->|[[-> _]|[->| ->]]]; cbn [calls_of flat_map]; rewrite ?Hw; reflexivity. }
      rewrite Hh, Ht. cbn [app]. split; reflexivity.
  Qed.

  Lemma runout_safe r : RunOut r -> SafeLog (c_log (snd r)).
  Proof.
    destruct r as [o' c']. cbn [RunOut snd].
    intros [(_ & Dy & _)|[(_ & evs & H1 & H2 & H3)|(_ & evs & off & t & H1 & Ht & H2 & H3)]].
    - destruct (dy_log _ _ Dy) as (evs & H1 & H2 & H3). rewrite H1, <- (app_nil_r evs).
      eapply safe_shape; [exact H2|exact H3|left; reflexivity].
    - rewrite H1. apply (safe_shape evs L); [exact H2|rewrite H3; symmetry; apply take_all; unfold L; lia|].
      right; left. split; [reflexivity|exact H3].
    - rewrite H1. apply (safe_shape evs off); [exact H2|exact H3|]. right; right. destruct Ht as [->| ->]; [left|right]; reflexivity.
  Qed.

  Lemma done_exact c m : ShapeDone c -> complete_exact content (m, calls_of w (c_log c)) = true.
  Proof.
    intros (evs & H1 & H2 & H3). rewrite H1. unfold complete_exact. cbn [snd].
    rewrite !calls_of_app. destruct (calls_writes_mine evs H2) as (I1 & I2 & I3).
    unfold hdr. cbn [calls_of flat_map]. rewrite wid_eqb_refl. cbn [app].
    change (CallOpen true :: calls_of w evs ++ [CallComplete]) with ([CallOpen true] ++ calls_of w evs ++ [CallComplete]).
    rewrite !written_app, !completed_app, !failed_app, I1, I2, I3, H3.
    cbn [written completed failed flat_map existsb app orb negb andb]. rewrite app_nil_r. apply eqb_bytes_refl.
  Qed.

  (* ---------- the state right after the FDT entry has been attached ---------- *)
  Lemma attach_struct fid files inst f :
    w = (toi, 0%nat) ->
    find (fun f => ff_toi f =? toi) files = Some f ->
    ff_cenc f = CNull -> match ff_oti f with Some x => Some x | None => inst end = Some oti ->
    ff_tlen f = L -> ff_md5 f = md5 ->
    e_builder E toi 0%nat = WStore -> e_open_ok E w = true ->
    exists o0 c0, or_attach E fid files inst (or_new toi max) ctx0 = (true, o0, c0) /\ Struct o0 c0.
  Proof.
    intros Hw Hfind Hce Hoti Htl Hmd5 Hbld Hopen.
    unfold or_attach, or_new. prj. rewrite Hfind, Hoti, Htl, Hce, Hmd5. cbv iota beta.
    unfold init_partition at 1. unfold nb_block at 1. prj.
    change (0 <? 0 + N.of_nat (length (@nil bdec))) with false. cbv iota beta. fold b e. rewrite Hpart. cbv iota beta.
    unfold init_writer. prj. change (ncalls ctx0 toi) with 0%nat. rewrite Hbld. cbv iota beta zeta.
    rewrite <- Hw, Hopen. cbn [negb]. destruct (N.eqb_spec L 0) as [G|HL0]; [lia|]. prj.
    d48_skip HL0.
    match goal with |- context [push_from_cache E ?x ?y] => set (o3 := x); set (c3 := y) end.
    pose proof (PF n_pos) as Hn.
    set (m := N.to_nat (N.min n 2048)) in *.
    assert (Hm : (0 < m)%nat) by (unfold m; lia).
    assert (Hlen : length (r_blocks o3) = m) by (unfold o3; prj; apply repeat_length).
    assert (Hnb : 0 < nb_block o3) by (unfold nb_block; rewrite Hlen; unfold o3; prj; lia).
    assert (I3 : push_from_cache E o3 c3 = (o3, c3)).
    { unfold push_from_cache, cache_replay_blocked. change (r_oti o3) with (Some oti). cbv iota beta.
      destruct (N.eqb_spec (nb_block o3) 0) as [G|_]; [lia|]. reflexivity. }
    assert (Hn0 : nth 0 (r_blocks o3) bdec_new = bdec_new) by (unfold o3; prj; apply nth_repeat).
    assert (I4 : write_blocks E (S (length (r_blocks o3))) 0 o3 c3 = (ROk o3, c3)).
    { cbn [write_blocks]. change (r_writer o3) with (Some (w, WOpened)). cbv iota beta.
      change (r_bw o3) with (Some (bw_new L (ff_clen f) CNull (match md5 with Some _ => e_md5_enabled E | None => false end))).
      cbv iota beta. change (r_off o3) with 0.
      destruct (N.leb_spec 0 0) as [_|G]; [|lia]. replace (0 - 0) with 0 by lia.
      destruct (N.ltb_spec 0 (N.of_nat (length (r_blocks o3)))) as [_|G]; [|lia]. cbn [andb].
      change (N.to_nat 0) with 0%nat. rewrite Hn0. reflexivity. }
    rewrite I3, I4. cbv iota beta. rewrite I3. exists o3, c3. split; [reflexivity|].
    split; [|split].
    - constructor; unfold o3; prj; try reflexivity. discriminate.
    - constructor; unfold o3; prj.
      + eexists. split; [reflexivity|]. constructor; cbn [bw_new bw_sbn bw_left bw_cenc bw_acc bw_md5]; try reflexivity.
        * rewrite (PF boff_0). lia.
        * rewrite (PF boff_0). reflexivity.
      + exact Hn.
      + rewrite repeat_length. fold m. lia.
      + intros i. rewrite nth_repeat. apply blockok_new.
      + lia.
      + exists []. split; [unfold c3, hdr; cbn; rewrite Hw; reflexivity|]. split; [reflexivity|].
        rewrite (PF boff_0). reflexivity.
    - unfold Flushed. rewrite Hn0. reflexivity.
  Qed.
End Delivery.

(* ================= recoverability (Spec/SessionSpec) implies coverage ================= *)
Lemma distinct_in x l : In x (distinct l) <-> In x l.
Proof.
  induction l as [|y l IH]; cbn [distinct]; [tauto|].
  destruct (existsb (N.eqb y) l) eqn:Ex.
  - rewrite IH. split; [intros H; right; exact H|]. intros [<-|H]; [|exact H].
    apply existsb_exists in Ex. destruct Ex as (z & Hz & Heq). apply N.eqb_eq in Heq. subst z. exact Hz.
  - cbn [In]. rewrite IH. tauto.
Qed.
Lemma distinct_nodup l : NoDup (distinct l).
Proof.
  induction l as [|y l IH]; cbn [distinct]; [constructor|].
  destruct (existsb (N.eqb y) l) eqn:Ex; [exact IH|]. constructor; [|exact IH].
  intros C. apply (proj1 (distinct_in y l)) in C.
  assert (existsb (N.eqb y) l = true) by (apply existsb_exists; exists y; split; [exact C|apply N.eqb_refl]).
  congruence.
Qed.

Lemma block_rec_in k s got : block_recoverable false 0 k s got = true -> forall i, i < k -> In (s, i) got.
Proof.
  unfold block_recoverable. intros H i Hi. apply N.eqb_eq in H.
  set (mine := distinct (map snd (filter (fun p : N * N => fst p =? s) got))) in *.
  set (l := filter (fun x => x <? k) mine) in *.
  assert (Hin : In i l).
  { apply (count_eq_all l k).
    - apply NoDup_filter. apply distinct_nodup.
    - intros x Hx. apply filter_In in Hx. destruct Hx as [_ Hx]. apply N.ltb_lt in Hx. lia.
    - lia.
    - exact Hi. }
  apply filter_In in Hin. destruct Hin as [Hin _]. apply (proj1 (distinct_in _ _)) in Hin.
  apply in_map_iff in Hin. destruct Hin as ([s' i'] & Heq & Hp). cbn [snd] in Heq. subst i'.
  apply filter_In in Hp. destruct Hp as [Hp Hs]. cbn [fst] in Hs. apply N.eqb_eq in Hs. subst s'. exact Hp.
Qed.

Lemma blocks_rec_all rs par (f : N -> N) got : forall m a,
  blocks_recoverable rs par (map f (map N.of_nat (seq a m))) (N.of_nat a) got = true ->
  forall j, (a <= j < a + m)%nat -> block_recoverable rs par (f (N.of_nat j)) (N.of_nat j) got = true.
Proof.
  induction m as [|m IH]; intros a H j Hj; [lia|]. cbn [seq map blocks_recoverable] in H.
  apply andb_true_iff in H. destruct H as [H1 H2].
  destruct (Nat.eq_dec j a) as [->|Ne]; [exact H1|].
  apply (IH (S a)); [|lia]. replace (N.of_nat (S a)) with (N.of_nat a + 1) by lia. exact H2.
Qed.

Lemma recoverable_covered al as_ nal n got :
  blocks_recoverable false 0 (map (k_of al as_ nal) (below n)) 0 got = true -> covered al as_ nal n got.
Proof.
  intros H s i Hs Hi. unfold below in H.
  pose proof (blocks_rec_all false 0 (k_of al as_ nal) got (N.to_nat n) 0%nat H (N.to_nat s) ltac:(lia)) as B.
  replace (N.of_nat (N.to_nat s)) with s in B by lia. exact (block_rec_in _ _ _ B i Hi).
Qed.

(* ================= the object-level statements ================= *)
Definition partition_of (oti : roti) (L : N) : N * N * N * N := block_partitioning (ro_b oti) L (ro_e oti).

(* a packet is genuine for (oti, content): its payload id is (sbn, esi) of a source symbol of the RFC 5052
   partition and its payload is the content slice of that symbol (the last symbol may be short) *)
Definition genuine_pkt (oti : roti) (content : list N) (p : apkt) : bool :=
  let '(al, as_, nal, n) := partition_of oti (lenN_ content) in genuineb oti content al as_ nal n p.

(* source symbols per block, and the recoverability premise of Spec/SessionSpec (No-Code branch) *)
Definition source_ks (oti : roti) (L : N) : list N :=
  let '(al, as_, nal, n) := partition_of oti L in map (k_of al as_ nal) (below n).
Definition recoverable (oti : roti) (L : N) (pkts : list apkt) : bool :=
  blocks_recoverable false 0 (source_ks oti L) 0 (map pid_of pkts).

(* a packet carrying the close-object (B) flag arrives only when the packets up to and including it
   make the object recoverable; trivially true when no packet carries the flag *)
Definition close_flag_ok (oti : roti) (L : N) (pkts : list apkt) : Prop :=
  forall pre p post, pkts = pre ++ p :: post -> a_close_obj p = true -> recoverable oti L (pre ++ [p]) = true.

Lemma close_flag_ok_noflag oti L pkts : Forall (fun p => a_close_obj p = false) pkts -> close_flag_ok oti L pkts.
Proof.
  intros F pre p post -> Hp. rewrite Forall_forall in F.
  assert (a_close_obj p = false) by (apply F; apply in_or_app; right; left; reflexivity). congruence.
Qed.

(* the close-object flag only on the last packet of a recoverable list (in-order last transfer) *)
Lemma close_flag_ok_last oti L pre p :
  Forall (fun q => a_close_obj q = false) pre -> recoverable oti L (pre ++ [p]) = true ->
  close_flag_ok oti L (pre ++ [p]).
Proof.
  intros F R pre' q post Eq Hq.
  assert (D : pre' = pre /\ q = p).
  { clear R. revert pre' Eq. induction F as [|x pre Hx F IH]; intros pre' Eq.
    - destruct pre' as [|y pre']; cbn [app] in Eq; inversion Eq; subst; [split; reflexivity|].
      destruct pre'; discriminate.
    - destruct pre' as [|y pre']; cbn [app] in Eq; inversion Eq; subst; [congruence|].
      destruct (IH pre' H1) as [-> ->]. split; reflexivity. }
  destruct D as [-> ->]. exact R.
Qed.

(* D44: the close-object flag premise restricted to the packets [pkts2] that FOLLOW a prefix [pkts1] whose own flags do
   not matter (the packets received before the FDT instance: a flag is ignored while the object has no writer);
   [rec] = recoverable / rs_recoverable / fq_recoverable oti L.  It follows from close_flag_ok of pkts1 ++ pkts2. *)
Definition close_flag_ok_after (rec : list apkt -> bool) (pkts1 pkts2 : list apkt) : Prop :=
  forall pre p post, pkts2 = pre ++ p :: post -> a_close_obj p = true -> rec (pkts1 ++ pre ++ [p]) = true.

Lemma close_flag_ok_after_of_whole (rec : list apkt -> bool) pkts1 pkts2 :
  (forall pre p post, pkts1 ++ pkts2 = pre ++ p :: post -> a_close_obj p = true -> rec (pre ++ [p]) = true) ->
  close_flag_ok_after rec pkts1 pkts2.
Proof.
  intros H pre p post Eq Hp. rewrite app_assoc. apply (H (pkts1 ++ pre) p post); [|exact Hp].
  rewrite Eq, <- app_assoc. reflexivity.
Qed.

Lemma close_flag_ok_after_noflag (rec : list apkt -> bool) pkts1 pkts2 :
  Forall (fun p => a_close_obj p = false) pkts2 -> close_flag_ok_after rec pkts1 pkts2.
Proof.
  intros F pre p post -> Hp. rewrite Forall_forall in F.
  assert (a_close_obj p = false) by (apply F; apply in_or_app; right; left; reflexivity). congruence.
Qed.

(* the flag only on the last packet of pkts2, the whole being recoverable (a last transfer after the early packets) *)
Lemma close_flag_ok_after_last (rec : list apkt -> bool) pkts1 body lst :
  Forall (fun q => a_close_obj q = false) body -> rec (pkts1 ++ body ++ [lst]) = true ->
  close_flag_ok_after rec pkts1 (body ++ [lst]).
Proof.
  intros F R pre' q post Eq Hq.
  assert (D : pre' = body /\ q = lst).
  { clear R. revert pre' Eq. induction F as [|x body Hx F IH]; intros pre' Eq.
    - destruct pre' as [|y pre']; cbn [app] in Eq; inversion Eq; subst; [split; reflexivity|].
      destruct pre'; discriminate.
    - destruct pre' as [|y pre']; cbn [app] in Eq; inversion Eq; subst; [congruence|].
      destruct (IH pre' H1) as [-> ->]. split; reflexivity. }
  destruct D as [-> ->]. exact R.
Qed.

(* from the flag premise of pkts2 alone, when [rec] is monotone (more packets never hurt) *)
Lemma close_flag_ok_after_of_tail (rec : list apkt -> bool) pkts1 pkts2 :
  (forall l l', incl l l' -> rec l = true -> rec l' = true) ->
  (forall pre p post, pkts2 = pre ++ p :: post -> a_close_obj p = true -> rec (pre ++ [p]) = true) ->
  close_flag_ok_after rec pkts1 pkts2.
Proof.
  intros Mono H pre p post Eq Hp. apply (Mono (pre ++ [p])); [apply incl_appr, incl_refl|]. exact (H pre p post Eq Hp).
Qed.

Definition nocode_ok (oti : roti) (L : N) : Prop :=
  ro_fec oti = FNoCode /\ 0 < ro_e oti /\ 0 < ro_b oti /\ 0 < L /\ L + ro_e oti < U64.

(* the FDT instance lists the object with this OTI, transfer length, MD5, and no content encoding *)
Definition fdt_entry_for (files : list fdtfile) (inst : option roti) (toi : N) (oti : roti) (L : N)
  (md5 : option (list N)) : Prop :=
  exists f, find (fun f => ff_toi f =? toi) files = Some f /\ ff_cenc f = CNull
            /\ match ff_oti f with Some x => Some x | None => inst end = Some oti
            /\ ff_tlen f = L /\ ff_md5 f = md5.

Definition writer_accepts (E : env) (toi : N) : Prop :=
  e_builder E toi 0%nat = WStore /\ e_open_ok E (toi, 0%nat) = true.
Definition writes_succeed (E : env) (toi : N) : Prop := forall i, e_write_ok E (toi, 0%nat) i = true.

(* a fresh object receiver for [toi], its FDT entry attached, then the packets pushed in order *)
Definition receive (E : env) (fid : N) (files : list fdtfile) (inst : option roti) (toi max : N)
  (pkts : list apkt) : objrecv * ctx :=
  let '(_, o0, c0) := or_attach E fid files inst (or_new toi max) ctx0 in run E pkts (o0, c0).

Lemma genuine_pkt_spec oti content al as_ nal n pkts :
  partition_of oti (lenN_ content) = (al, as_, nal, n) ->
  Forall (fun p => genuine_pkt oti content p = true) pkts -> Forall (genuine oti content al as_ nal n) pkts.
Proof.
  intros Hp F. eapply Forall_impl; [|exact F]. intros p H. unfold genuine_pkt in H. rewrite Hp in H.
  apply genuineb_spec. exact H.
Qed.

(* T1 - C02 (and the receiver half of C01): every recoverable reception delivers the object byte-exact *)
Theorem nocode_recoverable_delivers E oti content toi max fid files inst md5 pkts :
  let L := lenN_ content in
  nocode_ok oti L -> fdt_entry_for files inst toi oti L md5 ->
  writer_accepts E toi -> writes_succeed E toi -> md5_good E content md5 ->
  L <= max -> nb_blocks_of oti L <= 4097 ->
  Forall (fun p => genuine_pkt oti content p = true) pkts ->
  close_flag_ok oti L pkts ->
  recoverable oti L pkts = true ->
  let (o, c) := receive E fid files inst toi max pkts in
  r_state o = Completed
  /\ ShapeDone content (toi, 0%nat) toi c
  /\ forall m, complete_exact content (m, calls_of (toi, 0%nat) (c_log c)) = true
                /\ P_C02_object (recoverable oti L pkts) content [(m, calls_of (toi, 0%nat) (c_log c))] = true.
Proof.
  intros L (Hfec & He & Hb & HL & Hu) (f & F1 & F2 & F3 & F4 & F5) (A1 & A2) Hwr Hmd5 Hmax Hn G Cl Rec.
  destruct (partition_of oti L) as [[[al as_] nal] n] eqn:Hpart. unfold partition_of in Hpart.
  destruct (attach_struct E oti content (toi, 0%nat) toi md5 max al as_ nal n He Hb HL Hu Hpart fid files inst f
              eq_refl F1 F2 F3 F4 F5 A1 A2) as (o0 & c0 & Hat & S0).
  unfold receive. rewrite Hat.
  assert (Hnb : nb_blocks_of oti L = n) by (unfold nb_blocks_of; rewrite Hpart; reflexivity).
  assert (Cov : forall l, recoverable oti L l = true -> covered al as_ nal n (map pid_of l)).
  { intros l H. apply recoverable_covered. unfold recoverable, source_ks, partition_of in H. rewrite Hpart in H. exact H. }
  pose proof (deliver E oti content (toi, 0%nat) toi md5 max al as_ nal n Hfec He Hb HL Hu Hpart pkts o0 c0 S0) as D.
  assert (D' : let (o', c') := run E pkts (o0, c0) in r_state o' = Completed /\ ShapeDone content (toi, 0%nat) toi c').
  { apply D.
    - split; [split; [exact Hwr|exact Hmd5]|]. split; [exact Hmax|]. rewrite <- Hnb. exact Hn.
    - apply genuine_pkt_spec; [exact Hpart|exact G].
    - intros pre p post Eq Hp. rewrite app_nil_r. apply Cov. apply (Cl pre p post Eq Hp).
    - apply Cov. exact Rec. }
  destruct (run E pkts (o0, c0)) as [o c]. destruct D' as [D1 D2].
  split; [exact D1|]. split; [exact D2|]. intros m.
  pose proof (done_exact content (toi, 0%nat) toi c m D2) as Ex. split; [exact Ex|].
  unfold P_C02_object. cbn [existsb]. rewrite Ex. cbn [orb]. apply orb_true_r.
Qed.

(* T2 - C03 (safety): any genuine packets, any order, any multiplicity, any subset, with or without the
   close-object flag, whatever the writer answers to write() and whatever the MD5 and the memory limit:
   what every writer has received so far is a prefix of the object, a writer is never both completed
   and failed, and a completed writer received exactly the object *)
Theorem nocode_safety E oti content toi max fid files inst md5 pkts :
  let L := lenN_ content in
  nocode_ok oti L -> fdt_entry_for files inst toi oti L md5 -> writer_accepts E toi ->
  Forall (fun p => genuine_pkt oti content p = true) pkts ->
  let (o, c) := receive E fid files inst toi max pkts in
  forall w, is_prefix (written (calls_of w (c_log c))) content = true
            /\ P_C03_writer content true (calls_of w (c_log c)) = true.
Proof.
  intros L (Hfec & He & Hb & HL & Hu) (f & F1 & F2 & F3 & F4 & F5) (A1 & A2) G.
  destruct (partition_of oti L) as [[[al as_] nal] n] eqn:Hpart. unfold partition_of in Hpart.
  destruct (attach_struct E oti content (toi, 0%nat) toi md5 max al as_ nal n He Hb HL Hu Hpart fid files inst f
              eq_refl F1 F2 F3 F4 F5 A1 A2) as (o0 & c0 & Hat & S0).
  unfold receive. rewrite Hat.
  pose proof (run_safe E oti content (toi, 0%nat) toi md5 max al as_ nal n Hfec He Hb HL Hu Hpart pkts o0 c0 S0
                (genuine_pkt_spec _ _ _ _ _ _ _ Hpart G)) as R.
  apply (runout_safe oti content (toi, 0%nat) toi md5 max al as_ nal n He Hb HL Hu) in R.
  destruct (run E pkts (o0, c0)) as [o c]. exact R.
Qed.

Print Assumptions nocode_recoverable_delivers.
Print Assumptions nocode_safety.

(* ================= concrete instances: non-vacuity and refutations of the unguarded statement ================= *)
Definition mk_pid (sbn esi : N) : list N := [sbn / 256; sbn mod 256; esi / 256; esi mod 256].
Definition src_pkt (toi sbn esi : N) (close : bool) (payload : list N) : apkt :=
  mk_apkt toi close false None None None None 0 (mk_pid sbn esi) payload (lenN_ payload).
Definition env_ok : env :=
  mk_env false false (fun _ _ => WStore) (fun _ => true) (fun _ _ => true)
         (fun _ _ _ _ _ _ _ => None) (fun _ => []) (fun _ _ _ => None).
Definition summary (toi : N) (r : objrecv * ctx) : ostate * list wcall :=
  (r_state (fst r), calls_of (toi, 0%nat) (c_log (snd r))).

(* a 5-byte object, E = 2, B = 2: block 0 = symbols [1;2] [3;4], block 1 = the short symbol [5] *)
Definition ex_oti : roti := mk_roti FNoCode 2 2 0 None.
Definition ex_content : list N := [1; 2; 3; 4; 5].
Definition ex_files : list fdtfile := [mk_ff 7 CNull (Some ex_oti) 5 None None false].
Definition ex_pkts : list apkt :=
  [src_pkt 7 1 0 false [5]; src_pkt 7 0 1 false [3; 4]; src_pkt 7 1 0 false [5];
   src_pkt 7 0 0 false [1; 2]; src_pkt 7 0 1 false [3; 4]].

Example ex_premises :
  partition_of ex_oti 5 = (2, 1, 1, 2)
  /\ forallb (genuine_pkt ex_oti ex_content) ex_pkts = true
  /\ recoverable ex_oti 5 ex_pkts = true
  /\ recoverable ex_oti 5 (firstn 3 ex_pkts) = false.
Proof. vm_compute. repeat split. Qed.

Example ex_delivery_computed :
  summary 7 (receive env_ok 1 ex_files None 7 1000 ex_pkts)
  = (Completed, [CallOpen true; CallWrite [1; 2; 3; 4] true; CallWrite [5] true; CallComplete]).
Proof. vm_compute. reflexivity. Qed.

(* the theorem applies to this instance: its premises are satisfiable *)
Example ex_delivery_by_theorem :
  let (o, c) := receive env_ok 1 ex_files None 7 1000 ex_pkts in
  r_state o = Completed /\ complete_exact ex_content (mk_ometa [] None None None None [] None (0, 0), calls_of (7, 0%nat) (c_log c)) = true.
Proof.
  pose proof (nocode_recoverable_delivers env_ok ex_oti ex_content 7 1000 1 ex_files None None ex_pkts) as H.
  cbv zeta in H.
  assert (P : let (o, c) := receive env_ok 1 ex_files None 7 1000 ex_pkts in
              r_state o = Completed /\ ShapeDone ex_content (7, 0%nat) 7 c
              /\ forall m, complete_exact ex_content (m, calls_of (7, 0%nat) (c_log c)) = true
                           /\ P_C02_object (recoverable ex_oti (lenN_ ex_content) ex_pkts) ex_content [(m, calls_of (7, 0%nat) (c_log c))] = true).
  { apply H.
    - repeat split; vm_compute; reflexivity.
    - exists (mk_ff 7 CNull (Some ex_oti) 5 None None false). repeat split.
    - split; reflexivity.
    - intros i. reflexivity.
    - exact I.
    - vm_compute. discriminate.
    - vm_compute. discriminate.
    - repeat constructor.
    - apply close_flag_ok_noflag. repeat constructor.
    - vm_compute. reflexivity. }
  destruct (receive env_ok 1 ex_files None 7 1000 ex_pkts) as [o c]. destruct P as (P1 & _ & P3).
  split; [exact P1|apply P3].
Qed.

(* in-order transfer with the close-object flag on the last packet (clean channel): the flag is harmless *)
Definition ex_pkts_inorder : list apkt :=
  [src_pkt 7 0 0 false [1; 2]; src_pkt 7 0 1 false [3; 4]; src_pkt 7 1 0 true [5]].
Example ex_inorder_flag_ok : close_flag_ok ex_oti 5 ex_pkts_inorder.
Proof.
  intros pre p post Eq Hp.
  destruct pre as [|a [|b0 [|c0 [|d pre]]]]; cbn [app] in Eq; inversion Eq; subst; try discriminate Hp.
  all: try (vm_compute; reflexivity).
  all: try (destruct pre; discriminate).
Qed.

(* REFUTATION 1 (close-object flag): the same genuine, recoverable packets, but the B-flagged packet arrives
   first: the object is reported Interrupted and never completed *)
Definition ex_pkts_flag_first : list apkt :=
  [src_pkt 7 1 0 true [5]; src_pkt 7 0 0 false [1; 2]; src_pkt 7 0 1 false [3; 4]].
Example close_flag_early_refuted :
  forallb (genuine_pkt ex_oti ex_content) ex_pkts_flag_first = true
  /\ recoverable ex_oti 5 ex_pkts_flag_first = true
  /\ summary 7 (receive env_ok 1 ex_files None 7 1000 ex_pkts_flag_first) = (Interrupted, [CallOpen true; CallInterrupted]).
Proof. vm_compute. repeat split. Qed.

(* REFUTATION 2 (max_size_allocated < transfer length): 6 bytes, E = 1, B = 2 (3 blocks of 2 symbols), limit 3:
   one symbol of each block received first - the third block initialisation exceeds the limit: Errored *)
Definition ex2_oti : roti := mk_roti FNoCode 1 2 0 None.
Definition ex2_content : list N := [1; 2; 3; 4; 5; 6].
Definition ex2_files : list fdtfile := [mk_ff 7 CNull (Some ex2_oti) 6 None None false].
Definition ex2_pkts : list apkt :=
  [src_pkt 7 1 0 false [3]; src_pkt 7 2 0 false [5]; src_pkt 7 0 0 false [1];
   src_pkt 7 0 1 false [2]; src_pkt 7 1 1 false [4]; src_pkt 7 2 1 false [6]].
Example memory_limit_refuted :
  forallb (genuine_pkt ex2_oti ex2_content) ex2_pkts = true
  /\ recoverable ex2_oti 6 ex2_pkts = true
  /\ forallb (fun p => negb (a_close_obj p)) ex2_pkts = true
  /\ summary 7 (receive env_ok 1 ex2_files None 7 3 ex2_pkts) = (Errored, [CallOpen true; CallError])
  /\ summary 7 (receive env_ok 1 ex2_files None 7 6 ex2_pkts)
     = (Completed, [CallOpen true; CallWrite [1; 2] true; CallWrite [3; 4] true; CallWrite [5; 6] true; CallComplete]).
Proof. vm_compute. repeat split. Qed.

(* REFUTATION 3 (more than 4097 source blocks): 4098 bytes, E = 1, B = 1 (4098 blocks); the packet of the last
   block arrives first: "Too many blocks allocated", the object is Errored although every symbol arrives *)
Definition ex3_oti : roti := mk_roti FNoCode 1 1 0 None.
Definition ex3_content : list N := repeat 9 4098.
Definition ex3_files : list fdtfile := [mk_ff 7 CNull (Some ex3_oti) 4098 None None false].
Definition ex3_pkts : list apkt :=
  src_pkt 7 4097 0 false [9] :: map (fun i => src_pkt 7 (N.of_nat i) 0 false [9]) (seq 0 4098).
Example block_window_refuted :
  nb_blocks_of ex3_oti 4098 = 4098
  /\ forallb (genuine_pkt ex3_oti ex3_content) ex3_pkts = true
  /\ recoverable ex3_oti 4098 ex3_pkts = true
  /\ summary 7 (receive env_ok 1 ex3_files None 7 1000000 ex3_pkts) = (Errored, [CallOpen true; CallError])
  /\ fst (summary 7 (receive env_ok 1 ex3_files None 7 1000000 (tl ex3_pkts))) = Completed.
Proof. vm_compute. repeat split. Qed.

(* the empty object (L = 0), since the D48 repair: it is completed with no write by the attach itself as soon as
   it has its OTI and its writer (the receiver exists only because a packet of the object has arrived; before the
   repair the attach left it Receiving with log [CallOpen true] until a further packet came); packets that follow,
   also with the close-object flag, change nothing *)
Definition ex0_files : list fdtfile := [mk_ff 7 CNull (Some ex_oti) 0 None None false].
Example empty_object_behaviour :
  summary 7 (receive env_ok 1 ex0_files None 7 1000 []) = (Completed, [CallOpen true; CallComplete])
  /\ summary 7 (receive env_ok 1 ex0_files None 7 1000 [src_pkt 7 0 0 true []]) = (Completed, [CallOpen true; CallComplete]).
Proof. vm_compute. repeat split. Qed.
