(* C11, history level: an object packet is emitted only after a complete FDT instance listing the
   object has been emitted.  Invariant proof over every operation history of the sender model.

   The invariant relates the state of the C11 monitor (announced, partial) to the model state:
   - the FDT session holds an encoder of instance fid with k packets sent and some left
     iff partial = Some (fid, k);
   - every TOI that a file session holds, or that the waiting list may start, is "covered":
     already announced, or listed by an instance that waits in fdt_transfer_queue, or listed by
     the instance the FDT session is sending;
   - instances in fdt_transfer_queue are fresh (they start as soon as they are dequeued) and a
     file session never emits while that queue is non-empty or the FDT session holds an encoder. *)
From FluteV Require Import Model.SenderCtl Spec.SenderSpec.
From Coq Require Import Lia.
Open Scope N_scope.

Arguments N.add : simpl never. Arguments N.mul : simpl never. Arguments N.sub : simpl never.
Arguments N.eqb : simpl never. Arguments N.ltb : simpl never. Arguments N.leb : simpl never.
Arguments Z.add : simpl never. Arguments Z.sub : simpl never. Arguments Z.mul : simpl never.
Arguments Z.ltb : simpl never. Arguments Z.leb : simpl never. Arguments Z.max : simpl never.
Arguments N.modulo : simpl never.

(* ---------- lists ---------- *)
Lemma c11_upd_nth_length {A} i (f : A -> A) l : length (upd_nth i f l) = length l.
Proof. revert i; induction l as [|x l IH]; intros [|i]; cbn; auto. Qed.

Lemma nth_upd_nth_neq {A} (f : A -> A) d : forall l i j, i <> j -> nth j (upd_nth i f l) d = nth j l d.
Proof.
  induction l as [|x l IH]; intros [|i] [|j] H; cbn; auto; try congruence.
Qed.

Lemma nth_upd_nth_eq {A} (f : A -> A) d : forall l i, (i < length l)%nat -> nth i (upd_nth i f l) d = f (nth i l d).
Proof.
  induction l as [|x l IH]; intros [|i] H; cbn in *; try lia; auto. apply IH. lia.
Qed.

Lemma nth_upd_nth_proj {A B} (p : A -> B) (f : A -> A) d : (forall x, p (f x) = p x) ->
  forall l i j, p (nth j (upd_nth i f l) d) = p (nth j l d).
Proof.
  intros Hp. induction l as [|x l IH]; intros [|i] [|j]; cbn; auto.
Qed.

Lemma In_upd_nth {A} (f : A -> A) : forall l i x, In x (upd_nth i f l) -> In x l \/ exists y, In y l /\ x = f y.
Proof.
  induction l as [|a l IH]; intros [|i] x H; cbn in *; auto.
  - destruct H as [<-|H]; [right; exists a; auto|auto].
  - destruct H as [<-|H]; [auto|]. destruct (IH _ _ H) as [?|(y & ? & ?)]; [auto|right; exists y; auto].
Qed.

Lemma c11_find_remove_first p l x l' : find_remove p l = Some (x, l') ->
  exists ahead rest, l = ahead ++ x :: rest /\ l' = ahead ++ rest /\ p x = true.
Proof.
  revert x l'; induction l as [|y l IH]; intros x l' H; cbn in H; [discriminate|].
  destruct (p y) eqn:E.
  - inversion H; subst. exists [], l'. repeat split; assumption.
  - destruct (find_remove p l) as [[z r]|]; [|discriminate]. inversion H; subst.
    destruct (IH _ _ eq_refl) as (a & b & -> & -> & Px).
    exists (y :: a), b. repeat split; assumption.
Qed.

Lemma memN_In x l : memN x l = true <-> In x l.
Proof.
  unfold memN. rewrite existsb_exists. split.
  - intros (y & Hy & E). apply N.eqb_eq in E. subst. assumption.
  - intros H. exists x. split; [assumption|apply N.eqb_refl].
Qed.

Ltac sred := cbn [objs files queue fdtq cur_fdt complete fdtid last_publish full_fdt fdt_duration
  fdt_car fdt_session squeues evlog set_objs set_files set_queue set_fdtq set_cur_fdt set_fdt_session
  set_squeues log_ev upd_t].
Ltac sred_in H := cbn [objs files queue fdtq cur_fdt complete fdtid last_publish full_fdt fdt_duration
  fdt_car fdt_session squeues evlog set_objs set_files set_queue set_fdtq set_cur_fdt set_fdt_session
  set_squeues log_ev upd_t] in H.

Section C11.
  Variable fdt_npk : N -> nat.
  Variable fdt_ok : N -> bool.
  Variable divf : Z -> N -> option Z.
  Variable full : bool.
  Hypothesis Hnpk : forall id, (1 <= fdt_npk id)%nat.
  (* FullFDT mode, or publishing never fails *)
  Hypothesis Hmode : full = true \/ forall id, fdt_ok id = true.

  Notation session_run := (session_run fdt_npk fdt_ok divf).
  Notation get_next := (get_next fdt_npk fdt_ok divf).
  Notation get_next_file_transfer := (get_next_file_transfer fdt_npk fdt_ok divf).
  Notation get_next_fdt_transfer := (get_next_fdt_transfer fdt_npk fdt_ok divf).
  Notation sender_read := (sender_read fdt_npk fdt_ok divf).
  Notation run_fdt_session := (run_fdt_session fdt_npk fdt_ok divf).
  Notation publish := (publish fdt_npk fdt_ok).
  Notation step := (step fdt_npk fdt_ok divf).
  Notation rr_loop := (rr_loop fdt_npk fdt_ok divf).
  Notation read_queues := (read_queues fdt_npk fdt_ok divf).
  Notation read_priority_queue := (read_priority_queue fdt_npk fdt_ok divf).
  Notation model_trace := (model_trace fdt_npk fdt_ok divf).

  Notation at_ ob id := (nth id ob dummy_f).

  (* ---------- the two kinds of objects ---------- *)
  Definition user (ob : list fdesc) (id : nat) : Prop :=
    (id < length ob)%nat /\ o_fdtid (f_o (at_ ob id)) = None.

  Definition fdt_od (o : odesc) (fid : N) : Prop :=
    o_fdtid o = Some fid /\ o_npk o = fdt_npk fid /\ o_toi o = 0 /\ o_prio o = 0 /\ o_max o = 1
    /\ o_target o = TNone.

  Definition fdtobj (ob : list fdesc) (id : nat) (fid : N) : Prop :=
    (id < length ob)%nat /\ fdt_od (f_o (at_ ob id)) fid
    /\ f_pub (at_ ob id) = true
    /\ t_next_ts (f_t (at_ ob id)) = None /\ t_start_time (f_t (at_ ob id)) = None.

  Definition fresh (ob : list fdesc) (id : nat) : Prop :=
    (exists fid, fdtobj ob id fid)
    /\ t_transferring (f_t (at_ ob id)) = false /\ t_count (f_t (at_ ob id)) = 0.

  Definition toi (ob : list fdesc) (id : nat) : N := o_toi (f_o (at_ ob id)).
  Definition listing (ob : list fdesc) (id : nat) : list N := o_listing (f_o (at_ ob id)).

  Definition pend_fs (ob : list fdesc) (fs : session) : list N :=
    match ss_enc fs, ss_file fs with
    | Some _, Some c => listing ob c
    | _, _ => []
    end.

  (* a TOI is covered: announced, or listed by a waiting instance, or by the one being sent *)
  Definition Cov (A : list N) (ob : list fdesc) (fq : list nat) (fs : session) (t : N) : Prop :=
    In t A \/ (exists i, In i fq /\ In t (listing ob i)) \/ In t (pend_fs ob fs).

  Definition qcov (P : N -> Prop) (ob : list fdesc) (fl qu : list nat) : Prop :=
    forall id, In id qu ->
      P (toi ob id) \/ (if full then f_pub (at_ ob id) = false else In id fl).

  Definition Wu (ob : list fdesc) (fl qu : list nat) : Prop :=
    (forall id, In id fl -> user ob id) /\ (forall id, In id qu -> user ob id).

  Definition Wf (ob : list fdesc) (fq : list nat) (cur : option nat) : Prop :=
    (forall i, In i fq -> fresh ob i) /\ NoDup fq /\ (forall c, cur = Some c -> exists fid, fdtobj ob c fid).

  Definition FS (m : c11st) (ob : list fdesc) (fs : session) : Prop :=
    ss_fdt_only fs = true /\
    match ss_enc fs with
    | None => partial m = None
    | Some e =>
      exists c fid, ss_file fs = Some c /\ fdtobj ob c fid
        /\ t_transferring (f_t (at_ ob c)) = true
        /\ e_stopped e = false
        /\ (e_left e + N.to_nat (e_sent e) = fdt_npk fid)%nat
        /\ partial m = (if (0 <? e_sent e) && negb (Nat.eqb (e_left e) 0)
                        then Some (fid, N.to_nat (e_sent e)) else None)
        /\ (e_left e = 0%nat -> incl (listing ob c) (announced m))
    end.

  Definition Kc (m : c11st) (fs : session) (ob : list fdesc) (fl qu fq : list nat) (cur : option nat) (fu : bool) : Prop :=
    fu = full /\ Wu ob fl qu /\ Wf ob fq cur /\ FS m ob fs
    /\ qcov (Cov (announced m) ob fq fs) ob fl qu.

  Definition K (m : c11st) (fs : session) (s : st) : Prop :=
    Kc m fs (objs s) (files s) (queue s) (fdtq s) (cur_fdt s) (full_fdt s).

  (* a file session *)
  Definition SS (P : N -> Prop) (ob : list fdesc) (ss : session) : Prop :=
    ss_fdt_only ss = false /\ forall id, ss_file ss = Some id -> user ob id /\ P (toi ob id).

  (* progress relation: objects keep their descriptor, coverage only grows *)
  Definition stab (ob ob' : list fdesc) : Prop :=
    (length ob <= length ob')%nat /\ forall id, (id < length ob)%nat -> f_o (at_ ob' id) = f_o (at_ ob id).

  Definition adv (A : list N) ob fq fs (A' : list N) ob' fq' fs' : Prop :=
    stab ob ob' /\ forall t, Cov A ob fq fs t -> Cov A' ob' fq' fs' t.

  Definition advS (m : c11st) fs (s : st) (m' : c11st) fs' (s' : st) : Prop :=
    adv (announced m) (objs s) (fdtq s) fs (announced m') (objs s') (fdtq s') fs'.

  Lemma stab_refl ob : stab ob ob.
  Proof. split; auto. Qed.

  Lemma stab_trans a b c : stab a b -> stab b c -> stab a c.
  Proof.
    intros [L1 H1] [L2 H2]. split; [lia|]. intros id Hid. rewrite H2 by lia. apply H1. assumption.
  Qed.

  Lemma adv_refl A ob fq fs : adv A ob fq fs A ob fq fs.
  Proof. split; [apply stab_refl|auto]. Qed.

  Lemma adv_trans A1 o1 q1 f1 A2 o2 q2 f2 A3 o3 q3 f3 :
    adv A1 o1 q1 f1 A2 o2 q2 f2 -> adv A2 o2 q2 f2 A3 o3 q3 f3 -> adv A1 o1 q1 f1 A3 o3 q3 f3.
  Proof. intros [S1 C1] [S2 C2]. split; [eapply stab_trans; eauto|auto]. Qed.

  Lemma user_stab ob ob' id : stab ob ob' -> user ob id -> user ob' id.
  Proof. intros [L H] [Hl Hu]. split; [lia|]. rewrite H by assumption. assumption. Qed.

  Lemma toi_stab ob ob' id : stab ob ob' -> (id < length ob)%nat -> toi ob' id = toi ob id.
  Proof. intros [L H] Hl. unfold toi. rewrite H by assumption. reflexivity. Qed.

  Lemma listing_stab ob ob' id : stab ob ob' -> (id < length ob)%nat -> listing ob' id = listing ob id.
  Proof. intros [L H] Hl. unfold listing. rewrite H by assumption. reflexivity. Qed.

  Lemma SS_adv A ob fq fs A' ob' fq' fs' ss :
    adv A ob fq fs A' ob' fq' fs' -> SS (Cov A ob fq fs) ob ss -> SS (Cov A' ob' fq' fs') ob' ss.
  Proof.
    intros [Hs Hc] [Hf H]. split; [assumption|]. intros id Hid. destruct (H id Hid) as [Hu Hp].
    split; [eapply user_stab; eauto|]. rewrite (toi_stab ob ob') by (try assumption; apply Hu). auto.
  Qed.

  (* ---------- frames ---------- *)
  (* ob' treats object id like ob *)
  Definition keeps (ob ob' : list fdesc) (id : nat) : Prop :=
    f_o (at_ ob' id) = f_o (at_ ob id) /\ f_t (at_ ob' id) = f_t (at_ ob id)
    /\ (f_pub (at_ ob id) = true -> f_pub (at_ ob' id) = true).

  Lemma fdtobj_keeps ob ob' id fid : (length ob <= length ob')%nat -> keeps ob ob' id ->
    fdtobj ob id fid -> fdtobj ob' id fid.
  Proof.
    intros L (Ho & Ht & Hp) (Hl & Hod & Hpub & Hn & Hs). unfold fdtobj. rewrite Ho, Ht.
    split; [lia|]. split; [exact Hod|]. auto.
  Qed.

  Lemma fresh_keeps ob ob' id : (length ob <= length ob')%nat -> keeps ob ob' id -> fresh ob id -> fresh ob' id.
  Proof.
    intros L Hk ((fid & Hf) & Ht & Hc). split; [exists fid; eapply fdtobj_keeps; eauto|].
    destruct Hk as (_ & -> & _). auto.
  Qed.

  Lemma user_not_fdtobj ob id fid : user ob id -> fdtobj ob id fid -> False.
  Proof. intros [_ Hu] (_ & (Hf & _) & _). congruence. Qed.

  (* Wf and FS are insensitive to what happens to user objects *)
  Lemma Wf_frame ob ob' fq cur : (length ob <= length ob')%nat ->
    (forall id fid, fdtobj ob id fid -> keeps ob ob' id) -> Wf ob fq cur -> Wf ob' fq cur.
  Proof.
    intros L Hk (Hfr & Hnd & Hcur). split; [|split; [assumption|]].
    - intros i Hi. specialize (Hfr i Hi). pose proof Hfr as ((fid & Hf) & _).
      eapply fresh_keeps; eauto.
    - intros c Hc. destruct (Hcur c Hc) as (fid & Hf). exists fid. eapply fdtobj_keeps; eauto.
  Qed.

  Lemma FS_frame m ob ob' fs : (length ob <= length ob')%nat ->
    (forall id fid, fdtobj ob id fid -> keeps ob ob' id) -> FS m ob fs -> FS m ob' fs.
  Proof.
    intros L Hk (Hfo & H). split; [assumption|]. destruct (ss_enc fs) as [e|]; [|assumption].
    destruct H as (c & fid & Hfile & Hobj & Htr & Hst & Hsum & Hpart & Hlist).
    exists c, fid. pose proof (Hk _ _ Hobj) as (Ho & Ht & Hp).
    split; [assumption|]. split; [eapply fdtobj_keeps; eauto; repeat split; auto|].
    split; [rewrite Ht; assumption|]. split; [assumption|]. split; [assumption|]. split; [assumption|].
    unfold listing. rewrite Ho. exact Hlist.
  Qed.

  Lemma Cov_stab m A ob ob' fq cur fs : Wf ob fq cur -> FS m ob fs -> stab ob ob' ->
    forall t, Cov A ob fq fs t -> Cov A ob' fq fs t.
  Proof.
    intros (Hfr & _) (_ & Hfs) Hs t [H|[(i & Hi & H)|H]]; [left; assumption| |].
    - right; left. exists i. split; [assumption|].
      destruct (Hfr i Hi) as ((fid & Hl & _) & _). rewrite (listing_stab ob ob'); assumption.
    - right; right. unfold pend_fs in *. destruct (ss_enc fs) as [e|]; [|assumption].
      destruct Hfs as (c & fid & Hc & (Hl & _) & _). rewrite Hc in *.
      rewrite (listing_stab ob ob'); assumption.
  Qed.

  (* ---------- updating the TransferInfo of one object ---------- *)
  Definition updF (g : tinfo -> tinfo) : fdesc -> fdesc := fun f => mk_fdesc (f_o f) (f_pub f) (g (f_t f)).
  Notation upd id g ob := (upd_nth id (updF g) ob).

  Lemma upd_fo id g ob j : f_o (at_ (upd id g ob) j) = f_o (at_ ob j).
  Proof. apply (nth_upd_nth_proj f_o). reflexivity. Qed.
  Lemma upd_fpub id g ob j : f_pub (at_ (upd id g ob) j) = f_pub (at_ ob j).
  Proof. apply (nth_upd_nth_proj f_pub). reflexivity. Qed.
  Lemma upd_other id g ob j : id <> j -> at_ (upd id g ob) j = at_ ob j.
  Proof. apply nth_upd_nth_neq. Qed.
  Lemma upd_ft id g ob : (id < length ob)%nat -> f_t (at_ (upd id g ob) id) = g (f_t (at_ ob id)).
  Proof. intros H. rewrite nth_upd_nth_eq by assumption. reflexivity. Qed.
  Lemma upd_len id g ob : length (upd id g ob) = length ob.
  Proof. apply c11_upd_nth_length. Qed.
  Lemma upd_toi id g ob j : toi (upd id g ob) j = toi ob j.
  Proof. unfold toi. rewrite upd_fo. reflexivity. Qed.
  Lemma upd_listing id g ob j : listing (upd id g ob) j = listing ob j.
  Proof. unfold listing. rewrite upd_fo. reflexivity. Qed.
  Lemma upd_stab id g ob : stab ob (upd id g ob).
  Proof. split; [rewrite upd_len; lia|]. intros; apply upd_fo. Qed.
  Lemma upd_user id g ob j : user ob j -> user (upd id g ob) j.
  Proof. apply user_stab, upd_stab. Qed.
  Lemma upd_keeps id g ob j : id <> j -> keeps ob (upd id g ob) j.
  Proof. intros H. unfold keeps. rewrite upd_other by assumption. auto. Qed.

  Lemma Cov_listing_ext A ob ob' fq fs : (forall j, listing ob' j = listing ob j) ->
    forall t, Cov A ob fq fs t <-> Cov A ob' fq fs t.
  Proof.
    intros H t. unfold Cov, pend_fs. destruct (ss_enc fs), (ss_file fs); try rewrite H;
      (split; intros [?|[(i & ? & Hi)|?]]; auto; right; left; exists i; split; auto;
       [rewrite H|rewrite <- H]; assumption).
  Qed.

  Lemma Cov_upd A ob fq fs id g t : Cov A ob fq fs t <-> Cov A (upd id g ob) fq fs t.
  Proof. apply Cov_listing_ext. intros; apply upd_listing. Qed.

  Lemma Cov_fq_incl A ob fq fq' fs t : incl fq fq' -> Cov A ob fq fs t -> Cov A ob fq' fs t.
  Proof. intros Hi [?|[(i & ? & ?)|?]]; [left|right; left; exists i|right; right]; auto. Qed.

  Lemma Cov_A_incl A A' ob fq fs t : incl A A' -> Cov A ob fq fs t -> Cov A' ob fq fs t.
  Proof. intros Hi [?|[?|?]]; [left|right; left|right; right]; auto. Qed.

  Lemma Wu_upd ob fl qu id g : Wu ob fl qu -> Wu (upd id g ob) fl qu.
  Proof. intros [H1 H2]. split; intros j Hj; apply upd_user; auto. Qed.

  Lemma qcov_upd A ob fl qu fq fs id g :
    qcov (Cov A ob fq fs) ob fl qu -> qcov (Cov A (upd id g ob) fq fs) (upd id g ob) fl qu.
  Proof.
    intros H j Hj. rewrite upd_toi, upd_fpub. destruct (H j Hj) as [Hc|Hc]; [left|right; assumption].
    apply Cov_upd. assumption.
  Qed.

  Lemma fdtobj_upd ob c fid j g : fdtobj ob j fid ->
    (j = c -> t_next_ts (g (f_t (at_ ob c))) = None /\ t_start_time (g (f_t (at_ ob c))) = None) ->
    fdtobj (upd c g ob) j fid.
  Proof.
    intros (Hl & Hod & Hp & Hn & Hs) Hg. unfold fdtobj. rewrite upd_len, upd_fo, upd_fpub.
    split; [assumption|]. split; [assumption|]. split; [assumption|].
    destruct (Nat.eq_dec c j) as [E|E].
    - subst j. rewrite upd_ft by assumption. apply Hg. reflexivity.
    - rewrite upd_other by assumption. auto.
  Qed.

  Lemma Wf_upd_other ob fq cur id g : (forall fid, ~ fdtobj ob id fid) -> Wf ob fq cur -> Wf (upd id g ob) fq cur.
  Proof.
    intros Hn. apply Wf_frame; [rewrite upd_len; lia|]. intros j fid Hj. apply upd_keeps.
    intros ->. exact (Hn _ Hj).
  Qed.

  Lemma FS_upd_other m ob fs id g : (forall fid, ~ fdtobj ob id fid) -> FS m ob fs -> FS m (upd id g ob) fs.
  Proof.
    intros Hn. apply FS_frame; [rewrite upd_len; lia|]. intros j fid Hj. apply upd_keeps.
    intros ->. exact (Hn _ Hj).
  Qed.

  Lemma Wf_upd_fdt ob fq cur c g : ~ In c fq ->
    (t_next_ts (g (f_t (at_ ob c))) = None /\ t_start_time (g (f_t (at_ ob c))) = None) ->
    Wf ob fq cur -> Wf (upd c g ob) fq cur.
  Proof.
    intros Hc Hg (Hfr & Hnd & Hcur). split; [|split; [assumption|]].
    - intros i Hi. apply (fresh_keeps ob); [rewrite upd_len; lia| |apply Hfr; assumption].
      apply upd_keeps. intros ->. auto.
    - intros c' Hc'. destruct (Hcur c' Hc') as (fid & Hf). exists fid. apply fdtobj_upd; auto.
  Qed.

  (* K is insensitive to TransferInfo updates of user objects *)
  Lemma Kc_upd_user m fs ob fl qu fq cur fu id g : user ob id ->
    Kc m fs ob fl qu fq cur fu -> Kc m fs (upd id g ob) fl qu fq cur fu.
  Proof.
    intros Hu (Hfu & Hwu & Hwf & Hfs & Hq).
    assert (Hn : forall fid, ~ fdtobj ob id fid) by (intros fid Hf; eapply user_not_fdtobj; eauto).
    split; [assumption|]. split; [apply Wu_upd; assumption|]. split; [apply Wf_upd_other; assumption|].
    split; [apply FS_upd_other; assumption|]. apply qcov_upd. assumption.
  Qed.

  (* ---------- Fdt::publish ---------- *)
  Definition pubf (fl : list nat) (l : list fdesc) : list fdesc :=
    fold_left (fun ob fid => upd_nth fid set_pub ob) fl l.

  Lemma pubfold : forall fl l j,
    length (pubf fl l) = length l /\ f_o (at_ (pubf fl l) j) = f_o (at_ l j)
    /\ f_t (at_ (pubf fl l) j) = f_t (at_ l j)
    /\ (f_pub (at_ l j) = true -> f_pub (at_ (pubf fl l) j) = true)
    /\ (f_pub (at_ (pubf fl l) j) = true -> f_pub (at_ l j) = true \/ In j fl).
  Proof.
    induction fl as [|a fl IH]; intros l j; unfold pubf; cbn [fold_left].
    - repeat split; auto.
    - destruct (IH (upd_nth a set_pub l) j) as (L & Ho & Ht & P1 & P2). unfold pubf in *.
      rewrite L, Ho, Ht, c11_upd_nth_length.
      rewrite (nth_upd_nth_proj f_o) by reflexivity. rewrite (nth_upd_nth_proj f_t) by reflexivity.
      split; [reflexivity|]. split; [reflexivity|]. split; [reflexivity|]. split.
      + intros H. apply P1. destruct (Nat.eq_dec a j) as [->|E].
        * destruct (Nat.lt_ge_cases j (length l)).
          -- rewrite nth_upd_nth_eq by assumption. reflexivity.
          -- rewrite nth_overflow in H by lia. discriminate.
        * rewrite nth_upd_nth_neq; assumption.
      + intros H. destruct (P2 H) as [H1|H1]; [|right; right; assumption].
        destruct (Nat.eq_dec a j) as [->|E]; [right; left; reflexivity|].
        left. rewrite nth_upd_nth_neq in H1; assumption.
  Qed.

  Lemma NoDup_snoc {A} (l : list A) x : NoDup l -> ~ In x l -> NoDup (l ++ [x]).
  Proof.
    induction 1 as [|y l Hy Hnd IH]; intros Hx; cbn.
    - constructor; [intros []|constructor].
    - constructor.
      + rewrite in_app_iff. intros [?|[?|[]]]; [auto|]. subst. apply Hx. left. reflexivity.
      + apply IH. intros ?. apply Hx. right. assumption.
  Qed.

  Lemma publish_K m fs now s ok s' : K m fs s -> publish now s = (ok, s') ->
    K m fs s' /\ advS m fs s m fs s' /\ queue s' = queue s /\ files s' = files s /\ cur_fdt s' = cur_fdt s
    /\ incl (fdtq s) (fdtq s')
    /\ (fdt_ok (fdtid s) = true -> forall id, In id (files s) ->
          full = true \/ t_transferring (f_t (at_ (objs s) id)) = true ->
          Cov (announced m) (objs s') (fdtq s') fs (toi (objs s) id)).
  Proof.
    intros HK H. unfold SenderCtl.publish in H. destruct (fdt_ok (fdtid s)) eqn:Eok.
    2:{ inversion H; subst. split; [assumption|]. split; [apply adv_refl|].
        do 3 (split; [reflexivity|]). split; [apply incl_refl|]. intros; congruence. }
    inversion H; subst ok s'; clear H. unfold K, advS. cbn [objs files queue fdtq cur_fdt full_fdt].
    destruct HK as (Hfu & (Hwf1 & Hwf2) & (Hfr & Hnd & Hcur) & Hfs & Hq).
    set (ob := objs s) in *. set (lst := map (toi_of s) _).
    set (o := mk_odesc 0 0 _ 0 1 _ TNone false _ lst). set (newf := mk_fdesc o true dummy_t).
    change (fold_left _ (files s) (ob ++ [newf])) with (pubf (files s) (ob ++ [newf])).
    set (ob' := pubf (files s) (ob ++ [newf])).
    assert (Hlen : length ob' = S (length ob)).
    { unfold ob'. destruct (pubfold (files s) (ob ++ [newf]) 0%nat) as (L & _). rewrite L, app_length. cbn. lia. }
    assert (Hold : forall j, (j < length ob)%nat -> keeps ob ob' j
               /\ (f_pub (at_ ob' j) = true -> f_pub (at_ ob j) = true \/ In j (files s))).
    { intros j Hj. unfold keeps, ob'. destruct (pubfold (files s) (ob ++ [newf]) j) as (_ & Ho & Ht & P1 & P2).
      rewrite Ho, Ht. rewrite app_nth1 in * by assumption. auto. }
    assert (Hnew : f_o (at_ ob' (length ob)) = o /\ f_t (at_ ob' (length ob)) = dummy_t
                   /\ f_pub (at_ ob' (length ob)) = true).
    { unfold ob'. destruct (pubfold (files s) (ob ++ [newf]) (length ob)) as (_ & Ho & Ht & P1 & _).
      rewrite Ho, Ht. rewrite nth_middle in *. auto. }
    assert (Hst : stab ob ob').
    { split; [lia|]. intros j Hj. apply (Hold j Hj). }
    assert (Hk : forall id fid, fdtobj ob id fid -> keeps ob ob' id).
    { intros id fid (Hl & _). apply (Hold id Hl). }
    assert (Hcov : forall t, Cov (announced m) ob (fdtq s) fs t ->
                             Cov (announced m) ob' (fdtq s ++ [length ob]) fs t).
    { intros t Ht. apply Cov_fq_incl with (fq := fdtq s); [apply incl_appl, incl_refl|].
      eapply Cov_stab; eauto. split; eauto. }
    assert (Hlist : forall id, In id (files s) ->
              full = true \/ t_transferring (f_t (at_ ob id)) = true ->
              Cov (announced m) ob' (fdtq s ++ [length ob]) fs (toi ob id)).
    { intros id Hid Hor. right; left. exists (length ob). split; [apply in_or_app; right; left; reflexivity|].
      unfold listing. destruct Hnew as (-> & _). unfold o, lst. cbn [o_listing].
      change (toi ob id) with (toi_of s id). apply in_map. rewrite Hfu.
      destruct full; [assumption|]. apply filter_In. split; [assumption|].
      destruct Hor as [?|Hor]; [discriminate|exact Hor]. }
    split; [|split; [split; assumption|repeat split; auto using incl_appl, incl_refl]].
    split; [assumption|]. split; [|split; [|split]].
    - split; intros id Hid; (eapply user_stab; [exact Hst|]); auto.
    - split; [|split].
      + intros i Hi. apply in_app_or in Hi. destruct Hi as [Hi|[<-|[]]].
        * pose proof (Hfr i Hi) as ((fid & Hl & Hx) & Hy). apply (fresh_keeps ob); [lia| |apply Hfr; assumption].
          apply (Hold i Hl).
        * destruct Hnew as (Ho & Ht & Hp). unfold fresh, fdtobj. rewrite Ho, Ht, Hp. split; [|split; reflexivity].
          exists (fdtid s). split; [lia|]. split; [|auto]. unfold fdt_od, o. cbn. auto 10.
      + apply NoDup_snoc; [assumption|]. intros Hi. destruct (Hfr _ Hi) as ((fid & Hl & _) & _). lia.
      + intros c Hc. destruct (Hcur c Hc) as (fid & Hf). exists fid. apply (fdtobj_keeps ob); eauto. lia.
    - apply (FS_frame m ob); [lia|exact Hk|exact Hfs].
    - intros id Hid. pose proof (Hwf2 id Hid) as (Hl & _). rewrite (toi_stab ob ob') by assumption.
      destruct (Hq id Hid) as [Hc|Hc]; [left; apply Hcov; assumption|].
      destruct full eqn:Efull; [|right; assumption].
      destruct (f_pub (at_ ob' id)) eqn:Ep; [|right; reflexivity].
      destruct (proj2 (Hold id Hl) Ep) as [Hp|Hp]; [congruence|]. left. apply Hlist; auto.
  Qed.

  (* ---------- the FDT session: get_next_fdt_transfer ---------- *)
  Lemma qcov_mono (P P' : N -> Prop) ob fl qu : (forall t, P t -> P' t) -> qcov P ob fl qu -> qcov P' ob fl qu.
  Proof. intros H Hq id Hid. destruct (Hq id Hid); auto. Qed.

  Lemma Cov_idle A ob fq fs fs' t : ss_enc fs = None -> Cov A ob fq fs t -> Cov A ob fq fs' t.
  Proof.
    intros E [?|[?|H]]; [left; assumption|right; left; assumption|].
    unfold pend_fs in H. rewrite E in H. destruct H.
  Qed.

  Lemma K_idle m fs fs' s : K m fs s -> ss_enc fs = None -> ss_enc fs' = None -> ss_fdt_only fs' = true ->
    K m fs' s.
  Proof.
    intros (Hfu & Hwu & Hwf & (Hfo & Hfs) & Hq) E E' Hfo'. rewrite E in Hfs.
    split; [assumption|]. split; [assumption|]. split; [assumption|]. split.
    - split; [assumption|]. rewrite E'. assumption.
    - eapply qcov_mono; [|exact Hq]. intros t. apply Cov_idle. assumption.
  Qed.

  Lemma fresh_should ob id fu now : fresh ob id -> should_transfer_now (at_ ob id) 0 fu now = true.
  Proof.
    intros ((fid & _ & (_ & _ & _ & Hprio & Hmax & _) & Hpub & _ & Hst) & Htr & Hcnt).
    unfold should_transfer_now. rewrite Hprio, Hpub, Hst, Htr, Hcnt, Hmax.
    destruct fu; reflexivity.
  Qed.

  Lemma start_fdt m fs ob fl qu fq fq' cur fu c fid t' p cl :
    Kc m fs ob fl qu fq cur fu -> ss_enc fs = None ->
    Wf ob fq' (Some c) -> ~ In c fq' -> fdtobj ob c fid ->
    (forall t, Cov (announced m) ob fq fs t -> Cov (announced m) ob fq' fs t \/ In t (listing ob c)) ->
    t_transferring t' = true -> t_next_ts t' = None -> t_start_time t' = None ->
    let ob' := upd c (fun _ => t') ob in
    let fs1 := mk_session p true (Some c) (Some (mk_enc (o_npk (f_o (at_ ob' c))) 0 false cl)) in
    Kc m fs1 ob' fl qu fq' (Some c) fu
    /\ (forall t, Cov (announced m) ob fq fs t -> Cov (announced m) ob' fq' fs1 t).
  Proof.
    intros (Hfu & Hwu & Hwf & (Hfo & Hfs) & Hq) E Hwf' Hnin Hobj Hcov Htr Hnx Hstt ob' fs1.
    rewrite E in Hfs.
    assert (Hcov' : forall t, Cov (announced m) ob fq fs t -> Cov (announced m) ob' fq' fs1 t).
    { intros t Ht. apply Cov_upd. destruct (Hcov t Ht) as [H|H].
      - eapply Cov_idle; eauto.
      - right; right. exact H. }
    split; [|exact Hcov'].
    split; [assumption|]. split; [apply Wu_upd; assumption|].
    split; [apply Wf_upd_fdt; auto|]. split.
    - split; [reflexivity|]. cbn [ss_enc fs1]. exists c, fid. cbn [ss_file fs1].
      assert (Hobj' : fdtobj ob' c fid) by (apply fdtobj_upd; auto).
      split; [reflexivity|]. split; [assumption|].
      destruct Hobj as (Hl & _). split; [unfold ob'; rewrite upd_ft by assumption; assumption|].
      destruct Hobj' as (_ & (_ & Hn & _) & _). rewrite Hn. cbn [e_stopped e_left e_sent].
      split; [reflexivity|]. split; [cbn; lia|]. split; [exact Hfs|].
      intros H0. pose proof (Hnpk fid). lia.
    - unfold ob'. apply qcov_upd with (fs := fs1). eapply qcov_mono; [|exact Hq].
      intros t Ht. destruct (Hcov t Ht) as [H|H]; [eapply Cov_idle; eauto|right; right; exact H].
  Qed.

  Lemma t_init_fdt o fid now t : fdt_od o fid ->
    t_init divf o now t = Some (mk_tinfo true (if (t_count t =? o_max o) && car_some (o_car o) then 0 else t_count t)
                                    (t_total t) (t_last_end t) (Some now) (t_next_ts t) None (t_start_time t)).
  Proof. intros (_ & _ & _ & _ & _ & Ht). unfold t_init. rewrite Ht. reflexivity. Qed.

  Lemma get_next_fdt m fs now s fs' s' : K m fs s -> ss_enc fs = None ->
    get_next fs now s = ROk _ (fs', s') -> K m fs' s' /\ advS m fs s m fs' s'.
  Proof.
    intros HK E H. pose proof HK as (_ & _ & _ & (Hfo & _) & _).
    unfold SenderCtl.get_next in H. rewrite Hfo in H. unfold SenderCtl.get_next_fdt_transfer in H.
    destruct (match cur_fdt s with Some c => t_transferring (f_t (obj s c)) | None => false end).
    { inversion H; subst. split; [eapply K_idle; eauto|]. split; [apply stab_refl|]. intros t. apply Cov_idle; assumption. }
    set (s1 := if current_fdt_will_expire now s then snd (publish now s) else s) in H.
    assert (H1 : K m fs s1 /\ advS m fs s m fs s1).
    { unfold s1. destruct (current_fdt_will_expire now s); [|split; [assumption|apply adv_refl]].
      destruct (publish now s) as [ok sp] eqn:Ep. destruct (publish_K _ _ _ _ _ _ HK Ep) as (? & ? & _). auto. }
    clearbody s1. destruct H1 as (HK1 & Hadv1).
    pose proof HK1 as (Hfu & Hwu & (Hfr & Hnd & Hcur) & HFS & Hq).
    destruct (fdtq s1) as [|x r] eqn:Eq.
    - destruct (cur_fdt s1) as [c|] eqn:Ec.
      2:{ inversion H; subst. split; [eapply K_idle; eauto|]. eapply adv_trans; [exact Hadv1|].
          split; [apply stab_refl|]. intros t. apply Cov_idle; assumption. }
      destruct (should_transfer_now (obj s1 c) 0 (full_fdt s1) now).
      2:{ inversion H; subst. split; [eapply K_idle; eauto|]. eapply adv_trans; [exact Hadv1|].
          split; [apply stab_refl|]. intros t. apply Cov_idle; assumption. }
      destruct (Hcur c eq_refl) as (fid & Hobj). pose proof Hobj as (Hl & Hod & Hpub & Hnx & Hstt).
      unfold SenderCtl.transfer_started in H. unfold obj in H. rewrite (t_init_fdt _ fid) in H by assumption.
      inversion H; subst fs' s'; clear H.
      unfold K, Kc in HK1. rewrite Eq, Ec in HK1.
      match goal with |- context [upd_t s1 c (fun _ => ?t)] => set (t' := t) end.
      destruct (start_fdt m fs (objs s1) (files s1) (queue s1) [] [] (Some c) (full_fdt s1) c fid t'
                  (ss_prio fs) (is_last_transfer (obj (upd_t s1 c (fun _ => t')) c))) as (HK2 & Hc2); auto.
      { split; [intros ? []|]. split; [constructor|]. intros c' Hc'. inversion Hc'; subst. eauto. }
      split; [unfold K; sred; rewrite Eq, Ec; exact HK2|]. eapply adv_trans; [exact Hadv1|]. unfold advS. sred. rewrite Eq.
      split; [exact (upd_stab c (fun _ => t') (objs s1))|exact Hc2].
    - cbn [cur_fdt set_cur_fdt] in H.
      assert (Hfx : fresh (objs s1) x) by (apply Hfr; left; reflexivity).
      change (obj (set_cur_fdt (set_fdtq s1 r) (Some x)) x) with (at_ (objs s1) x) in H.
      rewrite (fresh_should _ _ _ _ Hfx) in H.
      destruct Hfx as ((fid & Hobj) & Hfx). pose proof Hobj as (Hl & Hod & Hpub & Hnx & Hstt).
      unfold SenderCtl.transfer_started in H.
      change (obj (set_cur_fdt (set_fdtq s1 r) (Some x)) x) with (at_ (objs s1) x) in H.
      rewrite (t_init_fdt _ fid) in H by assumption.
      inversion H; subst fs' s'; clear H.
      unfold K, Kc in HK1. rewrite Eq in HK1. apply NoDup_cons_iff in Hnd. destruct Hnd as (Hnin & Hnd).
      match goal with |- context [upd_t _ x (fun _ => ?t)] => set (t' := t) end.
      destruct (start_fdt m fs (objs s1) (files s1) (queue s1) (x :: r) r (cur_fdt s1) (full_fdt s1) x fid t'
                  (ss_prio fs) (is_last_transfer (obj (upd_t (set_cur_fdt (set_fdtq s1 r) (Some x)) x (fun _ => t')) x)))
        as (HK2 & Hc2); auto.
      { split; [intros i Hi; apply Hfr; right; assumption|]. split; [assumption|].
        intros c' Hc'. inversion Hc'; subst. eauto. }
      { intros t [Ht|[(i & [<-|Hi] & Ht)|Ht]].
        - left; left; assumption.
        - right; assumption.
        - left; right; left; exists i; auto.
        - left; right; right; assumption. }
      split; [unfold K; sred; exact HK2|]. eapply adv_trans; [exact Hadv1|]. unfold advS. sred. rewrite Eq.
      split; [exact (upd_stab x (fun _ => t') (objs s1))|exact Hc2].
  Qed.

  (* ---------- transfer_done ---------- *)
  Lemma Kc_cur_none m fs ob fl qu fq cur fu : Kc m fs ob fl qu fq cur fu -> Kc m fs ob fl qu fq None fu.
  Proof.
    intros (Hfu & Hwu & (Hfr & Hnd & _) & Hfs & Hq). repeat (split; try assumption). intros; discriminate.
  Qed.

  Lemma Cov_fs_same A ob fq fs fs' t : pend_fs ob fs = pend_fs ob fs' -> Cov A ob fq fs t -> Cov A ob fq fs' t.
  Proof. intros E [?|[?|?]]; [left|right; left|right; right; rewrite <- E]; assumption. Qed.

  Lemma tdone_toi0 id now s : toi (objs s) id = 0 ->
    transfer_done id now s =
    if is_expired (at_ (upd id (t_done now) (objs s)) id)
    then set_cur_fdt (upd_t s id (t_done now)) None else upd_t s id (t_done now).
  Proof.
    intros H. unfold SenderCtl.transfer_done.
    change (obj (upd_t s id (t_done now)) id) with (at_ (upd id (t_done now) (objs s)) id).
    rewrite upd_fo. unfold toi in H. rewrite H. reflexivity.
  Qed.

  Lemma tdone_fdt m fs now s c e p : K m fs s -> ss_file fs = Some c -> ss_enc fs = Some e -> e_left e = 0%nat ->
    let fs0 := mk_session p true None None in
    K m fs0 (transfer_done c now s) /\ advS m fs s m fs0 (transfer_done c now s).
  Proof.
    intros (Hfu & Hwu & Hwf & (Hfo & Hfs) & Hq) Ef Ee El fs0. rewrite Ee in Hfs.
    destruct Hfs as (c' & fid & Ef' & Hobj & Htr & Hst & Hsum & Hpart & Hlist).
    rewrite Ef in Ef'. inversion Ef'; subst c'; clear Ef'.
    rewrite El in Hpart. cbn [Nat.eqb negb] in Hpart. rewrite andb_false_r in Hpart.
    specialize (Hlist El).
    pose proof Hobj as (Hl & (_ & _ & Htoi & _) & _ & Hnx & Hstt).
    assert (Hnin : ~ In c (fdtq s)).
    { intros Hi. destruct Hwf as (Hfr & _). destruct (Hfr c Hi) as (_ & Hf & _). congruence. }
    set (ob' := upd c (t_done now) (objs s)).
    assert (Hcov : forall t, Cov (announced m) (objs s) (fdtq s) fs t -> Cov (announced m) ob' (fdtq s) fs0 t).
    { intros t Ht. apply Cov_upd. destruct Ht as [?|[?|Ht]]; [left; assumption|right; left; assumption|].
      left. apply Hlist. unfold pend_fs in Ht. rewrite Ee, Ef in Ht. exact Ht. }
    assert (HK : Kc m fs0 ob' (files s) (queue s) (fdtq s) (cur_fdt s) (full_fdt s)).
    { split; [assumption|]. split; [apply Wu_upd; assumption|]. split; [apply Wf_upd_fdt; auto|].
      split; [split; [reflexivity|exact Hpart]|].
      eapply qcov_mono; [|apply qcov_upd; exact Hq]. intros t Ht. apply Hcov.
      apply (proj2 (Cov_upd _ _ _ _ c (t_done now) t)). exact Ht. }
    assert (Hadv : adv (announced m) (objs s) (fdtq s) fs (announced m) ob' (fdtq s) fs0).
    { split; [apply upd_stab|exact Hcov]. }
    rewrite tdone_toi0 by exact Htoi. fold ob'.
    destruct (is_expired (at_ ob' c)); unfold K, advS; sred; [|split; assumption].
    split; [eapply Kc_cur_none; exact HK|exact Hadv].
  Qed.

  Lemma tdone_user m fs now s id : K m fs s -> user (objs s) id ->
    Cov (announced m) (objs s) (fdtq s) fs (toi (objs s) id) ->
    K m fs (transfer_done id now s) /\ advS m fs s m fs (transfer_done id now s).
  Proof.
    intros HK Hu Hc. set (ob' := upd id (t_done now) (objs s)).
    assert (HK1 : Kc m fs ob' (files s) (queue s) (fdtq s) (cur_fdt s) (full_fdt s))
      by (apply Kc_upd_user; assumption).
    assert (Hadv : adv (announced m) (objs s) (fdtq s) fs (announced m) ob' (fdtq s) fs).
    { split; [apply upd_stab|]. intros t. apply Cov_upd. }
    assert (Hc' : Cov (announced m) ob' (fdtq s) fs (toi ob' id)).
    { unfold ob'. rewrite upd_toi. apply Cov_upd. assumption. }
    unfold SenderCtl.transfer_done.
    change (obj (upd_t s id (t_done now)) id) with (at_ ob' id).
    destruct (o_toi (f_o (at_ ob' id)) =? 0).
    { destruct (is_expired (at_ ob' id)); unfold K, advS; sred; [|split; assumption].
      split; [eapply Kc_cur_none; exact HK1|exact Hadv]. }
    cbv zeta.
    destruct (negb (is_added _ _)); [unfold K, advS; sred; split; assumption|].
    destruct (negb (is_expired (at_ ob' id))); unfold K, advS; sred; (split; [|exact Hadv]).
    - destruct HK1 as (Hfu & (Hw1 & Hw2) & Hwf & Hfs & Hq).
      split; [assumption|]. split; [|split; [assumption|split; [assumption|]]].
      + split; [assumption|]. intros j Hj. apply in_app_or in Hj. destruct Hj as [Hj|[<-|[]]]; [auto|].
        apply upd_user. assumption.
      + intros j Hj. apply in_app_or in Hj. destruct Hj as [Hj|[<-|[]]]; [auto|]. left. exact Hc'.
    - destruct HK1 as (Hfu & (Hw1 & Hw2) & Hwf & Hfs & Hq).
      unfold remove_toi. sred. fold ob'.
      split; [assumption|]. split; [|split; [assumption|split; [assumption|]]].
      + split; [|assumption]. intros j Hj. apply filter_In in Hj. apply Hw1. apply Hj.
      + intros j Hj. destruct (Hq j Hj) as [H|H]; [left; assumption|].
        destruct full; [right; assumption|].
        match goal with |- context [filter ?f _] => destruct (f j) eqn:Ej end.
        * right. apply filter_In. split; assumption.
        * left. apply negb_false_iff, N.eqb_eq in Ej.
          change (toi_of (log_ev (upd_t s id (t_done now)) (EvStop (o_toi (f_o (at_ ob' id))))) j) with (toi ob' j) in Ej.
          change (Cov (announced m) ob' (fdtq s) fs (toi ob' j)). rewrite Ej. exact Hc'.
  Qed.

  (* ---------- the FDT session emits a packet ---------- *)
  Definition listing_ev (fs : session) (s : st) : option (list N) :=
    match ss_file fs, ss_enc fs with
    | Some fid, Some e => if Nat.eqb (e_left e) 0 then Some (o_listing (f_o (obj s fid))) else None
    | _, _ => None
    end.

  Lemma tick_none t : t_next_ts t = None -> t_tickf t = t.
  Proof. intros H. unfold t_tickf. rewrite H. destruct (t_tick t); reflexivity. Qed.

  Lemma fdt_emit m fs now s c e l fid close p :
    K m fs s -> ss_enc fs = Some e -> ss_file fs = Some c -> e_left e = S l ->
    o_fdtid (f_o (at_ (objs s) c)) = Some fid ->
    let e' := mk_enc l (e_sent e + 1) false (e_closable e) in
    let fs' := mk_session p true (Some c) (Some e') in
    let s' := upd_t s c t_tickf in
    let m' := snd (c11_step m (TRead now (RFdt fid close) (fdt_npk fid) (listing_ev fs' s'))) in
    K m' fs' s' /\ advS m fs s m' fs' s'.
  Proof.
    intros (Hfu & Hwu & Hwf & (Hfo & Hfs) & Hq) Ee Ef El Hfid e' fs' s' m'. rewrite Ee in Hfs.
    destruct Hfs as (c' & fid' & Ef' & Hobj & Htr & Hst & Hsum & Hpart & Hlist).
    rewrite Ef in Ef'. inversion Ef'; subst c'; clear Ef'.
    assert (fid' = fid) by (destruct Hobj as (_ & (Hx & _) & _); congruence). subst fid'.
    pose proof Hobj as (Hl & _ & _ & Hnx & Hstt).
    assert (Hnin : ~ In c (fdtq s)).
    { intros Hi. destruct Hwf as (Hfr & _). destruct (Hfr c Hi) as (_ & Hf & _). congruence. }
    set (ob' := upd c t_tickf (objs s)).
    assert (Htk : t_tickf (f_t (at_ (objs s) c)) = f_t (at_ (objs s) c)) by (apply tick_none; assumption).
    assert (Hobj' : fdtobj ob' c fid) by (apply fdtobj_upd; [assumption|rewrite Htk; auto]).
    assert (Hwf' : Wf ob' (fdtq s) (cur_fdt s)) by (apply Wf_upd_fdt; [assumption|rewrite Htk; auto|assumption]).
    assert (Htr' : t_transferring (f_t (at_ ob' c)) = true).
    { unfold ob'. rewrite upd_ft by assumption. rewrite Htk. assumption. }
    set (n := N.to_nat (e_sent e)) in *.
    assert (Hcnt : match partial m with
                   | Some (id', k) => if id' =? fid then S k else 1%nat
                   | None => 1%nat
                   end = S n).
    { rewrite Hpart, El. cbn [Nat.eqb negb]. rewrite andb_true_r.
      destruct (N.ltb_spec 0 (e_sent e)) as [Hlt|Hge].
      - rewrite N.eqb_refl. reflexivity.
      - unfold n. replace (e_sent e) with 0 by lia. reflexivity. }
    assert (Hn1 : N.to_nat (e_sent e + 1) = S n) by (unfold n; lia).
    assert (Hpend : pend_fs ob' fs = pend_fs ob' fs').
    { unfold pend_fs. rewrite Ee, Ef. reflexivity. }
    assert (Hlev : listing_ev fs' s' = if Nat.eqb l 0 then Some (listing ob' c) else None) by reflexivity.
    assert (Hcov : forall A', incl (announced m) A' -> forall t,
              Cov (announced m) (objs s) (fdtq s) fs t -> Cov A' ob' (fdtq s) fs' t).
    { intros A' Hi t Ht. apply Cov_fs_same with (fs := fs); [assumption|].
      apply Cov_A_incl with (A := announced m); [assumption|]. apply Cov_upd. assumption. }
    unfold m', c11_step. cbn [partial announced]. rewrite Hcnt, Hlev. rewrite El in Hsum.
    destruct l as [|l'].
    - (* the instance is complete *)
      assert (Hle : Nat.leb (fdt_npk fid) (S n) = true) by (apply Nat.leb_le; lia).
      rewrite Hle. cbn [snd Nat.eqb]. unfold K, advS. sred. fold ob'. cbn [announced].
      split; [|split; [apply upd_stab|apply Hcov; apply incl_appl, incl_refl]].
      split; [assumption|]. split; [apply Wu_upd; assumption|]. split; [assumption|]. split.
      + split; [reflexivity|]. cbn [ss_enc fs']. exists c, fid. cbn [ss_file fs' e' e_stopped e_left e_sent partial announced].
        split; [reflexivity|]. split; [assumption|]. split; [assumption|]. split; [reflexivity|].
        split; [lia|]. split; [cbn [Nat.eqb negb]; rewrite andb_false_r; reflexivity|].
        intros _. apply incl_appr, incl_refl.
      + eapply qcov_mono; [|apply qcov_upd; exact Hq]. intros t Ht.
        apply Cov_fs_same with (fs := fs); [assumption|]. eapply Cov_A_incl; [|exact Ht]. apply incl_appl, incl_refl.
    - assert (Hle : Nat.leb (fdt_npk fid) (S n) = false) by (apply Nat.leb_gt; lia).
      rewrite Hle. cbn [snd Nat.eqb]. unfold K, advS. sred. fold ob'. cbn [announced].
      split; [|split; [apply upd_stab|apply Hcov; apply incl_refl]].
      split; [assumption|]. split; [apply Wu_upd; assumption|]. split; [assumption|]. split.
      + split; [reflexivity|]. cbn [ss_enc fs']. exists c, fid. cbn [ss_file fs' e' e_stopped e_left e_sent partial announced].
        split; [reflexivity|]. split; [assumption|]. split; [assumption|]. split; [reflexivity|].
        split; [lia|]. split; [|intros; discriminate].
        cbn [Nat.eqb negb]. rewrite andb_true_r, Hn1.
        destruct (N.ltb_spec 0 (e_sent e + 1)); [reflexivity|lia].
      + eapply qcov_mono; [|apply qcov_upd; exact Hq]. intros t Ht.
        apply Cov_fs_same with (fs := fs); assumption.
  Qed.

  (* ---------- SenderSession::run of the FDT session ---------- *)
  Definition fdt_post (m : c11st) (fs : session) (now : Z) (s : st) (o : rout) (fs' : session) (s' : st) : Prop :=
    match o with
    | RFdt fid close =>
      let m' := snd (c11_step m (TRead now (RFdt fid close) (fdt_npk fid) (listing_ev fs' s'))) in
      K m' fs' s' /\ advS m fs s m' fs' s'
    | RObj _ _ => False
    | RNothing => K m fs' s' /\ advS m fs s m fs' s' /\ ss_enc fs' = None
    | _ => K m fs' s' /\ advS m fs s m fs' s'
    end.

  Lemma fdt_post_trans m fs0 s0 fs now s o fs' s' :
    advS m fs0 s0 m fs s -> fdt_post m fs now s o fs' s' -> fdt_post m fs0 now s0 o fs' s'.
  Proof.
    intros Ha. unfold fdt_post. destruct o; try (intros (HK & Hb); split; [exact HK|]);
      try (eapply adv_trans; [exact Ha|exact Hb]); auto.
    destruct Hb as (Hb & He). split; [|exact He]. eapply adv_trans; [exact Ha|exact Hb].
  Qed.

  Lemma fdt_run : forall fuel m fs now s o fs' s', K m fs s ->
    session_run fuel fs now s = (o, fs', s') -> fdt_post m fs now s o fs' s'.
  Proof.
    induction fuel as [|f IH]; intros m fs now s o fs' s' HK H; cbn [SenderCtl.session_run] in H.
    { inversion H; subst. split; [assumption|apply adv_refl]. }
    set (r := match ss_enc fs with None => get_next fs now s | Some _ => ROk _ (fs, s) end) in H.
    assert (Hr : match r with
                 | RPanicked _ => True
                 | ROk _ (fs1, s1) => K m fs1 s1 /\ advS m fs s m fs1 s1
                 end).
    { unfold r. destruct (ss_enc fs) eqn:Ee; [split; [assumption|apply adv_refl]|].
      destruct (get_next fs now s) as [[fs1 s1]|] eqn:Eg; [|exact I].
      eapply get_next_fdt; eauto. }
    destruct r as [[fs1 s1]|]; [|inversion H; subst; split; [assumption|apply adv_refl]].
    destruct Hr as (HK1 & Ha1). apply (fdt_post_trans m fs s fs1 now s1); [exact Ha1|]. clear Ha1 HK.
    pose proof HK1 as (_ & _ & _ & (Hfo & Hfs) & _). rewrite Hfo in H. cbn [negb andb] in H.
    destruct (ss_enc fs1) as [e|] eqn:Ee.
    2:{ assert (o = RNothing /\ fs' = fs1 /\ s' = s1) as (-> & -> & ->)
          by (destruct (ss_file fs1); inversion H; auto).
        split; [assumption|]. split; [apply adv_refl|assumption]. }
    destruct Hfs as (c & fid & Ef & Hobj & Htr & Hst & Hsum & Hpart & Hlist). rewrite Ef in H.
    pose proof Hobj as (Hl & (Hfid & _) & _ & Hnx & _).
    unfold obj in H. rewrite Hnx, Hfid in H.
    unfold enc_read in H. rewrite Hst in H.
    destruct (e_left e) as [|l] eqn:El.
    - assert (Hs0 : (e_sent e =? 0) = false).
      { apply N.eqb_neq. pose proof (Hnpk fid). lia. }
      rewrite Hs0 in H.
      destruct (tdone_fdt m fs1 now s1 c e (ss_prio fs1) HK1 Ef Ee El) as (HK2 & Ha2).
      eapply fdt_post_trans; [exact Ha2|]. eapply IH; [exact HK2|exact H].
    - inversion H; subst o fs' s'; clear H. unfold fdt_post.
      apply (fdt_emit m fs1 now s1 c e l fid); assumption.
  Qed.

  Lemma objs_upd_t s id g : objs (upd_t s id g) = upd id g (objs s).
  Proof. reflexivity. Qed.

  (* ---------- file sessions ---------- *)
  Lemma Kc_queue_sub m fs ob fl qu qu' fq cur fu : incl qu' qu ->
    Kc m fs ob fl qu fq cur fu -> Kc m fs ob fl qu' fq cur fu.
  Proof.
    intros Hi (Hfu & (Hw1 & Hw2) & Hwf & Hfs & Hq). split; [assumption|]. split; [split; auto|].
    split; [assumption|]. split; [assumption|]. intros id Hid. apply Hq. auto.
  Qed.

  Lemma t_init_transferring o now t t' : t_init divf o now t = Some t' -> t_transferring t' = true.
  Proof.
    unfold t_init. intros H.
    destruct (match o_target o with
              | TNone | TFast => Some None
              | TDuration d => match divf d (N.max 1 (o_nsrc o)) with Some k => Some (Some k) | None => None end
              | TTime tm => match divf (Z.max 0 (tm - now)) (N.max 1 (o_nsrc o)) with Some k => Some (Some k) | None => None end
              end); [|discriminate].
    inversion H. reflexivity.
  Qed.

  Lemma should_pub f prio now : should_transfer_now f prio true now = true -> f_pub f = true.
  Proof.
    unfold should_transfer_now. destruct (negb (o_prio (f_o f) =? prio)); [discriminate|].
    destruct (f_pub f); [reflexivity|discriminate].
  Qed.

  Lemma get_next_file m fs prio now s r s' : K m fs s ->
    get_next_file_transfer prio now s = ROk _ (r, s') ->
    K m fs s' /\ advS m fs s m fs s'
    /\ match r with
       | None => True
       | Some id => user (objs s') id /\ Cov (announced m) (objs s') (fdtq s') fs (toi (objs s') id)
       end.
  Proof.
    intros HK H. unfold SenderCtl.get_next_file_transfer in H.
    destruct (find_remove _ (queue s)) as [[id q']|] eqn:E.
    2:{ inversion H; subst. split; [assumption|]. split; [apply adv_refl|exact I]. }
    apply c11_find_remove_first in E. destruct E as (a & b & Eq & Eq' & Hp).
    assert (Hin : In id (queue s)) by (rewrite Eq; apply in_or_app; right; left; reflexivity).
    assert (Hsub : incl q' (queue s)).
    { rewrite Eq, Eq'. intros x Hx. apply in_app_or in Hx. apply in_or_app. destruct Hx; [left|right; right]; assumption. }
    pose proof HK as (Hfu & (Hw1 & Hw2) & Hwf & Hfs & Hq).
    pose proof (Hw2 id Hin) as Hu.
    unfold SenderCtl.transfer_started in H.
    destruct (t_init divf _ now _) as [t'|] eqn:Et; [|discriminate].
    apply t_init_transferring in Et.
    set (s2 := upd_t (log_ev (set_queue s q') (EvStart (toi_of s id))) id (fun _ => t')) in *.
    assert (HK2 : K m fs s2).
    { unfold K, s2. sred. apply (Kc_upd_user _ _ _ _ _ _ _ _ id (fun _ => t')); [assumption|].
      eapply Kc_queue_sub; eauto. }
    assert (Ha2 : advS m fs s m fs s2).
    { unfold advS, s2. sred. split; [exact (upd_stab id (fun _ => t') (objs s))|].
      intros t. apply (Cov_upd _ _ _ _ id (fun _ => t')). }
    assert (Hu2 : user (objs s2) id) by (unfold s2; sred; apply (upd_user id (fun _ => t')); assumption).
    assert (Htoi2 : toi (objs s2) id = toi (objs s) id) by (unfold s2; sred; apply (upd_toi id (fun _ => t'))).
    assert (Hf2 : full_fdt s2 = full) by exact Hfu.
    rewrite Hf2 in H. rewrite Hfu in Hp.
    assert (Hcase : full = true \/ full = false) by (destruct full; auto).
    destruct Hcase as [Efull|Efull]; rewrite Efull in H, Hp.
    - inversion H; subst r s'; clear H. split; [assumption|]. split; [assumption|]. split; [assumption|].
      rewrite Htoi2. apply Ha2. destruct (Hq id Hin) as [Hc|Hc]; [assumption|].
      rewrite Efull in Hc. apply should_pub in Hp. unfold obj in Hp. congruence.
    - pose proof Hmode as [?|Hok]; [congruence|].
      destruct (publish now s2) as [ok s3] eqn:Ep. cbn [snd] in H. inversion H; subst r s'; clear H.
      destruct (publish_K _ _ _ _ _ _ HK2 Ep) as (HK3 & Ha3 & _ & _ & _ & _ & Hlst).
      split; [assumption|]. split; [eapply adv_trans; eauto|].
      pose proof Ha3 as (Hs3 & Hc3).
      split; [eapply user_stab; eauto|]. rewrite (toi_stab _ _ _ Hs3) by apply Hu2.
      destruct (Hq id Hin) as [Hc|Hc]; [|rewrite Efull in Hc].
      + apply Hc3. rewrite Htoi2. apply Ha2. assumption.
      + apply Hlst; [apply Hok|exact Hc|]. right.
        unfold s2. sred. rewrite (upd_ft id (fun _ => t')) by apply Hu. assumption.
  Qed.

  Definition out_ok (m : c11st) (o : rout) : Prop :=
    match o with
    | RObj t _ => partial m = None /\ In t (announced m)
    | RFdt _ _ => False
    | _ => True
    end.

  Definition SSs (m : c11st) (fs : session) (s : st) (ss : session) : Prop :=
    SS (Cov (announced m) (objs s) (fdtq s) fs) (objs s) ss.

  Definition file_post (m : c11st) (fs : session) (s : st) (o : rout) (ss' : session) (s' : st) : Prop :=
    K m fs s' /\ advS m fs s m fs s' /\ SSs m fs s' ss' /\ out_ok m o.

  Lemma file_post_trans m fs s0 s o ss' s' :
    advS m fs s0 m fs s -> file_post m fs s o ss' s' -> file_post m fs s0 o ss' s'.
  Proof. intros Ha (HK & Hb & Hs & Ho). split; [assumption|]. split; [eapply adv_trans; eauto|auto]. Qed.

  Lemma SSs_idle m fs s p : SSs m fs s (mk_session p false None None).
  Proof. split; [reflexivity|]. intros id H. discriminate. Qed.

  Lemma file_run : forall fuel m fs ss now s o ss' s', K m fs s -> ss_enc fs = None ->
    SSs m fs s ss -> session_run fuel ss now s = (o, ss', s') -> file_post m fs s o ss' s'.
  Proof.
    induction fuel as [|f IH]; intros m fs ss now s o ss' s' HK Efs HS H; cbn [SenderCtl.session_run] in H.
    { inversion H; subst. split; [assumption|]. split; [apply adv_refl|]. split; [assumption|exact I]. }
    set (r := match ss_enc ss with None => get_next ss now s | Some _ => ROk _ (ss, s) end) in H.
    assert (Hr : match r with
                 | RPanicked _ => True
                 | ROk _ (ss1, s1) => K m fs s1 /\ advS m fs s m fs s1 /\ SSs m fs s1 ss1
                 end).
    { unfold r. destruct (ss_enc ss) eqn:Ee; [split; [assumption|split; [apply adv_refl|assumption]]|].
      unfold SenderCtl.get_next. destruct HS as (Hfo & _). rewrite Hfo.
      destruct (get_next_file_transfer (ss_prio ss) now s) as [[[id|] s1]|] eqn:Eg; [| |exact I];
        destruct (get_next_file _ _ _ _ _ _ _ HK Eg) as (HK1 & Ha1 & Hid);
        (split; [assumption|]); (split; [assumption|]); [|apply SSs_idle].
      split; [reflexivity|]. cbn [ss_file]. intros id' Hid'. inversion Hid'; subst id'. exact Hid. }
    destruct r as [[ss1 s1]|];
      [|inversion H; subst; split; [assumption|]; split; [apply adv_refl|]; split; [assumption|exact I]].
    destruct Hr as (HK1 & Ha1 & HS1). apply (file_post_trans m fs s s1); [exact Ha1|]. clear Ha1 HK HS.
    assert (Hnothing : file_post m fs s1 RNothing ss1 s1).
    { split; [assumption|]. split; [apply adv_refl|]. split; [assumption|exact I]. }
    pose proof HS1 as (Hfo & Hfile). rewrite Hfo in H. cbn [negb andb] in H.
    destruct (Nat.eqb (length (fdtq s1)) 0) eqn:Eq; cbn [negb] in H; [|inversion H; subst; exact Hnothing].
    apply Nat.eqb_eq in Eq. assert (Hq0 : fdtq s1 = []) by (destruct (fdtq s1); [reflexivity|discriminate]).
    destruct (ss_enc ss1) as [e|]; [|inversion H; subst; exact Hnothing].
    destruct (ss_file ss1) as [id|]; [|inversion H; subst; exact Hnothing].
    destruct (Hfile id eq_refl) as (Hu & Hc).
    destruct (match t_next_ts (f_t (obj s1 id)) with Some ts => (now <? ts)%Z | None => false end);
      [inversion H; subst; exact Hnothing|].
    destruct (enc_read _ e) as [[close|] e'].
    - pose proof Hu as (_ & Hfid). unfold obj in H. rewrite Hfid in H.
      inversion H; subst o ss' s'; clear H. unfold file_post, SSs, K, advS. rewrite !objs_upd_t. sred.
      split; [apply Kc_upd_user; assumption|].
      split; [split; [apply upd_stab|intros t; apply Cov_upd]|].
      split.
      + split; [reflexivity|]. cbn [ss_file]. intros id' Hid'. inversion Hid'; subst id'.
        split; [apply upd_user; assumption|]. rewrite upd_toi. apply Cov_upd. assumption.
      + pose proof HK1 as (_ & _ & _ & (_ & Hfs) & _). rewrite Efs in Hfs. split; [assumption|].
        rewrite Hq0 in Hc. destruct Hc as [Hc|[(i & [] & _)|Hc]]; [exact Hc|].
        unfold pend_fs in Hc. rewrite Efs in Hc. destruct Hc.
    - destruct (tdone_user m fs now s1 id HK1 Hu Hc) as (HK2 & Ha2).
      eapply file_post_trans; [exact Ha2|]. eapply IH; [exact HK2|exact Efs|apply SSs_idle|exact H].
  Qed.

  (* ---------- the session fields of the state are not touched by a session run ---------- *)
  Definition sameSF (s s' : st) : Prop := squeues s' = squeues s /\ fdt_session s' = fdt_session s.

  Lemma sameSF_refl s : sameSF s s. Proof. split; reflexivity. Qed.
  Lemma sameSF_trans a b c : sameSF a b -> sameSF b c -> sameSF a c.
  Proof. intros [A1 A2] [B1 B2]. split; congruence. Qed.

  Lemma publish_sf now s : sameSF s (snd (publish now s)).
  Proof. unfold SenderCtl.publish. destruct (fdt_ok (fdtid s)); split; reflexivity. Qed.

  Lemma tdone_sf id now s : sameSF s (transfer_done id now s).
  Proof.
    unfold SenderCtl.transfer_done.
    repeat match goal with |- context [if ?b then _ else _] => destruct b end; split; reflexivity.
  Qed.

  Lemma tstart_sf id now s s' : transfer_started divf id now s = ROk _ s' -> sameSF s s'.
  Proof.
    unfold SenderCtl.transfer_started. destruct (t_init divf _ now _); [|discriminate].
    intros H; inversion H; subst. split; reflexivity.
  Qed.

  Lemma get_next_sf ss now s ss' s' : get_next ss now s = ROk _ (ss', s') -> sameSF s s'.
  Proof.
    unfold SenderCtl.get_next. intros H.
    assert (Hs : forall r s1, (if ss_fdt_only ss then get_next_fdt_transfer now s
                               else get_next_file_transfer (ss_prio ss) now s) = ROk _ (r, s1) -> sameSF s s1).
    { intros r s1 E. destruct (ss_fdt_only ss).
      - unfold SenderCtl.get_next_fdt_transfer in E.
        destruct (match cur_fdt s with Some c => t_transferring (f_t (obj s c)) | None => false end);
          [inversion E; subst; apply sameSF_refl|].
        set (s0 := if current_fdt_will_expire now s then snd (publish now s) else s) in E.
        assert (H0 : sameSF s s0) by (unfold s0; destruct (current_fdt_will_expire now s); [apply publish_sf|apply sameSF_refl]).
        clearbody s0.
        set (s2 := match fdtq s0 with [] => s0 | x :: r => set_cur_fdt (set_fdtq s0 r) (Some x) end) in E.
        assert (H2 : sameSF s s2) by (unfold s2; destruct (fdtq s0); exact H0).
        clearbody s2. destruct (cur_fdt s2) as [c|]; [|inversion E; subst; exact H2].
        destruct (should_transfer_now (obj s2 c) 0 (full_fdt s2) now); [|inversion E; subst; exact H2].
        destruct (transfer_started divf c now s2) as [s3|] eqn:Et; [|discriminate].
        inversion E; subst. eapply sameSF_trans; [exact H2|eapply tstart_sf; eauto].
      - unfold SenderCtl.get_next_file_transfer in E.
        destruct (find_remove _ (queue s)) as [[id q']|]; [|inversion E; subst; apply sameSF_refl].
        destruct (transfer_started divf id now _) as [s3|] eqn:Et; [|discriminate].
        apply tstart_sf in Et. inversion E; subst.
        destruct (full_fdt s3); [exact Et|]. eapply sameSF_trans; [exact Et|apply publish_sf]. }
    destruct (if ss_fdt_only ss then _ else _) as [[[id|] s1]|]; [| |discriminate];
      inversion H; subst; eapply Hs; reflexivity.
  Qed.

  Lemma session_run_sf : forall fuel ss now s o ss' s', session_run fuel ss now s = (o, ss', s') -> sameSF s s'.
  Proof.
    induction fuel as [|f IH]; intros ss now s o ss' s' H; cbn [SenderCtl.session_run] in H.
    { inversion H; subst. apply sameSF_refl. }
    set (r := match ss_enc ss with None => get_next ss now s | Some _ => ROk _ (ss, s) end) in H.
    assert (Hr : forall ss1 s1, r = ROk _ (ss1, s1) -> sameSF s s1).
    { intros ss1 s1 E. unfold r in E. destruct (ss_enc ss); [inversion E; subst; apply sameSF_refl|].
      eapply get_next_sf; eauto. }
    destruct r as [[ss1 s1]|]; [|inversion H; subst; apply sameSF_refl].
    specialize (Hr _ _ eq_refl).
    destruct (negb (ss_fdt_only ss1) && negb (Nat.eqb (length (fdtq s1)) 0)); [inversion H; subst; exact Hr|].
    destruct (ss_enc ss1) as [e|]; [|inversion H; subst; exact Hr].
    destruct (ss_file ss1) as [id|]; [|inversion H; subst; exact Hr].
    destruct (match t_next_ts (f_t (obj s1 id)) with Some ts => (now <? ts)%Z | None => false end);
      [inversion H; subst; exact Hr|].
    destruct (enc_read _ e) as [[close|] e'].
    - inversion H; subst. exact Hr.
    - apply IH in H. eapply sameSF_trans; [exact Hr|]. eapply sameSF_trans; [apply tdone_sf|exact H].
  Qed.

  (* ---------- round robin over the sessions of a queue, and over the queues ---------- *)
  Definition QSs (m : c11st) (fs : session) (s : st) (l : list session) : Prop :=
    forall ss, In ss l -> SSs m fs s ss.
  Definition QQs (m : c11st) (fs : session) (s : st) (qs : list squeue) : Prop :=
    forall q, In q qs -> QSs m fs s (q_sessions q).

  Lemma SSs_adv m fs s m' fs' s' ss : advS m fs s m' fs' s' -> SSs m fs s ss -> SSs m' fs' s' ss.
  Proof. apply SS_adv. Qed.
  Lemma QSs_adv m fs s m' fs' s' l : advS m fs s m' fs' s' -> QSs m fs s l -> QSs m' fs' s' l.
  Proof. intros Ha H ss Hss. eapply SSs_adv; eauto. Qed.
  Lemma QQs_adv m fs s m' fs' s' l : advS m fs s m' fs' s' -> QQs m fs s l -> QQs m' fs' s' l.
  Proof. intros Ha H q Hq. eapply QSs_adv; eauto. Qed.

  Lemma In_upd_const {A} (x : A) : forall l i y, In y (upd_nth i (fun _ => x) l) -> y = x \/ In y l.
  Proof.
    induction l as [|a l IH]; intros [|i] y H; cbn in *; auto.
    - destruct H as [<-|H]; auto.
    - destruct H as [<-|H]; auto. destruct (IH _ _ H); auto.
  Qed.

  Definition loop_post {Q} (QP : c11st -> session -> st -> Q -> Prop)
             (m : c11st) (fs : session) (s : st) (o : rout) (q' : Q) (s' : st) : Prop :=
    K m fs s' /\ advS m fs s m fs s' /\ sameSF s s' /\ QP m fs s' q' /\ out_ok m o.

  Lemma rr_ok : forall n m fs q orig now s o q' s', K m fs s -> ss_enc fs = None ->
    QSs m fs s (q_sessions q) -> rr_loop n q orig now s = (o, q', s') ->
    loop_post (fun m fs s q => QSs m fs s (q_sessions q)) m fs s o q' s'.
  Proof.
    induction n as [|n IH]; intros m fs q orig now s o q' s' HK Efs HQ H; cbn [SenderCtl.rr_loop] in H.
    { inversion H; subst. split; [assumption|]. split; [apply adv_refl|]. split; [apply sameSF_refl|]. split; [assumption|exact I]. }
    destruct (nth_error (q_sessions q) (q_index q)) as [ss|] eqn:En.
    2:{ inversion H; subst. split; [assumption|]. split; [apply adv_refl|]. split; [apply sameSF_refl|]. split; [assumption|exact I]. }
    apply nth_error_In in En.
    destruct (session_run 4 ss now s) as [[o1 ss1] s1] eqn:Er.
    pose proof (session_run_sf _ _ _ _ _ _ _ Er) as Hsf.
    apply (file_run 4 m fs ss now s o1 ss1 s1 HK Efs (HQ ss En)) in Er. destruct Er as (HK1 & Ha1 & HS1 & Ho1).
    set (q1 := mk_squeue (q_prio q) _ _) in H.
    assert (HQ1 : QSs m fs s1 (q_sessions q1)).
    { unfold q1. cbn [q_sessions]. intros y Hy. apply In_upd_const in Hy. destruct Hy as [->|Hy]; [assumption|].
      eapply SSs_adv; [exact Ha1|]. apply HQ. assumption. }
    assert (Hdone : loop_post (fun m fs s q => QSs m fs s (q_sessions q)) m fs s o1 q1 s1).
    { split; [assumption|]. split; [assumption|]. split; [assumption|]. split; assumption. }
    destruct o1; try (inversion H; subst; exact Hdone).
    destruct (Nat.eqb _ orig); [inversion H; subst; exact Hdone|].
    apply (IH m fs q1 orig now s1 o q' s' HK1 Efs HQ1) in H. destruct H as (HK2 & Ha2 & Hsf2 & HQ2 & Ho2).
    split; [assumption|]. split; [eapply adv_trans; eauto|]. split; [eapply sameSF_trans; eauto|]. split; assumption.
  Qed.

  Lemma rq_ok : forall todo done m fs now s o qs s', K m fs s -> ss_enc fs = None ->
    QQs m fs s done -> QQs m fs s todo -> read_queues done todo now s = (o, qs, s') ->
    loop_post QQs m fs s o qs s'.
  Proof.
    induction todo as [|q r IH]; intros done m fs now s o qs s' HK Efs HD HT H; cbn [SenderCtl.read_queues] in H.
    { inversion H; subst. split; [assumption|]. split; [apply adv_refl|]. split; [apply sameSF_refl|]. split; [assumption|exact I]. }
    destruct (read_priority_queue q now s) as [[o1 q1] s1] eqn:Er.
    unfold SenderCtl.read_priority_queue in Er.
    apply (rr_ok _ m fs q _ now s o1 q1 s1 HK Efs (HT q (or_introl eq_refl))) in Er.
    destruct Er as (HK1 & Ha1 & Hsf1 & HQ1 & Ho1).
    assert (HD1 : QQs m fs s1 (done ++ [q1])).
    { intros x Hx. apply in_app_or in Hx. destruct Hx as [Hx|[<-|[]]]; [|assumption].
      eapply QSs_adv; [exact Ha1|]. apply HD. assumption. }
    assert (HT1 : QQs m fs s1 r).
    { intros x Hx. eapply QSs_adv; [exact Ha1|]. apply HT. right. assumption. }
    assert (Hdone : loop_post QQs m fs s o1 (done ++ q1 :: r) s1).
    { split; [assumption|]. split; [assumption|]. split; [assumption|]. split; [|assumption].
      intros x Hx. apply in_app_or in Hx. destruct Hx as [Hx|[<-|Hx]]; [|assumption|apply HT1; assumption].
      apply HD1. apply in_or_app. left. assumption. }
    destruct o1; try (inversion H; subst; exact Hdone).
    apply (IH _ m fs now s1 o qs s' HK1 Efs HD1 HT1) in H. destruct H as (HK2 & Ha2 & Hsf2 & HQ2 & Ho2).
    split; [assumption|]. split; [eapply adv_trans; eauto|]. split; [eapply sameSF_trans; eauto|]. split; assumption.
  Qed.

  (* ---------- Sender::read ---------- *)
  Definition Inv (m : c11st) (s : st) : Prop :=
    K m (fdt_session s) s /\ QQs m (fdt_session s) s (squeues s).

  Definition step_post (m : c11st) (ev : tev) (s' : st) : Prop :=
    fst (c11_step m ev) = true /\ Inv (snd (c11_step m ev)) s'.

  Lemma c11_step_fdt_true m now fid close npk lst : fst (c11_step m (TRead now (RFdt fid close) npk lst)) = true.
  Proof. unfold c11_step. destruct (Nat.leb npk _); reflexivity. Qed.

  (* the FDT session has run on a state satisfying the invariant *)
  Lemma fdt_phase m now s o fs1 s1 : Inv m s ->
    session_run 4 (fdt_session s) now s = (o, fs1, s1) ->
    match o with
    | RFdt _ _ => step_post m (ev_of fdt_npk (OpRead now) (OutRead o) (set_fdt_session s1 fs1)) (set_fdt_session s1 fs1)
    | RObj _ _ => False
    | RNothing => Inv m (set_fdt_session s1 fs1) /\ ss_enc fs1 = None
    | _ => Inv m (set_fdt_session s1 fs1)
    end.
  Proof.
    intros (HK & HQ) H. pose proof (session_run_sf _ _ _ _ _ _ _ H) as (Hsq & _).
    apply (fdt_run 4 m _ now s o fs1 s1 HK) in H. unfold fdt_post in H.
    destruct o.
    - destruct H as (HK1 & Ha1 & He). split; [|assumption]. split; [exact HK1|].
      sred. rewrite Hsq. eapply QQs_adv; eauto.
    - destruct H as (HK1 & Ha1). split; [apply c11_step_fdt_true|]. split; [exact HK1|].
      sred. rewrite Hsq. eapply QQs_adv; eauto.
    - exact H.
    - destruct H as (HK1 & Ha1). split; [exact HK1|]. sred. rewrite Hsq. eapply QQs_adv; eauto.
    - destruct H as (HK1 & Ha1). split; [exact HK1|]. sred. rewrite Hsq. eapply QQs_adv; eauto.
  Qed.

  Lemma read_ok m now s r s' : Inv m s -> sender_read now s = (r, s') ->
    step_post m (ev_of fdt_npk (OpRead now) (OutRead r) s') s'.
  Proof.
    intros HI H. unfold SenderCtl.sender_read, SenderCtl.run_fdt_session in H.
    destruct (session_run 4 (fdt_session s) now s) as [[o1 fs1] s1] eqn:E1.
    pose proof (fdt_phase m now s o1 fs1 s1 HI E1) as P1.
    destruct o1; try (inversion H; subst r s'; clear H).
    - (* the FDT session has nothing: the queues *)
      destruct P1 as ((HK1 & HQ1) & Efs1). set (s1' := set_fdt_session s1 fs1) in *.
      destruct (read_queues [] (squeues s1') now s1') as [[o2 qs] s2] eqn:E2.
      apply (rq_ok _ _ m fs1 now s1' o2 qs s2 HK1 Efs1) in E2; [|intros ? []|exact HQ1].
      destruct E2 as (HK2 & Ha2 & (Hsq2 & Hfs2) & HQ2 & Ho2).
      set (s3 := set_squeues s2 qs) in *.
      assert (HI3 : Inv m s3).
      { unfold Inv, s3. sred. rewrite Hfs2. split; [exact HK2|exact HQ2]. }
      destruct o2.
      + destruct (session_run 4 (fdt_session s3) now s3) as [[o3 fs3] s4] eqn:E3.
        pose proof (fdt_phase m now s3 o3 fs3 s4 HI3 E3) as P3.
        inversion H; subst r s'; clear H.
        destruct o3; try exact P3; try (split; [reflexivity|]; try exact P3).
        * apply P3.
        * destruct P3.
      + destruct Ho2.
      + inversion H; subst r s'; clear H. destruct Ho2 as (Hp & Hin). split; [|exact HI3].
        cbn [ev_of c11_step fst]. rewrite Hp. apply memN_In in Hin. rewrite Hin. reflexivity.
      + inversion H; subst r s'; clear H. split; [reflexivity|exact HI3].
      + inversion H; subst r s'; clear H. split; [reflexivity|exact HI3].
    - exact P1.
    - destruct P1.
    - split; [reflexivity|exact P1].
    - split; [reflexivity|exact P1].
  Qed.

  (* ---------- the other operations ---------- *)
  Definition op_user (o : op) : Prop :=
    match o with OpAdd od _ acc => acc = true -> o_fdtid od = None | _ => True end.

  Lemma Inv_frame m s s' :
    fdt_session s' = fdt_session s -> squeues s' = squeues s ->
    K m (fdt_session s) s' -> advS m (fdt_session s) s m (fdt_session s) s' -> Inv m s -> Inv m s'.
  Proof.
    intros Ef Eq HK Ha (_ & HQ). unfold Inv. rewrite Ef, Eq. split; [assumption|]. eapply QQs_adv; eauto.
  Qed.

  Lemma step_ok m s o out s' : Inv m s -> op_user o -> step s o = (out, s') ->
    step_post m (ev_of fdt_npk o out s') s'.
  Proof.
    intros HI Hu H. destruct o as [od start acc|now|t|t ts| |now]; cbn [SenderCtl.step] in H.
    - (* add *)
      destruct (negb (has_queue s (o_prio od))); [inversion H; subst; split; [reflexivity|exact HI]|].
      destruct (complete s); [inversion H; subst; split; [reflexivity|exact HI]|].
      destruct acc; cbn [negb] in H; [|inversion H; subst; split; [reflexivity|exact HI]].
      cbn [op_user] in Hu. specialize (Hu eq_refl).
      inversion H; subst out s'; clear H. split; [reflexivity|]. cbn [ev_of c11_step snd].
      pose proof HI as ((Hfu & (Hw1 & Hw2) & Hwf & Hfs & Hq) & _).
      set (fs := fdt_session s) in *. set (ob := objs s) in *.
      set (newf := mk_fdesc od false (mk_tinfo false 0 0 None None None None start)).
      assert (Hst : stab ob (ob ++ [newf])).
      { split; [rewrite app_length; cbn; lia|]. intros j Hj. rewrite app_nth1 by assumption. reflexivity. }
      assert (Hk : forall j fid, fdtobj ob j fid -> keeps ob (ob ++ [newf]) j).
      { intros j fid (Hl & _). unfold keeps. rewrite app_nth1 by assumption. auto. }
      assert (Hlen : (length ob <= length (ob ++ [newf]))%nat) by apply Hst.
      assert (Hcov : forall t, Cov (announced m) ob (fdtq s) fs t -> Cov (announced m) (ob ++ [newf]) (fdtq s) fs t).
      { eapply Cov_stab; eauto. }
      apply (Inv_frame m s); try reflexivity; [|split; [exact Hst|exact Hcov]|exact HI].
      unfold K. sred. fold ob. fold fs.
      assert (Hnew : user (ob ++ [newf]) (length ob)).
      { split; [rewrite app_length; cbn; lia|]. rewrite nth_middle. exact Hu. }
      split; [assumption|]. split; [|split; [eapply Wf_frame; eauto|split; [eapply FS_frame; eauto|]]].
      + split; intros j Hj; apply in_app_or in Hj; (destruct Hj as [Hj|[<-|[]]]; [eapply user_stab; eauto|exact Hnew]).
      + intros j Hj. apply in_app_or in Hj. destruct Hj as [Hj|[<-|[]]].
        * pose proof (Hw2 j Hj) as (Hl & _). rewrite (toi_stab ob) by assumption.
          rewrite app_nth1 by assumption.
          destruct (Hq j Hj) as [Hc|Hc]; [left; apply Hcov; assumption|right].
          destruct full; [assumption|apply in_or_app; left; assumption].
        * right. rewrite nth_middle. destruct full; [reflexivity|apply in_or_app; right; left; reflexivity].
    - (* publish *)
      destruct (publish now s) as [ok sp] eqn:Ep. inversion H; subst out s'; clear H.
      split; [reflexivity|]. cbn [ev_of c11_step snd].
      destruct HI as (HK & HQ). destruct (publish_K _ _ _ _ _ _ HK Ep) as (HK1 & Ha1 & _).
      pose proof (publish_sf now s) as (Esq & Efs). rewrite Ep in Esq, Efs. cbn [snd] in Esq, Efs.
      unfold Inv. rewrite Efs, Esq. split; [assumption|]. eapply QQs_adv; eauto.
    - (* remove *)
      destruct (is_added s t); [|inversion H; subst; split; [reflexivity|exact HI]].
      inversion H; subst out s'; clear H. split; [reflexivity|]. cbn [ev_of c11_step snd].
      pose proof HI as ((Hfu & (Hw1 & Hw2) & Hwf & Hfs & Hq) & _).
      apply (Inv_frame m s); try reflexivity; [|apply adv_refl|exact HI].
      unfold K. sred. unfold remove_toi.
      split; [assumption|]. split; [|split; [assumption|split; [assumption|]]].
      + split; intros j Hj; apply filter_In in Hj; destruct Hj; auto.
      + intros j Hj. apply filter_In in Hj. destruct Hj as (Hj & Hp).
        destruct (Hq j Hj) as [Hc|Hc]; [left; assumption|right].
        destruct full; [assumption|]. apply filter_In. split; assumption.
    - (* trigger *)
      destruct (find_file s t) as [id|] eqn:Ef; [|inversion H; subst; split; [reflexivity|exact HI]].
      destruct (t_transferring (f_t (obj s id))); [inversion H; subst; split; [reflexivity|exact HI]|].
      inversion H; subst out s'; clear H. split; [reflexivity|]. cbn [ev_of c11_step snd].
      pose proof HI as (HK & _). pose proof HK as (_ & (Hw1 & _) & _).
      unfold find_file in Ef. apply find_some in Ef. destruct Ef as (Hin & _).
      apply (Inv_frame m s); try reflexivity; [| |exact HI].
      + unfold K. rewrite objs_upd_t. sred. apply Kc_upd_user; auto.
      + unfold advS. rewrite objs_upd_t. sred. split; [apply upd_stab|intros x; apply Cov_upd].
    - (* set_complete *)
      inversion H; subst out s'; clear H. split; [reflexivity|exact HI].
    - (* read *)
      destruct (sender_read now s) as [r sr] eqn:Er. inversion H; subst out s'; clear H.
      eapply read_ok; eauto.
  Qed.

  Lemma run_ok : forall ops m s, Inv m s -> Forall op_user ops ->
    c11_run m (map fst (model_trace s ops)) = true.
  Proof.
    induction ops as [|o ops IH]; intros m s HI Hu; [reflexivity|].
    cbn [SenderSpec.model_trace]. destruct (step s o) as [out s'] eqn:Es.
    cbn [map fst c11_run]. inversion Hu as [|? ? Ho Hops]; subst.
    destruct (step_ok m s o out s' HI Ho Es) as (Hok & HI').
    destruct (c11_step m (ev_of fdt_npk o out s')) as [ok m']. cbn [fst snd] in *. subst ok.
    cbn [andb]. apply IH; assumption.
  Qed.

  Lemma Inv_init dur car sid queues : Inv (mk_c11 [] None) (init_st full dur car sid queues).
  Proof.
    unfold Inv, K, init_st. sred. split.
    - split; [reflexivity|]. split; [split; intros ? []|]. split; [split; [intros ? []|split; [constructor|intros; discriminate]]|].
      split; [split; reflexivity|]. intros ? [].
    - intros q Hq. apply in_map_iff in Hq. destruct Hq as ((p & n) & <- & _). cbn [q_sessions fst snd].
      intros ss Hss. apply repeat_spec in Hss. subst ss. apply SSs_idle.
  Qed.

  Theorem C11_section ops dur car sid queues : Forall op_user ops ->
    P_C11 (map fst (model_trace (init_st full dur car sid queues) ops)) = true.
  Proof. intros Hu. unfold P_C11. apply run_ok; [apply Inv_init|assumption]. Qed.
End C11.

(* ---------- the closed statements ---------- *)
(* an accepted add_object carries the description of a user object: the FDT instance id field of the
   model's object record is only ever set by Fdt::publish *)
Definition user_opb (o : op) : bool :=
  match o with OpAdd od _ acc => negb acc || negb (is_some (o_fdtid od)) | _ => true end.

Lemma user_ops_Forall ops : forallb user_opb ops = true -> Forall op_user ops.
Proof.
  intros H. apply Forall_forall. intros o Ho. rewrite forallb_forall in H. specialize (H o Ho).
  destruct o; cbn in *; auto. intros ->. destruct (o_fdtid o); [discriminate|reflexivity].
Qed.

(* publishing never fails: both publish modes *)
Theorem c11_announce_before_send : forall fdt_npk divf ops full dur car sid queues,
  (forall id, (1 <= fdt_npk id)%nat) ->
  forallb user_opb ops = true ->
  P_C11 (map fst (model_trace fdt_npk (fun _ => true) divf (init_st full dur car sid queues) ops)) = true.
Proof.
  intros fdt_npk divf ops full dur car sid queues Hn Hu.
  apply C11_section; [assumption|right; reflexivity|apply user_ops_Forall; assumption].
Qed.

(* FullFDT mode: publishing may fail at any time *)
Theorem c11_announce_before_send_fullfdt_any_publish : forall fdt_npk fdt_ok divf ops dur car sid queues,
  (forall id, (1 <= fdt_npk id)%nat) ->
  forallb user_opb ops = true ->
  P_C11 (map fst (model_trace fdt_npk fdt_ok divf (init_st true dur car sid queues) ops)) = true.
Proof.
  intros fdt_npk fdt_ok divf ops dur car sid queues Hn Hu.
  apply C11_section; [assumption|left; reflexivity|apply user_ops_Forall; assumption].
Qed.

Print Assumptions c11_announce_before_send.
Print Assumptions c11_announce_before_send_fullfdt_any_publish.
