(* Proofs about Model/Ntp.v and Model/Alc.v against the RFC figures of Spec/C06Spec.v. *)
From FluteV Require Import Model.Bytes Model.AlcTypes Model.Lct Model.Ntp Model.Alc Spec.C06Spec
     Proofs.BytesProofs Proofs.LctProofs.
Open Scope N_scope.
Arguments N.add : simpl never. Arguments N.mul : simpl never. Arguments N.sub : simpl never.
Arguments N.div : simpl never. Arguments N.modulo : simpl never. Arguments N.pow : simpl never.
Arguments N.shiftl : simpl never. Arguments N.shiftr : simpl never. Arguments N.land : simpl never.
Arguments N.lor : simpl never.

(* ---------------------------------------------------------------------------------- *)
(* NTP <-> SystemTime                                                                   *)
Lemma ntp_fraction_val m : m < 1000000 ->
  ntp_fraction m = (m * TWO32 + 999999) / 1000000
  /\ ntp_fraction m < TWO32
  /\ (ntp_fraction m * 1000000) / TWO32 = m.
Proof.
  intros Hm. unfold ntp_fraction, TWO32.
  pose proof (N.div_mod (m * 4294967296 + 999999) 1000000 ltac:(lia)) as D.
  pose proof (N.mod_lt (m * 4294967296 + 999999) 1000000 ltac:(lia)) as R.
  set (q := (m * 4294967296 + 999999) / 1000000) in *.
  set (r := (m * 4294967296 + 999999) mod 1000000) in *. clearbody q r.
  assert (Hq : q < 4294967296) by lia.
  rewrite N.mod_small by assumption. split; [reflexivity|]. split; [assumption|].
  symmetry. apply (N.div_unique _ _ _ (999999 - r)); lia.
Qed.

Lemma micros_split d : d / 1000 = (d / 1000000000) * 1000000 + (d mod 1000000000) / 1000.
Proof.
  pose proof (N.div_mod d 1000000000 ltac:(lia)) as D1.
  pose proof (N.mod_lt d 1000000000 ltac:(lia)) as R1.
  set (a := d / 1000000000) in *. set (b := d mod 1000000000) in *. clearbody a b.
  pose proof (N.div_mod b 1000 ltac:(lia)) as D2. pose proof (N.mod_lt b 1000 ltac:(lia)) as R2.
  set (c := b / 1000) in *. set (e := b mod 1000) in *. clearbody c e.
  symmetry. apply (N.div_unique _ _ _ e); lia.
Qed.

Definition time_in_era (t_ns : Z) : Prop :=
  (0 <= t_ns)%Z /\ Z.to_N t_ns / 1000000000 + NTP_UNIX_OFFSET < TWO32.

(* the timestamp flute writes: seconds since 1900 and the rounded-up fraction *)
Definition ntp_hi (t_ns : Z) : N := Z.to_N t_ns / 1000000000 + NTP_UNIX_OFFSET.
Definition ntp_lo (t_ns : Z) : N := ntp_fraction ((Z.to_N t_ns mod 1000000000) / 1000).

Lemma submicro_lt d : (d mod 1000000000) / 1000 < 1000000.
Proof.
  pose proof (N.mod_lt d 1000000000 ltac:(lia)). apply N.div_lt_upper_bound; lia.
Qed.

Lemma system_time_to_ntp_val t : time_in_era t ->
  system_time_to_ntp t = Ok (ntp_hi t * TWO32 + ntp_lo t) /\ ntp_hi t < TWO32 /\ ntp_lo t < TWO32.
Proof.
  intros [H0 H1]. unfold system_time_to_ntp, system_time_to_ntp_gen.
  destruct (Z.ltb_spec t 0) as [L|_]; [lia|].
  fold (ntp_hi t). fold (ntp_lo t).
  destruct (ntp_fraction_val _ (submicro_lt (Z.to_N t))) as (_ & Lo & _). fold (ntp_lo t) in Lo.
  assert (Hi : ntp_hi t < TWO32) by exact H1.
  split; [|split; assumption].
  rewrite N.mod_small by (unfold TWO32, TWO64 in *; nia).
  unfold TWO32 in *. change 4294967296 with (2 ^ 32) in *. rewrite lor_mul_add by assumption. reflexivity.
Qed.

(* (ext_time_roundtrip) every instant from 1970 to the end of NTP era 0 comes back, truncated to
   the microsecond *)
Theorem ntp_roundtrip_proof t : time_in_era t ->
  exists ntp, system_time_to_ntp t = Ok ntp /\ ntp_to_system_time ntp = Ok (Z.to_N t / 1000).
Proof.
  intros H. destruct (system_time_to_ntp_val t H) as (E & Hi & Lo).
  exists (ntp_hi t * TWO32 + ntp_lo t). split; [assumption|].
  unfold ntp_to_system_time. change 4294967295 with (2 ^ 32 - 1). rewrite land_ones_mod, shiftr_div.
  unfold TWO32 in *. change 4294967296 with (2 ^ 32) in *.
  rewrite N.div_add_l by (apply N.pow_nonzero; lia). rewrite (N.div_small (ntp_lo t)) by assumption.
  rewrite N.add_0_r. rewrite (N.add_comm (ntp_hi t * 2 ^ 32)), N.mod_add by (apply N.pow_nonzero; lia).
  rewrite (N.mod_small (ntp_lo t)) by assumption.
  destruct H as [H0 H1]. unfold ntp_hi.
  destruct (N.ltb_spec (Z.to_N t / 1000000000 + NTP_UNIX_OFFSET) NTP_UNIX_OFFSET) as [L|_].
  { set (q := Z.to_N t / 1000000000) in *. clearbody q. lia. }
  f_equal. rewrite N.add_sub.
  destruct (ntp_fraction_val _ (submicro_lt (Z.to_N t))) as (_ & _ & F).
  unfold ntp_lo. unfold TWO32 in F. change 4294967296 with (2 ^ 32) in F. rewrite F.
  symmetry. apply micros_split.
Qed.

(* D21: with the fraction rounded down the round trip loses a microsecond (witness: 1 us) *)
Lemma ntp_roundtrip_refuted_unfixed :
  time_in_era 1000 /\
  (match system_time_to_ntp_unfixed 1000 with Ok ntp => ntp_to_system_time ntp | _ => Err end) = Ok 0.
Proof. split; [split; [lia|vm_compute; reflexivity]|vm_compute; reflexivity]. Qed.

(* the executable predicate holds of the model *)
Lemma spec_ntp_holds t : P_C06_ntp t (system_time_to_ntp t) = true.
Proof.
  unfold P_C06_ntp.
  destruct (Z.leb_spec 0 t) as [H0|H0]; [|reflexivity]. cbn [andb].
  destruct (N.ltb_spec (Z.to_N t / 1000000000 + 2208988800) (2 ^ 32)) as [H1|H1]; [|reflexivity].
  cbn [negb].
  assert (E : time_in_era t) by (split; assumption).
  destruct (system_time_to_ntp_val t E) as (V & Hi & Lo). rewrite V.
  unfold TWO32 in *.
  rewrite N.div_add_l by lia. rewrite (N.div_small (ntp_lo t)) by assumption. rewrite N.add_0_r.
  rewrite (N.add_comm (ntp_hi t * 4294967296)), N.mod_add by lia. rewrite (N.mod_small (ntp_lo t)) by assumption.
  unfold ntp_us.
  destruct (N.ltb_spec (ntp_hi t) 2208988800) as [L|_].
  { unfold ntp_hi, NTP_UNIX_OFFSET in L. set (q := Z.to_N t / 1000000000) in *. clearbody q. lia. }
  cbn [eq_optN]. apply N.eqb_eq. unfold now_us, ntp_hi, NTP_UNIX_OFFSET. rewrite N.add_sub.
  destruct (ntp_fraction_val _ (submicro_lt (Z.to_N t))) as (_ & _ & F).
  unfold ntp_lo. unfold TWO32 in F. rewrite F. symmetry. apply micros_split.
Qed.

(* ---------------------------------------------------------------------------------- *)
(* helpers                                                                              *)
Lemma lor_disjoint a b k c : a = c * 2 ^ k -> b < 2 ^ k -> N.lor a b = a + b.
Proof. intros -> H. apply lor_mul_add. assumption. Qed.

Ltac pow_norm :=
  change (2 ^ 4) with 16 in *; change (2 ^ 8) with 256 in *; change (2 ^ 14) with 16384 in *;
  change (2 ^ 15) with 32768 in *; change (2 ^ 16) with 65536 in *; change (2 ^ 20) with 1048576 in *;
  change (2 ^ 24) with 16777216 in *; change (2 ^ 32) with 4294967296 in *;
  change (2 ^ 40) with 1099511627776 in *; change (2 ^ 48) with 281474976710656 in *;
  change (2 ^ 56) with 72057594037927936 in *; change (2 ^ 64) with 18446744073709551616 in *.

Lemma Forall_bytes_app (a b : list N) :
  Forall (fun x => x < 256) a -> Forall (fun x => x < 256) b -> Forall (fun x => x < 256) (a ++ b).
Proof. intros. apply Forall_app. split; assumption. Qed.

Lemma pack_bytes_ok fs : Forall (fun x => x < 256) (pack fs).
Proof. apply be_encode_bytes. Qed.

(* be_decode of a pack is the packed number *)
Lemma be_decode_pack fs : bits_of fs mod 8 = 0 -> be_decode (pack fs) = pack_num fs.
Proof.
  intros H. unfold pack. rewrite be_roundtrip_small; [reflexivity|].
  rewrite N2Nat.id, pow256.
  pose proof (N.div_mod (bits_of fs) 8 ltac:(lia)) as D. rewrite H in D.
  replace (8 * (bits_of fs / 8)) with (bits_of fs) by lia. apply pack_num_lt.
Qed.

(* ---------------------------------------------------------------------------------- *)
(* EXT_FDT                                                                              *)
Lemma fdt_ext_bytes v id : v < 16 -> id < 2 ^ 20 ->
  be_encode 4 (N.lor (N.lor (N.shiftl 192 24) (N.shiftl v 20)) id) = ext_bytes (x_fdt v id).
Proof.
  intros Hv Hid. unfold x_fdt. cbn [ext_bytes]. rewrite pack_byte by lia.
  change (pack [(v, 4); (id, 20)]) with (be_encode 3 (pack_num [(v, 4); (id, 20)])).
  change [192] with (be_encode 1 192). rewrite <- be_encode_app.
  2:{ change (256 ^ N.of_nat 3) with (2 ^ bits_of [(v, 4); (id, 20)]). apply pack_num_lt. }
  f_equal. rewrite !N.shiftl_mul_pow2.
  change (pack_num [(v, 4); (id, 20)]) with (v mod 2 ^ 4 * 2 ^ 20 + (id mod 2 ^ 20 * 2 ^ 0 + 0)).
  rewrite !N.mod_small by assumption.
  change (256 ^ N.of_nat 3) with (2 ^ 24). pow_norm.
  rewrite (lor_disjoint (192 * 16777216) (v * 1048576) 24 192) by (pow_norm; lia).
  rewrite (lor_disjoint _ id 20 (192 * 16 + v)) by (pow_norm; lia).
  change (2 ^ 0) with 1. lia.
Qed.

Lemma push_fdt_is_rfc data v id : v < 16 -> id < 2 ^ 20 ->
  push_fdt data v id = push_ext data (ext_bytes (x_fdt v id)) 1.
Proof. intros. unfold push_fdt. rewrite fdt_ext_bytes by assumption. reflexivity. Qed.

Lemma wf_x_fdt v id : wf_ext (x_fdt v id) = true.
Proof.
  unfold x_fdt. cbn [wf_ext]. rewrite pack_length. cbn.
  apply forallb_forall. intros b Hb. apply N.ltb_lt.
  pose proof (pack_bytes_ok [(v, 4); (id, 20)]) as F. rewrite Forall_forall in F. apply F. assumption.
Qed.

Lemma dec_x_fdt v id : v < 16 -> id < 2 ^ 20 -> dec_fdt (x_fdt v id) = Some (v, id).
Proof.
  intros Hv Hid. unfold x_fdt, dec_fdt.
  change [4; 20] with (map snd [(v, 4); (id, 20)]). rewrite unpack_pack; [reflexivity| |reflexivity].
  cbn [all_fit forallb]. unfold fits. cbn [fst snd].
  apply andb_true_iff; split; [apply N.ltb_lt; assumption|].
  apply andb_true_iff; split; [apply N.ltb_lt; assumption|reflexivity].
Qed.

(* the parser and the RFC decoder agree on EVERY fixed-length extension content *)
Lemma three_bytes (c : list N) : length c = 3%nat -> exists c0 c1 c2, c = [c0; c1; c2].
Proof. destruct c as [|c0 [|c1 [|c2 [|]]]]; cbn; intros; try lia. eauto. Qed.

(* bit ranges of  X = h * 2^n + Y  with Y < 2^n *)
Lemma bits_low_part X h n Y a w : X = h * 2 ^ n + Y -> Y < 2 ^ n -> a + w <= n ->
  bitsN Y a w = bitsN X a w.
Proof.
  intros E HY L.
  assert (EY : Y = X mod 2 ^ n).
  { rewrite E, N.add_comm, N.mod_add by (apply N.pow_nonzero; lia). symmetry. apply N.mod_small. assumption. }
  rewrite EY, bits_of_mod. f_equal. lia.
Qed.
Lemma bits_high_part X h n Y a w : X = h * 2 ^ n + Y -> Y < 2 ^ n ->
  bitsN X (n + a) w = bitsN h a w.
Proof.
  intros E HY. unfold bitsN. f_equal. rewrite N.pow_add_r, <- N.div_div by (apply N.pow_nonzero; lia).
  rewrite E, N.div_add_l by (apply N.pow_nonzero; lia). rewrite (N.div_small Y) by assumption.
  rewrite N.add_0_r. reflexivity.
Qed.

Lemma parse_ext_fdt_agrees het c : wf_ext (XFix het c) = true ->
  parse_ext_fdt (ext_bytes (XFix het c)) = Ok (dec_fdt (XFix het c)).
Proof.
  intros W. destruct (wf_ext_fix _ _ W) as (A & B & C & D).
  rewrite ext_bytes_fix by assumption. unfold parse_ext_fdt. cbn [length]. rewrite C. cbn [Nat.eqb negb].
  unfold dec_fdt, unpack. cbn [unpack_num sum_widths].
  fold (bitsN (be_decode c) (20 + 0) 4). fold (bitsN (be_decode c) 0 20).
  rewrite be_decode_cons, C. change (256 ^ N.of_nat 3) with (2 ^ 24).
  pose proof (be_decode_lt c D) as HY. rewrite C in HY. change (256 ^ N.of_nat 3) with (2 ^ 24) in HY.
  set (Y := be_decode c) in *. set (X := het * 2 ^ 24 + Y).
  assert (HX : X < 2 ^ 32) by (unfold X; pow_norm; lia).
  rewrite (bits_low_part X het 24 Y (20 + 0) 4 eq_refl HY) by lia.
  rewrite (bits_low_part X het 24 Y 0 20 eq_refl HY) by lia.
  rewrite <- (bits_whole X 32 HX) at 1 2.
  change 15 with (2 ^ 4 - 1). change 1048575 with (2 ^ 20 - 1).
  rewrite bits_shiftr, !bits_land_mask. reflexivity.
Qed.

(* ---------------------------------------------------------------------------------- *)
(* EXT_CENC                                                                             *)
Lemma cenc_ext_bytes cenc : cenc < 256 ->
  be_encode 4 (N.lor (N.shiftl 193 24) (N.shiftl cenc 16)) = ext_bytes (x_cenc cenc 0).
Proof.
  intros Hc. unfold x_cenc. cbn [ext_bytes]. rewrite pack_byte by lia.
  change (pack [(cenc, 8); (0, 16)]) with (be_encode 3 (pack_num [(cenc, 8); (0, 16)])).
  change [193] with (be_encode 1 193). rewrite <- be_encode_app.
  2:{ change (256 ^ N.of_nat 3) with (2 ^ bits_of [(cenc, 8); (0, 16)]). apply pack_num_lt. }
  f_equal. rewrite !N.shiftl_mul_pow2.
  change (pack_num [(cenc, 8); (0, 16)]) with (cenc mod 2 ^ 8 * 2 ^ 16 + (0 mod 2 ^ 16 * 2 ^ 0 + 0)).
  rewrite (N.mod_small cenc) by assumption.
  change (256 ^ N.of_nat 3) with (2 ^ 24). pow_norm.
  rewrite (lor_disjoint (193 * 16777216) (cenc * 65536) 24 193) by (pow_norm; lia).
  change (0 mod 65536 * 2 ^ 0 + 0) with 0. lia.
Qed.

Lemma push_cenc_is_rfc data cenc : cenc < 256 ->
  push_cenc data cenc = push_ext data (ext_bytes (x_cenc cenc 0)) 1.
Proof. intros. unfold push_cenc. rewrite cenc_ext_bytes by assumption. reflexivity. Qed.

Lemma wf_x_cenc c r : wf_ext (x_cenc c r) = true.
Proof.
  unfold x_cenc. cbn [wf_ext]. rewrite pack_length. cbn.
  apply forallb_forall. intros b Hb. apply N.ltb_lt.
  pose proof (pack_bytes_ok [(c, 8); (r, 16)]) as F. rewrite Forall_forall in F. apply F. assumption.
Qed.

Lemma dec_x_cenc c r : c < 256 -> r < 2 ^ 16 -> dec_cenc (x_cenc c r) = Some c.
Proof.
  intros Hc Hr. unfold x_cenc, dec_cenc.
  change [8; 16] with (map snd [(c, 8); (r, 16)]). rewrite unpack_pack; [reflexivity| |reflexivity].
  cbn [all_fit forallb]. unfold fits. cbn [fst snd].
  apply andb_true_iff; split; [apply N.ltb_lt; assumption|].
  apply andb_true_iff; split; [apply N.ltb_lt; assumption|reflexivity].
Qed.

(* what parse_alc_pkt makes of an EXT_CENC: the RFC value if it is one of the four encodings *)
Definition model_cenc (ext : list N) : option N :=
  match parse_cenc ext with Ok c => Some c | _ => None end.

Lemma parse_cenc_agrees het c : wf_ext (XFix het c) = true ->
  exists v, dec_cenc (XFix het c) = Some v
            /\ model_cenc (ext_bytes (XFix het c)) = if v <=? 3 then Some v else None.
Proof.
  intros W. destruct (wf_ext_fix _ _ W) as (A & B & C & D).
  destruct (three_bytes c C) as (c0 & c1 & c2 & ->).
  inversion D as [|? ? H0 D1]; subst. inversion D1 as [|? ? H1 D2]; subst. inversion D2 as [|? ? H2 _]; subst.
  exists c0. split.
  - unfold dec_cenc, unpack. cbn [unpack_num sum_widths]. f_equal.
    unfold be_decode. cbn [fold_left]. change (2 ^ (16 + 0)) with 65536. change (2 ^ 8) with 256.
    replace ((0 * 256 + c0) * 256 + c1) with (c0 * 256 + c1) by lia.
    replace ((c0 * 256 + c1) * 256 + c2) with ((c1 * 256 + c2) + c0 * 65536) by lia.
    rewrite N.div_add by lia. rewrite N.div_small by lia. rewrite N.add_0_l. apply N.mod_small. assumption.
  - rewrite ext_bytes_fix by assumption. unfold model_cenc, parse_cenc. cbn [length Nat.eqb negb nth_error].
    destruct (c0 <=? 3); reflexivity.
Qed.

(* ---------------------------------------------------------------------------------- *)
(* EXT_TIME                                                                             *)
Definition flute_time (now_ns : Z) : time_ext :=
  {| te_shi := true; te_slo := true; te_ert := false; te_slc := false; te_res := 0; te_pi := 0;
     te_hi := ntp_hi now_ns; te_lo := ntp_lo now_ns; te_ertv := 0; te_slcv := 0 |}.

Lemma push_sct_is_rfc data now : time_in_era now ->
  push_sct data now = push_ext data (ext_bytes (x_time (flute_time now))) 3.
Proof.
  intros H. destruct (system_time_to_ntp_val now H) as (E & Hi & Lo).
  unfold push_sct, push_sct_gen. rewrite E. f_equal.
  unfold x_time, flute_time, time_values, time_use, opt_field. cbn [te_shi te_slo te_ert te_slc te_res te_pi te_hi te_lo te_ertv te_slcv app].
  cbn [ext_bytes].
  change (1 + bits_of [(ntp_hi now, 32); (ntp_lo now, 32)] / 32) with 3.
  change [(b2n true, 1); (b2n true, 1); (b2n false, 1); (b2n false, 1); (0, 4); (0, 8); (ntp_hi now, 32); (ntp_lo now, 32)]
    with ([(b2n true, 1); (b2n true, 1); (b2n false, 1); (b2n false, 1); (0, 4); (0, 8)] ++ [(ntp_hi now, 8 * N.of_nat 4); (ntp_lo now, 8 * N.of_nat 4)]).
  rewrite pack_app by reflexivity. rewrite pack_cons_bytes by reflexivity.
  rewrite pack_bytes_field.
  rewrite app_assoc.
  assert (C : pack [(2, 8); (3, 8)] ++ pack [(b2n true, 1); (b2n true, 1); (b2n false, 1); (b2n false, 1); (0, 4); (0, 8)]
              = be_encode 4 sct_header) by (vm_compute; reflexivity).
  rewrite C. f_equal.
  change 8%nat with (4 + 4)%nat. unfold TWO32 in *. change 4294967296 with (256 ^ N.of_nat 4) in *.
  apply be_encode_app. assumption.
Qed.

Lemma wf_x_time t : te_res t < 16 -> te_pi t < 256 -> wf_ext (x_time t) = true.
Proof.
  intros Hr Hp. unfold x_time. cbn [wf_ext].
  assert (Hb : bits_of (time_values t) = 32 * (b2n (te_shi t) + b2n (te_slo t) + b2n (te_ert t) + b2n (te_slc t))).
  { unfold time_values, opt_field. destruct (te_shi t), (te_slo t), (te_ert t), (te_slc t); reflexivity. }
  assert (Hq : bits_of (time_values t) / 32 = b2n (te_shi t) + b2n (te_slo t) + b2n (te_ert t) + b2n (te_slc t)).
  { rewrite Hb, N.mul_comm. apply N.div_mul. lia. }
  rewrite pack_length, bits_of_app, Hq. change (bits_of (time_use t)) with 16. rewrite Hb.
  set (k := b2n (te_shi t) + b2n (te_slo t) + b2n (te_ert t) + b2n (te_slc t)) in *.
  assert (Hk : k <= 4) by (unfold k; destruct (te_shi t), (te_slo t), (te_ert t), (te_slc t); cbn; lia).
  replace ((16 + 32 * k) / 8) with (2 + 4 * k).
  2:{ symmetry. replace (16 + 32 * k) with ((2 + 4 * k) * 8) by lia. apply N.div_mul. lia. }
  rewrite N2Nat.id.
  repeat (apply andb_true_iff; split); try (apply N.ltb_lt; lia); try (apply N.leb_le; lia).
  - apply N.eqb_eq. lia.
  - apply forallb_forall. intros b Hb'. apply N.ltb_lt.
    pose proof (pack_bytes_ok (time_use t ++ time_values t)) as F. rewrite Forall_forall in F. apply F. assumption.
Qed.

(* the SCT the RFC decoder reads from an EXT_TIME written for [t] *)
Lemma dec_x_time t : te_res t < 16 -> te_pi t < 256 ->
  te_hi t < 2 ^ 32 -> te_lo t < 2 ^ 32 -> te_ertv t < 2 ^ 32 -> te_slcv t < 2 ^ 32 ->
  dec_time (x_time t) = if te_shi t then Some (te_hi t, if te_slo t then te_lo t else 0) else None.
Proof.
  intros Hr Hp H1 H2 H3 H4.
  assert (F4 : forall v r, firstn 4 (be_encode 4 v ++ r) = be_encode 4 v).
  { intros v r. rewrite <- (be_encode_length 4 v) at 1. rewrite firstn_app, firstn_all, Nat.sub_diag.
    cbn [firstn]. apply app_nil_r. }
  assert (S4 : forall v r, skipn 4 (be_encode 4 v ++ r) = r).
  { intros v r. rewrite <- (be_encode_length 4 v) at 1. rewrite skipn_app, skipn_all, Nat.sub_diag. reflexivity. }
  assert (F2 : forall (a r : list N), length a = 2%nat -> firstn 2 (a ++ r) = a).
  { intros a r L. rewrite <- L. rewrite firstn_app, firstn_all, Nat.sub_diag. cbn [firstn]. apply app_nil_r. }
  assert (S2 : forall (a r : list N), length a = 2%nat -> skipn 2 (a ++ r) = r).
  { intros a r L. rewrite <- L. rewrite skipn_app, skipn_all, Nat.sub_diag. reflexivity. }
  assert (Fu : all_fit (time_use t) = true).
  { unfold time_use, all_fit. cbn [forallb]. unfold fits. cbn [fst snd].
    repeat (apply andb_true_iff; split); try reflexivity; try (apply N.ltb_lt; assumption);
      try (destruct (te_shi t); reflexivity); try (destruct (te_slo t); reflexivity);
      try (destruct (te_ert t); reflexivity); try (destruct (te_slc t); reflexivity). }
  unfold x_time, dec_time.
  assert (U : pack (time_use t ++ time_values t) = pack (time_use t) ++ pack (time_values t)).
  { apply pack_app; [reflexivity|]. unfold time_values, opt_field.
    destruct (te_shi t), (te_slo t), (te_ert t), (te_slc t); reflexivity. }
  rewrite U, F2, S2 by reflexivity.
  change [1; 1; 1; 1; 4; 8] with (map snd (time_use t)).
  rewrite unpack_pack by (assumption || reflexivity).
  cbn [map fst time_use].
  assert (Hq : 1 + bits_of (time_values t) / 32 = 1 + b2n (te_shi t) + b2n (te_slo t) + b2n (te_ert t) + b2n (te_slc t)).
  { unfold time_values, opt_field. destruct (te_shi t), (te_slo t), (te_ert t), (te_slc t); reflexivity. }
  rewrite Hq, N.eqb_refl. cbn [negb].
  unfold time_values, opt_field. change 32 with (8 * N.of_nat 4).
  destruct (te_shi t), (te_slo t), (te_ert t), (te_slc t); cbn [app b2n N.eqb Pos.eqb]; try reflexivity;
    repeat (rewrite pack_cons_bytes by reflexivity); change (pack []) with (@nil N);
    rewrite ?S4, ?F4, ?S4, ?F4;
    rewrite !be_roundtrip_small by (change (256 ^ N.of_nat 4) with (2 ^ 32); assumption); reflexivity.
Qed.

Lemma Forall_firstn {A} (P : A -> Prop) n (l : list A) : Forall P l -> Forall P (firstn n l).
Proof.
  revert l; induction n; intros l H; cbn [firstn]; [constructor|].
  destruct l; [constructor|]. inversion H; subst. constructor; auto.
Qed.
Lemma Forall_skipn {A} (P : A -> Prop) n (l : list A) : Forall P l -> Forall P (skipn n l).
Proof.
  revert l; induction n; intros l H; cbn [skipn]; [assumption|].
  destruct l; [constructor|]. inversion H; subst. auto.
Qed.

Lemma be_decode_firstn4_lt l : Forall (fun b => b < 256) l -> be_decode (firstn 4 l) < 2 ^ 32.
Proof.
  intros H. pose proof (be_decode_lt (firstn 4 l) (Forall_firstn _ 4 l H)) as L.
  eapply N.lt_le_trans; [exact L|].
  change (2 ^ 32) with (256 ^ N.of_nat 4). apply N.pow_le_mono_r; [lia|].
  pose proof (firstn_le_length 4 l). lia.
Qed.

(* flag bit k of the first Use byte, as the parser computes it and as the figure defines it *)
Lemma use_flag c0 c1 k : c0 < 256 -> c1 < 256 -> k < 8 ->
  N.land (N.shiftr c0 k) 1 = ((c0 * 256 + c1) / 2 ^ (8 + k)) mod 2 ^ 1.
Proof.
  intros H0 H1 Hk. fold (bitsN (c0 * 256 + c1) (8 + k) 1).
  rewrite (bits_high_part (c0 * 256 + c1) c0 8 c1 k 1) by (pow_norm; lia).
  rewrite <- (bits_whole c0 8) at 1 by (pow_norm; lia).
  change 1 with (2 ^ 1 - 1) at 1. rewrite bits_shiftr, bits_land_mask.
  f_equal. lia.
Qed.

Lemma ntp_to_system_time_val hi lo : hi < 2 ^ 32 -> lo < 2 ^ 32 ->
  ntp_to_system_time (N.lor (N.shiftl hi 32) lo)
  = match ntp_us (hi, lo) with Some us => Ok us | None => Err end.
Proof.
  intros Hh Hl. rewrite lor_shiftl_add by assumption.
  unfold ntp_to_system_time, ntp_us. change 4294967295 with (2 ^ 32 - 1). rewrite land_ones_mod, shiftr_div.
  rewrite N.div_add_l by (apply N.pow_nonzero; lia). rewrite (N.div_small lo) by assumption.
  rewrite N.add_0_r. rewrite (N.add_comm (hi * 2 ^ 32)), N.mod_add by (apply N.pow_nonzero; lia).
  rewrite (N.mod_small lo) by assumption. unfold NTP_UNIX_OFFSET, TWO32.
  destruct (hi <? 2208988800); reflexivity.
Qed.

(* on EVERY well-formed variable-length extension the parser's SCT is the RFC decoder's SCT,
   converted to microseconds *)
Lemma parse_sct_agrees het hel c hi lo : wf_ext (XVar het hel c) = true ->
  dec_time (XVar het hel c) = Some (hi, lo) ->
  parse_sct (ext_bytes (XVar het hel c))
  = match ntp_us (hi, lo) with Some us => Ok (Some us) | None => Err end.
Proof.
  intros W Hd. destruct (wf_ext_var _ _ _ W) as (A & B & C & D & F).
  destruct c as [|c0 [|c1 vals]]; cbn [length] in D; try lia.
  inversion F as [|? ? H0 F1]; subst. inversion F1 as [|? ? H1 F2]; subst.
  rewrite ext_bytes_var by assumption.
  unfold dec_time in Hd. change (firstn 2 (c0 :: c1 :: vals)) with [c0; c1] in Hd.
  change (skipn 2 (c0 :: c1 :: vals)) with vals in Hd. unfold unpack in Hd.
  replace (be_decode [c0; c1]) with (c0 * 256 + c1) in Hd by (unfold be_decode; cbn [fold_left]; lia).
  cbn [unpack_num sum_widths] in Hd.
  change (1 + (1 + (1 + (4 + (8 + 0))))) with (8 + 7) in Hd.
  change (1 + (1 + (4 + (8 + 0)))) with (8 + 6) in Hd.
  change (1 + (4 + (8 + 0))) with (8 + 5) in Hd.
  change (4 + (8 + 0)) with (8 + 4) in Hd.
  rewrite <- !use_flag in Hd by (assumption || lia).
  unfold parse_sct. cbn [nth_error].
  set (s1 := N.land (N.shiftr c0 7) 1) in *. set (s2 := N.land (N.shiftr c0 6) 1) in *.
  set (s3 := N.land (N.shiftr c0 5) 1) in *. set (s4 := N.land (N.shiftr c0 4) 1) in *.
  destruct (N.eqb_spec hel (1 + s1 + s2 + s3 + s4)) as [Eh|Eh]; cbn [negb] in Hd; [|discriminate].
  destruct (N.eqb_spec s1 0) as [E1|E1]; [discriminate|].
  assert (Hhi : be_decode (firstn 4 vals) = hi) by congruence.
  assert (Hlo : (if s2 =? 1 then be_decode (firstn 4 (skipn 4 vals)) else 0) = lo) by congruence.
  clear Hd.
  assert (Llen : lenN (het :: hel :: c0 :: c1 :: vals) = (s1 + s2 + s3 + s4 + 1) * 4)
    by (unfold lenN; cbn [length]; lia).
  rewrite Llen, N.eqb_refl. cbn [negb].
  change (slice (het :: hel :: c0 :: c1 :: vals) 4 8) with (firstn 4 vals).
  change (slice (het :: hel :: c0 :: c1 :: vals) 8 12) with (firstn 4 (skipn 4 vals)).
  rewrite Hhi.
  assert (Hlo' : (if s2 =? 1 then be_decode (firstn 4 (skipn 4 vals)) else 0) = lo) by exact Hlo.
  rewrite Hlo'.
  assert (Bh : hi < 2 ^ 32) by (subst hi; apply be_decode_firstn4_lt; assumption).
  assert (Bl : lo < 2 ^ 32).
  { subst lo. destruct (s2 =? 1); [|pow_norm; lia]. apply be_decode_firstn4_lt. apply Forall_skipn. assumption. }
  rewrite ntp_to_system_time_val by assumption.
  destruct (ntp_us (hi, lo)); reflexivity.
Qed.

(* ---------------------------------------------------------------------------------- *)
(* EXT_FTI: what the parser makes of the values the RFC decoder reads                    *)
Definition mk_oti f inst b e parity ss : oti :=
  {| o_fec := f; o_inst := inst; o_B := b; o_E := e; o_parity := parity; o_ss := ss; o_inband_fti := true |}.

Definition raptor_checks (T Z Al : N) (k : res (oti * N)) : res (oti * N) :=
  if T =? 0 then Err else if Z =? 0 then Err else if Al =? 0 then Err
  else if negb (T mod Al =? 0) then Err else k.

Definition model_of_fti (v : fti_values) : res (oti * N) :=
  match v with
  | FtiNoCode L _ E B => Ok (mk_oti NoCode 0 B E 0 None, L)
  | FtiRS28 L E B n => if n <? B then Panic else Ok (mk_oti RS28 0 B E (n - B) None, L)
  | FtiRS28US L i E B n => Ok (mk_oti RS28US i B E (n - B) None, L)
  | FtiRS2m L m g E B n =>
    Ok (mk_oti RS2m 0 B E (n - B) (Some (SSReedSolomon (if m =? 0 then 8 else m) (if g =? 0 then 1 else g))), L)
  | FtiRaptorQ L _ T Z Nn Al _ =>
    raptor_checks T Z Al
      (Ok (mk_oti RaptorQ 0 ((div_ceil_u (div_ceil_u L Z) T) mod U32) T 0 (Some (SSRaptorQ Z Nn Al)), L))
  | FtiRaptor L _ T Z Nn Al =>
    raptor_checks T Z Al
      (Ok (mk_oti Raptor 0 ((div_ceil_u (div_ceil_u L Z) T) mod U32) T 0 (Some (SSRaptor Z Nn Al)), L))
  end.

(* a well-formed variable-length extension of hel words, as one big-endian number *)
Lemma ext_as_number het hel c : wf_ext (XVar het hel c) = true ->
  let X := be_decode (ext_bytes (XVar het hel c)) in
  let n := N.to_nat (4 * hel) in
  ext_bytes (XVar het hel c) = be_encode n X
  /\ length (ext_bytes (XVar het hel c)) = n
  /\ X = (het * 256 + hel) * 2 ^ (8 * N.of_nat (length c)) + be_decode c
  /\ be_decode c < 2 ^ (8 * N.of_nat (length c)).
Proof.
  intros W X n. destruct (wf_ext_var _ _ _ W) as (A & B & C & D & F).
  assert (Hb : Forall (fun b => b < 256) (ext_bytes (XVar het hel c))).
  { rewrite ext_bytes_var by assumption. constructor; [lia|]. constructor; [lia|assumption]. }
  assert (Ln : length (ext_bytes (XVar het hel c)) = n).
  { rewrite ext_bytes_var by assumption. cbn [length]. unfold n. lia. }
  split; [|split; [|split]].
  - rewrite <- Ln. apply as_be_encode. assumption.
  - assumption.
  - unfold X. rewrite ext_bytes_var by assumption. rewrite !be_decode_cons. cbn [length].
    rewrite Nat2N.inj_succ, N.pow_succ_r', <- pow256. lia.
  - rewrite <- pow256. apply be_decode_lt. assumption.
Qed.

Ltac to_bits n :=
  repeat match goal with
         | |- context [be_decode (slice (be_encode n ?X) ?i ?j)] =>
           rewrite (be_decode_slice n X i j) by lia
         | |- context [byte_or0 (be_encode n ?X) ?i] =>
           unfold byte_or0; rewrite (nth_be_encode n X i) by lia
         end;
  change MASK48 with (2 ^ 48 - 1);
  rewrite ?bits_shiftr, ?bits_land_mask.

Lemma length_eqb_16 hel (l : list N) : length l = N.to_nat (4 * hel) ->
  (length l =? 16)%nat = (hel =? 4).
Proof.
  intros ->. destruct (N.eqb_spec hel 4) as [->|H]; [reflexivity|]. apply Nat.eqb_neq. lia.
Qed.

Lemma parse_fti_nocode_agrees hel c : wf_ext (XVar 64 hel c) = true ->
  parse_fti_nocode (ext_bytes (XVar 64 hel c))
  = match dec_fti 0 (XVar 64 hel c) with Some v => model_of_fti v | None => Err end.
Proof.
  intros W. destruct (ext_as_number 64 hel c W) as (E & Ln & EX & HY).
  destruct (wf_ext_var _ _ _ W) as (_ & _ & _ & D & _).
  set (X := be_decode (ext_bytes (XVar 64 hel c))) in *.
  unfold parse_fti_nocode, dec_fti. rewrite (length_eqb_16 hel _ Ln).
  change (fti_widths 0) with (Some [48; 16; 16; 32]). cbn [sum_widths].
  destruct (N.eqb_spec hel 4) as [->|Hh].
  2:{ cbn [negb]. destruct (N.eqb_spec (hel * 32) (16 + (48 + (16 + (16 + (32 + 0)))))); [lia|reflexivity]. }
  cbn [negb]. change (4 * 32 =? 16 + (48 + (16 + (16 + (32 + 0))))) with true. cbn [negb].
  assert (Lc : length c = 14%nat) by lia. rewrite Lc in *.
  rewrite E. change (N.to_nat (4 * 4)) with 16%nat.
  to_bits 16%nat.
  change (bitsN X (8 * N.of_nat (16 - 1 - 1)) 8) with (bitsN X (8 * N.of_nat 14) 8).
  assert (B1 : bitsN X (8 * N.of_nat 14) 8 = 4).
  { pose proof (bits_high_part X (64 * 256 + 4) (8 * N.of_nat 14) (be_decode c) 0 8 EX HY) as Q.
    rewrite N.add_0_r in Q. rewrite Q. reflexivity. }
  rewrite B1. cbn [N.eqb Pos.eqb negb].
  unfold unpack. cbn [unpack_num sum_widths].
  repeat match goal with
         | |- context [(be_decode c / 2 ^ ?a) mod 2 ^ ?w] =>
           fold (bitsN (be_decode c) a w);
           rewrite (bits_low_part X (64 * 256 + 4) (8 * N.of_nat 14) (be_decode c) a w EX HY) by (vm_compute; discriminate)
         end.
  cbn [N.eqb]. reflexivity.
Qed.

Lemma length_eqb_12 hel (l : list N) : length l = N.to_nat (4 * hel) ->
  (length l =? 12)%nat = (hel =? 3).
Proof.
  intros ->. destruct (N.eqb_spec hel 3) as [->|H]; [reflexivity|]. apply Nat.eqb_neq. lia.
Qed.

Ltac rfc_bits X h n c EX HY :=
  unfold unpack; cbn [unpack_num sum_widths];
  repeat match goal with
         | |- context [(be_decode c / 2 ^ ?a) mod 2 ^ ?w] =>
           fold (bitsN (be_decode c) a w);
           rewrite (bits_low_part X h n (be_decode c) a w EX HY) by (vm_compute; discriminate)
         end.

Ltac hel_byte X h n c EX HY v :=
  let Q := fresh "Q" in let B1 := fresh "B1" in
  assert (B1 : bitsN X n 8 = v)
    by (pose proof (bits_high_part X h n (be_decode c) 0 8 EX HY) as Q;
        rewrite N.add_0_r in Q; rewrite Q; reflexivity);
  rewrite B1; cbn [N.eqb Pos.eqb negb].

Lemma parse_fti_rs28_agrees hel c : wf_ext (XVar 64 hel c) = true ->
  parse_fti_rs28 (ext_bytes (XVar 64 hel c))
  = match dec_fti 5 (XVar 64 hel c) with Some v => model_of_fti v | None => Err end.
Proof.
  intros W. destruct (ext_as_number 64 hel c W) as (E & Ln & EX & HY).
  destruct (wf_ext_var _ _ _ W) as (_ & _ & _ & D & _).
  set (X := be_decode (ext_bytes (XVar 64 hel c))) in *.
  unfold parse_fti_rs28, dec_fti. rewrite (length_eqb_12 hel _ Ln).
  change (fti_widths 5) with (Some [48; 16; 8; 8]). cbn [sum_widths].
  destruct (N.eqb_spec hel 3) as [->|Hh].
  2:{ cbn [negb]. destruct (N.eqb_spec (hel * 32) (16 + (48 + (16 + (8 + (8 + 0)))))); [lia|reflexivity]. }
  cbn [negb]. change (3 * 32 =? 16 + (48 + (16 + (8 + (8 + 0))))) with true. cbn [negb].
  assert (Lc : length c = 10%nat) by lia. rewrite Lc in *.
  rewrite E. change (N.to_nat (4 * 3)) with 12%nat.
  to_bits 12%nat.
  change (bitsN X (8 * N.of_nat (12 - 1 - 1)) 8) with (bitsN X (8 * N.of_nat 10) 8).
  hel_byte X (64 * 256 + 3) (8 * N.of_nat 10) c EX HY 3.
  rfc_bits X (64 * 256 + 3) (8 * N.of_nat 10) c EX HY.
  cbn [N.eqb Pos.eqb]. reflexivity.
Qed.

Lemma parse_fti_rs28us_agrees hel c : wf_ext (XVar 64 hel c) = true ->
  parse_fti_rs28us (ext_bytes (XVar 64 hel c))
  = match dec_fti 129 (XVar 64 hel c) with Some v => model_of_fti v | None => Err end.
Proof.
  intros W. destruct (ext_as_number 64 hel c W) as (E & Ln & EX & HY).
  destruct (wf_ext_var _ _ _ W) as (_ & _ & _ & D & _).
  set (X := be_decode (ext_bytes (XVar 64 hel c))) in *.
  unfold parse_fti_rs28us, dec_fti. rewrite (length_eqb_16 hel _ Ln).
  change (fti_widths 129) with (Some [48; 16; 16; 16; 16]). cbn [sum_widths].
  destruct (N.eqb_spec hel 4) as [->|Hh].
  2:{ cbn [negb]. destruct (N.eqb_spec (hel * 32) (16 + (48 + (16 + (16 + (16 + (16 + 0))))))); [lia|reflexivity]. }
  cbn [negb]. change (4 * 32 =? 16 + (48 + (16 + (16 + (16 + (16 + 0)))))) with true. cbn [negb].
  assert (Lc : length c = 14%nat) by lia. rewrite Lc in *.
  rewrite E. change (N.to_nat (4 * 4)) with 16%nat.
  to_bits 16%nat.
  change (bitsN X (8 * N.of_nat (16 - 1 - 1)) 8) with (bitsN X (8 * N.of_nat 14) 8).
  hel_byte X (64 * 256 + 4) (8 * N.of_nat 14) c EX HY 4.
  rfc_bits X (64 * 256 + 4) (8 * N.of_nat 14) c EX HY.
  cbn [N.eqb Pos.eqb]. reflexivity.
Qed.

Lemma parse_fti_rs2m_agrees hel c : wf_ext (XVar 64 hel c) = true ->
  parse_fti_rs2m (ext_bytes (XVar 64 hel c))
  = match dec_fti 2 (XVar 64 hel c) with Some v => model_of_fti v | None => Err end.
Proof.
  intros W. destruct (ext_as_number 64 hel c W) as (E & Ln & EX & HY).
  destruct (wf_ext_var _ _ _ W) as (_ & _ & _ & D & _).
  set (X := be_decode (ext_bytes (XVar 64 hel c))) in *.
  unfold parse_fti_rs2m, dec_fti. rewrite (length_eqb_16 hel _ Ln).
  change (fti_widths 2) with (Some [48; 8; 8; 16; 16; 16]). cbn [sum_widths].
  destruct (N.eqb_spec hel 4) as [->|Hh].
  2:{ cbn [negb]. destruct (N.eqb_spec (hel * 32) (16 + (48 + (8 + (8 + (16 + (16 + (16 + 0)))))))); [lia|reflexivity]. }
  cbn [negb]. change (4 * 32 =? 16 + (48 + (8 + (8 + (16 + (16 + (16 + 0))))))) with true. cbn [negb].
  assert (Lc : length c = 14%nat) by lia. rewrite Lc in *.
  rewrite E. change (N.to_nat (4 * 4)) with 16%nat.
  to_bits 16%nat.
  change (bitsN X (8 * N.of_nat (16 - 1 - 1)) 8) with (bitsN X (8 * N.of_nat 14) 8).
  hel_byte X (64 * 256 + 4) (8 * N.of_nat 14) c EX HY 4.
  rfc_bits X (64 * 256 + 4) (8 * N.of_nat 14) c EX HY.
  cbn [N.eqb Pos.eqb]. reflexivity.
Qed.

Lemma parse_fti_raptorq_agrees hel c : wf_ext (XVar 64 hel c) = true ->
  parse_fti_raptorq (ext_bytes (XVar 64 hel c))
  = match dec_fti 6 (XVar 64 hel c) with Some v => model_of_fti v | None => Err end.
Proof.
  intros W. destruct (ext_as_number 64 hel c W) as (E & Ln & EX & HY).
  destruct (wf_ext_var _ _ _ W) as (_ & _ & _ & D & _).
  set (X := be_decode (ext_bytes (XVar 64 hel c))) in *.
  unfold parse_fti_raptorq, dec_fti. rewrite (length_eqb_16 hel _ Ln).
  change (fti_widths 6) with (Some [40; 8; 16; 8; 16; 8; 16]). cbn [sum_widths].
  destruct (N.eqb_spec hel 4) as [->|Hh].
  2:{ cbn [negb]. destruct (N.eqb_spec (hel * 32) (16 + (40 + (8 + (16 + (8 + (16 + (8 + (16 + 0))))))))); [lia|reflexivity]. }
  cbn [negb]. change (4 * 32 =? 16 + (40 + (8 + (16 + (8 + (16 + (8 + (16 + 0)))))))) with true. cbn [negb].
  assert (Lc : length c = 14%nat) by lia. rewrite Lc in *.
  rewrite E. change (N.to_nat (4 * 4)) with 16%nat.
  to_bits 16%nat.
  rfc_bits X (64 * 256 + 4) (8 * N.of_nat 14) c EX HY.
  cbn [N.eqb Pos.eqb]. reflexivity.
Qed.

(* D32: for FEC id 1 the code uses the RaptorQ-style figure below, not the RFC 5053 one.
   What can be said of the code as it is: its parser reads exactly this figure ... *)
Definition flute_raptor_layout (L rs T Z Nn Al pad : N) : list field :=
  [(L, 40); (rs, 8); (T, 16); (Z, 16); (Nn, 8); (Al, 8); (pad, 16)].
Definition flute_raptor_widths : list N := [40; 8; 16; 16; 8; 8; 16].
Definition dec_raptor_flute (e : rfc_ext) : option (N * N * N * N * N) :=
  match e with
  | XVar _ hel c =>
    if negb (hel * 32 =? 16 + sum_widths flute_raptor_widths) then None
    else match unpack flute_raptor_widths c with
         | [L; _; T; Z; Nn; Al; _] => Some (L, T, Z, Nn, Al)
         | _ => None
         end
  | _ => None
  end.
Definition model_of_raptor_flute (x : N * N * N * N * N) : res (oti * N) :=
  let '(L, T, Z, Nn, Al) := x in
  raptor_checks T Z Al
    (Ok (mk_oti Raptor 0 ((div_ceil_u (div_ceil_u L Z) T) mod U32) T 0 (Some (SSRaptor Z Nn Al)), L)).

Lemma parse_fti_raptor_agrees_flute hel c : wf_ext (XVar 64 hel c) = true ->
  parse_fti_raptor (ext_bytes (XVar 64 hel c))
  = match dec_raptor_flute (XVar 64 hel c) with Some x => model_of_raptor_flute x | None => Err end.
Proof.
  intros W. destruct (ext_as_number 64 hel c W) as (E & Ln & EX & HY).
  destruct (wf_ext_var _ _ _ W) as (_ & _ & _ & D & _).
  set (X := be_decode (ext_bytes (XVar 64 hel c))) in *.
  unfold parse_fti_raptor, dec_raptor_flute, flute_raptor_widths. rewrite (length_eqb_16 hel _ Ln).
  cbn [sum_widths].
  destruct (N.eqb_spec hel 4) as [->|Hh].
  2:{ cbn [negb]. destruct (N.eqb_spec (hel * 32) (16 + (40 + (8 + (16 + (16 + (8 + (8 + (16 + 0))))))))); [lia|reflexivity]. }
  cbn [negb]. change (4 * 32 =? 16 + (40 + (8 + (16 + (16 + (8 + (8 + (16 + 0)))))))) with true. cbn [negb].
  assert (Lc : length c = 14%nat) by lia. rewrite Lc in *.
  rewrite E. change (N.to_nat (4 * 4)) with 16%nat.
  to_bits 16%nat.
  rfc_bits X (64 * 256 + 4) (8 * N.of_nat 14) c EX HY.
  reflexivity.
Qed.

(* ... and the RFC 5053 figure is read differently (witness) *)
Lemma raptor_fti_d32_witness :
  let v := FtiRaptor 1000 0 16 2 1 4 in
  wf_ext (x_fti v) = true /\ dec_fti 1 (x_fti v) = Some v /\ fti_acceptable v = true
  /\ parse_fti_raptor (ext_bytes (x_fti v)) <> model_of_fti v.
Proof. vm_compute. repeat split; try reflexivity. discriminate. Qed.

Theorem parse_fti_agrees f hel c : f <> Raptor -> wf_ext (XVar 64 hel c) = true ->
  parse_fti f (ext_bytes (XVar 64 hel c))
  = match dec_fti (fec_code f) (XVar 64 hel c) with Some v => model_of_fti v | None => Err end.
Proof.
  intros Hf W. destruct f; cbn [parse_fti fec_code].
  - apply parse_fti_nocode_agrees; assumption.
  - contradiction.
  - apply parse_fti_rs2m_agrees; assumption.
  - apply parse_fti_rs28_agrees; assumption.
  - apply parse_fti_raptorq_agrees; assumption.
  - apply parse_fti_rs28us_agrees; assumption.
Qed.

(* ---------------------------------------------------------------------------------- *)
(* EXT_FTI at the RFC level: the decoder inverts the encoder                            *)
Lemma all_bytes_pack fs : all_bytes (pack fs) = true.
Proof.
  apply forallb_forall. intros b Hb. apply N.ltb_lt.
  pose proof (pack_bytes_ok fs) as F. rewrite Forall_forall in F. apply F. assumption.
Qed.

Lemma x_fti_props v : all_fit (fti_layout v) = true ->
  wf_ext (x_fti v) = true /\ dec_fti (fti_cp v) (x_fti v) = Some v.
Proof.
  intros Hf. split.
  - unfold x_fti. cbn [wf_ext]. rewrite pack_length, all_bytes_pack.
    destruct v; reflexivity.
  - unfold x_fti, dec_fti.
    destruct v; cbn [fti_cp fti_layout bits_of] in *;
      match goal with |- context [fti_widths ?k] =>
        let w := eval vm_compute in (fti_widths k) in change (fti_widths k) with w end;
      cbn [sum_widths];
      match goal with |- context [negb (?a =? ?b)] =>
        let r := eval vm_compute in (a =? b) in change (a =? b) with r end;
      cbn [negb];
      match goal with |- context [unpack ?ws (pack ?fs)] =>
        change ws with (map snd fs); rewrite (unpack_pack fs Hf eq_refl) end;
      reflexivity.
Qed.

(* ---------------------------------------------------------------------------------- *)
(* EXT_FTI: what add_fti writes is the RFC figure                                        *)
Lemma be_split k1 k2 v a b : v = a * 256 ^ N.of_nat k2 + b -> b < 256 ^ N.of_nat k2 ->
  be_encode (k1 + k2) v = be_encode k1 a ++ be_encode k2 b.
Proof. intros -> H. apply be_encode_app. assumption. Qed.

Lemma fits_cons v w r : all_fit ((v, w) :: r) = true -> v < 2 ^ w /\ all_fit r = true.
Proof.
  unfold all_fit. cbn [forallb]. unfold fits at 1. cbn [fst snd].
  rewrite andb_true_iff, N.ltb_lt. tauto.
Qed.

Lemma x_fti_bytes v : ext_bytes (x_fti v)
  = [64; (16 + bits_of (fti_layout v)) / 32] ++ pack (fti_layout v).
Proof.
  unfold x_fti. cbn [ext_bytes]. rewrite pack_two_bytes; [reflexivity|lia|].
  destruct v; vm_compute; reflexivity.
Qed.

Lemma land_low x k : N.land x (2 ^ k - 1) = x mod 2 ^ k.
Proof. apply land_ones_mod. Qed.

Lemma add_fti_nocode_is_rfc data o L :
  all_fit (fti_layout (FtiNoCode L 0 (o_E o) (o_B o))) = true ->
  add_fti_nocode data o L = push_ext data (ext_bytes (x_fti (FtiNoCode L 0 (o_E o) (o_B o)))) 4.
Proof.
  intros Hf. cbn [fti_layout] in Hf.
  apply fits_cons in Hf as [HL Hf]. apply fits_cons in Hf as [_ Hf].
  apply fits_cons in Hf as [HE Hf]. apply fits_cons in Hf as [HB _].
  unfold add_fti_nocode. f_equal. rewrite x_fti_bytes. cbn [fti_layout].
  change (fti_header16 4) with [64; 4].
  change ((16 + bits_of [(L, 48); (0, 16); (o_E o, 16); (o_B o, 32)]) / 32) with 4.
  change [(L, 48); (0, 16); (o_E o, 16); (o_B o, 32)]
    with [(L, 8 * N.of_nat 6); (0, 8 * N.of_nat 2); (o_E o, 8 * N.of_nat 2); (o_B o, 8 * N.of_nat 4)].
  rewrite !pack_cons_bytes by reflexivity. change (pack []) with (@nil N). rewrite app_nil_r.
  f_equal. unfold TWO64. pow_norm.
  rewrite N.mod_small by lia.
  change (be_encode 8 (L * 65536)) with (be_encode (6 + 2) (L * 65536)).
  rewrite (be_split 6 2 (L * 65536) L 0) by (change (256 ^ N.of_nat 2) with 65536; lia).
  rewrite <- !app_assoc. f_equal. f_equal. f_equal.
  change 65535 with (2 ^ 16 - 1). rewrite !land_low, shiftr_div. pow_norm.
  pose proof (N.div_mod (o_B o) 65536 ltac:(lia)) as DM. pose proof (N.mod_lt (o_B o) 65536 ltac:(lia)) as ML.
  assert (Q : o_B o / 65536 < 65536) by (apply N.div_lt_upper_bound; lia).
  rewrite (N.mod_small (o_B o / 65536)) by assumption.
  symmetry. change 4%nat with (2 + 2)%nat. apply be_split; change (256 ^ N.of_nat 2) with 65536; lia.
Qed.

Lemma hdr64 k L : k < 256 -> L < 2 ^ 48 ->
  be_encode 8 (N.lor (N.lor (N.shiftl 64 56) (N.shiftl k 48)) (N.land L MASK48)) = [64; k] ++ be_encode 6 L.
Proof.
  intros Hk HL. change MASK48 with (2 ^ 48 - 1). rewrite land_low, N.mod_small by assumption.
  rewrite !N.shiftl_mul_pow2.
  rewrite (lor_disjoint (64 * 2 ^ 56) (k * 2 ^ 48) 56 64) by (pow_norm; lia).
  rewrite (lor_disjoint _ L 48 (64 * 256 + k)) by (pow_norm; lia).
  change 8%nat with (2 + 6)%nat.
  rewrite (be_split 2 6 _ (64 * 256 + k) L) by (change (256 ^ N.of_nat 6) with (2 ^ 48); pow_norm; lia).
  f_equal. change 2%nat with (1 + 1)%nat.
  rewrite (be_split 1 1 _ 64 k) by (change (256 ^ N.of_nat 1) with 256; lia).
  rewrite !be_encode_1 by lia. reflexivity.
Qed.

Lemma cadd32_ok a b : a + b < U32 -> cadd32 a b = Ok (a + b).
Proof. intros H. unfold cadd32. destruct (N.ltb_spec (a + b) U32); [reflexivity|lia]. Qed.

Lemma add_fti_rs28_is_rfc data o L :
  all_fit (fti_layout (FtiRS28 L (o_E o) (o_B o) (o_B o + o_parity o))) = true ->
  add_fti_rs28 data o L = push_ext data (ext_bytes (x_fti (FtiRS28 L (o_E o) (o_B o) (o_B o + o_parity o)))) 3.
Proof.
  intros Hf. cbn [fti_layout] in Hf.
  apply fits_cons in Hf as [HL Hf]. apply fits_cons in Hf as [HE Hf].
  apply fits_cons in Hf as [HB Hf]. apply fits_cons in Hf as [Hn _].
  unfold add_fti_rs28. rewrite cadd32_ok by (unfold U32; pow_norm; lia). cbn [rbind].
  f_equal. rewrite x_fti_bytes. cbn [fti_layout].
  change ((16 + bits_of [(L, 48); (o_E o, 16); (o_B o, 8); (o_B o + o_parity o, 8)]) / 32) with 3.
  change [(L, 48); (o_E o, 16); (o_B o, 8); (o_B o + o_parity o, 8)]
    with [(L, 8 * N.of_nat 6); (o_E o, 8 * N.of_nat 2); (o_B o, 8 * N.of_nat 1); (o_B o + o_parity o, 8 * N.of_nat 1)].
  rewrite !pack_cons_bytes by reflexivity. change (pack []) with (@nil N). rewrite app_nil_r.
  rewrite hdr64 by (assumption || lia). rewrite <- !app_assoc. f_equal. f_equal.
  change 255 with (2 ^ 8 - 1). rewrite !land_low.
  rewrite (N.mod_small (o_B o)) by assumption.
  rewrite (N.add_comm (o_parity o)). rewrite (N.mod_small (o_B o + o_parity o)) by assumption.
  rewrite !N.shiftl_mul_pow2.
  set (n := o_B o + o_parity o) in *.
  rewrite (lor_disjoint (o_E o * 2 ^ 16) (o_B o * 2 ^ 8) 16 (o_E o)) by (pow_norm; lia).
  rewrite (lor_disjoint _ n 8 (o_E o * 256 + o_B o)) by (pow_norm; lia).
  change 4%nat with (2 + 2)%nat.
  rewrite (be_split 2 2 _ (o_E o) (o_B o * 256 + n)) by (change (256 ^ N.of_nat 2) with 65536; pow_norm; lia).
  f_equal. change 2%nat with (1 + 1)%nat.
  apply be_split; change (256 ^ N.of_nat 1) with 256; pow_norm; lia.
Qed.

Lemma add_fti_rs28us_is_rfc data o L :
  all_fit (fti_layout (FtiRS28US L (o_inst o) (o_E o) (o_B o) (o_B o + o_parity o))) = true ->
  add_fti_rs28us data o L
  = push_ext data (ext_bytes (x_fti (FtiRS28US L (o_inst o) (o_E o) (o_B o) (o_B o + o_parity o)))) 4.
Proof.
  intros Hf. cbn [fti_layout] in Hf.
  apply fits_cons in Hf as [HL Hf]. apply fits_cons in Hf as [Hi Hf]. apply fits_cons in Hf as [HE Hf].
  apply fits_cons in Hf as [HB Hf]. apply fits_cons in Hf as [Hn _].
  unfold add_fti_rs28us. rewrite cadd32_ok by (unfold U32; pow_norm; lia). cbn [rbind].
  f_equal. rewrite x_fti_bytes. cbn [fti_layout].
  change ((16 + bits_of [(L, 48); (o_inst o, 16); (o_E o, 16); (o_B o, 16); (o_B o + o_parity o, 16)]) / 32) with 4.
  change [(L, 48); (o_inst o, 16); (o_E o, 16); (o_B o, 16); (o_B o + o_parity o, 16)]
    with [(L, 8 * N.of_nat 6); (o_inst o, 8 * N.of_nat 2); (o_E o, 8 * N.of_nat 2); (o_B o, 8 * N.of_nat 2);
          (o_B o + o_parity o, 8 * N.of_nat 2)].
  rewrite !pack_cons_bytes by reflexivity. change (pack []) with (@nil N). rewrite app_nil_r.
  change (fti_header16 4) with [64; 4]. f_equal. unfold TWO64. pow_norm.
  rewrite N.mod_small by lia.
  rewrite (lor_disjoint (L * 65536) (o_inst o) 16 L) by (pow_norm; lia).
  change (be_encode 8 (L * 65536 + o_inst o)) with (be_encode (6 + 2) (L * 65536 + o_inst o)).
  rewrite (be_split 6 2 _ L (o_inst o)) by (change (256 ^ N.of_nat 2) with 65536; lia).
  rewrite <- !app_assoc. do 3 f_equal.
  change 65535 with (2 ^ 16 - 1). rewrite land_low. pow_norm.
  rewrite (N.add_comm (o_parity o)). rewrite !N.mod_small by assumption. reflexivity.
Qed.

Lemma add_fti_rs2m_is_rfc data o L m g : o_ss o = Some (SSReedSolomon m g) ->
  all_fit (fti_layout (FtiRS2m L m g (o_E o) (o_B o) (o_B o + o_parity o))) = true ->
  add_fti_rs2m data o L
  = push_ext data (ext_bytes (x_fti (FtiRS2m L m g (o_E o) (o_B o) (o_B o + o_parity o)))) 4.
Proof.
  intros Hss Hf. cbn [fti_layout] in Hf.
  apply fits_cons in Hf as [HL Hf]. apply fits_cons in Hf as [Hm Hf]. apply fits_cons in Hf as [Hg Hf].
  apply fits_cons in Hf as [HE Hf]. apply fits_cons in Hf as [HB Hf]. apply fits_cons in Hf as [Hn _].
  unfold add_fti_rs2m. rewrite Hss. rewrite cadd32_ok by (unfold U32; pow_norm; lia). cbn [rbind].
  f_equal. rewrite x_fti_bytes. cbn [fti_layout].
  change ((16 + bits_of [(L, 48); (m, 8); (g, 8); (o_E o, 16); (o_B o, 16); (o_B o + o_parity o, 16)]) / 32) with 4.
  change [(L, 48); (m, 8); (g, 8); (o_E o, 16); (o_B o, 16); (o_B o + o_parity o, 16)]
    with [(L, 8 * N.of_nat 6); (m, 8 * N.of_nat 1); (g, 8 * N.of_nat 1); (o_E o, 8 * N.of_nat 2);
          (o_B o, 8 * N.of_nat 2); (o_B o + o_parity o, 8 * N.of_nat 2)].
  rewrite !pack_cons_bytes by reflexivity. change (pack []) with (@nil N). rewrite app_nil_r.
  rewrite hdr64 by (assumption || lia). rewrite <- !app_assoc.
  rewrite !be_encode_1 by assumption. cbn [app]. do 6 f_equal. pow_norm.
  rewrite (N.add_comm (o_parity o)). rewrite !N.mod_small by assumption. reflexivity.
Qed.

Lemma add_fti_raptorq_is_rfc data o L z n al : o_ss o = Some (SSRaptorQ z n al) ->
  all_fit (fti_layout (FtiRaptorQ L 0 (o_E o) z n al 0)) = true ->
  add_fti_raptorq data o L = push_ext data (ext_bytes (x_fti (FtiRaptorQ L 0 (o_E o) z n al 0))) 4.
Proof.
  intros Hss Hf. cbn [fti_layout] in Hf.
  apply fits_cons in Hf as [HL Hf]. apply fits_cons in Hf as [_ Hf]. apply fits_cons in Hf as [HE Hf].
  apply fits_cons in Hf as [Hz Hf]. apply fits_cons in Hf as [Hn Hf]. apply fits_cons in Hf as [Ha _].
  unfold add_fti_raptorq. rewrite Hss. f_equal. rewrite x_fti_bytes. cbn [fti_layout].
  change ((16 + bits_of [(L, 40); (0, 8); (o_E o, 16); (z, 8); (n, 16); (al, 8); (0, 16)]) / 32) with 4.
  change [(L, 40); (0, 8); (o_E o, 16); (z, 8); (n, 16); (al, 8); (0, 16)]
    with [(L, 8 * N.of_nat 5); (0, 8 * N.of_nat 1); (o_E o, 8 * N.of_nat 2); (z, 8 * N.of_nat 1);
          (n, 8 * N.of_nat 2); (al, 8 * N.of_nat 1); (0, 8 * N.of_nat 2)].
  rewrite !pack_cons_bytes by reflexivity. change (pack []) with (@nil N). rewrite app_nil_r.
  change (fti_header16 4) with [64; 4]. f_equal. unfold TWO64. pow_norm.
  change 65535 with (2 ^ 16 - 1). rewrite land_low. pow_norm. rewrite (N.mod_small (o_E o)) by assumption.
  rewrite N.mod_small by lia.
  rewrite (lor_disjoint (L * 16777216) (o_E o) 24 L) by (pow_norm; lia).
  change (be_encode 8 (L * 16777216 + o_E o)) with (be_encode (5 + 3) (L * 16777216 + o_E o)).
  rewrite (be_split 5 3 _ L (o_E o)) by (change (256 ^ N.of_nat 3) with 16777216; lia).
  change 3%nat with (1 + 2)%nat.
  rewrite (be_split 1 2 (o_E o) 0 (o_E o)) by (change (256 ^ N.of_nat 2) with 65536; lia).
  rewrite <- !app_assoc.
  rewrite !be_encode_1 by lia. reflexivity.
Qed.

Lemma add_fti_raptor_is_flute_figure data o L z n al : o_ss o = Some (SSRaptor z n al) ->
  all_fit (flute_raptor_layout L 0 (o_E o) z n al 0) = true ->
  add_fti_raptor data o L
  = push_ext data (ext_bytes (XVar 64 4 (pack (flute_raptor_layout L 0 (o_E o) z n al 0)))) 4.
Proof.
  intros Hss Hf. unfold flute_raptor_layout in *.
  apply fits_cons in Hf as [HL Hf]. apply fits_cons in Hf as [_ Hf]. apply fits_cons in Hf as [HE Hf].
  apply fits_cons in Hf as [Hz Hf]. apply fits_cons in Hf as [Hn Hf]. apply fits_cons in Hf as [Ha _].
  unfold add_fti_raptor. rewrite Hss. f_equal. rewrite ext_bytes_var by lia.
  change [(L, 40); (0, 8); (o_E o, 16); (z, 16); (n, 8); (al, 8); (0, 16)]
    with [(L, 8 * N.of_nat 5); (0, 8 * N.of_nat 1); (o_E o, 8 * N.of_nat 2); (z, 8 * N.of_nat 2);
          (n, 8 * N.of_nat 1); (al, 8 * N.of_nat 1); (0, 8 * N.of_nat 2)].
  rewrite !pack_cons_bytes by reflexivity. change (pack []) with (@nil N). rewrite app_nil_r.
  change (fti_header16 4) with [64; 4]. change (64 :: 4 :: ?x) with ([64; 4] ++ x).
  cbn [app]. do 2 f_equal. unfold TWO64. pow_norm.
  change 65535 with (2 ^ 16 - 1). rewrite land_low. pow_norm. rewrite (N.mod_small (o_E o)) by assumption.
  rewrite N.mod_small by lia.
  rewrite (lor_disjoint (L * 16777216) (o_E o) 24 L) by (pow_norm; lia).
  change (be_encode 8 (L * 16777216 + o_E o)) with (be_encode (5 + 3) (L * 16777216 + o_E o)).
  rewrite (be_split 5 3 _ L (o_E o)) by (change (256 ^ N.of_nat 3) with 16777216; lia).
  change 3%nat with (1 + 2)%nat.
  rewrite (be_split 1 2 (o_E o) 0 (o_E o)) by (change (256 ^ N.of_nat 2) with 65536; lia).
  rewrite <- !app_assoc.
  rewrite !be_encode_1 by lia. reflexivity.
Qed.

(* flute's Raptor EXT_FTI round-trips with itself: what add_fti writes for L < 2^40, E, Z < 2^16,
   N, Al < 2^8 is read back by get_fti to the same values (subject to the receiver's checks) *)
Theorem raptor_fti_self_roundtrip data o L z n al : o_ss o = Some (SSRaptor z n al) ->
  L < 2 ^ 40 -> o_E o < 2 ^ 16 -> z < 2 ^ 16 -> n < 2 ^ 8 -> al < 2 ^ 8 ->
  exists ext, add_fti_raptor data o L = push_ext data ext 4
              /\ parse_fti_raptor ext = model_of_raptor_flute (L, o_E o, z, n, al).
Proof.
  intros Hss HL HE Hz Hn Ha.
  assert (Hf : all_fit (flute_raptor_layout L 0 (o_E o) z n al 0) = true).
  { unfold flute_raptor_layout, all_fit. cbn [forallb]. unfold fits. cbn [fst snd].
    repeat (apply andb_true_iff; split); try reflexivity; apply N.ltb_lt; assumption. }
  set (c := pack (flute_raptor_layout L 0 (o_E o) z n al 0)).
  assert (W : wf_ext (XVar 64 4 c) = true).
  { cbn [wf_ext]. unfold c. rewrite pack_length, all_bytes_pack. reflexivity. }
  exists (ext_bytes (XVar 64 4 c)). split.
  - apply add_fti_raptor_is_flute_figure; assumption.
  - rewrite (parse_fti_raptor_agrees_flute 4 c W). unfold dec_raptor_flute.
    change (negb (4 * 32 =? 16 + sum_widths flute_raptor_widths)) with false. cbv iota.
    unfold c. change flute_raptor_widths with (map snd (flute_raptor_layout L 0 (o_E o) z n al 0)).
    rewrite (unpack_pack _ Hf eq_refl). reflexivity.
Qed.

(* all schemes: the EXT_FTI flute writes is the RFC figure of the scheme *)
Theorem add_fti_is_rfc data o L v : o_fec o <> Raptor ->
  fti_of_oti o L = Some v -> all_fit (fti_layout v) = true ->
  add_fti data o L = push_ext data (ext_bytes (x_fti v)) ((16 + bits_of (fti_layout v)) / 32).
Proof.
  unfold fti_of_oti, add_fti. intros Hnr Hv Hf.
  destruct (o_fec o) eqn:Ef.
  - injection Hv as <-. apply add_fti_nocode_is_rfc. assumption.
  - contradiction.
  - destruct (o_ss o) as [[m g| |]|] eqn:Es; try discriminate. injection Hv as <-.
    apply add_fti_rs2m_is_rfc; assumption.
  - injection Hv as <-. apply add_fti_rs28_is_rfc. assumption.
  - destruct (o_ss o) as [[|z n al|]|] eqn:Es; try discriminate. injection Hv as <-.
    apply add_fti_raptorq_is_rfc; assumption.
  - injection Hv as <-. apply add_fti_rs28us_is_rfc. assumption.
Qed.

(* ---------------------------------------------------------------------------------- *)
(* FEC payload ids                                                                      *)
Lemma pid_two_fields a wa b wb ka kb :
  wa = 8 * N.of_nat ka -> wb = 8 * N.of_nat kb -> a < 2 ^ wa -> b < 2 ^ wb ->
  be_encode (ka + kb) (N.lor (N.shiftl a wb) b) = pack [(a, wa); (b, wb)].
Proof.
  intros -> -> Ha Hb. rewrite lor_shiftl_add by assumption.
  rewrite pack_cons_bytes by (cbn [bits_of]; rewrite N.add_0_r; apply mod8_mul).
  rewrite pack_bytes_field.
  apply be_split; rewrite pow256; [reflexivity|assumption].
Qed.

Theorem add_pid_is_rfc o p fs :
  pid_fields (fec_code (o_fec o)) (oti_m o) (k_sbn p) (k_esi p) (k_source_block_length p) = Some fs ->
  all_fit fs = true ->
  (match o_fec o with RS2m => k_esi p < 256 | _ => True end) ->
  add_fec_payload_id o p = Ok (pack fs).
Proof.
  unfold add_fec_payload_id, pid_fields. intros Hfs Hf Hx.
  assert (Em : rs2m_m o = oti_m o) by reflexivity.
  destruct (o_fec o); cbn [fec_code] in Hfs.
  - (* NoCode *) change (pid_widths 0 (oti_m o)) with (Some [16; 16]) in Hfs. injection Hfs as <-.
    apply fits_cons in Hf as [Hs Hf]. apply fits_cons in Hf as [He _].
    change 65535 with (2 ^ 16 - 1). rewrite !land_low, !N.mod_small by assumption.
    f_equal. apply (pid_two_fields _ 16 _ 16 2 2); try reflexivity; assumption.
  - (* Raptor *) change (pid_widths 1 (oti_m o)) with (Some [16; 16]) in Hfs. injection Hfs as <-.
    apply fits_cons in Hf as [Hs Hf]. apply fits_cons in Hf as [He _].
    change 65535 with (2 ^ 16 - 1). rewrite !land_low, !N.mod_small by assumption.
    f_equal. apply (pid_two_fields _ 16 _ 16 2 2); try reflexivity; assumption.
  - (* RS2m *) rewrite Em. unfold pid_widths in Hfs. cbn [N.eqb Pos.eqb orb] in Hfs.
    destruct (N.leb_spec 1 (oti_m o)) as [M1|M1]; cbn [andb] in Hfs; [|discriminate].
    destruct (N.leb_spec (oti_m o) 31) as [M2|M2]; [|discriminate].
    injection Hfs as <-. set (m := oti_m o) in *.
    apply fits_cons in Hf as [Hs Hf]. apply fits_cons in Hf as [He _].
    destruct (N.leb_spec 32 m) as [G|_]; [lia|]. f_equal.
    change 255 with (2 ^ 8 - 1). rewrite land_low. pow_norm. rewrite (N.mod_small (k_esi p)) by assumption.
    assert (Hp : k_sbn p * 2 ^ m < U32).
    { unfold U32. change 4294967296 with (2 ^ 32). rewrite (pow2_split m 32) by lia.
      apply N.mul_lt_mono_pos_r; [apply pow2_pos|assumption]. }
    rewrite N.mod_small by assumption.
    rewrite (lor_disjoint _ (k_esi p) m (k_sbn p)) by (reflexivity || assumption).
    unfold pack. cbn [bits_of pack_num].
    replace (32 - m + (m + 0)) with 32 by lia. change (N.to_nat (32 / 8)) with 4%nat.
    rewrite !N.mod_small by assumption. rewrite N.add_0_r, N.pow_0_r, N.mul_1_r, N.add_0_r. reflexivity.
  - (* RS28 *) change (pid_widths 5 (oti_m o)) with (Some [24; 8]) in Hfs. injection Hfs as <-.
    apply fits_cons in Hf as [Hs Hf]. apply fits_cons in Hf as [He _].
    change 16777215 with (2 ^ 24 - 1). change 255 with (2 ^ 8 - 1).
    rewrite !land_low. rewrite N.mod_mod by (apply N.pow_nonzero; lia). rewrite !N.mod_small by assumption.
    f_equal. apply (pid_two_fields _ 24 _ 8 3 1); try reflexivity; assumption.
  - (* RaptorQ *) change (pid_widths 6 (oti_m o)) with (Some [8; 24]) in Hfs. injection Hfs as <-.
    apply fits_cons in Hf as [Hs Hf]. apply fits_cons in Hf as [He _].
    change 16777215 with (2 ^ 24 - 1). change 255 with (2 ^ 8 - 1).
    rewrite !land_low, !N.mod_small by assumption.
    f_equal. apply (pid_two_fields _ 8 _ 24 1 3); try reflexivity; assumption.
  - (* RS28US *) change (pid_widths 129 (oti_m o)) with (Some [32; 16; 16]) in Hfs. injection Hfs as <-.
    apply fits_cons in Hf as [Hs Hf]. apply fits_cons in Hf as [Hl Hf]. apply fits_cons in Hf as [He _].
    pow_norm. rewrite !N.mod_small by assumption. f_equal.
    change [(k_sbn p, 32); (k_source_block_length p, 16); (k_esi p, 16)]
      with [(k_sbn p, 8 * N.of_nat 4); (k_source_block_length p, 8 * N.of_nat 2); (k_esi p, 8 * N.of_nat 2)].
    rewrite !pack_cons_bytes by reflexivity. change (pack []) with (@nil N). rewrite app_nil_r. reflexivity.
Qed.

(* the parser's payload id is the RFC decoder's, on EVERY byte string of the right length *)
Theorem get_pid_agrees o pid ws :
  Forall (fun b => b < 256) pid ->
  pid_widths (fec_code (o_fec o)) (rs2m_m o) = Some ws ->
  length pid = pid_bytes (fec_code (o_fec o)) ->
  get_fec_payload_id o pid
  = match dec_pid (fec_code (o_fec o)) (rs2m_m o) pid with Some r => Ok r | None => Err end.
Proof.
  intros Hb Hw Hl. unfold get_fec_payload_id, dec_pid. rewrite Hw. unfold unpack.
  pose proof (be_decode_lt pid Hb) as HX. rewrite Hl in HX.
  set (X := be_decode pid) in *.
  destruct (o_fec o); cbn [fec_code] in *; unfold pid_bytes in *; cbn [N.eqb Pos.eqb] in *;
    rewrite Hl; cbn [Nat.eqb negb].
  - change (pid_widths 0 (rs2m_m o)) with (Some [16; 16]) in Hw. injection Hw as <-.
    cbn [unpack_num sum_widths]. change (256 ^ N.of_nat 4) with (2 ^ 32) in HX.
    rewrite <- (bits_whole X 32 HX) at 1 2. change 65535 with (2 ^ 16 - 1).
    rewrite bits_shiftr, bits_land_mask. reflexivity.
  - change (pid_widths 1 (rs2m_m o)) with (Some [16; 16]) in Hw. injection Hw as <-.
    cbn [unpack_num sum_widths]. change (256 ^ N.of_nat 4) with (2 ^ 32) in HX.
    rewrite <- (bits_whole X 32 HX) at 1 2. change 65535 with (2 ^ 16 - 1).
    rewrite bits_shiftr, bits_land_mask. reflexivity.
  - unfold pid_widths in Hw. cbn [N.eqb Pos.eqb orb] in Hw.
    destruct (N.leb_spec 1 (rs2m_m o)) as [M1|M1]; cbn [andb] in Hw; [|discriminate].
    destruct (N.leb_spec (rs2m_m o) 31) as [M2|M2]; [|discriminate].
    injection Hw as <-. set (m := rs2m_m o) in *.
    destruct (N.leb_spec 32 m) as [G|_]; [lia|].
    cbn [unpack_num sum_widths]. change (256 ^ N.of_nat 4) with (2 ^ 32) in HX.
    rewrite <- (bits_whole X 32 HX) at 1 2.
    rewrite bits_shiftr, bits_land_mask.
    fold (bitsN X (m + 0) (32 - m)). fold (bitsN X 0 m).
    replace (0 + m) with (m + 0) by lia. replace (N.min 32 m) with m by lia. reflexivity.
  - change (pid_widths 5 (rs2m_m o)) with (Some [24; 8]) in Hw. injection Hw as <-.
    cbn [unpack_num sum_widths]. change (256 ^ N.of_nat 4) with (2 ^ 32) in HX.
    rewrite <- (bits_whole X 32 HX) at 1 2. change 255 with (2 ^ 8 - 1).
    rewrite bits_shiftr, bits_land_mask. reflexivity.
  - change (pid_widths 6 (rs2m_m o)) with (Some [8; 24]) in Hw. injection Hw as <-.
    cbn [unpack_num sum_widths]. change (256 ^ N.of_nat 4) with (2 ^ 32) in HX.
    rewrite <- (bits_whole X 32 HX) at 1 2. change 16777215 with (2 ^ 24 - 1).
    rewrite bits_shiftr, bits_land_mask. reflexivity.
  - change (pid_widths 129 (rs2m_m o)) with (Some [32; 16; 16]) in Hw. injection Hw as <-.
    cbn [unpack_num sum_widths]. change (256 ^ N.of_nat 8) with (2 ^ 64) in HX.
    rewrite <- (bits_whole X 64 HX) at 1 2 3. change 65535 with (2 ^ 16 - 1). change 4294967295 with (2 ^ 32 - 1).
    rewrite !bits_shiftr, !bits_land_mask. reflexivity.
Qed.

(* ---------------------------------------------------------------------------------- *)
(* whole packets: what new_alc_pkt builds                                               *)
Lemma layout_set_hdr_len x hl :
  rfc5651_ids (set_hdr_len x hl) = rfc5651_ids x
  /\ byte0 (set_hdr_len x hl) = byte0 x /\ byte1 (set_hdr_len x hl) = byte1 x
  /\ rfc5651_fixed_words (set_hdr_len x hl) = rfc5651_fixed_words x.
Proof. repeat split; reflexivity. Qed.

Lemma encode_bytes x : r_hdr_len x < 256 -> r_cp x < 256 ->
  rfc5651_encode x = [pack_num (byte0 x); pack_num (byte1 x); r_hdr_len x; r_cp x] ++ pack (rfc5651_ids x).
Proof. intros. rewrite rfc5651_encode_split, <- pack_word, word_bytes by assumption. reflexivity. Qed.

Lemma push_ext_state x hl E e w : r_cp x < 256 -> hl + w < 256 ->
  push_ext (rfc5651_encode (set_hdr_len x hl) ++ E) e w
  = Ok (rfc5651_encode (set_hdr_len x (hl + w)) ++ (E ++ e)).
Proof.
  intros Hcp Hl. unfold push_ext.
  rewrite !encode_bytes by (cbn [set_hdr_len r_hdr_len r_cp]; lia).
  destruct (layout_set_hdr_len x hl) as (I1 & B0 & B1 & _).
  destruct (layout_set_hdr_len x (hl + w)) as (I2 & B0' & B1' & _).
  rewrite I1, B0, B1, I2, B0', B1'. cbn [set_hdr_len r_hdr_len r_cp app inc_hdr_len].
  destruct (N.ltb_spec (hl + w) 256) as [_|G]; [|lia].
  rewrite <- !app_assoc. reflexivity.
Qed.

Definition opt_ext (b : bool) (e : rfc_ext) : list rfc_ext := if b then [e] else [].

(* the header extensions new_alc_pkt writes, in its order *)
Definition flute_exts (o : oti) (p : pkt) (prof : profile) (now : Z) (v : fti_values) : list rfc_ext :=
  opt_ext (has_fdt p) (x_fdt (profile_version prof) (match k_fdt_id p with Some id => id | None => 0 end))
  ++ opt_ext (has_cenc p) (x_cenc (k_cenc p) 0)
  ++ opt_ext (k_sct p) (x_time (flute_time now))
  ++ opt_ext (has_fti o p) (x_fti v).

Definition flute_pkt (o : oti) (cci tsi : N) (p : pkt) (prof : profile) (now : Z)
           (c s o' h : N) (v : fti_values) (fs : list field) : rfc_pkt :=
  mk_rfc_pkt (flute_rfc_lct 0 cci tsi (k_toi p) (fec_code (o_fec o)) (k_close_object p) false c s o' h)
             (flute_exts o p prof now v) fs (k_payload p).

Lemma fec_code_lt f : fec_code f < 256.
Proof. destruct f; cbn; lia. Qed.

Lemma set_hdr_len_id x : set_hdr_len x (r_hdr_len x) = x.
Proof. destruct x; reflexivity. Qed.

(* the ranges of the property as propositions *)
Record in_range (o : oti) (cci tsi : N) (p : pkt) (now : Z) (v : fti_values) (fs : list field) : Prop := {
  ir_cci : cci < 2 ^ 128; ir_tsi : tsi < 2 ^ 48; ir_toi : k_toi p < 2 ^ 112;
  ir_fdt : has_fdt p = true -> exists id, k_fdt_id p = Some id /\ id < 2 ^ 20;
  ir_cenc : k_cenc p <= 3;
  ir_time : k_sct p = true -> time_in_era now;
  ir_fti : has_fti o p = true -> fti_of_oti o (k_transfer_length p) = Some v /\ all_fit (fti_layout v) = true;
  ir_pid : pid_fields (fec_code (o_fec o)) (oti_m o) (k_sbn p) (k_esi p) (k_source_block_length p) = Some fs
           /\ all_fit fs = true;
  ir_rs2m : match o_fec o with RS2m => k_esi p < 256 | _ => True end;
  ir_payload : all_bytes (k_payload p) = true
}.

Lemma build_in_range_spec o cci tsi p now : build_in_range o cci tsi p now = true ->
  exists v fs, in_range o cci tsi p now v fs.
Proof.
  unfold build_in_range. rewrite !andb_true_iff.
  intros (((((((((H1 & H2) & H3) & H4) & H5) & H6) & H7) & H8) & H9) & H10).
  apply N.ltb_lt in H1, H2, H3. apply N.leb_le in H5.
  destruct (pid_fields _ _ _ _ _) as [fs|] eqn:Ep; [|discriminate].
  set (v0 := match fti_of_oti o (k_transfer_length p) with Some v => v | None => FtiNoCode 0 0 0 0 end).
  exists v0, fs. constructor; try assumption.
  - intros Hf. rewrite Hf in H4. destruct (k_fdt_id p) as [id|]; [|discriminate].
    exists id. split; [reflexivity|]. apply N.ltb_lt. assumption.
  - intros Ht. rewrite Ht in H6. apply andb_true_iff in H6 as [A B].
    apply Z.leb_le in A. apply N.ltb_lt in B. split; assumption.
  - intros Hf. rewrite Hf in H7. unfold v0. destruct (fti_of_oti o (k_transfer_length p)); [|discriminate].
    split; [reflexivity|assumption].
  - split; [exact Ep|assumption].
  - destruct (o_fec o); try exact I. apply N.ltb_lt. assumption.
Qed.

Lemma fti_words v : (16 + bits_of (fti_layout v)) / 32 = ext_words (x_fti v).
Proof. reflexivity. Qed.

Lemma all_fit_set_hdr_len x hl : all_fit (rfc5651_layout x) = true -> hl < 256 ->
  all_fit (rfc5651_layout (set_hdr_len x hl)) = true.
Proof.
  intros H Hl. destruct (all_fit_layout x H) as (A1 & A2 & A3 & A4 & A5 & A6 & A7 & A8 & A9 & A10 & A11 & A12 & A13 & A14).
  unfold all_fit, rfc5651_layout, rfc5651_word, rfc5651_ids, set_hdr_len.
  cbn [r_v r_c r_psi r_s r_o r_h r_res r_a r_b r_hdr_len r_cp r_cci r_tsi r_toi app forallb].
  unfold fits. cbn [fst snd].
  repeat (apply andb_true_iff; split); try reflexivity; apply N.ltb_lt; pow_norm;
    try assumption; try (change (2 ^ 2) with 4; assumption); try (change (2 ^ 1) with 2; assumption).
Qed.

Lemma pid_fields_bits cp m sbn esi sbl fs : pid_fields cp m sbn esi sbl = Some fs ->
  bits_of fs = 8 * N.of_nat (pid_bytes cp).
Proof.
  unfold pid_fields, pid_widths, pid_bytes.
  destruct (N.eqb_spec cp 0) as [->|H0]; cbn [orb].
  { intros E. injection E as <-. reflexivity. }
  destruct (N.eqb_spec cp 1) as [->|H1]; cbn [orb].
  { intros E. injection E as <-. reflexivity. }
  destruct (N.eqb_spec cp 5) as [->|H5].
  { intros E. injection E as <-. reflexivity. }
  destruct (N.eqb_spec cp 129) as [->|H129].
  { intros E. injection E as <-. reflexivity. }
  destruct (N.eqb_spec cp 6) as [->|H6].
  { intros E. injection E as <-. reflexivity. }
  destruct (N.eqb_spec cp 2) as [->|H2]; [|discriminate].
  destruct (N.leb_spec 1 m); cbn [andb]; [|discriminate].
  destruct (N.leb_spec m 31); [|discriminate].
  intros E. injection E as <-. cbn [bits_of]. lia.
Qed.

Theorem new_alc_pkt_is_rfc o cci tsi p prof now c s o' h v fs :
  known_d32_build o p = false ->
  in_range o cci tsi p now v fs ->
  lct_flags cci tsi (k_toi p) = (c, s, o', h) ->
  new_alc_pkt o cci tsi p prof now = Ok (rfc_alc_encode (flute_pkt o cci tsi p prof now c s o' h v fs))
  /\ wf_pkt (flute_pkt o cci tsi p prof now c s o' h v fs) = true.
Proof.
  intros Hk0 R Efl.
  assert (Hk : has_fti o p = true -> o_fec o <> Raptor).
  { intros Hh Hr. unfold known_d32_build in Hk0. rewrite Hr, Hh in Hk0. discriminate. }
  clear Hk0.
  destruct (lct_push_is_rfc5651_proof [] 0 cci tsi (k_toi p) (fec_code (o_fec o)) (k_close_object p) false
              c s o' h (ir_cci _ _ _ _ _ _ _ R) (ir_tsi _ _ _ _ _ _ _ R) (ir_toi _ _ _ _ _ _ _ R)
              ltac:(lia) (fec_code_lt _) Efl) as (Epush & Hfit & Hhl).
  cbn [app] in Epush.
  set (x := flute_rfc_lct 0 cci tsi (k_toi p) (fec_code (o_fec o)) (k_close_object p) false c s o' h) in *.
  assert (Hcp : r_cp x < 256) by apply fec_code_lt.
  destruct (lct_flags_spec _ _ _ _ _ _ _ (ir_cci _ _ _ _ _ _ _ R) (ir_tsi _ _ _ _ _ _ _ R) (ir_toi _ _ _ _ _ _ _ R) Efl)
    as (Hc & Hs & Ho & Hh & _).
  assert (Hfw : rfc5651_fixed_words x <= 10) by (rewrite fixed_words_eq; cbn; lia).
  assert (Hexw : exts_words (flute_exts o p prof now v) <= 9).
  { unfold flute_exts, opt_ext.
    destruct (has_fdt p), (has_cenc p), (k_sct p), (has_fti o p); cbn [app exts_words];
      change (ext_words (x_fdt _ _)) with 1; change (ext_words (x_cenc _ _)) with 1;
      change (ext_words (x_time (flute_time now))) with 3;
      try (assert (ext_words (x_fti v) <= 4) by (destruct v; vm_compute; discriminate)); lia. }
  assert (Hv4 : ext_words (x_fti v) <= 4) by (destruct v; vm_compute; discriminate).
  split.
  - unfold new_alc_pkt. rewrite Epush.
    replace (rfc5651_encode x) with (rfc5651_encode (set_hdr_len x (rfc5651_fixed_words x)) ++ [])
      by (rewrite app_nil_r, <- Hhl, set_hdr_len_id; reflexivity).
    unfold flute_pkt, rfc_alc_encode, mk_rfc_pkt. cbn [rp_lct rp_exts rp_pid rp_payload].
    fold x. unfold rfc_hdr_len, flute_exts.
    destruct (ir_pid _ _ _ _ _ _ _ R) as [Hpid Hpf].
    rewrite (add_pid_is_rfc o p fs Hpid Hpf (ir_rs2m _ _ _ _ _ _ _ R)).
    pose proof (ir_fdt _ _ _ _ _ _ _ R) as Ifdt. pose proof (ir_time _ _ _ _ _ _ _ R) as Itime.
    pose proof (ir_fti _ _ _ _ _ _ _ R) as Ifti. pose proof (ir_cenc _ _ _ _ _ _ _ R) as Icenc.
    change (((k_toi p =? 0) && negb (k_cenc p =? 0)) || k_inband_cenc p) with (has_cenc p).
    change ((k_toi p =? 0) || o_inband_fti o) with (has_fti o p).
    change (k_toi p =? 0) with (has_fdt p).
    clear Epush Hfit Hhl Hexw.
    set (b1 := has_fdt p) in *. set (b2 := has_cenc p) in *. set (b3 := k_sct p) in *.
    set (b4 := has_fti o p) in *. clearbody b1 b2 b3 b4.
    destruct b1, b2, b3, b4; unfold opt_ext;
      try (destruct (Ifdt eq_refl) as (id & Eid & Hid); rewrite Eid;
           rewrite push_fdt_is_rfc by (destruct prof; cbn; lia || assumption);
           rewrite push_ext_state by (assumption || lia)); cbn [rbind];
      try (rewrite push_cenc_is_rfc by lia; rewrite push_ext_state by (assumption || lia)); cbn [rbind];
      try (rewrite push_sct_is_rfc by auto; rewrite push_ext_state by (assumption || lia)); cbn [rbind];
      try (destruct (Ifti eq_refl) as (Ev & Hv); rewrite (add_fti_is_rfc _ o _ v (Hk eq_refl) Ev Hv), fti_words;
           rewrite push_ext_state by (assumption || lia)); cbn [rbind];
      cbn [app map concat exts_words profile_version];
      change (ext_words (x_fdt _ _)) with 1; change (ext_words (x_cenc _ _)) with 1;
      change (ext_words (x_time (flute_time now))) with 3;
      rewrite ?app_nil_r, <- ?app_assoc; f_equal; (apply f_equal2; [f_equal; f_equal; lia | reflexivity]).
  - unfold wf_pkt, flute_pkt, mk_rfc_pkt. cbn [rp_lct rp_exts rp_pid rp_payload]. fold x.
    destruct (ir_pid _ _ _ _ _ _ _ R) as [Hpid Hpf].
    rewrite all_fit_set_hdr_len by (assumption || unfold rfc_hdr_len; lia).
    rewrite Hpf, (ir_payload _ _ _ _ _ _ _ R), (pid_fields_bits _ _ _ _ _ _ Hpid), mod8_mul.
    change (r_hdr_len (set_hdr_len x (rfc_hdr_len x (flute_exts o p prof now v))))
      with (rfc_hdr_len (set_hdr_len x (rfc_hdr_len x (flute_exts o p prof now v))) (flute_exts o p prof now v)).
    rewrite N.eqb_refl. cbn [andb N.eqb]. rewrite !andb_true_r.
    unfold flute_exts, opt_ext. rewrite !forallb_app.
    pose proof (ir_fti _ _ _ _ _ _ _ R) as Ifti.
    destruct (has_fdt p), (has_cenc p), (k_sct p), (has_fti o p); cbn [forallb andb];
      rewrite ?wf_x_fdt, ?wf_x_cenc, ?(wf_x_time (flute_time now)) by (cbn; lia); cbn [andb];
      try reflexivity;
      destruct (Ifti eq_refl) as (_ & Hv); rewrite (proj1 (x_fti_props v Hv)); reflexivity.
Qed.

(* ---------------------------------------------------------------------------------- *)
(* the RFC decoder inverts the RFC encoder on whole packets                              *)
Lemma wf_pkt_spec p : wf_pkt p = true ->
  all_fit (rfc5651_layout (rp_lct p)) = true /\ forallb wf_ext (rp_exts p) = true
  /\ r_hdr_len (rp_lct p) = rfc_hdr_len (rp_lct p) (rp_exts p)
  /\ all_fit (rp_pid p) = true /\ bits_of (rp_pid p) mod 8 = 0 /\ all_bytes (rp_payload p) = true.
Proof.
  unfold wf_pkt. rewrite !andb_true_iff, !N.eqb_eq. tauto.
Qed.

Lemma lenN_encode x : all_fit (rfc5651_layout x) = true ->
  lenN (rfc5651_encode x) = 4 * rfc5651_fixed_words x.
Proof.
  intros H. destruct (all_fit_layout x H) as (_ & Hc & _ & Hs & Ho & Hh & _).
  rewrite rfc5651_encode_split, pack_ids, fixed_words_eq. unfold lenN.
  rewrite !app_length, !be_encode_length. lia.
Qed.

Theorem rfc_decode_encode m p : wf_pkt p = true ->
  rfc_alc_decode m (rfc_alc_encode p)
  = Some (rfc_values m (rp_lct p) (rp_exts p) (pack (rp_pid p) ++ rp_payload p)).
Proof.
  intros W. destruct (wf_pkt_spec p W) as (Hfit & Hes & Hhl & _).
  unfold rfc_alc_decode, rfc_alc_encode. rewrite rfc5651_decode_encode by assumption.
  unfold rfc_hdr_len in Hhl. rewrite Hhl.
  destruct (N.ltb_spec (rfc5651_fixed_words (rp_lct p) + exts_words (rp_exts p)) (rfc5651_fixed_words (rp_lct p)))
    as [G|_]; [lia|].
  destruct (exts_length (rp_exts p) Hes) as [L1 L2].
  set (area := concat (map ext_bytes (rp_exts p))) in *.
  replace (N.to_nat (4 * (rfc5651_fixed_words (rp_lct p) + exts_words (rp_exts p) - rfc5651_fixed_words (rp_lct p))))
    with (length area) by (unfold lenN in L1; lia).
  destruct (Nat.ltb_spec (length (area ++ pack (rp_pid p) ++ rp_payload p)) (length area)) as [G|_].
  { rewrite app_length in G. lia. }
  rewrite firstn_app, firstn_all, Nat.sub_diag. cbn [firstn]. rewrite app_nil_r.
  rewrite skipn_app, skipn_all, Nat.sub_diag. cbn [skipn app].
  unfold area. rewrite rfc_split_exts_spec by (assumption || lia). reflexivity.
Qed.

(* ---------------------------------------------------------------------------------- *)
(* the executable predicate of the build direction holds of the model                   *)
Lemma ntp_us_flute t : time_in_era t -> ntp_us (ntp_hi t, ntp_lo t) = Some (now_us t).
Proof.
  intros [H0 H1]. unfold ntp_us.
  destruct (N.ltb_spec (ntp_hi t) 2208988800) as [L|_].
  { unfold ntp_hi, NTP_UNIX_OFFSET in L. set (q := Z.to_N t / 1000000000) in *. clearbody q. lia. }
  f_equal. unfold now_us, ntp_hi, NTP_UNIX_OFFSET. rewrite N.add_sub.
  destruct (ntp_fraction_val _ (submicro_lt (Z.to_N t))) as (_ & _ & F).
  unfold ntp_lo. unfold TWO32 in F. rewrite F. symmetry. apply micros_split.
Qed.

Lemma eq_listN_refl l : eq_listN l l = true.
Proof. apply eq_listN_true. reflexivity. Qed.

Lemma eq_fti_refl v : eq_fti v v = true.
Proof. unfold eq_fti. rewrite N.eqb_refl, eq_listN_refl. reflexivity. Qed.

Lemma fti_of_oti_cp o L v : fti_of_oti o L = Some v -> fti_cp v = fec_code (o_fec o).
Proof.
  unfold fti_of_oti. destruct (o_fec o); destruct (o_ss o) as [[| |]|]; intros E; try discriminate;
    injection E as <-; reflexivity.
Qed.

Section FluteExts.
  Variables (b1 b2 b3 b4 : bool) (e1 e2 e3 e4 : rfc_ext).
  Hypothesis (H1 : ext_het e1 = 192) (H2 : ext_het e2 = 193) (H3 : ext_het e3 = 2) (H4 : ext_het e4 = 64).
  Let es := opt_ext b1 e1 ++ opt_ext b2 e2 ++ opt_ext b3 e3 ++ opt_ext b4 e4.
  Lemma find_flute_exts :
    find_ext 192 es = (if b1 then Some e1 else None) /\ find_ext 193 es = (if b2 then Some e2 else None)
    /\ find_ext 2 es = (if b3 then Some e3 else None) /\ find_ext 64 es = (if b4 then Some e4 else None).
  Proof.
    unfold es, opt_ext. destruct b1, b2, b3, b4; cbn [app find_ext]; rewrite ?H1, ?H2, ?H3, ?H4;
      cbn [N.eqb Pos.eqb]; repeat split; reflexivity.
  Qed.
End FluteExts.

Lemma pid_widths_m cp m1 m2 : cp <> 2 -> pid_widths cp m1 = pid_widths cp m2.
Proof.
  intros H. unfold pid_widths.
  destruct ((cp =? 0) || (cp =? 1)); [reflexivity|]. destruct (cp =? 5); [reflexivity|].
  destruct (cp =? 129); [reflexivity|]. destruct (cp =? 6); [reflexivity|].
  destruct (N.eqb_spec cp 2); [contradiction|reflexivity].
Qed.

Lemma dec_pid_pack cp m sbn esi sbl fs : pid_fields cp m sbn esi sbl = Some fs -> all_fit fs = true ->
  dec_pid cp m (pack fs) = Some (sbn, esi, if cp =? 129 then Some sbl else None).
Proof.
  intros Hp Hf. pose proof (pid_fields_bits _ _ _ _ _ _ Hp) as Hb.
  unfold dec_pid. unfold pid_fields in Hp.
  destruct (pid_widths cp m) as [ws|] eqn:Ew; [|discriminate].
  assert (C129 : (cp =? 129) = match ws with [_; _; _] => true | _ => false end).
  { unfold pid_widths in Ew.
    destruct (N.eqb_spec cp 0) as [->|]; [injection Ew as <-; reflexivity|].
    destruct (N.eqb_spec cp 1) as [->|]; [injection Ew as <-; reflexivity|]. cbn [orb] in Ew.
    destruct (N.eqb_spec cp 5) as [->|]; [injection Ew as <-; reflexivity|].
    destruct (N.eqb_spec cp 129) as [->|]; [injection Ew as <-; reflexivity|].
    destruct (N.eqb_spec cp 6) as [->|]; [injection Ew as <-; reflexivity|].
    destruct (N.eqb_spec cp 2) as [->|]; [|discriminate].
    destruct ((1 <=? m) && (m <=? 31)); [injection Ew as <-; reflexivity|discriminate]. }
  destruct ws as [|a [|b [|c0 [|]]]]; try discriminate; injection Hp as <-.
  - change [a; b] with (map snd [(sbn, a); (esi, b)]).
    rewrite unpack_pack by (assumption || (rewrite Hb; apply mod8_mul)).
    cbn [map fst]. rewrite C129. reflexivity.
  - change [a; b; c0] with (map snd [(sbn, a); (sbl, b); (esi, c0)]).
    rewrite unpack_pack by (assumption || (rewrite Hb; apply mod8_mul)).
    cbn [map fst]. rewrite C129. reflexivity.
Qed.

Lemma firstn_skipn_pack (a r : list N) n : length a = n -> firstn n (a ++ r) = a /\ skipn n (a ++ r) = r
                                                          /\ (length (a ++ r) <? n)%nat = false.
Proof.
  intros <-. repeat split.
  - rewrite firstn_app, firstn_all, Nat.sub_diag. cbn [firstn]. apply app_nil_r.
  - rewrite skipn_app, skipn_all, Nat.sub_diag. reflexivity.
  - apply Nat.ltb_ge. rewrite app_length. lia.
Qed.

Lemma fti_m_of_oti o L v : fti_of_oti o L = Some v ->
  pid_widths (fec_code (o_fec o)) (oti_m o) <> None ->
  pid_widths (fec_code (o_fec o)) (fti_m (Some v) (oti_m o)) = pid_widths (fec_code (o_fec o)) (oti_m o).
Proof.
  unfold fti_of_oti, oti_m. intros Ev Hw.
  destruct (o_fec o) eqn:Ef; destruct (o_ss o) as [[m g|z n al|z n al]|] eqn:Ess; try discriminate;
    injection Ev as <-; cbn [fti_m]; try reflexivity.
  destruct (N.eqb_spec m 0) as [->|]; [|reflexivity]. exfalso. apply Hw. reflexivity.
Qed.

Theorem spec_build_holds o cci tsi p prof now : known_d32_build o p = false ->
  P_C06_build o cci tsi p prof now (new_alc_pkt o cci tsi p prof now) = true.
Proof.
  intros Hk. unfold P_C06_build. destruct (build_in_range o cci tsi p now) eqn:Er; [|reflexivity]. cbn [negb].
  destruct (build_in_range_spec _ _ _ _ _ Er) as (v & fs & R).
  destruct (lct_flags cci tsi (k_toi p)) as [[[c s] o'] h] eqn:Efl.
  destruct (new_alc_pkt_is_rfc o cci tsi p prof now c s o' h v fs Hk R Efl) as (Eb & W).
  rewrite Eb, (rfc_decode_encode _ _ W).
  unfold flute_pkt, mk_rfc_pkt. cbn [rp_lct rp_exts rp_pid rp_payload].
  set (x := flute_rfc_lct 0 cci tsi (k_toi p) (fec_code (o_fec o)) (k_close_object p) false c s o' h).
  set (es := flute_exts o p prof now v).
  destruct (ir_pid _ _ _ _ _ _ _ R) as [Hpid Hpf].
  pose proof (ir_fdt _ _ _ _ _ _ _ R) as Ifdt. pose proof (ir_time _ _ _ _ _ _ _ R) as Itime.
  pose proof (ir_fti _ _ _ _ _ _ _ R) as Ifti. pose proof (ir_cenc _ _ _ _ _ _ _ R) as Icenc.
  destruct (find_flute_exts (has_fdt p) (has_cenc p) (k_sct p) (has_fti o p)
              (x_fdt (profile_version prof) (match k_fdt_id p with Some id => id | None => 0 end))
              (x_cenc (k_cenc p) 0) (x_time (flute_time now)) (x_fti v) eq_refl eq_refl eq_refl eq_refl)
    as (F192 & F193 & F2 & F64).
  fold (flute_exts o p prof now v) in F192, F193, F2, F64. fold es in F192, F193, F2, F64.
  unfold check_build, rfc_values.
  cbn [av_v av_cci av_tsi av_toi av_cp av_close_object av_close_session av_fdt av_cenc av_sct av_fti av_pid av_payload].
  rewrite F192, F193, F2, F64.
  cbn [set_hdr_len r_v r_cci r_tsi r_toi r_cp r_b r_a x flute_rfc_lct].
  rewrite !N.eqb_refl. cbn [andb].
  (* close flags *)
  assert (Eco : Bool.eqb (negb (b2n (k_close_object p) =? 0)) (k_close_object p) = true)
    by (destruct (k_close_object p); reflexivity).
  rewrite Eco. change (negb (negb (b2n false =? 0))) with true. cbn [andb].
  (* payload id and payload *)
  pose proof (pid_fields_bits _ _ _ _ _ _ Hpid) as Hbits.
  assert (Lp : length (pack fs) = pid_bytes (fec_code (o_fec o))).
  { rewrite pack_length, Hbits, N.mul_comm, N.div_mul by lia. apply Nat2N.id. }
  destruct (firstn_skipn_pack (pack fs) (k_payload p) _ Lp) as (Ef & Es & El).
  rewrite El, Ef, Es, eq_listN_refl, andb_true_r.
  (* the FTI found decides m for GF(2^m) *)
  assert (Em : pid_widths (fec_code (o_fec o))
                 (fti_m (omap (dec_fti (fec_code (o_fec o))) (if has_fti o p then Some (x_fti v) else None)) (oti_m o))
               = pid_widths (fec_code (o_fec o)) (oti_m o)).
  { destruct (has_fti o p) eqn:E4; [|reflexivity].
    destruct (Ifti eq_refl) as (Ev & Hv). cbn [omap].
    rewrite <- (fti_of_oti_cp o _ v Ev) at 2. rewrite (proj2 (x_fti_props v Hv)).
    apply (fti_m_of_oti o _ v Ev). unfold pid_fields in Hpid.
    destruct (pid_widths (fec_code (o_fec o)) (oti_m o)); [discriminate|discriminate Hpid]. }
  assert (Epid : dec_pid (fec_code (o_fec o))
                   (fti_m (omap (dec_fti (fec_code (o_fec o))) (if has_fti o p then Some (x_fti v) else None)) (oti_m o))
                   (pack fs)
                 = Some (k_sbn p, k_esi p, if fec_code (o_fec o) =? 129 then Some (k_source_block_length p) else None)).
  { rewrite <- (dec_pid_pack _ _ _ _ _ _ Hpid Hpf). unfold dec_pid. rewrite Em. reflexivity. }
  rewrite Epid.
  assert (Esbl : (if fec_code (o_fec o) =? 129 then Some (k_source_block_length p) else None)
                 = match o_fec o with RS28US => Some (k_source_block_length p) | _ => None end)
    by (destruct (o_fec o); reflexivity).
  rewrite Esbl. cbn [eq_pid]. rewrite !N.eqb_refl.
  assert (Eo : forall a : option N, eq_optN a a = true) by (intros [a|]; cbn; [apply N.eqb_refl|reflexivity]).
  rewrite Eo. cbn [andb]. rewrite andb_true_r.
  (* the four optional extensions *)
  repeat (apply andb_true_iff; split).
  - reflexivity.
  - destruct (has_fdt p) eqn:E1; [|reflexivity].
    destruct (Ifdt eq_refl) as (id & Eid & Hid). rewrite Eid. cbn [omap].
    rewrite dec_x_fdt by (destruct prof; cbn; lia || assumption). cbn. rewrite !N.eqb_refl. reflexivity.
  - destruct (has_cenc p); [|reflexivity]. cbn [omap]. rewrite dec_x_cenc by (pow_norm; lia).
    cbn. apply N.eqb_refl.
  - destruct (k_sct p) eqn:E3; [|reflexivity]. cbn [omap].
    pose proof (Itime eq_refl) as Ht. destruct (system_time_to_ntp_val now Ht) as (_ & Hi & Lo).
    rewrite dec_x_time by (cbn [flute_time te_res te_pi te_hi te_lo te_ertv te_slcv]; unfold TWO32 in *; pow_norm; lia).
    cbn [flute_time te_shi te_slo te_hi te_lo]. rewrite ntp_us_flute by assumption. cbn. apply N.eqb_refl.
  - destruct (has_fti o p) eqn:E4; [|reflexivity]. destruct (Ifti eq_refl) as (Ev & Hv). cbn [omap].
    rewrite <- (fti_of_oti_cp o _ v Ev), (proj2 (x_fti_props v Hv)), Ev. cbn. apply eq_fti_refl.
Qed.

Theorem spec_lct_holds psi cci tsi toi cp co cs :
  P_C06_lct psi cci tsi toi cp co cs (push_lct_header [] psi cci tsi toi cp co cs) = true.
Proof.
  unfold P_C06_lct.
  destruct ((psi <? 4) && (cp <? 256) && (cci <? 2 ^ 128) && (tsi <? 2 ^ 48) && (toi <? 2 ^ 112)) eqn:Er;
    [|reflexivity]. cbn [negb].
  rewrite !andb_true_iff, !N.ltb_lt in Er. destruct Er as ((((H1 & H2) & H3) & H4) & H5).
  destruct (lct_flags cci tsi toi) as [[[c s] o] h] eqn:Efl.
  destruct (lct_push_is_rfc5651_proof [] psi cci tsi toi cp co cs c s o h H3 H4 H5 H1 H2 Efl) as (E & Hf & Hl).
  cbn [app] in E. rewrite E. rewrite <- (app_nil_r (rfc5651_encode _)).
  rewrite rfc5651_decode_encode by assumption.
  rewrite <- Hl. cbn [flute_rfc_lct r_v r_psi r_cci r_tsi r_toi r_cp r_b r_a r_hdr_len length].
  rewrite !N.eqb_refl. reflexivity.
Qed.

(* ---------------------------------------------------------------------------------- *)
(* whole packets: what the parser reads from any packet of the RFC encoder               *)
Lemma find_ext_het het es e : find_ext het es = Some e -> ext_het e = het /\ In e es.
Proof.
  induction es as [|a r IH]; cbn [find_ext]; [discriminate|].
  destruct (N.eqb_spec (ext_het a) het) as [E|E]; intros H.
  - injection H as <-. split; [assumption|left; reflexivity].
  - destruct (IH H) as [A B]. split; [assumption|right; assumption].
Qed.

Lemma find_ext_wf het es e : forallb wf_ext es = true -> find_ext het es = Some e ->
  wf_ext e = true /\ ext_het e = het.
Proof.
  intros W F. destruct (find_ext_het _ _ _ F) as [A B]. split; [|assumption].
  rewrite forallb_forall in W. apply W. assumption.
Qed.

Lemma wf_var_shape e : wf_ext e = true -> ext_het e < 128 -> exists het hel c, e = XVar het hel c.
Proof.
  destruct e as [het hel c|het c]; intros W H; [eauto|].
  destruct (wf_ext_fix _ _ W) as (A & _). cbn in H. lia.
Qed.
Lemma wf_fix_shape e : wf_ext e = true -> 128 <= ext_het e -> exists het c, e = XFix het c.
Proof.
  destruct e as [het hel c|het c]; intros W H; [|eauto].
  destruct (wf_ext_var _ _ _ W) as (A & _). cbn in H. lia.
Qed.

(* the parsed packet with the RFC decoder's view of its extension list *)
Definition model_fti (f : fec_id) (es : list rfc_ext) : res (option (oti * N)) :=
  match find_ext 64 es with
  | None => Ok None
  | Some e => r <-- (match dec_fti (fec_code f) e with Some v => model_of_fti v | None => Err end) ;; Ok (Some r)
  end.

Lemma parse_alc_pkt_rfc p f :
  wf_pkt p = true -> (r_v (rp_lct p) = 1 \/ r_v (rp_lct p) = 2) ->
  fec_of_code (r_cp (rp_lct p)) = Some f ->
  bits_of (rp_pid p) = 8 * pid_block_length f ->
  let x := rp_lct p in let es := rp_exts p in
  let lct := {| lh_len := r_hdr_len x * 4; lh_cci := r_cci x; lh_tsi := r_tsi x; lh_toi := r_toi x;
                lh_cp := r_cp x; lh_close_object := negb (r_b x =? 0);
                lh_close_session := negb (r_a x =? 0); lh_ext_offset := rfc5651_fixed_words x * 4 |} in
  parse_lct_header (rfc_alc_encode p) = Ok lct
  /\ (forall het, get_ext (rfc_alc_encode p) lct het = Ok (option_map ext_bytes (find_ext het es)))
  /\ lenN (rfc_alc_encode p) = r_hdr_len x * 4 + pid_block_length f + lenN (rp_payload p)
  /\ slice (rfc_alc_encode p) (N.to_nat (r_hdr_len x * 4)) (N.to_nat (pid_block_length f + r_hdr_len x * 4))
     = pack (rp_pid p).
Proof.
  intros W Hv Hf Hb x es lct. destruct (wf_pkt_spec p W) as (Hfit & Hes & Hhl & Hpf & Hpa & Hpl).
  fold x in Hfit, Hhl. fold es in Hes, Hhl. unfold rfc_hdr_len in Hhl.
  destruct (exts_length es Hes) as [L1 _].
  pose proof (lenN_encode x Hfit) as L0.
  assert (Lp : lenN (pack (rp_pid p)) = pid_block_length f).
  { unfold lenN. rewrite pack_length, Hb, N.mul_comm, N.div_mul by lia. apply N2Nat.id. }
  assert (Ltot : lenN (rfc_alc_encode p) = r_hdr_len x * 4 + pid_block_length f + lenN (rp_payload p)).
  { unfold rfc_alc_encode. fold x es. rewrite !lenN_app, L0, L1, Lp, Hhl. lia. }
  split; [|split; [|split]].
  - unfold rfc_alc_encode. fold x es. apply lct_parse_accepts_rfc5651_proof; try assumption.
    + rewrite Hhl. lia.
    + fold (rfc_alc_encode p) in *. unfold rfc_alc_encode in Ltot. fold x es in Ltot. rewrite Ltot. lia.
  - intros het. unfold rfc_alc_encode. fold x es.
    apply ext_walk_skips_unknown_proof; try assumption; cbn [lh_ext_offset lh_len lct].
    + rewrite L0. lia.
    + rewrite L0, L1, Hhl. lia.
  - assumption.
  - unfold rfc_alc_encode. fold x es.
    replace (rfc5651_encode x ++ concat (map ext_bytes es) ++ pack (rp_pid p) ++ rp_payload p)
      with ((rfc5651_encode x ++ concat (map ext_bytes es)) ++ pack (rp_pid p) ++ rp_payload p)
      by (rewrite <- app_assoc; reflexivity).
    assert (La : N.to_nat (r_hdr_len x * 4) = length (rfc5651_encode x ++ concat (map ext_bytes es))).
    { rewrite app_length. unfold lenN in L0, L1. lia. }
    assert (Lb : N.to_nat (pid_block_length f + r_hdr_len x * 4)
                 = (length (rfc5651_encode x ++ concat (map ext_bytes es)) + length (pack (rp_pid p)))%nat).
    { rewrite app_length. unfold lenN in L0, L1, Lp. lia. }
    rewrite La, Lb. apply slice_app_mid.
Qed.

Lemma pid_block_length_bytes f : pid_block_length f = N.of_nat (pid_bytes (fec_code f)).
Proof. destruct f; reflexivity. Qed.

Lemma fec_of_code_inv cp f : fec_of_code cp = Some f -> cp = fec_code f.
Proof.
  unfold fec_of_code.
  destruct (N.eqb_spec cp 0) as [->|]; [intros E; injection E as <-; reflexivity|].
  destruct (N.eqb_spec cp 1) as [->|]; [intros E; injection E as <-; reflexivity|].
  destruct (N.eqb_spec cp 129) as [->|]; [intros E; injection E as <-; reflexivity|].
  destruct (N.eqb_spec cp 2) as [->|]; [intros E; injection E as <-; reflexivity|].
  destruct (N.eqb_spec cp 5) as [->|]; [intros E; injection E as <-; reflexivity|].
  destruct (N.eqb_spec cp 6) as [->|]; [intros E; injection E as <-; reflexivity|discriminate].
Qed.

Lemma supported_fec cp : supported_cp cp = true -> exists f, fec_of_code cp = Some f.
Proof.
  unfold supported_cp, fec_of_code. rewrite !orb_true_iff, !N.eqb_eq.
  intros [[[[[->| ->]| ->]| ->]| ->]| ->]; eexists; reflexivity.
Qed.

(* what the parser makes of acceptable FTI values, and how the harness observes it *)
Lemma model_of_fti_ok v m_session : fti_acceptable v = true ->
  exists o L, model_of_fti v = Ok (o, L)
              /\ fti_matches v (oti_observation o L) = true
              /\ fec_code (o_fec o) = fti_cp v
              /\ (fti_cp v = 2 -> rs2m_m o = fti_m (Some v) m_session).
Proof.
  destruct v as [L rs E B|L E B n|L i E B n|L m g E B n|L rs T Z Nn Al pad|L rs T Z Nn Al];
    cbn [fti_acceptable model_of_fti]; intros Ha.
  - eexists; eexists; split; [reflexivity|]. unfold fti_matches. cbn. rewrite !N.eqb_refl. repeat split; discriminate.
  - apply N.leb_le in Ha. destruct (N.ltb_spec n B) as [G|_]; [lia|].
    eexists; eexists; split; [reflexivity|]. unfold fti_matches. cbn. rewrite !N.eqb_refl. repeat split; discriminate.
  - eexists; eexists; split; [reflexivity|]. unfold fti_matches. cbn. rewrite !N.eqb_refl. repeat split; discriminate.
  - eexists; eexists; split; [reflexivity|]. unfold fti_matches. cbn. rewrite !N.eqb_refl. repeat split; reflexivity.
  - unfold raptor_checks. rewrite !andb_true_iff, !negb_true_iff in Ha. destruct Ha as (((A1 & A2) & A3) & A4).
    rewrite A1, A2, A3, A4. cbn [negb].
    eexists; eexists; split; [reflexivity|]. unfold fti_matches. cbn. rewrite !N.eqb_refl. repeat split; discriminate.
  - unfold raptor_checks. rewrite !andb_true_iff, !negb_true_iff in Ha. destruct Ha as (((A1 & A2) & A3) & A4).
    rewrite A1, A2, A3, A4. cbn [negb].
    eexists; eexists; split; [reflexivity|]. unfold fti_matches. cbn. rewrite !N.eqb_refl. repeat split; discriminate.
Qed.

Lemma dec_fti_cp cp e v : dec_fti cp e = Some v -> fti_cp v = cp.
Proof.
  unfold dec_fti. destruct e as [het hel c|]; [|discriminate].
  destruct (fti_widths cp) as [ws|]; [|discriminate].
  destruct (negb (hel * 32 =? 16 + sum_widths ws)); [discriminate|].
  destruct (unpack ws c) as [|a [|b [|c0 [|d [|e0 [|f [|g [|]]]]]]]]; try discriminate.
  - destruct (N.eqb_spec cp 0) as [->|]; [intros E; injection E as <-; reflexivity|].
    destruct (N.eqb_spec cp 5) as [->|]; [intros E; injection E as <-; reflexivity|discriminate].
  - destruct (N.eqb_spec cp 129) as [->|]; [intros E; injection E as <-; reflexivity|discriminate].
  - destruct (N.eqb_spec cp 2) as [->|]; [intros E; injection E as <-; reflexivity|].
    destruct (N.eqb_spec cp 1) as [->|]; [intros E; injection E as <-; reflexivity|discriminate].
  - destruct (N.eqb_spec cp 6) as [->|]; [intros E; injection E as <-; reflexivity|discriminate].
Qed.

Lemma eq_optN_refl a : eq_optN a a = true.
Proof. destruct a; cbn; [apply N.eqb_refl|reflexivity]. Qed.
Lemma eq_optNN_refl a : eq_optNN a a = true.
Proof. destruct a as [[u v]|]; cbn; [rewrite !N.eqb_refl|]; reflexivity. Qed.
Lemma eq_pid_refl a : eq_pid a a = true.
Proof. destruct a as [[[u v] w]|]; cbn; [rewrite !N.eqb_refl, eq_optN_refl|]; reflexivity. Qed.
Lemma eqb_refl' b : Bool.eqb b b = true.
Proof. destruct b; reflexivity. Qed.

(* (C06 parse direction) every packet of the RFC encoder that the property covers is parsed to
   the values it carries *)
Theorem spec_parse_holds m p : known_d32_parse p = false ->
  P_C06_parse m p (observe_parse m (rfc_alc_encode p)) = true.
Proof.
  intros Hk32. unfold P_C06_parse. destruct (wf_pkt p && parse_demand m p) eqn:E; [|reflexivity]. cbn [negb].
  apply andb_true_iff in E as [W D].
  unfold parse_demand in D. rewrite !andb_true_iff in D. destruct D as ((((Dv & Dcp) & Dfti) & Dbits) & Dpid).
  destruct (wf_pkt_spec p W) as (Hfit & Hes & Hhl & Hpf & Hpa & Hpl).
  set (x := rp_lct p) in *. set (es := rp_exts p) in *.
  destruct (supported_fec _ Dcp) as (f & Hf).
  pose proof (fec_of_code_inv _ _ Hf) as Ecp.
  assert (Hv : r_v x = 1 \/ r_v x = 2).
  { apply orb_true_iff in Dv. rewrite !N.eqb_eq in Dv. exact Dv. }
  apply N.eqb_eq in Dbits. rewrite Ecp, <- pid_block_length_bytes in Dbits.
  destruct (parse_alc_pkt_rfc p f W Hv Hf Dbits) as (Plct & Pext & Plen & Pslice).
  fold x es in Plct, Pext, Plen, Pslice.
  set (lct := {| lh_len := r_hdr_len x * 4; lh_cci := r_cci x; lh_tsi := r_tsi x; lh_toi := r_toi x;
                 lh_cp := r_cp x; lh_close_object := negb (r_b x =? 0);
                 lh_close_session := negb (r_a x =? 0); lh_ext_offset := rfc5651_fixed_words x * 4 |}) in *.
  set (data := rfc_alc_encode p) in *.
  (* the FTI *)
  assert (Pfti : exists fti : option (oti * N),
             get_fti f data lct = Ok fti
             /\ match fti, omap (dec_fti (r_cp x)) (find_ext 64 es) with
                | Some (o, L), Some v => fti_matches v (oti_observation o L) = true
                                         /\ o_fec o = f /\ (r_cp x = 2 -> rs2m_m o = fti_m (Some v) m)
                | None, None => True
                | _, _ => False
                end).
  { unfold get_fti. rewrite Pext. cbn [rbind].
    destruct (find_ext 64 es) as [e|] eqn:F64; cbn [option_map omap].
    - destruct (find_ext_wf _ _ _ Hes F64) as (We & He).
      destruct (wf_var_shape e We ltac:(lia)) as (het & hel & c & ->). cbn in He. subst het.
      assert (Hnr : f <> Raptor).
      { intros ->. unfold known_d32_parse in Hk32. fold x es in Hk32. rewrite F64, Ecp in Hk32. discriminate. }
      rewrite (parse_fti_agrees f hel c Hnr We), <- Ecp.
      destruct (dec_fti (r_cp x) (XVar 64 hel c)) as [v|] eqn:Edec; [|discriminate].
      destruct (model_of_fti_ok v m Dfti) as (o & L & Em & Hm & Hc & Hrm).
      rewrite Em. cbn [rbind]. exists (Some (o, L)). split; [reflexivity|].
      pose proof (dec_fti_cp _ _ _ Edec) as Ev. split; [assumption|]. split.
      + rewrite Ev, Ecp in Hc. destruct (o_fec o), f; cbn in Hc; try discriminate; reflexivity.
      + intros H2. apply Hrm. congruence.
    - exists None. split; [reflexivity|exact I]. }
  destruct Pfti as (fti & Efti & Hfti).
  (* CENC *)
  assert (Pcenc : match omap dec_cenc (find_ext 193 es) with
                  | Some c => if c <=? 3
                              then match option_map ext_bytes (find_ext 193 es) with
                                   | Some ext => match parse_cenc ext with Ok c' => Some c' | _ => None end
                                   | None => None end = Some c
                              else True
                  | None => match find_ext 193 es with
                            | None => match option_map ext_bytes (find_ext 193 es) with
                                      | Some ext => match parse_cenc ext with Ok c' => Some c' | _ => None end
                                      | None => None end = None
                            | Some _ => True end
                  end).
  { destruct (find_ext 193 es) as [e|] eqn:F193; cbn [option_map omap]; [|reflexivity].
    destruct (find_ext_wf _ _ _ Hes F193) as (We & He).
    destruct (wf_fix_shape e We ltac:(lia)) as (het & c & ->).
    destruct (parse_cenc_agrees het c We) as (v & Ed & Em). rewrite Ed. unfold model_cenc in Em.
    destruct (v <=? 3); [exact Em|exact I]. }
  (* FDT *)
  assert (Pfdt : (if r_toi x =? 0
                  then e <-- get_ext data lct 192 ;;
                       match e with Some ext => parse_ext_fdt ext | None => Ok None end
                  else Ok None)
                 = Ok (if r_toi x =? 0 then omap dec_fdt (find_ext 192 es) else None)).
  { destruct (r_toi x =? 0); [|reflexivity]. rewrite Pext. cbn [rbind].
    destruct (find_ext 192 es) as [e|] eqn:F192; cbn [option_map omap]; [|reflexivity].
    destruct (find_ext_wf _ _ _ Hes F192) as (We & He).
    destruct (wf_fix_shape e We ltac:(lia)) as (het & c & ->).
    apply parse_ext_fdt_agrees. assumption. }
  (* SCT *)
  assert (Psct : forall a, a_lct a = lct ->
             match find_ext 2 es with
             | None => get_sender_current_time data a = Ok None
             | Some e => match dec_time e with
                         | Some sct => match ntp_us sct with
                                       | Some us => get_sender_current_time data a = Ok (Some us)
                                       | None => True end
                         | None => True end
             end).
  { intros a Ha. unfold get_sender_current_time. rewrite Ha, Pext. cbn [rbind].
    destruct (find_ext 2 es) as [e|] eqn:F2; cbn [option_map]; [|reflexivity].
    destruct (find_ext_wf _ _ _ Hes F2) as (We & He).
    destruct (wf_var_shape e We ltac:(lia)) as (het & hel & c & ->).
    destruct (dec_time (XVar het hel c)) as [[hi lo]|] eqn:Ed; [|exact I].
    rewrite (parse_sct_agrees het hel c hi lo We Ed).
    destruct (ntp_us (hi, lo)); [reflexivity|exact I]. }
  (* payload id *)
  assert (Ppid : forall a o, a_alc_off a = r_hdr_len x * 4 ->
             a_payload_off a = pid_block_length f + r_hdr_len x * 4 ->
             o_fec o = f -> (r_cp x = 2 -> rs2m_m o = fti_m (omap (dec_fti (r_cp x)) (find_ext 64 es)) m) ->
             parse_payload_id data a o
             = match dec_pid (r_cp x) (fti_m (omap (dec_fti (r_cp x)) (find_ext 64 es)) m) (pack (rp_pid p)) with
               | Some r => Ok r | None => Err end).
  { intros a o Ha1 Ha2 Ho Hm. unfold parse_payload_id. rewrite Ha1, Ha2.
    destruct (N.ltb_spec (pid_block_length f + r_hdr_len x * 4) (r_hdr_len x * 4)) as [G|_]; [lia|].
    destruct (N.ltb_spec (lenN data) (pid_block_length f + r_hdr_len x * 4)) as [G|_]; [lia|].
    cbn [orb]. rewrite Pslice.
    set (mm := fti_m (omap (dec_fti (r_cp x)) (find_ext 64 es)) m) in *.
    destruct (pid_widths (r_cp x) mm) as [ws|] eqn:Ew.
    2:{ unfold dec_pid in Dpid. rewrite Ew in Dpid. discriminate. }
    assert (Ew' : pid_widths (fec_code (o_fec o)) (rs2m_m o) = Some ws).
    { rewrite Ho, <- Ecp, <- Ew. destruct (N.eq_dec (r_cp x) 2) as [E2|E2].
      - rewrite (Hm E2). reflexivity.
      - apply pid_widths_m. assumption. }
    rewrite (get_pid_agrees o (pack (rp_pid p)) ws (pack_bytes_ok _) Ew').
    2:{ rewrite Ho, pack_length, Dbits, N.mul_comm, N.div_mul by lia.
        rewrite pid_block_length_bytes. apply Nat2N.id. }
    unfold dec_pid. rewrite Ew', Ew. reflexivity. }
  (* assemble the observation *)
  unfold observe_parse, parse_alc_pkt. rewrite Plct. cbn [rbind lh_cp lct]. rewrite Hf.
  destruct (N.ltb_spec (lenN data) (pid_block_length f + lh_len lct)) as [G|_]; [cbn [lh_len lct] in G; lia|].
  fold lct. rewrite Efti. cbn [rbind]. rewrite Pext. cbn [rbind lh_toi lct]. fold lct. rewrite Pfdt. cbn [rbind].
  cbn [a_lct lh_cp lct]. rewrite Hf.
  unfold check_parse. fold x es.
  set (a := {| a_lct := lct; a_oti := option_map fst fti; a_transfer_length := option_map snd fti;
               a_cenc := _; a_alc_off := _; a_payload_off := _; a_fdt := _ |}).
  cbn [po_cci po_tsi po_toi po_cp po_co po_cs po_fdt po_cenc po_fti po_sct po_pid po_payload_off
       a_lct a_oti a_transfer_length a_cenc a_fdt a_payload_off a lh_cci lh_tsi lh_toi lh_cp lh_close_object lh_close_session lh_len lct].
  unfold rfc_values.
  cbn [av_cci av_tsi av_toi av_cp av_close_object av_close_session av_fdt av_cenc av_sct av_fti av_pid av_payload].
  rewrite !N.eqb_refl, !eqb_refl'. cbn [andb].
  (* payload id as the RFC decoder reads it *)
  assert (Lp : length (pack (rp_pid p)) = pid_bytes (r_cp x)).
  { rewrite pack_length, Dbits, N.mul_comm, N.div_mul by lia. rewrite pid_block_length_bytes, Ecp. apply Nat2N.id. }
  destruct (firstn_skipn_pack (pack (rp_pid p)) (rp_payload p) _ Lp) as (Ef & Es & El).
  rewrite El, Ef.
  repeat (apply andb_true_iff; split).
  - destruct (r_toi x =? 0); [apply eq_optNN_refl|reflexivity].
  - destruct (omap dec_cenc (find_ext 193 es)) as [c|].
    + destruct (c <=? 3); [|reflexivity]. rewrite Pcenc. apply eq_optN_refl.
    + destruct (find_ext 193 es); [reflexivity|]. rewrite Pcenc. reflexivity.
  - destruct fti as [[o L]|]; destruct (omap (dec_fti (r_cp x)) (find_ext 64 es)) as [v|];
      try contradiction; cbn [option_map fst snd]; [|reflexivity]. apply Hfti.
  - pose proof (Psct a eq_refl) as Hs.
    destruct (find_ext 2 es) as [e|].
    + destruct (dec_time e) as [sct|]; [|reflexivity]. destruct (ntp_us sct) as [us|]; [|reflexivity].
      rewrite Hs. cbn. apply N.eqb_refl.
    + rewrite Hs. reflexivity.
  - assert (Ho : exists o, (match option_map fst fti with Some o => o | None => session_oti f m end) = o
                           /\ o_fec o = f
                           /\ (r_cp x = 2 -> rs2m_m o = fti_m (omap (dec_fti (r_cp x)) (find_ext 64 es)) m)).
    { destruct fti as [[o L]|]; destruct (omap (dec_fti (r_cp x)) (find_ext 64 es)) as [v|];
        try contradiction; cbn [option_map fst].
      - exists o. destruct Hfti as (_ & A & B). auto.
      - exists (session_oti f m). split; [reflexivity|]. split; [reflexivity|].
        intros E2. rewrite Ecp in E2. destruct f; cbn in E2; try discriminate. reflexivity. }
    destruct Ho as (o & Eo & Hof & Hom). rewrite Eo.
    rewrite (Ppid a o eq_refl eq_refl Hof Hom).
    destruct (dec_pid (r_cp x) (fti_m (omap (dec_fti (r_cp x)) (find_ext 64 es)) m) (pack (rp_pid p))) as [r|];
      [|discriminate]. cbn [eq_res_pid]. apply eq_pid_refl.
  - apply N.eqb_eq. rewrite pid_block_length_bytes, Ecp. lia.
Qed.

Lemma flute_pkt_not_d32 o cci tsi p prof now c s o' h v fs : known_d32_build o p = false ->
  known_d32_parse (flute_pkt o cci tsi p prof now c s o' h v fs) = false.
Proof.
  unfold known_d32_build, known_d32_parse, flute_pkt, mk_rfc_pkt. cbn [rp_lct rp_exts set_hdr_len r_cp flute_rfc_lct].
  intros Hk.
  destruct (find_flute_exts (has_fdt p) (has_cenc p) (k_sct p) (has_fti o p)
              (x_fdt (profile_version prof) (match k_fdt_id p with Some id => id | None => 0 end))
              (x_cenc (k_cenc p) 0) (x_time (flute_time now)) (x_fti v) eq_refl eq_refl eq_refl eq_refl)
    as (_ & _ & _ & F64).
  fold (flute_exts o p prof now v) in F64. rewrite F64.
  destruct (o_fec o); cbn [fec_code N.eqb Pos.eqb andb]; try reflexivity. rewrite Hk. reflexivity.
Qed.

Theorem alc_pkt_roundtrip_proof m o cci tsi p prof now c s o' h v fs :
  known_d32_build o p = false ->
  in_range o cci tsi p now v fs ->
  lct_flags cci tsi (k_toi p) = (c, s, o', h) ->
  exists bytes, new_alc_pkt o cci tsi p prof now = Ok bytes
                /\ P_C06_parse m (flute_pkt o cci tsi p prof now c s o' h v fs) (observe_parse m bytes) = true
                /\ P_C06_build o cci tsi p prof now (Ok bytes) = true.
Proof.
  intros Hk R E. destruct (new_alc_pkt_is_rfc o cci tsi p prof now c s o' h v fs Hk R E) as (Eb & W).
  exists (rfc_alc_encode (flute_pkt o cci tsi p prof now c s o' h v fs)).
  split; [assumption|]. split; [apply spec_parse_holds; apply flute_pkt_not_d32; assumption|].
  rewrite <- Eb. apply spec_build_holds. assumption.
Qed.
