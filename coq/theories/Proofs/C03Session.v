(* C03 at the RECEIVER level (Model/Recv.v, recv_run), with its MD5 clause.
   A. Lift: a generic lifting of an object-level invariant [DI] (of the objects of ONE TOI) through every function of
      the receiver, for every event history; the other objects are handled by the frame part of the C09 relation
      [Ext] (Proofs/C09Full.v): an operation on an object never changes the calls logged for a writer it does not hold.
   B. Walk: the object-level invariant, in two modes sharing one walk through Model/ObjRecv.v:
        strict = true   genuine No-Code packets: block structure of Proofs/C02Full.v, every write extends a prefix of
                        the content, complete only after the last block;
        strict = false  ARBITRARY packets of the object (any payload id, any payload bytes), the FDT entry carries
                        the MD5 of the content and the writer checks it: complete only if the accumulated bytes have
                        the digest of the content, hence (MD5 idealised as injective) are the content.
   C. the receiver-level and object-level theorems; D. examples. *)
From FluteV Require Import Model.Partition Proofs.PartitionProofs Model.ObjRecv Model.Recv Spec.RecvSpec Spec.SessionSpec
  Proofs.RecvProofs Proofs.C09Full Proofs.C02RS Proofs.C02Full.
From Coq Require Import Lia.
Open Scope N_scope.

Arguments N.add : simpl never. Arguments N.mul : simpl never. Arguments N.sub : simpl never.
Arguments N.eqb : simpl never. Arguments N.ltb : simpl never. Arguments N.leb : simpl never.
Arguments N.div : simpl never. Arguments N.modulo : simpl never. Arguments N.min : simpl never.

Notation Pre := C09Full.Pre.
Notation wid_eqb_refl := C09Full.wid_eqb_refl.
Notation wid_eqb_eq := C09Full.wid_eqb_eq.
Notation calls_of_app := C09Full.calls_of_app.

Ltac prj := cbn [r_state r_toi r_oti r_cache r_cache_size r_max r_blocks r_off r_tlen r_cenc r_md5 r_md5chk
                 r_al r_as r_nal r_writer r_bw r_fdt_id r_nb_alloc r_alloc_size r_clen r_nocache] in *.

(* ================= A. lifting an invariant of the objects of one TOI to the receiver ================= *)
Section Lift.
  Variable E : env.
  Variable parse_fdt : list N -> option fdtinst.
  Variable cfg : rconfig.
  Variable toi : N.
  Variable DI : objrecv -> ctx -> Prop.          (* invariant of an object of TOI [toi] *)
  Variable Safe : list wcall -> Prop.            (* what is claimed of the calls of every writer (toi, n) *)
  Variable GoodPkt : apkt -> Prop.               (* the packets of TOI [toi] *)
  Variable GoodInst : fdtinst -> Prop.           (* the FDT instances the parser yields *)

  Hypothesis H_safe_nil : Safe [].
  Hypothesis H_safe : forall o c w ws, DI o c -> r_writer o = Some (w, ws) -> Safe (calls_of w (c_log c)).
  Hypothesis H_frame : forall o c c', DI o c ->
    (forall w ws, r_writer o = Some (w, ws) -> calls_of w (c_log c') = calls_of w (c_log c)) -> DI o c'.
  Hypothesis H_new : forall c m, DI (or_new toi m) c.
  Hypothesis H_push : forall p o c, Pre o c -> DI o c -> GoodPkt p -> a_toi p = toi ->
    DI (fst (or_push E p o c)) (snd (or_push E p o c)).
  Hypothesis H_attach : forall id i o c, Pre o c -> DI o c -> GoodInst i ->
    DI (snd (fst (or_attach E id (fi_files i) (fi_oti i) o c))) (snd (or_attach E id (fi_files i) (fi_oti i) o c)).
  Hypothesis H_error : forall o c, Pre o c -> DI o c -> Live o -> DI (fst (error o false c)) (snd (error o false c)).
  Hypothesis H_parse : forall d i, parse_fdt d = Some i -> GoodInst i.

  Definition SafeAll (c : ctx) : Prop := forall n, Safe (calls_of (toi, n) (c_log c)).
  Definition DIs (objs : list (N * objrecv)) (c : ctx) : Prop := forall o, In (toi, o) objs -> DI o c.
  Definition GO (objs : list (N * objrecv)) (c : ctx) : Prop := RInv objs c /\ SafeAll c /\ DIs objs c.

  Lemma held_toi o c w ws : Pre o c -> r_writer o = Some (w, ws) -> fst w = r_toi o.
  Proof. intros (_ & W & _) Hw. rewrite Hw in W. cbn in W. apply W. Qed.

  Lemma GO_rinv objs c : GO objs c -> RInv objs c.
  Proof. intros H; apply H. Qed.

  Lemma GO_ceq objs c c' : c_next c' = c_next c -> c_log c' = c_log c -> GO objs c -> GO objs c'.
  Proof.
    intros Hn Hl (R & S & D). split; [eapply RInv_ceq; eassumption|]. split.
    - intros n. rewrite Hl. apply S.
    - intros o Hin. apply (H_frame o c c' (D o Hin)). intros w ws _. rewrite Hl. reflexivity.
  Qed.

  Lemma GO_replace l1 k o l2 c o' c' :
    GO (l1 ++ (k, o) :: l2) c -> Ext o c o' c' -> (k = toi -> DI o' c') -> GO (l1 ++ (k, o') :: l2) c'.
  Proof.
    intros (R & S & D) X HD. pose proof R as (N & H & F & C).
    assert (Hko : In (k, o) (l1 ++ (k, o) :: l2)) by (apply in_or_app; right; left; reflexivity).
    destruct (H _ _ Hko) as (Tk & _ & _).
    pose proof (e_pre _ _ _ _ X) as P'.
    assert (Held : forall w ws, r_writer o' = Some (w, ws) -> fst w = k).
    { intros w ws Hw. rewrite (held_toi o' c' w ws P' Hw), (e_toi _ _ _ _ X). exact Tk. }
    assert (Nk : ~ In k (map fst l1) /\ ~ In k (map fst l2)).
    { rewrite map_app in N. cbn [map fst] in N. apply NoDup_mid_notin. exact N. }
    split; [eapply RInv_replace; eassumption|]. split.
    - intros n. destruct (r_writer o') as [[w' ws']|] eqn:Ew.
      + destruct (wid_eq_dec (toi, n) w') as [Eq|ne].
        * subst w'. apply (H_safe o' c' _ _ (HD (eq_sym (Held _ _ eq_refl))) Ew).
        * rewrite (e_frame _ _ _ _ X); [apply S|]. intros ws Hx. rewrite Ew in Hx. inversion Hx. congruence.
      + rewrite (e_frame _ _ _ _ X); [apply S|]. intros ws Hx. rewrite Ew in Hx. discriminate.
    - intros o2 Hin.
      assert (Other : In (toi, o2) l1 \/ In (toi, o2) l2 -> DI o2 c').
      { intros Hin'.
        assert (Hin2 : In (toi, o2) (l1 ++ (k, o) :: l2)).
        { apply in_or_app. destruct Hin'; [left|right; right]; assumption. }
        assert (Hne : k <> toi).
        { intros ->. destruct Nk as [N1 N2]. destruct Hin' as [Hi|Hi]; [apply N1|apply N2]; apply (in_map fst) in Hi; exact Hi. }
        apply (H_frame o2 c c' (D o2 Hin2)). intros w ws Hw.
        apply (e_frame _ _ _ _ X). intros ws' Hx. apply Hne. rewrite <- (Held _ _ Hx).
        destruct (H _ _ Hin2) as (T2 & _ & W2). rewrite Hw in W2. cbn in W2. destruct W2 as (W2 & _). congruence. }
      apply in_app_or in Hin. destruct Hin as [Hin|[Heq|Hin]]; [apply Other; left; exact Hin| |apply Other; right; exact Hin].
      inversion Heq as [[Hk Ho]]. rewrite <- Ho. apply HD. exact Hk.
  Qed.

  Lemma GO_del l1 k o l2 c :
    GO (l1 ++ (k, o) :: l2) c -> (forall w, r_writer o <> Some (w, WOpened)) -> GO (l1 ++ l2) c.
  Proof.
    intros (R & S & D) NW. split; [eapply RInv_del; eassumption|]. split; [exact S|].
    intros o2 Hin. apply D. apply in_app_or in Hin. apply in_or_app. destruct Hin; [left|right; right]; assumption.
  Qed.

  Lemma or_drop_good o c : Pre o c -> (r_toi o = toi -> DI o c) ->
    exists o', Ext o c o' (or_drop o c) /\ (forall w, r_writer o' <> Some (w, WOpened)) /\ (r_toi o = toi -> DI o' (or_drop o c)).
  Proof.
    intros P HD. unfold or_drop. destruct (r_writer o) as [[w ws]|] eqn:Ew.
    - destruct ws.
      + exfalso. destruct P as (_ & W & _). rewrite Ew in W. cbn in W. destruct W as (_ & _ & ph & _ & K). exact K.
      + exists o. split; [apply Ext_refl, P|]. split; [intros w0 H; congruence|exact HD].
      + assert (L : Live o) by (unfold Live; rewrite Ew; exact I).
        exists (fst (error o false c)). split; [apply Ext_error; assumption|]. split.
        * unfold error. rewrite Ew. cbn. rewrite Ew. intros w0 H. discriminate.
        * intros Ht. apply H_error; [exact P|exact (HD Ht)|exact L].
      + exists o. split; [apply Ext_refl, P|]. split; [intros w0 H; congruence|exact HD].
    - exists o. split; [apply Ext_refl, P|]. split; [intros w0 H; congruence|exact HD].
  Qed.

  Lemma GO_pre objs c k o : GO objs c -> In (k, o) objs -> Pre o c /\ r_toi o = k /\ (r_toi o = toi -> DI o c).
  Proof.
    intros (R & _ & D) Hin. split; [eapply RInv_pre; eassumption|].
    destruct R as (_ & H & _). destruct (H _ _ Hin) as (T & _). split; [exact T|].
    intros Ht. apply D. rewrite <- Ht, T. exact Hin.
  Qed.

  Lemma GO_drop l1 k o l2 c : GO (l1 ++ (k, o) :: l2) c -> GO (l1 ++ l2) (or_drop o c).
  Proof.
    intros G.
    destruct (GO_pre _ _ k o G ltac:(apply in_or_app; right; left; reflexivity)) as (P & T & HD).
    destruct (or_drop_good o c P HD) as (o' & X & NW & HD').
    eapply GO_del; [|exact NW]. eapply GO_replace; [exact G|exact X|]. intros ->. apply HD'. exact T.
  Qed.

  Lemma GO_add objs c k m : GO objs c -> ~ In k (map fst objs) -> GO (objs ++ [(k, or_new k m)]) c.
  Proof.
    intros (R & S & D) Hk. split; [apply RInv_add; assumption|]. split; [exact S|].
    intros o Hin. apply in_app_or in Hin. destruct Hin as [Hin|[Heq|[]]]; [apply D; exact Hin|].
    inversion Heq; subst. apply H_new.
  Qed.

  (* ---- the FDT plane: every parsed instance kept by the receiver is a good one ---- *)
  Definition FGf (f : fdtrecv) : Prop := forall i, fr_inst f = Some i -> GoodInst i.
  Definition FG (r : recv) : Prop :=
    Forall FGf (rv_fdt_current r) /\ Forall (fun q => FGf (snd q)) (rv_fdt_receivers r).

  Lemma FGf_update f now : FGf f -> FGf (fr_update_expired f now).
  Proof.
    intros H. unfold fr_update_expired. destruct (fr_state f); try exact H.
    destruct (fr_check f && fr_is_expired f now); exact H.
  Qed.

  Lemma FGf_log : forall log f, FGf f -> FGf (apply_fdt_log parse_fdt log f).
  Proof.
    induction log as [|e log IH]; intros f H; cbn [apply_fdt_log]; [exact H|].
    destruct e; try (apply IH; exact H).
    destruct (parse_fdt (fr_data f)) as [i|] eqn:Ep; apply IH.
    - intros i' Hi. cbn [fr_inst] in Hi. inversion Hi; subst. eapply H_parse; eassumption.
    - exact H.
  Qed.

  Lemma FGf_push p now f : FGf f -> FGf (fst (fr_push E parse_fdt p now f)).
  Proof.
    intros H. unfold fr_push. cbn [fr_obj]. destruct (fr_obj f) as [o|]; cbn [fst]; [|exact H].
    destruct (or_push (E_fdt E) p o ctx0) as [o1 c1].
    match goal with |- context [apply_fdt_log parse_fdt ?l ?f0] =>
      assert (K : FGf (apply_fdt_log parse_fdt l f0)) by (apply FGf_log; exact H);
      set (f1 := apply_fdt_log parse_fdt l f0) in * end.
    destruct (r_state o1); cbn [fst]; exact K.
  Qed.

  Lemma FGf_new id : FGf (fr_new cfg id).
  Proof. intros i H. discriminate. Qed.

  Definition GI (r : recv) (c : ctx) : Prop := GO (rv_objects r) c /\ FG r.
  Definition GI2 (x : recv * ctx) : Prop := GI (fst x) (snd x).
  Definition GI3 (x : pres * recv * ctx) : Prop := GI (snd (fst x)) (snd x).

  Lemma GI_fdt_same r r' c : rv_objects r' = rv_objects r -> rv_fdt_current r' = rv_fdt_current r ->
    rv_fdt_receivers r' = rv_fdt_receivers r -> GI r c -> GI r' c.
  Proof. intros A B C [G [F1 F2]]. split; [rewrite A; exact G|]. split; [rewrite B; exact F1|rewrite C; exact F2]. Qed.

  Lemma G_put r c k o o' c' :
    GO (rv_objects r) c -> get_obj r k = Some o -> Ext o c o' c' -> (k = toi -> DI o' c') ->
    GO (put_obj k o' (rv_objects r)) c'.
  Proof.
    intros G Hg X HD. unfold get_obj in Hg.
    destruct (find (fun p => fst p =? k) (rv_objects r)) as [p|] eqn:Ef; [|discriminate].
    inversion Hg; subst. destruct (find_slot _ _ _ (proj1 (GO_rinv _ _ G)) Ef) as (l1 & l2 & S1 & _ & S3).
    rewrite S3. eapply GO_replace; [|exact X|exact HD]. rewrite S1 in G. exact G.
  Qed.

  Lemma G_get r c k o : GO (rv_objects r) c -> get_obj r k = Some o ->
    Pre o c /\ r_toi o = k /\ (r_toi o = toi -> DI o c).
  Proof.
    intros G Hg. unfold get_obj in Hg.
    destruct (find (fun p => fst p =? k) (rv_objects r)) as [p|] eqn:Ef; [|discriminate].
    inversion Hg; subst. apply find_some in Ef. destruct Ef as [Hin Hk]. apply N.eqb_eq in Hk.
    destruct p as [k' o]. cbn [fst snd] in *. subst k'. eapply GO_pre; eassumption.
  Qed.

  Lemma remove_obj_g k r c : GI r c -> GI2 (remove_obj k r c).
  Proof.
    intros [G F]. unfold remove_obj, GI2. destruct (get_obj r k) as [o|] eqn:Hg; [|split; assumption].
    cbn [fst snd]. split; [|exact F]. cbn [set_objects rv_objects]. unfold get_obj in Hg.
    destruct (find (fun p => fst p =? k) (rv_objects r)) as [p|] eqn:Ef; [|discriminate].
    inversion Hg; subst. destruct (find_slot _ _ _ (proj1 (GO_rinv _ _ G)) Ef) as (l1 & l2 & S1 & S2 & _).
    rewrite S2. apply GO_drop with (k := k). rewrite S1 in G. exact G.
  Qed.

  Lemma gc_error_g : forall fuel r c, GI r c -> GI2 (gc_error cfg fuel r c).
  Proof.
    induction fuel as [|f IH]; intros r c G; cbn [gc_error]; [exact G|].
    destruct (cf_max_err cfg <? N.of_nat (length (rv_error r))); [|exact G].
    destruct (rv_error r) as [|t rest]; [exact G|].
    match goal with |- context [remove_obj t ?r1 c] =>
      assert (G1 : GI r1 c) by (eapply GI_fdt_same; [| | |exact G]; reflexivity);
      pose proof (remove_obj_g t r1 c G1) as G2; destruct (remove_obj t r1 c) as [r2 c2] end.
    apply IH. exact G2.
  Qed.

  Lemma check_state_g t r c : GI r c -> GI2 (check_state cfg t r c).
  Proof.
    intros G. unfold check_state. destruct (get_obj r t) as [o|]; [|exact G].
    destruct (r_state o); [exact G| | |].
    - apply remove_obj_g. eapply GI_fdt_same; [| | |exact G]; reflexivity.
    - match goal with |- context [gc_error cfg ?n ?r1 c] =>
        assert (G1 : GI r1 c) by (eapply GI_fdt_same; [| | |exact G]; reflexivity);
        pose proof (gc_error_g n r1 c G1) as G2; destruct (gc_error cfg n r1 c) as [r2 c2] end.
      apply remove_obj_g. exact G2.
    - match goal with |- context [gc_error cfg ?n ?r1 c] =>
        assert (G1 : GI r1 c) by (eapply GI_fdt_same; [| | |exact G]; reflexivity);
        pose proof (gc_error_g n r1 c G1) as G2; destruct (gc_error cfg n r1 c) as [r2 c2] end.
      apply remove_obj_g. exact G2.
  Qed.

  Lemma check_all_g : forall tois r c, GI r c -> GI2 (check_all cfg tois r c).
  Proof.
    induction tois as [|t rest IH]; intros r c G; cbn [check_all]; [exact G|].
    pose proof (check_state_g t r c G) as G1. destruct (check_state cfg t r c) as [r1 c1]. apply IH. exact G1.
  Qed.

  Lemma or_attach_g id i o c : Pre o c -> (r_toi o = toi -> DI o c) -> GoodInst i ->
    let x := or_attach E id (fi_files i) (fi_oti i) o c in
    Ext o c (snd (fst x)) (snd x) /\ (r_toi o = toi -> DI (snd (fst x)) (snd x)).
  Proof.
    intros P HD Gi. cbv zeta. split; [apply (or_attach_ext E id (fi_files i) (fi_oti i) o c P)|].
    intros Ht. apply H_attach; [exact P|exact (HD Ht)|exact Gi].
  Qed.

  Definition GIa (x : recv * ctx * list N) : Prop := GI (fst (fst x)) (snd (fst x)).

  Lemma attach_all_g id i : GoodInst i -> forall tois r c att, GI r c -> GIa (attach_all E id i tois r c att).
  Proof.
    intros Gi. induction tois as [|t rest IH]; intros r c att G; cbn [attach_all]; [exact G|].
    destruct (get_obj r t) as [o|] eqn:Hg; [|apply IH; exact G].
    destruct G as [G F]. destruct (G_get _ _ _ _ G Hg) as (P & T & HD).
    destruct (or_attach_g id i o c P HD Gi) as [X HD'].
    destruct (or_attach E id (fi_files i) (fi_oti i) o c) as [[ok o1] c1]. cbn [fst snd] in X, HD'.
    apply IH. split; [|exact F]. cbn [set_objects rv_objects]. eapply G_put; [exact G|exact Hg|exact X|].
    intros ->. apply HD'. exact T.
  Qed.

  Lemma create_attach_g : forall cur now o c, Pre o c -> (r_toi o = toi -> DI o c) -> Forall FGf cur ->
    let x := create_attach E cur now o c in
    Ext o c (snd (fst x)) (snd x) /\ (r_toi o = toi -> DI (snd (fst x)) (snd x)) /\ Forall FGf (fst (fst x)).
  Proof.
    induction cur as [|f rest IH]; intros now o c P HD Fc; cbn [create_attach]; cbv zeta.
    { cbn [fst snd]. split; [apply Ext_refl, P|]. split; [exact HD|constructor]. }
    inversion Fc as [|? ? Ff Fr]; subst.
    pose proof (FGf_update f now Ff) as Ff1.
    assert (Skip : let x := (let '(rest', o2, c2) := create_attach E rest now o c in (fr_update_expired f now :: rest', o2, c2)) in
                   Ext o c (snd (fst x)) (snd x) /\ (r_toi o = toi -> DI (snd (fst x)) (snd x)) /\ Forall FGf (fst (fst x))).
    { pose proof (IH now o c P HD Fr) as X. cbv zeta in X. destruct (create_attach E rest now o c) as [[rest' o2] c2].
      cbn [fst snd] in *. destruct X as (X1 & X2 & X3). split; [exact X1|]. split; [exact X2|]. constructor; assumption. }
    cbv zeta in Skip.
    destruct (fr_state (fr_update_expired f now)); try exact Skip.
    destruct (fr_inst (fr_update_expired f now)) as [i|] eqn:Ei; [|exact Skip].
    destruct (or_attach_g (fr_id (fr_update_expired f now)) i o c P HD (Ff1 _ Ei)) as [X HD'].
    destruct (or_attach E _ (fi_files i) (fi_oti i) o c) as [[ok o1] c1]. cbn [fst snd] in X, HD'.
    destruct ok.
    - cbn [fst snd]. split; [exact X|]. split; [exact HD'|]. constructor; assumption.
    - assert (HD1 : r_toi o1 = toi -> DI o1 c1) by (intros Ht; apply HD'; rewrite <- (e_toi _ _ _ _ X); exact Ht).
      pose proof (IH now o1 c1 (e_pre _ _ _ _ X) HD1 Fr) as X2. cbv zeta in X2.
      destruct (create_attach E rest now o1 c1) as [[rest' o2] c2]. cbn [fst snd] in *.
      destruct X2 as (Y1 & Y2 & Y3). split; [eapply Ext_trans; eassumption|]. split.
      + intros Ht. apply Y2. rewrite (e_toi _ _ _ _ X). exact Ht.
      + constructor; assumption.
  Qed.

  Lemma or_push_g p o c : Pre o c -> (r_toi o = toi -> DI o c) -> (a_toi p = toi -> GoodPkt p) -> a_toi p = r_toi o ->
    Ext o c (fst (or_push E p o c)) (snd (or_push E p o c))
    /\ (r_toi o = toi -> DI (fst (or_push E p o c)) (snd (or_push E p o c))).
  Proof.
    intros P HD Gp Hk. split; [apply (or_push_ext E p o c P)|].
    intros Ht. apply H_push; [exact P|exact (HD Ht)|apply Gp; congruence|congruence].
  Qed.

  Lemma push_tail_g p now r2 c : GI r2 c -> (a_toi p = toi -> GoodPkt p) -> GI3 (push_tail E cfg p now r2 c).
  Proof.
    intros [G F] Gp. unfold push_tail. cbv zeta.
    assert (X : exists r3 o c3,
      (match get_obj r2 (a_toi p) with
       | Some o => (r2, o, c)
       | None =>
         let '(cur, o1, c1) := create_attach E (rv_fdt_current r2) now (or_new (a_toi p) (cf_max_cache cfg)) c in
         (mk_recv (rv_objects r2 ++ [(a_toi p, o1)]) (rv_completed r2) (rv_error r2) (rv_fdt_receivers r2) cur (rv_closed r2),
          o1, c1)
       end) = (r3, o, c3) /\ GI r3 c3 /\ get_obj r3 (a_toi p) = Some o).
    { destruct (get_obj r2 (a_toi p)) as [o|] eqn:Hg.
      - exists r2, o, c. split; [reflexivity|]. split; [split; assumption|exact Hg].
      - unfold get_obj in Hg.
        destruct (find (fun q => fst q =? a_toi p) (rv_objects r2)) as [q|] eqn:Ef; [discriminate|].
        apply find_none_notin in Ef.
        pose proof (GO_add _ _ (a_toi p) (cf_max_cache cfg) G Ef) as G1.
        destruct (GO_pre _ _ (a_toi p) (or_new (a_toi p) (cf_max_cache cfg)) G1
                    ltac:(apply in_or_app; right; left; reflexivity)) as (P0 & T0 & HD0).
        pose proof (create_attach_g (rv_fdt_current r2) now _ c P0 HD0 (proj1 F)) as Y. cbv zeta in Y.
        destruct (create_attach E (rv_fdt_current r2) now (or_new (a_toi p) (cf_max_cache cfg)) c) as [[cur o1] c1].
        cbn [fst snd] in Y. destruct Y as (Y1 & Y2 & Y3).
        eexists _, o1, c1. split; [reflexivity|]. split.
        + split; [|split; [exact Y3|exact (proj2 F)]]. cbn [rv_objects].
          eapply GO_replace with (l2 := []); [exact G1|exact Y1|]. intros Hk. apply Y2. exact Hk.
        + unfold get_obj. cbn [rv_objects]. rewrite find_snoc by assumption. reflexivity. }
    destruct X as (r3 & o & c3 & -> & [G3 F3] & Hg3).
    destruct (G_get _ _ _ _ G3 Hg3) as (P3 & T3 & HD3).
    destruct (or_push_g p o c3 P3 HD3 Gp (eq_sym T3)) as [X HD4].
    destruct (or_push E p o c3) as [o2 c4]. cbn [fst snd] in X, HD4.
    assert (G4 : GI (set_objects r3 (put_obj (a_toi p) o2 (rv_objects r3))) c4).
    { split; [|exact F3]. cbn [set_objects rv_objects]. eapply G_put; [exact G3|exact Hg3|exact X|].
      intros Hk. apply HD4. congruence. }
    match goal with |- context [check_state cfg ?t ?r4 c4] =>
      pose proof (check_state_g t r4 c4 G4) as G5; destruct (check_state cfg t r4 c4) as [r5 c5] end.
    exact G5.
  Qed.

  Lemma push_obj_g p now r c : GI r c -> (a_toi p = toi -> GoodPkt p) -> GI3 (push_obj E cfg p now r c).
  Proof.
    intros G Gp. unfold push_obj. fold (push_tail E cfg p now). cbv zeta.
    destruct (existsb (N.eqb (a_toi p)) (rv_completed r)).
    - destruct (cf_once cfg); [exact G|].
      destruct (is_first_symbol p) as [[|]|]; try exact G.
      cbn [rv_error].
      destruct (existsb (N.eqb (a_toi p)) (rv_error r)).
      + match goal with |- context [get_obj ?r2 _] => apply (push_tail_g p now r2 c); [|exact Gp] end.
        eapply GI_fdt_same; [| | |exact G]; reflexivity.
      + match goal with |- context [get_obj ?r2 _] => apply (push_tail_g p now r2 c); [|exact Gp] end.
        eapply GI_fdt_same; [| | |exact G]; reflexivity.
    - destruct (existsb (N.eqb (a_toi p)) (rv_error r)).
      + destruct (is_first_symbol p) as [[|]|]; try exact G.
        match goal with |- context [get_obj ?r2 _] => apply (push_tail_g p now r2 c); [|exact Gp] end.
        eapply GI_fdt_same; [| | |exact G]; reflexivity.
      + apply (push_tail_g p now r c); assumption.
  Qed.

  Lemma Forall_filter {A} (P : A -> Prop) (g : A -> bool) l : Forall P l -> Forall P (filter g l).
  Proof.
    intros H. induction H as [|x l Hx Hl IH]; cbn [filter]; [constructor|]. destruct (g x); [constructor; assumption|exact IH].
  Qed.
  Lemma Forall_firstn {A} (P : A -> Prop) k l : Forall P l -> Forall P (firstn k l).
  Proof.
    revert l. induction k as [|k IH]; intros l H; cbn [firstn]; [constructor|].
    destruct l as [|x l]; [constructor|]. inversion H; subst. constructor; [assumption|apply IH; assumption].
  Qed.

  Lemma push_fdt_obj_g p now r c : GI r c -> GI3 (push_fdt_obj E parse_fdt cfg p now r c).
  Proof.
    intros G. unfold push_fdt_obj.
    destruct (a_fdt_id p) as [id|]; [|destruct (a_close_obj p || a_close_sess p); exact G].
    destruct (cf_once cfg && existsb (fun f => fr_id f =? id) (rv_fdt_current r)); [exact G|].
    cbv zeta.
    match goal with |- context [match fr_state ?f0 with _ => _ end] => set (ff0 := f0) end.
    assert (F0 : FGf ff0).
    { unfold ff0. destruct (find (fun q => fst q =? id) (rv_fdt_receivers r)) as [q|] eqn:Ef; [|apply FGf_new].
      apply find_some in Ef. destruct Ef as [Hin _]. destruct G as [_ [_ F2]]. rewrite Forall_forall in F2. apply (F2 q Hin). }
    destruct (fr_state ff0); try exact G.
    pose proof (FGf_push p now ff0 F0) as F1.
    destruct (fr_push E parse_fdt p now ff0) as [f1 pan]. cbn [fst] in F1.
    assert (G0 : GI r (if pan then panicc c else c)).
    { destruct pan; [|exact G]. destruct G as [G F]. split; [|exact F]. eapply GO_ceq; [| |exact G]; reflexivity. }
    set (c0 := if pan then panicc c else c) in *. clearbody c0.
    match goal with |- context [match fr_state ?f2 with _ => _ end] => set (ff2 := f2) end.
    assert (F2 : FGf ff2).
    { unfold ff2. destruct (fr_state f1); try exact F1. apply FGf_update. exact F1. }
    clearbody ff2.
    destruct G0 as [G0 [Fc Fr]].
    assert (Fstore : Forall (fun q => FGf (snd q))
              (if existsb (fun q => fst q =? id) (rv_fdt_receivers r)
               then map (fun q => if fst q =? id then (id, ff2) else q) (rv_fdt_receivers r)
               else rv_fdt_receivers r ++ [(id, ff2)])).
    { destruct (existsb (fun q => fst q =? id) (rv_fdt_receivers r)).
      - apply Forall_forall. intros q Hq. apply in_map_iff in Hq. destruct Hq as (q0 & <- & Hq0).
        destruct (fst q0 =? id); [exact F2|]. rewrite Forall_forall in Fr. exact (Fr _ Hq0).
      - apply Forall_app. split; [exact Fr|constructor; [exact F2|constructor]]. }
    assert (Ffilt : Forall (fun q => FGf (snd q)) (filter (fun q => negb (fst q =? id)) (rv_fdt_receivers r)))
      by (apply Forall_filter; exact Fr).
    destruct (fr_state ff2).
    - split; [exact G0|]. split; [exact Fc|exact Fstore].
    - destruct (fr_inst ff2) as [i|] eqn:Ei.
      + match goal with |- context [attach_all E id i ?l ?r1 c0 []] =>
          assert (G1 : GI r1 c0) by (split; [exact G0|split; [constructor; [exact F2|exact Fc]|exact Ffilt]]);
          pose proof (attach_all_g id i (F2 _ Ei) l r1 c0 [] G1) as G2; destruct (attach_all E id i l r1 c0 []) as [[r2 c2] att] end.
        unfold GIa in G2. cbn [fst snd] in G2.
        pose proof (check_all_g att r2 c2 G2) as G3. destruct (check_all cfg att r2 c2) as [r3 c3].
        destruct G3 as [G3 [Fc3 Fr3]]. cbn [fst snd] in *.
        split; [exact G3|]. split; [apply Forall_firstn; exact Fc3|exact Fr3].
      + split; [exact G0|]. split; [|exact Ffilt]. cbn [rv_fdt_current]. apply Forall_firstn. constructor; assumption.
    - split; [exact G0|]. split; [exact Fc|exact Ffilt].
    - split; [exact G0|]. split; [exact Fc|exact Fstore].
  Qed.

  Lemma drop_all_g : forall objs c, GO objs c -> GO [] (fold_left (fun cc q => or_drop (snd q) cc) objs c).
  Proof.
    induction objs as [|[k o] rest IH]; intros c G; cbn [fold_left snd]; [exact G|].
    apply IH. apply (GO_drop [] k o rest c). exact G.
  Qed.

  Definition ev_ok (e : rev) : Prop :=
    match e with RvPush p _ => a_toi p = toi -> GoodPkt p | _ => True end.

  Hypothesis Htoi : toi <> 0.

  Lemma recv_step_g r e c : GI r c -> ev_ok e -> GI3 (recv_step E parse_fdt cfg r e c).
  Proof.
    intros G He. destruct e as [p now| |now expired expired_fdt|]; cbn [recv_step].
    - assert (G0 : GI (if a_close_sess p
                       then mk_recv (rv_objects r) (rv_completed r) (rv_error r) (rv_fdt_receivers r) (rv_fdt_current r) true
                       else r) c).
      { destruct (a_close_sess p); [|exact G]. eapply GI_fdt_same; [| | |exact G]; reflexivity. }
      destruct (a_toi p =? 0); [apply push_fdt_obj_g; exact G0|apply push_obj_g; [exact G0|exact He]].
    - exact G.
    - cbv zeta.
      match goal with |- context [fold_left ?st ?l (r, c)] => set (step := st); set (ex := l) end.
      assert (K : forall l acc, GI2 acc -> GI2 (fold_left step l acc)).
      { induction l as [|t l IH]; intros acc Ga; cbn [fold_left]; [exact Ga|].
        apply IH. destruct acc as [r1 c1]. unfold step. apply remove_obj_g.
        eapply GI_fdt_same; [| | |exact Ga]; reflexivity. }
      pose proof (K ex (r, c) G) as G1. destruct (fold_left step ex (r, c)) as [r1 c1].
      destruct G1 as [G1 [Fc Fr]]. cbn [fst snd] in *. split; [exact G1|]. split; [exact Fc|].
      cbn [rv_fdt_receivers]. apply Forall_filter. apply Forall_forall. intros q Hq.
      apply in_map_iff in Hq. destruct Hq as (q0 & <- & Hq0). cbn [snd]. apply FGf_update.
      rewrite Forall_forall in Fr. exact (Fr _ Hq0).
    - destruct G as [G F]. split; [|exact F]. cbn [fst snd set_objects rv_objects]. apply drop_all_g. exact G.
  Qed.

  Definition GIr (x : list pres * recv * ctx) : Prop := GI (snd (fst x)) (snd x).
  Lemma recv_run_g : forall evs r c, GI r c -> Forall ev_ok evs -> GIr (recv_run E parse_fdt cfg r evs c).
  Proof.
    induction evs as [|e rest IH]; intros r c G F; cbn [recv_run]; [exact G|].
    inversion F as [|? ? Fe Fr]; subst.
    pose proof (recv_step_g r e c G Fe) as G1. destruct (recv_step E parse_fdt cfg r e c) as [[x r1] c1].
    pose proof (IH r1 c1 G1 Fr) as G2. destruct (recv_run E parse_fdt cfg r1 rest c1) as [[xs r2] c2]. exact G2.
  Qed.

  Lemma GI0 : GI recv0 ctx0.
  Proof.
    split; [|split; constructor]. split; [exact RInv0|]. split; [intros n; exact H_safe_nil|intros o []].
  Qed.

  Theorem lift_history evs : Forall ev_ok evs ->
    let '(_, _, c) := recv_run E parse_fdt cfg recv0 evs ctx0 in forall n, Safe (calls_of (toi, n) (c_log c)).
  Proof.
    intros F. pose proof (recv_run_g evs recv0 ctx0 GI0 F) as G.
    destruct (recv_run E parse_fdt cfg recv0 evs ctx0) as [[xs r] c]. destruct G as [(_ & S & _) _]. exact S.
  Qed.
End Lift.

(* ================= B. the object-level invariant and the walk through Model/ObjRecv.v ================= *)
(* the calls one writer may receive: open . write* . terminal?; a complete only once exactly [content] has been
   written; in strict mode every write extends a prefix of [content] (= c09_step (Some content)) *)
Section Auto.
  Variable strict : bool.
  Variable content : list N.

  Definition s_step (ph : wphase) (cl : wcall) : option wphase :=
    match ph, cl with
    | PhStart, CallOpen true => Some (PhOpened [])
    | PhStart, CallOpen false => Some PhOpenFailed
    | PhOpenFailed, (CallError | CallInterrupted) => Some PhDone
    | PhOpened acc, CallWrite d _ =>
      if strict && negb (is_prefix (acc ++ d) content) then None else Some (PhOpened (acc ++ d))
    | PhOpened acc, CallComplete => if eqb_bytes acc content then Some PhDone else None
    | PhOpened _, (CallError | CallInterrupted) => Some PhDone
    | _, _ => None
    end.
  Fixpoint s_run (ph : wphase) (cs : list wcall) : option wphase :=
    match cs with
    | [] => Some ph
    | cl :: r => match s_step ph cl with Some ph' => s_run ph' r | None => None end
    end.

  Lemma s_run_app ph a b :
    s_run ph (a ++ b) = match s_run ph a with Some ph' => s_run ph' b | None => None end.
  Proof.
    revert ph; induction a as [|x a IH]; intros ph; cbn [app s_run]; [reflexivity|].
    destruct (s_step ph x); [apply IH|reflexivity].
  Qed.
  Lemma s_run_snoc ph cs ph1 cl : s_run ph cs = Some ph1 -> s_run ph (cs ++ [cl]) = s_step ph1 cl.
  Proof. intros H. rewrite s_run_app, H. cbn [s_run]. destruct (s_step ph1 cl); reflexivity. Qed.

  Lemma s_done cs ph : s_run PhDone cs = Some ph -> cs = [].
  Proof. destruct cs as [|cl r]; [reflexivity|]. cbn [s_run s_step]. discriminate. Qed.

  Lemma is_prefix_refl l : is_prefix l l = true.
  Proof. induction l as [|x l IH]; cbn [is_prefix]; [reflexivity|]. rewrite N.eqb_refl. exact IH. Qed.

  Definition SafeCalls (cs : list wcall) : Prop :=
    P_C03_writer content true cs = true /\ (strict = true -> is_prefix (written cs) content = true).

  Lemma s_opened : forall cs acc ph, s_run (PhOpened acc) cs = Some ph ->
    (strict = true -> is_prefix acc content = true) ->
    (completed cs = true -> acc ++ written cs = content) /\ completed cs && failed cs = false
    /\ (strict = true -> is_prefix (acc ++ written cs) content = true).
  Proof.
    induction cs as [|cl r IH]; intros acc ph H Hp.
    - cbn [written completed failed flat_map existsb]. rewrite app_nil_r. split; [discriminate|]. split; [reflexivity|exact Hp].
    - cbn [s_run] in H. destruct cl as [ok|d ok| | |]; cbn [s_step] in H; try discriminate.
      + destruct (strict && negb (is_prefix (acc ++ d) content)) eqn:G; [discriminate|].
        assert (Hp' : strict = true -> is_prefix (acc ++ d) content = true).
        { intros Hs. rewrite Hs in G. cbn [andb] in G. destruct (is_prefix (acc ++ d) content); [reflexivity|discriminate]. }
        destruct (IH _ _ H Hp') as (I1 & I2 & I3).
        assert (W : written (CallWrite d ok :: r) = d ++ written r) by (destruct ok; reflexivity).
        rewrite W, app_assoc. cbn [completed failed existsb orb]. split; [exact I1|]. split; [exact I2|exact I3].
      + destruct (eqb_bytes acc content) eqn:G; [|discriminate]. apply s_done in H. subst r.
        apply eqb_bytes_eq in G. cbn [written completed failed flat_map existsb app orb andb]. rewrite app_nil_r.
        split; [intros _; exact G|]. split; [reflexivity|]. intros _. rewrite G. apply is_prefix_refl.
      + apply s_done in H. subst r. cbn [written completed failed flat_map existsb app orb andb]. rewrite app_nil_r.
        split; [discriminate|]. split; [reflexivity|exact Hp].
      + apply s_done in H. subst r. cbn [written completed failed flat_map existsb app orb andb]. rewrite app_nil_r.
        split; [discriminate|]. split; [reflexivity|exact Hp].
  Qed.

  Lemma s_run_safe cs ph : s_run PhStart cs = Some ph -> SafeCalls cs.
  Proof.
    intros H. unfold SafeCalls, P_C03_writer.
    destruct cs as [|cl r]; [split; reflexivity|].
    cbn [s_run] in H. destruct cl as [[|]|d ok| | |]; cbn [s_step] in H; try discriminate.
    - destruct (s_opened r [] ph H (fun _ => eq_refl)) as (I1 & I2 & I3). cbn [app] in I1, I3.
      change (written (CallOpen true :: r)) with (written r). change (completed (CallOpen true :: r)) with (completed r).
      change (failed (CallOpen true :: r)) with (failed r). split; [|exact I3].
      rewrite I2. cbn [negb andb]. rewrite andb_true_r.
      destruct (completed r) eqn:C; cbn [negb orb]; [|reflexivity]. rewrite (I1 eq_refl). apply eqb_bytes_refl.
    - destruct r as [|cl2 r2]; [split; reflexivity|].
      cbn [s_run] in H. destruct cl2 as [ok|d ok| | |]; cbn [s_step] in H; try discriminate; apply s_done in H; subst r2; split; reflexivity.
  Qed.
End Auto.

Lemma calls_snoc w c e : calls_of w (c_log (logc c e)) = calls_of w (c_log c) ++ calls_of w [e].
Proof. cbn [logc c_log]. apply calls_of_app. Qed.

Lemma nth_upd_same i (f : bdec -> bdec) l d0 : (i < length l)%nat -> nth i (upd_nthb i f l) d0 = f (nth i l d0).
Proof. revert i. induction l as [|x l IH]; intros [|i] H; cbn [upd_nthb length nth] in *; try lia; auto. apply IH. lia. Qed.

Lemma bool_cases (b : bool) : b = true \/ b = false.
Proof. destruct b; auto. Qed.

Section Walk.
  Variable E : env.
  Variable strict : bool.
  Variable oti : roti.
  Variable content : list N.
  Variable toi : N.
  Variables al as_ nal n : N.
  Notation L := (lenN_ content).
  Hypothesis Htoi : toi <> 0.
  Hypothesis HL : 0 < L.
  Hypothesis Hs : strict = true -> block_partitioning (ro_b oti) L (ro_e oti) = (al, as_, nal, n).
  Hypothesis Hm : strict = false ->
    e_md5_enabled E = true /\ forall b, lenN_ b = L -> e_md5 E b = e_md5 E content -> b = content.

  Notation srun := (s_run strict content PhStart).
  Notation bof := (boff (ro_e oti) L al as_ nal).

  (* ---- the FEC scheme of the genuine mode (strict = true), abstractly: the invariant of a block of the window, of a
     completed block, of the block writer at a window offset; the bytes of a block; the genuine packets.  Instances:
     No-Code (Proofs/C02Full.v), Reed-Solomon / RaptorQ / Raptor with a sound decoder oracle (Proofs/C02RS.v) ---- *)
  Variable BOk : N -> bdec -> Prop.
  Variable BIn : N -> bdec -> Prop.
  Variable BWI : N -> bwriter -> Prop.
  Variable blkb : N -> list N.
  Variable genP : apkt -> Prop.

  (* the object with another state, window content and memory accounting *)
  Definition oupd (o : objrecv) (st : ostate) (bl : list bdec) (nb sz : N) : objrecv :=
    mk_or st (r_toi o) (r_oti o) (r_cache o) (r_cache_size o) (r_max o) bl (r_off o) (r_tlen o) (r_cenc o)
          (r_md5 o) (r_md5chk o) (r_al o) (r_as o) (r_nal o) (r_writer o) (r_bw o) (r_fdt_id o) nb sz (r_clen o) (r_nocache o).
  Definition BlkAll (o : objrecv) (bl : list bdec) : Prop := forall i, BOk (r_off o + N.of_nat i) (nth i bl bdec_new).
  (* what push_to_block2 does with a genuine packet: nothing, or it updates the window (all blocks still good) and
     returns, fails, or goes on with write_blocks *)
  Definition P2B (o : objrecv) (c : ctx) (rc : res * ctx) : Prop :=
    (rc = (ROk o, c) \/ rc = (RErr o, c))
    \/ (exists st bl nb sz (pan iserr : bool), BlkAll o bl
          /\ rc = ((if iserr then RErr (oupd o st bl nb sz) else ROk (oupd o st bl nb sz)), if pan then panicc c else c))
    \/ (exists bl nb sz (pan : bool) fuel sbn, BlkAll o bl
          /\ rc = write_blocks E fuel sbn (oupd o (r_state o) bl nb sz) (if pan then panicc c else c)).

  Hypothesis X_new : strict = true -> forall s, BOk s bdec_new.
  Hypothesis X_done : strict = true -> forall s d, BOk s d -> bd_completed d = true -> BIn s d.
  Hypothesis X_bw0 : strict = true -> forall clen m5, BWI 0 (bw_new L clen CNull m5) /\ 0 < n.
  Hypothesis X_sbn : strict = true -> forall off bw, BWI off bw -> bw_sbn bw = off /\ bw_acc bw = take (bof off) content.
  Hypothesis X_write : strict = true -> forall w off d bw c, BWI off bw -> BIn off d -> bd_completed d = true -> off < n ->
    let ok := e_write_ok E w (wcount c w) in
    let c1 := inc_wcount (logc c (EvWrite w (blkb off) ok)) w in
    exists bw', bw_write E w off d bw c = ((if ok then ObjRecv.BwOk bw' else BwErr), c1)
      /\ take (bof off) content ++ blkb off = take (bof (off + 1)) content
      /\ bw_left bw' = L - bof (off + 1) /\ bof (off + 1) <= L
      /\ (bw_left bw' <> 0 -> off + 1 < n /\ BWI (off + 1) bw').
  Hypothesis X_p2b : strict = true -> forall p o c, genP p ->
    r_toi o = toi -> r_oti o = Some oti -> r_tlen o = Some L -> r_al o = al -> r_as o = as_ -> r_nal o = nal ->
    BlkAll o (r_blocks o) -> P2B o c (push_to_block2 E p o c).

  (* what is asked of the headers of a packet of the object: EXT_FTI, if present, carries the transfer length (and, for
     genuine packets, the OTI) of the object; EXT_CENC, if present, says "null" *)
  Definition ext_ok (p : apkt) : Prop :=
    match a_oti p with None => True | Some (ot, l) => l = L /\ (strict = true -> ot = oti) end
    /\ (a_cenc p = None \/ a_cenc p = Some CNull).
  Definition GoodP (p : apkt) : Prop :=
    a_toi p = toi /\ ext_ok p /\ (strict = true -> genP p).
  Definition GoodI (i : fdtinst) : Prop :=
    forall f, find (fun f => ff_toi f =? toi) (fi_files i) = Some f ->
      ff_cenc f = CNull /\ match ff_oti f with Some x => Some x | None => fi_oti i end = Some oti
      /\ ff_tlen f = L /\ (strict = false -> ff_md5 f = Some (e_md5 E content)).

  Definition MetaOk (o : objrecv) : Prop :=
    (r_oti o = None /\ r_tlen o = None /\ r_blocks o = [] /\ r_off o = 0 /\ r_writer o = None)
    \/ (exists ot, r_oti o = Some ot /\ (strict = true -> ot = oti) /\ r_tlen o = Some L).
  Definition BlkOk (o : objrecv) : Prop :=
    strict = true -> forall i, BOk (r_off o + N.of_nat i) (nth i (r_blocks o) bdec_new).
  Definition Par (o : objrecv) : Prop :=
    strict = true -> r_oti o <> None -> r_al o = al /\ r_as o = as_ /\ r_nal o = nal.
  Definition BwGood (o : objrecv) (bw : bwriter) : Prop :=
    if strict then BWI (r_off o) bw /\ r_off o < n
    else bw_cenc bw = CNull /\ bw_md5 bw = None /\ lenN_ (bw_acc bw) + bw_left bw = L /\ 0 < bw_left bw
         /\ bw_md5ctx bw = true /\ r_md5 o = Some (e_md5 E content).
  Definition WrX (weak : bool) (o : objrecv) (c : ctx) : Prop :=
    match r_writer o with
    | None => r_bw o = None /\ r_off o = 0
    | Some (w, WOpened) =>
      if weak then exists acc, srun (calls_of w (c_log c)) = Some (PhOpened acc)
      else exists bw, r_bw o = Some bw /\ srun (calls_of w (c_log c)) = Some (PhOpened (bw_acc bw)) /\ BwGood o bw
    | Some (w, _) => exists ph, srun (calls_of w (c_log c)) = Some ph
    end.
  Record DIc (weak : bool) (o : objrecv) (c : ctx) : Prop := {
    d_toi : r_toi o = toi;
    d_meta : MetaOk o;
    d_cenc : r_cenc o = None \/ r_cenc o = Some CNull;
    d_cache : Forall GoodP (r_cache o);
    d_fdt : r_fdt_id o = None -> r_writer o = None;
    d_md5 : strict = false -> r_fdt_id o <> None -> r_md5 o = Some (e_md5 E content);
    d_blk : BlkOk o;
    d_wr : WrX weak o c
  }.
  Definition DIx (weak : bool) (o : objrecv) (c : ctx) : Prop := DIc weak o c /\ Par o.

  Lemma WrX_weaken o c : WrX false o c -> WrX true o c.
  Proof.
    unfold WrX. destruct (r_writer o) as [[w ws]|]; [|auto]. destruct ws; auto.
    intros (bw & _ & H & _). eexists; exact H.
  Qed.
  Lemma DIc_weaken o c : DIc false o c -> DIc true o c.
  Proof. intros []. constructor; try assumption. apply WrX_weaken. assumption. Qed.
  Lemma DIx_weaken weak o c : DIx weak o c -> DIx true o c.
  Proof. destruct weak; [auto|]. intros [D P]. split; [apply DIc_weaken; exact D|exact P]. Qed.

  (* the fields the invariant reads *)
  Lemma WrX_upd weak o c o' c' :
    r_writer o' = r_writer o -> r_bw o' = r_bw o -> r_off o' = r_off o -> r_md5 o' = r_md5 o ->
    (forall w ws, r_writer o = Some (w, ws) -> calls_of w (c_log c') = calls_of w (c_log c)) ->
    WrX weak o c -> WrX weak o' c'.
  Proof.
    intros H1 H2 H3 H4 Hc. unfold WrX, BwGood. rewrite H1, H2, H3, H4.
    destruct (r_writer o) as [[w ws]|]; [|auto]. rewrite (Hc w ws eq_refl). auto.
  Qed.

  Lemma DIc_upd weak o c o' c' :
    DIc weak o c ->
    r_toi o' = r_toi o -> r_oti o' = r_oti o -> r_tlen o' = r_tlen o -> r_blocks o' = r_blocks o -> r_off o' = r_off o ->
    r_writer o' = r_writer o -> r_cenc o' = r_cenc o -> r_cache o' = r_cache o -> r_fdt_id o' = r_fdt_id o ->
    r_md5 o' = r_md5 o -> r_bw o' = r_bw o ->
    (forall w ws, r_writer o = Some (w, ws) -> calls_of w (c_log c') = calls_of w (c_log c)) -> DIc weak o' c'.
  Proof.
    intros [D1 D2 D3 D4 D5 D6 D7 D8] E1 E2 E3 E4 E5 E6 E7 E8 E9 E10 E11 Hc.
    constructor; unfold MetaOk, BlkOk in *; rewrite ?E1, ?E2, ?E3, ?E4, ?E5, ?E6, ?E7, ?E8, ?E9, ?E10; try assumption.
    eapply WrX_upd; [| | | | |exact D8]; assumption.
  Qed.

  Lemma Par_upd o o' : r_oti o' = r_oti o -> r_al o' = r_al o -> r_as o' = r_as o -> r_nal o' = r_nal o -> Par o -> Par o'.
  Proof. intros E1 E2 E3 E4. unfold Par. rewrite E1, E2, E3, E4. auto. Qed.

  Lemma DIx_ceq weak o c c' : c_log c' = c_log c -> DIx weak o c -> DIx weak o c'.
  Proof.
    intros Hl [D P]. split; [|exact P]. apply (DIc_upd weak o c); try reflexivity; [exact D|].
    intros w ws _. rewrite Hl. reflexivity.
  Qed.

  (* the blocks change, the window offset and the writer do not *)
  Lemma DIx_blocks weak o c o' :
    DIx weak o c -> r_oti o <> None ->
    r_toi o' = r_toi o -> r_oti o' = r_oti o -> r_tlen o' = r_tlen o -> r_off o' = r_off o ->
    r_writer o' = r_writer o -> r_cenc o' = r_cenc o -> r_cache o' = r_cache o -> r_fdt_id o' = r_fdt_id o ->
    r_md5 o' = r_md5 o -> r_bw o' = r_bw o -> r_al o' = r_al o -> r_as o' = r_as o -> r_nal o' = r_nal o ->
    (strict = true -> forall i, BOk (r_off o + N.of_nat i) (nth i (r_blocks o') bdec_new)) -> DIx weak o' c.
  Proof.
    intros [[D1 D2 D3 D4 D5 D6 D7 D8] P] Ho E1 E2 E3 E5 E6 E7 E8 E9 E10 E11 E12 E13 E14 HB.
    split; [|eapply Par_upd; [| | | |exact P]; assumption].
    constructor; unfold MetaOk, BlkOk in *; rewrite ?E1, ?E2, ?E3, ?E5, ?E6, ?E7, ?E8, ?E9, ?E10; try assumption.
    - destruct D2 as [(A & _)|D2]; [contradiction|]. right. exact D2.
    - eapply WrX_upd; [| | | | |exact D8]; try assumption. reflexivity.
  Qed.

  Lemma writer_has_oti weak o c : DIc weak o c -> r_writer o <> None -> r_oti o <> None.
  Proof.
    intros D Hw Ho. destruct (d_meta _ _ _ D) as [(_ & _ & _ & _ & A)|(ot & A & _)]; congruence.
  Qed.

  Lemma opened_phase weak o c w : DIc weak o c -> r_writer o = Some (w, WOpened) ->
    exists acc, srun (calls_of w (c_log c)) = Some (PhOpened acc).
  Proof.
    intros D Ew. pose proof (d_wr _ _ _ D) as W. unfold WrX in W. rewrite Ew in W.
    destruct weak; [exact W|]. destruct W as (bw & _ & H & _). eexists; exact H.
  Qed.

  (* ---- error(): the open writer gets its terminal call ---- *)
  Lemma error_di weak o i c : DIx weak o c -> Live o -> DIx false (fst (error o i c)) (snd (error o i c)).
  Proof.
    intros [D P] Lv. split.
    2:{ unfold error. destruct (r_writer o) as [[w ws]|]; cbn [fst]; exact P. }
    pose proof D as [D1 D2 D3 D4 D5 D6 D7 D8]. unfold error, Live in *.
    destruct (r_writer o) as [[w ws]|] eqn:Ew; cbn [fst snd].
    - destruct ws; try contradiction.
      destruct (opened_phase weak o c w D Ew) as (acc & Hr).
      constructor; unfold MetaOk, BlkOk, WrX, clear_bufs, set_wstate, set_state; prj; rewrite ?Ew.
      + exact D1.
      + destruct D2 as [(_ & _ & _ & _ & A)|D2]; [congruence|]. right. exact D2.
      + exact D3.
      + constructor.
      + intros H. specialize (D5 H). congruence.
      + exact D6.
      + intros Hst j. destruct j; apply (X_new Hst).
      + exists PhDone. rewrite calls_snoc, calls_of_single.
        destruct i; cbn [ev_call]; rewrite wid_eqb_refl, (s_run_snoc _ _ _ _ _ _ Hr); reflexivity.
    - constructor; unfold MetaOk, BlkOk, WrX, clear_bufs, set_wstate, set_state; prj; rewrite ?Ew.
      + exact D1.
      + destruct D2 as [(A1 & A2 & A3 & A4 & A5)|D2]; [left; auto|right; exact D2].
      + exact D3.
      + constructor.
      + intros _. reflexivity.
      + exact D6.
      + intros Hst j. destruct j; apply (X_new Hst).
      + unfold WrX in D8. rewrite Ew in D8. exact D8.
  Qed.

  (* ---- init_blocks_partitioning ---- *)
  Lemma init_partition_di weak o c : DIc weak o c -> (0 < nb_block o -> Par o) -> DIx weak (init_partition o) c.
  Proof.
    intros D HP. unfold init_partition. destruct (N.ltb_spec 0 (nb_block o)) as [G|G]; [split; [exact D|exact (HP G)]|].
    assert (Hoff : r_off o = 0 /\ r_blocks o = []).
    { unfold nb_block in G. destruct (r_blocks o); [split; [lia|reflexivity]|cbn [length] in G; lia]. }
    destruct Hoff as [Hoff Hbl].
    destruct (r_oti o) as [ot|] eqn:Eo.
    2:{ split; [exact D|]. intros _ H. congruence. }
    destruct (d_meta _ _ _ D) as [(A & _)|(ot' & A & B & C)]; [congruence|]. rewrite C.
    assert (ot' = ot) by congruence. subst ot'.
    destruct (block_partitioning (ro_b ot) L (ro_e ot)) as [[[al' as'] nal'] n'] eqn:Ep.
    pose proof D as [D1 D2 D3 D4 D5 D6 D7 D8].
    split.
    - constructor; unfold MetaOk, BlkOk, WrX; prj; try assumption.
      + right. exists ot. auto.
      + intros Hst j. rewrite nth_repeat. apply (X_new Hst).
    - intros Hst _. prj. rewrite (B Hst) in Ep. rewrite (Hs Hst) in Ep. inversion Ep. auto.
  Qed.

  (* ---- init_object_writer ---- *)
  Lemma builder_calls w c t a : calls_of w (c_log (inc_calls (logc c (EvBuilder t a)) t)) = calls_of w (c_log c).
  Proof. cbn [inc_calls logc c_log]. rewrite calls_of_app. cbn. apply app_nil_r. Qed.

  Lemma init_writer_di o c : Pre o c -> DIx false o c ->
    DIx false (fst (init_writer E o c)) (snd (init_writer E o c)).
  Proof.
    intros Pc [D P]. unfold init_writer.
    destruct (r_writer o) as [x|] eqn:Ew; [split; assumption|].
    destruct (r_fdt_id o) as [fid|] eqn:Ef; [|split; assumption].
    destruct (r_cenc o) as [ce|] eqn:Ec; [|split; assumption].
    destruct (r_tlen o) as [tl|] eqn:Et; [|split; assumption].
    destruct (r_oti o) as [ot|] eqn:Eo; [|split; assumption].
    cbv zeta.
    pose proof D as [D1 D2 D3 D4 D5 D6 D7 D8].
    assert (Hce : ce = CNull) by (destruct D3 as [A|A]; congruence).
    assert (Htl : tl = L) by (destruct D2 as [(A & _)|(ot' & _ & _ & A)]; congruence).
    subst ce tl. rewrite D1.
    set (n0 := ncalls c toi).
    assert (C1 : forall a w', calls_of w' (c_log (inc_calls (logc c (EvBuilder toi a)) toi)) = calls_of w' (c_log c))
      by (intros; apply builder_calls).
    unfold WrX in D8. rewrite Ew in D8. destruct D8 as [Hbw Hoff].
    destruct (e_builder E toi n0) eqn:Eb.
    - (* WStore *)
      set (w := (toi, n0)).
      set (c1 := inc_calls (logc c (EvBuilder toi WStore)) toi) in *.
      assert (Cw : calls_of w (c_log c) = []).
      { destruct Pc as (_ & _ & F). apply F. unfold w, n0. cbn [fst snd]. lia. }
      destruct (e_open_ok E w) eqn:Eop; cbn [negb].
      + destruct (N.eqb_spec L 0) as [G|_]; [lia|]. cbn [fst snd].
        split; [|eapply Par_upd; [| | | |exact P]; prj; first [reflexivity|congruence]].
        constructor; unfold MetaOk, BlkOk, WrX; prj; rewrite ?Eo, ?Et; try assumption; try reflexivity.
        * right. destruct D2 as [(A & _)|D2]; [congruence|]. rewrite Eo, Et in D2. exact D2.
        * right. reflexivity.
        * intros H. discriminate.
        * intros Hst _. apply D6; [exact Hst|rewrite Ef; discriminate].
        * eexists. split; [reflexivity|]. split.
          -- rewrite calls_snoc. unfold c1. rewrite C1, Cw, calls_of_single. cbn [ev_call]. rewrite wid_eqb_refl. reflexivity.
          -- unfold BwGood. prj. destruct (bool_cases strict) as [Hst|Hst]; rewrite Hst.
             ++ rewrite Hoff. apply (X_bw0 Hst).
             ++ cbn [bw_new bw_sbn bw_left bw_cenc bw_acc bw_md5 bw_md5ctx length]. unfold lenN_. cbn [length].
                assert (Hm5 : r_md5 o = Some (e_md5 E content)) by (apply D6; [exact Hst|rewrite Ef; discriminate]).
                rewrite Hm5. destruct (Hm Hst) as [Hen _]. repeat split; try reflexivity; try assumption.
      + (* open() failed *)
        unfold error. prj. cbn [fst snd].
        split; [|eapply Par_upd; [| | | |exact P]; unfold clear_bufs, set_wstate, set_state; prj; first [reflexivity|congruence]].
        constructor; unfold MetaOk, BlkOk, WrX, clear_bufs, set_wstate, set_state; prj; rewrite ?Eo, ?Et; try assumption; try reflexivity.
        * right. destruct D2 as [(A & _)|D2]; [congruence|]. rewrite Eo, Et in D2. exact D2.
        * right. reflexivity.
        * constructor.
        * intros H. discriminate.
        * intros Hst _. apply D6; [exact Hst|rewrite Ef; discriminate].
        * intros Hst j. destruct j; apply (X_new Hst).
        * exists PhDone. rewrite !calls_snoc. unfold c1. rewrite C1, Cw, !calls_of_single. cbn [ev_call]. rewrite wid_eqb_refl. reflexivity.
    - cbn [fst snd]. split; [|exact P]. apply (DIc_upd false o c); try reflexivity; [exact D|]. intros w ws _. apply C1.
    - cbn [fst snd]. split; [|exact P]. apply (DIc_upd false o c); try reflexivity; [exact D|]. intros w ws _. apply C1.
  Qed.

  (* ---- write_blocks ---- *)
  Definition DIR (rc : res * ctx) : Prop :=
    match fst rc with ROk o' => DIx false o' (snd rc) | RErr o' => DIx true o' (snd rc) end.
  Lemma DIR_ok o c : DIx false o c -> DIR (ROk o, c).
  Proof. intros H; exact H. Qed.
  Lemma DIR_err weak o c : DIx weak o c -> DIR (RErr o, c).
  Proof. intros H. unfold DIR. cbn [fst snd]. eapply DIx_weaken. exact H. Qed.

  Lemma write_calls w c d ok :
    calls_of w (c_log (inc_wcount (logc c (EvWrite w d ok)) w)) = calls_of w (c_log c) ++ [CallWrite d ok].
  Proof.
    change (c_log (inc_wcount (logc c (EvWrite w d ok)) w)) with (c_log (logc c (EvWrite w d ok))).
    rewrite calls_snoc, calls_of_single. cbn [ev_call]. rewrite wid_eqb_refl. reflexivity.
  Qed.

  (* the writer's log moved on, the object did not (a failed write): error() follows *)
  Lemma DIx_weak_log weak o c c' w :
    DIx weak o c -> r_writer o = Some (w, WOpened) ->
    (exists acc, srun (calls_of w (c_log c')) = Some (PhOpened acc)) -> DIx true o c'.
  Proof.
    intros [[D1 D2 D3 D4 D5 D6 D7 D8] P] Ew Hr. split; [|exact P]. constructor; try assumption.
    unfold WrX. rewrite Ew. exact Hr.
  Qed.

  (* after a successful write: the window moved, the log has one more write *)
  Lemma DIx_written weak o c o1 c1 w :
    DIx weak o c -> r_writer o = Some (w, WOpened) ->
    r_toi o1 = r_toi o -> r_oti o1 = r_oti o -> r_tlen o1 = r_tlen o -> r_writer o1 = r_writer o -> r_cenc o1 = r_cenc o ->
    r_cache o1 = r_cache o -> r_fdt_id o1 = r_fdt_id o -> r_md5 o1 = r_md5 o ->
    r_al o1 = r_al o -> r_as o1 = r_as o -> r_nal o1 = r_nal o ->
    BlkOk o1 -> (exists acc, srun (calls_of w (c_log c1)) = Some (PhOpened acc)) -> DIx true o1 c1.
  Proof.
    intros [[D1 D2 D3 D4 D5 D6 D7 D8] P] Ew E1 E2 E3 E4 E5 E6 E7 E8 E9 E10 E11 HB Hr.
    split; [|eapply Par_upd; [| | | |exact P]; assumption].
    constructor; unfold MetaOk; rewrite ?E1, ?E2, ?E3, ?E4, ?E5, ?E6, ?E7, ?E8; try assumption.
    - destruct D2 as [(_ & _ & _ & _ & A)|D2]; [congruence|]. right. exact D2.
    - unfold WrX. rewrite E4, Ew. exact Hr.
  Qed.

  Lemma complete_di o c w :
    DIx true o c -> r_writer o = Some (w, WOpened) -> srun (calls_of w (c_log c)) = Some (PhOpened content) ->
    DIx false (fst (complete o c)) (snd (complete o c)).
  Proof.
    intros [D P] Ew Hr. unfold complete. rewrite Ew. cbn [fst snd]. split; [|exact P].
    pose proof D as [D1 D2 D3 D4 D5 D6 D7 D8].
    constructor; unfold MetaOk, BlkOk, WrX, clear_bufs, set_wstate, set_state; prj; rewrite ?Ew; try assumption.
    - destruct D2 as [(_ & _ & _ & _ & A)|D2]; [congruence|]. right. exact D2.
    - constructor.
    - intros H. specialize (D5 H). congruence.
    - intros Hst j. destruct j; apply (X_new Hst).
    - exists PhDone. rewrite calls_snoc, calls_of_single. cbn [ev_call].
      rewrite wid_eqb_refl, (s_run_snoc _ _ _ _ _ _ Hr). cbn [s_step]. rewrite eqb_bytes_refl. reflexivity.
  Qed.

  Lemma write_blocks_di : forall fuel sbn o c, Pre o c -> DIx false o c -> DIR (write_blocks E fuel sbn o c).
  Proof.
    induction fuel as [|f IH]; intros sbn o c Pc D; cbn [write_blocks]; [exact D|].
    destruct (r_writer o) as [[w ws]|] eqn:Ew; [|exact D].
    destruct ws; try exact D.
    destruct (r_bw o) as [bw|] eqn:Ebw; [|exact D].
    destruct ((r_off o <=? sbn) && (sbn - r_off o <? N.of_nat (length (r_blocks o)))) eqn:Rg; [|exact D].
    set (b := nth (N.to_nat (sbn - r_off o)) (r_blocks o) bdec_new).
    destruct (bd_completed b) eqn:Hc; cbn [negb]; [|exact D].
    pose proof D as [Dc P]. pose proof (d_wr _ _ _ Dc) as W. unfold WrX in W. rewrite Ew in W.
    destruct W as (bw0 & Hb0 & Hrun & HB). rewrite Ebw in Hb0. inversion Hb0; subst bw0. clear Hb0.
    assert (Hoti : r_oti o <> None) by (apply (writer_has_oti false o c Dc); rewrite Ew; discriminate).
    (* successors of a write: Pre from the C09 relation *)
    assert (X1 : forall d o', r_toi o' = r_toi o -> r_writer o' = r_writer o -> Pre o' (snd (do_write E w d c))).
    { intros d o' T1 T2. eapply e_pre. eapply (Ext_bw E o c o' w); [exact Pc|exact T1|exact Ew|exact T2|].
      right. exists d. reflexivity. }
    unfold BwGood in HB.
    destruct (bool_cases strict) as [Hst|Hst]; rewrite Hst in HB.
    - (* genuine packets: the block of the window front, written as the next slice of the content *)
      destruct HB as [BW Hoff].
      destruct (X_sbn Hst _ _ BW) as [Hsbn Hacc].
      destruct (N.eqb_spec (bw_sbn bw) sbn) as [Heq|Hne].
      2:{ assert (R : bw_write E w sbn b bw c = (BwNotMine, c)).
          { unfold bw_write. destruct (N.eqb_spec (bw_sbn bw) sbn); [contradiction|reflexivity]. }
          rewrite R. exact D. }
      assert (Hs0 : sbn = r_off o) by congruence. clear Heq. subst sbn.
      assert (Hb0 : b = nth 0 (r_blocks o) bdec_new) by (unfold b; f_equal; lia).
      clearbody b. subst b. set (b := nth 0 (r_blocks o) bdec_new) in *.
      replace (N.to_nat (r_off o - r_off o)) with 0%nat by lia.
      assert (BI : BIn (r_off o) b).
      { apply (X_done Hst); [|exact Hc]. pose proof (d_blk _ _ _ Dc Hst 0%nat) as B0. fold b in B0.
        replace (r_off o + N.of_nat 0) with (r_off o) in B0 by lia. exact B0. }
      destruct (X_write Hst w (r_off o) b bw c BW BI Hc Hoff) as (bw' & Hw & Hstep & Hleft & HleL & Hnz).
      cbv zeta in Hw. rewrite Hw.
      set (blk := blkb (r_off o)) in *.
      specialize (X1 blk). unfold do_write in X1. cbn [snd] in X1.
      set (ok := e_write_ok E w (wcount c w)) in *.
      set (c1 := inc_wcount (logc c (EvWrite w blk ok)) w) in *.
      assert (Hrun1 : srun (calls_of w (c_log c1)) = Some (PhOpened (take (bof (r_off o + 1)) content))).
      { unfold c1. rewrite write_calls, (s_run_snoc _ _ _ _ _ _ Hrun). cbn [s_step].
        rewrite Hacc, Hstep. rewrite is_prefix_take. cbn [negb]. rewrite andb_false_r. reflexivity. }
      destruct ok.
      2:{ apply (DIR_err true). eapply DIx_weak_log; [exact D|exact Ew|eexists; exact Hrun1]. }
      cbn [Nat.eqb]. cbv beta iota zeta.
      set (o1 := set_blocks o (tl (r_blocks o)) (r_off o + 1) (r_nb_alloc o - 1) (r_alloc_size o - bd_size b) (Some bw')).
      assert (P1 : Pre o1 c1) by (apply X1; reflexivity).
      assert (Blk1 : strict = true -> forall i, BOk (r_off o1 + N.of_nat i) (nth i (r_blocks o1) bdec_new)).
      { intros _ i. unfold o1, set_blocks; prj. rewrite nth_tl.
        replace (r_off o + 1 + N.of_nat i) with (r_off o + N.of_nat (S i)) by lia. apply (d_blk _ _ _ Dc Hst). }
      assert (Dw : DIx true o1 c1).
      { apply (DIx_written false o c o1 c1 w D Ew); try reflexivity; [exact Blk1|eexists; exact Hrun1]. }
      destruct (N.eqb_spec (bw_left bw') 0) as [Z|NZ].
      + (* the last block *)
        assert (HbL : bof (r_off o + 1) = L) by lia.
        rewrite HbL, take_all in Hrun1 by lia.
        destruct (match r_md5 o1, bw_md5 bw' with Some want, Some got => eqb_bytes want got | _, _ => true end).
        * pose proof (complete_di o1 c1 w Dw Ew Hrun1) as K. destruct (complete o1 c1) as [o2 c2]. exact K.
        * pose proof (error_di true o1 false c1 Dw ltac:(unfold Live, o1, set_blocks; prj; rewrite Ew; exact I)) as K.
          destruct (error o1 false c1) as [o2 c2]. exact K.
      + destruct (Hnz NZ) as [Hn BWn].
        change (r_off o + 1) with (r_off o1). apply IH; [exact P1|].
        destruct Dw as [Dw _]. split; [|exact P]. pose proof Dw as [D1 D2 D3 D4 D5 D6 D7 D8].
        constructor; try assumption. unfold WrX. change (r_writer o1) with (r_writer o). rewrite Ew.
        exists bw'. split; [reflexivity|].
        split; [rewrite (proj2 (X_sbn Hst _ _ BWn)); exact Hrun1|].
        unfold BwGood. rewrite Hst. split; [exact BWn|exact Hn].
    - (* arbitrary bytes, guarded by the MD5 of the FDT entry *)
      destruct (Hm Hst) as [Hen Hinj]. destruct HB as (B1 & B2 & B3 & B4 & B5 & B6).
      unfold bw_write. destruct (negb (bw_sbn bw =? sbn)); [exact D|].
      destruct (bd_data b) as [data0|] eqn:Ed; [|apply (DIR_err false); exact D].
      cbv zeta.
      set (data := if lenN_ data0 <? bw_left bw then data0 else firstn (N.to_nat (bw_left bw)) data0).
      assert (Hlen : lenN_ data <= bw_left bw).
      { unfold data. destruct (N.ltb_spec (lenN_ data0) (bw_left bw)); [lia|]. unfold lenN_. rewrite firstn_length. lia. }
      rewrite B1. specialize (X1 data). unfold do_write in *. cbn [snd] in X1.
      set (ok := e_write_ok E w (wcount c w)) in *.
      set (c1 := inc_wcount (logc c (EvWrite w data ok)) w) in *.
      assert (Hrun1 : srun (calls_of w (c_log c1)) = Some (PhOpened (bw_acc bw ++ data))).
      { unfold c1. rewrite write_calls, (s_run_snoc _ _ _ _ _ _ Hrun). cbn [s_step]. rewrite Hst. reflexivity. }
      destruct ok.
      2:{ apply (DIR_err true). eapply DIx_weak_log; [exact D|exact Ew|eexists; exact Hrun1]. }
      set (left := bw_left bw - lenN_ data) in *.
      rewrite B5. cbn [andb]. rewrite andb_true_r.
      set (bw' := mk_bw _ _ _ _ _ _ _ _ _).
      assert (HL' : lenN_ (bw_acc bw ++ data) + left = L) by (rewrite lenN_app; unfold left; lia).
      destruct (Nat.eqb (N.to_nat (sbn - r_off o)) 0); cbv beta iota zeta;
      match goal with |- context [set_blocks o ?a ?b0 ?d ?e ?g] => set (o1 := set_blocks o a b0 d e g) end;
      (assert (P1 : Pre o1 c1) by (apply X1; reflexivity));
      (assert (Dw : DIx true o1 c1) by
         (apply (DIx_written false o c o1 c1 w D Ew); try reflexivity; [intros G; congruence|eexists; exact Hrun1]));
      change (bw_left bw') with left;
      (destruct (N.eqb_spec left 0) as [Z|NZ];
       [ (* all the announced bytes have been written: the digest decides *)
         change (r_md5 o1) with (r_md5 o); rewrite B6; cbn [bw_md5 bw'];
         destruct (eqb_bytes (e_md5 E content) (e_md5 E (bw_acc bw ++ data))) eqn:V;
         [ apply eqb_bytes_eq in V;
           assert (Hct : bw_acc bw ++ data = content) by (apply Hinj; [lia|congruence]);
           rewrite Hct in Hrun1;
           pose proof (complete_di o1 c1 w Dw Ew Hrun1) as K; destruct (complete o1 c1) as [o2 c2]; exact K
         | pose proof (error_di true o1 false c1 Dw ltac:(unfold Live, o1, set_blocks; prj; rewrite Ew; exact I)) as K;
           destruct (error o1 false c1) as [o2 c2]; exact K ]
       | apply IH; [exact P1|];
         destruct Dw as [Dw _]; split; [|exact P]; pose proof Dw as [D1 D2 D3 D4 D5 D6 D7 D8];
         constructor; try assumption; unfold WrX; change (r_writer o1) with (r_writer o); rewrite Ew;
         exists bw'; split; [reflexivity|]; split; [exact Hrun1|];
         unfold BwGood; rewrite Hst; cbn [bw' bw_cenc bw_md5 bw_acc bw_left bw_md5ctx];
         destruct (N.eqb_spec left 0) as [Z'|_]; [contradiction|]; cbn [andb negb];
         repeat split; try assumption; try reflexivity; lia ]).
  Qed.

  (* ---- push_to_block2 / push_to_block ---- *)
  Lemma pre_same o c o' c' : Pre o c -> Live o -> r_toi o' = r_toi o -> r_writer o' = r_writer o ->
    c_next c' = c_next c -> c_log c' = c_log c -> Pre o' c'.
  Proof.
    intros Pc Lv T W Hn Hl. eapply e_pre. apply (Ext_upd o c o' c'); try assumption.
    left. unfold Live in *. rewrite W. exact Lv.
  Qed.

  Lemma p2b_di p o c : Pre o c -> DIx false o c -> Live o -> GoodP p -> DIR (push_to_block2 E p o c).
  Proof.
    intros Pc D Lv (Gt & Gx & Gg). pose proof D as [Dc P].
    (* an object that differs from o by its state, window content and accounting only *)
    assert (Upd : forall st bl nb sz (pan : bool), r_oti o <> None ->
              (strict = true -> BlkAll o bl) ->
              DIx false (oupd o st bl nb sz) (if pan then panicc c else c)
              /\ (st = r_state o -> Pre (oupd o st bl nb sz) (if pan then panicc c else c))).
    { intros st bl nb sz pan Hoti HB.
      assert (Hc1 : c_next (if pan then panicc c else c) = c_next c /\ c_log (if pan then panicc c else c) = c_log c)
        by (destruct pan; split; reflexivity).
      split.
      - apply (DIx_ceq false _ c); [apply Hc1|]. apply (DIx_blocks false o c _ D Hoti); try reflexivity. exact HB.
      - intros _. apply (pre_same o c); [exact Pc|exact Lv|reflexivity|reflexivity|apply Hc1|apply Hc1]. }
    destruct (bool_cases strict) as [Hst|Hst].
    - (* genuine packet: the scheme's analysis of push_to_block2 *)
      destruct (r_oti o) as [ot|] eqn:Eo.
      2:{ unfold push_to_block2. rewrite Eo. apply (DIR_err false). apply (DIx_ceq false o c); [reflexivity|exact D]. }
      assert (Hoti : r_oti o <> None) by congruence.
      destruct (d_meta _ _ _ Dc) as [(A & _)|(ot' & A & B & C)]; [congruence|].
      assert (ot' = ot) by congruence. subst ot'. assert (ot = oti) by (apply B; exact Hst). subst ot.
      destruct (P Hst Hoti) as (Pa & Pb & Pn).
      pose proof (X_p2b Hst p o c (Gg Hst) (d_toi _ _ _ Dc) Eo C Pa Pb Pn (d_blk _ _ _ Dc Hst)) as K.
      destruct K as [[-> | ->]|[(st & bl & nb & sz & pan & iserr & HB & ->)|(bl & nb & sz & pan & fuel & sbn & HB & ->)]].
      + exact D.
      + apply (DIR_err false). exact D.
      + destruct (Upd st bl nb sz pan ltac:(discriminate) (fun _ => HB)) as [U _].
        destruct iserr; [apply (DIR_err false); exact U|exact U].
      + destruct (Upd (r_state o) bl nb sz pan ltac:(discriminate) (fun _ => HB)) as [U UP].
        apply write_blocks_di; [exact (UP eq_refl)|exact U].
    - (* arbitrary packet: nothing but the log and the block writer matters *)
      assert (Vac : forall bl, strict = true -> BlkAll o bl) by (intros bl G; congruence).
      unfold push_to_block2.
      destruct (r_oti o) as [ot|] eqn:Eo.
      2:{ apply (DIR_err false). apply (DIx_ceq false o c); [reflexivity|exact D]. }
      assert (Hoti : r_oti o <> None) by congruence.
      destruct (d_meta _ _ _ Dc) as [(A & _)|(ot' & A & B & C)]; [congruence|].
      assert (ot' = ot) by congruence. subst ot'. rewrite C.
      destruct (a_pid_with (ro_fec ot) p) as [[[sbn esi] sbl]|]; [|apply (DIR_err false); exact D].
      destruct (N.eqb_spec L 0) as [G|_]; [lia|].
      destruct (sbn <? r_off o); [exact D|].
      destruct (match sbl with None => nb_blocks_of ot L <=? sbn | Some _ => false end); [apply (DIR_err false); exact D|].
      destruct ((N.of_nat (length (r_blocks o)) <=? sbn - r_off o) && (4096 <? sbn - r_off o)).
      { apply (DIR_err false). exact (proj1 (Upd Errored (r_blocks o) (r_nb_alloc o) (r_alloc_size o) false ltac:(discriminate) (Vac _))). }
      cbv zeta.
      match goal with |- context [bd_completed ?b] => destruct (bd_completed b) end.
      { apply DIR_ok. match goal with |- DIx _ (set_blocks o ?bl _ ?nb ?sz _) _ =>
          exact (proj1 (Upd (r_state o) bl nb sz false ltac:(discriminate) (Vac _))) end. }
      match goal with |- context [match ?x with None => _ | Some _ => _ end] =>
        destruct x as [[[[b1 nb] sz]|]|] end.
      + destruct (bd_push E (r_toi o) ot sbn esi (a_payload p) b1) as [b2 pan].
        match goal with |- context [upd_nthb ?i ?f ?l] => set (bl1 := upd_nthb i f l) end.
        destruct (Upd (r_state o) bl1 nb sz pan ltac:(discriminate) (Vac _)) as [U UP].
        destruct (bd_completed b2); [|exact U].
        apply write_blocks_di; [exact (UP eq_refl)|exact U].
      + apply (DIR_err false). match goal with |- DIx _ (set_state (set_blocks o ?bl _ ?nb ?sz _) _) _ =>
          exact (proj1 (Upd Errored bl nb sz false ltac:(discriminate) (Vac _))) end.
      + apply (DIR_err false). match goal with |- DIx _ (set_blocks o ?bl _ ?nb ?sz _) _ =>
          exact (proj1 (Upd (r_state o) bl nb sz true ltac:(discriminate) (Vac _))) end.
  Qed.

  Lemma ptb_di p o c : Pre o c -> DIx false o c -> Live o -> GoodP p -> DIR (push_to_block E p o c).
  Proof.
    intros Pc D Lv G. unfold push_to_block.
    pose proof (p2b_di p o c Pc D Lv G) as K. destruct (push_to_block2_ext E p o c Pc Lv) as [X XL].
    destruct (push_to_block2 E p o c) as [[o1|o1] c1]; cbn [fst snd res_obj] in *; [|exact K].
    destruct (a_close_obj p); [|exact K].
    destruct (r_state o1) eqn:Es; try exact K.
    destruct (r_writer o1) as [wr|] eqn:Ewr; [|exact K].
    assert (L1 : Live o1) by (apply Quiet_recv; [exact (proj1 (e_pre _ _ _ _ X))|exact Es]).
    pose proof (error_di false o1 true c1 K L1) as K2. destruct (error o1 true c1) as [o2 c2]. exact K2.
  Qed.

  (* ---- the packet cache ---- *)
  Lemma DIx_cache weak o c o' :
    DIx weak o c ->
    r_toi o' = r_toi o -> r_oti o' = r_oti o -> r_tlen o' = r_tlen o -> r_blocks o' = r_blocks o -> r_off o' = r_off o ->
    r_writer o' = r_writer o -> r_cenc o' = r_cenc o -> r_fdt_id o' = r_fdt_id o ->
    r_md5 o' = r_md5 o -> r_bw o' = r_bw o -> r_al o' = r_al o -> r_as o' = r_as o -> r_nal o' = r_nal o ->
    Forall GoodP (r_cache o') -> DIx weak o' c.
  Proof.
    intros [[D1 D2 D3 D4 D5 D6 D7 D8] P] E1 E2 E3 E4 E5 E6 E7 E9 E10 E11 E12 E13 E14 HC.
    split; [|eapply Par_upd; [| | | |exact P]; assumption].
    constructor; unfold MetaOk, BlkOk in *; rewrite ?E1, ?E2, ?E3, ?E4, ?E5, ?E6, ?E7, ?E9, ?E10; try assumption.
    eapply WrX_upd; [| | | | |exact D8]; try assumption. reflexivity.
  Qed.

  Lemma drain_di : forall cache o c, Pre o c -> DIx false o c -> (cache <> [] -> Live o) -> Forall GoodP cache ->
    DIx false (fst (drain_cache E cache o c)) (snd (drain_cache E cache o c)).
  Proof.
    induction cache as [|p rest IH]; intros o c Pc D H F; cbn [drain_cache]; [exact D|].
    assert (Lv : Live o) by (apply H; discriminate).
    inversion F as [|? ? Fp Fr]; subst.
    match goal with |- context [push_to_block E p ?x c] => set (o0 := x) end.
    assert (D0 : DIx false o0 c).
    { apply (DIx_cache false o c o0 D); try reflexivity. unfold o0; prj. exact Fr. }
    assert (P0 : Pre o0 c) by (apply (pre_same o c); try assumption; reflexivity).
    assert (L0 : Live o0) by exact Lv.
    pose proof (ptb_di p o0 c P0 D0 L0 Fp) as K.
    destruct (push_to_block_ext E p o0 c P0 L0) as [X XL].
    destruct (push_to_block E p o0 c) as [[o1|o1] c1]; cbn [fst snd res_obj is_err] in *.
    - destruct (r_cache o1) as [|x xs] eqn:Ec; [exact K|].
      apply IH; [exact (e_pre _ _ _ _ X)|exact K| |exact Fr].
      intros _. apply Quiet_cache; [exact (proj1 (e_pre _ _ _ _ X))|rewrite Ec; discriminate].
    - pose proof (error_di true o1 false c1 K (XL eq_refl)) as K2. destruct (error o1 false c1) as [o2 c2]. exact K2.
  Qed.

  Lemma pfc_di o c : Pre o c -> DIx false o c ->
    DIx false (fst (push_from_cache E o c)) (snd (push_from_cache E o c)).
  Proof.
    intros Pc D. unfold push_from_cache. destruct (cache_replay_blocked o); [exact D|].
    assert (H : r_cache o <> [] -> Live o).
    { intros H. apply Quiet_cache; [exact (proj1 Pc)|exact H]. }
    pose proof (drain_di (r_cache o) o c Pc D H (d_cache _ _ _ (proj1 D))) as K.
    destruct (drain_cache E (r_cache o) o c) as [o1 c1]. cbn [fst snd] in *.
    destruct K as [K KP]. split; [|exact KP]. apply (DIc_upd false o1 c1); try reflexivity. exact K.
  Qed.

  (* ---- ObjectReceiver::push ---- *)
  Lemma DIc_meta o c st' oti' tl' ce' fid' :
    DIx false o c -> fid' = r_fdt_id o -> (ce' = None \/ ce' = Some CNull) ->
    ((oti' = r_oti o /\ tl' = r_tlen o)
     \/ (r_oti o = None /\ exists ot, oti' = Some ot /\ (strict = true -> ot = oti) /\ tl' = Some L)) ->
    let o1 := mk_or st' (r_toi o) oti' (r_cache o) (r_cache_size o) (r_max o) (r_blocks o) (r_off o)
                    tl' ce' (r_md5 o) (r_md5chk o) (r_al o) (r_as o) (r_nal o) (r_writer o) (r_bw o) fid'
                    (r_nb_alloc o) (r_alloc_size o) (r_clen o) (r_nocache o) in
    DIc false o1 c /\ (0 < nb_block o1 -> Par o1).
  Proof.
    intros [[D1 D2 D3 D4 D5 D6 D7 D8] P] -> Hce Hm' o1. split.
    - constructor; unfold MetaOk, BlkOk, WrX in *; unfold o1; prj; try assumption.
      destruct Hm' as [[-> ->]|(Ho & ot & -> & Hot & ->)]; [exact D2|]. right. exists ot. auto.
    - intros Hnb. destruct Hm' as [[-> ->]|(Ho & ot & -> & Hot & ->)]; [exact P|].
      exfalso. destruct D2 as [(_ & _ & A & B & _)|(x & C & _)]; [|congruence].
      unfold nb_block, o1 in Hnb; prj. rewrite A, B in Hnb. cbn [length] in Hnb. lia.
  Qed.

  Theorem or_push_di p o c : Pre o c -> DIx false o c -> GoodP p ->
    DIx false (fst (or_push E p o c)) (snd (or_push E p o c)).
  Proof.
    intros Pc D G. pose proof G as (Gt & (Gx1 & Gx2) & Gg). pose proof D as [Dc P].
    unfold or_push. destruct (r_state o) eqn:Es; try exact D.
    assert (Lv : Live o) by (apply Quiet_recv; [exact (proj1 Pc)|exact Es]).
    assert (G0 : forall o1, DIc false o1 c /\ (0 < nb_block o1 -> Par o1) -> Pre o1 c ->
      let x := (let o2 := init_partition o1 in
                let (o3, c3) := init_writer E o2 c in
                match r_state o3 with
                | Receiving =>
                  let (o4, c4) := push_from_cache E o3 c3 in
                  match r_state o4 with
                  | Receiving =>
                    match r_oti o4 with
                    | None =>
                      if r_max o4 <=? r_cache_size o4 then error o4 false c4
                      else (mk_or (r_state o4) (r_toi o4) (r_oti o4) (r_cache o4 ++ [p]) (r_cache_size o4 + a_datalen p) (r_max o4) (r_blocks o4)
                                  (r_off o4) (r_tlen o4) (r_cenc o4) (r_md5 o4) (r_md5chk o4) (r_al o4) (r_as o4) (r_nal o4)
                                  (r_writer o4) (r_bw o4) (r_fdt_id o4) (r_nb_alloc o4) (r_alloc_size o4) (r_clen o4) (r_nocache o4), c4)
                    | Some _ =>
                      match push_to_block E p o4 c4 with
                      | (ROk o5, c5) => (o5, c5)
                      | (RErr o5, c5) => error o5 false c5
                      end
                    end
                  | _ => (o4, c4)
                  end
                | _ => (o3, c3)
                end) in DIx false (fst x) (snd x)).
    { intros o1 [Dc1 Pn1] P1. cbv zeta.
      pose proof (init_partition_di false o1 c Dc1 Pn1) as D2.
      pose proof (init_partition_ext o1 c P1) as X2. set (o2 := init_partition o1) in *.
      pose proof (init_writer_di o2 c (e_pre _ _ _ _ X2) D2) as D3.
      pose proof (init_writer_ext E o2 c (e_pre _ _ _ _ X2)) as X3. unfold ExtP in X3.
      destruct (init_writer E o2 c) as [o3 c3]. cbn [fst snd] in D3, X3.
      destruct (r_state o3) eqn:Es3; cbn [fst snd]; try exact D3.
      pose proof (pfc_di o3 c3 (e_pre _ _ _ _ X3) D3) as D4.
      pose proof (push_from_cache_ext E o3 c3 (e_pre _ _ _ _ X3)) as X4. unfold ExtP in X4.
      destruct (push_from_cache E o3 c3) as [o4 c4]. cbn [fst snd] in D4, X4.
      pose proof (e_pre _ _ _ _ X4) as P4.
      destruct (r_state o4) eqn:Es4; cbn [fst snd]; try exact D4.
      assert (L4 : Live o4) by (apply Quiet_recv; [exact (proj1 P4)|exact Es4]).
      destruct (r_oti o4) eqn:Eo4.
      - pose proof (ptb_di p o4 c4 P4 D4 L4 G) as K.
        destruct (push_to_block_ext E p o4 c4 P4 L4) as [X5 XL].
        destruct (push_to_block E p o4 c4) as [[o5|o5] c5]; cbn [fst snd res_obj is_err] in *; [exact K|].
        apply (error_di true o5 false c5 K (XL eq_refl)).
      - destruct (r_max o4 <=? r_cache_size o4); [apply (error_di false); assumption|]. cbn [fst snd].
        apply (DIx_cache false o4 c4 _ D4); try reflexivity; try (symmetry; exact Eo4). prj.
        apply Forall_app. split; [exact (d_cache _ _ _ (proj1 D4))|constructor; [exact G|constructor]]. }
    cbv zeta in G0.
    assert (Hfid : match r_fdt_id o with Some x => Some x | None => if a_toi p =? 0 then a_fdt_id p else None end = r_fdt_id o).
    { destruct (r_fdt_id o); [reflexivity|]. rewrite Gt. destruct (N.eqb_spec toi 0); [contradiction|reflexivity]. }
    assert (Hce : let ce := match r_cenc o with
                            | Some x => Some x
                            | None => match a_cenc p with Some x => Some x | None => if r_toi o =? 0 then Some CNull else None end
                            end in ce = None \/ ce = Some CNull).
    { cbv zeta. destruct (r_cenc o) as [x|] eqn:Ec; [rewrite <- Ec; exact (d_cenc _ _ _ Dc)|].
      destruct Gx2 as [-> | ->]; [|right; reflexivity]. destruct (r_toi o =? 0); [right|left]; reflexivity. }
    cbv zeta in Hce.
    destruct (r_oti o) as [ot0|] eqn:Eo.
    - cbv beta iota zeta.
      match goal with |- context [init_partition ?x] => set (o1 := x) end.
      apply (G0 o1).
      + unfold o1. rewrite <- Eo. apply DIc_meta; [exact D|exact Hfid|exact Hce|]. left. split; reflexivity.
      + apply (pre_same o c); try assumption; reflexivity.
    - destruct (a_oti p) as [[ot l]|] eqn:Ea; cbv beta iota zeta;
      match goal with |- context [init_partition ?x] => set (o1 := x) end; apply (G0 o1).
      + destruct Gx1 as [Hl Hot]. destruct (d_meta _ _ _ Dc) as [(_ & A & _)|(x & C & _)]; [|congruence].
        unfold o1. rewrite A. apply DIc_meta; [exact D|exact Hfid|exact Hce|]. right. split; [exact Eo|]. exists ot. subst l. auto.
      + apply (pre_same o c); try assumption; reflexivity.
      + unfold o1. rewrite <- Eo. apply DIc_meta; [exact D|exact Hfid|exact Hce|]. left. split; reflexivity.
      + apply (pre_same o c); try assumption; reflexivity.
  Qed.

  (* ---- ObjectReceiver::attach_fdt ---- *)
  Lemma DIc_attach o c st' oti' tl' ce' md5' fid' clen' nc' :
    DIx false o c -> r_fdt_id o = None -> (ce' = None \/ ce' = Some CNull) ->
    ((oti' = r_oti o /\ tl' = r_tlen o)
     \/ (r_oti o = None /\ exists ot, oti' = Some ot /\ (strict = true -> ot = oti) /\ tl' = Some L)) ->
    (strict = false -> md5' = Some (e_md5 E content)) ->
    let o1 := mk_or st' (r_toi o) oti' (r_cache o) (r_cache_size o) (r_max o) (r_blocks o) (r_off o)
                    tl' ce' md5' (r_md5chk o) (r_al o) (r_as o) (r_nal o) (r_writer o) (r_bw o) (Some fid')
                    (r_nb_alloc o) (r_alloc_size o) clen' nc' in
    DIc false o1 c /\ (0 < nb_block o1 -> Par o1).
  Proof.
    intros [[D1 D2 D3 D4 D5 D6 D7 D8] P] Ef Hce Hm' Hmd o1. specialize (D5 Ef). split.
    - constructor; unfold MetaOk, BlkOk in *; unfold o1; prj; try assumption.
      + destruct Hm' as [[-> ->]|(Ho & ot & -> & Hot & ->)]; [exact D2|]. right. exists ot. auto.
      + intros H. discriminate.
      + intros Hst _. apply Hmd. exact Hst.
      + unfold WrX in *. prj. rewrite D5 in *. exact D8.
    - intros Hnb. destruct Hm' as [[-> ->]|(Ho & ot & -> & Hot & ->)]; [exact P|].
      exfalso. destruct D2 as [(_ & _ & A & B & _)|(x & C & _)]; [|congruence].
      unfold nb_block, o1 in Hnb; prj. rewrite A, B in Hnb. cbn [length] in Hnb. lia.
  Qed.

  (* D48: the object is not empty (0 < L): the early completion of attach_fdt is not taken *)
  Lemma d48_step_di weak o c : DIc weak o c -> d48_step o c = (o, c).
  Proof.
    intros D. destruct (d_meta _ _ _ D) as [(_ & A & _)|(x & _ & _ & C)].
    - unfold d48_step. rewrite A. reflexivity.
    - apply (d48_step_nonempty o c L C). lia.
  Qed.

  Theorem or_attach_di id i o c : Pre o c -> DIx false o c -> GoodI i ->
    DIx false (snd (fst (or_attach E id (fi_files i) (fi_oti i) o c))) (snd (or_attach E id (fi_files i) (fi_oti i) o c)).
  Proof.
    intros Pc D Gi. pose proof D as [Dc P]. unfold or_attach.
    destruct (r_fdt_id o) eqn:Ef; [exact D|].
    destruct (find (fun f => ff_toi f =? r_toi o) (fi_files i)) as [f|] eqn:Efind; [|exact D].
    rewrite (d_toi _ _ _ Dc) in Efind.
    destruct (Gi f Efind) as (F1 & F2 & F3 & F4).
    assert (G0 : forall o1, DIc false o1 c /\ (0 < nb_block o1 -> Par o1) -> Pre o1 c ->
      let x := (let o2 := init_partition o1 in
                let (o3a, c3a) := init_writer E o2 c in
                let (o3, c3) := d48_step o3a c3a in
                let (o4, c4) := push_from_cache E o3 c3 in
                let '(o5, c5) := match write_blocks E (S (length (r_blocks o4))) 0 o4 c4 with
                                 | (ROk x, cx) => (x, cx)
                                 | (RErr x, cx) => error x false cx
                                 end in
                let (o6, c6) := push_from_cache E o5 c5 in
                (true, o6, c6)) in DIx false (snd (fst x)) (snd x)).
    { intros o1 [Dc1 Pn1] P1. cbv zeta.
      pose proof (init_partition_di false o1 c Dc1 Pn1) as D2.
      pose proof (init_partition_ext o1 c P1) as X2. set (o2 := init_partition o1) in *.
      pose proof (init_writer_di o2 c (e_pre _ _ _ _ X2) D2) as D3.
      pose proof (init_writer_ext E o2 c (e_pre _ _ _ _ X2)) as X3. unfold ExtP in X3.
      destruct (init_writer E o2 c) as [o3 c3]. cbn [fst snd] in D3, X3.
      rewrite (d48_step_di false o3 c3 (proj1 D3)).
      pose proof (pfc_di o3 c3 (e_pre _ _ _ _ X3) D3) as D4.
      pose proof (push_from_cache_ext E o3 c3 (e_pre _ _ _ _ X3)) as X4. unfold ExtP in X4.
      destruct (push_from_cache E o3 c3) as [o4 c4]. cbn [fst snd] in D4, X4.
      pose proof (e_pre _ _ _ _ X4) as P4.
      pose proof (write_blocks_di (S (length (r_blocks o4))) 0 o4 c4 P4 D4) as K.
      destruct (write_blocks_ext E (S (length (r_blocks o4))) 0 o4 c4 P4) as [X5 XL].
      assert (K5 : exists o5 c5, (match write_blocks E (S (length (r_blocks o4))) 0 o4 c4 with
                                  | (ROk x, cx) => (x, cx)
                                  | (RErr x, cx) => error x false cx
                                  end) = (o5, c5) /\ DIx false o5 c5 /\ Pre o5 c5).
      { destruct (write_blocks E (S (length (r_blocks o4))) 0 o4 c4) as [[o5|o5] c5]; cbn [fst snd res_obj is_err] in *.
        - exists o5, c5. split; [reflexivity|]. split; [exact K|exact (e_pre _ _ _ _ X5)].
        - pose proof (error_di true o5 false c5 K (XL eq_refl)) as K2.
          pose proof (Ext_error o5 false c5 (e_pre _ _ _ _ X5) (XL eq_refl)) as X6.
          destruct (error o5 false c5) as [o6 c6]. exists o6, c6. split; [reflexivity|]. split; [exact K2|exact (e_pre _ _ _ _ X6)]. }
      destruct K5 as (o5 & c5 & -> & D5 & P5).
      pose proof (pfc_di o5 c5 P5 D5) as D6. destruct (push_from_cache E o5 c5) as [o6 c6]. exact D6. }
    cbv zeta in G0.
    assert (Hce : let ce := match r_cenc o with Some x => Some x | None => Some (ff_cenc f) end in ce = None \/ ce = Some CNull).
    { cbv zeta. destruct (r_cenc o) as [x|] eqn:Ec; [rewrite <- Ec; exact (d_cenc _ _ _ Dc)|]. right. rewrite F1. reflexivity. }
    cbv zeta in Hce.
    assert (Lv : Live o) by (unfold Live; rewrite (d_fdt _ _ _ Dc Ef); exact I).
    rewrite F2, F3.
    destruct (r_oti o) as [ot0|] eqn:Eo.
    - destruct (d_meta _ _ _ Dc) as [(A & _)|(x & _ & _ & C)]; [congruence|]. rewrite C.
      cbv beta iota zeta.
      match goal with |- context [init_partition ?x] => set (o1 := x) end.
      apply (G0 o1).
      + unfold o1. rewrite <- Eo, <- C. apply DIc_attach; [exact D|exact Ef|exact Hce| |exact F4]. left. split; reflexivity.
      + apply (pre_same o c); try assumption; reflexivity.
    - cbv beta iota zeta.
      match goal with |- context [init_partition ?x] => set (o1 := x) end.
      apply (G0 o1).
      + unfold o1. apply DIc_attach; [exact D|exact Ef|exact Hce| |exact F4]. right. split; [exact Eo|]. exists oti. auto.
      + apply (pre_same o c); try assumption; reflexivity.
  Qed.

  (* ---- the interface of section Lift ---- *)
  Definition DI (o : objrecv) (c : ctx) : Prop := DIx false o c.
  Definition Safe (cs : list wcall) : Prop := SafeCalls strict content cs.

  Lemma DI_safe o c w ws : DI o c -> r_writer o = Some (w, ws) -> Safe (calls_of w (c_log c)).
  Proof.
    intros [D _] Ew. pose proof (d_wr _ _ _ D) as W. unfold WrX in W. rewrite Ew in W.
    destruct ws; try (destruct W as (ph & H); exact (s_run_safe _ _ _ _ H)).
    destruct W as (bw & _ & H & _). exact (s_run_safe _ _ _ _ H).
  Qed.
  Lemma DI_frame o c c' : DI o c ->
    (forall w ws, r_writer o = Some (w, ws) -> calls_of w (c_log c') = calls_of w (c_log c)) -> DI o c'.
  Proof. intros [D P] H. split; [|exact P]. apply (DIc_upd false o c); try reflexivity; assumption. Qed.
  Lemma DI_new c m : DI (or_new toi m) c.
  Proof.
    split; [|intros _ H; exfalso; apply H; reflexivity].
    constructor; unfold MetaOk, BlkOk, WrX, or_new; prj; auto.
    - left. repeat split.
    - intros _ H. exfalso. apply H. reflexivity.
    - intros Hst i. destruct i; apply (X_new Hst).
  Qed.
  Lemma DI_push p o c : Pre o c -> DI o c -> GoodP p -> a_toi p = toi ->
    DI (fst (or_push E p o c)) (snd (or_push E p o c)).
  Proof. intros Pc D G _. apply or_push_di; assumption. Qed.
  Lemma DI_error o c : Pre o c -> DI o c -> Live o -> DI (fst (error o false c)) (snd (error o false c)).
  Proof. intros _ D Lv. apply (error_di false); assumption. Qed.
End Walk.

(* ================= C. the theorems ================= *)
(* EXT_FTI, if the packet carries it, announces the OTI and the transfer length of the object; EXT_CENC, if present,
   says "null".  Needed: the receiver adopts what the first packet of an object says (refutations in part D). *)
Definition pkt_ext_ok (oti : roti) (L : N) (p : apkt) : Prop :=
  (a_oti p = None \/ a_oti p = Some (oti, L)) /\ (a_cenc p = None \/ a_cenc p = Some CNull).
(* the same with any OTI: only the announced transfer length is constrained *)
Definition pkt_len_ok (L : N) (p : apkt) : Prop :=
  match a_oti p with None => True | Some (_, l) => l = L end /\ (a_cenc p = None \/ a_cenc p = Some CNull).

(* every FDT instance the parser yields that lists [toi] lists it with this OTI, this transfer length, no content
   encoding, and an MD5 attribute satisfying [md5c] *)
Definition fdt_lists (parse_fdt : list N -> option fdtinst) (toi : N) (oti : roti) (L : N)
  (md5c : option (list N) -> Prop) : Prop :=
  forall d i f, parse_fdt d = Some i -> find (fun f => ff_toi f =? toi) (fi_files i) = Some f ->
    ff_cenc f = CNull /\ match ff_oti f with Some x => Some x | None => fi_oti i end = Some oti
    /\ ff_tlen f = L /\ md5c (ff_md5 f).

(* MD5 idealised: no other byte string of the same length has the digest of [content] *)
Definition md5_injective_at (E : env) (content : list N) : Prop :=
  forall b, length b = length content -> e_md5 E b = e_md5 E content -> b = content.

(* the events of a session seen from object [toi]: its packets are genuine; everything else is arbitrary - packets of
   TOI 0 (FDT instances, complete or not, any id, any order), packets of other TOIs, unparsable datagrams, time-outs
   with arbitrary expired sets, drop *)
Definition ev_genuine (oti : roti) (content : list N) (toi : N) (e : rev) : Prop :=
  match e with
  | RvPush p _ => a_toi p = toi -> genuine_pkt oti content p = true /\ pkt_ext_ok oti (lenN_ content) p
  | _ => True
  end.
(* the same when nothing but the object and the FDT is on the channel *)
Definition ev_single (oti : roti) (content : list N) (toi : N) (e : rev) : Prop :=
  match e with
  | RvPush p _ => a_toi p = 0 \/ (a_toi p = toi /\ genuine_pkt oti content p = true /\ pkt_ext_ok oti (lenN_ content) p)
  | _ => True
  end.
(* the packets of [toi] are arbitrary but for the two extension headers *)
Definition ev_anybytes (L : N) (toi : N) (e : rev) : Prop :=
  match e with RvPush p _ => a_toi p = toi -> pkt_len_ok L p | _ => True end.

Lemma md5_inj_lenN E content : md5_injective_at E content ->
  forall b, lenN_ b = lenN_ content -> e_md5 E b = e_md5 E content -> b = content.
Proof. intros H b Hl. apply H. unfold lenN_ in Hl. lia. Qed.

Lemma pre_new toi max : Pre (or_new toi max) ctx0.
Proof. split; [left; exact I|]. split; [exact I|intros w _; reflexivity]. Qed.

(* ---- the walk of part B and the lifting of part A, put together once for every scheme ---- *)
Section Generic.
  Variable E : env.
  Variable strict : bool.
  Variables (oti : roti) (content : list N) (toi : N) (al as_ nal n : N).
  Hypothesis Htoi : toi <> 0.
  Hypothesis HL : 0 < lenN_ content.
  Hypothesis Hs : strict = true -> block_partitioning (ro_b oti) (lenN_ content) (ro_e oti) = (al, as_, nal, n).
  Hypothesis Hm : strict = false ->
    e_md5_enabled E = true /\ forall b, lenN_ b = lenN_ content -> e_md5 E b = e_md5 E content -> b = content.
  Variables (BOk BIn : N -> bdec -> Prop) (BWI : N -> bwriter -> Prop) (blkb : N -> list N) (genP : apkt -> Prop).
  Notation bof := (boff (ro_e oti) (lenN_ content) al as_ nal).
  Hypothesis X_new : strict = true -> forall s, BOk s bdec_new.
  Hypothesis X_done : strict = true -> forall s d, BOk s d -> bd_completed d = true -> BIn s d.
  Hypothesis X_bw0 : strict = true -> forall clen m5, BWI 0 (bw_new (lenN_ content) clen CNull m5) /\ 0 < n.
  Hypothesis X_sbn : strict = true -> forall off bw, BWI off bw -> bw_sbn bw = off /\ bw_acc bw = take (bof off) content.
  Hypothesis X_write : strict = true -> forall w off d bw c, BWI off bw -> BIn off d -> bd_completed d = true -> off < n ->
    let ok := e_write_ok E w (wcount c w) in
    let c1 := inc_wcount (logc c (EvWrite w (blkb off) ok)) w in
    exists bw', bw_write E w off d bw c = ((if ok then ObjRecv.BwOk bw' else BwErr), c1)
      /\ take (bof off) content ++ blkb off = take (bof (off + 1)) content
      /\ bw_left bw' = lenN_ content - bof (off + 1) /\ bof (off + 1) <= lenN_ content
      /\ (bw_left bw' <> 0 -> off + 1 < n /\ BWI (off + 1) bw').
  Hypothesis X_p2b : strict = true -> forall p o c, genP p ->
    r_toi o = toi -> r_oti o = Some oti -> r_tlen o = Some (lenN_ content) -> r_al o = al -> r_as o = as_ -> r_nal o = nal ->
    BlkAll BOk o (r_blocks o) -> P2B E BOk o c (push_to_block2 E p o c).

  Notation DIo := (DI E strict oti content toi al as_ nal n BOk BWI genP).
  Notation GP := (GoodP strict oti content toi genP).
  Notation GIn := (GoodI E strict oti content toi).
  Notation SafeS := (fun c => forall k, Safe strict content (calls_of (toi, k) (c_log c))).

  Lemma g_push p o c : Pre o c -> DIo o c -> GP p -> a_toi p = toi -> DIo (fst (or_push E p o c)) (snd (or_push E p o c)).
  Proof.
    exact (DI_push E strict oti content toi al as_ nal n Htoi HL Hs Hm BOk BIn BWI blkb genP
             X_new X_done X_bw0 X_sbn X_write X_p2b p o c).
  Qed.
  Lemma g_attach id i o c : Pre o c -> DIo o c -> GIn i ->
    DIo (snd (fst (or_attach E id (fi_files i) (fi_oti i) o c))) (snd (or_attach E id (fi_files i) (fi_oti i) o c)).
  Proof.
    exact (or_attach_di E strict oti content toi al as_ nal n Htoi HL Hs Hm BOk BIn BWI blkb genP
             X_new X_done X_bw0 X_sbn X_write X_p2b id i o c).
  Qed.

  Theorem generic_session parse_fdt cfg evs :
    (forall d i, parse_fdt d = Some i -> GIn i) -> Forall (ev_ok toi GP) evs ->
    let '(_, _, c) := recv_run E parse_fdt cfg recv0 evs ctx0 in
    forall k, Safe strict content (calls_of (toi, k) (c_log c)).
  Proof.
    intros Hp Hev.
    apply (lift_history E parse_fdt cfg toi DIo (Safe strict content) GP GIn).
    - split; [reflexivity|intros _; reflexivity].
    - apply DI_safe.
    - apply DI_frame.
    - apply DI_new. exact X_new.
    - exact g_push.
    - exact g_attach.
    - apply DI_error. exact X_new.
    - exact Hp.
    - exact Hev.
  Qed.

  Lemma ext_safe o c o' c' : Ext o c o' c' -> DIo o' c' -> SafeS c -> SafeS c'.
  Proof.
    intros X D S k. destruct (r_writer o') as [[w' ws']|] eqn:Ew.
    - destruct (wid_eq_dec (toi, k) w') as [Eq|ne].
      + subst w'. apply (DI_safe _ _ _ _ _ _ _ _ _ _ _ _ _ _ _ _ D Ew).
      + rewrite (e_frame _ _ _ _ X); [apply S|]. intros ws Hx. rewrite Ew in Hx. inversion Hx. congruence.
    - rewrite (e_frame _ _ _ _ X); [apply S|]. intros ws Hx. rewrite Ew in Hx. discriminate.
  Qed.

  Lemma run_safe_obj pkts : forall o c, Pre o c -> DIo o c -> SafeS c -> Forall GP pkts -> SafeS (snd (run E pkts (o, c))).
  Proof.
    induction pkts as [|p pkts IH]; intros o c Pc D S F; [exact S|].
    inversion F as [|? ? Fp Fr]; subst. unfold run. cbn [fold_left fst snd].
    pose proof (or_push_ext E p o c Pc) as X. unfold ExtP in X.
    pose proof (g_push p o c Pc D Fp (proj1 Fp)) as D1.
    destruct (or_push E p o c) as [o1 c1]. cbn [fst snd] in *.
    apply (IH o1 c1 (e_pre _ _ _ _ X) D1 (ext_safe _ _ _ _ X D1 S) Fr).
  Qed.

  Theorem generic_receive max fid files inst pkts :
    (forall f, find (fun f => ff_toi f =? toi) files = Some f ->
       ff_cenc f = CNull /\ match ff_oti f with Some x => Some x | None => inst end = Some oti
       /\ ff_tlen f = lenN_ content /\ (strict = false -> ff_md5 f = Some (e_md5 E content))) ->
    Forall GP pkts -> SafeS (snd (receive E fid files inst toi max pkts)).
  Proof.
    intros Hf F. unfold receive.
    pose proof (pre_new toi max) as P0.
    pose proof (DI_new E strict oti content toi al as_ nal n BOk BWI genP X_new ctx0 max) as D0.
    pose proof (or_attach_ext E fid files inst (or_new toi max) ctx0 P0) as X. unfold ExtA in X.
    pose proof (g_attach fid (mk_fi files inst None) (or_new toi max) ctx0 P0 D0 Hf) as D1. cbn [fi_files fi_oti] in D1.
    destruct (or_attach E fid files inst (or_new toi max) ctx0) as [[ok o1] c1]. cbn [fst snd] in *.
    apply (run_safe_obj pkts o1 c1 (e_pre _ _ _ _ X) D1); [|exact F].
    apply (ext_safe _ _ _ _ X D1). intros k. split; [reflexivity|intros _; reflexivity].
  Qed.
End Generic.

(* ---- instance: No-Code (Proofs/C02Full.v) ---- *)
Section NoCodeInst.
  Variable E : env.
  Variables (oti : roti) (content : list N) (toi : N) (al as_ nal n : N).
  Hypothesis Hfec : ro_fec oti = FNoCode.
  Hypothesis He : 0 < ro_e oti.
  Hypothesis Hb : 0 < ro_b oti.
  Hypothesis HL : 0 < lenN_ content.
  Hypothesis Hu : lenN_ content + ro_e oti < U64.
  Hypothesis Hpart : block_partitioning (ro_b oti) (lenN_ content) (ro_e oti) = (al, as_, nal, n).
  Notation L := (lenN_ content).
  Notation BOk := (BlockOk oti content al as_ nal n).
  Notation BIn := (BlockInit oti content al as_ nal n).
  Notation BWI := (BwInv oti content al as_ nal).
  Notation blkb := (blk_bytes oti content al as_ nal).
  Notation bof := (boff (ro_e oti) L al as_ nal).

  Lemma nc_done s d : BOk s d -> bd_completed d = true -> BIn s d.
  Proof.
    intros [B0 B1] Hc. destruct (bd_init d) eqn:Hi; [apply B1; reflexivity|rewrite B0 in Hc; [discriminate|reflexivity]].
  Qed.
  Lemma nc_bw0 clen m5 : BWI 0 (bw_new L clen CNull m5) /\ 0 < n.
  Proof.
    split; [|exact (n_pos _ _ _ _ _ _ _ Hb He HL Hpart)].
    pose proof (boff_0 _ _ _ _ _ _ _ Hb He HL Hpart) as B0.
    constructor; cbn [bw_new bw_sbn bw_left bw_cenc bw_acc bw_md5]; try reflexivity; rewrite B0; [lia|reflexivity].
  Qed.
  Lemma nc_sbn off bw : BWI off bw -> bw_sbn bw = off /\ bw_acc bw = take (bof off) content.
  Proof. intros BW. split; [exact (bw_1 _ _ _ _ _ _ _ BW)|exact (bw_4 _ _ _ _ _ _ _ BW)]. Qed.
  Lemma nc_write w off d bw c : BWI off bw -> BIn off d -> bd_completed d = true -> off < n ->
    let ok := e_write_ok E w (wcount c w) in
    let c1 := inc_wcount (logc c (EvWrite w (blkb off) ok)) w in
    exists bw', bw_write E w off d bw c = ((if ok then ObjRecv.BwOk bw' else BwErr), c1)
      /\ take (bof off) content ++ blkb off = take (bof (off + 1)) content
      /\ bw_left bw' = L - bof (off + 1) /\ bof (off + 1) <= L
      /\ (bw_left bw' <> 0 -> off + 1 < n /\ BWI (off + 1) bw').
  Proof.
    intros BW BI Hc Hoff.
    destruct (bw_write_ok E oti content w al as_ nal n He Hb HL Hu Hpart off d bw c BW BI Hc) as (bw' & Hw & BW' & Hmd5).
    cbv zeta in Hw |- *. exists bw'. split; [exact Hw|].
    split; [exact (acc_step oti content al as_ nal n He Hb HL Hu Hpart _ Hoff)|].
    assert (Hleft : bw_left bw' = L - bof (off + 1)) by (apply (bw_2 _ _ _ _ _ _ _ BW')).
    split; [exact Hleft|]. split; [exact (boff_le _ _ _ _ _ _ _ Hb He HL Hpart (off + 1))|].
    intros NZ.
    assert (Hn : off + 1 < n).
    { destruct (N.lt_ge_cases (off + 1) n) as [G|G]; [exact G|].
      rewrite (boff_ge _ _ _ _ _ _ _ Hb He HL Hpart (off + 1)) in Hleft by lia. lia. }
    split; [exact Hn|]. destruct Hmd5 as [H|[H _]]; [|lia].
    destruct BW' as [V1 V2 V3 V4 V5]. cbn [bw_sbn bw_left bw_cenc bw_acc bw_md5] in *. constructor; assumption.
  Qed.

  Lemma nc_p2b p o c : genuine oti content al as_ nal n p ->
    r_toi o = toi -> r_oti o = Some oti -> r_tlen o = Some L -> r_al o = al -> r_as o = as_ -> r_nal o = nal ->
    BlkAll BOk o (r_blocks o) -> P2B E BOk o c (push_to_block2 E p o c).
  Proof.
    intros (Hpid & Hlt & Hesi & Hpay) Ht Eo C Pa Pb Pn HB.
    set (sbn := fst (pid_of p)) in *. set (esi := snd (pid_of p)) in *.
    unfold push_to_block2. rewrite Eo, C, Hfec, Hpid. cbv beta iota.
    destruct (N.eqb_spec L 0) as [G|_]; [lia|].
    destruct (N.ltb_spec sbn (r_off o)) as [Hold|Hge]; [left; left; reflexivity|].
    assert (Hnb : nb_blocks_of oti L = n) by (unfold nb_blocks_of; rewrite Hpart; reflexivity).
    rewrite Hnb. destruct (N.leb_spec n sbn) as [G|_]; [lia|].
    set (off := sbn - r_off o).
    destruct ((N.of_nat (length (r_blocks o)) <=? off) && (4096 <? off)).
    { right; left. exists Errored, (r_blocks o), (r_nb_alloc o), (r_alloc_size o), false, true. split; [exact HB|reflexivity]. }
    cbv zeta.
    set (bl0 := if N.of_nat (length (r_blocks o)) <=? off
                then r_blocks o ++ repeat bdec_new (N.to_nat off + 1 - length (r_blocks o)) else r_blocks o).
    assert (F : (forall i, nth i bl0 bdec_new = nth i (r_blocks o) bdec_new) /\ (N.to_nat off < length bl0)%nat).
    { unfold bl0. destruct (N.leb_spec (N.of_nat (length (r_blocks o))) off) as [G|G].
      - split; [intros i; apply nth_app_new|]. rewrite app_length, repeat_length. lia.
      - split; [reflexivity|lia]. }
    destruct F as (F1 & F3). clearbody bl0.
    assert (HB0 : BlkAll BOk o bl0) by (intros i; rewrite F1; apply HB).
    set (d := nth (N.to_nat off) bl0 bdec_new).
    assert (Bd : BOk sbn d).
    { unfold d. replace sbn with (r_off o + N.of_nat (N.to_nat off)) by (unfold off; lia). apply HB0. }
    destruct (bd_completed d) eqn:Hc.
    { right; left. exists (r_state o), bl0, (r_nb_alloc o), (r_alloc_size o), false, false. split; [exact HB0|reflexivity]. }
    assert (Tl : forall b1 nb sz, BIn sbn b1 -> bd_completed b1 = false ->
      P2B E BOk o c
          (let (b2, pan) := bd_push E (r_toi o) oti sbn esi (a_payload p) b1 in
           let c1 := if pan then panicc c else c in
           let o1 := set_blocks (set_blocks o bl0 (r_off o) (r_nb_alloc o) (r_alloc_size o) (r_bw o))
                                (upd_nthb (N.to_nat off) (fun _ => b2) bl0) (r_off o) nb sz (r_bw o) in
           if bd_completed b2 then write_blocks E (S (length (r_blocks o1))) sbn o1 c1 else (ROk o1, c1))).
    { intros b1 nb sz BI1 Hc1.
      destruct (bd_push_ok E oti content al as_ nal n Hfec He Hb HL Hu Hpart (r_toi o) sbn esi (a_payload p) b1 BI1 Hc1 Hesi Hpay)
        as (_ & Q2 & _). cbv zeta in Q2.
      destruct (bd_push E (r_toi o) oti sbn esi (a_payload p) b1) as [b2 pan]. cbn [fst] in Q2. cbv zeta.
      assert (HB1 : BlkAll BOk o (upd_nthb (N.to_nat off) (fun _ => b2) bl0)).
      { intros i. destruct (Nat.eq_dec i (N.to_nat off)) as [->|Ne].
        - rewrite nth_upd_same by exact F3. replace (r_off o + N.of_nat (N.to_nat off)) with sbn by (unfold off; lia).
          split; [rewrite (bi_init _ _ _ _ _ _ _ _ Q2); discriminate|intros _; exact Q2].
        - rewrite nth_upd_ne by exact Ne. apply HB0. }
      destruct (bd_completed b2).
      - right; right. eexists _, nb, sz, pan, _, sbn. split; [exact HB1|reflexivity].
      - right; left. exists (r_state o), (upd_nthb (N.to_nat off) (fun _ => b2) bl0), nb, sz, pan, false.
        split; [exact HB1|reflexivity]. }
    destruct (bd_init d) eqn:Hi.
    - cbv iota beta. apply Tl; [|exact Hc]. destruct Bd as [_ B1]. apply B1. exact Hi.
    - rewrite Pa, Pb, Pn.
      change (if sbn <? nal then al else as_) with (k_of al as_ nal sbn).
      rewrite (bl64 _ _ _ _ _ _ _ Hb He HL Hpart Hu sbn Hlt).
      destruct ((2 <=? r_nb_alloc o) && (r_max o <? r_alloc_size o + blen (ro_e oti) L al as_ nal sbn)).
      { right; left. exists Errored, bl0, (r_nb_alloc o), (r_alloc_size o), false, true. split; [exact HB0|reflexivity]. }
      unfold bd_init_block. rewrite Hi, Hfec. cbv iota beta.
      apply Tl; [|exact Hc].
      constructor; cbn [bd_init bd_k bd_size bd_alloc bd_shards bd_completed bd_data length map]; try reflexivity; try assumption.
      + constructor.
      + constructor.
      + intros _. split; [reflexivity|]. pose proof (k_pos _ _ _ _ _ _ _ Hb He HL Hpart sbn). cbn [N.of_nat]. lia.
      + rewrite Hc. discriminate.
  Qed.
End NoCodeInst.

(* G1 + G2: receiver-level safety, genuine No-Code packets of the object among arbitrary other traffic *)
Theorem nocode_session_safety E parse_fdt cfg oti content toi evs :
  let L := lenN_ content in
  toi <> 0 -> nocode_ok oti L -> fdt_lists parse_fdt toi oti L (fun _ => True) ->
  Forall (ev_genuine oti content toi) evs ->
  let '(_, _, c) := recv_run E parse_fdt cfg recv0 evs ctx0 in
  forall n, is_prefix (written (calls_of (toi, n) (c_log c))) content = true
            /\ P_C03_writer content true (calls_of (toi, n) (c_log c)) = true.
Proof.
  intros L Htoi (Hfec & He & Hb & HL & Hu) Hfdt Hev.
  destruct (partition_of oti L) as [[[al as_] nal] n] eqn:Hpart. unfold L in *.
  pose proof Hpart as Hpart'. unfold partition_of in Hpart'.
  pose proof (generic_session E true oti content toi al as_ nal n Htoi HL (fun _ => Hpart') ltac:(discriminate)
                (BlockOk oti content al as_ nal n) (BlockInit oti content al as_ nal n) (BwInv oti content al as_ nal)
                (blk_bytes oti content al as_ nal) (genuine oti content al as_ nal n)
                (fun _ => blockok_new oti content al as_ nal n)
                (fun _ => nc_done oti content al as_ nal n)
                (fun _ => nc_bw0 oti content al as_ nal n He Hb HL Hu Hpart')
                (fun _ => nc_sbn oti content al as_ nal)
                (fun _ => nc_write E oti content al as_ nal n He Hb HL Hu Hpart')
                (fun _ => nc_p2b E oti content toi al as_ nal n Hfec He Hb HL Hu Hpart')
                parse_fdt cfg evs) as R.
  assert (R' : let '(_, _, c) := recv_run E parse_fdt cfg recv0 evs ctx0 in
               forall k, Safe true content (calls_of (toi, k) (c_log c))).
  { apply R.
    - intros d i Hp f Hf. destruct (Hfdt d i f Hp Hf) as (A & B & C & _). repeat split; try assumption. discriminate.
    - eapply Forall_impl; [|exact Hev]. intros e He'. destruct e as [p now| | |]; cbn [ev_ok ev_genuine] in *; try exact I.
      intros Ht. destruct (He' Ht) as [Hg [Ho Hc]]. split; [exact Ht|]. split; [split; [|exact Hc]|].
      + destruct Ho as [-> | ->]; [exact I|]. split; [reflexivity|intros _; reflexivity].
      + intros _. apply genuineb_spec. unfold genuine_pkt in Hg. rewrite Hpart in Hg. exact Hg. }
  destruct (recv_run E parse_fdt cfg recv0 evs ctx0) as [[xs r] c].
  intros k. destruct (R' k) as [R1 R2]. split; [apply R2; reflexivity|exact R1].
Qed.

(* G1: the same when only the FDT and the object are on the channel *)
Corollary nocode_session_safety_single E parse_fdt cfg oti content toi evs :
  let L := lenN_ content in
  toi <> 0 -> nocode_ok oti L -> fdt_lists parse_fdt toi oti L (fun _ => True) ->
  Forall (ev_single oti content toi) evs ->
  let '(_, _, c) := recv_run E parse_fdt cfg recv0 evs ctx0 in
  forall n, is_prefix (written (calls_of (toi, n) (c_log c))) content = true
            /\ P_C03_writer content true (calls_of (toi, n) (c_log c)) = true.
Proof.
  intros L Htoi Hok Hfdt Hev. apply (nocode_session_safety E parse_fdt cfg oti content toi evs Htoi Hok Hfdt).
  eapply Forall_impl; [|exact Hev]. intros e He. destruct e as [p now| | |]; cbn [ev_single ev_genuine] in *; try exact I.
  intros Ht. destruct He as [H0|(_ & A & B)]; [congruence|split; assumption].
Qed.

(* ---- instance: the schemes whose decoder is an oracle - Reed-Solomon (FEC 5, 129), RaptorQ, Raptor (Proofs/C02RS.v),
   under the soundness hypothesis of that file ---- *)
Section OracleInst.
  Variable E : env.
  Variables (oti : roti) (content : list N) (rep : N -> N -> list N) (toi : N) (al as_ nal n : N).
  Hypothesis Hfec : fec_oracle (ro_fec oti) = true.
  Hypothesis He : 0 < ro_e oti.
  Hypothesis Hb : 0 < ro_b oti.
  Hypothesis HL : 0 < lenN_ content.
  Hypothesis Hu : lenN_ content + ro_e oti < U64.
  Hypothesis Hpart : block_partitioning (ro_b oti) (lenN_ content) (ro_e oti) = (al, as_, nal, n).
  Hypothesis Hsound : forall s sh d, s < n -> Callable oti al as_ nal s sh ->
    NoDup (map fst sh) -> Forall (C02RS.shard_ok oti content rep al as_ nal s) sh ->
    e_fec E toi (ro_fec oti) s (k_of al as_ nal s) (ro_e oti) (bsz oti content al as_ nal s) sh = Some d ->
    Good oti content al as_ nal n s d.
  Notation L := (lenN_ content).
  Notation BOk := (C02RS.BlockOk E oti content rep toi al as_ nal n).
  Notation BIn := (C02RS.BlockInit E oti content rep toi al as_ nal n).
  Notation BWI := (C02RS.BwInv oti content al as_ nal).
  Notation blkb := (blk_bytes oti content al as_ nal).
  Notation bof := (boff (ro_e oti) L al as_ nal).
  Notation kof := (k_of al as_ nal).
  Notation bszs := (bsz oti content al as_ nal).

  Lemma or_done s d : BOk s d -> bd_completed d = true -> BIn s d.
  Proof.
    intros [B0 B1] Hc. destruct (bd_init d) eqn:Hi; [apply B1; reflexivity|rewrite B0 in Hc; [discriminate|reflexivity]].
  Qed.
  Lemma or_bw0 clen m5 : BWI 0 (bw_new L clen CNull m5) /\ 0 < n.
  Proof.
    split; [|exact (n_pos _ _ _ _ _ _ _ Hb He HL Hpart)].
    pose proof (boff_0 _ _ _ _ _ _ _ Hb He HL Hpart) as B0.
    constructor; cbn [bw_new bw_sbn bw_left bw_cenc bw_acc bw_md5]; try reflexivity; rewrite B0; [lia|reflexivity].
  Qed.
  Lemma or_sbn off bw : BWI off bw -> bw_sbn bw = off /\ bw_acc bw = take (bof off) content.
  Proof. intros BW. split; [exact (C02RS.bw_1 _ _ _ _ _ _ _ BW)|exact (C02RS.bw_4 _ _ _ _ _ _ _ BW)]. Qed.
  Lemma or_write w off d bw c : BWI off bw -> BIn off d -> bd_completed d = true -> off < n ->
    let ok := e_write_ok E w (wcount c w) in
    let c1 := inc_wcount (logc c (EvWrite w (blkb off) ok)) w in
    exists bw', bw_write E w off d bw c = ((if ok then ObjRecv.BwOk bw' else BwErr), c1)
      /\ take (bof off) content ++ blkb off = take (bof (off + 1)) content
      /\ bw_left bw' = L - bof (off + 1) /\ bof (off + 1) <= L
      /\ (bw_left bw' <> 0 -> off + 1 < n /\ BWI (off + 1) bw').
  Proof.
    intros BW BI Hc Hoff.
    destruct (C02RS.bw_write_ok E oti content rep w toi al as_ nal n He Hb HL Hu Hpart off d bw c BW BI Hc) as (bw' & Hw & BW' & Hmd5).
    cbv zeta in Hw |- *. exists bw'. split; [exact Hw|].
    split; [exact (acc_step oti content al as_ nal n He Hb HL Hu Hpart _ Hoff)|].
    assert (Hleft : bw_left bw' = L - bof (off + 1)) by (apply (C02RS.bw_2 _ _ _ _ _ _ _ BW')).
    split; [exact Hleft|]. split; [exact (boff_le _ _ _ _ _ _ _ Hb He HL Hpart (off + 1))|].
    intros NZ.
    assert (Hn : off + 1 < n).
    { destruct (N.lt_ge_cases (off + 1) n) as [G|G]; [exact G|].
      rewrite (boff_ge _ _ _ _ _ _ _ Hb He HL Hpart (off + 1)) in Hleft by lia. lia. }
    split; [exact Hn|]. destruct Hmd5 as [H|[H _]]; [|lia].
    destruct BW' as [V1 V2 V3 V4 V5]. cbn [bw_sbn bw_left bw_cenc bw_acc bw_md5] in *. constructor; assumption.
  Qed.

  Lemma or_p2b p o c : C02RS.genuine oti content rep al as_ nal n p ->
    r_toi o = toi -> r_oti o = Some oti -> r_tlen o = Some L -> r_al o = al -> r_as o = as_ -> r_nal o = nal ->
    BlkAll BOk o (r_blocks o) -> P2B E BOk o c (push_to_block2 E p o c).
  Proof.
    intros (Hpid & Hlt & Hesi & Hpay) Ht Eo C Pa Pb Pn HB.
    set (sbn := fst (rs_pid oti p)) in *. set (esi := snd (rs_pid oti p)) in *.
    unfold push_to_block2. rewrite Eo, C, Hpid. cbv beta iota.
    destruct (N.eqb_spec L 0) as [G|_]; [lia|].
    destruct (N.ltb_spec sbn (r_off o)) as [Hold|Hge]; [left; left; reflexivity|].
    assert (Hnb : nb_blocks_of oti L = n) by (unfold nb_blocks_of; rewrite Hpart; reflexivity).
    assert (Hchk : match sblv oti al as_ nal sbn with None => nb_blocks_of oti L <=? sbn | Some _ => false end = false).
    { unfold sblv. destruct (us oti); [reflexivity|]. rewrite Hnb. apply N.leb_gt. exact Hlt. }
    rewrite Hchk.
    set (off := sbn - r_off o).
    destruct ((N.of_nat (length (r_blocks o)) <=? off) && (4096 <? off)).
    { right; left. exists Errored, (r_blocks o), (r_nb_alloc o), (r_alloc_size o), false, true. split; [exact HB|reflexivity]. }
    cbv zeta.
    set (bl0 := if N.of_nat (length (r_blocks o)) <=? off
                then r_blocks o ++ repeat bdec_new (N.to_nat off + 1 - length (r_blocks o)) else r_blocks o).
    assert (F : (forall i, nth i bl0 bdec_new = nth i (r_blocks o) bdec_new) /\ (N.to_nat off < length bl0)%nat).
    { unfold bl0. destruct (N.leb_spec (N.of_nat (length (r_blocks o))) off) as [G|G].
      - split; [intros i; apply nth_app_new|]. rewrite app_length, repeat_length. lia.
      - split; [reflexivity|lia]. }
    destruct F as (F1 & F3). clearbody bl0.
    assert (HB0 : BlkAll BOk o bl0) by (intros i; rewrite F1; apply HB).
    set (d := nth (N.to_nat off) bl0 bdec_new).
    assert (Bd : BOk sbn d).
    { unfold d. replace sbn with (r_off o + N.of_nat (N.to_nat off)) by (unfold off; lia). apply HB0. }
    destruct (bd_completed d) eqn:Hc.
    { right; left. exists (r_state o), bl0, (r_nb_alloc o), (r_alloc_size o), false, false. split; [exact HB0|reflexivity]. }
    assert (Tl : forall b1 nb sz, BIn sbn b1 -> bd_completed b1 = false ->
      P2B E BOk o c
          (let (b2, pan) := bd_push E (r_toi o) oti sbn esi (a_payload p) b1 in
           let c1 := if pan then panicc c else c in
           let o1 := set_blocks (set_blocks o bl0 (r_off o) (r_nb_alloc o) (r_alloc_size o) (r_bw o))
                                (upd_nthb (N.to_nat off) (fun _ => b2) bl0) (r_off o) nb sz (r_bw o) in
           if bd_completed b2 then write_blocks E (S (length (r_blocks o1))) sbn o1 c1 else (ROk o1, c1))).
    { intros b1 nb sz BI1 Hc1. rewrite Ht.
      destruct (C02RS.bd_push_ok E oti content rep toi al as_ nal n Hfec He Hb HL Hu Hpart Hsound sbn esi (a_payload p) b1 BI1 Hc1 Hesi Hpay)
        as (_ & Q2 & _). cbv zeta in Q2.
      destruct (bd_push E toi oti sbn esi (a_payload p) b1) as [b2 pan]. cbn [fst] in Q2. cbv zeta.
      assert (HB1 : BlkAll BOk o (upd_nthb (N.to_nat off) (fun _ => b2) bl0)).
      { intros i. destruct (Nat.eq_dec i (N.to_nat off)) as [->|Ne].
        - rewrite nth_upd_same by exact F3. replace (r_off o + N.of_nat (N.to_nat off)) with sbn by (unfold off; lia).
          split; [rewrite (C02RS.bi_init _ _ _ _ _ _ _ _ _ _ _ Q2); discriminate|intros _; exact Q2].
        - rewrite nth_upd_ne by exact Ne. apply HB0. }
      destruct (bd_completed b2).
      - right; right. eexists _, nb, sz, pan, _, sbn. split; [exact HB1|reflexivity].
      - right; left. exists (r_state o), (upd_nthb (N.to_nat off) (fun _ => b2) bl0), nb, sz, pan, false.
        split; [exact HB1|reflexivity]. }
    destruct (bd_init d) eqn:Hi.
    - cbv iota beta. apply Tl; [|exact Hc]. destruct Bd as [_ B1]. apply B1. exact Hi.
    - rewrite Pa, Pb, Pn.
      change (if sbn <? nal then al else as_) with (kof sbn).
      assert (Hk : match sblv oti al as_ nal sbn with Some v => v | None => kof sbn end = kof sbn)
        by (unfold sblv; destruct (us oti); reflexivity).
      rewrite Hk.
      assert (Hbl : match sblv oti al as_ nal sbn with
                    | Some _ => Some (kof sbn * ro_e oti)
                    | None => block_length64 al as_ nal L (ro_e oti) sbn
                    end = Some (bszs sbn)).
      { rewrite (bsz_spec oti content al as_ nal n He Hb HL Hu Hpart sbn Hlt). unfold sblv.
        destruct (us oti); [reflexivity|]. apply (bl64 _ _ _ _ _ _ _ Hb He HL Hpart Hu sbn Hlt). }
      rewrite Hbl.
      destruct ((2 <=? r_nb_alloc o) && (r_max o <? r_alloc_size o + bszs sbn)).
      { right; left. exists Errored, bl0, (r_nb_alloc o), (r_alloc_size o), false, true. split; [exact HB0|reflexivity]. }
      assert (Hinit : bd_init_block oti (kof sbn) (bszs sbn) d
                      = if (if cls oti then rs_ok (kof sbn) (ro_parity oti) else fq_dec_ok oti (kof sbn))
                        then Some (mk_bdec (bd_completed d) true (bszs sbn) (kof sbn) [] None true) else None).
      { unfold bd_init_block. rewrite Hi. unfold cls, fq_dec_ok.
        destruct (ro_fec oti); try discriminate Hfec; try reflexivity.
        - destruct (ro_scheme oti) as [[[z nn] al_]|]; [|reflexivity].
          destruct ((ro_e oti =? 0) || (al_ =? 0) || negb (ro_e oti mod al_ =? 0) || (nn =? 0) || (kof sbn =? 0) || (RAPTORQ_KMAX <? kof sbn));
            reflexivity.
        - destruct (ro_scheme oti) as [x|]; [|reflexivity].
          destruct ((kof sbn =? 0) || (RAPTOR_KMAX <? kof sbn)); reflexivity. }
      rewrite Hinit. destruct (if cls oti then rs_ok (kof sbn) (ro_parity oti) else fq_dec_ok oti (kof sbn)).
      2:{ right; left. exists Errored, bl0, (r_nb_alloc o), (r_alloc_size o), false, true. split; [exact HB0|reflexivity]. }
      cbv iota beta.
      apply Tl; [|exact Hc].
      constructor; cbn [bd_init bd_k bd_size bd_alloc bd_shards bd_completed bd_data length map]; try reflexivity; try assumption.
      + constructor.
      + constructor.
      + intros _. split; [reflexivity|]. intros _. pose proof (k_pos _ _ _ _ _ _ _ Hb He HL Hpart sbn) as Kp. unfold Decodable.
        destruct (cls oti); [cbn [length N.of_nat]; lia|]. intros HD. specialize (HD 0 Kp). discriminate HD.
      + rewrite Hc. discriminate.
  Qed.

  Hypothesis Htoi : toi <> 0.
  Theorem oracle_session parse_fdt cfg evs :
    fdt_lists parse_fdt toi oti L (fun _ => True) ->
    Forall (fun e => match e with
                     | RvPush p _ => a_toi p = toi -> C02RS.genuine oti content rep al as_ nal n p /\ pkt_ext_ok oti L p
                     | _ => True end) evs ->
    let '(_, _, c) := recv_run E parse_fdt cfg recv0 evs ctx0 in
    forall k, is_prefix (written (calls_of (toi, k) (c_log c))) content = true
              /\ P_C03_writer content true (calls_of (toi, k) (c_log c)) = true.
  Proof.
    intros Hfdt Hev.
    pose proof (generic_session E true oti content toi al as_ nal n Htoi HL (fun _ => Hpart) ltac:(discriminate)
                  BOk BIn BWI blkb (C02RS.genuine oti content rep al as_ nal n)
                  (fun _ => C02RS.blockok_new E oti content rep toi al as_ nal n)
                  (fun _ => or_done) (fun _ => or_bw0) (fun _ => or_sbn) (fun _ => or_write) (fun _ => or_p2b)
                  parse_fdt cfg evs) as R.
    assert (R' : let '(_, _, c) := recv_run E parse_fdt cfg recv0 evs ctx0 in
                 forall k, Safe true content (calls_of (toi, k) (c_log c))).
    { apply R.
      - intros d i Hp f Hf. destruct (Hfdt d i f Hp Hf) as (A & B & C & _). repeat split; try assumption. discriminate.
      - eapply Forall_impl; [|exact Hev]. intros e He'. destruct e as [p now| | |]; cbn [ev_ok] in *; try exact I.
        intros Ht. destruct (He' Ht) as [Hg [Ho Hc]]. split; [exact Ht|]. split; [split; [|exact Hc]|intros _; exact Hg].
        destruct Ho as [-> | ->]; [exact I|]. split; [reflexivity|intros _; reflexivity]. }
    destruct (recv_run E parse_fdt cfg recv0 evs ctx0) as [[xs r] c].
    intros k. destruct (R' k) as [R1 R2]. split; [apply R2; reflexivity|exact R1].
  Qed.
End OracleInst.

(* the events of a session seen from a Reed-Solomon / RaptorQ / Raptor object *)
Definition ev_rs_genuine (oti : roti) (content : list N) (rep : N -> N -> list N) (toi : N) (e : rev) : Prop :=
  match e with
  | RvPush p _ => a_toi p = toi -> rs_genuine_pkt oti content rep p = true /\ pkt_ext_ok oti (lenN_ content) p
  | _ => True
  end.
Definition ev_fq_genuine (oti : roti) (content : list N) (enc : N -> N -> list N) (toi : N) (e : rev) : Prop :=
  match e with
  | RvPush p _ => a_toi p = toi -> fq_genuine_pkt oti content enc p = true /\ pkt_ext_ok oti (lenN_ content) p
  | _ => True
  end.

(* G4: receiver-level safety for Reed-Solomon GF(2^8) (FEC 5 and 129): genuine source and repair packets among
   arbitrary other traffic, under the trusted hypothesis rs_oracle_sound of Proofs/C02RS.v *)
Theorem rs_session_safety E parse_fdt cfg oti content rep toi evs :
  let L := lenN_ content in
  toi <> 0 -> rs_scheme_ok oti L -> rs_oracle_sound E oti content rep toi ->
  fdt_lists parse_fdt toi oti L (fun _ => True) ->
  Forall (ev_rs_genuine oti content rep toi) evs ->
  let '(_, _, c) := recv_run E parse_fdt cfg recv0 evs ctx0 in
  forall n, is_prefix (written (calls_of (toi, n) (c_log c))) content = true
            /\ P_C03_writer content true (calls_of (toi, n) (c_log c)) = true.
Proof.
  intros L Htoi (Hrsf & He & Hb & HL & Hu) Hor Hfdt Hev.
  destruct (rs_is_cls oti Hrsf) as [Hcls Hfec].
  destruct (partition_of oti L) as [[[al as_] nal] n] eqn:Hpart. unfold L in *.
  pose proof (top_sound E oti content rep toi al as_ nal n Hcls He Hb HL Hpart Hor) as Hsound.
  pose proof Hpart as Hpart'. unfold partition_of in Hpart'.
  apply (oracle_session E oti content rep toi al as_ nal n Hfec He Hb HL Hu Hpart' Hsound Htoi parse_fdt cfg evs Hfdt).
  eapply Forall_impl; [|exact Hev]. intros e He'. destruct e as [p now| | |]; cbn [ev_rs_genuine] in *; try exact I.
  intros Ht. destruct (He' Ht) as [Hg Hx]. split; [|exact Hx].
  apply C02RS.genuineb_spec. unfold rs_genuine_pkt in Hg. rewrite Hpart in Hg. exact Hg.
Qed.

(* ... and for RaptorQ (FEC 6) / Raptor (FEC 1), under fq_oracle_sound *)
Theorem fq_session_safety E parse_fdt cfg oti content enc toi evs :
  let L := lenN_ content in
  toi <> 0 -> fq_scheme_ok oti L -> fq_oracle_sound E oti content enc toi ->
  fdt_lists parse_fdt toi oti L (fun _ => True) ->
  Forall (ev_fq_genuine oti content enc toi) evs ->
  let '(_, _, c) := recv_run E parse_fdt cfg recv0 evs ctx0 in
  forall n, is_prefix (written (calls_of (toi, n) (c_log c))) content = true
            /\ P_C03_writer content true (calls_of (toi, n) (c_log c)) = true.
Proof.
  intros L Htoi (Hf & He & Hb & HL & Hu) Hos Hfdt Hev.
  destruct (fq_is_fq oti Hf) as (Hcls & Hus & Hfec).
  destruct (partition_of oti L) as [[[al as_] nal] n] eqn:Hpart. unfold L in *.
  pose proof (top_sound_fq E oti content enc toi al as_ nal n Hcls Hus He Hb HL Hu Hpart Hos) as Hsound.
  pose proof Hpart as Hpart'. unfold partition_of in Hpart'.
  apply (oracle_session E oti content enc toi al as_ nal n Hfec He Hb HL Hu Hpart' Hsound Htoi parse_fdt cfg evs Hfdt).
  eapply Forall_impl; [|exact Hev]. intros e He'. destruct e as [p now| | |]; cbn [ev_fq_genuine] in *; try exact I.
  intros Ht. destruct (He' Ht) as [Hg Hx]. split; [|exact Hx].
  apply C02RS.genuineb_spec. unfold fq_genuine_pkt in Hg. rewrite Hpart in Hg. exact Hg.
Qed.

(* the MD5 mode needs no scheme *)
Section Md5Inst.
  Variable E : env.
  Variables (oti : roti) (content : list N) (toi : N).
  Hypothesis Htoi : toi <> 0.
  Hypothesis HL : 0 < lenN_ content.
  Hypothesis Hen : e_md5_enabled E = true.
  Hypothesis Hinj : md5_injective_at E content.
  Notation T0 := (fun (_ : N) (_ : bdec) => True).
  Notation W0 := (fun (_ : N) (_ : bwriter) => True).
  Notation G0 := (fun _ : apkt => True).
  Notation B0 := (fun _ : N => @nil N).

  Lemma md5_Hm : false = false ->
    e_md5_enabled E = true /\ (forall b, lenN_ b = lenN_ content -> e_md5 E b = e_md5 E content -> b = content).
  Proof. intros _. split; [exact Hen|apply md5_inj_lenN; exact Hinj]. Qed.

  Definition md5_session :=
    generic_session E false oti content toi 0 0 0 0 Htoi HL ltac:(discriminate) md5_Hm T0 T0 W0 B0 G0
      ltac:(discriminate) ltac:(discriminate) ltac:(discriminate) ltac:(discriminate) ltac:(discriminate) ltac:(discriminate).
  Definition md5_receive :=
    generic_receive E false oti content toi 0 0 0 0 Htoi HL ltac:(discriminate) md5_Hm T0 T0 W0 B0 G0
      ltac:(discriminate) ltac:(discriminate) ltac:(discriminate) ltac:(discriminate) ltac:(discriminate) ltac:(discriminate).

  Lemma md5_goodp p : a_toi p = toi -> pkt_len_ok (lenN_ content) p -> GoodP false oti content toi G0 p.
  Proof.
    intros Ht [Ho Hc]. split; [exact Ht|]. split; [|discriminate]. split; [|exact Hc].
    destruct (a_oti p) as [[ot l]|]; [|exact I]. split; [exact Ho|discriminate].
  Qed.
End Md5Inst.

(* G3, receiver level: ARBITRARY packets of the object (any payload id, any payload bytes, any FEC OTI in EXT_FTI),
   the FDT entry carries the MD5 of the content, the writer checks it, MD5 idealised as collision-free *)
Theorem md5_session_safety E parse_fdt cfg oti content toi evs :
  let L := lenN_ content in
  toi <> 0 -> 0 < L -> e_md5_enabled E = true -> md5_injective_at E content ->
  fdt_lists parse_fdt toi oti L (fun m => m = Some (e_md5 E content)) ->
  Forall (ev_anybytes L toi) evs ->
  let '(_, _, c) := recv_run E parse_fdt cfg recv0 evs ctx0 in
  forall n, P_C03_writer content true (calls_of (toi, n) (c_log c)) = true.
Proof.
  intros L Htoi HL Hen Hinj Hfdt Hev.
  pose proof (md5_session E oti content toi Htoi HL Hen Hinj parse_fdt cfg evs) as R.
  assert (R' : let '(_, _, c) := recv_run E parse_fdt cfg recv0 evs ctx0 in
               forall k, Safe false content (calls_of (toi, k) (c_log c))).
  { apply R.
    - intros d i Hp f Hf. destruct (Hfdt d i f Hp Hf) as (A & B & C & D). repeat split; try assumption. intros _. exact D.
    - eapply Forall_impl; [|exact Hev]. intros e He. destruct e as [p now| | |]; cbn [ev_ok ev_anybytes] in *; try exact I.
      intros Ht. apply md5_goodp; [exact Ht|exact (He Ht)]. }
  destruct (recv_run E parse_fdt cfg recv0 evs ctx0) as [[xs r] c].
  intros k. exact (proj1 (R' k)).
Qed.

(* G3, object level: whatever the packets carry, a complete means the content *)
Theorem md5_object_safety E oti content toi max fid files inst pkts :
  let L := lenN_ content in
  toi <> 0 -> 0 < L -> e_md5_enabled E = true -> md5_injective_at E content ->
  fdt_entry_for files inst toi oti L (Some (e_md5 E content)) ->
  Forall (fun p => a_toi p = toi /\ pkt_len_ok L p) pkts ->
  let (o, c) := receive E fid files inst toi max pkts in
  forall n, P_C03_writer content true (calls_of (toi, n) (c_log c)) = true.
Proof.
  intros L Htoi HL Hen Hinj (f & F1 & F2 & F3 & F4 & F5) Hp.
  pose proof (md5_receive E oti content toi Htoi HL Hen Hinj max fid files inst pkts) as R.
  destruct (receive E fid files inst toi max pkts) as [o c]. cbn [snd] in R.
  intros k. apply R.
  - intros f' Hf'. rewrite F1 in Hf'. inversion Hf'; subst f'. repeat split; try assumption. intros _. exact F5.
  - eapply Forall_impl; [|exact Hp]. intros p [Ht Hl]. apply md5_goodp; assumption.
Qed.

(* ---- packets of the right SHAPE for the object: payload id of a source symbol of the partition, payload of the
   length of that symbol (the last one may be short), ARBITRARY payload bytes ---- *)
Definition shaped_pkt (oti : roti) (L : N) (p : apkt) : bool :=
  let '(al, as_, nal, n) := partition_of oti L in
  match a_pid_with FNoCode p with
  | Some (s, i, None) =>
    (s <? n) && (i <? k_of al as_ nal s)
    && (lenN_ (a_payload p) =? N.min (ro_e oti) (L - (soff al as_ nal s + i) * ro_e oti))
  | _ => false
  end.

Lemma genuine_is_shaped oti content p : genuine_pkt oti content p = true -> shaped_pkt oti (lenN_ content) p = true.
Proof.
  unfold genuine_pkt, shaped_pkt. destruct (partition_of oti (lenN_ content)) as [[[al as_] nal] n].
  unfold genuineb. destruct (a_pid_with FNoCode p) as [[[s i] [x|]]|]; try discriminate.
  intros H. apply andb_true_iff in H. destruct H as [H H3]. rewrite H. cbn [andb].
  apply eqb_bytes_eq in H3. rewrite H3. unfold sym_bytes. rewrite lenN_take, lenN_drop. apply N.eqb_refl.
Qed.

(* G3, second half: every source symbol arrives, all packets carry the bytes of ANOTHER byte string of the same length
   (consistently altered payloads): the object is never completed, its writer ends with error() *)
Section Altered.
  Variable E : env.
  Variables (oti : roti) (content' : list N) (toi : N) (md5 : option (list N)) (max : N) (al as_ nal n : N).
  Hypothesis Hfec : ro_fec oti = FNoCode.
  Hypothesis He : 0 < ro_e oti.
  Hypothesis Hb : 0 < ro_b oti.
  Hypothesis HL : 0 < lenN_ content'.
  Hypothesis Hu64 : lenN_ content' + ro_e oti < U64.
  Hypothesis Hpart : block_partitioning (ro_b oti) (lenN_ content') (ro_e oti) = (al, as_, nal, n).
  Notation w := (toi, 0%nat).
  Notation StructT := (Struct oti content' w toi md5 max al as_ nal n).
  Notation gen := (genuine oti content' al as_ nal n).

  Lemma run_any pkts : forall o c seen, StructT o c -> LiveAll seen o -> Forall gen pkts ->
    let (o', c') := run E pkts (o, c) in
    (StructT o' c' /\ LiveAll (List.rev (map pid_of pkts) ++ seen) o')
    \/ (r_state o' = Completed /\ ShapeDone content' w toi c')
    \/ (bad o' /\ ShapeErr content' w toi c').
  Proof.
    induction pkts as [|p pkts IH]; intros o c seen S0 Lv G; [left; split; assumption|].
    inversion G as [|? ? Gp Gr]; subst. unfold run. cbn [fold_left fst snd].
    pose proof (step E oti content' w toi md5 max al as_ nal n Hfec He Hb HL Hu64 Hpart o c p _ _ S0 Gp) as H.
    destruct (or_push E p o c) as [o1 c1]. cbn [StepOut] in H.
    destruct H as [(S1 & M1 & L1)|[(H1 & H2)|(H1 & H2 & _)]].
    - fold (run E pkts (o1, c1)).
      assert (Lv1 : LiveAll (pid_of p :: seen) o1).
      { intros s i [Eq|Hin]; [rewrite Eq in L1; exact L1|apply M1, Lv, Hin]. }
      specialize (IH o1 c1 (pid_of p :: seen) S1 Lv1 Gr).
      destruct (run E pkts (o1, c1)) as [o' c']. cbn [map List.rev]. rewrite <- app_assoc. exact IH.
    - fold (run E pkts (o1, c1)). rewrite run_closed by congruence. right; left. split; assumption.
    - fold (run E pkts (o1, c1)). rewrite run_closed by (destruct H1; congruence). right; right. split; assumption.
  Qed.
End Altered.

Theorem md5_altered_ends_in_error E oti content content' toi max fid files inst pkts :
  let L := lenN_ content in
  toi <> 0 -> nocode_ok oti L -> length content' = length content -> content' <> content ->
  e_md5_enabled E = true -> md5_injective_at E content ->
  fdt_entry_for files inst toi oti L (Some (e_md5 E content)) -> writer_accepts E toi ->
  Forall (fun p => genuine_pkt oti content' p = true /\ a_toi p = toi /\ pkt_len_ok L p) pkts ->
  recoverable oti L pkts = true ->
  let (o, c) := receive E fid files inst toi max pkts in
  (r_state o = Errored \/ r_state o = Interrupted)
  /\ failed (calls_of (toi, 0%nat) (c_log c)) = true /\ completed (calls_of (toi, 0%nat) (c_log c)) = false.
Proof.
  intros L Htoi (Hfec & He & Hb & HL & Hu) Hlen Hne Hen Hinj Hfdt (A1 & A2) Hp Hrec.
  assert (HL' : lenN_ content' = L) by (unfold L, lenN_; rewrite Hlen; reflexivity).
  pose proof (md5_object_safety E oti content toi max fid files inst pkts Htoi HL Hen Hinj Hfdt) as Safe0.
  cbv zeta in Safe0.
  assert (Hp2 : Forall (fun p => a_toi p = toi /\ pkt_len_ok (lenN_ content) p) pkts).
  { eapply Forall_impl; [|exact Hp]. intros p (_ & B & C). split; assumption. }
  specialize (Safe0 Hp2).
  destruct Hfdt as (f & F1 & F2 & F3 & F4 & F5).
  destruct (partition_of oti L) as [[[al as_] nal] n] eqn:Hpart. unfold partition_of in Hpart.
  rewrite <- HL' in HL, Hu, Hpart, F4.
  destruct (attach_struct E oti content' (toi, 0%nat) toi (Some (e_md5 E content)) max al as_ nal n He Hb HL Hu Hpart
              fid files inst f eq_refl F1 F2 F3 F4 F5 A1 A2) as (o0 & c0 & Hat & S0).
  unfold receive in *. rewrite Hat in *.
  assert (G : Forall (genuine oti content' al as_ nal n) pkts).
  { apply genuine_pkt_spec; [exact Hpart|]. eapply Forall_impl; [|exact Hp]. intros p (B & _). exact B. }
  pose proof (run_any E oti content' toi (Some (e_md5 E content)) max al as_ nal n Hfec He Hb HL Hu Hpart pkts o0 c0 []
                S0 (fun s i H => match H with end) G) as R.
  destruct (run E pkts (o0, c0)) as [o c].
  destruct R as [(S1 & Lv)|[(H1 & evs & Hl & Hw & Hd)|(H1 & evs & off & t & Hl & Ht & Hw & Hd)]].
  - exfalso. apply (struct_not_covered oti content' (toi, 0%nat) toi (Some (e_md5 E content)) max al as_ nal n
                      He Hb HL Hu Hpart o c _ S1 Lv).
    intros s i Hs Hi. rewrite app_nil_r. apply in_rev. rewrite rev_involutive.
    apply (recoverable_covered al as_ nal n); [|exact Hs|exact Hi].
    unfold recoverable, source_ks, partition_of in Hrec. rewrite <- HL' in Hrec. rewrite Hpart in Hrec. exact Hrec.
  - (* completed with the bytes of content': excluded by the MD5 clause *)
    exfalso. specialize (Safe0 0%nat). rewrite Hl in Safe0. rewrite !calls_of_app in Safe0.
    destruct (calls_writes_mine (toi, 0%nat) evs Hw) as (I1 & I2 & I3).
    unfold hdr in Safe0. cbn [calls_of flat_map] in Safe0. rewrite wid_eqb_refl in Safe0. cbn [app] in Safe0.
    change (CallOpen true :: calls_of (toi, 0%nat) evs ++ [CallComplete])
      with ([CallOpen true] ++ calls_of (toi, 0%nat) evs ++ [CallComplete]) in Safe0.
    unfold P_C03_writer in Safe0. rewrite !written_app, !completed_app, !failed_app, I1, I2, I3, Hd in Safe0.
    cbn [written completed failed flat_map existsb app orb negb andb] in Safe0. rewrite app_nil_r, andb_true_r in Safe0.
    apply eqb_bytes_eq in Safe0. contradiction.
  - split; [destruct H1 as [H1|H1]; [left|right]; exact H1|].
    destruct (calls_writes_mine (toi, 0%nat) evs Hw) as (I1 & I2 & I3).
    assert (K : forall tc, calls_of (toi, 0%nat) [t] = [tc] -> (tc = CallError \/ tc = CallInterrupted) ->
                failed (calls_of (toi, 0%nat) (c_log c)) = true /\ completed (calls_of (toi, 0%nat) (c_log c)) = false).
    { intros tc Htc Hcase. rewrite Hl, !calls_of_app, Htc.
      assert (Hh : calls_of (toi, 0%nat) (hdr (toi, 0%nat) toi) = [CallOpen true]).
      { unfold hdr. cbn [calls_of flat_map]. rewrite wid_eqb_refl. reflexivity. }
      rewrite Hh, !completed_app, !failed_app, I2, I3. destruct Hcase as [-> | ->]; split; reflexivity. }
    destruct Ht as [-> | ->].
    + apply (K CallError); [|left; reflexivity]. cbn [calls_of flat_map]. rewrite wid_eqb_refl. reflexivity.
    + apply (K CallInterrupted); [|right; reflexivity]. cbn [calls_of flat_map]. rewrite wid_eqb_refl. reflexivity.
Qed.

Print Assumptions nocode_session_safety.
Print Assumptions md5_session_safety.
Print Assumptions md5_object_safety.
Print Assumptions md5_altered_ends_in_error.
Print Assumptions rs_session_safety.
Print Assumptions fq_session_safety.

(* ================= D. concrete sessions ================= *)
(* toy FDT: the document "<>" parses to an instance listing TOI 7 = ex_content of C02Full (5 bytes, E = 2, B = 2);
   the toy "MD5" is the identity on byte strings (injective); receive-once is off *)
Definition c3_env : env :=
  mk_env false true (fun _ _ => WStore) (fun _ => true) (fun _ _ => true)
         (fun _ _ _ _ _ _ _ => None) (fun b => b) (fun _ acc _ => Some (repeat 9 (length acc))).
Definition c3_inst (md5 : option (list N)) : fdtinst := mk_fi [mk_ff 7 CNull (Some ex_oti) 5 md5 None false] None None.
Definition c3_doc : list N := [60; 62].
Definition c3_parse (md5 : option (list N)) (d : list N) : option fdtinst :=
  if eqb_bytes d c3_doc then Some (c3_inst md5) else None.
Definition c3_fdt : apkt :=
  mk_apkt 0 false false (Some 1) (Some (mk_roti FNoCode 2 1 0 None, 2)) None None 0 (mk_pid 0 0) c3_doc 2.
Definition c3_cfg : rconfig := mk_rcfg 5 1000 false false.
Definition c3_sess (E : env) (md5 : option (list N)) (pkts : list apkt) : list rev := map (fun p => RvPush p 100%Z) pkts.
Definition c3_log (E : env) (md5 : option (list N)) (evs : list rev) : list wev :=
  let '(_, _, c) := recv_run E (c3_parse md5) c3_cfg recv0 evs ctx0 in c_log c.

Lemma c3_fdt_lists md5 (md5c : option (list N) -> Prop) : md5c md5 -> fdt_lists (c3_parse md5) 7 ex_oti 5 md5c.
Proof.
  intros Hm d i f Hp Hf. unfold c3_parse in Hp. destruct (eqb_bytes d c3_doc); [|discriminate].
  inversion Hp; subst i. cbn in Hf. inversion Hf; subst f. repeat split. exact Hm.
Qed.

(* a complete transfer, then a second, PARTIAL transfer of the same TOI (symbols (0,0) and (0,1) again), with a packet
   of another TOI and a time-out in between: the second writer (7,1) receives a strict prefix *)
Definition c3_evs_two : list rev :=
  c3_sess env_ok None (c3_fdt :: ex_pkts) ++ [RvCleanup 200%Z [3] []]
  ++ c3_sess env_ok None [src_pkt 7 0 0 false [1; 2]; src_pkt 9 0 0 false [7; 7]; src_pkt 7 0 1 false [3; 4]].

Lemma c3_evs_two_ok : Forall (ev_genuine ex_oti ex_content 7) c3_evs_two.
Proof.
  cbv [c3_evs_two c3_sess ex_pkts map app].
  repeat (constructor; [cbn [ev_genuine]; first [exact I | intros H; vm_compute in H; discriminate H
                        | intros _; split; [vm_compute; reflexivity|split; left; reflexivity]]|]).
  constructor.
Qed.

Example c3_two_transfers_computed :
  c3_log env_ok None c3_evs_two
  = [EvBuilder 7 WStore; EvOpen (7, 0%nat) true; EvWrite (7, 0%nat) [1; 2; 3; 4] true; EvWrite (7, 0%nat) [5] true;
     EvComplete (7, 0%nat);
     EvBuilder 7 WStore; EvOpen (7, 1%nat) true; EvWrite (7, 1%nat) [1; 2; 3; 4] true].
Proof. vm_compute. reflexivity. Qed.

Example c3_two_transfers_by_theorem :
  let '(_, _, c) := recv_run env_ok (c3_parse None) c3_cfg recv0 c3_evs_two ctx0 in
  forall n, is_prefix (written (calls_of (7, n) (c_log c))) ex_content = true
            /\ P_C03_writer ex_content true (calls_of (7, n) (c_log c)) = true.
Proof.
  apply (nocode_session_safety env_ok (c3_parse None) c3_cfg ex_oti ex_content 7 c3_evs_two).
  - discriminate.
  - repeat split; vm_compute; reflexivity.
  - apply c3_fdt_lists. exact I.
  - exact c3_evs_two_ok.
Qed.

(* one payload byte altered in transit ([3;4] -> [3;9]), the FDT entry carries the digest: every block is received, the
   digest differs, the writer ends with error(); the premises of the MD5 theorems hold *)
Definition c3_pkts_altered : list apkt :=
  [src_pkt 7 1 0 false [5]; src_pkt 7 0 1 false [3; 9]; src_pkt 7 0 0 false [1; 2]].
Definition c3_content_altered : list N := [1; 2; 3; 9; 5].

Lemma c3_md5_inj : md5_injective_at c3_env ex_content.
Proof. intros b _ H. exact H. Qed.

Example c3_altered_computed :
  c3_log c3_env (Some ex_content) (c3_sess c3_env (Some ex_content) (c3_fdt :: c3_pkts_altered))
  = [EvBuilder 7 WStore; EvOpen (7, 0%nat) true; EvWrite (7, 0%nat) [1; 2; 3; 9] true; EvWrite (7, 0%nat) [5] true;
     EvError (7, 0%nat)]
  /\ forallb (shaped_pkt ex_oti 5) c3_pkts_altered = true
  /\ forallb (genuine_pkt ex_oti ex_content) c3_pkts_altered = false
  /\ forallb (genuine_pkt ex_oti c3_content_altered) c3_pkts_altered = true.
Proof. vm_compute. repeat split. Qed.

Example c3_altered_by_theorem :
  (let '(_, _, c) := recv_run c3_env (c3_parse (Some ex_content)) c3_cfg recv0
                               (c3_sess c3_env (Some ex_content) (c3_fdt :: c3_pkts_altered)) ctx0 in
   forall n, P_C03_writer ex_content true (calls_of (7, n) (c_log c)) = true)
  /\ (let (o, c) := receive c3_env 1 (fi_files (c3_inst (Some ex_content))) None 7 1000 c3_pkts_altered in
      (r_state o = Errored \/ r_state o = Interrupted)
      /\ failed (calls_of (7, 0%nat) (c_log c)) = true /\ completed (calls_of (7, 0%nat) (c_log c)) = false).
Proof.
  split.
  - apply (md5_session_safety c3_env (c3_parse (Some ex_content)) c3_cfg ex_oti ex_content 7).
    + discriminate.
    + vm_compute. reflexivity.
    + reflexivity.
    + exact c3_md5_inj.
    + apply c3_fdt_lists. reflexivity.
    + cbv [c3_sess c3_pkts_altered map].
      repeat (constructor; [cbn [ev_anybytes]; first [intros H; vm_compute in H; discriminate H
                            | intros _; split; [exact I|left; reflexivity]]|]).
      constructor.
  - apply (md5_altered_ends_in_error c3_env ex_oti ex_content c3_content_altered 7 1000 1).
    + discriminate.
    + repeat split; vm_compute; reflexivity.
    + reflexivity.
    + discriminate.
    + reflexivity.
    + exact c3_md5_inj.
    + exists (mk_ff 7 CNull (Some ex_oti) 5 (Some ex_content) None false). repeat split.
    + split; reflexivity.
    + cbv [c3_pkts_altered].
      repeat (constructor; [split; [vm_compute; reflexivity|split; [reflexivity|split; [exact I|left; reflexivity]]]|]).
      constructor.
    + vm_compute. reflexivity.
Qed.

(* without the MD5 attribute the same altered session is COMPLETED with the wrong bytes: the guard is needed *)
Example c3_altered_unguarded_corrupts :
  c3_log c3_env None (c3_sess c3_env None (c3_fdt :: c3_pkts_altered))
  = [EvBuilder 7 WStore; EvOpen (7, 0%nat) true; EvWrite (7, 0%nat) [1; 2; 3; 9] true; EvWrite (7, 0%nat) [5] true;
     EvComplete (7, 0%nat)].
Proof. vm_compute. reflexivity. Qed.

(* REFUTATIONS of the statement without pkt_ext_ok (genuine payloads, no MD5):
   (1) the first packet of the object announces, in EXT_FTI, a transfer length of 4 instead of 5: the receiver keeps
       it although the FDT instance says 5, and completes the object with 4 bytes;
   (2) the first packet carries EXT_CENC = zlib for an object the FDT declares unencoded: the receiver keeps it and
       writes what the inflater makes of the bytes *)
Definition c3_with (oti : option (roti * N)) (ce : option cenc) (p : apkt) : apkt :=
  mk_apkt (a_toi p) (a_close_obj p) (a_close_sess p) (a_fdt_id p) oti ce (a_sct p) (a_cp p)
          (a_pidbytes p) (a_payload p) (a_datalen p).
Example ext_fti_needed_refuted :
  genuine_pkt ex_oti ex_content (c3_with (Some (ex_oti, 4)) None (src_pkt 7 0 0 false [1; 2])) = true
  /\ c3_log env_ok None (c3_sess env_ok None
       [c3_with (Some (ex_oti, 4)) None (src_pkt 7 0 0 false [1; 2]); c3_fdt; src_pkt 7 0 1 false [3; 4]])
     = [EvBuilder 7 WStore; EvOpen (7, 0%nat) true; EvWrite (7, 0%nat) [1; 2; 3; 4] true; EvComplete (7, 0%nat)].
Proof. vm_compute. split; reflexivity. Qed.
Example ext_cenc_needed_refuted :
  genuine_pkt ex_oti ex_content (c3_with None (Some CZlib) (src_pkt 7 0 0 false [1; 2])) = true
  /\ c3_log c3_env None (c3_sess c3_env None
       [c3_with None (Some CZlib) (src_pkt 7 0 0 false [1; 2]); c3_fdt; src_pkt 7 0 1 false [3; 4]; src_pkt 7 1 0 false [5]])
     = [EvBuilder 7 WStore; EvOpen (7, 0%nat) true; EvWrite (7, 0%nat) [9; 9; 9; 9] true; EvWrite (7, 0%nat) [9] true;
        EvComplete (7, 0%nat)].
Proof. vm_compute. split; reflexivity. Qed.

(* Reed-Solomon (exr_* of Proofs/C02RS.v: 5 bytes, E = 2, B = 2, one parity symbol per block; toy XOR decoder): two packets
   of a first reception before the FDT instance, the instance, the rest (block 0 rebuilt from a source symbol and the
   parity symbol), then the start of a second transfer *)
Definition c3r_parse (d : list N) : option fdtinst :=
  if eqb_bytes d c3_doc then Some (mk_fi exr_files None None) else None.
Definition c3r_evs : list rev :=
  map (fun p => RvPush p 100%Z)
      (firstn 2 exr_pkts ++ c3_fdt :: skipn 2 exr_pkts ++ [rs_pkt 7 0 0 false [1; 2]; rs_pkt 7 0 1 false [3; 4]]).
Lemma c3r_fdt_lists : fdt_lists c3r_parse 7 exr_oti 5 (fun _ => True).
Proof.
  intros d i f Hp Hf. unfold c3r_parse in Hp. destruct (eqb_bytes d c3_doc); [|discriminate].
  inversion Hp; subst i. cbn in Hf. inversion Hf; subst f. repeat split.
Qed.
Lemma c3r_evs_ok : Forall (ev_rs_genuine exr_oti exr_content exr_rep 7) c3r_evs.
Proof.
  cbv [c3r_evs exr_pkts firstn skipn map app].
  repeat (constructor; [cbn [ev_rs_genuine]; first [exact I | intros H; vm_compute in H; discriminate H
                        | intros _; split; [vm_compute; reflexivity|split; left; reflexivity]]|]).
  constructor.
Qed.
Example c3r_computed :
  (let '(_, _, c) := recv_run env_xor c3r_parse c3_cfg recv0 c3r_evs ctx0 in c_log c)
  = [EvBuilder 7 WStore; EvOpen (7, 0%nat) true; EvWrite (7, 0%nat) [1; 2; 3; 4] true; EvWrite (7, 0%nat) [5] true;
     EvComplete (7, 0%nat);
     EvBuilder 7 WStore; EvOpen (7, 1%nat) true; EvWrite (7, 1%nat) [1; 2; 3; 4] true].
Proof. vm_compute. reflexivity. Qed.
Example c3r_by_theorem :
  let '(_, _, c) := recv_run env_xor c3r_parse c3_cfg recv0 c3r_evs ctx0 in
  forall n, is_prefix (written (calls_of (7, n) (c_log c))) exr_content = true
            /\ P_C03_writer exr_content true (calls_of (7, n) (c_log c)) = true.
Proof.
  apply (rs_session_safety env_xor c3r_parse c3_cfg exr_oti exr_content exr_rep 7 c3r_evs).
  - discriminate.
  - split; [left; reflexivity|]. repeat split; vm_compute; reflexivity.
  - exact (rs_oracle_mds_sound _ _ _ _ _ xor_dec_mds).
  - exact c3r_fdt_lists.
  - exact c3r_evs_ok.
Qed.
