(* Proofs about Model/Expiry.v for property C19. *)
From FluteV Require Import Model.Expiry Spec.C19Spec.
Arguments N.add : simpl never.
Arguments N.mul : simpl never.
Arguments N.sub : simpl never.
Arguments N.div : simpl never.
Arguments N.modulo : simpl never.
Arguments Z.add : simpl never.
Arguments Z.mul : simpl never.
Arguments Z.sub : simpl never.
Arguments Z.div : simpl never.

(* ------------------------------------------------------------------ A. conversions *)
Lemma spec_sct_ns_eq : forall raw, spec_sct_ns raw = ntp_to_system_time raw.
Proof.
  intros raw. unfold spec_sct_ns, ntp_to_system_time, TWO32, NTP_UNIX.
  destruct (N.ltb_spec (raw / 4294967296) 2208988800) as [H|H]; [reflexivity|].
  f_equal. lia.
Qed.

Lemma ntp_to_system_time_secs : forall s, (NTP_UNIX <= s)%N ->
  ntp_to_system_time (s * TWO32) = Some (Z.of_N (s - NTP_UNIX) * 1000000000)%Z.
Proof.
  intros s Hs. unfold ntp_to_system_time.
  assert (H1 : (s * TWO32 / TWO32 = s)%N) by (apply N.div_mul; unfold TWO32; lia).
  assert (H2 : ((s * TWO32) mod TWO32 = 0)%N) by (apply N.mod_mul; unfold TWO32; lia).
  rewrite H1, H2.
  destruct (N.ltb_spec s NTP_UNIX) as [H|H]; [lia|].
  f_equal. change (0 * 1000000 / TWO32)%N with 0%N. lia.
Qed.

Lemma fold_digits_ge : forall ds a, (a <= fold_left (fun a c => a * 10 + (c - 48)) ds a)%N.
Proof.
  induction ds as [|c r IH]; intros a; cbn [fold_left]; [lia|].
  specialize (IH (a * 10 + (c - 48))%N). lia.
Qed.

Lemma parse_digits_spec : forall ds a, (a < TWO32)%N ->
  parse_digits a ds =
  if forallb is_digit ds then
    let v := fold_left (fun a c => (a * 10 + (c - 48))%N) ds a in
    if (v <? 4294967296)%N then Some v else None
  else None.
Proof.
  induction ds as [|c r IH]; intros a Ha; cbn [parse_digits forallb fold_left].
  - cbv zeta. destruct (N.ltb_spec a 4294967296) as [H|H]; [reflexivity|unfold TWO32 in Ha; lia].
  - unfold is_digit at 1. destruct ((48 <=? c)%N && (c <=? 57)%N); cbn [andb]; [|reflexivity].
    destruct (N.ltb_spec (a * 10 + (c - 48)) TWO32) as [H|H].
    + apply IH. exact H.
    + destruct (forallb is_digit r); [|reflexivity]. cbv zeta.
      pose proof (fold_digits_ge r (a * 10 + (c - 48))%N) as G.
      destruct (N.ltb_spec (fold_left (fun a0 c0 => (a0 * 10 + (c0 - 48))%N) r (a * 10 + (c - 48))%N) 4294967296) as [K|K];
        [unfold TWO32 in H; lia|reflexivity].
Qed.

Lemma spec_decimal_eq : forall s, spec_decimal s = parse_u32 s.
Proof.
  intros s. unfold spec_decimal, parse_u32.
  destruct s as [|c r]; [reflexivity|].
  destruct (N.eqb_spec c 43) as [Hc|Hc].
  - destruct r as [|c' r']; [reflexivity|].
    rewrite parse_digits_spec by (unfold TWO32; lia). reflexivity.
  - rewrite parse_digits_spec by (unfold TWO32; lia). reflexivity.
Qed.

Lemma parse_digits_lt : forall ds a v, parse_digits a ds = Some v -> (a < TWO32)%N -> (v < TWO32)%N.
Proof.
  induction ds as [|c r IH]; intros a v H Ha; cbn [parse_digits] in H.
  - inversion H; subst; exact Ha.
  - destruct ((48 <=? c)%N && (c <=? 57)%N); [|discriminate].
    destruct (N.ltb_spec (a * 10 + (c - 48)) TWO32) as [K|K]; [|discriminate].
    eapply IH; eauto.
Qed.

Lemma parse_u32_lt : forall s v, parse_u32 s = Some v -> (v < TWO32)%N.
Proof.
  intros s v H. unfold parse_u32 in H. destruct s as [|c r]; [discriminate|].
  destruct (c =? 43)%N.
  - destruct r; [discriminate|]. eapply parse_digits_lt; eauto. unfold TWO32; lia.
  - eapply parse_digits_lt; eauto. unfold TWO32; lia.
Qed.

Lemma spec_expires_eq : forall es, spec_expires_ns es = expires_of es.
Proof.
  intros es. unfold spec_expires_ns, expires_of. rewrite spec_decimal_eq.
  destruct (parse_u32 es) as [s|] eqn:E; [|reflexivity].
  destruct (N.ltb_spec s 2208988800) as [H|H].
  - unfold ntp_to_system_time.
    assert (H1 : (s * TWO32 / TWO32 = s)%N) by (apply N.div_mul; unfold TWO32; lia).
    rewrite H1. destruct (N.ltb_spec s NTP_UNIX) as [K|K]; [reflexivity|unfold NTP_UNIX in K; lia].
  - rewrite ntp_to_system_time_secs by (unfold NTP_UNIX; lia). reflexivity.
Qed.

Lemma spec_sct_eq : forall sct,
  spec_sct sct = match sct with Some raw => ntp_to_system_time raw | None => None end.
Proof. intros [raw|]; cbn [spec_sct]; [apply spec_sct_ns_eq|reflexivity]. Qed.

(* every usable sender current time and every usable Expires is a small non-negative instant *)
Lemma ntp_to_system_time_range : forall raw t, (raw < TWO64)%N -> ntp_to_system_time raw = Some t ->
  (0 <= t < 4294967296000000000)%Z.
Proof.
  intros raw t Hr H. unfold ntp_to_system_time in H.
  destruct (N.ltb_spec (raw / TWO32) NTP_UNIX) as [K|K]; [discriminate|].
  inversion H; subst; clear H.
  assert (Hq : (raw / TWO32 < TWO32)%N).
  { apply N.div_lt_upper_bound; [unfold TWO32; lia|]. unfold TWO32, TWO64 in *. lia. }
  assert (Hm : (raw mod TWO32 < TWO32)%N) by (apply N.mod_lt; unfold TWO32; lia).
  assert (Hs : ((raw mod TWO32) * 1000000 / TWO32 < 1000000)%N).
  { apply N.div_lt_upper_bound; [unfold TWO32; lia|]. unfold TWO32 in *. lia. }
  set (q := (raw / TWO32)%N) in *. set (m := ((raw mod TWO32) * 1000000 / TWO32)%N) in *.
  clearbody q m. unfold NTP_UNIX, TWO32 in *. lia.
Qed.

(* ------------------------------------------------------------------ B. the decision *)
(* the (late, magnitude) pair encodes the signed difference now - sender time *)
Definition signed_off (o : bool * Z) : Z := if fst o then snd o else (- snd o)%Z.

Lemma offset_of_signed : forall now res, signed_off (offset_of now res) = (now - res)%Z.
Proof.
  intros. unfold offset_of, signed_off. destruct (Z.ltb_spec res now); cbn [fst snd]; lia.
Qed.

Lemma offset_of_nonneg : forall now res, (0 <= snd (offset_of now res))%Z.
Proof. intros. unfold offset_of. destruct (Z.ltb_spec res now); cbn [snd]; lia. Qed.

(* the receiver's estimate of the sender's clock at [now] *)
Definition est_off (off : option (bool * Z)) (now : Z) : Z :=
  match off with Some o => (now - signed_off o)%Z | None => now end.

Lemma st_add_some : forall t d r, st_add t d = Some r -> r = (t + d)%Z.
Proof. intros t d r H. unfold st_add in H. destruct (st_ok (t + d)); inversion H; reflexivity. Qed.
Lemma st_sub_some : forall t d r, st_sub t d = Some r -> r = (t - d)%Z.
Proof. intros t d r H. unfold st_sub in H. destruct (st_ok (t - d)); inversion H; reflexivity. Qed.

Lemma get_server_time_some : forall fr now t,
  get_server_time fr now = Some t -> t = est_off (fr_off fr) now.
Proof.
  intros fr now t H. unfold get_server_time in H. unfold est_off, signed_off.
  destruct (fr_off fr) as [[[|] d]|]; cbn [fst snd].
  - apply st_sub_some in H. lia.
  - apply st_add_some in H. lia.
  - inversion H; reflexivity.
Qed.

Lemma is_expired_some : forall fr now b, is_expired fr now = Some b ->
  b = match fr_expires fr with None => true | Some e => (e <? est_off (fr_off fr) now)%Z end.
Proof.
  intros fr now b H. unfold is_expired in H. destruct (fr_expires fr) as [e|]; [|inversion H; reflexivity].
  destruct (get_server_time fr now) as [t|] eqn:E; [|discriminate].
  apply get_server_time_some in E. inversion H; subst. reflexivity.
Qed.

Definition unexpired_at (fr : fdtrecv) (now : Z) : Prop :=
  exists e, fr_expires fr = Some e /\ (est_off (fr_off fr) now <= e)%Z.

Lemma update_expired_cases : forall fr now fr', update_expired_state fr now = Some fr' ->
  (fr' = fr /\ (is_complete fr = true -> fr_check fr = true -> unexpired_at fr now))
  \/ (fr' = fr_set_state fr Expired /\ fr_state fr = Complete /\ fr_check fr = true
      /\ ~ unexpired_at fr now).
Proof.
  intros fr now fr' H. unfold update_expired_state in H.
  destruct (is_complete fr) eqn:Ec; cbn [andb] in H.
  - destruct (fr_check fr) eqn:Ek.
    + destruct (is_expired fr now) as [b|] eqn:Ee; [|discriminate].
      apply is_expired_some in Ee. destruct b; injection H as <-.
      * right. repeat split; auto.
        { unfold is_complete in Ec. destruct (fr_state fr); try discriminate; reflexivity. }
        intros [e [He Hle]]. rewrite He in Ee. symmetry in Ee. apply Z.ltb_lt in Ee. lia.
      * left. split; [reflexivity|]. intros _ _. destruct (fr_expires fr) as [e|] eqn:Ex; [|discriminate].
        exists e. split; [exact Ex|]. symmetry in Ee. apply Z.ltb_ge in Ee. exact Ee.
    + injection H as <-. left. split; [reflexivity|]. intros _ K; discriminate.
  - injection H as <-. left. split; [reflexivity|]. intros K; discriminate.
Qed.

Lemma update_expired_id : forall fr now fr', update_expired_state fr now = Some fr' ->
  fr_id fr' = fr_id fr /\ fr_tois fr' = fr_tois fr /\ fr_expires fr' = fr_expires fr
  /\ fr_off fr' = fr_off fr /\ fr_check fr' = fr_check fr /\ fr_got fr' = fr_got fr.
Proof.
  intros fr now fr' H. apply update_expired_cases in H. destruct H as [[-> _]|[-> _]]; cbn; auto 10.
Qed.

Lemma is_complete_true : forall fr, is_complete fr = true <-> fr_state fr = Complete.
Proof. intros fr. unfold is_complete. destruct (fr_state fr); cbn; split; intros; try discriminate; auto. Qed.
Lemma is_receiving_true : forall fr, is_receiving fr = true <-> fr_state fr = Receiving.
Proof. intros fr. unfold is_receiving. destruct (fr_state fr); cbn; split; intros; try discriminate; auto. Qed.

(* ------------------------------------------------------------------ C. provenance invariant *)
Definition sct_time (sct : option N) : option Z :=
  match sct with Some raw => ntp_to_system_time raw | None => None end.

(* per instance id, either all packets carry a usable SCT or none *)
Definition UniformP (l : list event) : Prop :=
  forall id s1 i1 n1 c1 t1 s2 i2 n2 c2 t2,
    In (EvFdtPkt id s1 i1 n1 c1 t1) l -> In (EvFdtPkt id s2 i2 n2 c2 t2) l ->
    (sct_time s1 = None <-> sct_time s2 = None).

(* where the fields of an FDT receiver come from, in terms of the packets received so far *)
Definition fr_wf (chk : bool) (hist : list event) (fr : fdtrecv) : Prop :=
  fr_check fr = chk
  /\ (forall o, fr_off fr = Some o -> exists sct idx n c rx res,
        In (EvFdtPkt (fr_id fr) sct idx n c rx) hist /\ sct_time sct = Some res /\ o = offset_of rx res)
  /\ (fr_state fr = Complete \/ fr_state fr = Expired ->
        exists sct idx n es rx,
          In (EvFdtPkt (fr_id fr) sct idx n (Some (es, fr_tois fr)) rx) hist
          /\ fr_expires fr = expires_of es
          /\ (forall res, sct_time sct = Some res -> fr_off fr = Some (offset_of rx res))).

Lemma fr_wf_mono : forall chk hist hist' fr, incl hist hist' -> fr_wf chk hist fr -> fr_wf chk hist' fr.
Proof.
  intros chk hist hist' fr Hi (H1 & H2 & H3). split; [exact H1|]. split.
  - intros o Ho. destruct (H2 o Ho) as (sct & idx & n & c & rx & res & Hin & Hs & He).
    exists sct, idx, n, c, rx, res. auto.
  - intros Hst. destruct (H3 Hst) as (sct & idx & n & es & rx & Hin & He & Ho).
    exists sct, idx, n, es, rx. auto.
Qed.

Lemma fr_wf_new : forall chk hist id, fr_wf chk hist (fr_new id chk).
Proof.
  intros. unfold fr_new. split; [reflexivity|]. split; cbn.
  - intros o Ho; discriminate.
  - intros [H|H]; discriminate.
Qed.

Lemma fdt_push_id : forall fr sct idx n c now, fr_id (fdt_push fr sct idx n c now) = fr_id fr.
Proof.
  intros. unfold fdt_push.
  set (fr1 := match sct with Some raw => match ntp_to_system_time raw with Some res => fr_set_off fr (Some (offset_of now res)) | None => fr end | None => fr end).
  assert (Hid : fr_id fr1 = fr_id fr).
  { subst fr1. destruct sct as [raw|]; [|reflexivity]. destruct (ntp_to_system_time raw); reflexivity. }
  destruct ((idx <? n)%N && negb (memN idx (fr_got fr1))); [|exact Hid].
  destruct (N.of_nat (length (idx :: fr_got fr1)) =? n)%N; [|exact Hid].
  destruct c as [[es tois]|]; exact Hid.
Qed.

Lemma fr_wf_push : forall chk hist fr sct idx n c now,
  fr_wf chk hist fr -> fr_state fr = Receiving ->
  fr_wf chk (EvFdtPkt (fr_id fr) sct idx n c now :: hist) (fdt_push fr sct idx n c now).
Proof.
  intros chk hist fr sct idx n c now Hwf Hst.
  set (ev := EvFdtPkt (fr_id fr) sct idx n c now).
  assert (Hwf' : fr_wf chk (ev :: hist) fr) by (eapply fr_wf_mono; [|exact Hwf]; apply incl_tl, incl_refl).
  unfold fdt_push.
  set (fr1 := match sct with Some raw => match ntp_to_system_time raw with Some res => fr_set_off fr (Some (offset_of now res)) | None => fr end | None => fr end).
  (* fr1: same as fr but the offset is the one of this packet when it has a usable SCT *)
  assert (H1 : fr_id fr1 = fr_id fr /\ fr_state fr1 = Receiving /\ fr_check fr1 = chk
               /\ (forall o, fr_off fr1 = Some o -> exists sct' idx' n' c' rx res,
                     In (EvFdtPkt (fr_id fr) sct' idx' n' c' rx) (ev :: hist) /\ sct_time sct' = Some res /\ o = offset_of rx res)
               /\ (forall res, sct_time sct = Some res -> fr_off fr1 = Some (offset_of now res))).
  { destruct Hwf' as (K1 & K2 & K3). subst fr1.
    destruct sct as [raw|]; cbn [sct_time].
    - destruct (ntp_to_system_time raw) as [res|] eqn:E.
      + cbn. repeat split; auto.
        * intros o Ho. inversion Ho; subst. exists (Some raw), idx, n, c, now, res.
          split; [left; reflexivity|]. split; [exact E|reflexivity].
        * intros res' Hr. inversion Hr; subst. reflexivity.
      + repeat split; auto. intros res Hr; discriminate.
    - repeat split; auto. intros res Hr; discriminate. }
  destruct H1 as (Hid & Hst1 & Hck & Hoff & Hthis).
  assert (Hrecv : forall g, fr_wf chk (ev :: hist) (fr_set_got fr1 g)).
  { intros g. split; [exact Hck|]. split; cbn.
    - rewrite Hid. exact Hoff.
    - rewrite Hst1. intros [K|K]; discriminate. }
  assert (Hfr1 : fr_wf chk (ev :: hist) fr1).
  { split; [exact Hck|]. split.
    - rewrite Hid. exact Hoff.
    - rewrite Hst1. intros [K|K]; discriminate. }
  destruct ((idx <? n)%N && negb (memN idx (fr_got fr1))); [|exact Hfr1].
  destruct (N.of_nat (length (idx :: fr_got fr1)) =? n)%N; [|apply Hrecv].
  destruct c as [[es tois]|].
  - split; [exact Hck|]. split; cbn.
    + rewrite Hid. exact Hoff.
    + intros _. exists sct, idx, n, es, now. rewrite Hid. split; [left; reflexivity|]. split; [reflexivity|exact Hthis].
  - split; [exact Hck|]. split; cbn.
    + rewrite Hid. exact Hoff.
    + intros [K|K]; discriminate.
Qed.

Lemma fr_wf_update : forall chk hist fr now fr',
  update_expired_state fr now = Some fr' -> fr_wf chk hist fr -> fr_wf chk hist fr'.
Proof.
  intros chk hist fr now fr' H Hwf. apply update_expired_cases in H.
  destruct H as [[-> _]|[-> (Hst & _)]]; [exact Hwf|].
  destruct Hwf as (K1 & K2 & K3). split; [exact K1|]. split; cbn; [exact K2|].
  intros _. apply K3. left; exact Hst.
Qed.

Lemma existsb_justified : forall chk band hist now toi oid ev,
  In ev hist -> pkt_justifies chk band now toi oid ev = true -> justified chk band hist now toi oid = true.
Proof. intros. unfold justified. apply existsb_exists. exists ev. auto. Qed.

(* the heart of (a): a Complete receiver listing [toi] and unexpired by its own estimate is justified, at the
   level of events, by the packet that completed it *)
Lemma wf_justifies : forall chk band hist fr now toi oid,
  fr_wf chk hist fr -> UniformP hist -> fr_state fr = Complete -> memN toi (fr_tois fr) = true ->
  (chk = true -> unexpired_at fr now) -> (0 <= band)%Z ->
  (oid = None \/ oid = Some (fr_id fr)) ->
  justified chk band hist now toi oid = true.
Proof.
  intros chk band hist fr now toi oid (K1 & K2 & K3) Hu Hst Hmem Hun Hb Hoid.
  destruct (K3 (or_introl Hst)) as (sct & idx & n & es & rx & Hin & He & Ho).
  eapply existsb_justified; [exact Hin|]. cbn [pkt_justifies pkt_live].
  assert (Hi : (match oid with Some i => (i =? fr_id fr)%N | None => true end) = true).
  { destruct Hoid as [->| ->]; [reflexivity|apply N.eqb_refl]. }
  rewrite Hi, Hmem. cbn [andb].
  destruct chk; cbn [negb orb]; [|reflexivity].
  destruct (Hun eq_refl) as (e & Hexp & Hle).
  rewrite spec_expires_eq, <- He, Hexp. apply Z.leb_le.
  rewrite spec_sct_eq. fold (sct_time sct).
  destruct (sct_time sct) as [res|] eqn:Es; cbn [estimate].
  - rewrite (Ho res eq_refl) in Hle. cbn [est_off] in Hle. rewrite offset_of_signed in Hle. lia.
  - destruct (fr_off fr) as [o|] eqn:Eo.
    + exfalso. destruct (K2 o eq_refl) as (sct' & idx' & n' & c' & rx' & res' & Hin' & Hs' & _).
      pose proof (Hu _ _ _ _ _ _ _ _ _ _ _ Hin Hin') as [Hx _]. rewrite (Hx Es) in Hs'. discriminate.
    + cbn [est_off] in Hle. lia.
Qed.

Definition Inv (chk : bool) (hist : list event) (s : rstate) : Prop :=
  Forall (fr_wf chk hist) (r_fdt_receivers s) /\ Forall (fr_wf chk hist) (r_fdt_current s).

(* object [toi] is in [objects] with a writer (attached to some instance) *)
Definition attached (s : rstate) (toi : N) : Prop :=
  exists o, In o (r_objects s) /\ o_toi o = toi /\ o_fdt o <> None.

Definition open_ok (chk : bool) (band : Z) (hist : list event) (now : Z) (toi id : N) : Prop :=
  forall oid, oid = None \/ oid = Some id -> justified chk band hist now toi oid = true.

Lemma Forall_wf_mono : forall chk hist ev l, Forall (fr_wf chk hist) l -> Forall (fr_wf chk (ev :: hist)) l.
Proof.
  intros. eapply Forall_impl; [|eassumption]. intros fr Hf. eapply fr_wf_mono; [|exact Hf]. apply incl_tl, incl_refl.
Qed.

Lemma Forall_incl : forall {A} (P : A -> Prop) l l', incl l' l -> Forall P l -> Forall P l'.
Proof. intros A P l l' Hi Hf. apply Forall_forall. intros x Hx. rewrite Forall_forall in Hf. auto. Qed.

Lemma incl_filter : forall {A} (f : A -> bool) l, incl (filter f l) l.
Proof. intros A f l x Hx. apply filter_In in Hx. tauto. Qed.

Lemma incl_removelast : forall {A} (l : list A), incl (removelast l) l.
Proof.
  induction l as [|a l IH]; [apply incl_refl|]. cbn [removelast]. destruct l as [|b l'].
  - intros x Hx; inversion Hx.
  - intros x [Hx|Hx]; [left; exact Hx|right; apply IH; exact Hx].
Qed.

Lemma incl_trim : forall (fr : fdtrecv) cur,
  incl (if (10 <? length (fr :: cur))%nat then removelast (fr :: cur) else fr :: cur) (fr :: cur).
Proof. intros. destruct (10 <? length (fr :: cur))%nat; [apply incl_removelast|apply incl_refl]. Qed.

Lemma attach_walk_spec : forall chk hist toi now l l' r,
  attach_walk toi now l = Some (l', r) -> Forall (fr_wf chk hist) l ->
  Forall (fr_wf chk hist) l'
  /\ (forall id, r = Some id -> exists fr, In fr l' /\ fr_id fr = id /\ fr_state fr = Complete
                                     /\ memN toi (fr_tois fr) = true /\ (chk = true -> unexpired_at fr now)).
Proof.
  intros chk hist toi now. induction l as [|fr rest IH]; intros l' r H Hf; cbn [attach_walk] in H.
  - inversion H; subst. split; [constructor|]. intros id K; discriminate.
  - inversion Hf as [|? ? Hfr Hrest]; subst.
    destruct (update_expired_state fr now) as [fr'|] eqn:Eu; [|discriminate].
    pose proof (fr_wf_update _ _ _ _ _ Eu Hfr) as Hwf'.
    destruct (is_complete fr' && memN toi (fr_tois fr')) eqn:Ec.
    + inversion H; subst; clear H. split; [constructor; assumption|].
      intros id K. inversion K; subst; clear K. exists fr'. apply andb_prop in Ec. destruct Ec as [Ec Em].
      split; [left; reflexivity|]. split; [reflexivity|]. split; [apply is_complete_true; exact Ec|]. split; [exact Em|].
      intros Hchk. pose proof (update_expired_cases _ _ _ Eu) as [[Heq Hun]|[Heq _]].
      * subst fr'. apply Hun; [exact Ec|]. destruct Hfr as (K1 & _). rewrite K1; exact Hchk.
      * subst fr'. cbn in Ec. discriminate.
    + destruct (attach_walk toi now rest) as [[rest' r']|] eqn:Ew; [|discriminate].
      inversion H; subst; clear H. destruct (IH _ _ eq_refl Hrest) as [Hf' Hr'].
      split; [constructor; assumption|]. intros id K. destruct (Hr' id K) as (fr0 & Hin & Hrest0).
      exists fr0. split; [right; exact Hin|exact Hrest0].
Qed.

Lemma map_opt_Forall : forall chk hist now l l',
  map_opt (fun fr => update_expired_state fr now) l = Some l' ->
  Forall (fr_wf chk hist) l -> Forall (fr_wf chk hist) l'.
Proof.
  intros chk hist now. induction l as [|fr r IH]; intros l' H Hf; cbn [map_opt] in H.
  - inversion H; constructor.
  - inversion Hf; subst. destruct (update_expired_state fr now) as [fr'|] eqn:Eu; [|discriminate].
    destruct (map_opt (fun fr0 => update_expired_state fr0 now) r) as [r'|] eqn:Em; [|discriminate].
    inversion H; subst. constructor; [eapply fr_wf_update; eauto|apply IH; auto].
Qed.

Lemma step_spec : forall chk once band hist s ev s' acts,
  step (mkCfg chk once) s ev = Some (s', acts) ->
  Inv chk hist s -> UniformP (ev :: hist) -> (0 <= band)%Z ->
  Inv chk (ev :: hist) s'
  /\ (forall toi id, In (AOpen toi id) acts ->
        exists now, ev_time ev = Some now /\ open_ok chk band (ev :: hist) now toi id)
  /\ (forall toi, In (AEnd toi) acts -> attached s toi)
  /\ (forall toi, attached s' toi -> attached s toi \/ exists id, In (AOpen toi id) acts).
Proof.
  intros chk once band hist s ev s' acts Hstep [Hr Hc] Hu Hb.
  assert (Hr' := Forall_wf_mono chk hist ev _ Hr). assert (Hc' := Forall_wf_mono chk hist ev _ Hc).
  destruct ev as [id sct idx n content now|toi first now|toi k|now]; cbn [step] in Hstep.
  - (* FDT packet *)
    unfold push_fdt in Hstep. cbn [c_once c_check] in Hstep.
    destruct (once && existsb (has_id id) (r_fdt_current s)).
    { inversion Hstep; subst. split; [split; assumption|]. split; [intros ? ? []|]. split; [intros ? []|]. intros; left; assumption. }
    set (fr0 := match find (has_id id) (r_fdt_receivers s) with Some fr => fr | None => fr_new id chk end) in *.
    set (others := filter (fun fr => negb (has_id id fr)) (r_fdt_receivers s)) in *.
    assert (H0 : fr_wf chk hist fr0 /\ fr_id fr0 = id).
    { subst fr0. destruct (find (has_id id) (r_fdt_receivers s)) as [fr|] eqn:Ef.
      - apply find_some in Ef. destruct Ef as [Hin Hid]. rewrite Forall_forall in Hr.
        split; [apply Hr; exact Hin|]. unfold has_id in Hid. apply N.eqb_eq in Hid. exact Hid.
      - split; [apply fr_wf_new|reflexivity]. }
    destruct H0 as [Hwf0 Hid0].
    assert (Ho' : Forall (fr_wf chk (EvFdtPkt id sct idx n content now :: hist)) others).
    { eapply Forall_incl; [|exact Hr']. apply incl_filter. }
    clearbody fr0 others.
    destruct (is_receiving fr0) eqn:Erecv; cbn [negb] in Hstep.
    2:{ inversion Hstep; subst s' acts; clear Hstep. split.
        { split; cbn; [constructor; [eapply fr_wf_mono; [|exact Hwf0]; apply incl_tl, incl_refl|exact Ho']|exact Hc']. }
        split; [intros ? ? []|]. split; [intros ? []|]. intros toi Ha; left; exact Ha. }
    apply is_receiving_true in Erecv.
    pose proof (fr_wf_push chk hist fr0 sct idx n content now Hwf0 Erecv) as Hwf1. rewrite Hid0 in Hwf1.
    destruct (update_expired_state (fdt_push fr0 sct idx n content now) now) as [fr2|] eqn:Eu; [|discriminate].
    pose proof (fr_wf_update _ _ _ _ _ Eu Hwf1) as Hwf2.
    pose proof (update_expired_id _ _ _ Eu) as (Hid2 & _). rewrite fdt_push_id, Hid0 in Hid2.
    destruct (is_complete fr2) eqn:Ec2.
    + (* the instance completes unexpired: attach to the waiting objects *)
      inversion Hstep; subst s' acts; clear Hstep.
      assert (Hun : chk = true -> unexpired_at fr2 now).
      { intros Hchk. pose proof (update_expired_cases _ _ _ Eu) as [[Heq Hun]|[Heq _]].
        - subst fr2. apply Hun; [exact Ec2|]. destruct Hwf1 as (K1 & _). rewrite K1; exact Hchk.
        - subst fr2. cbn in Ec2. discriminate. }
      split.
      { split; cbn [r_fdt_receivers r_fdt_current]; [exact Ho'|].
        eapply Forall_incl with (l := fr2 :: r_fdt_current s); [|constructor; assumption].
        exact (incl_trim fr2 (r_fdt_current s)). }
      split.
      { intros toi id' Hin. apply in_map_iff in Hin. destruct Hin as (o & Heq & Hin). inversion Heq; subst; clear Heq.
        apply filter_In in Hin. destruct Hin as [_ Hat]. exists now. split; [reflexivity|].
        intros oid Hoid. eapply wf_justifies with (fr := fr2); eauto.
        - apply is_complete_true; exact Ec2.
        - unfold attachable in Hat. destruct (o_fdt o); [discriminate|exact Hat].
        - rewrite Hid2; exact Hoid. }
      split.
      { intros toi Hin. apply in_map_iff in Hin. destruct Hin as (o & Heq & _). discriminate. }
      intros toi (o' & Hin & Ht & Hf). cbn [r_objects] in Hin. apply in_map_iff in Hin. destruct Hin as (o & Heq & Hin).
      destruct (attachable (fr_tois fr2) o) eqn:Eat.
      * right. exists id. apply in_map_iff. exists o. subst o'. cbn in Ht. subst toi. split; [reflexivity|].
        apply filter_In. split; assumption.
      * left. subst o'. exists o. auto.
    + assert (Hinv : Inv chk (EvFdtPkt id sct idx n content now :: hist)
                         (mkR (r_objects s) (r_completed s) (fr2 :: others) (r_fdt_current s))).
      { split; cbn; [constructor; assumption|exact Hc']. }
      assert (Hs' : s' = mkR (r_objects s) (r_completed s) (fr2 :: others) (r_fdt_current s) /\ acts = []).
      { destruct (fdtstate_eqb (fr_state fr2) Expired).
        - destruct (get_server_time fr2 now); [|discriminate].
          destruct (chrono_ok _ && chrono_ok z); inversion Hstep; auto.
        - inversion Hstep; auto. }
      destruct Hs' as [-> ->]. split; [exact Hinv|]. split; [intros ? ? []|]. split; [intros ? []|].
      intros toi Ha; left; exact Ha.
  - (* object packet *)
    unfold push_obj in Hstep. cbn [c_once] in Hstep.
    destruct (memN toi (r_completed s) && (once || negb first)).
    { inversion Hstep; subst. split; [split; assumption|]. split; [intros ? ? []|]. split; [intros ? []|]. intros; left; assumption. }
    destruct (existsb (has_toi toi) (r_objects s)).
    { inversion Hstep; subst. split; [split; assumption|]. split; [intros ? ? []|]. split; [intros ? []|]. intros t Ha; left; exact Ha. }
    destruct (attach_walk toi now (r_fdt_current s)) as [[cur' r]|] eqn:Ew; [|discriminate].
    inversion Hstep; subst s' acts; clear Hstep.
    destruct (attach_walk_spec chk (EvObjPkt toi first now :: hist) _ _ _ _ _ Ew Hc') as [Hcur' Hr0].
    split; [split; assumption|]. split.
    { intros t id Hin. destruct r as [id0|]; [|inversion Hin]. destruct Hin as [Heq|[]]. inversion Heq; subst; clear Heq.
      destruct (Hr0 id eq_refl) as (fr & Hin & Hid & Hst & Hm & Hun). exists now. split; [reflexivity|].
      intros oid Hoid. rewrite Forall_forall in Hcur'. eapply wf_justifies; eauto. rewrite Hid; exact Hoid. }
    split.
    { intros t Hin. destruct r; [destruct Hin as [K|[]]; discriminate|inversion Hin]. }
    intros t (o & [Heq|Hin] & Ht & Hf).
    + subst o. cbn in Ht, Hf. subst t. destruct r as [id|]; [|congruence]. right. exists id. left; reflexivity.
    + left. exists o. auto.
  - (* an object ends *)
    inversion Hstep as [Hoe]; clear Hstep. unfold obj_end in Hoe.
    destruct (find (has_toi toi) (r_objects s)) as [o|] eqn:Ef.
    2:{ inversion Hoe; subst. split; [split; assumption|]. split; [intros ? ? []|]. split; [intros ? []|]. intros; left; assumption. }
    inversion Hoe; subst s' acts; clear Hoe. apply find_some in Ef. destruct Ef as [Hin Hto].
    unfold has_toi in Hto. apply N.eqb_eq in Hto.
    split; [split; assumption|]. split.
    { intros t id Hi. destruct (o_fdt o); [destruct Hi as [K|[]]; discriminate|inversion Hi]. }
    split.
    { intros t Hi. destruct (o_fdt o) eqn:Eo; [|inversion Hi]. destruct Hi as [K|[]]. inversion K; subst.
      exists o. split; [exact Hin|]. split; [reflexivity|congruence]. }
    intros t (o' & Hin' & Ht & Hf). cbn [r_objects] in Hin'. apply filter_In in Hin'. left. exists o'. tauto.
  - (* cleanup *)
    unfold cleanup in Hstep.
    destruct (map_opt (fun fr => update_expired_state fr now) (r_fdt_receivers s)) as [l|] eqn:Em; [|discriminate].
    inversion Hstep; subst s' acts; clear Hstep.
    split.
    { split; cbn; [|exact Hc']. eapply Forall_incl; [apply incl_filter|]. eapply map_opt_Forall; eauto. }
    split; [intros ? ? []|]. split; [intros ? []|]. intros t Ha; left; exact Ha.
Qed.

Lemma memN_In : forall x l, memN x l = true <-> In x l.
Proof.
  intros x l. unfold memN. rewrite existsb_exists. split.
  - intros (y & Hin & He). apply N.eqb_eq in He. subst; exact Hin.
  - intros Hin. exists x. split; [exact Hin|apply N.eqb_refl].
Qed.

Lemma memN_app : forall x l l', memN x (l ++ l') = memN x l || memN x l'.
Proof. intros. unfold memN. apply existsb_app. Qed.

Lemma UniformP_incl : forall l l', incl l' l -> UniformP l -> UniformP l'.
Proof. intros l l' Hi Hu id s1 i1 n1 c1 t1 s2 i2 n2 c2 t2 H1 H2. eapply Hu; apply Hi; eassumption. Qed.

Lemma justified_in_now : forall chk band hist now toi,
  justified chk band hist now toi None = true -> In toi (justified_now chk band hist now).
Proof.
  intros chk band hist now toi H. unfold justified in H. apply existsb_exists in H.
  destruct H as (ev & Hin & Hp). unfold justified_now. apply in_flat_map. exists ev. split; [exact Hin|].
  destruct ev as [id sct idx n [[es tois]|] rx| | |]; cbn [pkt_justifies] in Hp; try discriminate.
  apply andb_prop in Hp. destruct Hp as [Hp Hl]. apply andb_prop in Hp. destruct Hp as [_ Hm].
  rewrite Hl. cbn [tois_of_event]. apply memN_In; exact Hm.
Qed.

Lemma in_now_justified : forall chk band hist now toi,
  In toi (justified_now chk band hist now) -> justified chk band hist now toi None = true.
Proof.
  intros chk band hist now toi H. unfold justified_now in H. apply in_flat_map in H. destruct H as (ev & Hin & Ht).
  unfold justified. apply existsb_exists. exists ev. split; [exact Hin|].
  destruct (pkt_live chk band now ev) eqn:El; [|inversion Ht].
  destruct ev as [id sct idx n [[es tois]|] rx| | |]; cbn [tois_of_event] in Ht; try (inversion Ht; fail).
  cbn [pkt_justifies]. rewrite El. apply memN_In in Ht. rewrite Ht. reflexivity.
Qed.

(* (a) and (b) for every run of the model, every band >= 0, with or without instance ids *)
Lemma run_spec : forall evs chk once band use_id hist jset s s' outs,
  run (mkCfg chk once) s evs = Some (s', outs) ->
  Inv chk hist s -> UniformP (evs ++ hist) -> (0 <= band)%Z ->
  (forall toi, attached s toi -> memN toi jset = true) ->
  sound_from chk band use_id hist evs outs = true /\ silent_from chk band hist jset evs outs = true.
Proof.
  induction evs as [|ev r IH]; intros chk once band use_id hist jset s s' outs Hrun Hinv Hu Hb Hj.
  - cbn [run] in Hrun. inversion Hrun; subst. split; reflexivity.
  - cbn [run] in Hrun.
    destruct (step (mkCfg chk once) s ev) as [[s1 a]|] eqn:Es; [|discriminate].
    destruct (run (mkCfg chk once) s1 r) as [[s2 outs']|] eqn:Er; [|discriminate].
    inversion Hrun; subst s' outs; clear Hrun.
    assert (Hu1 : UniformP (ev :: hist)).
    { eapply UniformP_incl; [|exact Hu]. intros x [Hx|Hx]; [left; exact Hx|]. apply in_or_app. right; exact Hx. }
    destruct (step_spec chk once band hist s ev s1 a Es Hinv Hu1 Hb) as (Hinv1 & Hopen & Hend & Hatt).
    set (jset' := match ev_time ev with Some now => justified_now chk band (ev :: hist) now ++ jset | None => jset end).
    assert (Hjmono : forall t, memN t jset = true -> memN t jset' = true).
    { intros t Ht. subst jset'. destruct (ev_time ev); [|exact Ht]. rewrite memN_app, Ht. apply orb_true_r. }
    assert (Hjopen : forall toi id, In (AOpen toi id) a -> memN toi jset' = true).
    { intros toi id Hin. destruct (Hopen toi id Hin) as (now & Het & Hok). subst jset'. rewrite Het.
      rewrite memN_app. apply orb_true_iff. left. apply memN_In.
      apply justified_in_now. exact (Hok None (or_introl eq_refl)). }
    assert (Hu2 : UniformP (r ++ ev :: hist)).
    { eapply UniformP_incl; [|exact Hu]. intros x Hx. apply in_app_or in Hx. cbn [app].
      destruct Hx as [Hx|[Hx|Hx]]; [right; apply in_or_app; left; exact Hx|left; exact Hx|right; apply in_or_app; right; exact Hx]. }
    assert (Hj1 : forall toi, attached s1 toi -> memN toi jset' = true).
    { intros toi Ha. destruct (Hatt toi Ha) as [Hs|[id Hin]]; [apply Hjmono, Hj; exact Hs|eapply Hjopen; exact Hin]. }
    destruct (IH chk once band use_id (ev :: hist) jset' s1 s2 outs' Er Hinv1 Hu2 Hb Hj1) as [IHs IHq].
    split.
    + cbn [sound_from]. apply andb_true_intro. split; [|exact IHs].
      apply forallb_forall. intros [toi id|toi] Hin; [|reflexivity].
      destruct (Hopen toi id Hin) as (now & Het & Hok). rewrite Het. apply Hok.
      destruct use_id; [right|left]; reflexivity.
    + cbn [silent_from]. fold jset'. apply andb_true_intro. split; [|exact IHq].
      apply forallb_forall. intros [toi id|toi] Hin; cbn [action_toi].
      * eapply Hjopen; exact Hin.
      * apply Hjmono, Hj, Hend; exact Hin.
Qed.

Lemma in_fdt_keys : forall evs id sct idx n c t,
  In (EvFdtPkt id sct idx n c t) evs -> In (id, sct_valid sct) (fdt_keys evs).
Proof.
  intros evs id sct idx n c t H. unfold fdt_keys. apply in_flat_map. eexists. split; [exact H|]. left; reflexivity.
Qed.

Lemma uniform_sct_P : forall evs, uniform_sct evs = true -> UniformP evs.
Proof.
  intros evs H id s1 i1 n1 c1 t1 s2 i2 n2 c2 t2 H1 H2. unfold uniform_sct in H.
  rewrite forallb_forall in H. specialize (H _ (in_fdt_keys _ _ _ _ _ _ _ H1)).
  rewrite forallb_forall in H. specialize (H _ (in_fdt_keys _ _ _ _ _ _ _ H2)).
  cbn [fst snd] in H. rewrite N.eqb_refl in H. cbn [negb orb] in H. apply Bool.eqb_prop in H.
  unfold sct_valid in H. rewrite !spec_sct_eq in H. fold (sct_time s1) in H. fold (sct_time s2) in H.
  destruct (sct_time s1), (sct_time s2); try discriminate; split; intros; try discriminate; reflexivity.
Qed.

Lemma Inv_init : forall chk hist, Inv chk hist r_init.
Proof. intros. split; constructor. Qed.

Lemma not_attached_init : forall toi, ~ attached r_init toi.
Proof. intros toi (o & Hin & _). inversion Hin. Qed.

Theorem spec_holds : forall chk once evs outs band use_id,
  outputs (mkCfg chk once) evs = Some outs -> uniform_sct evs = true -> (0 <= band)%Z ->
  sound_from chk band use_id [] evs outs = true /\ silent_from chk band [] [] evs outs = true.
Proof.
  intros chk once evs outs band use_id Ho Hu Hb. unfold outputs in Ho.
  destruct (run (mkCfg chk once) r_init evs) as [[s' o]|] eqn:Er; [|discriminate]. inversion Ho; subst o.
  eapply run_spec; eauto.
  - apply Inv_init.
  - rewrite app_nil_r. apply uniform_sct_P; exact Hu.
  - intros toi Ha. exfalso. eapply not_attached_init; eauto.
Qed.

(* ------------------------------------------------------------------ D. simulation: two runs of one stream under
   two receiver clocks.  [chk = true]: every time of the second run is the first one's plus [d] and every FDT
   packet carries a usable SCT.  [chk = false]: times, SCT and Expires of the two runs are unrelated. *)
Definition off_shift (d : Z) (a b : option (bool * Z)) : Prop :=
  match a, b with
  | None, None => True
  | Some x, Some y => signed_off y = (signed_off x + d)%Z
  | _, _ => False
  end.

Definition fr_sim (chk : bool) (d : Z) (a b : fdtrecv) : Prop :=
  fr_id a = fr_id b /\ fr_state a = fr_state b /\ fr_got a = fr_got b /\ fr_tois a = fr_tois b
  /\ fr_check a = chk /\ fr_check b = chk
  /\ (chk = true -> fr_expires a = fr_expires b /\ off_shift d (fr_off a) (fr_off b)
                    /\ (fr_state a = Complete -> fr_off a <> None)).

Definition content_shape (c c' : fdtcontent) : Prop :=
  match c, c' with
  | None, None => True
  | Some (_, t), Some (_, t') => t = t'
  | _, _ => False
  end.

Definition ev_sim (chk : bool) (d : Z) (e e' : event) : Prop :=
  match e, e' with
  | EvFdtPkt id sct idx n c now, EvFdtPkt id' sct' idx' n' c' now' =>
    id = id' /\ idx = idx' /\ n = n' /\ content_shape c c'
    /\ (chk = true -> sct = sct' /\ c = c' /\ now' = (now + d)%Z /\ sct_time sct <> None)
  | EvObjPkt toi f now, EvObjPkt toi' f' now' => toi = toi' /\ f = f' /\ (chk = true -> now' = (now + d)%Z)
  | EvObjEnd toi k, EvObjEnd toi' k' => toi = toi' /\ k = k'
  | EvCleanup now, EvCleanup now' => chk = true -> now' = (now + d)%Z
  | _, _ => False
  end.

Definition st_sim (chk : bool) (d : Z) (s s' : rstate) : Prop :=
  r_objects s = r_objects s' /\ r_completed s = r_completed s'
  /\ Forall2 (fr_sim chk d) (r_fdt_receivers s) (r_fdt_receivers s')
  /\ Forall2 (fr_sim chk d) (r_fdt_current s) (r_fdt_current s').

Lemma update_expired_sim : forall chk d a b now now' a' b',
  fr_sim chk d a b -> (chk = true -> now' = (now + d)%Z) ->
  update_expired_state a now = Some a' -> update_expired_state b now' = Some b' ->
  fr_sim chk d a' b'.
Proof.
  intros chk d a b now now' a' b' Hs Hn Ha Hb.
  destruct Hs as (Hid & Hst & Hgot & Htois & Hca & Hcb & Hk).
  unfold update_expired_state in Ha, Hb. unfold is_complete in Ha, Hb. rewrite <- Hst, Hcb in Hb. rewrite Hca in Ha.
  destruct (fdtstate_eqb (fr_state a) Complete && chk) eqn:Ec; cbv beta iota in Ha, Hb.
  2:{ injection Ha as <-. injection Hb as <-. repeat split; auto; apply Hk; assumption. }
  apply andb_prop in Ec. destruct Ec as [Ec Hchk]. rewrite Hchk in *.
  destruct (Hk eq_refl) as (Hexp & Hoff & Hnn).
  assert (Hstc : fr_state a = Complete) by (destruct (fr_state a); cbn in Ec; try discriminate; reflexivity).
  destruct (is_expired a now) as [ba|] eqn:Ea; [|discriminate].
  destruct (is_expired b now') as [bb|] eqn:Eb; [|discriminate].
  apply is_expired_some in Ea. apply is_expired_some in Eb. rewrite <- Hexp in Eb.
  assert (Hbb : ba = bb).
  { subst ba bb. destruct (fr_expires a) as [e|]; [|reflexivity]. f_equal.
    rewrite (Hn eq_refl). unfold off_shift in Hoff. specialize (Hnn Hstc).
    destruct (fr_off a) as [x|]; [|congruence]. destruct (fr_off b) as [y|]; [|contradiction].
    cbn [est_off]. lia. }
  clear Ea Eb. subst bb. destruct ba; injection Ha as <-; injection Hb as <-.
  - split; [exact Hid|]. split; [reflexivity|]. split; [exact Hgot|]. split; [exact Htois|].
    split; [exact Hca|]. split; [exact Hcb|]. intros _. cbn. split; [exact Hexp|]. split; [exact Hoff|]. intros K; discriminate.
  - repeat split; auto; apply Hk; reflexivity.
Qed.

Lemma fr_sim_intro : forall chk d a b,
  fr_id a = fr_id b -> fr_state a = fr_state b -> fr_got a = fr_got b -> fr_tois a = fr_tois b ->
  fr_check a = chk -> fr_check b = chk ->
  (chk = true -> fr_expires a = fr_expires b /\ off_shift d (fr_off a) (fr_off b)
                 /\ (fr_state a = Complete -> fr_off a <> None)) ->
  fr_sim chk d a b.
Proof. intros. unfold fr_sim. tauto. Qed.

Lemma fdt_push_sim : forall chk d a b sct sct' idx n c c' now now',
  fr_sim chk d a b -> fr_state a = Receiving ->
  content_shape c c' ->
  (chk = true -> sct = sct' /\ c = c' /\ now' = (now + d)%Z /\ sct_time sct <> None) ->
  fr_sim chk d (fdt_push a sct idx n c now) (fdt_push b sct' idx n c' now').
Proof.
  intros chk d a b sct sct' idx n c c' now now' Hs Hrecv Hshape Hk.
  destruct Hs as (Hid & Hst & Hgot & Htois & Hca & Hcb & Hkk).
  unfold fdt_push.
  set (a1 := match sct with Some raw => match ntp_to_system_time raw with Some res => fr_set_off a (Some (offset_of now res)) | None => a end | None => a end).
  set (b1 := match sct' with Some raw => match ntp_to_system_time raw with Some res => fr_set_off b (Some (offset_of now' res)) | None => b end | None => b end).
  assert (Ha1 : fr_id a1 = fr_id a /\ fr_state a1 = fr_state a /\ fr_got a1 = fr_got a /\ fr_tois a1 = fr_tois a
                /\ fr_check a1 = fr_check a /\ fr_expires a1 = fr_expires a).
  { subst a1. destruct sct as [raw|]; [destruct (ntp_to_system_time raw)|]; cbn; auto 10. }
  assert (Hb1 : fr_id b1 = fr_id b /\ fr_state b1 = fr_state b /\ fr_got b1 = fr_got b /\ fr_tois b1 = fr_tois b
                /\ fr_check b1 = fr_check b /\ fr_expires b1 = fr_expires b).
  { subst b1. destruct sct' as [raw|]; [destruct (ntp_to_system_time raw)|]; cbn; auto 10. }
  assert (Hoff1 : chk = true -> off_shift d (fr_off a1) (fr_off b1) /\ fr_off a1 <> None).
  { intros Hchk. destruct (Hk Hchk) as (<- & _ & -> & Hv). subst a1 b1.
    destruct sct as [raw|]; cbn [sct_time] in Hv; [|congruence].
    destruct (ntp_to_system_time raw) as [res|]; [|congruence]. cbn.
    rewrite !offset_of_signed. split; [lia|discriminate]. }
  destruct Ha1 as (A1 & A2 & A3 & A4 & A5 & A6). destruct Hb1 as (B1 & B2 & B3 & B4 & B5 & B6).
  rewrite A3, B3, <- Hgot.
  destruct ((idx <? n)%N && negb (memN idx (fr_got a))).
  2:{ apply fr_sim_intro; try congruence. intros Hchk. destruct (Hkk Hchk) as (E1 & _ & _). destruct (Hoff1 Hchk).
      split; [congruence|]. split; [assumption|]. rewrite A2, Hrecv. discriminate. }
  destruct (N.of_nat (length (idx :: fr_got a)) =? n)%N.
  2:{ apply fr_sim_intro; cbn; try congruence. intros Hchk. destruct (Hkk Hchk) as (E1 & _ & _). destruct (Hoff1 Hchk).
      split; [congruence|]. split; [assumption|]. rewrite A2, Hrecv. discriminate. }
  destruct c as [[es tois]|], c' as [[es' tois']|]; cbn [content_shape] in Hshape; try contradiction.
  - subst tois'. apply fr_sim_intro; cbn; try congruence. intros Hchk. destruct (Hk Hchk) as (_ & Hc & _). inversion Hc; subst.
    destruct (Hoff1 Hchk). split; [reflexivity|]. split; [assumption|]. intros _; assumption.
  - apply fr_sim_intro; cbn; try congruence. intros Hchk. destruct (Hkk Hchk) as (E1 & _ & _). destruct (Hoff1 Hchk).
    split; [congruence|]. split; [assumption|]. discriminate.
Qed.

Lemma fr_sim_state : forall chk d a b, fr_sim chk d a b ->
  fr_id a = fr_id b /\ is_complete a = is_complete b /\ is_receiving a = is_receiving b /\ fr_tois a = fr_tois b
  /\ fr_state a = fr_state b.
Proof. intros chk d a b (H1 & H2 & _ & H4 & _). unfold is_complete, is_receiving. rewrite H2. auto. Qed.

Lemma existsb_sim : forall chk d id l l', Forall2 (fr_sim chk d) l l' ->
  existsb (has_id id) l = existsb (has_id id) l'.
Proof.
  intros chk d id l l' H. induction H as [|a b l l' Hab _ IH]; [reflexivity|].
  cbn [existsb]. rewrite IH. unfold has_id. destruct (fr_sim_state _ _ _ _ Hab) as (-> & _). reflexivity.
Qed.

Lemma find_sim : forall chk d id l l', Forall2 (fr_sim chk d) l l' ->
  match find (has_id id) l, find (has_id id) l' with
  | Some a, Some b => fr_sim chk d a b
  | None, None => True
  | _, _ => False
  end.
Proof.
  intros chk d id l l' H. induction H as [|a b l l' Hab _ IH]; [exact I|].
  cbn [find]. assert (Hh : has_id id b = has_id id a).
  { unfold has_id. destruct (fr_sim_state _ _ _ _ Hab) as (<- & _). reflexivity. }
  rewrite Hh. destruct (has_id id a); [exact Hab|exact IH].
Qed.

Lemma filter_id_sim : forall chk d id l l', Forall2 (fr_sim chk d) l l' ->
  Forall2 (fr_sim chk d) (filter (fun fr => negb (has_id id fr)) l) (filter (fun fr => negb (has_id id fr)) l').
Proof.
  intros chk d id l l' H. induction H as [|a b l l' Hab _ IH]; [constructor|].
  cbn [filter]. assert (Hh : has_id id b = has_id id a).
  { unfold has_id. destruct (fr_sim_state _ _ _ _ Hab) as (<- & _). reflexivity. }
  rewrite Hh. destruct (has_id id a); cbn [negb]; [exact IH|constructor; assumption].
Qed.

Lemma filter_state_sim : forall chk d l l', Forall2 (fr_sim chk d) l l' ->
  Forall2 (fr_sim chk d) (filter (fun fr => is_complete fr || is_receiving fr) l)
          (filter (fun fr => is_complete fr || is_receiving fr) l').
Proof.
  intros chk d l l' H. induction H as [|a b l l' Hab _ IH]; [constructor|].
  cbn [filter]. destruct (fr_sim_state _ _ _ _ Hab) as (_ & <- & <- & _).
  destruct (is_complete a || is_receiving a); [constructor; assumption|exact IH].
Qed.

Lemma removelast_sim : forall {A B} (R : A -> B -> Prop) l l', Forall2 R l l' ->
  Forall2 R (removelast l) (removelast l').
Proof.
  intros A B R l l' H. induction H as [|a b l l' Hab Hl IH]; [constructor|].
  cbn [removelast]. destruct Hl; [constructor|]. constructor; [exact Hab|exact IH].
Qed.

Lemma trim_sim : forall {A B} (R : A -> B -> Prop) a b l l', R a b -> Forall2 R l l' ->
  Forall2 R (if (10 <? length (a :: l))%nat then removelast (a :: l) else a :: l)
            (if (10 <? length (a :: l))%nat then removelast (b :: l') else b :: l').
Proof.
  intros. destruct (10 <? length (a :: l))%nat; [apply removelast_sim|]; constructor; assumption.
Qed.

Lemma Forall2_len : forall {A B} (R : A -> B -> Prop) l l', Forall2 R l l' -> length l = length l'.
Proof. intros A B R l l' H. induction H; cbn; congruence. Qed.

Lemma attach_walk_sim : forall chk d toi now now' l l' r1 x1 r2 x2,
  Forall2 (fr_sim chk d) l l' -> (chk = true -> now' = (now + d)%Z) ->
  attach_walk toi now l = Some (r1, x1) -> attach_walk toi now' l' = Some (r2, x2) ->
  Forall2 (fr_sim chk d) r1 r2 /\ x1 = x2.
Proof.
  intros chk d toi now now' l l' r1 x1 r2 x2 H Hn. revert r1 x1 r2 x2.
  induction H as [|a b l l' Hab Hl IH]; intros r1 x1 r2 x2 H1 H2; cbn [attach_walk] in H1, H2.
  - inversion H1; inversion H2; subst. split; [constructor|reflexivity].
  - destruct (update_expired_state a now) as [a'|] eqn:Ea; [|discriminate].
    destruct (update_expired_state b now') as [b'|] eqn:Eb; [|discriminate].
    pose proof (update_expired_sim _ _ _ _ _ _ _ _ Hab Hn Ea Eb) as Hab'.
    destruct (fr_sim_state _ _ _ _ Hab') as (Hid & Hc & _ & Ht & _). rewrite <- Hc, <- Ht in H2.
    destruct (is_complete a' && memN toi (fr_tois a')).
    + inversion H1; inversion H2; subst. split; [constructor; assumption|congruence].
    + destruct (attach_walk toi now l) as [[ra xa]|]; [|discriminate].
      destruct (attach_walk toi now' l') as [[rb xb]|]; [|discriminate].
      inversion H1; inversion H2; subst. destruct (IH _ _ _ _ eq_refl eq_refl) as [Hr Hx].
      split; [constructor; assumption|exact Hx].
Qed.

Lemma map_opt_sim : forall chk d now now' l l' r1 r2,
  Forall2 (fr_sim chk d) l l' -> (chk = true -> now' = (now + d)%Z) ->
  map_opt (fun fr => update_expired_state fr now) l = Some r1 ->
  map_opt (fun fr => update_expired_state fr now') l' = Some r2 ->
  Forall2 (fr_sim chk d) r1 r2.
Proof.
  intros chk d now now' l l' r1 r2 H Hn. revert r1 r2.
  induction H as [|a b l l' Hab Hl IH]; intros r1 r2 H1 H2; cbn [map_opt] in H1, H2.
  - inversion H1; inversion H2; constructor.
  - destruct (update_expired_state a now) as [a'|] eqn:Ea; [|discriminate].
    destruct (update_expired_state b now') as [b'|] eqn:Eb; [|discriminate].
    destruct (map_opt (fun fr => update_expired_state fr now) l) as [ra|]; [|discriminate].
    destruct (map_opt (fun fr => update_expired_state fr now') l') as [rb|]; [|discriminate].
    inversion H1; inversion H2; subst. constructor; [eapply update_expired_sim; eauto|apply IH; reflexivity].
Qed.

Lemma fr_sim_new : forall chk d id, fr_sim chk d (fr_new id chk) (fr_new id chk).
Proof. intros. apply fr_sim_intro; try reflexivity. intros _. cbn. split; [reflexivity|]. split; [exact I|discriminate]. Qed.

Lemma step_sim : forall chk once d s t ev ev' s1 a1 t1 a2,
  st_sim chk d s t -> ev_sim chk d ev ev' ->
  step (mkCfg chk once) s ev = Some (s1, a1) -> step (mkCfg chk once) t ev' = Some (t1, a2) ->
  st_sim chk d s1 t1 /\ a1 = a2.
Proof.
  intros chk once d s t ev ev' s1 a1 t1 a2 (Ho & Hcm & Hr & Hc) Hev H1 H2.
  destruct ev as [id sct idx n c now|toi f now|toi k|now], ev' as [id' sct' idx' n' c' now'|toi' f' now'|toi' k'|now'];
    cbn [ev_sim] in Hev; try contradiction; cbn [step] in H1, H2.
  - destruct Hev as (<- & <- & <- & Hshape & Hk).
    unfold push_fdt in H1, H2. cbn [c_once c_check] in H1, H2.
    rewrite <- (existsb_sim chk d id _ _ Hc) in H2.
    destruct (once && existsb (has_id id) (r_fdt_current s)).
    { inversion H1; inversion H2; subst. split; [repeat split; assumption|reflexivity]. }
    pose proof (find_sim chk d id _ _ Hr) as Hf. pose proof (filter_id_sim chk d id _ _ Hr) as Hoth.
    set (a0 := match find (has_id id) (r_fdt_receivers s) with Some fr => fr | None => fr_new id chk end) in *.
    set (b0 := match find (has_id id) (r_fdt_receivers t) with Some fr => fr | None => fr_new id chk end) in *.
    assert (H0 : fr_sim chk d a0 b0).
    { subst a0 b0. destruct (find (has_id id) (r_fdt_receivers s)), (find (has_id id) (r_fdt_receivers t));
        try contradiction; [exact Hf|apply fr_sim_new]. }
    clearbody a0 b0.
    set (oa := filter (fun fr => negb (has_id id fr)) (r_fdt_receivers s)) in *.
    set (ob := filter (fun fr => negb (has_id id fr)) (r_fdt_receivers t)) in *. clearbody oa ob.
    destruct (fr_sim_state _ _ _ _ H0) as (_ & _ & Hrecv & _ & _). rewrite <- Hrecv in H2.
    destruct (is_receiving a0) eqn:Era; cbn [negb] in H1, H2.
    2:{ inversion H1; inversion H2; subst. split; [|reflexivity]. repeat split; cbn; auto. }
    apply is_receiving_true in Era.
    pose proof (fdt_push_sim chk d a0 b0 sct sct' idx n c c' now now' H0 Era Hshape Hk) as Hp.
    assert (Hn : chk = true -> now' = (now + d)%Z) by (intros K; apply Hk in K; tauto).
    destruct (update_expired_state (fdt_push a0 sct idx n c now) now) as [a2'|] eqn:Ea; [|discriminate].
    destruct (update_expired_state (fdt_push b0 sct' idx n c' now') now') as [b2'|] eqn:Eb; [|discriminate].
    pose proof (update_expired_sim _ _ _ _ _ _ _ _ Hp Hn Ea Eb) as H22.
    destruct (fr_sim_state _ _ _ _ H22) as (_ & Hc2 & _ & Ht2 & Hst2). rewrite <- Hc2 in H2.
    destruct (is_complete a2').
    + rewrite <- Ht2, <- Ho, <- Hcm in H2.
      assert (Hlen : length (a2' :: r_fdt_current s) = length (b2' :: r_fdt_current t)).
      { cbn [length]. f_equal. eapply Forall2_len; exact Hc. }
      rewrite <- Hlen in H2.
      inversion H1; inversion H2; subst. split; [|reflexivity].
      repeat split; cbn [r_objects r_completed r_fdt_receivers r_fdt_current]; auto.
      exact (trim_sim _ a2' b2' _ _ H22 Hc).
    + rewrite <- Hst2 in H2.
      assert (Hres : s1 = mkR (r_objects s) (r_completed s) (a2' :: oa) (r_fdt_current s) /\ a1 = []).
      { destruct (fdtstate_eqb (fr_state a2') Expired).
        - destruct (get_server_time a2' now); [|discriminate]. destruct (chrono_ok _ && chrono_ok z); inversion H1; auto.
        - inversion H1; auto. }
      assert (Hres' : t1 = mkR (r_objects t) (r_completed t) (b2' :: ob) (r_fdt_current t) /\ a2 = []).
      { destruct (fdtstate_eqb (fr_state a2') Expired).
        - destruct (get_server_time b2' now'); [|discriminate]. destruct (chrono_ok _ && chrono_ok z); inversion H2; auto.
        - inversion H2; auto. }
      destruct Hres as [-> ->]. destruct Hres' as [-> ->]. split; [|reflexivity].
      repeat split; cbn; auto.
  - destruct Hev as (<- & <- & Hn).
    unfold push_obj in H1, H2. cbn [c_once] in H1, H2. rewrite <- Hcm, <- Ho in H2.
    destruct (memN toi (r_completed s) && (once || negb f)).
    { inversion H1; inversion H2; subst. split; [repeat split; assumption|reflexivity]. }
    destruct (existsb (has_toi toi) (r_objects s)).
    { inversion H1; inversion H2; subst. split; [repeat split; cbn; assumption|reflexivity]. }
    destruct (attach_walk toi now (r_fdt_current s)) as [[ca ra]|] eqn:Ea; [|discriminate].
    destruct (attach_walk toi now' (r_fdt_current t)) as [[cb rb]|] eqn:Eb; [|discriminate].
    destruct (attach_walk_sim _ _ _ _ _ _ _ _ _ _ _ Hc Hn Ea Eb) as [Hcc ->].
    inversion H1; inversion H2; subst. split; [|reflexivity]. repeat split; cbn; auto; congruence.
  - destruct Hev as (<- & <-). unfold obj_end in H1, H2. rewrite <- Ho, <- Hcm in H2.
    destruct (find (has_toi toi) (r_objects s)).
    + inversion H1; inversion H2; subst. split; [|reflexivity]. repeat split; cbn; auto.
    + inversion H1; inversion H2; subst. split; [|reflexivity]. repeat split; cbn; auto.
  - unfold cleanup in H1, H2.
    destruct (map_opt (fun fr => update_expired_state fr now) (r_fdt_receivers s)) as [la|] eqn:Ea; [|discriminate].
    destruct (map_opt (fun fr => update_expired_state fr now') (r_fdt_receivers t)) as [lb|] eqn:Eb; [|discriminate].
    inversion H1; inversion H2; subst. split; [|reflexivity]. repeat split; cbn; auto.
    apply filter_state_sim. exact (map_opt_sim chk d now now' _ _ _ _ Hr Hev Ea Eb).
Qed.

Lemma run_sim : forall chk once d evs evs' s t s1 o1 t1 o2,
  st_sim chk d s t -> Forall2 (ev_sim chk d) evs evs' ->
  run (mkCfg chk once) s evs = Some (s1, o1) -> run (mkCfg chk once) t evs' = Some (t1, o2) ->
  o1 = o2.
Proof.
  intros chk once d evs evs' s t s1 o1 t1 o2 Hs Hev. revert s t s1 o1 t1 o2 Hs.
  induction Hev as [|ev ev' evs evs' He _ IH]; intros s t s1 o1 t1 o2 Hs H1 H2; cbn [run] in H1, H2.
  - inversion H1; inversion H2; reflexivity.
  - destruct (step (mkCfg chk once) s ev) as [[sa aa]|] eqn:Ea; [|discriminate].
    destruct (step (mkCfg chk once) t ev') as [[ta ab]|] eqn:Eb; [|discriminate].
    destruct (run (mkCfg chk once) sa evs) as [[sb ob]|] eqn:Era; [|discriminate].
    destruct (run (mkCfg chk once) ta evs') as [[tb ob']|] eqn:Erb; [|discriminate].
    inversion H1; inversion H2; subst.
    destruct (step_sim _ _ _ _ _ _ _ _ _ _ _ Hs He Ea Eb) as [Hs' ->].
    f_equal. eapply IH; eauto.
Qed.

Lemma st_sim_init : forall chk d, st_sim chk d r_init r_init.
Proof. intros. repeat split; constructor. Qed.

Lemma shift_sim : forall chk d evs, all_sct evs = true -> Forall2 (ev_sim chk d) evs (map (shift_ev d) evs).
Proof.
  intros chk d evs H. unfold all_sct in H. rewrite forallb_forall in H.
  induction evs as [|ev r IH]; [constructor|]. cbn [map]. constructor.
  - specialize (H ev (or_introl eq_refl)). destruct ev as [id sct idx n c now|toi f now|toi k|now]; cbn.
    + repeat split; auto.
      * destruct c as [[es tois]|]; cbn; auto.
      * rewrite spec_sct_eq in H. fold (sct_time sct) in H. destruct (sct_time sct); [discriminate|discriminate].
    + auto.
    + auto.
    + auto.
  - apply IH. intros x Hx. apply H. right; exact Hx.
Qed.

(* skew invariance of whole runs *)
Theorem skew_invariant_run : forall cfg d evs o1 o2, all_sct evs = true ->
  outputs cfg evs = Some o1 -> outputs cfg (map (shift_ev d) evs) = Some o2 -> o1 = o2.
Proof.
  intros [chk once] d evs o1 o2 Hs H1 H2. unfold outputs in H1, H2.
  destruct (run (mkCfg chk once) r_init evs) as [[s1 x1]|] eqn:E1; [|discriminate].
  destruct (run (mkCfg chk once) r_init (map (shift_ev d) evs)) as [[s2 x2]|] eqn:E2; [|discriminate].
  inversion H1; inversion H2; subst.
  eapply run_sim; [apply st_sim_init|apply shift_sim; exact Hs|exact E1|exact E2].
Qed.

Lemma same_shape_sim : forall evs evs', Forall2 same_shape evs evs' -> Forall2 (ev_sim false 0) evs evs'.
Proof.
  intros evs evs' H. induction H as [|e e' l l' He _ IH]; constructor; [|exact IH].
  destruct e as [id sct idx n c now|toi f now|toi k|now], e' as [id' sct' idx' n' c' now'|toi' f' now'|toi' k'|now'];
    cbn in *; try contradiction.
  - destruct He as (-> & -> & -> & Hc). repeat split; auto; try discriminate.
  - destruct He as (-> & ->). repeat split; discriminate.
  - exact He.
  - discriminate.
Qed.

(* ---- with the check disabled nothing can panic and nothing ever expires *)
Definition nochk (s : rstate) : Prop :=
  Forall (fun fr => fr_check fr = false /\ fr_state fr <> Expired) (r_fdt_receivers s)
  /\ Forall (fun fr => fr_check fr = false /\ fr_state fr <> Expired) (r_fdt_current s).

Lemma upd_false : forall fr now, fr_check fr = false -> update_expired_state fr now = Some fr.
Proof. intros fr now H. unfold update_expired_state. rewrite H, andb_false_r. reflexivity. Qed.

Lemma fdt_push_check : forall fr sct idx n c now,
  fr_check (fdt_push fr sct idx n c now) = fr_check fr
  /\ (fr_state fr = Receiving -> fr_state (fdt_push fr sct idx n c now) <> Expired).
Proof.
  intros. unfold fdt_push.
  set (fr1 := match sct with Some raw => match ntp_to_system_time raw with Some res => fr_set_off fr (Some (offset_of now res)) | None => fr end | None => fr end).
  assert (H1 : fr_check fr1 = fr_check fr /\ fr_state fr1 = fr_state fr).
  { subst fr1. destruct sct as [raw|]; [destruct (ntp_to_system_time raw)|]; cbn; auto. }
  destruct H1 as [H1 H2].
  destruct ((idx <? n)%N && negb (memN idx (fr_got fr1))); [|split; [exact H1|rewrite H2; congruence]].
  destruct (N.of_nat (length (idx :: fr_got fr1)) =? n)%N; [|split; [exact H1|cbn; rewrite H2; congruence]].
  destruct c as [[es tois]|]; cbn; split; auto; discriminate.
Qed.

Lemma attach_walk_false : forall toi now l,
  Forall (fun fr => fr_check fr = false /\ fr_state fr <> Expired) l ->
  exists r, attach_walk toi now l = Some (l, r).
Proof.
  intros toi now. induction l as [|fr rest IH]; intros H; cbn [attach_walk]; [eexists; reflexivity|].
  inversion H as [|? ? [Hc _] Hrest]; subst. rewrite (upd_false _ _ Hc).
  destruct (is_complete fr && memN toi (fr_tois fr)); [eexists; reflexivity|].
  destruct (IH Hrest) as [r ->]. eexists; reflexivity.
Qed.

Lemma map_opt_false : forall now l,
  Forall (fun fr => fr_check fr = false /\ fr_state fr <> Expired) l ->
  map_opt (fun fr => update_expired_state fr now) l = Some l.
Proof.
  intros now. induction l as [|fr rest IH]; intros H; cbn [map_opt]; [reflexivity|].
  inversion H as [|? ? [Hc _] Hrest]; subst. rewrite (upd_false _ _ Hc), (IH Hrest). reflexivity.
Qed.

Lemma step_false : forall once s ev, nochk s ->
  exists s' a, step (mkCfg false once) s ev = Some (s', a) /\ nochk s'.
Proof.
  intros once s ev [Hr Hc]. destruct ev as [id sct idx n c now|toi f now|toi k|now]; cbn [step].
  - unfold push_fdt. cbn [c_once c_check].
    destruct (once && existsb (has_id id) (r_fdt_current s)); [do 2 eexists; split; [reflexivity|split; assumption]|].
    set (fr0 := match find (has_id id) (r_fdt_receivers s) with Some fr => fr | None => fr_new id false end).
    assert (H0 : fr_check fr0 = false /\ fr_state fr0 <> Expired).
    { subst fr0. destruct (find (has_id id) (r_fdt_receivers s)) as [fr|] eqn:Ef.
      - apply find_some in Ef. rewrite Forall_forall in Hr. apply Hr. tauto.
      - cbn. split; [reflexivity|discriminate]. }
    clearbody fr0.
    assert (Ho : Forall (fun fr => fr_check fr = false /\ fr_state fr <> Expired)
                        (filter (fun fr => negb (has_id id fr)) (r_fdt_receivers s))).
    { eapply Forall_incl; [apply incl_filter|exact Hr]. }
    destruct (is_receiving fr0) eqn:Er; cbn [negb].
    2:{ do 2 eexists. split; [reflexivity|]. split; cbn; [constructor; assumption|assumption]. }
    apply is_receiving_true in Er.
    destruct (fdt_push_check fr0 sct idx n c now) as [Hk Hs]. specialize (Hs Er).
    rewrite upd_false by (rewrite Hk; tauto).
    set (fr1 := fdt_push fr0 sct idx n c now) in *.
    assert (H1 : fr_check fr1 = false /\ fr_state fr1 <> Expired) by (split; [rewrite Hk; tauto|exact Hs]).
    destruct (is_complete fr1).
    + do 2 eexists. split; [reflexivity|]. split; cbn [r_fdt_receivers r_fdt_current]; [exact Ho|].
      eapply Forall_incl with (l := fr1 :: r_fdt_current s); [exact (incl_trim fr1 (r_fdt_current s))|constructor; assumption].
    + assert (He : fdtstate_eqb (fr_state fr1) Expired = false) by (destruct (fr_state fr1); try reflexivity; congruence).
      rewrite He. do 2 eexists. split; [reflexivity|]. split; cbn; [constructor; assumption|assumption].
  - unfold push_obj. cbn [c_once].
    destruct (memN toi (r_completed s) && (once || negb f)); [do 2 eexists; split; [reflexivity|split; assumption]|].
    destruct (existsb (has_toi toi) (r_objects s)); [do 2 eexists; split; [reflexivity|split; assumption]|].
    destruct (attach_walk_false toi now _ Hc) as [r ->]. do 2 eexists. split; [reflexivity|split; assumption].
  - unfold obj_end. destruct (find (has_toi toi) (r_objects s)); do 2 eexists; (split; [reflexivity|split; assumption]).
  - unfold cleanup. rewrite (map_opt_false _ _ Hr). do 2 eexists. split; [reflexivity|]. split; cbn; [|assumption].
    eapply Forall_incl; [apply incl_filter|exact Hr].
Qed.

Lemma run_false : forall once evs s, nochk s -> exists s' o, run (mkCfg false once) s evs = Some (s', o).
Proof.
  intros once. induction evs as [|ev r IH]; intros s H; cbn [run]; [do 2 eexists; reflexivity|].
  destruct (step_false once s ev H) as (s1 & a & -> & H1). destruct (IH s1 H1) as (s2 & o & ->).
  do 2 eexists; reflexivity.
Qed.

(* with the check disabled: no panic, and the callbacks do not depend on times, SCT or Expires *)
Theorem check_disabled_ignores_expiry : forall once evs evs', Forall2 same_shape evs evs' ->
  exists o, outputs (mkCfg false once) evs = Some o /\ outputs (mkCfg false once) evs' = Some o.
Proof.
  intros once evs evs' H. unfold outputs.
  assert (Hn : nochk r_init) by (split; constructor).
  destruct (run_false once evs r_init Hn) as (s1 & o1 & E1).
  destruct (run_false once evs' r_init Hn) as (s2 & o2 & E2).
  rewrite E1, E2. exists o1. split; [reflexivity|]. f_equal. symmetry.
  eapply run_sim; [apply (st_sim_init false 0)|apply same_shape_sim; exact H|exact E1|exact E2].
Qed.

(* ------------------------------------------------------------------ E. decision theorems on the FDT receiver *)
Theorem offset_is_signed_difference : forall fr now rx res t,
  fr_off fr = Some (offset_of rx res) -> get_server_time fr now = Some t -> t = (now - (rx - res))%Z.
Proof.
  intros fr now rx res t Ho H. apply get_server_time_some in H. rewrite Ho in H. cbn [est_off] in H.
  rewrite offset_of_signed in H. exact H.
Qed.

Theorem skew_invariant_decision : forall fr fr' d now rx res b b',
  fr_off fr = Some (offset_of rx res) -> fr_off fr' = Some (offset_of (rx + d) res) ->
  fr_expires fr' = fr_expires fr ->
  is_expired fr now = Some b -> is_expired fr' (now + d) = Some b' -> b = b'.
Proof.
  intros fr fr' d now rx res b b' Ho Ho' He H H'. apply is_expired_some in H. apply is_expired_some in H'.
  rewrite He, Ho' in H'. rewrite Ho in H. subst b b'. destruct (fr_expires fr) as [e|]; [|reflexivity].
  cbn [est_off]. rewrite !offset_of_signed. f_equal. lia.
Qed.

Theorem no_sct_uses_own_clock : forall fr now e,
  fr_off fr = None -> fr_expires fr = Some e -> is_expired fr now = Some (e <? now)%Z.
Proof. intros fr now e Ho He. unfold is_expired, get_server_time. rewrite He, Ho. reflexivity. Qed.

(* ------------------------------------------------------------------ F. no panic inside the stated range *)
Definition OFFMAX : Z := 2004294967296000000000.   (* BOUND + 2^32 s *)
Definition bnd (fr : fdtrecv) : Prop :=
  (forall o, fr_off fr = Some o -> (0 <= snd o <= OFFMAX)%Z)
  /\ (forall e, fr_expires fr = Some e -> (0 <= e < 4294967296000000000)%Z).

Definition expired_b (fr : fdtrecv) (now : Z) : bool :=
  match fr_expires fr with None => true | Some e => (e <? est_off (fr_off fr) now)%Z end.

Lemma time_ok_P : forall t, time_ok t = true -> (- BOUND <= t <= BOUND)%Z.
Proof. intros t H. unfold time_ok in H. apply andb_prop in H. destruct H as [A B]. apply Z.leb_le in A, B. lia. Qed.

Lemma est_off_bound : forall fr now, bnd fr -> time_ok now = true ->
  (- 4004294967296000000000 <= est_off (fr_off fr) now <= 4004294967296000000000)%Z.
Proof.
  intros fr now [Hb _] Ht. apply time_ok_P in Ht. unfold BOUND in Ht. unfold est_off, signed_off.
  destruct (fr_off fr) as [[lt d]|] eqn:E; [|lia]. specialize (Hb _ eq_refl). cbn [fst snd] in *. unfold OFFMAX in Hb.
  destruct lt; lia.
Qed.

Lemma get_server_time_eval : forall fr now, bnd fr -> time_ok now = true ->
  get_server_time fr now = Some (est_off (fr_off fr) now).
Proof.
  intros fr now Hb Ht. pose proof (est_off_bound fr now Hb Ht) as He.
  unfold get_server_time, est_off, signed_off in *.
  destruct (fr_off fr) as [[[|] d]|]; cbn [fst snd] in *; [| |reflexivity].
  - unfold st_sub, st_ok, ST_MIN, ST_MAX.
    destruct (Z.leb_spec (-9223372036854775808000000000) (now - d)); [|lia].
    destruct (Z.leb_spec (now - d) 9223372036854775807999999999); [|lia]. reflexivity.
  - unfold st_add, st_ok, ST_MIN, ST_MAX. replace (now - - d)%Z with (now + d)%Z in He by lia.
    destruct (Z.leb_spec (-9223372036854775808000000000) (now + d)); [|lia].
    destruct (Z.leb_spec (now + d) 9223372036854775807999999999); [|lia]. cbn [andb]. f_equal. lia.
Qed.

Lemma is_expired_eval : forall fr now, bnd fr -> time_ok now = true ->
  is_expired fr now = Some (expired_b fr now).
Proof.
  intros fr now Hb Ht. unfold is_expired, expired_b. destruct (fr_expires fr); [|reflexivity].
  rewrite get_server_time_eval by assumption. reflexivity.
Qed.

Lemma update_expired_eval : forall fr now, bnd fr -> time_ok now = true ->
  update_expired_state fr now =
  Some (if is_complete fr && fr_check fr && expired_b fr now then fr_set_state fr Expired else fr).
Proof.
  intros fr now Hb Ht. unfold update_expired_state. destruct (is_complete fr && fr_check fr); [|reflexivity].
  rewrite is_expired_eval by assumption. cbn [andb]. destruct (expired_b fr now); reflexivity.
Qed.

Lemma bnd_set_state : forall fr st, bnd fr -> bnd (fr_set_state fr st).
Proof. intros fr st H. exact H. Qed.

Lemma bnd_update : forall fr now fr', bnd fr -> update_expired_state fr now = Some fr' -> bnd fr'.
Proof.
  intros fr now fr' Hb H. apply update_expired_cases in H. destruct H as [[-> _]|[-> _]]; [exact Hb|apply bnd_set_state; exact Hb].
Qed.

Lemma expires_of_range : forall es e, expires_of es = Some e -> (0 <= e < 4294967296000000000)%Z.
Proof.
  intros es e H. unfold expires_of in H. destruct (parse_u32 es) as [s|] eqn:E; [|discriminate].
  apply parse_u32_lt in E. eapply ntp_to_system_time_range; [|exact H]. unfold TWO32, TWO64 in *. lia.
Qed.

Lemma bnd_push : forall fr sct idx n c now, bnd fr -> time_ok now = true ->
  match sct with Some raw => (raw <? 18446744073709551616)%N = true | None => True end ->
  bnd (fdt_push fr sct idx n c now).
Proof.
  intros fr sct idx n c now [Hb1 Hb2] Ht Hraw. unfold fdt_push.
  set (fr1 := match sct with Some raw => match ntp_to_system_time raw with Some res => fr_set_off fr (Some (offset_of now res)) | None => fr end | None => fr end).
  assert (H1 : bnd fr1).
  { subst fr1. destruct sct as [raw|]; [|split; assumption].
    destruct (ntp_to_system_time raw) as [res|] eqn:E; [|split; assumption].
    apply N.ltb_lt in Hraw. pose proof (ntp_to_system_time_range raw res Hraw E) as Hr. apply time_ok_P in Ht.
    split; cbn; [|exact Hb2]. intros o Ho. inversion Ho; subst. unfold offset_of, OFFMAX, BOUND in *.
    destruct (Z.ltb_spec res now); cbn [snd]; lia. }
  destruct H1 as [K1 K2].
  destruct ((idx <? n)%N && negb (memN idx (fr_got fr1))); [|split; assumption].
  destruct (N.of_nat (length (idx :: fr_got fr1)) =? n)%N; [|split; assumption].
  destruct c as [[es tois]|]; [|split; assumption].
  split; cbn; [exact K1|]. intros e He. eapply expires_of_range; exact He.
Qed.

Definition bnd_state (s : rstate) : Prop := Forall bnd (r_fdt_receivers s) /\ Forall bnd (r_fdt_current s).

Lemma attach_walk_ok : forall toi now l, Forall bnd l -> time_ok now = true ->
  exists l' r, attach_walk toi now l = Some (l', r) /\ Forall bnd l'.
Proof.
  intros toi now. induction l as [|fr rest IH]; intros H Ht; cbn [attach_walk]; [do 2 eexists; split; [reflexivity|constructor]|].
  inversion H as [|? ? Hfr Hrest]; subst. rewrite update_expired_eval by assumption.
  set (fr' := if is_complete fr && fr_check fr && expired_b fr now then fr_set_state fr Expired else fr).
  assert (Hb' : bnd fr') by (subst fr'; destruct (is_complete fr && fr_check fr && expired_b fr now); assumption).
  destruct (is_complete fr' && memN toi (fr_tois fr')); [do 2 eexists; split; [reflexivity|constructor; assumption]|].
  destruct (IH Hrest Ht) as (l' & r & -> & Hl'). do 2 eexists; split; [reflexivity|constructor; assumption].
Qed.

Lemma map_opt_ok : forall now l, Forall bnd l -> time_ok now = true ->
  exists l', map_opt (fun fr => update_expired_state fr now) l = Some l' /\ Forall bnd l'.
Proof.
  intros now. induction l as [|fr rest IH]; intros H Ht; cbn [map_opt]; [eexists; split; [reflexivity|constructor]|].
  inversion H as [|? ? Hfr Hrest]; subst. rewrite update_expired_eval by assumption.
  destruct (IH Hrest Ht) as (l' & -> & Hl'). eexists; split; [reflexivity|].
  constructor; [|exact Hl']. destruct (is_complete fr && fr_check fr && expired_b fr now); assumption.
Qed.

Lemma chrono_ok_small : forall t, (- 4004294967296000000000 <= t <= 4004294967296000000000)%Z -> chrono_ok t = true.
Proof.
  intros t H. unfold chrono_ok, CHRONO_MIN, CHRONO_MAX. apply andb_true_intro. split; apply Z.leb_le; lia.
Qed.

Lemma step_ok : forall cfg s ev, bnd_state s -> in_range [ev] = true ->
  exists s' a, step cfg s ev = Some (s', a) /\ bnd_state s'.
Proof.
  intros cfg s ev [Hr Hc] Hin. unfold in_range in Hin. cbn [forallb] in Hin. rewrite !andb_true_r in Hin.
  apply andb_prop in Hin. destruct Hin as [Ht Hraw].
  destruct ev as [id sct idx n c now|toi f now|toi k|now]; cbn [step ev_time] in *.
  - unfold push_fdt.
    destruct (c_once cfg && existsb (has_id id) (r_fdt_current s)); [do 2 eexists; split; [reflexivity|split; assumption]|].
    set (fr0 := match find (has_id id) (r_fdt_receivers s) with Some fr => fr | None => fr_new id (c_check cfg) end).
    assert (H0 : bnd fr0).
    { subst fr0. destruct (find (has_id id) (r_fdt_receivers s)) as [fr|] eqn:Ef.
      - apply find_some in Ef. rewrite Forall_forall in Hr. apply Hr. tauto.
      - split; cbn; intros ? K; discriminate. }
    clearbody fr0.
    assert (Ho : Forall bnd (filter (fun fr => negb (has_id id fr)) (r_fdt_receivers s))).
    { eapply Forall_incl; [apply incl_filter|exact Hr]. }
    destruct (negb (is_receiving fr0)).
    { do 2 eexists. split; [reflexivity|]. split; cbn; [constructor; assumption|assumption]. }
    assert (H1 : bnd (fdt_push fr0 sct idx n c now)).
    { apply bnd_push; auto. destruct sct; [exact Hraw|exact I]. }
    rewrite update_expired_eval by assumption.
    set (fr1 := fdt_push fr0 sct idx n c now) in *.
    set (fr2 := if is_complete fr1 && fr_check fr1 && expired_b fr1 now then fr_set_state fr1 Expired else fr1).
    assert (H2 : bnd fr2) by (subst fr2; destruct (is_complete fr1 && fr_check fr1 && expired_b fr1 now); assumption).
    clearbody fr2.
    destruct (is_complete fr2).
    + do 2 eexists. split; [reflexivity|]. split; cbn [r_fdt_receivers r_fdt_current]; [exact Ho|].
      eapply Forall_incl with (l := fr2 :: r_fdt_current s); [exact (incl_trim fr2 (r_fdt_current s))|constructor; assumption].
    + destruct (fdtstate_eqb (fr_state fr2) Expired).
      * rewrite get_server_time_eval by assumption.
        assert (C1 : chrono_ok (est_off (fr_off fr2) now) = true) by (apply chrono_ok_small, est_off_bound; assumption).
        assert (C2 : chrono_ok (match fr_expires fr2 with Some e => e | None => now end) = true).
        { apply chrono_ok_small. destruct H2 as [_ K]. destruct (fr_expires fr2) as [e|].
          - specialize (K e eq_refl). lia.
          - apply time_ok_P in Ht. unfold BOUND in Ht. lia. }
        rewrite C1, C2. do 2 eexists. split; [reflexivity|]. split; cbn; [constructor; assumption|assumption].
      * do 2 eexists. split; [reflexivity|]. split; cbn; [constructor; assumption|assumption].
  - unfold push_obj.
    destruct (memN toi (r_completed s) && (c_once cfg || negb f)); [do 2 eexists; split; [reflexivity|split; assumption]|].
    destruct (existsb (has_toi toi) (r_objects s)); [do 2 eexists; split; [reflexivity|split; assumption]|].
    destruct (attach_walk_ok toi now _ Hc Ht) as (l' & r & -> & Hl'). do 2 eexists. split; [reflexivity|split; assumption].
  - unfold obj_end. destruct (find (has_toi toi) (r_objects s)); do 2 eexists; (split; [reflexivity|split; assumption]).
  - unfold cleanup. destruct (map_opt_ok now _ Hr Ht) as (l' & -> & Hl'). do 2 eexists. split; [reflexivity|].
    split; cbn; [|assumption]. eapply Forall_incl; [apply incl_filter|exact Hl'].
Qed.

Lemma in_range_cons : forall ev evs, in_range (ev :: evs) = true -> in_range [ev] = true /\ in_range evs = true.
Proof.
  intros ev evs H. unfold in_range in *. cbn [forallb] in *. rewrite !andb_true_r.
  apply andb_prop in H. destruct H as [A B]. apply andb_prop in A, B. destruct A as [A1 A2], B as [B1 B2].
  rewrite A1, A2, B1, B2. split; reflexivity.
Qed.

Lemma run_ok : forall cfg evs s, bnd_state s -> in_range evs = true -> exists s' o, run cfg s evs = Some (s', o).
Proof.
  intros cfg. induction evs as [|ev r IH]; intros s Hs Hin; cbn [run]; [do 2 eexists; reflexivity|].
  apply in_range_cons in Hin. destruct Hin as [H1 H2].
  destruct (step_ok cfg s ev Hs H1) as (s1 & a & -> & Hs1). destruct (IH s1 Hs1 H2) as (s2 & o & ->).
  do 2 eexists; reflexivity.
Qed.

Theorem no_panic_in_range : forall cfg evs, in_range evs = true -> exists o, outputs cfg evs = Some o.
Proof.
  intros cfg evs H. unfold outputs. destruct (run_ok cfg evs r_init) as (s & o & ->); [split; constructor|exact H|].
  eexists; reflexivity.
Qed.

(* ------------------------------------------------------------------ G. one session in physical terms *)
Lemma ntp_roundtrip : forall t raw, (0 <= t < 2085978496000000000)%Z -> system_time_to_ntp t = Some raw ->
  (raw < TWO64)%N /\ exists res, ntp_to_system_time raw = Some res /\ (t - 2000 < res <= t)%Z.
Proof.
  intros t raw Ht H. unfold system_time_to_ntp in H.
  destruct (Z.ltb_spec t 0) as [K|K]; [lia|]. injection H as <-.
  set (tn := Z.to_N t). assert (Htn : Z.of_N tn = t) by (subst tn; apply Z2N.id; lia).
  assert (Htb : (tn < 2085978496000000000)%N) by lia.
  pose proof (N.div_mod tn 1000000000 ltac:(lia)) as D1. pose proof (N.mod_lt tn 1000000000 ltac:(lia)) as M1.
  set (S := (tn / 1000000000)%N) in *. set (r := (tn mod 1000000000)%N) in *.
  pose proof (N.div_mod r 1000 ltac:(lia)) as D2. pose proof (N.mod_lt r 1000 ltac:(lia)) as M2.
  set (m := (r / 1000)%N) in *. set (r2 := (r mod 1000)%N) in *.
  assert (Hm : (m < 1000000)%N) by lia.
  assert (HS : (S < 2085978496)%N) by lia.
  unfold TWO32, TWO64, NTP_UNIX in *.
  pose proof (N.div_mod (m * 4294967296 + 999999) 1000000 ltac:(lia)) as D3.
  pose proof (N.mod_lt (m * 4294967296 + 999999) 1000000 ltac:(lia)) as M3.
  set (F := ((m * 4294967296 + 999999) / 1000000)%N) in *. set (r3 := ((m * 4294967296 + 999999) mod 1000000)%N) in *.
  assert (HF : (F < 4294967296)%N) by lia.
  rewrite (N.mod_small F 4294967296) by exact HF.
  rewrite (N.mod_small ((S + 2208988800) * 4294967296) 18446744073709551616) by lia.
  split; [lia|].
  unfold ntp_to_system_time, TWO32, NTP_UNIX.
  assert (Hq : (((S + 2208988800) * 4294967296 + F) / 4294967296 = S + 2208988800)%N).
  { rewrite N.add_comm, N.div_add by lia. rewrite (N.div_small F) by exact HF. lia. }
  assert (Hr : (((S + 2208988800) * 4294967296 + F) mod 4294967296 = F)%N).
  { rewrite N.add_comm, N.mod_add by lia. apply N.mod_small; exact HF. }
  rewrite Hq, Hr. destruct (N.ltb_spec (S + 2208988800) 2208988800) as [L|L]; [lia|].
  eexists. split; [reflexivity|].
  pose proof (N.div_mod (F * 1000000) 4294967296 ltac:(lia)) as D4.
  pose proof (N.mod_lt (F * 1000000) 4294967296 ltac:(lia)) as M4.
  set (m' := (F * 1000000 / 4294967296)%N) in *. set (r4 := ((F * 1000000) mod 4294967296)%N) in *.
  clearbody m' r4 F r3 m r2 S r. lia.
Qed.

Lemma chrono_est : forall fr now, bnd fr -> time_ok now = true -> chrono_ok (est_off (fr_off fr) now) = true.
Proof. intros. apply chrono_ok_small, est_off_bound; assumption. Qed.

Lemma chrono_exp : forall fr now, bnd fr -> time_ok now = true ->
  chrono_ok (match fr_expires fr with Some e => e | None => now end) = true.
Proof.
  intros fr now [_ K] Ht. apply chrono_ok_small. destruct (fr_expires fr) as [e|].
  - specialize (K e eq_refl). lia.
  - apply time_ok_P in Ht. unfold BOUND in Ht. lia.
Qed.

Section Session.
Variables (chk : bool) (sct : option N) (es : list N) (rf E : Z).
Hypothesis Hexp : expires_of es = Some E.
Hypothesis Hrf : time_ok rf = true.
Hypothesis Hraw : match sct with Some raw => (raw <? 18446744073709551616)%N = true | None => True end.

Definition off0 : option (bool * Z) :=
  match sct_time sct with Some res => Some (offset_of rf res) | None => None end.
Definition frC : fdtrecv := mkFr 1 Complete [0%N] (Some E) [1%N] off0 chk.
Definition frX : fdtrecv := fr_set_state frC Expired.
Definition X (now : Z) : bool := chk && (E <? est_off off0 now)%Z.
Let cfg := mkCfg chk true.

Lemma push_fresh : fdt_push (fr_new 1 chk) sct 0 1 (Some (es, [1%N])) rf = frC.
Proof.
  unfold fdt_push, frC, off0, sct_time.
  destruct sct as [raw|]; [destruct (ntp_to_system_time raw)|]; cbn; rewrite Hexp; reflexivity.
Qed.

Lemma bnd_frC : bnd frC.
Proof.
  rewrite <- push_fresh. apply bnd_push; [|exact Hrf|exact Hraw]. split; cbn; intros ? K; discriminate.
Qed.

Lemma upd_frC : forall now, time_ok now = true ->
  update_expired_state frC now = Some (if X now then frX else frC).
Proof. intros now Ht. rewrite update_expired_eval by (try apply bnd_frC; assumption). reflexivity. Qed.

Lemma upd_frX : forall now, update_expired_state frX now = Some frX.
Proof. intros. reflexivity. Qed.

Lemma sess_fdt : forall objs,
  push_fdt cfg (mkR objs [] [] []) 1 sct 0 1 (Some (es, [1%N])) rf =
  Some (if X rf then (mkR objs [] [frX] [], [])
        else (mkR (map (fun o => if attachable [1%N] o then mkObj (o_toi o) (Some 1%N) else o) objs) [] [] [frC],
              map (fun o => AOpen (o_toi o) 1) (filter (attachable [1%N]) objs))).
Proof.
  intros objs. unfold push_fdt. cbn [c_once c_check cfg r_fdt_current r_fdt_receivers existsb find filter andb].
  change (is_receiving (fr_new 1 chk)) with true. cbn [negb].
  rewrite push_fresh, (upd_frC rf Hrf).
  destruct (X rf).
  - change (is_complete frX) with false. change (fdtstate_eqb (fr_state frX) Expired) with true. cbv iota.
    rewrite get_server_time_eval by (try apply bnd_frC; exact Hrf).
    rewrite (chrono_exp frX rf bnd_frC Hrf), (chrono_est frX rf bnd_frC Hrf). reflexivity.
  - change (is_complete frC) with true. cbv iota. reflexivity.
Qed.

Lemma sess_obj_empty : forall f now rcv,
  push_obj cfg (mkR [] [] rcv []) 1 f now = Some (mkR [mkObj 1 None] [] rcv [], []).
Proof. intros. reflexivity. Qed.

Lemma sess_obj_cur : forall f now rcv, time_ok now = true ->
  push_obj cfg (mkR [] [] rcv [frC]) 1 f now =
  Some (if X now then (mkR [mkObj 1 None] [] rcv [frX], [])
        else (mkR [mkObj 1 (Some 1%N)] [] rcv [frC], [AOpen 1 1])).
Proof.
  intros f now rcv Ht. unfold push_obj. cbn [memN existsb r_completed r_objects andb r_fdt_current attach_walk].
  rewrite (upd_frC now Ht). destruct (X now).
  - change (is_complete frX) with false. reflexivity.
  - change (is_complete frC) with true. reflexivity.
Qed.

Lemma sess_obj_old : forall f now r objs rcv cur,
  push_obj cfg (mkR (mkObj 1 r :: objs) [] rcv cur) 1 f now = Some (mkR (mkObj 1 r :: objs) [] rcv cur, []).
Proof. intros. reflexivity. Qed.

Lemma sess_cleanup_nil : forall objs cur now, cleanup (mkR objs [] [] cur) now = Some (mkR objs [] [] cur).
Proof. intros. reflexivity. Qed.

Lemma sess_cleanup_X : forall objs cur now, cleanup (mkR objs [] [frX] cur) now = Some (mkR objs [] [] cur).
Proof. intros. reflexivity. Qed.

(* the callbacks of the eight shapes of a session: only the two decisions X rf, X ro matter *)
Definition sess_open (order : bool) (ro : Z) : bool :=
  if order then negb (X rf) else negb (X rf) && negb (X ro).

Lemma sess_run : forall (order cleanup_ : bool) (ro : Z),
  time_ok ro = true -> time_ok (ro + 1000000)%Z = true -> time_ok (ro + 2000000)%Z = true ->
  exists outs,
    outputs cfg (with_cleanup cleanup_
       (if order
        then [EvObjPkt 1 true ro; EvObjPkt 1 false (ro + 1000000)%Z; EvObjPkt 1 false (ro + 2000000)%Z]
               ++ [EvFdtPkt 1 sct 0 1 (Some (es, [1%N])) rf]
        else EvFdtPkt 1 sct 0 1 (Some (es, [1%N])) rf
               :: [EvObjPkt 1 true ro; EvObjPkt 1 false (ro + 1000000)%Z; EvObjPkt 1 false (ro + 2000000)%Z])) = Some outs
    /\ has_open 1 outs = sess_open order ro /\ has_any 1 outs = sess_open order ro.
Proof.
  intros order cleanup_ ro H0 H1 H2. unfold outputs, sess_open, r_init.
  destruct order, cleanup_; cbn [with_cleanup flat_map app ev_time run step].
  - (* objects first, cleanup after every push *)
    rewrite sess_obj_empty, sess_cleanup_nil, sess_obj_old, sess_cleanup_nil, sess_obj_old, sess_cleanup_nil, sess_fdt.
    destruct (X rf); cbn [map filter attachable o_fdt o_toi memN existsb N.eqb Pos.eqb orb].
    + rewrite sess_cleanup_X. eexists; split; [reflexivity|split; reflexivity].
    + rewrite sess_cleanup_nil. eexists; split; [reflexivity|split; reflexivity].
  - rewrite sess_obj_empty, sess_obj_old, sess_obj_old, sess_fdt.
    destruct (X rf); cbn [map filter attachable o_fdt o_toi memN existsb N.eqb Pos.eqb orb];
      eexists; (split; [reflexivity|split; reflexivity]).
  - (* FDT first, cleanup after every push *)
    rewrite sess_fdt. destruct (X rf); cbn [map filter].
    + rewrite sess_cleanup_X, sess_obj_empty, sess_cleanup_nil, sess_obj_old, sess_cleanup_nil, sess_obj_old, sess_cleanup_nil.
      eexists; split; [reflexivity|split; reflexivity].
    + rewrite sess_cleanup_nil, (sess_obj_cur _ _ _ H0). destruct (X ro).
      * rewrite sess_cleanup_nil, sess_obj_old, sess_cleanup_nil, sess_obj_old, sess_cleanup_nil.
        eexists; split; [reflexivity|split; reflexivity].
      * rewrite sess_cleanup_nil, sess_obj_old, sess_cleanup_nil, sess_obj_old, sess_cleanup_nil.
        eexists; split; [reflexivity|split; reflexivity].
  - rewrite sess_fdt. destruct (X rf); cbn [map filter].
    + rewrite sess_obj_empty, sess_obj_old, sess_obj_old. eexists; split; [reflexivity|split; reflexivity].
    + rewrite (sess_obj_cur _ _ _ H0). destruct (X ro); rewrite sess_obj_old, sess_obj_old;
        eexists; (split; [reflexivity|split; reflexivity]).
Qed.
End Session.

Theorem session_closed_form : forall p sct es,
  session_ok p = true ->
  (if se_sct p then exists raw, sct = Some raw /\ system_time_to_ntp (se_t0 p + se_xf p)%Z = Some raw
   else sct = None) ->
  parse_u32 es = Some (se_expires_ntp p) ->
  exists outs, outputs (mkCfg (se_chk p) true) (session_events p sct es) = Some outs
               /\ P_C19_session p outs = true.
Proof.
  intros p sct es Hok Hsct Hes. unfold session_ok in Hok.
  repeat (apply andb_prop in Hok; let K := fresh "G" in destruct Hok as [Hok K]).
  apply Z.leb_le in Hok. apply Z.leb_le in G5. apply N.ltb_lt in G3.
  set (E := ((se_t0 p / 1000000000 + Z.of_N (se_d p)) * 1000000000)%Z).
  assert (Hq : (0 <= se_t0 p / 1000000000)%Z) by (apply Z.div_pos; lia).
  assert (Hexp : expires_of es = Some E).
  { unfold expires_of. rewrite Hes. unfold se_expires_ntp in *. rewrite ntp_to_system_time_secs by (unfold NTP_UNIX; lia).
    f_equal. subst E. unfold NTP_UNIX. rewrite N2Z.inj_sub by lia. rewrite !N2Z.inj_add, Z2N.id by lia. lia. }
  assert (Hraw : match sct with Some raw => (raw <? 18446744073709551616)%N = true | None => True end
                 /\ (if se_sct p then exists res, sct_time sct = Some res
                                        /\ (se_t0 p + se_xf p - 2000 < res <= se_t0 p + se_xf p)%Z
                     else sct_time sct = None)).
  { destruct (se_sct p).
    - cbn [negb orb] in G4. apply Z.ltb_lt in G4. destruct Hsct as (raw & -> & Hn). assert (Hrng : (0 <= se_t0 p + se_xf p < 2085978496000000000)%Z) by lia.
      destruct (ntp_roundtrip _ _ Hrng Hn) as (Hlt & res & Hres & Hb).
      split; [apply N.ltb_lt; exact Hlt|]. exists res. split; [exact Hres|exact Hb].
    - subst sct. split; [exact I|reflexivity]. }
  destruct Hraw as [Hraw Hs].
  assert (G1' : time_ok (se_rx_obj p + 1000000)%Z = true).
  { apply time_ok_P in G1, G0. unfold time_ok. apply andb_true_intro. split; apply Z.leb_le; lia. }
  destruct (sess_run (se_chk p) sct es (se_rf p) E Hexp G2 Hraw (se_order p) (se_cleanup p) (se_rx_obj p) G1 G1' G0)
    as (outs & Hout & Hopen & Hany).
  exists outs. split; [exact Hout|].
  unfold P_C19_session. rewrite Hopen, Hany. fold E. unfold sess_open, X.
  destruct (se_chk p); cbn [negb orb andb]; [|destruct (se_order p); reflexivity].
  assert (Hest : forall now, est_off (off0 sct (se_rf p)) now =
                             if se_sct p then (now - (se_rf p - match sct_time sct with Some r => r | None => 0 end))%Z else now).
  { intros now. unfold off0. destruct (se_sct p).
    - destruct Hs as (res & -> & _). cbn [est_off]. rewrite offset_of_signed. reflexivity.
    - rewrite Hs. reflexivity. }
  rewrite !Hest. assert (HB : BAND = 2000000000%Z) by reflexivity.
  destruct (se_sct p).
  - destruct Hs as (res & Hres & Hb). rewrite Hres.
    destruct (se_order p); cbn [orb] in G.
    + (* objects wait for the FDT: attach instant rf *)
      replace (se_t0 p + se_xf p + (se_rf p - se_rf p))%Z with (se_t0 p + se_xf p)%Z by lia.
      destruct (Z.leb_spec (se_t0 p + se_xf p - E) (- BAND)).
      * destruct (Z.ltb_spec E (se_rf p - (se_rf p - res))); [lia|reflexivity].
      * destruct (Z.leb_spec BAND (se_t0 p + se_xf p - E)); [|reflexivity].
        destruct (Z.ltb_spec E (se_rf p - (se_rf p - res))); [reflexivity|lia].
    + apply Z.leb_le in G.
      destruct (Z.leb_spec (se_t0 p + se_xf p + (se_rx_obj p - se_rf p) - E) (- BAND)).
      * destruct (Z.ltb_spec E (se_rf p - (se_rf p - res))); [lia|].
        destruct (Z.ltb_spec E (se_rx_obj p - (se_rf p - res))); [lia|reflexivity].
      * destruct (Z.leb_spec BAND (se_t0 p + se_xf p + (se_rx_obj p - se_rf p) - E)); [|reflexivity].
        destruct (Z.ltb_spec E (se_rx_obj p - (se_rf p - res))); [|lia].
        rewrite andb_false_r. reflexivity.
  - destruct (se_order p); cbn [orb] in G.
    + destruct (Z.leb_spec (se_rf p - E) (- BAND)).
      * destruct (Z.ltb_spec E (se_rf p)); [lia|reflexivity].
      * destruct (Z.leb_spec BAND (se_rf p - E)); [|reflexivity].
        destruct (Z.ltb_spec E (se_rf p)); [reflexivity|lia].
    + apply Z.leb_le in G.
      destruct (Z.leb_spec (se_rx_obj p - E) (- BAND)).
      * destruct (Z.ltb_spec E (se_rf p)); [lia|]. destruct (Z.ltb_spec E (se_rx_obj p)); [lia|reflexivity].
      * destruct (Z.leb_spec BAND (se_rx_obj p - E)); [|reflexivity].
        destruct (Z.ltb_spec E (se_rx_obj p)); [|lia]. rewrite andb_false_r. reflexivity.
Qed.

(* ------------------------------------------------------------------ H. plain readings of the two predicates *)
Lemma sound_from_elim : forall evs chk band use_id hist outs k acts toi id,
  sound_from chk band use_id hist evs outs = true ->
  nth_error outs k = Some acts -> In (AOpen toi id) acts ->
  exists ev now, nth_error evs k = Some ev /\ ev_time ev = Some now
    /\ justified chk band (rev (firstn (S k) evs) ++ hist) now toi (if use_id then Some id else None) = true.
Proof.
  induction evs as [|ev r IH]; intros chk band use_id hist outs k acts toi id H Hn Hin.
  - destruct outs; [destruct k; discriminate|discriminate].
  - destruct outs as [|a outs']; [discriminate|]. cbn [sound_from] in H. apply andb_prop in H. destruct H as [Ha Hr].
    destruct k as [|k'].
    + cbn in Hn. inversion Hn; subst a. rewrite forallb_forall in Ha. specialize (Ha _ Hin). cbv beta iota in Ha.
      destruct (ev_time ev) as [now|] eqn:Et; [|discriminate]. exists ev, now. split; [reflexivity|]. split; [exact Et|].
      cbn [firstn rev app]. exact Ha.
    + cbn [nth_error] in Hn. destruct (IH chk band use_id (ev :: hist) outs' k' acts toi id Hr Hn Hin) as (ev' & now & E1 & E2 & E3).
      exists ev', now. split; [exact E1|]. split; [exact E2|].
      replace (rev (firstn (S (S k')) (ev :: r)) ++ hist) with (rev (firstn (S k') r) ++ ev :: hist); [exact E3|].
      change (firstn (S (S k')) (ev :: r)) with (ev :: firstn (S k') r). cbn [rev]. rewrite <- app_assoc. reflexivity.
Qed.

Lemma justified_incl : forall chk band h h' now toi oid, incl h h' ->
  justified chk band h now toi oid = true -> justified chk band h' now toi oid = true.
Proof.
  intros chk band h h' now toi oid Hi H. unfold justified in *. apply existsb_exists in H. destruct H as (x & Hx & Hp).
  apply existsb_exists. exists x. split; [apply Hi; exact Hx|exact Hp].
Qed.

Lemma silent_from_elim : forall evs chk band hist jset outs all,
  silent_from chk band hist jset evs outs = true -> incl hist all -> incl evs all ->
  forall acts a, In acts outs -> In a acts ->
    memN (action_toi a) jset = true
    \/ exists ev now, In ev all /\ ev_time ev = Some now /\ justified chk band all now (action_toi a) None = true.
Proof.
  induction evs as [|ev r IH]; intros chk band hist jset outs all H Hh He acts a Hacts Ha.
  - destruct outs; [inversion Hacts|discriminate].
  - destruct outs as [|a0 outs']; [discriminate|]. cbn [silent_from] in H. apply andb_prop in H. destruct H as [H1 H2].
    set (jset' := match ev_time ev with Some now => justified_now chk band (ev :: hist) now ++ jset | None => jset end) in *.
    assert (Hall : incl (ev :: hist) all).
    { intros x [Hx|Hx]; [apply He; left; exact Hx|apply Hh; exact Hx]. }
    assert (Hj : forall t, memN t jset' = true ->
                 memN t jset = true
                 \/ exists ev0 now, In ev0 all /\ ev_time ev0 = Some now /\ justified chk band all now t None = true).
    { intros t Ht. subst jset'. destruct (ev_time ev) as [now|] eqn:Et; [|left; exact Ht].
      rewrite memN_app in Ht. apply orb_true_iff in Ht. destruct Ht as [Ht|Ht]; [|left; exact Ht].
      right. apply memN_In in Ht. apply in_now_justified in Ht. rename Ht into Hjt.
      exists ev, now. split; [apply He; left; reflexivity|]. split; [exact Et|].
      eapply justified_incl; [exact Hall|exact Hjt]. }
    destruct Hacts as [<-|Hacts].
    + rewrite forallb_forall in H1. apply Hj. apply H1. exact Ha.
    + destruct (IH chk band (ev :: hist) jset' outs' all H2 Hall (fun x Hx => He x (or_intror Hx)) acts a Hacts Ha) as [K|K].
      * apply Hj; exact K.
      * right; exact K.
Qed.

Lemma list_eqb_refl : forall {A} (eqb : A -> A -> bool) (l : list A),
  (forall x, eqb x x = true) -> list_eqb eqb l l = true.
Proof. intros A eqb l H. induction l as [|x r IH]; [reflexivity|]. cbn. rewrite H, IH. reflexivity. Qed.

Lemma P_C19_same_refl : forall o, P_C19_same o o = true.
Proof.
  intros o. unfold P_C19_same. apply list_eqb_refl. intros l. apply list_eqb_refl.
  intros [t i|t]; cbn; apply N.eqb_refl.
Qed.

(* ------------------------------------------------------------------ I. the statements of Properties/C19.v *)
Open Scope Z_scope.
Lemma p_conversions : forall es raw,
  expires_of es = spec_expires_ns es /\ ntp_to_system_time raw = spec_sct_ns raw.
Proof. intros es raw. split; [symmetry; apply spec_expires_eq|symmetry; apply spec_sct_ns_eq]. Qed.

Lemma p_delivery_only_through_unexpired : forall chk once evs outs,
  outputs (mkCfg chk once) evs = Some outs -> uniform_sct evs = true ->
  sound_from chk 0 true [] evs outs = true.
Proof. intros chk once evs outs H U. apply (spec_holds chk once evs outs 0 true H U). lia. Qed.

Lemma p_delivery_only_through_unexpired_explicit : forall chk once evs outs k acts toi id,
  outputs (mkCfg chk once) evs = Some outs -> uniform_sct evs = true ->
  nth_error outs k = Some acts -> In (AOpen toi id) acts ->
  exists ev now, nth_error evs k = Some ev /\ ev_time ev = Some now
    /\ exists pkt, In pkt (firstn (S k) evs) /\ pkt_justifies chk 0 now toi (Some id) pkt = true.
Proof.
  intros chk once evs outs k acts toi id H U Hn Hin.
  assert (S : sound_from chk 0 true [] evs outs = true) by (apply (spec_holds chk once evs outs 0 true H U); lia).
  destruct (sound_from_elim _ _ _ _ _ _ _ _ _ _ S Hn Hin) as (ev & now & E1 & E2 & E3).
  exists ev, now. split; [exact E1|]. split; [exact E2|].
  unfold justified in E3. apply existsb_exists in E3. destruct E3 as (pkt & Hp & Hj). exists pkt. split; [|exact Hj].
  rewrite app_nil_r in Hp. apply in_rev in Hp. exact Hp.
Qed.

Lemma p_expired_only_silent : forall once evs outs toi,
  outputs (mkCfg true once) evs = Some outs -> uniform_sct evs = true ->
  (forall ev now pkt, In ev evs -> ev_time ev = Some now -> In pkt evs ->
                      pkt_justifies true 0 now toi None pkt = false) ->
  forall acts a, In acts outs -> In a acts -> action_toi a <> toi.
Proof.
  intros once evs outs toi H U Hexp acts a Hacts Ha Heq.
  assert (S : silent_from true 0 [] [] evs outs = true) by (apply (spec_holds true once evs outs 0 true H U); lia).
  destruct (silent_from_elim evs true 0 [] [] outs evs S (incl_nil_l _) (incl_refl _) acts a Hacts Ha) as [K|K].
  - discriminate.
  - destruct K as (ev & now & Hin & Ht & Hj). unfold justified in Hj. apply existsb_exists in Hj.
    destruct Hj as (pkt & Hp & Hj). rewrite Heq in Hj. rewrite (Hexp ev now pkt Hin Ht Hp) in Hj. discriminate.
Qed.

Lemma p_spec_sound_holds : forall cfg evs outs,
  outputs cfg evs = Some outs -> uniform_sct evs = true -> P_C19_sound (c_check cfg) evs outs = true.
Proof.
  intros [chk once] evs outs H U. apply (spec_holds chk once evs outs BAND false H U). unfold BAND; lia.
Qed.

Lemma p_spec_silent_holds : forall cfg evs outs,
  outputs cfg evs = Some outs -> uniform_sct evs = true -> P_C19_silent (c_check cfg) evs outs = true.
Proof.
  intros [chk once] evs outs H U. apply (spec_holds chk once evs outs BAND false H U). unfold BAND; lia.
Qed.

Lemma p_spec_same_holds : forall cfg d evs o1 o2, all_sct evs = true ->
  outputs cfg evs = Some o1 -> outputs cfg (map (shift_ev d) evs) = Some o2 -> P_C19_same o1 o2 = true.
Proof.
  intros cfg d evs o1 o2 A H1 H2. rewrite (skew_invariant_run cfg d evs o1 o2 A H1 H2). apply P_C19_same_refl.
Qed.

Lemma p_spec_same_disabled_holds : forall once evs evs' o1 o2, Forall2 same_shape evs evs' ->
  outputs (mkCfg false once) evs = Some o1 -> outputs (mkCfg false once) evs' = Some o2 -> P_C19_same o1 o2 = true.
Proof.
  intros once evs evs' o1 o2 F H1 H2. destruct (check_disabled_ignores_expiry once evs evs' F) as (o & E1 & E2).
  rewrite E1 in H1. rewrite E2 in H2. inversion H1; inversion H2; subst. apply P_C19_same_refl.
Qed.
