(* C01 for RaptorQ (FEC 6) and Raptor (FEC 1): composition of the sender model (Model/BlockEnc.v:
   Block::new_from_buffer with the encoder oracles [rep] / [raptor_src], BlockEncoder::read) with the object-receiver
   model (Model/ObjRecv.v, decoder oracle e_fec; Proofs/C02RS.v fq_recoverable_delivers) over the identity channel, at
   object level (sections 1-4) and at session level (section 6).
   The codes are not modelled.  On the receiver side C02 quantifies over [enc s i] = "whatever the sender's encoder
   produces for (sbn, esi)"; here [enc] is INSTANTIATED by [rx_enc]: the symbol number esi of the shard list the
   sender model's Block has for source block sbn (source symbols, then the repair symbols of the oracle [rep]).
   The wire bridge [to_apkt_fq] is that of /repo/src/common/alccodec/alcraptorq.rs (8-bit SBN, 24-bit ESI) and
   alcraptor.rs (16-bit SBN, 16-bit ESI). *)
From FluteV Require Import Model.Partition Model.BlockEnc Spec.C07Spec Spec.C08Spec
  Proofs.PartitionProofs Proofs.BlockEncProofs Proofs.C08Full
  Model.ObjRecv Spec.RecvSpec Spec.SessionSpec Proofs.SessionProofs Proofs.C02Full Proofs.C02RS Proofs.C01Full Proofs.C01RS.
From Coq Require Import Lia Arith PeanoNat.
Open Scope N_scope.

Arguments N.add : simpl never. Arguments N.mul : simpl never. Arguments N.sub : simpl never.
Arguments N.div : simpl never. Arguments N.modulo : simpl never. Arguments N.min : simpl never.
Arguments N.ltb : simpl never. Arguments N.leb : simpl never. Arguments N.eqb : simpl never.
Arguments N.of_nat : simpl never. Arguments N.to_nat : simpl never.

(* ================= 1. sender side, RaptorQ / Raptor: what exactly is in each packet ================= *)
Definition is_fq (f : fec) : bool := match f with RaptorQ | Raptor => true | _ => false end.

(* the source symbols Block::new_from_buffer makes of the bytes [buf] of a block of k symbols:
   RaptorQ: the E-byte chunks, the last one ZERO-PADDED to E (fec/raptorq.rs resizes the buffer to a multiple of E);
   Raptor:  what the raptor-code crate cuts (the oracle [raptor_src]; None = the encoder refuses the block) *)
Definition fq_src_syms (rsrc : list N -> N -> option (list (list N))) (c : ecfg) (buf : list N) (k : N)
  : option (list (list N)) :=
  match c_fec c with
  | Raptor => rsrc buf k
  | _ => Some (map (pad (N.to_nat (c_e c))) (chunks (N.to_nat (c_e c)) buf))
  end.
(* all encoding symbols of source block s in ESI order: its source symbols, then the repair symbols of [rep] *)
Definition blk_syms (rep : fec -> N -> list N -> N -> N -> list (list N)) (rsrc : list N -> N -> option (list (list N)))
  (c : ecfg) (content : list N) (s : N) : list (list N) :=
  let '(al, as_, nal, _) := block_partitioning (c_b c) (c_tlen c) (c_e c) in
  match fq_src_syms rsrc c (blk_buf c content s) (nominal_syms al as_ nal s) with
  | Some src => src ++ rep (c_fec c) s (blk_buf c content s) (nominal_syms al as_ nal s) (c_parity c)
  | None => []
  end.
(* THE RECEIVER-SIDE VIEW OF THE SENDER'S ENCODER: the encoding symbol (sbn, esi) *)
Definition rx_enc (rep : fec -> N -> list N -> N -> N -> list (list N)) (rsrc : list N -> N -> option (list (list N)))
  (c : ecfg) (content : list N) (s i : N) : list N :=
  nth (N.to_nat i) (blk_syms rep rsrc c content s) [].

(* THE PREMISE ON THE RAPTOR SOURCE-SYMBOL ORACLE (Raptor only): for every source block of the object the raptor-code
   crate accepts the block (flute's FileDesc::new refuses the objects with a block of 2 or 3 symbols beforehand) and
   cuts it into k symbols that add up to the block.  Both the E-byte chunks and the "semi-equal" pieces of RFC 5053
   5.3.1.2 that the crate really cuts (finding D30) satisfy it. *)
Definition raptor_src_ok (rsrc : list N -> N -> option (list (list N))) (c : ecfg) (content : list N) : Prop :=
  c_fec c = Raptor ->
  let '(al, as_, nal, n) := block_partitioning (c_b c) (c_tlen c) (c_e c) in
  forall s, s < n ->
    exists src, rsrc (blk_buf c content s) (nominal_syms al as_ nal s) = Some src
                /\ lenN src = nominal_syms al as_ nal s /\ sumlen src = lenN (blk_buf c content s).

(* Every packet of the transfer: a block of the partition, the source block length = k of the block, an ESI below the
   number of encoding symbols of the block, the payload = that encoding symbol.  Executable. *)
Definition P_C08_fq_exact (rep : fec -> N -> list N -> N -> N -> list (list N)) (rsrc : list N -> N -> option (list (list N)))
  (c : ecfg) (content : list N) (ps : list pkt) : bool :=
  let '(al, as_, nal, n) := block_partitioning (c_b c) (c_tlen c) (c_e c) in
  forallb (fun p =>
    (p_sbn p <? n) && (p_k p =? nominal_syms al as_ nal (p_sbn p))
    && (p_esi p <? lenN (blk_syms rep rsrc c content (p_sbn p)))
    && eqb_listN (p_payload p) (rx_enc rep rsrc c content (p_sbn p) (p_esi p))) ps.

Lemma enumerate_from_0_app l1 l2 :
  enumerate_from 0 l1 ++ enumerate_from (lenN l1) l2 = enumerate_from 0 (l1 ++ l2).
Proof. rewrite enumerate_from_app, N.add_0_l. reflexivity. Qed.

Lemma lenN_app' {A} (a b : list A) : lenN (a ++ b) = lenN a + lenN b.
Proof. unfold lenN. rewrite app_length. lia. Qed.

Lemma lenN_pad_chunks e buf : 0 < e ->
  lenN (map (pad (N.to_nat e)) (chunks (N.to_nat e) buf)) = div_ceil (lenN buf) e.
Proof.
  intros He. unfold lenN at 1. rewrite map_length. pose proof (chunks_length e buf He) as HL.
  unfold lenN at 1 in HL. exact HL.
Qed.

(* the transfer: exact payloads, every block has at least its k source ESIs, every source ESI of every block present,
   close flag on the last packet only (iff last transfer), no panic and no fuel exhaustion - whatever the build profile *)
Theorem fq_transfer_exact : forall rep raptor_src c content,
  is_fq (c_fec c) = true -> 0 < c_tlen c ->
  filedesc_accepts c = true -> c_tlen c = lenN content -> (1 <= c_window c)%nat ->
  raptor_src_ok raptor_src c content ->
  let blocks := blocks_of_buffer rep raptor_src c content in
  let outs := enc_run (S (S (total_shards blocks))) c [] (est_init blocks) in
  let ps := pkts_of outs in
  P_C08_fq_exact rep raptor_src c content ps = true
  /\ (let '(al, as_, nal, n) := block_partitioning (c_b c) (c_tlen c) (c_e c) in
      (forall s, s < n -> exists src, fq_src_syms raptor_src c (blk_buf c content s) (nominal_syms al as_ nal s) = Some src
                                      /\ lenN src = nominal_syms al as_ nal s)
      /\ forall s i, s < n -> i < nominal_syms al as_ nal s -> In (s, i) (map (fun p => (p_sbn p, p_esi p)) ps))
  /\ flags_ok (c_closable c) ps
  /\ no_panic outs.
Proof.
  intros rep rsrc c content Hfq Hl Hacc Hlen Hw Hrsrc blocks outs ps. unfold ps, outs. clear ps outs.
  destruct (accepts_pos c Hacc Hl) as [He Hb].
  pose proof (partition_covers_proof (c_b c) (c_tlen c) (c_e c) Hb He Hl) as P.
  unfold P_C08_fq_exact, rx_enc, blk_syms, raptor_src_ok, blk_buf in *.
  destruct (block_partitioning (c_b c) (c_tlen c) (c_e c)) as [[[al as_] nal] n] eqn:Ebp.
  destruct P as [P _].
  assert (Eb0 : blocks = blocks_buf rep rsrc (S (length content)) c al as_ nal content 0 0).
  { unfold blocks, blocks_of_buffer. rewrite Ebp.
    destruct content; [unfold lenN in Hlen; cbn [length] in Hlen; lia|reflexivity]. }
  destruct (ceil_witness (c_tlen c) (c_e c) He) as (r & HT & Hr).
  set (T := div_ceil (c_tlen c) (c_e c)) in *.
  set (e := c_e c) in *. set (l := c_tlen c) in *.
  pose proof P as [C Lb Ls Ll Lt Ln Lp Ev Od].
  set (off := fun s => sym_off al as_ nal s * e).
  set (len := fun s => block_len_closed al as_ nal l e s).
  set (nom := fun s => nominal_syms al as_ nal s).
  set (buf := fun s => sublist (off s) (off s + len s) content).
  pose proof (blk_facts _ _ _ _ _ _ _ _ _ P He HT Hr) as BF. fold off len nom in BF.
  pose proof (blk_k_nominal _ _ _ _ _ _ _ _ _ P He HT Hr) as BK. fold len nom in BK.
  pose proof (nom_pos _ _ _ _ _ _ l e r P He HT Hr) as NP. fold nom in NP.
  assert (Hbuflen : forall s, s < n -> lenN (buf s) = len s).
  { intros s Hs. destruct (BF s Hs) as (Hstep & _). unfold buf.
    rewrite lenN_sublist; [lia|lia|]. rewrite Hstep. fold l in Hlen. lia. }
  (* the source symbols of every block *)
  assert (Hsrc : forall s, s < n -> exists src, fq_src_syms rsrc c (buf s) (nom s) = Some src /\ lenN src = nom s
                                               /\ sumlen src = if padded (c_fec c) then nom s * e else len s).
  { intros s Hs. unfold fq_src_syms. fold e. destruct (c_fec c) eqn:Ef; try discriminate Hfq.
    - eexists. split; [reflexivity|]. split.
      + rewrite lenN_pad_chunks by exact He. rewrite (Hbuflen s Hs). apply (BK s Hs).
      + cbn [padded]. rewrite (sumlen_pad (N.to_nat e) ltac:(lia)) by (unfold chunks; apply chunks_fuel_le; lia).
        pose proof (chunks_length e (buf s) He) as HL. unfold lenN at 1 in HL. rewrite HL, (Hbuflen s Hs), (BK s Hs). lia.
    - destruct (Hrsrc eq_refl s Hs) as (src & E1 & E2 & E3). exists src. split; [exact E1|]. split; [exact E2|].
      cbn [padded]. fold (buf s) in E3. rewrite E3. apply (Hbuflen s Hs). }
  set (syms := fun s => match fq_src_syms rsrc c (buf s) (nom s) with
                        | Some src => src ++ rep (c_fec c) s (buf s) (nom s) (c_parity c)
                        | None => [] end).
  set (blockfn := fun s => mk_blk s (nom s) (enumerate_from 0 (syms s))).
  assert (Hmk : forall s, s < n -> mk_block rep rsrc c s (buf s) = Some (blockfn s)).
  { intros s Hs. destruct (Hsrc s Hs) as (src & E1 & E2 & _).
    unfold mk_block, blockfn, syms. rewrite E1. unfold fq_src_syms in E1. fold e in E1 |- *.
    destruct (N.eqb_spec e 0) as [Z|_]; [lia|]. cbv zeta.
    rewrite (Hbuflen s Hs), (BK s Hs).
    destruct (c_fec c) eqn:Ef; try discriminate Hfq.
    - inversion E1 as [E1']. rewrite E1'. rewrite <- E2 at 2. rewrite enumerate_from_0_app. reflexivity.
    - rewrite E1. rewrite enumerate_from_0_app. reflexivity. }
  set (nn := N.to_nat n).
  assert (Hnl : (nn <= length content)%nat).
  { assert (nal * 1 <= nal * al) by (apply N.mul_le_mono_l; lia).
    assert ((n - nal) * 1 <= (n - nal) * as_) by (apply N.mul_le_mono_l; lia).
    pose proof (div_ceil_le l e He). fold T in H1. unfold lenN in Hlen. lia. }
  assert (Eblocks : blocks = map (fun i => blockfn (N.of_nat i)) (seq 0 nn)).
  { rewrite Eb0.
    pose proof (blocks_buf_spec _ _ _ _ _ _ l e r P He HT Hr rep rsrc c content blockfn eq_refl (eq_sym Hlen) Hmk
                  nn (S (length content)) 0 ltac:(lia) ltac:(lia) ltac:(lia)) as S0.
    cbv beta in S0. rewrite sym_off_0, N.mul_0_l in S0. rewrite S0. apply map_ext. intros i. reflexivity. }
  clear Eb0. clearbody blocks. subst blocks.
  set (BL := map (fun i => blockfn (N.of_nat i)) (seq 0 nn)).
  set (s0 := est_init BL).
  assert (Fsbn : forall s, bk_sbn (blockfn s) = s) by reflexivity.
  assert (Eall : all_wbs s0 = map to_wb BL) by reflexivity.
  (* source bytes accounted by the scheduler: RaptorQ k * E per block (padded symbols), Raptor the block length *)
  set (x := if padded (c_fec c) then nom (n - 1) * e - len (n - 1) else 0).
  set (g := fun s => src_of_wb (to_wb (blockfn s))).
  assert (Hg : forall s, s < n -> g s = if padded (c_fec c) then nom s * e else len s).
  { intros s Hs. destruct (Hsrc s Hs) as (src & E1 & E2 & E3).
    unfold g, blockfn, syms. rewrite E1. unfold src_of_wb, to_wb. cbn [wb_rest bk_shards wb_k bk_k]. unfold is_src_of. cbn [wb_k].
    change (fold_right _ 0 ?l0) with (src_fold (nom s) l0).
    rewrite <- enumerate_from_0_app, src_fold_app.
    rewrite (src_fold_ge _ (rep (c_fec c) s (buf s) (nom s) (c_parity c))) by lia.
    rewrite src_fold_lt by lia. rewrite N.add_0_r. exact E3. }
  assert (HSRC : src_total s0 = l + x).
  { unfold src_total. rewrite Eall. unfold BL. rewrite src_total_of_map.
    pose proof (sum_src _ _ _ _ _ _ l e r P He HT Hr g x) as S1. fold len in S1.
    rewrite (map_ext (fun i => src_of_wb (to_wb (blockfn (N.of_nat i)))) (fun i => g (0 + N.of_nat i)))
      by (intros i; unfold g; do 3 f_equal; lia).
    rewrite <- (S1) with (k := nn) (s := 0); [rewrite sym_off_0; lia| | |lia|lia].
    - intros s Hs. rewrite Hg by lia. destruct (BF s ltac:(lia)) as (_ & _ & _ & _ & _ & Hfull & _).
      rewrite (Hfull Hs). destruct (padded (c_fec c)); reflexivity.
    - rewrite Hg by lia. destruct (BF (n - 1) ltac:(lia)) as (_ & _ & _ & Hle & _).
      unfold x. destruct (padded (c_fec c)); lia. }
  assert (Hx : forall s, s < n -> x < g s).
  { intros s Hs. rewrite (Hg s Hs). unfold x.
    destruct (BF s Hs) as (_ & Hpos & _). destruct (BF (n - 1) ltac:(lia)) as (_ & _ & _ & _ & Hlt & _).
    specialize (NP s).
    assert (1 * e <= nom s * e) by (apply N.mul_le_mono_r; lia).
    destruct (padded (c_fec c)); lia. }
  assert (W : wf c (src_total s0) s0).
  { apply wf_init.
    - pose proof (nodup_seq blockfn Fsbn nn) as ND. rewrite map_map in ND. exact ND.
    - fold s0. rewrite HSRC. fold l. lia.
    - intros b0 Hb0. fold s0. rewrite HSRC. fold l. unfold BL in Hb0. apply in_map_iff in Hb0.
      destruct Hb0 as (i & <- & Hi). apply in_seq in Hi.
      pose proof (Hx (N.of_nat i) ltac:(lia)) as Hxi. unfold g in Hxi. lia. }
  assert (Htot : (0 < tot s0)%nat).
  { destruct (Nat.eq_dec (tot s0) 0) as [Z|]; [|lia]. apply src_zero_of_tot in Z.
    fold (src_total s0) in Z. pose proof (Hx 0 Ln). lia. }
  rewrite total_shards_tot. fold s0.
  destruct (enc_run_complete_proof c (src_total s0) Hw (S (S (tot s0))) s0 W ltac:(lia) (or_introl Htot))
    as (_ & R2 & R3 & R4).
  pose proof (enc_run_hdr c Hw (S (S (tot s0))) s0 eq_refl (wf_nodup _ _ _ W) (or_introl Htot)) as R5.
  set (ps := pkts_of (enc_run (S (S (tot s0))) c [] s0)) in *. clearbody ps.
  (* the shards of block s, as the packets of block s carry them *)
  assert (Hshards : forall i, (i < nn)%nat ->
            map view_p (filter (fun q => p_sbn q =? N.of_nat i) ps)
            = map view_sh (enumerate_from 0 (syms (N.of_nat i)))).
  { intros i Hi. rewrite (R3 (N.of_nat i)). unfold pend. rewrite Eall. unfold BL.
    rewrite (pend_of_seq blockfn Fsbn i nn 0) by lia. reflexivity. }
  split; [|split; [split|split; [exact (R4 Htot)|exact R2]]].
  - apply forallb_forall. intros p Hp.
    destruct (R5 p Hp) as [(wb & Hin & E1 & E2) _]. rewrite Eall in Hin. unfold BL in Hin. rewrite map_map in Hin.
    apply in_map_iff in Hin. destruct Hin as (i & <- & Hi). apply in_seq in Hi.
    cbn [to_wb wb_sbn wb_k blockfn bk_sbn bk_k] in E1, E2.
    assert (Hs : p_sbn p < n) by lia. set (s := p_sbn p) in *.
    assert (Ek : p_k p = nom s) by (rewrite <- E2, E1; reflexivity).
    fold (nom s). change (sublist (sym_off al as_ nal s * e) (sym_off al as_ nal s * e + len s) content) with (buf s).
    change (match fq_src_syms rsrc c (buf s) (nom s) with
            | Some src => src ++ rep (c_fec c) s (buf s) (nom s) (c_parity c)
            | None => [] end) with (syms s).
    assert (Hv : In (view_p p) (map view_sh (enumerate_from 0 (syms s)))).
    { assert (In (view_p p) (map view_p (filter (fun q => p_sbn q =? s) ps))).
      { apply in_map. apply filter_In. split; [exact Hp|apply N.eqb_refl]. }
      replace s with (N.of_nat i) in H |- * by lia. rewrite (Hshards i) in H by lia. exact H. }
    apply in_map_iff in Hv. destruct Hv as (sh & Ev' & Hsh).
    assert (Eesi : p_esi p = sh_esi sh) by (unfold view_p, view_sh in Ev'; inversion Ev'; congruence).
    assert (Epl : p_payload p = sh_data sh) by (unfold view_p, view_sh in Ev'; inversion Ev'; congruence).
    pose proof (enumerate_from_range _ _ _ Hsh) as Rg.
    destruct (enumerate_from_nth _ _ _ Hsh) as (j & Hj & Ej). rewrite N.add_0_l in Ej.
    apply andb_true_iff; split; [apply andb_true_iff; split; [apply andb_true_iff; split|]|].
    + apply N.ltb_lt. exact Hs.
    + apply N.eqb_eq. exact Ek.
    + apply N.ltb_lt. lia.
    + rewrite Epl, Eesi, Ej. replace (N.to_nat (N.of_nat j)) with j by lia.
      rewrite (nth_error_nth _ _ [] Hj). apply eqb_listN_refl.
  - intros s Hs. destruct (Hsrc s Hs) as (src & E1 & E2 & _). exists src. split; [exact E1|exact E2].
  - intros s i Hs Hi.
    assert (Hin : In i (map p_esi (filter (fun q => p_sbn q =? s) ps))).
    { replace (map p_esi (filter (fun q => p_sbn q =? s) ps))
        with (map fst (map view_p (filter (fun q => p_sbn q =? s) ps))) by (rewrite map_map; reflexivity).
      replace s with (N.of_nat (N.to_nat s)) by lia. rewrite (Hshards (N.to_nat s)) by lia.
      replace (N.of_nat (N.to_nat s)) with s by lia.
      rewrite map_map. change (map (fun x0 => fst (view_sh x0)) ?l0) with (map sh_esi l0).
      apply enumerate_from_esi_in; [lia|].
      destruct (Hsrc s Hs) as (src & E1 & E2 & _). unfold syms. rewrite E1, lenN_app'. fold (nom s) in Hi. lia. }
    apply in_map_iff in Hin. destruct Hin as (p & Ep & Hp). apply filter_In in Hp. destruct Hp as [Hp Esb].
    apply N.eqb_eq in Esb. apply in_map_iff. exists p. split; [rewrite Ep, Esb; reflexivity|exact Hp].
Qed.
Print Assumptions fq_transfer_exact.

(* ================= 2. the wire bridge of RaptorQ and Raptor ================= *)
(* FEC 6 (AlcRaptorQ::add_fec_payload_id): ((sbn & 0xFF) << 24) | (esi & 0xFFFFFF), big endian, codepoint 6.
   FEC 1 (AlcRaptor): ((sbn & 0xFFFF) << 16) | (esi & 0xFFFF), big endian, codepoint 1.
   The close-object flag is the LCT B flag; no EXT_FTI / EXT_CENC (the FDT entry carries them). *)
Definition rfec_of_fq (f : fec) : rfec := match f with Raptor => FRaptor | _ => FRaptorQ end.

Definition to_apkt_fq (f : fec) (toi : N) (p : pkt) : apkt :=
  match f with
  | Raptor => rp_pkt toi (p_sbn p mod 65536) (p_esi p mod 65536) (p_close p) (p_payload p)
  | _ => rq_pkt toi (p_sbn p mod 256) (p_esi p mod 16777216) (p_close p) (p_payload p)
  end.

(* the receiver's OTI (from the FDT entry) describes the sender's configuration *)
Definition oti_matches_fq (c : ecfg) (oti : roti) : Prop :=
  ro_fec oti = rfec_of_fq (c_fec c) /\ ro_e oti = c_e c /\ ro_b oti = c_b c.

(* every ESI of the transfer fits the ESI field of the payload id (24 bits for RaptorQ, 16 for Raptor): the largest
   block has at most limit - parity source symbols.  FileDesc::new does not check it  [fq_esi_wraps_refuted] *)
Definition fq_esi_limit (f : fec) : N := match f with Raptor => 65536 | _ => 16777216 end.
Definition fq_esi_fits (c : ecfg) : bool :=
  let '(al, _, _, _) := block_partitioning (c_b c) (c_tlen c) (c_e c) in al + c_parity c <=? fq_esi_limit (c_fec c).

(* since the fix D46 FileDesc::new checks it for every block length that exists (k + parity <= 2^24 / 2^16) *)
Lemma accepts_esi_fits_fq c :
  is_fq (c_fec c) = true -> filedesc_accepts c = true -> 0 < c_tlen c -> fq_esi_fits c = true.
Proof.
  intros Hfq Hacc Hl. destruct (accepts_pos c Hacc Hl) as [He Hb].
  pose proof (partition_covers_proof (c_b c) (c_tlen c) (c_e c) Hb He Hl) as P.
  unfold fq_esi_fits.
  destruct (block_partitioning (c_b c) (c_tlen c) (c_e c)) as [[[al as_] nal] n] eqn:Ebp.
  destruct P as [P _]. pose proof P as [_ _ _ _ Lt _ _ Ev _].
  pose proof (accepts_encodable c al as_ nal n Hacc Hl Ebp Lt 0) as H.
  assert (Ek : nominal_syms al as_ nal 0 = al).
  { unfold nominal_syms. destruct (N.ltb_spec 0 nal) as [_|G]; [reflexivity|]. symmetry. apply Ev. lia. }
  rewrite Ek in H. unfold fq_esi_limit.
  destruct (c_fec c); try discriminate Hfq; cbn [encodable] in H; [exact H|].
  apply andb_true_iff in H. apply H.
Qed.

(* RaptorQ: the repair symbols the encoder oracle produces for the blocks of the object have E bytes (the raptorq
   crate's symbols all have the symbol size); needed for fq_sized_pkt only *)
Definition rq_rep_sized (rep : fec -> N -> list N -> N -> N -> list (list N)) (c : ecfg) (content : list N) : Prop :=
  c_fec c = RaptorQ ->
  let '(al, as_, nal, n) := block_partitioning (c_b c) (c_tlen c) (c_e c) in
  forall s, s < n ->
    Forall (fun d => lenN d = c_e c) (rep RaptorQ s (blk_buf c content s) (nominal_syms al as_ nal s) (c_parity c)).

(* Raptor (D47: the receiver discards a symbol longer than E): the encoding symbols of the blocks of the object - the
   source symbols the raptor-code crate cuts (pieces of at most ceil(block length / k) <= E bytes) and its repair
   symbols (of that size too) - have at most E bytes; needed for fq_sized_pkt only *)
Definition rp_syms_sized (rep : fec -> N -> list N -> N -> N -> list (list N)) (rsrc : list N -> N -> option (list (list N)))
  (c : ecfg) (content : list N) : Prop :=
  c_fec c = Raptor ->
  let '(al, as_, nal, n) := block_partitioning (c_b c) (c_tlen c) (c_e c) in
  forall s, s < n -> Forall (fun d => lenN d <= c_e c) (blk_syms rep rsrc c content s).

Lemma parse_rq_pidb s i : s < 256 -> i < 16777216 -> parse_pid FRaptorQ (rq_pidb s i) = Some (s, i, None).
Proof.
  intros Hs Hi. unfold parse_pid, rq_pidb. cbn [length Nat.eqb]. unfold be_val. cbn [fold_left].
  pose proof (N.div_mod i 256 ltac:(lia)) as D1. pose proof (N.div_mod (i / 256) 256 ltac:(lia)) as D2.
  rewrite N.div_div in D2 by lia. change (256 * 256) with 65536 in D2.
  assert (i / 65536 < 256) by (apply N.div_lt_upper_bound; lia).
  set (a := i / 65536) in *. set (b := (i / 256) mod 256) in *. set (c := i mod 256) in *. set (q := i / 256) in *.
  replace ((((0 * 256 + s) * 256 + a) * 256 + b) * 256 + c) with (i + s * 16777216) by lia.
  rewrite N.div_add, N.mod_add by lia. rewrite N.div_small, N.mod_small by lia. rewrite N.add_0_l. reflexivity.
Qed.

Lemma parse_rp_pid s i : s < 65536 -> i < 65536 -> parse_pid FRaptor (mk_pid s i) = Some (s, i, None).
Proof. exact (parse_mk_pid s i). Qed.

Lemma lenN_pad e d : lenN d <= e -> lenN (pad (N.to_nat e) d) = e.
Proof. intros H. unfold pad, lenN in *. rewrite app_length, repeat_length. lia. Qed.

Lemma fq_close_flag_ok_last oti L pre p :
  Forall (fun q => a_close_obj q = false) pre -> fq_recoverable oti L (pre ++ [p]) = true ->
  fq_close_flag_ok oti L (pre ++ [p]).
Proof.
  intros F R pre' q post Eq Hq.
  assert (D : pre' = pre /\ q = p).
  { clear R. revert pre' Eq. induction F as [|x pre Hx F IH]; intros pre' Eq.
    - destruct pre' as [|y pre']; cbn [app] in Eq; inversion Eq; subst; [split; reflexivity|].
      destruct pre'; discriminate.
    - destruct pre' as [|y pre']; cbn [app] in Eq; inversion Eq; subst; [congruence|].
      destruct (IH pre' H1) as [-> ->]. split; reflexivity. }
  destruct D as [-> ->]. exact R.
Qed.

Lemma fq_covered_recoverable oti L al as_ nal n pkts :
  partition_of oti L = (al, as_, nal, n) ->
  (forall s i, s < n -> i < k_of al as_ nal s -> In (s, i) (map (rs_pid oti) pkts)) ->
  fq_recoverable oti L pkts = true.
Proof.
  intros Hp Cov. unfold fq_recoverable, source_ks. rewrite Hp. unfold below.
  apply (blocks_rec_of_all (k_of al as_ nal) (map (rs_pid oti) pkts) (N.to_nat n) 0%nat).
  intros j Hj. apply block_rec_of_in. intros i Hi. apply Cov; [lia|exact Hi].
Qed.

Section BridgeFQ.
  Set Default Proof Using "All".
  Variable rep : fec -> N -> list N -> N -> N -> list (list N).
  Variable rsrc : list N -> N -> option (list (list N)).
  Variable c : ecfg.
  Variable content : list N.
  Variable oti : roti.
  Variable toi : N.
  Variables al as_ nal n : N.
  Hypothesis Hfq : is_fq (c_fec c) = true.
  Hypothesis Hacc : filedesc_accepts c = true.
  Hypothesis Hlen : c_tlen c = lenN content.
  Hypothesis Hl : 0 < c_tlen c.
  Hypothesis Hoti : oti_matches_fq c oti.
  Hypothesis Hreplen : rep_len_ok rep.
  Hypothesis Hesi : fq_esi_fits c = true.
  Hypothesis Ebp : block_partitioning (c_b c) (c_tlen c) (c_e c) = (al, as_, nal, n).
  (* every block has its k source symbols (a conclusion of fq_transfer_exact) *)
  Hypothesis Hsrc : forall s, s < n ->
    exists src, fq_src_syms rsrc c (blk_buf c content s) (nominal_syms al as_ nal s) = Some src
                /\ lenN src = nominal_syms al as_ nal s.

  Notation enc := (rx_enc rep rsrc c content).
  Notation wire := (to_apkt_fq (c_fec c) toi).

  Lemma bridge_partition_fq : partition_of oti (lenN_ content) = (al, as_, nal, n).
  Proof.
    destruct Hoti as (_ & E1 & E2). unfold partition_of. rewrite E1, E2.
    change (lenN_ content) with (lenN content). rewrite <- Hlen. exact Ebp.
  Qed.

  Lemma bridge_cls_fq : cls oti = false /\ us oti = false.
  Proof.
    destruct Hoti as (F & _). unfold cls, us. rewrite F.
    destruct (c_fec c); try discriminate Hfq; split; reflexivity.
  Qed.

  Lemma bridge_n_fq : n <= match c_fec c with Raptor => 65535 | _ => 255 end.
  Proof.
    pose proof (accepts_nblocks c al as_ nal n Hacc Hl Ebp) as H.
    destruct (c_fec c); try discriminate Hfq; exact H.
  Qed.

  (* number of encoding symbols of a block: k source symbols and at most [parity] repair symbols; below the ESI limit *)
  Lemma bridge_syms_len s : s < n ->
    nominal_syms al as_ nal s <= lenN (blk_syms rep rsrc c content s) <= fq_esi_limit (c_fec c).
  Proof.
    intros Hs. destruct (Hsrc s Hs) as (src & E1 & E2). unfold blk_syms. rewrite Ebp, E1, lenN_app', E2.
    pose proof (Hreplen (c_fec c) s (blk_buf c content s) (nominal_syms al as_ nal s) (c_parity c)) as R.
    unfold fq_esi_fits in Hesi. rewrite Ebp in Hesi. apply N.leb_le in Hesi.
    destruct (accepts_pos c Hacc Hl) as [He Hb].
    pose proof (partition_covers_proof (c_b c) (c_tlen c) (c_e c) Hb He Hl) as P. rewrite Ebp in P. destruct P as [P _].
    destruct P as [_ _ Ls _ _ _ _ _ _].
    assert (nominal_syms al as_ nal s <= al) by (unfold nominal_syms; destruct (s <? nal); lia).
    lia.
  Qed.

  (* one packet *)
  Lemma bridge_pkt_fq p :
    p_sbn p < n -> p_esi p < lenN (blk_syms rep rsrc c content (p_sbn p)) ->
    p_payload p = enc (p_sbn p) (p_esi p) ->
    fq_genuine_pkt oti content enc (wire p) = true /\ rs_pid oti (wire p) = (p_sbn p, p_esi p)
    /\ a_close_obj (wire p) = p_close p /\ a_payload (wire p) = p_payload p.
  Proof.
    intros Hs Hi Hp. destruct bridge_cls_fq as [Hcls Hus]. pose proof bridge_n_fq as Hn.
    pose proof (bridge_syms_len (p_sbn p) Hs) as [_ HL].
    pose proof Hoti as (F & E1 & E2).
    set (s := p_sbn p) in *. set (i := p_esi p) in *.
    assert (Epid : a_pid_with (ro_fec oti) (wire p) = Some (s, i, None)).
    { unfold a_pid_with. rewrite F. unfold to_apkt_fq, fq_esi_limit in *. fold s i.
      destruct (c_fec c); try discriminate Hfq; cbn [rfec_of_fq rq_pkt rp_pkt a_pidbytes].
      - rewrite !N.mod_small by lia. apply parse_rq_pidb; lia.
      - rewrite !N.mod_small by lia. apply parse_rp_pid; lia. }
    assert (Ecl : a_close_obj (wire p) = p_close p).
    { unfold to_apkt_fq. destruct (c_fec c); reflexivity. }
    assert (Epl : a_payload (wire p) = p_payload p).
    { unfold to_apkt_fq. destruct (c_fec c); reflexivity. }
    split; [|split; [|split; [exact Ecl|exact Epl]]].
    - unfold fq_genuine_pkt. rewrite bridge_partition_fq. unfold genuineb. rewrite Epid.
      apply andb_true_iff; split; [apply andb_true_iff; split; [apply andb_true_iff; split|]|].
      + unfold sbl_okb. rewrite Hus. reflexivity.
      + apply N.ltb_lt. exact Hs.
      + rewrite Hcls. reflexivity.
      + rewrite Epl. unfold esym. rewrite Hcls. cbn [andb]. rewrite Hp. apply eqb_bytes_refl.
    - unfold rs_pid. rewrite Epid. reflexivity.
  Qed.

  (* RaptorQ: every encoding symbol of a block has E bytes *)
  Lemma rq_syms_sized s : c_fec c = RaptorQ -> rq_rep_sized rep c content -> s < n ->
    Forall (fun d => lenN d = c_e c) (blk_syms rep rsrc c content s).
  Proof.
    intros Ef Hsz Hs. destruct (accepts_pos c Hacc Hl) as [He Hb].
    unfold rq_rep_sized in Hsz. rewrite Ebp in Hsz. specialize (Hsz Ef s Hs).
    unfold blk_syms, fq_src_syms. rewrite Ebp, Ef. apply Forall_app. split; [|rewrite Ef in *; exact Hsz].
    apply Forall_forall. intros d Hd. apply in_map_iff in Hd. destruct Hd as (d0 & <- & Hd0).
    apply lenN_pad. unfold chunks in Hd0.
    pose proof (chunks_fuel_le (N.to_nat (c_e c)) ltac:(lia) (length (blk_buf c content s)) (blk_buf c content s)) as F.
    rewrite Forall_forall in F. specialize (F d0 Hd0). unfold lenN. lia.
  Qed.

  (* all packets of a transfer *)
  Lemma bridge_all_fq ps : P_C08_fq_exact rep rsrc c content ps = true ->
    Forall (fun q => fq_genuine_pkt oti content enc q = true) (map wire ps)
    /\ map (rs_pid oti) (map wire ps) = map (fun p => (p_sbn p, p_esi p)) ps
    /\ map a_close_obj (map wire ps) = map p_close ps
    /\ (rq_rep_sized rep c content -> rp_syms_sized rep rsrc c content ->
        Forall (fun q => fq_sized_pkt oti q = true) (map wire ps)).
  Proof.
    intros H. unfold P_C08_fq_exact in H. rewrite Ebp in H.
    assert (B : forall p, In p ps -> p_sbn p < n /\ p_esi p < lenN (blk_syms rep rsrc c content (p_sbn p))
                                     /\ p_payload p = enc (p_sbn p) (p_esi p)).
    { intros p Hp. rewrite forallb_forall in H. specialize (H p Hp).
      apply andb_true_iff in H. destruct H as [H H4]. apply andb_true_iff in H. destruct H as [H H3].
      apply andb_true_iff in H. destruct H as [H1 H2].
      apply N.ltb_lt in H1. apply N.ltb_lt in H3. apply eqb_listN_eq in H4. auto. }
    assert (A : forall p, In p ps -> fq_genuine_pkt oti content enc (wire p) = true
                                  /\ rs_pid oti (wire p) = (p_sbn p, p_esi p)
                                  /\ a_close_obj (wire p) = p_close p /\ a_payload (wire p) = p_payload p).
    { intros p Hp. destruct (B p Hp) as (B1 & B2 & B3). apply bridge_pkt_fq; assumption. }
    split; [|split; [|split]].
    - apply Forall_forall. intros q Hq. apply in_map_iff in Hq. destruct Hq as (p & <- & Hp). apply (A p Hp).
    - rewrite map_map. apply map_ext_in. intros p Hp. apply (A p Hp).
    - rewrite map_map. apply map_ext_in. intros p Hp. apply (A p Hp).
    - intros Hsz Hpz. apply Forall_forall. intros q Hq. apply in_map_iff in Hq. destruct Hq as (p & <- & Hp).
      unfold fq_sized_pkt. destruct Hoti as (F & E1 & _). rewrite F.
      destruct (A p Hp) as (_ & _ & _ & Epl). destruct (B p Hp) as (B1 & B2 & B3).
      pose proof (fun Ef => rq_syms_sized (p_sbn p) Ef Hsz B1) as Z.
      unfold rp_syms_sized in Hpz. rewrite Ebp in Hpz.
      pose proof Hfq as Hfq'.
      destruct (c_fec c) eqn:Ef; try discriminate Hfq'; cbn [rfec_of_fq].
      + specialize (Z eq_refl).
        rewrite Epl, B3, E1. apply N.eqb_eq. rewrite Forall_forall in Z.
        change (lenN_ ?x) with (lenN x). apply Z. unfold rx_enc. apply nth_In. unfold lenN in B2. lia.
      + specialize (Hpz eq_refl (p_sbn p) B1).
        rewrite Epl, B3, E1. apply N.leb_le. rewrite Forall_forall in Hpz.
        change (lenN_ ?x) with (lenN x). apply Hpz. unfold rx_enc. apply nth_In. unfold lenN in B2. lia.
  Qed.
End BridgeFQ.
Unset Default Proof Using.

(* ================= 3. the composition theorems, object level ================= *)
Section ComposeFQ.
  Variable rep : fec -> N -> list N -> N -> N -> list (list N).
  Variable raptor_src : list N -> N -> option (list (list N)).
  Variable c : ecfg.
  Variable content : list N.
  Variable oti : roti.
  Variable E : env.
  Variables toi max fid : N.
  Variable files : list fdtfile.
  Variable inst : option roti.
  Variable md5 : option (list N).
  (* sender: an accepted RaptorQ / Raptor configuration, a non-empty content of the announced length; the encoder
     oracle gives at most [parity] repair symbols per block, RaptorQ: of E bytes; Raptor: the crate cuts every block
     of the object into its k source symbols (the ESIs fit the payload id: accepts_esi_fits_fq, D46) *)
  Hypothesis Hfq : is_fq (c_fec c) = true.
  Hypothesis Hacc : filedesc_accepts c = true.
  Hypothesis Hlen : c_tlen c = lenN content.
  Hypothesis Hl : 0 < c_tlen c.
  Hypothesis Hw : (1 <= c_window c)%nat.
  Hypothesis Hreplen : rep_len_ok rep.
  Hypothesis Hrepsz : rq_rep_sized rep c content.
  Hypothesis Hrsrc : raptor_src_ok raptor_src c content.
  Hypothesis Hrpsz : rp_syms_sized rep raptor_src c content.
  (* wire: E is a u16 *)
  Hypothesis He16 : c_e c < 65536.
  (* receiver: the FDT entry describes the object (scheme-specific information present and in the decoder's range:
     fq_blocks_ok); the environment is friendly; THE DECODER ORACLE is sound and complete for the symbols the sender's
     encoder produced *)
  Hypothesis Hoti : oti_matches_fq c oti.
  Hypothesis Hbok : fq_blocks_ok oti (c_tlen c).
  Hypothesis Hfdt : fdt_entry_for files inst toi oti (c_tlen c) md5.
  Hypothesis Hwa : writer_accepts E toi.
  Hypothesis Hws : writes_succeed E toi.
  Hypothesis Hmd5 : md5_good E content md5.
  Hypothesis Hsound : fq_oracle_sound E oti content (rx_enc rep raptor_src c content) toi.
  Hypothesis Hcomplete : fq_oracle_complete E oti content (rx_enc rep raptor_src c content) toi.
  Hypothesis Hmax : c_tlen c <= max.
  Hypothesis Hnb : nb_blocks_of oti (c_tlen c) <= 4097.

  Notation enc := (rx_enc rep raptor_src c content).

  (* the packets of one uninterrupted transfer (source and repair symbols, interleaved by the window), on the wire *)
  Definition wire_pkts_fq : list apkt := map (to_apkt_fq (c_fec c) toi) (transfer_pkts rep raptor_src c content).

  Lemma tlen_is_fq : c_tlen c = lenN_ content.
  Proof using Hlen. exact Hlen. Qed.

  Lemma scheme_ok_fq : fq_scheme_ok oti (lenN_ content).
  Proof using Hfq Hacc Hlen Hl He16 Hoti.
    clear Hw Hmax Hnb Hfdt Hwa Hws Hmd5 Hsound Hcomplete Hreplen Hrepsz Hrsrc Hbok.
    destruct Hoti as (F & E1 & E2). destruct (accepts_pos c Hacc Hl) as [He Hb].
    rewrite <- tlen_is_fq. unfold fq_scheme_ok. rewrite F, E1, E2.
    split; [destruct (c_fec c); try discriminate Hfq; [left|right]; reflexivity|].
    repeat split; try assumption.
    unfold filedesc_accepts in Hacc. apply andb_true_iff in Hacc. destruct Hacc as [A _].
    apply andb_true_iff in A. destruct A as [A _]. apply N.leb_le in A.
    unfold max_transfer_length in A. unfold U64.
    assert (c_tlen c <= 281474976710655) by (destruct (c_fec c); lia). lia.
  Qed.

  (* fq_recoverable_delivers, repackaged *)
  Lemma delivered_of_recoverable_fq pkts :
    Forall (fun q => fq_genuine_pkt oti content enc q = true) pkts ->
    Forall (fun q => fq_sized_pkt oti q = true) pkts ->
    fq_close_flag_ok oti (lenN_ content) pkts ->
    fq_recoverable oti (lenN_ content) pkts = true ->
    delivered E fid files inst toi max content pkts.
  Proof using Hfq Hacc Hlen Hl He16 Hoti Hbok Hfdt Hwa Hws Hmd5 Hsound Hcomplete Hmax Hnb.
    intros G Z Cl Rec.
    pose proof (fq_recoverable_delivers E oti content enc toi max fid files inst md5 pkts) as D.
    cbv zeta in D. unfold delivered.
    assert (D' : let (o, cx) := receive E fid files inst toi max pkts in
                 r_state o = Completed /\ ShapeDone content (toi, 0%nat) toi cx
                 /\ forall m, complete_exact content (m, calls_of (toi, 0%nat) (c_log cx)) = true
                     /\ P_C02_object (fq_recoverable oti (lenN_ content) pkts) content
                          [(m, calls_of (toi, 0%nat) (c_log cx))] = true).
    { apply D; try assumption.
      - exact scheme_ok_fq.
      - rewrite <- tlen_is_fq. exact Hbok.
      - rewrite <- tlen_is_fq. exact Hfdt.
      - rewrite <- tlen_is_fq. exact Hmax.
      - rewrite <- tlen_is_fq. exact Hnb. }
    destruct (receive E fid files inst toi max pkts) as [o cx].
    destruct D' as (D1 & D2 & D3). split; [exact D1|]. split; [exact D2|]. intros m.
    destruct (D3 m) as [X Y]. split; [exact X|]. split; [apply exact_once; exact X|].
    rewrite Rec in Y. exact Y.
  Qed.

  (* G1, THE BRIDGE: what the wire image of one uninterrupted transfer satisfies on the receiver side - every packet
     (source or repair) genuine for the sender's encoder and of the right size, with the sender's (sbn, esi); every list
     containing them recoverable (every source symbol of every block is there); the close-object flag on the last
     packet only, iff last transfer *)
  Lemma wire_facts_fq :
    Forall (fun q => fq_genuine_pkt oti content enc q = true) wire_pkts_fq
    /\ Forall (fun q => fq_sized_pkt oti q = true) wire_pkts_fq
    /\ map (rs_pid oti) wire_pkts_fq = map (fun p => (p_sbn p, p_esi p)) (transfer_pkts rep raptor_src c content)
    /\ (forall l, incl wire_pkts_fq l -> fq_recoverable oti (lenN_ content) l = true)
    /\ exists body lst, wire_pkts_fq = body ++ [lst] /\ Forall (fun q => a_close_obj q = false) body
                        /\ a_close_obj lst = c_closable c.
  Proof using Hfq Hacc Hlen Hl Hw Hreplen Hrepsz Hrsrc Hrpsz Hoti.
    pose proof (accepts_esi_fits_fq c Hfq Hacc Hl) as Hesi.
    pose proof (fq_transfer_exact rep raptor_src c content Hfq Hl Hacc Hlen Hw Hrsrc) as X. cbv zeta in X.
    fold (transfer_pkts rep raptor_src c content) in X.
    destruct (block_partitioning (c_b c) (c_tlen c) (c_e c)) as [[[al as_] nal] n] eqn:Ebp.
    destruct X as (Hex & (Hsrc & Cov) & (body & lst & Eps & Fb & Cl) & _).
    assert (Hpart : partition_of oti (lenN_ content) = (al, as_, nal, n)).
    { destruct Hoti as (_ & E1 & E2). unfold partition_of. rewrite E1, E2.
      change (lenN_ content) with (lenN content). rewrite <- Hlen. exact Ebp. }
    destruct (bridge_all_fq rep raptor_src c content oti toi al as_ nal n Hfq Hacc Hlen Hl Hoti Hreplen Hesi Ebp Hsrc _ Hex)
      as (G & Epid & Ecl & Z).
    fold wire_pkts_fq in G, Epid, Ecl, Z.
    split; [exact G|]. split; [exact (Z Hrepsz Hrpsz)|]. split; [exact Epid|]. rewrite <- Epid in Cov. split.
    - intros l I. apply (fq_covered_recoverable _ _ _ _ _ _ _ Hpart).
      intros s i Hs Hi. apply (incl_map (rs_pid oti) I). apply Cov; assumption.
    - exists (map (to_apkt_fq (c_fec c) toi) body), (to_apkt_fq (c_fec c) toi lst). split; [|split].
      + unfold wire_pkts_fq. rewrite Eps, map_app. reflexivity.
      + apply Forall_forall. intros q Hq. apply in_map_iff in Hq.
        destruct Hq as (p & <- & Hp). rewrite Forall_forall in Fb. rewrite <- (Fb p Hp).
        unfold to_apkt_fq. destruct (c_fec c); reflexivity.
      + rewrite <- Cl. unfold to_apkt_fq. destruct (c_fec c); reflexivity.
  Qed.

  (* main lemma 1: any genuine, well-sized, flag-free packets [pre] (source or repair symbols of earlier cycles, any
     order, any duplication), then one whole transfer in order (last transfer or not) *)
  Theorem fq_prefix_then_transfer_delivered pre :
    Forall (fun q => fq_genuine_pkt oti content enc q = true) pre ->
    Forall (fun q => fq_sized_pkt oti q = true) pre ->
    Forall (fun q => a_close_obj q = false) pre ->
    delivered E fid files inst toi max content (pre ++ wire_pkts_fq).
  Proof.
    intros Gpre Zpre Fpre. destruct wire_facts_fq as (G & Z & _ & Rec & body & lst & Ew & Fb & _).
    assert (RecAll : fq_recoverable oti (lenN_ content) (pre ++ wire_pkts_fq) = true)
      by (apply Rec; apply incl_appr, incl_refl).
    apply delivered_of_recoverable_fq; [apply Forall_app; split; assumption|apply Forall_app; split; assumption| |exact RecAll].
    rewrite Ew, app_assoc. apply fq_close_flag_ok_last.
    - apply Forall_app. split; assumption.
    - rewrite <- app_assoc, <- Ew. exact RecAll.
  Qed.

  (* main lemma 2: any list of genuine packets without the close-object flag that contains every packet of one
     transfer - any order, any duplication, anything genuine in between *)
  Theorem fq_superset_delivered l :
    Forall (fun q => fq_genuine_pkt oti content enc q = true) l ->
    Forall (fun q => fq_sized_pkt oti q = true) l ->
    Forall (fun q => a_close_obj q = false) l ->
    incl wire_pkts_fq l ->
    delivered E fid files inst toi max content l.
  Proof.
    intros Gl Zl Fl I. destruct wire_facts_fq as (_ & _ & _ & Rec & _).
    apply delivered_of_recoverable_fq; [exact Gl|exact Zl|apply fq_close_flag_ok_noflag; exact Fl|apply Rec; exact I].
  Qed.

  (* G2 (C01): clean channel, one transfer, last (close flag on the last packet) or intermediate *)
  Theorem fq_clean_channel_delivered : delivered E fid files inst toi max content wire_pkts_fq.
  Proof. apply (fq_prefix_then_transfer_delivered []); constructor. Qed.

  (* (C16): carousel (no close flag), late join at any offset j of one cycle, then one whole cycle *)
  Theorem fq_late_join_delivered : c_closable c = false ->
    forall j, delivered E fid files inst toi max content (skipn j wire_pkts_fq ++ wire_pkts_fq).
  Proof.
    intros Hc j. destruct wire_facts_fq as (G & Z & _ & _ & body & lst & Ew & Fb & Cl).
    assert (Fall : Forall (fun q => a_close_obj q = false) wire_pkts_fq).
    { rewrite Ew. apply Forall_app. split; [exact Fb|]. constructor; [congruence|constructor]. }
    assert (Sub : forall P : apkt -> Prop, Forall P wire_pkts_fq -> Forall P (skipn j wire_pkts_fq)).
    { intros P F. rewrite <- (firstn_skipn j wire_pkts_fq) in F. apply Forall_app in F. apply F. }
    apply fq_prefix_then_transfer_delivered; apply Sub; assumption.
  Qed.
End ComposeFQ.

Print Assumptions fq_clean_channel_delivered.
Print Assumptions fq_late_join_delivered.
Print Assumptions fq_superset_delivered.
Print Assumptions fq_prefix_then_transfer_delivered.
Print Assumptions wire_facts_fq.

(* ================= 4. what the RaptorQ source symbols are; satisfiability of the oracle hypotheses ================= *)
(* sender and receiver agree on the RaptorQ source symbols: the sender's source symbol (s, i) is the E-byte slice of
   the content at its RFC 5052 offset, ZERO-PADDED to E bytes (the last symbol of the object) *)
Lemma rq_source_symbol rep rsrc c content al as_ nal n :
  c_fec c = RaptorQ -> filedesc_accepts c = true -> c_tlen c = lenN content -> 0 < c_tlen c ->
  block_partitioning (c_b c) (c_tlen c) (c_e c) = (al, as_, nal, n) ->
  forall s i, s < n -> i < nominal_syms al as_ nal s ->
  rx_enc rep rsrc c content s i
  = pad (N.to_nat (c_e c)) (sym_slice (c_e c) content (sym_off al as_ nal s + i)).
Proof.
  intros Ef Hacc Hlen Hl Ebp s i Hs Hi. destruct (accepts_pos c Hacc Hl) as [He Hb].
  pose proof (partition_covers_proof (c_b c) (c_tlen c) (c_e c) Hb He Hl) as P. rewrite Ebp in P. destruct P as [P _].
  destruct (ceil_witness (c_tlen c) (c_e c) He) as (r & HT & Hr).
  unfold rx_enc, blk_syms, fq_src_syms, blk_buf. rewrite Ebp, Ef.
  set (e := c_e c) in *. set (l := c_tlen c) in *.
  set (off := sym_off al as_ nal s * e). set (len := block_len_closed al as_ nal l e s).
  set (nom := nominal_syms al as_ nal s) in *.
  destruct (blk_facts _ _ _ _ _ _ _ _ _ P He HT Hr s Hs) as (Hstep & Hpos & Hoff & Hle & Hlt & Hfull & Hnext).
  cbv beta in Hstep, Hpos, Hoff, Hle, Hlt, Hfull, Hnext. fold off len nom in Hstep, Hpos, Hoff, Hle, Hlt, Hfull, Hnext.
  pose proof (blk_k_nominal _ _ _ _ _ _ _ _ _ P He HT Hr s Hs) as BK. cbv beta in BK. fold len nom in BK.
  set (buf := sublist off (off + len) content).
  assert (Hbuflen : lenN buf = len).
  { unfold buf. rewrite lenN_sublist; [lia|lia|]. rewrite Hstep. fold l in Hlen. lia. }
  assert (HLc : lenN (map (pad (N.to_nat e)) (chunks (N.to_nat e) buf)) = nom).
  { rewrite lenN_pad_chunks by exact He. rewrite Hbuflen. exact BK. }
  rewrite app_nth1 by (unfold lenN in HLc; lia).
  destruct (nth_error (map (pad (N.to_nat e)) (chunks (N.to_nat e) buf)) (N.to_nat i)) as [d|] eqn:En.
  2:{ apply nth_error_None in En. unfold lenN in HLc. lia. }
  rewrite (nth_error_nth _ _ [] En). rewrite nth_error_map in En.
  destruct (nth_error (chunks (N.to_nat e) buf) (N.to_nat i)) as [d0|] eqn:Ed0; [|discriminate].
  cbn [option_map] in En. inversion En as [Hd]. clear En.
  apply chunks_nth in Ed0; [|exact He]. destruct Ed0 as [_ Hd0]. rewrite Hd0. unfold buf.
  rewrite chunk_is_sym_slice; [| exact He | rewrite Hstep; fold l in Hlen; lia |].
  - unfold sym_slice. replace (N.of_nat (N.to_nat i)) with i by lia. unfold off.
    replace ((sym_off al as_ nal s + i) * e) with (sym_off al as_ nal s * e + i * e) by ring. reflexivity.
  - replace (N.of_nat (N.to_nat i)) with i by lia.
    destruct (N.eq_dec (off + len) l) as [El|Ne]; [left; fold l in Hlen; lia|right].
    assert (len = nom * e) by lia.
    assert ((i + 1) * e <= nom * e) by (apply N.mul_le_mono_r; lia). lia.
Qed.

(* the oracle hypotheses depend on the encoder only through its values on the blocks of the object *)
Lemma fq_oracle_ext E oti content e1 e2 toi :
  (forall s i, s < nb_blocks_of oti (lenN_ content) -> e1 s i = e2 s i) ->
  (fq_oracle_sound E oti content e1 toi -> fq_oracle_sound E oti content e2 toi)
  /\ (fq_oracle_complete E oti content e1 toi -> fq_oracle_complete E oti content e2 toi).
Proof.
  intros Hext.
  assert (G : forall s sh, s < nb_blocks_of oti (lenN_ content) ->
            fq_shards_genuine oti (lenN_ content) e2 s sh -> fq_shards_genuine oti (lenN_ content) e1 s sh).
  { intros s sh Hs [ND F]. split; [exact ND|]. eapply Forall_impl; [|exact F]. intros p [A B]. split; [|exact B].
    rewrite A, (Hext s (fst p) Hs). reflexivity. }
  split.
  - intros H s sh d Hs F O. apply (H s sh d Hs (G s sh Hs F) O).
  - intros H s sh Hs F A. apply (H s sh Hs (G s sh Hs F) A).
Qed.

(* RaptorQ: the receiver-side view of the sender's encoder is a systematic code over the zero-padded object *)
Lemma rq_enc_is_rs_symbol rep rsrc c content oti :
  c_fec c = RaptorQ -> filedesc_accepts c = true -> c_tlen c = lenN content -> 0 < c_tlen c -> oti_matches_fq c oti ->
  forall s i, s < nb_blocks_of oti (lenN_ content) ->
  rs_symbol oti content (rx_enc rep rsrc c content) s i = rx_enc rep rsrc c content s i.
Proof.
  intros Ef Hacc Hlen Hl Hoti s i Hs. destruct (accepts_pos c Hacc Hl) as [He Hb].
  destruct (block_partitioning (c_b c) (c_tlen c) (c_e c)) as [[[al as_] nal] n] eqn:Ebp.
  pose proof Hoti as (F & E1 & E2).
  assert (Hpart : partition_of oti (lenN_ content) = (al, as_, nal, n)).
  { unfold partition_of. rewrite E1, E2. change (lenN_ content) with (lenN content). rewrite <- Hlen. exact Ebp. }
  unfold nb_blocks_of in Hs. fold (partition_of oti (lenN_ content)) in Hs. rewrite Hpart in Hs.
  unfold rs_symbol. rewrite Hpart. destruct (N.ltb_spec i (k_of al as_ nal s)) as [G|G]; [|reflexivity].
  assert (HL : 0 < lenN_ content) by (change (lenN_ content) with (lenN content); rewrite <- Hlen; exact Hl).
  assert (He' : 0 < ro_e oti) by (rewrite E1; exact He).
  assert (Hb' : 0 < ro_b oti) by (rewrite E2; exact Hb).
  rewrite psym_is_padded_slice; [|exact He'|exact HL|].
  - rewrite E1. symmetry. apply (rq_source_symbol rep rsrc c content al as_ nal n Ef Hacc Hlen Hl Ebp s i Hs G).
  - pose proof Hpart as Hpart'. unfold partition_of in Hpart'.
    pose proof (soff_k_le oti content al as_ nal n He' Hb' HL Hpart' s Hs) as SK. unfold soff. unfold soff in SK. lia.
Qed.

(* NON-VACUITY, RaptorQ, every accepted object: the systematic toy decoder (it reassembles the source symbols and
   ignores the repair symbols) satisfies both oracle hypotheses for the sender model's encoder, whatever [rep] *)
Lemma rq_oracle_sys E rep rsrc c content oti toi :
  (forall t f s k e size sh, e_fec E t f s k e size sh = sys_dec t f s k e size sh) ->
  c_fec c = RaptorQ -> filedesc_accepts c = true -> c_tlen c = lenN content -> 0 < c_tlen c -> oti_matches_fq c oti ->
  fq_oracle_sound E oti content (rx_enc rep rsrc c content) toi
  /\ fq_oracle_complete E oti content (rx_enc rep rsrc c content) toi.
Proof.
  intros HE Ef Hacc Hlen Hl Hoti. destruct (accepts_pos c Hacc Hl) as [He Hb]. pose proof Hoti as (F & E1 & E2).
  assert (HL : 0 < lenN_ content) by (change (lenN_ content) with (lenN content); rewrite <- Hlen; exact Hl).
  destruct (sys_dec_oracle E oti content (rx_enc rep rsrc c content) toi HE
              ltac:(rewrite E1; exact He) ltac:(rewrite E2; exact Hb) HL) as [S C].
  destruct (fq_oracle_ext E oti content (rs_symbol oti content (rx_enc rep rsrc c content)) (rx_enc rep rsrc c content) toi
              (rq_enc_is_rs_symbol rep rsrc c content oti Ef Hacc Hlen Hl Hoti)) as [X Y].
  split; [exact (X S)|exact (Y C)].
Qed.
Theorem rq_oracle_hypotheses_satisfiable rep rsrc c content oti toi :
  c_fec c = RaptorQ -> filedesc_accepts c = true -> c_tlen c = lenN content -> 0 < c_tlen c -> oti_matches_fq c oti ->
  fq_oracle_sound env_sys oti content (rx_enc rep rsrc c content) toi
  /\ fq_oracle_complete env_sys oti content (rx_enc rep rsrc c content) toi.
Proof. apply rq_oracle_sys. intros. reflexivity. Qed.
Print Assumptions rq_oracle_hypotheses_satisfiable.

(* ================= 5. concrete instances ================= *)
(* toy encoder oracles: every repair symbol is the junk [7; 7] (the systematic toy decoder env_sys of Proofs/C02RS.v
   ignores repair symbols); the Raptor source-symbol oracle cuts E-byte chunks *)
Definition junk_rep : fec -> N -> list N -> N -> N -> list (list N) := fun _ _ _ _ p => repeat [7; 7] (N.to_nat p).
Definition chunk_rsrc (e : N) : list N -> N -> option (list (list N)) := fun buf _ => Some (chunks (N.to_nat e) buf).

Lemma junk_rep_len : rep_len_ok junk_rep.
Proof. intros f sbn buf k p. unfold junk_rep, lenN. rewrite repeat_length. lia. Qed.

(* RaptorQ: the 5-byte object of C02 (E = 2, B = 2, one repair symbol per block, scheme-specific Z = N = Al = 1), two
   interleaved blocks, debug-profile sender.  Raptor: a 16-byte object, E = 2, B = 4 (two blocks of 4 symbols; the
   raptor-code encoder refuses blocks of 2 or 3 symbols), one repair symbol per block *)
Definition exq_cfg (closable : bool) : ecfg := mk_ecfg RaptorQ 2 2 1 2 closable 5 true.
Definition ex16 : list N := [1; 2; 3; 4; 5; 6; 7; 8; 9; 10; 11; 12; 13; 14; 15; 16].
Definition exp_cfg (closable : bool) : ecfg := mk_ecfg Raptor 2 4 1 2 closable 16 true.
Definition exp16_oti : roti := mk_roti FRaptor 2 4 1 (Some (2, 1, 1)).
Definition exp16_files : list fdtfile := [mk_ff 7 CNull (Some exp16_oti) 16 None None false].

Example exq_wire :
  map (fun p => (p_sbn p, p_esi p, p_payload p, p_close p, p_k p, p_src p))
      (transfer_pkts junk_rep no_rsrc (exq_cfg true) exr_content)
  = [(0, 0, [1; 2], false, 2, true); (1, 0, [5; 0], false, 1, true); (0, 1, [3; 4], false, 2, true);
     (1, 1, [7; 7], false, 1, false); (0, 2, [7; 7], true, 2, false)]
  /\ map (fun q => (rs_pid exq_oti q, a_pidbytes q, a_cp q)) (wire_pkts_fq junk_rep no_rsrc (exq_cfg true) exr_content 7)
     = [(0, 0, [0; 0; 0; 0], 6); (1, 0, [1; 0; 0; 0], 6); (0, 1, [0; 0; 0; 1], 6); (1, 1, [1; 0; 0; 1], 6);
        (0, 2, [0; 0; 0; 2], 6)]
  /\ map (fun p => (p_sbn p, p_esi p, p_payload p, p_close p, p_k p, p_src p))
         (transfer_pkts junk_rep (chunk_rsrc 2) (exp_cfg true) ex16)
     = [(0, 0, [1; 2], false, 4, true); (1, 0, [9; 10], false, 4, true); (0, 1, [3; 4], false, 4, true);
        (1, 1, [11; 12], false, 4, true); (0, 2, [5; 6], false, 4, true); (1, 2, [13; 14], false, 4, true);
        (0, 3, [7; 8], false, 4, true); (1, 3, [15; 16], false, 4, true); (0, 4, [7; 7], false, 4, false);
        (1, 4, [7; 7], true, 4, false)]
  /\ map (fun q => (rs_pid exp16_oti q, a_pidbytes q, a_cp q)) (wire_pkts_fq junk_rep (chunk_rsrc 2) (exp_cfg true) ex16 7)
     = [(0, 0, [0; 0; 0; 0], 1); (1, 0, [0; 1; 0; 0], 1); (0, 1, [0; 0; 0; 1], 1); (1, 1, [0; 1; 0; 1], 1);
        (0, 2, [0; 0; 0; 2], 1); (1, 2, [0; 1; 0; 2], 1); (0, 3, [0; 0; 0; 3], 1); (1, 3, [0; 1; 0; 3], 1);
        (0, 4, [0; 0; 0; 4], 1); (1, 4, [0; 1; 0; 4], 1)].
Proof. vm_compute. repeat split. Qed.

(* sender model -> bridge -> receiver model with the systematic toy decoder, by computation: last transfer / carousel
   transfer; the wire packets are genuine for the receiver-side view of the sender's encoder, and well sized *)
Example exq_clean_channel_computed :
  summary 7 (receive env_sys 1 exq_files None 7 1000 (wire_pkts_fq junk_rep no_rsrc (exq_cfg true) exr_content 7))
  = (Completed, [CallOpen true; CallWrite [1; 2; 3; 4] true; CallWrite [5] true; CallComplete])
  /\ summary 7 (receive env_sys 1 exq_files None 7 1000 (wire_pkts_fq junk_rep no_rsrc (exq_cfg false) exr_content 7))
  = (Completed, [CallOpen true; CallWrite [1; 2; 3; 4] true; CallWrite [5] true; CallComplete])
  /\ summary 7 (receive env_sys 1 exp16_files None 7 1000 (wire_pkts_fq junk_rep (chunk_rsrc 2) (exp_cfg true) ex16 7))
  = (Completed, [CallOpen true; CallWrite [1; 2; 3; 4; 5; 6; 7; 8] true; CallWrite [9; 10; 11; 12; 13; 14; 15; 16] true; CallComplete])
  /\ forallb (fq_genuine_pkt exq_oti exr_content (rx_enc junk_rep no_rsrc (exq_cfg true) exr_content))
             (wire_pkts_fq junk_rep no_rsrc (exq_cfg true) exr_content 7) = true
  /\ forallb (fq_sized_pkt exq_oti) (wire_pkts_fq junk_rep no_rsrc (exq_cfg true) exr_content 7) = true
  /\ fq_recoverable exq_oti 5 (wire_pkts_fq junk_rep no_rsrc (exq_cfg true) exr_content 7) = true
  /\ forallb (fq_genuine_pkt exp16_oti ex16 (rx_enc junk_rep (chunk_rsrc 2) (exp_cfg true) ex16))
             (wire_pkts_fq junk_rep (chunk_rsrc 2) (exp_cfg true) ex16 7) = true
  /\ fq_recoverable exp16_oti 16 (wire_pkts_fq junk_rep (chunk_rsrc 2) (exp_cfg true) ex16 7) = true.
Proof. vm_compute. repeat split. Qed.

Lemma two_cases s : s < 2 -> s = 0 \/ s = 1. Proof. lia. Qed.
Lemma four_cases i : i < 4 -> i = 0 \/ i = 1 \/ i = 2 \/ i = 3. Proof. lia. Qed.

(* the premises of the theorems are satisfiable: they apply to these instances *)
Example exq_clean_channel_by_theorem closable :
  delivered env_sys 1 exq_files None 7 1000 exr_content (wire_pkts_fq junk_rep no_rsrc (exq_cfg closable) exr_content 7).
Proof.
  assert (A : filedesc_accepts (exq_cfg closable) = true) by (destruct closable; vm_compute; reflexivity).
  assert (M : oti_matches_fq (exq_cfg closable) exq_oti) by (repeat split).
  destruct (rq_oracle_hypotheses_satisfiable junk_rep no_rsrc (exq_cfg closable) exr_content exq_oti 7 eq_refl A eq_refl eq_refl M)
    as [S C].
  apply (fq_clean_channel_delivered junk_rep no_rsrc (exq_cfg closable) exr_content exq_oti env_sys 7 1000 1 exq_files None None).
  - reflexivity.
  - exact A.
  - reflexivity.
  - reflexivity.
  - cbn [exq_cfg c_window]. lia.
  - exact junk_rep_len.
  - intros _. unfold rq_rep_sized, junk_rep.
    destruct (block_partitioning _ _ _) as [[[al as_] nal] n]. intros s _. cbn [exq_cfg c_parity c_e].
    repeat constructor.
  - intros H. discriminate H.
  - intros H. discriminate H.
  - reflexivity.
  - exact M.
  - vm_compute. reflexivity.
  - exists (mk_ff 7 CNull (Some exq_oti) 5 None None false). repeat split.
  - split; reflexivity.
  - intros i. reflexivity.
  - exact I.
  - exact S.
  - exact C.
  - vm_compute. discriminate.
  - vm_compute. discriminate.
Qed.

Definition exp_cfg_gen (w : nat) (closable debug : bool) : ecfg := mk_ecfg Raptor 2 4 1 w closable 16 debug.
Lemma exp_raptor_src_ok w closable debug : raptor_src_ok (chunk_rsrc 2) (exp_cfg_gen w closable debug) ex16.
Proof.
  intros _. replace (block_partitioning (c_b (exp_cfg_gen w closable debug)) (c_tlen (exp_cfg_gen w closable debug))
                                        (c_e (exp_cfg_gen w closable debug)))
    with (4, 4, 0, 2) by (vm_compute; reflexivity).
  intros s Hs. eexists. split; [reflexivity|].
  destruct (two_cases s Hs) as [-> | ->]; vm_compute; split; reflexivity.
Qed.

Lemma exp_syms_sized w closable debug : rp_syms_sized junk_rep (chunk_rsrc 2) (exp_cfg_gen w closable debug) ex16.
Proof.
  intros _. replace (block_partitioning (c_b (exp_cfg_gen w closable debug)) (c_tlen (exp_cfg_gen w closable debug))
                                        (c_e (exp_cfg_gen w closable debug)))
    with (4, 4, 0, 2) by (vm_compute; reflexivity).
  intros s Hs. apply Forall_forall. intros d Hd. apply N.leb_le. revert d Hd. apply forallb_forall.
  destruct (two_cases s Hs) as [-> | ->]; vm_compute; reflexivity.
Qed.

Lemma exp_enc_sys w closable debug s i : s < nb_blocks_of exp16_oti (lenN_ ex16) ->
  rs_symbol exp16_oti ex16 (rx_enc junk_rep (chunk_rsrc 2) (exp_cfg_gen w closable debug) ex16) s i
  = rx_enc junk_rep (chunk_rsrc 2) (exp_cfg_gen w closable debug) ex16 s i.
Proof.
  intros Hs. replace (nb_blocks_of exp16_oti (lenN_ ex16)) with 2 in Hs by (vm_compute; reflexivity).
  unfold rs_symbol. replace (partition_of exp16_oti (lenN_ ex16)) with (4, 4, 0, 2) by (vm_compute; reflexivity).
  destruct (two_cases s Hs) as [-> | ->].
  - change (k_of 4 4 0 0) with 4. destruct (N.ltb_spec i 4) as [G|G]; [|reflexivity].
    destruct (four_cases i G) as [-> | [-> | [-> | ->]]]; vm_compute; reflexivity.
  - change (k_of 4 4 0 1) with 4. destruct (N.ltb_spec i 4) as [G|G]; [|reflexivity].
    destruct (four_cases i G) as [-> | [-> | [-> | ->]]]; vm_compute; reflexivity.
Qed.

(* the systematic toy decoder satisfies the oracle hypotheses for this Raptor object *)
Lemma exp_oracle_sys E w closable debug :
  (forall t f s k e size sh, e_fec E t f s k e size sh = sys_dec t f s k e size sh) ->
  fq_oracle_sound E exp16_oti ex16 (rx_enc junk_rep (chunk_rsrc 2) (exp_cfg_gen w closable debug) ex16) 7
  /\ fq_oracle_complete E exp16_oti ex16 (rx_enc junk_rep (chunk_rsrc 2) (exp_cfg_gen w closable debug) ex16) 7.
Proof.
  intros HE.
  destruct (sys_dec_oracle E exp16_oti ex16 (rx_enc junk_rep (chunk_rsrc 2) (exp_cfg_gen w closable debug) ex16) 7
              HE eq_refl eq_refl eq_refl) as [S C].
  destruct (fq_oracle_ext E exp16_oti ex16 _ _ 7 (exp_enc_sys w closable debug)) as [X Y].
  split; [exact (X S)|exact (Y C)].
Qed.

Example exp_clean_channel_by_theorem closable :
  delivered env_sys 1 exp16_files None 7 1000 ex16 (wire_pkts_fq junk_rep (chunk_rsrc 2) (exp_cfg closable) ex16 7).
Proof.
  destruct (exp_oracle_sys env_sys 2 closable true (fun _ _ _ _ _ _ _ => eq_refl)) as [S C].
  apply (fq_clean_channel_delivered junk_rep (chunk_rsrc 2) (exp_cfg closable) ex16 exp16_oti env_sys 7 1000 1 exp16_files None None).
  - reflexivity.
  - destruct closable; vm_compute; reflexivity.
  - reflexivity.
  - reflexivity.
  - cbn [exp_cfg c_window]. lia.
  - exact junk_rep_len.
  - intros H. discriminate H.
  - exact (exp_raptor_src_ok 2 closable true).
  - exact (exp_syms_sized 2 closable true).
  - reflexivity.
  - repeat split.
  - vm_compute. reflexivity.
  - exists (mk_ff 7 CNull (Some exp16_oti) 16 None None false). repeat split.
  - split; reflexivity.
  - intros i. reflexivity.
  - exact I.
  - exact S.
  - exact C.
  - vm_compute. discriminate.
  - vm_compute. discriminate.
Qed.

(* ---------- the premises are needed ---------- *)
(* fq_esi_fits (D46, fixed): RaptorQ, E = 1, B = 1, a 1-byte object, 2^24 repair symbols per block WAS accepted by FileDesc::new
   (replayed on the Rust sender with Raptor, k = 4, 65535 parity symbols: wire ESIs 65536.. went out as 0, 1, 2); it is now
   refused (k + parity > 2^24 / 2^16).  What the wire bridge would do with such an ESI: the repair symbol with ESI 2^24 goes
   out with payload id 00 00 00 00 = (sbn 0, esi 0) - the payload id of the source symbol - and is not a genuine packet
   (wrapq_enc: source symbol [1], that repair symbol [9]).  Raptor: ESI 2^16 likewise. *)
Definition wrapq_cfg : ecfg := mk_ecfg RaptorQ 1 1 16777216 1 true 1 false.
Definition wrapp_cfg : ecfg := mk_ecfg Raptor 1 4 65535 1 true 4 false.
Definition wrapq_oti : roti := mk_roti FRaptorQ 1 1 16777216 (Some (1, 1, 1)).
Definition wrapq_enc (s i : N) : list N := if i =? 16777216 then [9] else [1].
Example fq_esi_wrap_now_refused :
  filedesc_accepts wrapq_cfg = false /\ fq_esi_fits wrapq_cfg = false
  /\ filedesc_accepts (mk_ecfg RaptorQ 1 1 16777215 1 true 1 false) = true
  /\ filedesc_accepts wrapp_cfg = false /\ fq_esi_fits wrapp_cfg = false
  /\ filedesc_accepts (mk_ecfg Raptor 1 4 65532 1 true 4 false) = true
  /\ oti_matches_fq wrapq_cfg wrapq_oti
  /\ (let p := mk_pkt 0 16777216 [9] false 1 false in
      rs_pid wrapq_oti (to_apkt_fq RaptorQ 7 p) = (0, 0) /\ a_pidbytes (to_apkt_fq RaptorQ 7 p) = [0; 0; 0; 0]
      /\ fq_genuine_pkt wrapq_oti [1] wrapq_enc (to_apkt_fq RaptorQ 7 p) = false)
  /\ (let p := mk_pkt 0 65536 [9] false 1 false in a_pidbytes (to_apkt_fq Raptor 7 p) = [0; 0; 0; 0]).
Proof. vm_compute. repeat split. Qed.

(* raptor_src_ok, "the encoder accepts every block": with an encoder that refuses (no_rsrc) nothing is sent *)
(* raptor_src_ok, "k symbols": an oracle that returns the block as ONE symbol (the block announces k = 4): the source ESIs
   1..3 never appear, the list is not recoverable and the close flag interrupts the object *)
(* raptor_src_ok, "that add up to the block": symbols with two extra bytes each: the scheduler counts 16 source bytes
   after block 0 and sets the close flag on its last packet, in the MIDDLE of the transfer (window 1) *)
Definition lazy_rsrc : list N -> N -> option (list (list N)) := fun buf _ => Some [buf].
Definition fat_rsrc : list N -> N -> option (list (list N)) := fun buf _ => Some (map (fun d => d ++ [0; 0]) (chunks 2 buf)).
Example raptor_src_ok_refuted :
  filedesc_accepts (exp_cfg true) = true
  /\ wire_pkts_fq junk_rep no_rsrc (exp_cfg true) ex16 7 = []
  /\ map (rs_pid exp16_oti) (wire_pkts_fq junk_rep lazy_rsrc (exp_cfg true) ex16 7) = [(0, 0); (1, 0); (0, 1); (1, 1)]
  /\ fq_recoverable exp16_oti 16 (wire_pkts_fq junk_rep lazy_rsrc (exp_cfg true) ex16 7) = false
  /\ summary 7 (receive env_sys 1 exp16_files None 7 1000 (wire_pkts_fq junk_rep lazy_rsrc (exp_cfg true) ex16 7))
     = (Interrupted, [CallOpen true; CallInterrupted])
  /\ map (fun q => (rs_pid exp16_oti q, a_close_obj q))
         (wire_pkts_fq junk_rep fat_rsrc (mk_ecfg Raptor 2 4 1 1 true 16 true) ex16 7)
     = [(0, 0, false); (0, 1, false); (0, 2, false); (0, 3, false); (0, 4, true);
        (1, 0, false); (1, 1, false); (1, 2, false); (1, 3, false); (1, 4, true)].
Proof. vm_compute. repeat split. Qed.

(* rq_rep_sized is needed for fq_sized_pkt (goal G1) only: with 1-byte repair symbols (E = 2) the two repair packets are
   not well sized; the block decoder discards them and the object is delivered all the same *)
Definition short_rep : fec -> N -> list N -> N -> N -> list (list N) := fun _ _ _ _ p => repeat [7] (N.to_nat p).
Example rq_rep_sized_refuted :
  map (fq_sized_pkt exq_oti) (wire_pkts_fq short_rep no_rsrc (exq_cfg true) exr_content 7) = [true; true; true; false; false]
  /\ summary 7 (receive env_sys 1 exq_files None 7 1000 (wire_pkts_fq short_rep no_rsrc (exq_cfg true) exr_content 7))
     = (Completed, [CallOpen true; CallWrite [1; 2; 3; 4] true; CallWrite [5] true; CallComplete]).
Proof. vm_compute. repeat split. Qed.

(* rp_syms_sized (D47) is needed for fq_sized_pkt only: Raptor, E = 2, 3-byte repair symbols: the two repair packets are
   not well sized; the block decoder discards them (longer than E) and the object is delivered all the same by its
   source symbols *)
Definition long_rep : fec -> N -> list N -> N -> N -> list (list N) := fun _ _ _ _ p => repeat [7; 7; 7] (N.to_nat p).
Example rp_syms_sized_refuted :
  map (fq_sized_pkt exp16_oti) (wire_pkts_fq long_rep (chunk_rsrc 2) (exp_cfg true) ex16 7)
  = [true; true; true; true; true; true; true; true; false; false]
  /\ summary 7 (receive env_sys 1 exp16_files None 7 1000 (wire_pkts_fq long_rep (chunk_rsrc 2) (exp_cfg true) ex16 7))
     = (Completed, [CallOpen true; CallWrite [1; 2; 3; 4; 5; 6; 7; 8] true; CallWrite [9; 10; 11; 12; 13; 14; 15; 16] true; CallComplete]).
Proof. vm_compute. repeat split. Qed.

(* ================= 6. the session level: a RaptorQ / Raptor object in a No-Code session ================= *)
(* Composition, as Proofs/C01Session.v and section 6 of Proofs/C01RS.v, of (a) the sender's data plane (above), (b) the
   sender's FDT content (Model/FdtInst.v fdt_xml), (c) the receiver as a whole (Model/Recv.v; Proofs/C02SessionRS.v
   fq_session_fdt_first_delivers), (d) the receiver's FDT oracle instantiated by C01Session.fdt_oracle, and of the
   metadata handed to the writer builder.  The FDT instance itself stays No-Code coded (session OTI No-Code, one packet);
   the object has its own RaptorQ / Raptor OTI (TransferConfig.oti: FEC 6 or 1 with its scheme-specific element).  The
   File element carries the FileDesc's OTI [used_oti]: the object's OTI with Z := the number of source blocks. *)
From FluteV Require Import Model.Ntp Proofs.AlcProofs.
From FluteV Require Import Model.Xml Model.SenderCtl Model.FdtInst Model.FdtRecv Spec.C10Spec Proofs.XmlProofs Proofs.FdtProofs.
From FluteV Require Import Model.Recv Proofs.C02Session Proofs.C02SessionRS Proofs.C01Esi Proofs.C01Session.
From Coq Require Import Ascii.
Open Scope bool_scope.
Open Scope N_scope.
Arguments Z.add : simpl never. Arguments Z.sub : simpl never. Arguments Z.mul : simpl never.
Arguments Z.div : simpl never. Arguments Z.modulo : simpl never.
Arguments Z.ltb : simpl never. Arguments Z.leb : simpl never.

Definition fq_id (id : N) : Prop := id = 6 \/ id = 1.
Definition fec_of_id_fq (id : N) : fec := if id =? 1 then Raptor else RaptorQ.

(* the data-plane configuration of the object described by [m]: the OTI it is sent with, its transfer length *)
Definition obj_ecfg_fq (cfg : fdt_cfg) (m : fmeta) (window : nat) (closable debug : bool) : ecfg :=
  let o := the_oti (c_oti cfg) m in
  mk_ecfg (fec_of_id_fq (fec_id o)) (esl o) (max_sbl o) (parity o) window closable (FdtInst.m_tlen m) debug.

(* the receiver's view of a RaptorQ / Raptor OTI: E, B, parity and the scheme-specific triple (Z, N, Al) *)
Definition fq_roti (o : FdtInst.oti) : roti :=
  mk_roti (rfec_of_fq (fec_of_id_fq (fec_id o))) (esl o) (max_sbl o) (parity o)
          (match sch o with SchRaptorQ z n al | SchRaptor z n al => Some (z, n, al) | _ => None end).

(* what the receiver model's instance is for the published document: the entry's OTI is that of the FileDesc *)
Definition obj_roti_fq (cfg : fdt_cfg) (m : fmeta) : roti := fq_roti (used_oti cfg m).
Definition sess_ff_fq (cfg : fdt_cfg) (m : fmeta) : fdtfile :=
  mk_ff (m_toi m) CNull (Some (obj_roti_fq cfg m)) (FdtInst.m_tlen m)
        (option_map bytes_of_str (FdtInst.m_md5 m)) (Some (FdtInst.m_clen m))
        (match FdtInst.m_cache m with Some CCNoCache => true | _ => false end).
Definition sess_inst_fq (cfg : fdt_cfg) (now : Z) (m : fmeta) : fdtinst :=
  mk_fi [sess_ff_fq cfg m] (Some (nocode_roti (c_oti cfg))) (Some (expiry_ns cfg now)).

Lemma roti_of_fq o : fq_id (fec_id o) -> roti_of o = Some (fq_roti o).
Proof. intros H0. unfold roti_of, fq_roti. destruct H0 as [H0|H0]; rewrite H0; reflexivity. Qed.

(* the FileDesc's OTI of an accepted RaptorQ / Raptor object: the object's OTI with Z = number of source blocks *)
Lemma used_oti_fq cfg m :
  let o := the_oti (c_oti cfg) m in
  fq_id (fec_id o) -> oti_wf o -> 0 < FdtInst.m_tlen m -> filedesc_accepts (obj_ecfg_fq cfg m 1 false false) = true ->
  fec_id (used_oti cfg m) = fec_id o /\ esl (used_oti cfg m) = esl o /\ max_sbl (used_oti cfg m) = max_sbl o
  /\ parity (used_oti cfg m) = parity o /\ oti_wf (used_oti cfg m).
Proof.
  intros o Ho Hwo Hl Hacc. unfold used_oti, filedesc_oti. fold (the_oti (c_oti cfg) m). fold o.
  assert (Hn : nb_blocks o (FdtInst.m_tlen m) <= (if fec_id o =? 1 then 65535 else 255)).
  { unfold nb_blocks. unfold filedesc_accepts, obj_ecfg_fq in Hacc. fold o in Hacc.
    cbn [c_tlen c_fec c_e c_b c_parity] in Hacc.
    apply andb_true_iff in Hacc. destruct Hacc as [Hacc H3]. apply andb_true_iff in Hacc. destruct Hacc as [_ H2].
    destruct (N.ltb_spec 0 (FdtInst.m_tlen m)) as [_|G]; [|lia].
    destruct (block_partitioning (max_sbl o) (FdtInst.m_tlen m) (esl o)) as [[[al as_] nal] n].
    apply andb_true_iff in H2. destruct H2 as [H2 _]. apply andb_true_iff in H2. destruct H2 as [H2 _].
    apply negb_true_iff, N.eqb_neq in H2.
    unfold fec_of_id_fq in H3. destruct (fec_id o =? 1); apply N.leb_le in H3; lia. }
  destruct Hwo as (Hv & Hi & Hb & He & Hp & Hs).
  destruct Ho as [H6|H1].
  - rewrite H6 in *. change (6 =? 6) with true. change (6 =? 1) with false in Hn. cbv iota in *.
    destruct (sch o) as [|a b|z n al|z n al] eqn:Es.
    + destruct Hs as [Hs _]. congruence.
    + destruct Hs as [Hs _]. discriminate Hs.
    + destruct (N.ltb_spec (nb_blocks o (FdtInst.m_tlen m)) 256) as [_|G]; [|lia].
      destruct Hs as (_ & _ & Hn' & Hal).
      cbn [fec_id esl max_sbl parity sch]. repeat split; try assumption; try (rewrite H6; reflexivity); lia.
    + destruct Hs as [Hs _]. discriminate Hs.
  - rewrite H1 in *. change (1 =? 6) with false. change (1 =? 1) with true in *. cbv iota in *.
    destruct (sch o) as [|a b|z n al|z n al] eqn:Es.
    + destruct Hs as [_ Hs]. congruence.
    + destruct Hs as [Hs _]. discriminate Hs.
    + destruct Hs as [Hs _]. discriminate Hs.
    + destruct (N.ltb_spec (nb_blocks o (FdtInst.m_tlen m)) 65536) as [_|G]; [|lia].
      destruct Hs as (_ & _ & Hn' & Hal).
      cbn [fec_id esl max_sbl parity sch]. repeat split; try assumption; try (rewrite H1; reflexivity); lia.
Qed.

Section DocFQ.
  Variable cfg : fdt_cfg.
  Variable complete : bool.
  Variable now : Z.
  Variable m : fmeta.
  (* a No-Code session, an accepted non-empty RaptorQ / Raptor object without content encoding; OTIs as oti.rs builds them *)
  Hypothesis Hs0 : fec_id (c_oti cfg) = 0.
  Hypothesis Hws : oti_wf (c_oti cfg).
  Hypothesis Ho : fq_id (fec_id (the_oti (c_oti cfg) m)).
  Hypothesis Hwo : oti_wf (the_oti (c_oti cfg) m).
  Hypothesis Hacc : filedesc_accepts (obj_ecfg_fq cfg m 1 false false) = true.
  Hypothesis Hl : 0 < FdtInst.m_tlen m.
  Hypothesis Hce : m_cenc m = 0.
  Hypothesis Hcl : FdtInst.m_clen m < FdtRecv.U64.
  Hypothesis Htl : FdtInst.m_tlen m < FdtRecv.U64.
  Hypothesis Ht : time_in_era now.
  Hypothesis Hexp : spec_expires now (c_dur cfg) < 4294967296.

  Lemma inst_of_model_fq : inst_of_xfdt (get_fdt_instance cfg complete now [m]) = Some (sess_inst_fq cfg now m).
  Proof.
    destruct (used_oti_fq cfg m Ho Hwo Hl Hacc) as (U1 & U2 & U3 & U4 & Uwf).
    assert (Hu : fq_id (fec_id (used_oti cfg m))) by (rewrite U1; exact Ho).
    unfold inst_of_xfdt, get_fdt_instance, instance_gen.
    cbn [xi_expires xi_complete xi_full xi_oti xi_files xi_groups map all_some].
    rewrite Hs0. change (0 =? 6) with false. change (0 =? 1) with false. cbn [orb].
    rewrite (oti_field_attributes _ Hws), (roti_of_nocode _ Hws Hs0).
    rewrite (expiration_model now (c_dur cfg) Ht Hexp).
    unfold file_entry, to_file_xml.
    cbn [xf_loc xf_toi xf_clen xf_tlen xf_ctype xf_cenc xf_md5 xf_oti xf_etag xf_cache xf_groups].
    assert (H61 : (fec_id (used_oti cfg m) =? 6) || (fec_id (used_oti cfg m) =? 1) = true)
      by (destruct Hu as [H|H]; rewrite H; reflexivity).
    rewrite H61.
    rewrite !num_attr_dec by assumption. rewrite toi_of_dec, Hce.
    rewrite (oti_field_attributes _ Uwf), (roti_of_fq _ Hu).
    assert (Hc : exists rc, cache_of (match FdtInst.m_cache m with Some c => Some (cache_xml c now) | None => None end)
                                     (Some ((spec_expires now (c_dur cfg) - 2208988800) * 1000000)) = Some rc
                            /\ match rc with RNoCache => true | _ => false end
                               = match FdtInst.m_cache m with Some CCNoCache => true | _ => false end).
    { assert (Hx : forall v, exists rc,
                 cache_of (Some (XExpires (dec (v mod 4294967296)))) (Some ((spec_expires now (c_dur cfg) - 2208988800) * 1000000))
                 = Some rc /\ match rc with RNoCache => true | _ => false end = false).
      { intros v. cbn [cache_of]. rewrite parse_dec_dec.
        assert (v mod 4294967296 <? 4294967296 = true) as -> by (apply N.ltb_lt; apply N.mod_lt; lia).
        destruct (v mod 4294967296 <? 2208988800); eexists; split; reflexivity. }
      destruct (FdtInst.m_cache m) as [[| |dd|tt]|]; cbn [cache_xml].
      - eexists. split; reflexivity.
      - eexists. split; reflexivity.
      - apply Hx.
      - apply Hx.
      - eexists. split; reflexivity. }
    destruct Hc as (rc & Erc & Hrc). rewrite Erc, Hrc. reflexivity.
  Qed.

  Lemma oracle_on_model_doc_fq : fdt_oracle (fdt_doc cfg complete now m) = Some (sess_inst_fq cfg now m).
  Proof. unfold fdt_doc, fdt_xml. rewrite oracle_printed. exact inst_of_model_fq. Qed.
End DocFQ.

(* ---------- the composition ---------- *)
(* the wire packets of one uninterrupted transfer of the object (source and repair symbols), with EXT_FTI on every
   packet or on none *)
Definition obj_wire_fq rep raptor_src (cfg : fdt_cfg) (m : fmeta) (window : nat) (closable debug : bool) (content : list N)
  (fti : bool) : list apkt :=
  let w := wire_pkts_fq rep raptor_src (obj_ecfg_fq cfg m window closable debug) content (m_toi m) in
  if fti then map (add_fti (obj_roti_fq cfg m) (lenN_ content)) w else w.
(* the receiver-side view of the sender's encoder for this object *)
Definition obj_enc_fq rep raptor_src (cfg : fdt_cfg) (m : fmeta) (content : list N) : N -> N -> list N :=
  rx_enc rep raptor_src (obj_ecfg_fq cfg m 1 false false) content.

(* the sender side: a No-Code session OTI, one accepted non-empty RaptorQ / Raptor object (FEC 6 or 1) without content
   encoding, published at [now]; the encoder oracles behave (repair symbols: at most parity, RaptorQ: of E bytes; Raptor:
   every block cut into its k source symbols) *)
Definition sender_ok_fq rep raptor_src (cfg : fdt_cfg) (now : Z) (m : fmeta) (content : list N) : Prop :=
  fec_id (c_oti cfg) = 0 /\ oti_wf (c_oti cfg) /\ 0 < max_sbl (c_oti cfg)
  /\ fq_id (fec_id (the_oti (c_oti cfg) m)) /\ oti_wf (the_oti (c_oti cfg) m) /\ m_cenc m = 0
  /\ filedesc_accepts (obj_ecfg_fq cfg m 1 false false) = true
  /\ FdtInst.m_tlen m = lenN content /\ 0 < FdtInst.m_tlen m /\ m_toi m <> 0 /\ FdtInst.m_clen m < FdtRecv.U64
  /\ time_in_era now /\ spec_expires now (c_dur cfg) < 4294967296 /\ meta_ok cfg now m
  /\ rep_len_ok rep /\ rq_rep_sized rep (obj_ecfg_fq cfg m 1 false false) content
  /\ raptor_src_ok raptor_src (obj_ecfg_fq cfg m 1 false false) content
  /\ rp_syms_sized rep raptor_src (obj_ecfg_fq cfg m 1 false false) content.

(* the receiver side: the environment of fq_recoverable_delivers; the decoder of every block can be created with the OTI
   of the File element (fq_blocks_ok: Al, N in the raptorq crate's range, k within the decoder's limit); THE DECODER
   ORACLE is sound and complete for the symbols the sender's encoder produced; the instance is not expired on arrival *)
Definition receiver_ok_fq rep raptor_src (E : env) (rcfg : rconfig) (nowr : Z) (sct : option Z) (cfg : fdt_cfg) (now : Z)
  (m : fmeta) (content : list N) : Prop :=
  writer_accepts E (m_toi m) /\ writes_succeed E (m_toi m) /\ md5_good E content (obj_md5 m)
  /\ fq_blocks_ok (obj_roti_fq cfg m) (lenN_ content)
  /\ fq_oracle_sound E (obj_roti_fq cfg m) content (obj_enc_fq rep raptor_src cfg m content) (m_toi m)
  /\ fq_oracle_complete E (obj_roti_fq cfg m) content (obj_enc_fq rep raptor_src cfg m content) (m_toi m)
  /\ lenN_ content <= cf_max_cache rcfg
  /\ nb_blocks_of (obj_roti_fq cfg m) (lenN_ content) <= 4097
  /\ (cf_exp_check rcfg = false \/ (match sct with Some t => t | None => nowr end <= expiry_ns cfg now)%Z).

(* the conclusion: C01Session.session_meta_delivered with the instance [sess_inst_fq] *)
Definition session_meta_delivered_fq (cfg : fdt_cfg) (complete : bool) (now : Z) (m : fmeta) (content : list N)
  (rcfg : rconfig) (r : recv) (cx : ObjRecv.ctx) : Prop :=
  session_delivered rcfg (sess_inst_fq cfg now m) content (m_toi m) r cx
  /\ Xml.parse_fdt (str_of_bytes (fdt_doc cfg complete now m)) = Some (get_fdt_instance cfg complete now [m])
  /\ fdt_oracle (fdt_doc cfg complete now m) = Some (sess_inst_fq cfg now m)
  /\ exists rm,
       recv_meta b64_decode (get_fdt_instance cfg complete now [m]) (to_file_xml (used_oti cfg m) m now) = MOk rm
       /\ P_C10_meta cfg false now m rm = true
       /\ ometa_of_rmeta rm = ometa_given cfg now m
       /\ P_C01_object (ometa_given cfg now m) content 1
                       [(ometa_of_rmeta rm, calls_of (m_toi m, 0%nat) (c_log cx))] = true.

Lemma add_fti_fq_genuine oti content e o L p : fq_genuine_pkt oti content e (add_fti o L p) = fq_genuine_pkt oti content e p.
Proof. unfold fq_genuine_pkt. destruct (partition_of oti (lenN_ content)) as [[[al as_] nal] n]. reflexivity. Qed.
Lemma to_apkt_fq_toi f toi p : a_toi (to_apkt_fq f toi p) = toi.
Proof. destruct f; reflexivity. Qed.
Lemma fq_recoverable_pids oti L l l' : map (rs_pid oti) l = map (rs_pid oti) l' -> fq_recoverable oti L l = fq_recoverable oti L l'.
Proof. unfold fq_recoverable. intros ->. reflexivity. Qed.

Section ComposeSessFQ.
  Variable rep : fec -> N -> list N -> N -> N -> list (list N).
  Variable raptor_src : list N -> N -> option (list (list N)).
  Variable cfg : fdt_cfg.
  Variable complete : bool.
  Variable now : Z.
  Variable m : fmeta.
  Variable content : list N.
  Variable E : env.
  Variable rcfg : rconfig.
  Variable nowr : Z.
  Variable id : N.
  Variable sct : option Z.
  Hypothesis HS : sender_ok_fq rep raptor_src cfg now m content.
  Hypothesis HD : doc_fits cfg complete now m.
  Hypothesis HR : receiver_ok_fq rep raptor_src E rcfg nowr sct cfg now m content.

  Notation toi := (m_toi m).
  Notation oti := (obj_roti_fq cfg m).
  Notation L := (lenN_ content).
  Notation pf := (sess_fdt_pkt cfg complete now m id sct).
  Notation enc := (obj_enc_fq rep raptor_src cfg m content).

  Lemma is_fq_id i : fq_id i -> is_fq (fec_of_id_fq i) = true.
  Proof. intros [-> | ->]; reflexivity. Qed.

  (* ---- the object's packets ---- *)
  Lemma obj_wire_facts_fq window closable debug fti : (1 <= window)%nat ->
    let w := obj_wire_fq rep raptor_src cfg m window closable debug content fti in
    fq_scheme_ok oti L
    /\ Forall (fun p => a_toi p = toi) w
    /\ Forall (fun p => fq_genuine_pkt oti content enc p = true) w
    /\ Forall (fun p => fq_sized_pkt oti p = true) w
    /\ (forall pre, fq_recoverable oti L (pre ++ w) = true)
    /\ exists body lst, w = body ++ [lst] /\ Forall (fun q => a_close_obj q = false) body /\ a_close_obj lst = closable.
  Proof.
    intros Hw. destruct HS as (_ & _ & _ & Ho & Hwo & _ & Hacc & Hlen & Hl & _ & _ & _ & _ & _ & Hrl & Hrz & Hrs & Hrp).
    destruct (used_oti_fq cfg m Ho Hwo Hl Hacc) as (U1 & U2 & U3 & U4 & _).
    set (c := obj_ecfg_fq cfg m window closable debug).
    assert (Hfq : is_fq (c_fec c) = true) by (apply is_fq_id; exact Ho).
    assert (Hacc' : filedesc_accepts c = true) by exact Hacc.
    assert (Hlen' : c_tlen c = lenN content) by exact Hlen.
    assert (Hl' : 0 < c_tlen c) by exact Hl.
    assert (Hw' : (1 <= c_window c)%nat) by exact Hw.
    assert (Hrz' : rq_rep_sized rep c content) by exact Hrz.
    assert (Hrs' : raptor_src_ok raptor_src c content) by exact Hrs.
    assert (Hrp' : rp_syms_sized rep raptor_src c content) by exact Hrp.
    assert (He16 : c_e c < 65536) by (destruct Hwo as (_ & _ & _ & He & _); exact He).
    assert (Hoti : oti_matches_fq c oti).
    { unfold oti_matches_fq, obj_roti_fq, fq_roti. cbn [ro_fec ro_e ro_b]. rewrite U1, U2, U3. repeat split. }
    pose proof (scheme_ok_fq c content oti Hfq Hacc' Hlen' Hl' He16 Hoti) as Hsok.
    destruct (wire_facts_fq rep raptor_src c content oti toi Hfq Hacc' Hlen' Hl' Hw' Hrl Hrz' Hrs' Hrp' Hoti)
      as (G & Z & _ & Rec & body & lst & Ew & Fb & Cl).
    change (rx_enc rep raptor_src c content) with enc in G.
    assert (T : Forall (fun p => a_toi p = toi) (wire_pkts_fq rep raptor_src c content toi)).
    { unfold wire_pkts_fq. apply Forall_forall. intros p Hp. apply in_map_iff in Hp. destruct Hp as (q & <- & _).
      apply to_apkt_fq_toi. }
    cbv zeta. split; [exact Hsok|]. unfold obj_wire_fq. fold c. destruct fti.
    - split; [|split; [|split; [|split]]].
      + apply Forall_forall. intros p Hp. apply in_map_iff in Hp. destruct Hp as (q & <- & Hq).
        rewrite Forall_forall in T. exact (T q Hq).
      + apply Forall_forall. intros p Hp. apply in_map_iff in Hp. destruct Hp as (q & <- & Hq).
        rewrite add_fti_fq_genuine. rewrite Forall_forall in G. exact (G q Hq).
      + apply Forall_forall. intros p Hp. apply in_map_iff in Hp. destruct Hp as (q & <- & Hq).
        rewrite Forall_forall in Z. exact (Z q Hq).
      + intros pre. rewrite (fq_recoverable_pids oti L _ (pre ++ wire_pkts_fq rep raptor_src c content toi)).
        * apply Rec. apply incl_appr, incl_refl.
        * rewrite !map_app, map_map. f_equal.
      + exists (map (add_fti oti L) body), (add_fti oti L lst). split; [rewrite Ew, map_app; reflexivity|]. split; [|exact Cl].
        apply Forall_forall. intros p Hp. apply in_map_iff in Hp. destruct Hp as (q & <- & Hq).
        rewrite Forall_forall in Fb. exact (Fb q Hq).
    - split; [exact T|]. split; [exact G|]. split; [exact Z|]. split; [intros pre; apply Rec; apply incl_appr, incl_refl|].
      exists body, lst. repeat split; assumption.
  Qed.

  (* ---- the FDT side ---- *)
  Lemma tlen_u64_fq : FdtInst.m_tlen m < FdtRecv.U64.
  Proof.
    destruct (obj_wire_facts_fq 1 false false false (le_n 1)) as ((_ & _ & _ & _ & Hu) & _).
    destruct HS as (_ & _ & _ & _ & _ & _ & _ & Hlen & _). rewrite Hlen.
    change (lenN content) with (lenN_ content). unfold Partition.U64 in Hu. unfold FdtRecv.U64. lia.
  Qed.

  Lemma sess_oracle_fq : fdt_oracle (fdt_doc cfg complete now m) = Some (sess_inst_fq cfg now m).
  Proof.
    pose proof tlen_u64_fq as Htl.
    destruct HS as (Hs0 & Hws & _ & Ho0 & Hwo & Hce & Hacc & _ & Hl & _ & Hcl & Ht & Hexp & _).
    apply oracle_on_model_doc_fq; assumption.
  Qed.

  Lemma sess_pf_ok_fq : fdt_pkt_ok pf id (nocode_roti (c_oti cfg)) (fdt_doc cfg complete now m).
  Proof.
    destruct HS as (_ & Hws & Hb & _). destruct HD as [D1 D2]. destruct Hws as (_ & _ & _ & He & _).
    apply fdt_pkt_is_ok; try assumption; [reflexivity|apply fdt_doc_nonempty].
  Qed.

  Lemma sess_live_fq : fdt_live rcfg (sess_inst_fq cfg now m) pf nowr.
  Proof.
    destruct HR as (_ & _ & _ & _ & _ & _ & _ & _ & [Hc|Hx]); [left; exact Hc|right].
    exists (expiry_ns cfg now). split; [reflexivity|]. unfold sess_fdt_pkt, fdt_pkt. cbn [a_sct]. apply Z.ltb_ge. exact Hx.
  Qed.

  Lemma sess_entry_fq : fdt_entry_for (fi_files (sess_inst_fq cfg now m)) (fi_oti (sess_inst_fq cfg now m)) toi oti L (obj_md5 m).
  Proof.
    destruct HS as (_ & _ & _ & _ & _ & _ & _ & Hlen & _).
    exists (sess_ff_fq cfg m). cbn [sess_inst_fq fi_files fi_oti find sess_ff_fq ff_toi]. rewrite N.eqb_refl.
    split; [reflexivity|]. split; [reflexivity|]. split; [reflexivity|]. split; [exact Hlen|reflexivity].
  Qed.

  (* ---- the metadata ---- *)
  Lemma sess_meta_fq (cx : ObjRecv.ctx) :
    (forall mm, complete_exact content (mm, calls_of (toi, 0%nat) (c_log cx)) = true) ->
    Xml.parse_fdt (str_of_bytes (fdt_doc cfg complete now m)) = Some (get_fdt_instance cfg complete now [m])
    /\ exists rm,
       recv_meta b64_decode (get_fdt_instance cfg complete now [m]) (to_file_xml (used_oti cfg m) m now) = MOk rm
       /\ P_C10_meta cfg false now m rm = true
       /\ ometa_of_rmeta rm = ometa_given cfg now m
       /\ P_C01_object (ometa_given cfg now m) content 1
                       [(ometa_of_rmeta rm, calls_of (toi, 0%nat) (c_log cx))] = true.
  Proof.
    intros Hex. pose proof tlen_u64_fq as Htl.
    destruct HS as (Hs0 & Hws & _ & Ho0 & Hwo & Hce & _ & _ & _ & _ & Hcl & Ht & Hexp & Hmeta & _).
    split; [unfold fdt_doc, fdt_xml; rewrite str_bytes_roundtrip; apply xml_roundtrip|].
    destruct (receiver_meta_from_fdt b64_decode b64_decode_b64 cfg complete now [m] m Ht Hexp Hmeta Hws Hwo Hcl Htl)
      as (rm & E1 & E2).
    exists rm. split; [exact E1|]. split; [exact E2|]. pose proof (meta_given_eq cfg now m rm E2) as E3.
    split; [exact E3|]. rewrite E3. apply exact_once. apply Hex.
  Qed.

  (* G3 (C01, session level): the FDT packet, then one whole transfer of the RaptorQ / Raptor object *)
  Theorem fq_session_clean_channel window closable debug fti : (1 <= window)%nat ->
    let '(_, r, cx) := recv_run E fdt_oracle rcfg recv0
                         (map (fun p => RvPush p nowr) (pf :: obj_wire_fq rep raptor_src cfg m window closable debug content fti)) ctx0 in
    session_meta_delivered_fq cfg complete now m content rcfg r cx.
  Proof.
    intros Hw. destruct (obj_wire_facts_fq window closable debug fti Hw) as (Hsok & T & G & Z & Rec & body & lst & Ew & Fb & Cl).
    cbv zeta in T, G, Z, Rec, Ew. set (w := obj_wire_fq rep raptor_src cfg m window closable debug content fti) in *.
    pose proof HS as (_ & _ & _ & _ & _ & _ & _ & _ & _ & Htoi & _).
    pose proof HR as (Hwa & Hws & Hmd5 & Hbok & Hsound & Hcomp & Hmax & Hnb & _).
    pose proof (fq_session_fdt_first_delivers E fdt_oracle rcfg oti content enc toi (obj_md5 m) nowr pf id (nocode_roti (c_oti cfg))
                  (fdt_doc cfg complete now m) (sess_inst_fq cfg now m) w Hsok Hbok Htoi sess_pf_ok_fq sess_oracle_fq sess_live_fq
                  sess_entry_fq Hwa Hws Hmd5 Hsound Hcomp Hmax Hnb T G Z) as D.
    assert (Cf : fq_close_flag_ok oti L w).
    { rewrite Ew. apply fq_close_flag_ok_last; [exact Fb|]. rewrite <- Ew. exact (Rec []). }
    specialize (D Cf (Rec [])).
    destruct (recv_run E fdt_oracle rcfg recv0 (map (fun p => RvPush p nowr) (pf :: w)) ctx0) as [[xs r] cx].
    split; [exact D|]. destruct D as (_ & Hex & _). destruct (sess_meta_fq cx Hex) as [P M].
    split; [exact P|]. split; [exact sess_oracle_fq|exact M].
  Qed.
End ComposeSessFQ.

Print Assumptions fq_session_clean_channel.

(* ---------- the concrete sessions: the session of C01Session (No-Code session OTI E = 1400 B = 64, real XML bytes);
   TOI 7 = the 5-byte object with its own RaptorQ OTI (FEC 6, E = 2, B = 2, one repair symbol per block, N = Al = 1), or
   the 16-byte object with its own Raptor OTI (FEC 1, E = 2, B = 4); toy codes of section 5, MD5 check on ---------- *)
Definition exsq_m : fmeta :=
  mk_fmeta 7 (lit "file:///a&b.bin") 5 5 (lit "application/octet-stream") 0 (Some exs_md5)
           (Some (mk_oti 6 0 2 2 1 (SchRaptorQ 0 1 1))) (Some (CCExpires 10000000000)) (Some (lit """e1""")) (Some [lit "g<1>"]).
Definition exsp_m : fmeta :=
  mk_fmeta 7 (lit "file:///a&b.bin") 16 16 (lit "application/octet-stream") 0 (Some exs_md5)
           (Some (mk_oti 1 0 4 2 1 (SchRaptor 0 1 1))) (Some (CCExpires 10000000000)) (Some (lit """e1""")) (Some [lit "g<1>"]).
Definition exsq_env : env :=
  mk_env false true (fun _ _ => WStore) (fun _ => true) (fun _ _ => true)
         sys_dec (fun _ => bytes_of_str exs_md5) (fun _ _ _ => None).
Definition exsq_doc : list N := fdt_doc exs_cfg false exs_now exsq_m.
Definition exsq_run (evs : list apkt) :=
  let '(xs, r, c) := recv_run exsq_env fdt_oracle exs_rcfg recv0 (map (fun p => RvPush p exs_nowr) evs) ctx0 in
  (xs, map fst (rv_objects r), rv_completed r, rv_error r, c_log c).
Definition exsp_log : list wev :=
  [EvBuilder 7 WStore; EvOpen (7, 0%nat) true; EvWrite (7, 0%nat) [1; 2; 3; 4; 5; 6; 7; 8] true;
   EvWrite (7, 0%nat) [9; 10; 11; 12; 13; 14; 15; 16] true; EvComplete (7, 0%nat)].

Example exsq_computed :
  (lenN_ exsq_doc <=? 1400) = true
  /\ fdt_oracle exsq_doc = Some (sess_inst_fq exs_cfg exs_now exsq_m)
  /\ obj_roti_fq exs_cfg exsq_m = mk_roti FRaptorQ 2 2 1 (Some (2, 1, 1))
  /\ obj_roti_fq exs_cfg exsp_m = exp16_oti
  /\ exsq_run (sess_fdt_pkt exs_cfg false exs_now exsq_m 1 exs_sct
               :: obj_wire_fq junk_rep no_rsrc exs_cfg exsq_m 2 true true exr_content false)
     = ([POk; POk; POk; POk; POk; POk], [], [7], [], exs_log)
  /\ exsq_run (sess_fdt_pkt exs_cfg false exs_now exsq_m 1 exs_sct
               :: obj_wire_fq junk_rep no_rsrc exs_cfg exsq_m 2 false true exr_content true)
     = ([POk; POk; POk; POk; POk; POk], [], [7], [], exs_log)
  /\ exsq_run (sess_fdt_pkt exs_cfg false exs_now exsp_m 1 exs_sct
               :: obj_wire_fq junk_rep (chunk_rsrc 2) exs_cfg exsp_m 2 true true ex16 false)
     = (repeat POk 11, [], [7], [], exsp_log).
Proof. vm_compute. repeat split. Qed.

Lemma exs_time_in_era t : (0 <= t)%Z -> (t < 2000000000000000000)%Z -> time_in_era t.
Proof.
  intros H0 H1. split; [exact H0|]. unfold NTP_UNIX_OFFSET, TWO32.
  assert (Z.to_N t / 1000000000 < 2000000000); [|lia].
  apply N.div_lt_upper_bound; [lia|]. lia.
Qed.

Lemma exsq_sender_ok : sender_ok_fq junk_rep no_rsrc exs_cfg exs_now exsq_m exr_content.
Proof.
  assert (W1 : oti_wf exs_session) by (vm_compute; repeat split; discriminate).
  assert (W2 : oti_wf (mk_oti 6 0 2 2 1 (SchRaptorQ 0 1 1))) by (vm_compute; repeat split; discriminate).
  unfold sender_ok_fq. split; [reflexivity|]. split; [exact W1|]. split; [reflexivity|]. split; [left; reflexivity|].
  split; [exact W2|]. split; [reflexivity|]. split; [vm_compute; reflexivity|]. split; [reflexivity|].
  split; [reflexivity|]. split; [discriminate|]. split; [reflexivity|].
  split; [apply exs_time_in_era; vm_compute; [discriminate|reflexivity]|]. split; [vm_compute; reflexivity|].
  split.
  { split; [vm_compute; discriminate|]. split; [vm_compute; discriminate|].
    cbn [exsq_m FdtInst.m_cache]. apply exs_time_in_era; vm_compute; [discriminate|reflexivity]. }
  split; [exact junk_rep_len|]. split.
  { intros _. unfold rq_rep_sized, junk_rep. destruct (block_partitioning _ _ _) as [[[al as_] nal] n]. intros s _.
    repeat constructor. }
  split; intros H; vm_compute in H; discriminate H.
Qed.

Lemma exsp_sender_ok : sender_ok_fq junk_rep (chunk_rsrc 2) exs_cfg exs_now exsp_m ex16.
Proof.
  assert (W1 : oti_wf exs_session) by (vm_compute; repeat split; discriminate).
  assert (W2 : oti_wf (mk_oti 1 0 4 2 1 (SchRaptor 0 1 1))) by (vm_compute; repeat split; discriminate).
  unfold sender_ok_fq. split; [reflexivity|]. split; [exact W1|]. split; [reflexivity|]. split; [right; reflexivity|].
  split; [exact W2|]. split; [reflexivity|]. split; [vm_compute; reflexivity|]. split; [reflexivity|].
  split; [reflexivity|]. split; [discriminate|]. split; [reflexivity|].
  split; [apply exs_time_in_era; vm_compute; [discriminate|reflexivity]|]. split; [vm_compute; reflexivity|].
  split.
  { split; [vm_compute; discriminate|]. split; [vm_compute; discriminate|].
    cbn [exsp_m FdtInst.m_cache]. apply exs_time_in_era; vm_compute; [discriminate|reflexivity]. }
  split; [exact junk_rep_len|]. split; [intros H; vm_compute in H; discriminate H|].
  split; [exact (exp_raptor_src_ok 1 false false)|exact (exp_syms_sized 1 false false)].
Qed.

Lemma exsq_doc_fits : doc_fits exs_cfg false exs_now exsq_m.
Proof. split; vm_compute; discriminate. Qed.
Lemma exsp_doc_fits : doc_fits exs_cfg false exs_now exsp_m.
Proof. split; vm_compute; discriminate. Qed.

Lemma exsq_receiver_ok : receiver_ok_fq junk_rep no_rsrc exsq_env exs_rcfg exs_nowr exs_sct exs_cfg exs_now exsq_m exr_content.
Proof.
  assert (M : oti_matches_fq (obj_ecfg_fq exs_cfg exsq_m 1 false false) (obj_roti_fq exs_cfg exsq_m))
    by (split; [vm_compute; reflexivity|split; vm_compute; reflexivity]).
  destruct (rq_oracle_sys exsq_env junk_rep no_rsrc (obj_ecfg_fq exs_cfg exsq_m 1 false false) exr_content
              (obj_roti_fq exs_cfg exsq_m) 7 (fun _ _ _ _ _ _ _ => eq_refl) eq_refl ltac:(vm_compute; reflexivity) eq_refl eq_refl M)
    as [S C].
  split; [split; reflexivity|]. split; [intros i; reflexivity|]. split; [vm_compute; reflexivity|].
  split; [vm_compute; reflexivity|]. split; [exact S|]. split; [exact C|].
  split; [vm_compute; discriminate|]. split; [vm_compute; discriminate|]. right.
  replace (expiry_ns exs_cfg exs_now) with 1700003600000000000%Z by (vm_compute; reflexivity). vm_compute. discriminate.
Qed.

Lemma exsp_receiver_ok : receiver_ok_fq junk_rep (chunk_rsrc 2) exsq_env exs_rcfg exs_nowr exs_sct exs_cfg exs_now exsp_m ex16.
Proof.
  assert (Eo : obj_roti_fq exs_cfg exsp_m = exp16_oti) by (vm_compute; reflexivity).
  destruct (exp_oracle_sys exsq_env 1 false false (fun _ _ _ _ _ _ _ => eq_refl)) as [S C].
  unfold receiver_ok_fq. rewrite Eo.
  split; [split; reflexivity|]. split; [intros i; reflexivity|]. split; [vm_compute; reflexivity|].
  split; [vm_compute; reflexivity|]. split; [exact S|]. split; [exact C|].
  split; [vm_compute; discriminate|]. split; [vm_compute; discriminate|]. right.
  replace (expiry_ns exs_cfg exs_now) with 1700003600000000000%Z by (vm_compute; reflexivity). vm_compute. discriminate.
Qed.

(* the premises of the session theorem are satisfiable: the sessions above by the theorem *)
Example exsq_by_theorem closable fti :
  let '(_, r, cx) := recv_run exsq_env fdt_oracle exs_rcfg recv0
                       (map (fun p => RvPush p exs_nowr)
                            (sess_fdt_pkt exs_cfg false exs_now exsq_m 1 exs_sct
                             :: obj_wire_fq junk_rep no_rsrc exs_cfg exsq_m 2 closable true exr_content fti)) ctx0 in
  session_meta_delivered_fq exs_cfg false exs_now exsq_m exr_content exs_rcfg r cx.
Proof.
  exact (fq_session_clean_channel junk_rep no_rsrc exs_cfg false exs_now exsq_m exr_content exsq_env exs_rcfg
           exs_nowr 1 exs_sct exsq_sender_ok exsq_doc_fits exsq_receiver_ok 2 closable true fti le_1_2).
Qed.

Example exsp_by_theorem closable fti :
  let '(_, r, cx) := recv_run exsq_env fdt_oracle exs_rcfg recv0
                       (map (fun p => RvPush p exs_nowr)
                            (sess_fdt_pkt exs_cfg false exs_now exsp_m 1 exs_sct
                             :: obj_wire_fq junk_rep (chunk_rsrc 2) exs_cfg exsp_m 2 closable true ex16 fti)) ctx0 in
  session_meta_delivered_fq exs_cfg false exs_now exsp_m ex16 exs_rcfg r cx.
Proof.
  exact (fq_session_clean_channel junk_rep (chunk_rsrc 2) exs_cfg false exs_now exsp_m ex16 exsq_env exs_rcfg
           exs_nowr 1 exs_sct exsp_sender_ok exsp_doc_fits exsp_receiver_ok 2 closable true fti le_1_2).
Qed.

(* ================= 7. finding D30 (the raptor-code crate cuts "semi-equal" symbols) does not matter here ================= *)
(* A toy model of the crate on BOTH sides: the encoder cuts a block of [len] bytes into k pieces of ceil(len/k) and
   floor(len/k) bytes (RFC 5053 5.3.1.2; it refuses k = 2, 3), the decoder - given the symbols zero-padded to
   ceil(len/k) by flute's block decoder - cuts them back to those sizes and concatenates.  A 10-byte object, E = 3,
   B = 4: ONE block of k = 4 symbols [1;2;3] [4;5;6] [7;8] [9;10] - not the E-byte slices: known_D30 holds and
   P_C08_transfer is false (C08 records it).  raptor_src_ok holds, the decoder satisfies the oracle hypotheses for the
   sender model's encoder, and the object is delivered - by computation and by the theorem. *)
Definition semi_sizes (len k : N) : list nat :=
  let is_ := len / k in let jl := len - is_ * k in
  repeat (N.to_nat (is_ + 1)) (N.to_nat jl) ++ repeat (N.to_nat is_) (N.to_nat (k - jl)).
Fixpoint cut (sizes : list nat) (l : list N) : list (list N) :=
  match sizes with [] => [] | n :: r => firstn n l :: cut r (skipn n l) end.
Definition semi_rsrc : list N -> N -> option (list (list N)) :=
  fun buf k => if (k =? 0) || (k =? 2) || (k =? 3) then None else Some (cut (semi_sizes (lenN buf) k) buf).
Fixpoint semi_cat (sh : list (N * list N)) (i : N) (sizes : list nat) : option (list N) :=
  match sizes with
  | [] => Some []
  | n :: r => match get_esi i sh, semi_cat sh (i + 1) r with
              | Some x, Some t => Some (firstn n x ++ t)
              | _, _ => None
              end
  end.
Definition semi_dec (toi : N) (f : rfec) (sbn k e size : N) (sh : list (N * list N)) : option (list N) :=
  semi_cat sh 0 (semi_sizes size k).
Definition env_semi : env :=
  mk_env false false (fun _ _ => WStore) (fun _ => true) (fun _ _ => true) semi_dec (fun _ => []) (fun _ _ _ => None).

Definition ex10 : list N := [1; 2; 3; 4; 5; 6; 7; 8; 9; 10].
Definition exd_cfg (closable : bool) : ecfg := mk_ecfg Raptor 3 4 1 1 closable 10 true.
Definition exd30_oti : roti := mk_roti FRaptor 3 4 1 (Some (1, 1, 1)).
Definition exd30_files : list fdtfile := [mk_ff 7 CNull (Some exd30_oti) 10 None None false].

Example exd30_computed :
  known_D30 (exd_cfg true) = true /\ filedesc_accepts (exd_cfg true) = true
  /\ map (fun p => (p_sbn p, p_esi p, p_payload p, p_close p, p_k p, p_src p))
         (transfer_pkts junk_rep semi_rsrc (exd_cfg true) ex10)
     = [(0, 0, [1; 2; 3], false, 4, true); (0, 1, [4; 5; 6], false, 4, true); (0, 2, [7; 8], false, 4, true);
        (0, 3, [9; 10], false, 4, true); (0, 4, [7; 7], true, 4, false)]
  /\ P_C08_transfer (exd_cfg true) ex10 None (transfer_pkts junk_rep semi_rsrc (exd_cfg true) ex10) = false
  /\ map (fun i => fq_stored exd30_oti 10 0 (rx_enc junk_rep semi_rsrc (exd_cfg true) ex10 0 i)) [0; 1; 2; 3]
     = [[1; 2; 3]; [4; 5; 6]; [7; 8; 0]; [9; 10; 0]]
  /\ summary 7 (receive env_semi 1 exd30_files None 7 1000 (wire_pkts_fq junk_rep semi_rsrc (exd_cfg true) ex10 7))
     = (Completed, [CallOpen true; CallWrite [1; 2; 3; 4; 5; 6; 7; 8; 9; 10] true; CallComplete]).
Proof. vm_compute. repeat split. Qed.

Lemma has_get_esi j sh : has_esi j sh = true -> exists x, get_esi j sh = Some x.
Proof.
  unfold has_esi, get_esi. intros H. destruct (find (fun p => fst p =? j) sh) as [p|] eqn:F; [eexists; reflexivity|].
  exfalso. apply existsb_exists in H. destruct H as (p & P1 & P2). pose proof (find_none _ _ F p P1). congruence.
Qed.

Lemma exd30_oracle closable :
  fq_oracle_sound env_semi exd30_oti ex10 (rx_enc junk_rep semi_rsrc (exd_cfg closable) ex10) 7
  /\ fq_oracle_complete env_semi exd30_oti ex10 (rx_enc junk_rep semi_rsrc (exd_cfg closable) ex10) 7.
Proof.
  assert (Sz : semi_sizes (obj_block_len exd30_oti (lenN_ ex10) 0) (rs_k exd30_oti (lenN_ ex10) 0) = [3; 3; 2; 2]%nat)
    by (vm_compute; reflexivity).
  split.
  - intros s sh d Hs [ND F] O.
    replace (nb_blocks_of exd30_oti (lenN_ ex10)) with 1 in Hs by (vm_compute; reflexivity).
    assert (s = 0) by lia. subst s.
    change (semi_cat sh 0 (semi_sizes (obj_block_len exd30_oti (lenN_ ex10) 0) (rs_k exd30_oti (lenN_ ex10) 0)) = Some d) in O.
    rewrite Sz in O. cbn [semi_cat] in O.
    assert (V : forall i x, get_esi i sh = Some x ->
                  x = fq_stored exd30_oti (lenN_ ex10) 0 (rx_enc junk_rep semi_rsrc (exd_cfg closable) ex10 0 i)).
    { intros i x G. apply get_esi_in in G. rewrite Forall_forall in F. destruct (F _ G) as [A _]. exact A. }
    destruct (get_esi 0 sh) as [x0|] eqn:G0; [|discriminate].
    destruct (get_esi (0 + 1) sh) as [x1|] eqn:G1; [|discriminate].
    destruct (get_esi (0 + 1 + 1) sh) as [x2|] eqn:G2; [|discriminate].
    destruct (get_esi (0 + 1 + 1 + 1) sh) as [x3|] eqn:G3; [|discriminate].
    apply V in G0, G1, G2, G3. subst x0 x1 x2 x3. inversion O as [Hd]. clear O.
    exists []. split; [destruct closable; vm_compute; reflexivity|reflexivity].
  - intros s sh Hs _ A.
    replace (nb_blocks_of exd30_oti (lenN_ ex10)) with 1 in Hs by (vm_compute; reflexivity).
    assert (s = 0) by lia. subst s.
    replace (rs_k exd30_oti (lenN_ ex10) 0) with 4 in A by (vm_compute; reflexivity).
    change (semi_cat sh 0 (semi_sizes (obj_block_len exd30_oti (lenN_ ex10) 0) (rs_k exd30_oti (lenN_ ex10) 0)) <> None).
    rewrite Sz. cbn [semi_cat].
    destruct (has_get_esi 0 sh (A 0 ltac:(lia))) as (x0 & ->).
    destruct (has_get_esi (0 + 1) sh (A (0 + 1) ltac:(lia))) as (x1 & ->).
    destruct (has_get_esi (0 + 1 + 1) sh (A (0 + 1 + 1) ltac:(lia))) as (x2 & ->).
    destruct (has_get_esi (0 + 1 + 1 + 1) sh (A (0 + 1 + 1 + 1) ltac:(lia))) as (x3 & ->).
    discriminate.
Qed.

Example exd30_by_theorem closable :
  delivered env_semi 1 exd30_files None 7 1000 ex10 (wire_pkts_fq junk_rep semi_rsrc (exd_cfg closable) ex10 7).
Proof.
  destruct (exd30_oracle closable) as [S C].
  apply (fq_clean_channel_delivered junk_rep semi_rsrc (exd_cfg closable) ex10 exd30_oti env_semi 7 1000 1 exd30_files None None).
  - reflexivity.
  - destruct closable; vm_compute; reflexivity.
  - reflexivity.
  - reflexivity.
  - cbn [exd_cfg c_window]. lia.
  - exact junk_rep_len.
  - intros H. discriminate H.
  - intros _. replace (block_partitioning (c_b (exd_cfg closable)) (c_tlen (exd_cfg closable)) (c_e (exd_cfg closable)))
      with (4, 4, 0, 1) by (vm_compute; reflexivity).
    intros s Hs. assert (s = 0) by lia. subst s. eexists. split; [vm_compute; reflexivity|]. vm_compute. split; reflexivity.
  - intros _. replace (block_partitioning (c_b (exd_cfg closable)) (c_tlen (exd_cfg closable)) (c_e (exd_cfg closable)))
      with (4, 4, 0, 1) by (vm_compute; reflexivity).
    intros s Hs. assert (s = 0) by lia. subst s.
    apply Forall_forall. intros d Hd. apply N.leb_le. revert d Hd. apply forallb_forall. destruct closable; vm_compute; reflexivity.
  - reflexivity.
  - repeat split.
  - vm_compute. reflexivity.
  - exists (mk_ff 7 CNull (Some exd30_oti) 10 None None false). repeat split.
  - split; reflexivity.
  - intros i. reflexivity.
  - exact I.
  - exact S.
  - exact C.
  - vm_compute. discriminate.
  - vm_compute. discriminate.
Qed.

(* the vocabulary of the session theorem, unfolded once *)
Lemma fq_session_statements rep raptor_src cfg complete now m content E rcfg nowr sct r cx :
  let o := the_oti (c_oti cfg) m in
  let c := mk_ecfg (if fec_id o =? 1 then Raptor else RaptorQ) (esl o) (max_sbl o) (parity o) 1 false (FdtInst.m_tlen m) false in
  (sender_ok_fq rep raptor_src cfg now m content <->
   fec_id (c_oti cfg) = 0 /\ oti_wf (c_oti cfg) /\ 0 < max_sbl (c_oti cfg)
   /\ (fec_id o = 6 \/ fec_id o = 1) /\ oti_wf o /\ m_cenc m = 0
   /\ filedesc_accepts c = true
   /\ FdtInst.m_tlen m = lenN content /\ 0 < FdtInst.m_tlen m /\ m_toi m <> 0 /\ FdtInst.m_clen m < 18446744073709551616
   /\ time_in_era now /\ spec_expires now (c_dur cfg) < 4294967296 /\ meta_ok cfg now m
   /\ rep_len_ok rep /\ rq_rep_sized rep c content /\ raptor_src_ok raptor_src c content
   /\ rp_syms_sized rep raptor_src c content)
  /\ (obj_roti_fq cfg m
      = mk_roti (match (if fec_id (used_oti cfg m) =? 1 then Raptor else RaptorQ) with Raptor => FRaptor | _ => FRaptorQ end)
                (esl (used_oti cfg m)) (max_sbl (used_oti cfg m)) (parity (used_oti cfg m))
                (match sch (used_oti cfg m) with SchRaptorQ z n al | SchRaptor z n al => Some (z, n, al) | _ => None end))
  /\ (receiver_ok_fq rep raptor_src E rcfg nowr sct cfg now m content <->
      writer_accepts E (m_toi m) /\ writes_succeed E (m_toi m)
      /\ md5_good E content (option_map bytes_of_str (FdtInst.m_md5 m))
      /\ fq_blocks_ok (obj_roti_fq cfg m) (lenN_ content)
      /\ fq_oracle_sound E (obj_roti_fq cfg m) content (rx_enc rep raptor_src c content) (m_toi m)
      /\ fq_oracle_complete E (obj_roti_fq cfg m) content (rx_enc rep raptor_src c content) (m_toi m)
      /\ lenN_ content <= cf_max_cache rcfg
      /\ nb_blocks_of (obj_roti_fq cfg m) (lenN_ content) <= 4097
      /\ (cf_exp_check rcfg = false
          \/ (match sct with Some t => t | None => nowr end
              <= Z.of_N ((spec_expires now (c_dur cfg) - 2208988800) * 1000000) * 1000)%Z))
  /\ (session_meta_delivered_fq cfg complete now m content rcfg r cx <->
      session_delivered rcfg (sess_inst_fq cfg now m) content (m_toi m) r cx
      /\ Xml.parse_fdt (str_of_bytes (fdt_doc cfg complete now m)) = Some (get_fdt_instance cfg complete now [m])
      /\ fdt_oracle (fdt_doc cfg complete now m) = Some (sess_inst_fq cfg now m)
      /\ exists rm,
           recv_meta b64_decode (get_fdt_instance cfg complete now [m]) (to_file_xml (used_oti cfg m) m now) = MOk rm
           /\ P_C10_meta cfg false now m rm = true
           /\ ometa_of_rmeta rm = ometa_given cfg now m
           /\ P_C01_object (ometa_given cfg now m) content 1
                           [(ometa_of_rmeta rm, calls_of (m_toi m, 0%nat) (c_log cx))] = true)
  /\ (sess_inst_fq cfg now m
      = mk_fi [mk_ff (m_toi m) CNull (Some (obj_roti_fq cfg m)) (FdtInst.m_tlen m)
                     (option_map bytes_of_str (FdtInst.m_md5 m)) (Some (FdtInst.m_clen m))
                     (match FdtInst.m_cache m with Some CCNoCache => true | _ => false end)]
              (Some (nocode_roti (c_oti cfg))) (Some (expiry_ns cfg now))).
Proof. cbv zeta. split; [reflexivity|]. split; [reflexivity|]. split; [reflexivity|]. split; reflexivity. Qed.
