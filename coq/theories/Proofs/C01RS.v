(* C01 / C16 for Reed-Solomon GF(2^8) (FEC 5 = RS28, FEC 129 = RS28US): composition of the sender model
   (Model/BlockEnc.v: Block::new_from_buffer with the repair oracle [rep], BlockEncoder::read) with the
   object-receiver model (Model/ObjRecv.v, decoder oracle e_fec; Proofs/C02RS.v rs_recoverable_delivers) over the
   identity channel, at object level (sections 1-5) and at session level (section 6, Proofs/C02SessionRS.v
   rs_session_fdt_first_delivers / rs_session_fdt_late_delivers with the FDT printed by the sender model).
   The wire bridge [to_apkt_rs] is that of /repo/src/common/alccodec/alcrs28.rs (24-bit SBN, 8-bit ESI) and
   alcrs28underspecified.rs (32-bit SBN, 16-bit source block length, 16-bit ESI). *)
From FluteV Require Import Model.Partition Model.BlockEnc Spec.C07Spec Spec.C08Spec
  Proofs.PartitionProofs Proofs.BlockEncProofs Proofs.C08Full
  Model.ObjRecv Spec.RecvSpec Spec.SessionSpec Proofs.SessionProofs Proofs.C02Full Proofs.C02RS Proofs.C01Full.
From Coq Require Import Lia Arith PeanoNat.
Open Scope N_scope.

Arguments N.add : simpl never. Arguments N.mul : simpl never. Arguments N.sub : simpl never.
Arguments N.div : simpl never. Arguments N.modulo : simpl never. Arguments N.min : simpl never.
Arguments N.ltb : simpl never. Arguments N.leb : simpl never. Arguments N.eqb : simpl never.
Arguments N.of_nat : simpl never. Arguments N.to_nat : simpl never.

(* ================= 1. sender side, Reed-Solomon: what exactly is in each packet ================= *)
Definition is_rs (f : fec) : bool := match f with RS28 | RS28US => true | _ => false end.

(* the bytes of source block s (the buffer Block::new_from_buffer is given) and the parity shards the sender's
   encoder [rep] produced for it *)
Definition blk_buf (c : ecfg) (content : list N) (s : N) : list N :=
  let '(al, as_, nal, _) := block_partitioning (c_b c) (c_tlen c) (c_e c) in
  sublist (sym_off al as_ nal s * c_e c)
          (sym_off al as_ nal s * c_e c + block_len_closed al as_ nal (c_tlen c) (c_e c) s) content.
Definition blk_parity (rep : fec -> N -> list N -> N -> N -> list (list N)) (c : ecfg) (content : list N) (s : N)
  : list (list N) :=
  let '(al, as_, nal, _) := block_partitioning (c_b c) (c_tlen c) (c_e c) in
  rep (c_fec c) s (blk_buf c content s) (nominal_syms al as_ nal s) (c_parity c).
(* THE RECEIVER-SIDE VIEW OF THE SENDER'S ENCODER: the repair symbol (sbn, esi) is the (esi - k)-th parity shard
   [rep] produced for block sbn *)
Definition rx_rep (rep : fec -> N -> list N -> N -> N -> list (list N)) (c : ecfg) (content : list N) (s i : N) : list N :=
  let '(al, as_, nal, _) := block_partitioning (c_b c) (c_tlen c) (c_e c) in
  nth (N.to_nat (i - nominal_syms al as_ nal s)) (blk_parity rep c content s) [].

(* D47: the receiver discards a symbol longer than E.  Every parity shard the encoder oracle produces for a block of
   this object has at most E bytes (reed_solomon_erasure: exactly E, the size of the padded source shards); needed for
   DELIVERY only *)
Definition rs_rep_sym_ok (rep : fec -> N -> list N -> N -> N -> list (list N)) (c : ecfg) (content : list N) : Prop :=
  forall s x, In x (blk_parity rep c content s) -> lenN x <= c_e c.

(* Every packet of the transfer: a block of the partition, the source block length field = k of the block, and
   either a source symbol = the E-byte slice of the content at its RFC 5052 offset ZERO-PADDED to E bytes, or a
   repair symbol with k <= ESI < k + (number of parity shards): the parity shard number ESI - k.  Executable. *)
Definition P_C08_rs_exact (rep : fec -> N -> list N -> N -> N -> list (list N)) (c : ecfg) (content : list N)
  (ps : list pkt) : bool :=
  let '(al, as_, nal, n) := block_partitioning (c_b c) (c_tlen c) (c_e c) in
  forallb (fun p =>
    let k := nominal_syms al as_ nal (p_sbn p) in
    (p_sbn p <? n) && (p_k p =? k)
    && (if p_esi p <? k
        then eqb_listN (p_payload p)
               (pad (N.to_nat (c_e c)) (sym_slice (c_e c) content (sym_off al as_ nal (p_sbn p) + p_esi p)))
        else (p_esi p <? k + lenN (blk_parity rep c content (p_sbn p)))
             && eqb_listN (p_payload p) (rx_rep rep c content (p_sbn p) (p_esi p)))) ps.

Lemma accepts_rs_ok c al as_ nal n : is_rs (c_fec c) = true ->
  filedesc_accepts c = true -> 0 < c_tlen c ->
  block_partitioning (c_b c) (c_tlen c) (c_e c) = (al, as_, nal, n) ->
  forall s, rs_new_ok (nominal_syms al as_ nal s) (c_parity c) = true.
Proof.
  intros Hrs Hacc Hl Ebp s. destruct (accepts_pos c Hacc Hl) as [He Hb].
  pose proof (partition_covers_proof (c_b c) (c_tlen c) (c_e c) Hb He Hl) as P. rewrite Ebp in P. destruct P as [P _].
  destruct (ceil_witness (c_tlen c) (c_e c) He) as (r & HT & Hr).
  pose proof (nom_pos _ _ _ _ _ _ (c_tlen c) (c_e c) r P He HT Hr s) as NP. cbv beta in NP.
  pose proof (accepts_encodable c al as_ nal n Hacc Hl Ebp ltac:(destruct P; assumption) s) as Henc.
  unfold rs_new_ok. destruct (N.ltb_spec 0 (nominal_syms al as_ nal s)) as [_|G]; [|lia].
  destruct (c_fec c); try discriminate Hrs; exact Henc.
Qed.

Lemma enumerate_from_esi_in a l i : a <= i -> i < a + lenN l -> In i (map sh_esi (enumerate_from a l)).
Proof.
  intros H1 H2. rewrite enumerate_from_esis. apply in_map_iff. exists (N.to_nat (i - a)). split; [lia|].
  apply in_seq. unfold lenN in H2. lia.
Qed.

(* the transfer: exact payloads, every source symbol of every block present, close flag on the last packet only
   (iff last transfer), no panic and no fuel exhaustion - whatever the build profile *)
Theorem rs_transfer_exact : forall rep raptor_src c content,
  is_rs (c_fec c) = true -> 0 < c_tlen c ->
  filedesc_accepts c = true -> c_tlen c = lenN content -> (1 <= c_window c)%nat ->
  let blocks := blocks_of_buffer rep raptor_src c content in
  let outs := enc_run (S (S (total_shards blocks))) c [] (est_init blocks) in
  let ps := pkts_of outs in
  P_C08_rs_exact rep c content ps = true
  /\ (let '(al, as_, nal, n) := block_partitioning (c_b c) (c_tlen c) (c_e c) in
      forall s i, s < n -> i < nominal_syms al as_ nal s -> In (s, i) (map (fun p => (p_sbn p, p_esi p)) ps))
  /\ flags_ok (c_closable c) ps
  /\ no_panic outs.
Proof.
  intros rep rsrc c content Hrs Hl Hacc Hlen Hw blocks outs ps. unfold ps, outs. clear ps outs.
  destruct (accepts_pos c Hacc Hl) as [He Hb].
  pose proof (partition_covers_proof (c_b c) (c_tlen c) (c_e c) Hb He Hl) as P.
  unfold P_C08_rs_exact, rx_rep, blk_parity, blk_buf.
  destruct (block_partitioning (c_b c) (c_tlen c) (c_e c)) as [[[al as_] nal] n] eqn:Ebp.
  destruct P as [P _].
  assert (Eb0 : blocks = blocks_buf rep rsrc (S (length content)) c al as_ nal content 0 0).
  { unfold blocks, blocks_of_buffer. rewrite Ebp.
    destruct content; [unfold lenN in Hlen; cbn [length] in Hlen; lia|reflexivity]. }
  pose proof (accepts_rs_ok c al as_ nal n Hrs Hacc Hl Ebp) as Hrsok.
  destruct (ceil_witness (c_tlen c) (c_e c) He) as (r & HT & Hr).
  set (T := div_ceil (c_tlen c) (c_e c)) in *.
  set (e := c_e c) in *. set (l := c_tlen c) in *.
  pose proof P as [C Lb Ls Ll Lt Ln Lp Ev Od].
  set (off := fun s => sym_off al as_ nal s * e).
  set (len := fun s => block_len_closed al as_ nal l e s).
  set (nom := fun s => nominal_syms al as_ nal s).
  set (buf := fun s => sublist (off s) (off s + len s) content).
  set (blockfn := fun s => the_block rep c s (buf s)).
  pose proof (blk_facts _ _ _ _ _ _ _ _ _ P He HT Hr) as BF. fold off len nom in BF.
  pose proof (blk_k_nominal _ _ _ _ _ _ _ _ _ P He HT Hr) as BK. fold len nom in BK.
  pose proof (nom_pos _ _ _ _ _ _ l e r P He HT Hr) as NP. fold nom in NP.
  assert (Hpad : padded (c_fec c) = true) by (destruct (c_fec c); try discriminate Hrs; reflexivity).
  assert (Hbuflen : forall s, s < n -> lenN (buf s) = len s).
  { intros s Hs. destruct (BF s Hs) as (Hstep & _). unfold buf.
    rewrite lenN_sublist; [lia|lia|]. rewrite Hstep. fold l in Hlen. lia. }
  assert (Hmk : forall s, s < n -> mk_block rep rsrc c s (buf s) = Some (blockfn s)).
  { intros s Hs. unfold mk_block, blockfn, the_block, src_pl, rep_pl. fold e.
    destruct (N.eqb_spec e 0) as [Z|_]; [lia|]. cbv zeta. rewrite Hpad.
    rewrite (Hbuflen s Hs), (BK s Hs). specialize (Hrsok s). fold (nom s) in Hrsok.
    destruct (c_fec c); try discriminate Hrs; rewrite Hrsok; reflexivity. }
  set (nn := N.to_nat n).
  assert (Hnl : (nn <= length content)%nat).
  { assert (nal * 1 <= nal * al) by (apply N.mul_le_mono_l; lia).
    assert ((n - nal) * 1 <= (n - nal) * as_) by (apply N.mul_le_mono_l; lia).
    pose proof (div_ceil_le l e He). fold T in H1. unfold lenN in Hlen. lia. }
  assert (Eblocks : blocks = map (fun i => blockfn (N.of_nat i)) (seq 0 nn)).
  { rewrite Eb0.
    pose proof (blocks_buf_spec _ _ _ _ _ _ l e r P He HT Hr rep rsrc c content blockfn eq_refl (eq_sym Hlen) Hmk
                  nn (S (length content)) 0 ltac:(lia) ltac:(lia) ltac:(lia)) as S0.
    cbv beta in S0. rewrite sym_off_0, N.mul_0_l in S0. rewrite S0. apply map_ext. intros i. reflexivity. }
  clear Eb0. clearbody blocks. subst blocks.
  set (BL := map (fun i => blockfn (N.of_nat i)) (seq 0 nn)).
  set (s0 := est_init BL).
  assert (Fsbn : forall s, bk_sbn (blockfn s) = s) by reflexivity.
  assert (Eall : all_wbs s0 = map to_wb BL) by reflexivity.
  (* source bytes accounted by the scheduler: every block counts k * E (padded symbols) *)
  set (x := nom (n - 1) * e - len (n - 1)).
  set (g := fun s => src_of_wb (to_wb (blockfn s))).
  assert (Hg : forall s, s < n -> g s = nom s * e).
  { intros s Hs. unfold g, blockfn. rewrite src_of_the_block by exact He. rewrite Hpad. fold e.
    rewrite (Hbuflen s Hs), (BK s Hs). reflexivity. }
  assert (HSRC : src_total s0 = l + x).
  { unfold src_total. rewrite Eall. unfold BL. rewrite src_total_of_map.
    pose proof (sum_src _ _ _ _ _ _ l e r P He HT Hr g x) as S1. fold len in S1.
    rewrite (map_ext (fun i => src_of_wb (to_wb (blockfn (N.of_nat i)))) (fun i => g (0 + N.of_nat i)))
      by (intros i; unfold g; do 3 f_equal; lia).
    rewrite <- (S1) with (k := nn) (s := 0); [rewrite sym_off_0; lia| | |lia|lia].
    - intros s Hs. rewrite Hg by lia. destruct (BF s ltac:(lia)) as (_ & _ & _ & _ & _ & Hfull & _).
      rewrite (Hfull Hs). reflexivity.
    - rewrite Hg by lia. destruct (BF (n - 1) ltac:(lia)) as (_ & _ & _ & Hle & _). unfold x. lia. }
  assert (Hx : forall s, s < n -> x < g s).
  { intros s Hs. rewrite (Hg s Hs). unfold x.
    destruct (BF s Hs) as (_ & Hpos & _). destruct (BF (n - 1) ltac:(lia)) as (_ & _ & _ & _ & Hlt & _).
    specialize (NP s). assert (1 * e <= nom s * e) by (apply N.mul_le_mono_r; lia). lia. }
  assert (W : wf c (src_total s0) s0).
  { apply wf_init.
    - pose proof (nodup_seq blockfn Fsbn nn) as ND. rewrite map_map in ND. exact ND.
    - fold s0. rewrite HSRC. fold l. lia.
    - intros b0 Hb0. fold s0. rewrite HSRC. fold l. unfold BL in Hb0. apply in_map_iff in Hb0.
      destruct Hb0 as (i & <- & Hi). apply in_seq in Hi.
      pose proof (Hx (N.of_nat i) ltac:(lia)) as Hxi. unfold g in Hxi. lia. }
  assert (Htot : (0 < tot s0)%nat).
  { destruct (Nat.eq_dec (tot s0) 0) as [Z|]; [|lia]. apply src_zero_of_tot in Z.
    fold (src_total s0) in Z. pose proof (Hx 0 Ln). lia. }
  rewrite total_shards_tot. fold s0.
  destruct (enc_run_complete_proof c (src_total s0) Hw (S (S (tot s0))) s0 W ltac:(lia) (or_introl Htot))
    as (_ & R2 & R3 & R4).
  pose proof (enc_run_hdr c Hw (S (S (tot s0))) s0 eq_refl (wf_nodup _ _ _ W) (or_introl Htot)) as R5.
  set (ps := pkts_of (enc_run (S (S (tot s0))) c [] s0)) in *. clearbody ps.
  (* the shards of block s, as the packets of block s carry them *)
  assert (Hshards : forall i, (i < nn)%nat ->
            map view_p (filter (fun q => p_sbn q =? N.of_nat i) ps)
            = map view_sh (enumerate_from 0 (map (pad (N.to_nat e)) (chunks (N.to_nat e) (buf (N.of_nat i))))
                           ++ enumerate_from (nom (N.of_nat i))
                                (rep (c_fec c) (N.of_nat i) (buf (N.of_nat i)) (nom (N.of_nat i)) (c_parity c)))).
  { intros i Hi. rewrite (R3 (N.of_nat i)). unfold pend. rewrite Eall. unfold BL.
    rewrite (pend_of_seq blockfn Fsbn i nn 0) by lia.
    cbn [blockfn the_block bk_shards]. unfold src_pl, rep_pl. rewrite Hpad. fold e.
    rewrite (Hbuflen (N.of_nat i)) by lia. rewrite (BK (N.of_nat i)) by lia.
    destruct (c_fec c); try discriminate Hrs; reflexivity. }
  split; [|split; [|split; [exact (R4 Htot)|exact R2]]].
  - apply forallb_forall. intros p Hp.
    destruct (R5 p Hp) as [(wb & Hin & E1 & E2) _]. rewrite Eall in Hin. unfold BL in Hin. rewrite map_map in Hin.
    apply in_map_iff in Hin. destruct Hin as (i & <- & Hi). apply in_seq in Hi.
    cbn [to_wb wb_sbn wb_k blockfn the_block bk_sbn bk_k] in E1, E2.
    assert (Hs : p_sbn p < n) by lia. set (s := p_sbn p) in *.
    assert (Ek : p_k p = nom s).
    { rewrite <- E2. fold e. rewrite E1. rewrite (Hbuflen s Hs). apply (BK s Hs). }
    fold (nom s). change (sublist (sym_off al as_ nal s * e) (sym_off al as_ nal s * e + len s) content) with (buf s).
    assert (Hv : In (view_p p) (map view_sh (enumerate_from 0 (map (pad (N.to_nat e)) (chunks (N.to_nat e) (buf s)))
                                             ++ enumerate_from (nom s) (rep (c_fec c) s (buf s) (nom s) (c_parity c))))).
    { assert (In (view_p p) (map view_p (filter (fun q => p_sbn q =? s) ps))).
      { apply in_map. apply filter_In. split; [exact Hp|apply N.eqb_refl]. }
      replace s with (N.of_nat i) in H |- * by lia. rewrite (Hshards i) in H by lia. exact H. }
    apply in_map_iff in Hv. destruct Hv as (sh & Ev' & Hsh).
    assert (Eesi : p_esi p = sh_esi sh) by (unfold view_p, view_sh in Ev'; inversion Ev'; congruence).
    assert (Epl : p_payload p = sh_data sh) by (unfold view_p, view_sh in Ev'; inversion Ev'; congruence).
    destruct (BF s Hs) as (Hstep & Hpos & Hoff & Hle & Hlt & Hfull & Hnext).
    assert (HLc : lenN (map (pad (N.to_nat e)) (chunks (N.to_nat e) (buf s))) = nom s).
    { unfold lenN. rewrite map_length. pose proof (chunks_length e (buf s) He) as HL. unfold lenN at 1 in HL.
      rewrite HL, (Hbuflen s Hs). apply (BK s Hs). }
    apply andb_true_iff; split; [apply andb_true_iff; split|].
    + apply N.ltb_lt. exact Hs.
    + apply N.eqb_eq. exact Ek.
    + apply in_app_or in Hsh. destruct Hsh as [Hsh|Hsh].
      * (* a source symbol *)
        pose proof (enumerate_from_range _ _ _ Hsh) as Rg. rewrite HLc in Rg.
        destruct (enumerate_from_nth _ _ _ Hsh) as (j & Hj & Ej). rewrite N.add_0_l in Ej.
        destruct (N.ltb_spec (p_esi p) (nom s)) as [_|G]; [|lia].
        rewrite nth_error_map in Hj.
        destruct (nth_error (chunks (N.to_nat e) (buf s)) j) as [d0|] eqn:Ed0; [|discriminate].
        cbn [option_map] in Hj. inversion Hj as [Hd]. clear Hj.
        apply chunks_nth in Ed0; [|exact He]. destruct Ed0 as [_ Hd0].
        rewrite Epl, <- Hd, Hd0. unfold buf.
        rewrite chunk_is_sym_slice; [| exact He | rewrite Hstep; fold l in Hlen; lia |].
        -- unfold sym_slice. rewrite Eesi, Ej. unfold off.
           replace ((sym_off al as_ nal s + N.of_nat j) * e) with (sym_off al as_ nal s * e + N.of_nat j * e) by ring.
           apply eqb_listN_refl.
        -- destruct (N.eq_dec (off s + len s) l) as [El|Ne]; [left; fold l in Hlen; lia|right].
           assert (len s = nom s * e) by lia.
           assert ((N.of_nat j + 1) * e <= nom s * e) by (apply N.mul_le_mono_r; lia). lia.
      * (* a repair symbol *)
        pose proof (enumerate_from_range _ _ _ Hsh) as Rg.
        destruct (enumerate_from_nth _ _ _ Hsh) as (j & Hj & Ej).
        destruct (N.ltb_spec (p_esi p) (nom s)) as [G|_]; [lia|].
        apply andb_true_iff; split; [apply N.ltb_lt; lia|].
        rewrite Epl, Eesi, Ej. replace (N.to_nat (nom s + N.of_nat j - nom s)) with j by lia.
        rewrite (nth_error_nth _ _ [] Hj). apply eqb_listN_refl.
  - intros s i Hs Hi.
    assert (Hin : In i (map p_esi (filter (fun q => p_sbn q =? s) ps))).
    { replace (map p_esi (filter (fun q => p_sbn q =? s) ps))
        with (map fst (map view_p (filter (fun q => p_sbn q =? s) ps))) by (rewrite map_map; reflexivity).
      replace s with (N.of_nat (N.to_nat s)) by lia. rewrite (Hshards (N.to_nat s)) by lia.
      replace (N.of_nat (N.to_nat s)) with s by lia.
      rewrite map_map. change (map (fun x0 => fst (view_sh x0)) ?l0) with (map sh_esi l0).
      rewrite map_app. apply in_or_app. left. apply enumerate_from_esi_in; [lia|].
      unfold lenN. rewrite map_length. pose proof (chunks_length e (buf s) He) as HL. unfold lenN at 1 in HL.
      rewrite HL, (Hbuflen s Hs), (BK s Hs). fold (nom s) in Hi. lia. }
    apply in_map_iff in Hin. destruct Hin as (p & Ep & Hp). apply filter_In in Hp. destruct Hp as [Hp Esb].
    apply N.eqb_eq in Esb. apply in_map_iff. exists p. split; [rewrite Ep, Esb; reflexivity|exact Hp].
Qed.
Print Assumptions rs_transfer_exact.

(* ================= 2. the wire bridge of the Reed-Solomon schemes ================= *)
(* FEC 5 (AlcRS28::add_fec_payload_id): ((sbn & 0xFFFFFF) << 8) | (esi & 0xFF), big endian, codepoint 5.
   FEC 129 (AlcRS28UnderSpecified): sbn (u32), source_block_length as u16, esi as u16, big endian, codepoint 129;
   pkt.source_block_length is the block's number of source symbols (p_k).  The close-object flag is the LCT B flag;
   no EXT_FTI / EXT_CENC (the FDT entry carries them). *)
Definition rfec_of (f : fec) : rfec := match f with RS28US => FRS28US | _ => FRS28 end.

Definition to_apkt_rs (f : fec) (toi : N) (p : pkt) : apkt :=
  match f with
  | RS28US => us_pkt toi (p_sbn p mod 4294967296) (p_k p mod 65536) (p_esi p mod 65536) (p_close p) (p_payload p)
  | _ => rs_pkt toi (p_sbn p mod 16777216) (p_esi p mod 256) (p_close p) (p_payload p)
  end.

(* the receiver's OTI (from the FDT entry) describes the sender's configuration *)
Definition oti_matches_rs (c : ecfg) (oti : roti) : Prop :=
  ro_fec oti = rfec_of (c_fec c) /\ ro_e oti = c_e c /\ ro_b oti = c_b c /\ ro_parity oti = c_parity c.

(* the encoder oracle produces at most [parity] shards (reed_solomon_erasure: exactly parity; C08_transfer_full has
   the premise with equality) *)
Definition rep_len_ok (rep : fec -> N -> list N -> N -> N -> list (list N)) : Prop :=
  forall f sbn buf k p, lenN (rep f sbn buf k p) <= p.

Lemma parse_rs_pidb s i : s < 16777216 -> i < 256 -> parse_pid FRS28 (rs_pidb s i) = Some (s, i, None).
Proof.
  intros Hs Hi. unfold parse_pid, rs_pidb. cbn [length Nat.eqb]. unfold be_val. cbn [fold_left].
  pose proof (N.div_mod s 256 ltac:(lia)) as D1. pose proof (N.div_mod (s / 256) 256 ltac:(lia)) as D2.
  rewrite N.div_div in D2 by lia. change (256 * 256) with 65536 in D2.
  set (a := s / 65536) in *. set (b := (s / 256) mod 256) in *. set (c := s mod 256) in *. set (q := s / 256) in *.
  replace ((((0 * 256 + a) * 256 + b) * 256 + c) * 256 + i) with (i + s * 256) by lia.
  rewrite N.div_add, N.mod_add by lia. rewrite N.div_small, N.mod_small by lia. rewrite N.add_0_l. reflexivity.
Qed.

Lemma parse_us_pidb s k i : s < 4294967296 -> k < 65536 -> i < 65536 ->
  parse_pid FRS28US (us_pidb s k i) = Some (s, i, Some k).
Proof.
  intros Hs Hk Hi. unfold parse_pid, us_pidb. cbn [length Nat.eqb]. unfold be_val. cbn [fold_left].
  pose proof (N.div_mod s 256 ltac:(lia)) as D1. pose proof (N.div_mod (s / 256) 256 ltac:(lia)) as D2.
  pose proof (N.div_mod (s / 65536) 256 ltac:(lia)) as D3.
  rewrite N.div_div in D2 by lia. change (256 * 256) with 65536 in D2.
  rewrite N.div_div in D3 by lia. change (65536 * 256) with 16777216 in D3.
  pose proof (N.div_mod k 256 ltac:(lia)) as D4. pose proof (N.div_mod i 256 ltac:(lia)) as D5.
  set (a3 := s / 16777216) in *. set (a2 := (s / 65536) mod 256) in *. set (a1 := (s / 256) mod 256) in *.
  set (a0 := s mod 256) in *. set (q1 := s / 256) in *. set (q2 := s / 65536) in *.
  set (k1 := k / 256) in *. set (k0 := k mod 256) in *. set (i1 := i / 256) in *. set (i0 := i mod 256) in *.
  set (v := (((((((0 * 256 + a3) * 256 + a2) * 256 + a1) * 256 + a0) * 256 + k1) * 256 + k0) * 256 + i1) * 256 + i0).
  assert (V1 : v / 4294967296 = s).
  { replace v with (i + k * 65536 + s * 4294967296) by (unfold v; lia).
    rewrite N.div_add by lia. rewrite N.div_small by lia. reflexivity. }
  assert (V2 : v mod 65536 = i).
  { replace v with (i + (k + s * 65536) * 65536) by (unfold v; lia).
    rewrite N.mod_add by lia. apply N.mod_small. exact Hi. }
  assert (V3 : (v / 65536) mod 65536 = k).
  { replace v with (i + (k + s * 65536) * 65536) by (unfold v; lia).
    rewrite N.div_add by lia. rewrite (N.div_small i) by lia. rewrite N.add_0_l.
    rewrite N.mod_add by lia. apply N.mod_small. exact Hk. }
  rewrite V1, V2, V3. reflexivity.
Qed.

Lemma firstn_repeat {A} (x : A) m k : firstn m (repeat x k) = repeat x (Nat.min m k).
Proof.
  revert k. induction m as [|m IH]; intros k; [reflexivity|]. destruct k as [|k]; [reflexivity|].
  cbn [repeat firstn Nat.min]. f_equal. apply IH.
Qed.

(* RS source symbols on the wire: the receiver's notion (symbol j of the object zero-padded to a whole number of
   symbols, C02RS.psym) is the sender's (the chunk zero-padded to E, Block::new_from_buffer / create_shards) *)
Lemma psym_is_padded_slice oti content j : 0 < ro_e oti -> 0 < lenN_ content ->
  j < div_ceil (lenN_ content) (ro_e oti) ->
  psym oti content j = pad (N.to_nat (ro_e oti)) (sym_slice (ro_e oti) content j).
Proof.
  intros He HL Hj. unfold psym, cpad, pad_content, sym_slice, pad, take, drop.
  destruct (ceil_witness (lenN_ content) (ro_e oti) He) as (r & HT & Hr).
  set (e := ro_e oti) in *. set (T := div_ceil (lenN_ content) e) in *.
  assert (M1 : (j + 1) * e <= T * e) by (apply N.mul_le_mono_r; lia).
  replace ((j + 1) * e) with (j * e + e) in M1 by ring.
  set (je := j * e) in *. set (Te := T * e) in *.
  assert (Hlast : lenN_ content < je + e -> Te = je + e).
  { intros Hlt. destruct (N.le_gt_cases T (j + 1)) as [G|G].
    - assert (T * e <= (j + 1) * e) by (apply N.mul_le_mono_r; exact G).
      replace ((j + 1) * e) with (j * e + e) in H by ring. fold je Te in H. lia.
    - assert ((j + 2) * e <= T * e) by (apply N.mul_le_mono_r; lia).
      replace ((j + 2) * e) with (j * e + e + e) in H by ring. fold je Te in H. lia. }
  clearbody je Te. unfold lenN_ in *.
  rewrite skipn_app. replace (N.to_nat je - length content)%nat with 0%nat by lia. cbn [skipn].
  rewrite firstn_app, firstn_repeat, skipn_length. f_equal. f_equal. rewrite firstn_length, skipn_length.
  destruct (Nat.le_gt_cases (N.to_nat e) (length content - N.to_nat je)) as [G|G]; [lia|].
  assert (Te = je + e) by (apply Hlast; lia). lia.
Qed.

Lemma eqb_listN_eq' a b : eqb_listN a b = true -> a = b.
Proof. apply eqb_listN_eq. Qed.

(* number of source blocks of an accepted object: at most the scheme's maximum *)
Lemma accepts_nblocks c al as_ nal n : filedesc_accepts c = true -> 0 < c_tlen c ->
  block_partitioning (c_b c) (c_tlen c) (c_e c) = (al, as_, nal, n) -> n <= max_source_blocks_number (c_fec c).
Proof.
  intros Hacc Hl Ebp. destruct (accepts_pos c Hacc Hl) as [He Hb].
  pose proof (partition_covers_proof (c_b c) (c_tlen c) (c_e c) Hb He Hl) as P. rewrite Ebp in P.
  destruct P as [_ En].
  unfold filedesc_accepts in Hacc. apply andb_true_iff in Hacc. destruct Hacc as [Hacc _].
  apply andb_true_iff in Hacc. destruct Hacc as [Hacc _]. apply N.leb_le in Hacc.
  unfold max_transfer_length in Hacc. set (m := max_source_blocks_number (c_fec c)) in *. clearbody m.
  assert (H1 : c_tlen c <= (c_b c * m) * c_e c) by lia.
  destruct (div_ceil_is_ceil (c_tlen c) (c_e c) He) as [_ M1]. specialize (M1 _ H1).
  destruct (div_ceil_is_ceil (div_ceil (c_tlen c) (c_e c)) (c_b c) Hb) as [_ M2].
  rewrite En. apply M2. lia.
Qed.

Lemma rx_rep_sized rep c content oti : ro_e oti = c_e c -> rs_rep_sym_ok rep c content ->
  rs_rep_sized oti (rx_rep rep c content).
Proof.
  intros He H s i. unfold rx_rep. destruct (block_partitioning (c_b c) (c_tlen c) (c_e c)) as [[[al as_] nal] n].
  destruct (nth_in_or_default (N.to_nat (i - nominal_syms al as_ nal s)) (blk_parity rep c content s) []) as [Hin|Hd].
  - rewrite He. exact (H s _ Hin).
  - rewrite Hd. unfold lenN_. cbn [length]. lia.
Qed.

Section BridgeRS.
  Set Default Proof Using "All".
  Variable rep : fec -> N -> list N -> N -> N -> list (list N).
  Variable c : ecfg.
  Variable content : list N.
  Variable oti : roti.
  Variable toi : N.
  Variables al as_ nal n : N.
  Hypothesis Hrs : is_rs (c_fec c) = true.
  Hypothesis Hacc : filedesc_accepts c = true.
  Hypothesis Hlen : c_tlen c = lenN content.
  Hypothesis Hl : 0 < c_tlen c.
  Hypothesis Hoti : oti_matches_rs c oti.
  Hypothesis Hreplen : rep_len_ok rep.
  Hypothesis Ebp : block_partitioning (c_b c) (c_tlen c) (c_e c) = (al, as_, nal, n).

  Notation rep' := (rx_rep rep c content).
  Notation wire := (to_apkt_rs (c_fec c) toi).

  Lemma bridge_partition_rs : partition_of oti (lenN_ content) = (al, as_, nal, n).
  Proof using Hlen Hoti Ebp.
    destruct Hoti as (_ & E1 & E2 & _). unfold partition_of. rewrite E1, E2.
    change (lenN_ content) with (lenN content). rewrite <- Hlen. exact Ebp.
  Qed.

  Lemma bridge_cls : cls oti = true /\ us oti = match c_fec c with RS28US => true | _ => false end.
  Proof using Hrs Hoti.
    destruct Hoti as (F & _). unfold cls, us. rewrite F.
    destruct (c_fec c); try discriminate Hrs; split; reflexivity.
  Qed.

  Lemma bridge_k s : 0 < nominal_syms al as_ nal s /\ 0 < c_parity c /\ nominal_syms al as_ nal s + c_parity c <= 256.
  Proof using Hrs Hacc Hl Ebp.
    pose proof (accepts_rs_ok c al as_ nal n Hrs Hacc Hl Ebp s) as H. unfold rs_new_ok in H.
    apply andb_true_iff in H. destruct H as [H H3]. apply andb_true_iff in H. destruct H as [H1 H2].
    apply N.ltb_lt in H1. apply N.ltb_lt in H2. apply N.leb_le in H3. auto.
  Qed.

  Lemma bridge_n : n <= match c_fec c with RS28US => 4294967295 | _ => 255 end.
  Proof using Hrs Hacc Hl Ebp.
    pose proof (accepts_nblocks c al as_ nal n Hacc Hl Ebp) as H.
    destruct (c_fec c); try discriminate Hrs; exact H.
  Qed.

  (* one packet *)
  Lemma bridge_pkt_rs p :
    p_sbn p < n -> p_k p = nominal_syms al as_ nal (p_sbn p) ->
    (if p_esi p <? nominal_syms al as_ nal (p_sbn p)
     then p_payload p = pad (N.to_nat (c_e c)) (sym_slice (c_e c) content (sym_off al as_ nal (p_sbn p) + p_esi p))
     else p_esi p < nominal_syms al as_ nal (p_sbn p) + lenN (blk_parity rep c content (p_sbn p))
          /\ p_payload p = rep' (p_sbn p) (p_esi p)) ->
    rs_genuine_pkt oti content rep' (wire p) = true /\ rs_pid oti (wire p) = (p_sbn p, p_esi p)
    /\ a_close_obj (wire p) = p_close p.
  Proof.
    intros Hs Hk Hp. destruct (accepts_pos c Hacc Hl) as [He Hb].
    destruct bridge_cls as [Hcls Hus]. pose proof bridge_n as Hn. destruct (bridge_k (p_sbn p)) as (K1 & K2 & K3).
    pose proof Hoti as (F & E1 & E2 & E3).
    set (s := p_sbn p) in *. set (i := p_esi p) in *. set (k := nominal_syms al as_ nal s) in *.
    assert (Hpar : lenN (blk_parity rep c content s) <= c_parity c).
    { unfold blk_parity. rewrite Ebp. apply Hreplen. }
    assert (Hi : i < k + c_parity c).
    { destruct (N.ltb_spec i k) as [G|G]; [lia|]. destruct Hp as [Hp _]. lia. }
    assert (Epid : a_pid_with (ro_fec oti) (wire p) = Some (s, i, if us oti then Some k else None)).
    { unfold a_pid_with. rewrite F, Hus. unfold to_apkt_rs. fold s i.
      destruct (c_fec c); try discriminate Hrs; cbn [rfec_of us_pkt rs_pkt a_pidbytes].
      - rewrite !N.mod_small by lia. apply parse_rs_pidb; lia.
      - rewrite Hk. rewrite !N.mod_small by lia. apply parse_us_pidb; lia. }
    assert (Ecl : a_close_obj (wire p) = p_close p).
    { unfold to_apkt_rs. destruct (c_fec c); reflexivity. }
    assert (Epl : a_payload (wire p) = p_payload p).
    { unfold to_apkt_rs. destruct (c_fec c); reflexivity. }
    split; [|split; [|exact Ecl]].
    - unfold rs_genuine_pkt. rewrite bridge_partition_rs. unfold genuineb. rewrite Epid.
      apply andb_true_iff; split; [apply andb_true_iff; split; [apply andb_true_iff; split|]|].
      + unfold sbl_okb, k_of. fold k. destruct (us oti); [rewrite N.eqb_refl|]; reflexivity.
      + apply N.ltb_lt. exact Hs.
      + rewrite Hcls. cbn [negb orb]. apply N.ltb_lt. unfold k_of. fold k. rewrite E3. exact Hi.
      + rewrite Epl. unfold esym, k_of. fold k. rewrite Hcls. cbn [andb].
        destruct (N.ltb_spec i k) as [G|G].
        * rewrite Hp. rewrite psym_is_padded_slice.
          -- rewrite E1. unfold soff. apply eqb_bytes_refl.
          -- rewrite E1. exact He.
          -- change (lenN_ content) with (lenN content). rewrite <- Hlen. exact Hl.
          -- assert (HL : 0 < lenN_ content) by (change (lenN_ content) with (lenN content); rewrite <- Hlen; exact Hl).
             assert (He' : 0 < ro_e oti) by (rewrite E1; exact He).
             assert (Hb' : 0 < ro_b oti) by (rewrite E2; exact Hb).
             pose proof bridge_partition_rs as Hpart. unfold partition_of in Hpart.
             pose proof (soff_k_le oti content al as_ nal n He' Hb' HL Hpart s Hs) as SK.
             unfold k_of in SK. fold k in SK. lia.
        * destruct Hp as [_ Hp]. rewrite Hp. apply eqb_bytes_refl.
    - unfold rs_pid. rewrite Epid. reflexivity.
  Qed.

  (* all packets of a transfer *)
  Lemma bridge_all_rs ps : P_C08_rs_exact rep c content ps = true ->
    Forall (fun q => rs_genuine_pkt oti content rep' q = true) (map wire ps)
    /\ map (rs_pid oti) (map wire ps) = map (fun p => (p_sbn p, p_esi p)) ps
    /\ map a_close_obj (map wire ps) = map p_close ps.
  Proof.
    intros H. unfold P_C08_rs_exact in H. rewrite Ebp in H.
    assert (A : forall p, In p ps -> rs_genuine_pkt oti content rep' (wire p) = true
                                  /\ rs_pid oti (wire p) = (p_sbn p, p_esi p)
                                  /\ a_close_obj (wire p) = p_close p).
    { intros p Hp. rewrite forallb_forall in H. specialize (H p Hp). cbv zeta in H.
      apply andb_true_iff in H. destruct H as [H H3]. apply andb_true_iff in H. destruct H as [H1 H2].
      apply N.ltb_lt in H1. apply N.eqb_eq in H2. apply bridge_pkt_rs; [exact H1|exact H2|].
      destruct (p_esi p <? nominal_syms al as_ nal (p_sbn p)).
      - apply eqb_listN_eq. exact H3.
      - apply andb_true_iff in H3. destruct H3 as [H3 H4]. apply N.ltb_lt in H3. apply eqb_listN_eq in H4. split; assumption. }
    split; [|split].
    - apply Forall_forall. intros q Hq. apply in_map_iff in Hq. destruct Hq as (p & <- & Hp). apply (A p Hp).
    - rewrite map_map. apply map_ext_in. intros p Hp. apply (A p Hp).
    - rewrite map_map. apply map_ext_in. intros p Hp. apply (A p Hp).
  Qed.
End BridgeRS.
Unset Default Proof Using.

(* ================= 3. every source symbol present implies the Reed-Solomon recoverability premise ================= *)
Lemma block_rec_rs_of_in par k s got : (forall i, i < k -> In (s, i) got) -> block_recoverable true par k s got = true.
Proof.
  intros H. unfold block_recoverable. apply N.leb_le. apply count_all_le. intros j Hj.
  apply filter_In. split; [|apply N.ltb_lt; lia].
  apply distinct_in. apply in_map_iff. exists (s, j). split; [reflexivity|].
  apply filter_In. split; [apply H; exact Hj|cbn [fst]; apply N.eqb_refl].
Qed.

Lemma blocks_rec_rs_of_all par (f : N -> N) got : forall m a,
  (forall j, (a <= j < a + m)%nat -> block_recoverable true par (f (N.of_nat j)) (N.of_nat j) got = true) ->
  blocks_recoverable true par (map f (map N.of_nat (seq a m))) (N.of_nat a) got = true.
Proof.
  induction m as [|m IH]; intros a H; [reflexivity|]. cbn [seq map blocks_recoverable].
  rewrite (H a ltac:(lia)). cbn [andb].
  replace (N.of_nat a + 1) with (N.of_nat (S a)) by lia. apply IH. intros j Hj. apply H. lia.
Qed.

Lemma rs_covered_recoverable oti L al as_ nal n pkts :
  partition_of oti L = (al, as_, nal, n) ->
  (forall s i, s < n -> i < k_of al as_ nal s -> In (s, i) (map (rs_pid oti) pkts)) ->
  rs_recoverable oti L pkts = true.
Proof.
  intros Hp Cov. unfold rs_recoverable, source_ks. rewrite Hp. unfold below.
  apply (blocks_rec_rs_of_all (ro_parity oti) (k_of al as_ nal) (map (rs_pid oti) pkts) (N.to_nat n) 0%nat).
  intros j Hj. apply block_rec_rs_of_in. intros i Hi. apply Cov; [lia|exact Hi].
Qed.

(* the close-object flag only on the last packet of a recoverable list *)
Lemma rs_close_flag_ok_last oti L pre p :
  Forall (fun q => a_close_obj q = false) pre -> rs_recoverable oti L (pre ++ [p]) = true ->
  rs_close_flag_ok oti L (pre ++ [p]).
Proof.
  intros F R pre' q post Eq Hq.
  assert (D : pre' = pre /\ q = p).
  { clear R. revert pre' Eq. induction F as [|x pre Hx F IH]; intros pre' Eq.
    - destruct pre' as [|y pre']; cbn [app] in Eq; inversion Eq; subst; [split; reflexivity|].
      destruct pre'; discriminate.
    - destruct pre' as [|y pre']; cbn [app] in Eq; inversion Eq; subst; [congruence|].
      destruct (IH pre' H1) as [-> ->]. split; reflexivity. }
  destruct D as [-> ->]. exact R.
Qed.

(* ================= 4. the composition theorems, object level ================= *)
Section ComposeRS.
  Variable rep : fec -> N -> list N -> N -> N -> list (list N).
  Variable raptor_src : list N -> N -> option (list (list N)).
  Variable c : ecfg.
  Variable content : list N.
  Variable oti : roti.
  Variable E : env.
  Variables toi max fid : N.
  Variable files : list fdtfile.
  Variable inst : option roti.
  Variable md5 : option (list N).
  (* sender: an accepted Reed-Solomon configuration (FEC 5 or 129), a non-empty content of the announced length;
     the encoder oracle gives at most [parity] shards per block *)
  Hypothesis Hrs : is_rs (c_fec c) = true.
  Hypothesis Hacc : filedesc_accepts c = true.
  Hypothesis Hlen : c_tlen c = lenN content.
  Hypothesis Hl : 0 < c_tlen c.
  Hypothesis Hw : (1 <= c_window c)%nat.
  Hypothesis Hreplen : rep_len_ok rep.
  Hypothesis Hrepsz : rs_rep_sym_ok rep c content.
  (* wire: E is a u16 *)
  Hypothesis He16 : c_e c < 65536.
  (* receiver: the FDT entry describes the object; the environment is friendly; THE DECODER ORACLE is MDS for the
     symbols the sender's encoder produced *)
  Hypothesis Hoti : oti_matches_rs c oti.
  Hypothesis Hfdt : fdt_entry_for files inst toi oti (c_tlen c) md5.
  Hypothesis Hwa : writer_accepts E toi.
  Hypothesis Hws : writes_succeed E toi.
  Hypothesis Hmd5 : md5_good E content md5.
  Hypothesis Hmds : rs_oracle_mds E oti content (rx_rep rep c content) toi.
  Hypothesis Hmax : rs_mem_need oti (c_tlen c) <= max.
  Hypothesis Hnb : nb_blocks_of oti (c_tlen c) <= 4097.

  Notation rep' := (rx_rep rep c content).

  (* the packets of one uninterrupted transfer (source and repair symbols, interleaved by the window), on the wire *)
  Definition wire_pkts_rs : list apkt := map (to_apkt_rs (c_fec c) toi) (transfer_pkts rep raptor_src c content).

  Lemma tlen_is : c_tlen c = lenN_ content.
  Proof using Hlen. exact Hlen. Qed.

  Lemma scheme_ok_rs : rs_scheme_ok oti (lenN_ content).
  Proof using Hrs Hacc Hlen Hl He16 Hoti.
    clear Hw Hmax Hnb Hfdt Hwa Hws Hmd5 Hmds Hreplen.
    destruct Hoti as (F & E1 & E2 & _). destruct (accepts_pos c Hacc Hl) as [He Hb].
    rewrite <- tlen_is. unfold rs_scheme_ok. rewrite F, E1, E2.
    split; [destruct (c_fec c); try discriminate Hrs; [left|right]; reflexivity|].
    repeat split; try assumption.
    unfold filedesc_accepts in Hacc. apply andb_true_iff in Hacc. destruct Hacc as [A _].
    apply andb_true_iff in A. destruct A as [A _]. apply N.leb_le in A.
    unfold max_transfer_length in A. unfold U64.
    assert (c_tlen c <= 281474976710655) by (destruct (c_fec c); lia). lia.
  Qed.

  Lemma blocks_ok_rs : rs_blocks_ok oti (lenN_ content).
  Proof using Hrs Hacc Hlen Hl Hoti.
    destruct (block_partitioning (c_b c) (c_tlen c) (c_e c)) as [[[al as_] nal] n] eqn:Ebp.
    pose proof (bridge_partition_rs c content oti al as_ nal n Hlen Hoti Ebp) as Hpart.
    unfold rs_blocks_ok, source_ks. rewrite Hpart. apply forallb_forall. intros k Hk.
    apply in_map_iff in Hk. destruct Hk as (s & <- & _). destruct Hoti as (_ & _ & _ & E3). rewrite E3.
    exact (accepts_rs_ok c al as_ nal n Hrs Hacc Hl Ebp s).
  Qed.

  (* rs_recoverable_delivers, repackaged *)
  Lemma delivered_of_recoverable_rs pkts :
    Forall (fun q => rs_genuine_pkt oti content rep' q = true) pkts ->
    rs_close_flag_ok oti (lenN_ content) pkts ->
    rs_recoverable oti (lenN_ content) pkts = true ->
    delivered E fid files inst toi max content pkts.
  Proof.
    intros G Cl Rec.
    pose proof (rs_recoverable_delivers E oti content rep' toi max fid files inst md5 pkts) as D.
    cbv zeta in D. unfold delivered.
    assert (D' : let (o, cx) := receive E fid files inst toi max pkts in
                 r_state o = Completed /\ ShapeDone content (toi, 0%nat) toi cx
                 /\ forall m, complete_exact content (m, calls_of (toi, 0%nat) (c_log cx)) = true
                     /\ P_C02_object (rs_recoverable oti (lenN_ content) pkts) content
                          [(m, calls_of (toi, 0%nat) (c_log cx))] = true).
    { apply D; try assumption.
      - exact scheme_ok_rs.
      - exact blocks_ok_rs.
      - rewrite <- tlen_is. exact Hfdt.
      - apply rx_rep_sized; [apply Hoti|exact Hrepsz].
      - rewrite <- tlen_is. exact Hmax.
      - rewrite <- tlen_is. exact Hnb. }
    destruct (receive E fid files inst toi max pkts) as [o cx].
    destruct D' as (D1 & D2 & D3). split; [exact D1|]. split; [exact D2|]. intros m.
    destruct (D3 m) as [X Y]. split; [exact X|]. split; [apply exact_once; exact X|].
    rewrite Rec in Y. exact Y.
  Qed.

  (* the bridge: what the wire image of one uninterrupted transfer satisfies on the receiver side - every packet
     (source or repair) genuine for the sender's encoder; every list containing them recoverable; the close-object
     flag on the last packet only, iff last transfer *)
  Lemma wire_facts_rs :
    Forall (fun q => rs_genuine_pkt oti content rep' q = true) wire_pkts_rs
    /\ (forall l, incl wire_pkts_rs l -> rs_recoverable oti (lenN_ content) l = true)
    /\ exists body lst, wire_pkts_rs = body ++ [lst] /\ Forall (fun q => a_close_obj q = false) body
                        /\ a_close_obj lst = c_closable c.
  Proof.
    pose proof (rs_transfer_exact rep raptor_src c content Hrs Hl Hacc Hlen Hw) as X. cbv zeta in X.
    fold (transfer_pkts rep raptor_src c content) in X.
    destruct (block_partitioning (c_b c) (c_tlen c) (c_e c)) as [[[al as_] nal] n] eqn:Ebp.
    destruct X as (Hex & Cov & (body & lst & Eps & Fb & Cl) & _).
    pose proof (bridge_partition_rs c content oti al as_ nal n Hlen Hoti Ebp) as Hpart.
    destruct (bridge_all_rs rep c content oti toi al as_ nal n Hrs Hacc Hlen Hl Hoti Hreplen Ebp _ Hex) as (G & Epid & Ecl).
    fold wire_pkts_rs in G, Epid, Ecl. rewrite <- Epid in Cov.
    split; [exact G|]. split.
    - intros l I. apply (rs_covered_recoverable _ _ _ _ _ _ _ Hpart).
      intros s i Hs Hi. apply (incl_map (rs_pid oti) I). apply Cov; assumption.
    - exists (map (to_apkt_rs (c_fec c) toi) body), (to_apkt_rs (c_fec c) toi lst). split; [|split].
      + unfold wire_pkts_rs. rewrite Eps, map_app. reflexivity.
      + apply Forall_forall. intros q Hq. apply in_map_iff in Hq.
        destruct Hq as (p & <- & Hp). rewrite Forall_forall in Fb. rewrite <- (Fb p Hp).
        unfold to_apkt_rs. destruct (c_fec c); reflexivity.
      + rewrite <- Cl. unfold to_apkt_rs. destruct (c_fec c); reflexivity.
  Qed.

  (* main lemma 1: any genuine, flag-free packets [pre] (source or repair symbols of earlier cycles, any order, any
     duplication), then one whole transfer in order (last transfer or not) *)
  Theorem rs_prefix_then_transfer_delivered pre :
    Forall (fun q => rs_genuine_pkt oti content rep' q = true) pre ->
    Forall (fun q => a_close_obj q = false) pre ->
    delivered E fid files inst toi max content (pre ++ wire_pkts_rs).
  Proof.
    intros Gpre Fpre. destruct wire_facts_rs as (G & Rec & body & lst & Ew & Fb & _).
    assert (RecAll : rs_recoverable oti (lenN_ content) (pre ++ wire_pkts_rs) = true)
      by (apply Rec; apply incl_appr, incl_refl).
    apply delivered_of_recoverable_rs; [apply Forall_app; split; assumption| |exact RecAll].
    rewrite Ew, app_assoc. apply rs_close_flag_ok_last.
    - apply Forall_app. split; assumption.
    - rewrite <- app_assoc, <- Ew. exact RecAll.
  Qed.

  (* main lemma 2: any list of genuine packets without the close-object flag that contains every packet of one
     transfer - any order, any duplication, anything genuine in between *)
  Theorem rs_superset_delivered l :
    Forall (fun q => rs_genuine_pkt oti content rep' q = true) l ->
    Forall (fun q => a_close_obj q = false) l ->
    incl wire_pkts_rs l ->
    delivered E fid files inst toi max content l.
  Proof.
    intros Gl Fl I. destruct wire_facts_rs as (_ & Rec & _).
    apply delivered_of_recoverable_rs; [exact Gl|apply rs_close_flag_ok_noflag; exact Fl|apply Rec; exact I].
  Qed.

  (* R1 (C01): clean channel, one transfer, last (close flag on the last packet) or intermediate *)
  Theorem rs_clean_channel_delivered : delivered E fid files inst toi max content wire_pkts_rs.
  Proof. apply (rs_prefix_then_transfer_delivered []); constructor. Qed.

  (* R2 (C16): carousel (no close flag), late join at any offset j of one cycle, then one whole cycle *)
  Theorem rs_late_join_delivered : c_closable c = false ->
    forall j, delivered E fid files inst toi max content (skipn j wire_pkts_rs ++ wire_pkts_rs).
  Proof.
    intros Hc j. destruct wire_facts_rs as (G & _ & body & lst & Ew & Fb & Cl).
    assert (Fall : Forall (fun q => a_close_obj q = false) wire_pkts_rs).
    { rewrite Ew. apply Forall_app. split; [exact Fb|]. constructor; [congruence|constructor]. }
    assert (Sub : forall P : apkt -> Prop, Forall P wire_pkts_rs -> Forall P (skipn j wire_pkts_rs)).
    { intros P F. rewrite <- (firstn_skipn j wire_pkts_rs) in F. apply Forall_app in F. apply F. }
    apply rs_prefix_then_transfer_delivered; apply Sub; assumption.
  Qed.
End ComposeRS.

Print Assumptions rs_clean_channel_delivered.
Print Assumptions rs_late_join_delivered.
Print Assumptions rs_superset_delivered.
Print Assumptions rs_prefix_then_transfer_delivered.

(* ================= 5. concrete instances: the XOR toy code on both sides ================= *)
(* the oracle hypothesis depends on the encoder only through the repair symbols k <= esi < k + parity *)
Lemma rs_oracle_mds_ext E oti content r1 r2 toi :
  (forall s i, s < nb_blocks_of oti (lenN_ content) ->
     rs_k oti (lenN_ content) s <= i < rs_k oti (lenN_ content) s + ro_parity oti -> r1 s i = r2 s i) ->
  rs_oracle_mds E oti content r1 toi -> rs_oracle_mds E oti content r2 toi.
Proof.
  intros Hext H s size sh Hs Hk [ND F]. apply H; [exact Hs|exact Hk|]. split; [exact ND|].
  eapply Forall_impl; [|exact F]. intros p [H1 H2]. split; [exact H1|]. rewrite H2.
  unfold rs_symbol. specialize (Hext s (fst p) Hs). unfold rs_k in Hext, H1.
  destruct (partition_of oti (lenN_ content)) as [[[al as_] nal] n].
  destruct (N.ltb_spec (fst p) (k_of al as_ nal s)) as [G|G]; [reflexivity|]. symmetry. apply Hext. lia.
Qed.

(* sender side of the toy code of Proofs/C02RS.v (xor_dec): one parity shard per block (none if parity = 0) = the XOR
   of the source symbols zero-padded to E = 2 bytes *)
Definition xor_rep : fec -> N -> list N -> N -> N -> list (list N) :=
  fun _ _ buf _ p => firstn (N.to_nat p) [fold_left xor_bytes (map (pad 2) (chunks 2 buf)) [0; 0]].
(* the 5-byte object of Proofs/C02RS.v, E = 2, one parity symbol per block, two interleaved blocks, debug-profile
   sender; FEC 5 with B = 2 (blocks [1;2] [3;4] and [5;0]) / FEC 129 with B = 1 (three blocks of one symbol) *)
Definition exr_cfg (f : fec) (b : N) (closable : bool) : ecfg := mk_ecfg f 2 b 1 2 closable 5 true.

Example exr_wire :
  map (fun p => (p_sbn p, p_esi p, p_payload p, p_close p, p_k p, p_src p))
      (transfer_pkts xor_rep no_rsrc (exr_cfg RS28 2 true) exr_content)
  = [(0, 0, [1; 2], false, 2, true); (1, 0, [5; 0], false, 1, true); (0, 1, [3; 4], false, 2, true);
     (1, 1, [5; 0], false, 1, false); (0, 2, [2; 6], true, 2, false)]
  /\ map (fun q => (rs_pid exr_oti q, a_pidbytes q, a_cp q)) (wire_pkts_rs xor_rep no_rsrc (exr_cfg RS28 2 true) exr_content 7)
     = [(0, 0, [0; 0; 0; 0], 5); (1, 0, [0; 0; 1; 0], 5); (0, 1, [0; 0; 0; 1], 5); (1, 1, [0; 0; 1; 1], 5);
        (0, 2, [0; 0; 0; 2], 5)]
  /\ map (fun p => (p_sbn p, p_esi p, p_payload p, p_close p, p_k p, p_src p))
         (transfer_pkts xor_rep no_rsrc (exr_cfg RS28US 1 false) exr_content)
     = [(0, 0, [1; 2], false, 1, true); (1, 0, [3; 4], false, 1, true); (0, 1, [1; 2], false, 1, false);
        (1, 1, [3; 4], false, 1, false); (2, 0, [5; 0], false, 1, true); (2, 1, [5; 0], false, 1, false)]
  /\ map (fun q => (rs_pid exu_oti q, a_pidbytes q, a_cp q)) (wire_pkts_rs xor_rep no_rsrc (exr_cfg RS28US 1 false) exr_content 7)
     = [(0, 0, [0; 0; 0; 0; 0; 1; 0; 0], 129); (1, 0, [0; 0; 0; 1; 0; 1; 0; 0], 129); (0, 1, [0; 0; 0; 0; 0; 1; 0; 1], 129);
        (1, 1, [0; 0; 0; 1; 0; 1; 0; 1], 129); (2, 0, [0; 0; 0; 2; 0; 1; 0; 0], 129); (2, 1, [0; 0; 0; 2; 0; 1; 0; 1], 129)].
Proof. vm_compute. repeat split. Qed.

(* sender model -> bridge -> receiver model with the XOR decoder, by computation: last transfer / carousel transfer,
   FEC 5 and FEC 129; the wire packets are genuine for the receiver-side view of the sender's encoder *)
Example exr_clean_channel_computed :
  summary 7 (receive env_xor 1 exr_files None 7 1000 (wire_pkts_rs xor_rep no_rsrc (exr_cfg RS28 2 true) exr_content 7))
  = (Completed, [CallOpen true; CallWrite [1; 2; 3; 4] true; CallWrite [5] true; CallComplete])
  /\ summary 7 (receive env_xor 1 exr_files None 7 1000 (wire_pkts_rs xor_rep no_rsrc (exr_cfg RS28 2 false) exr_content 7))
  = (Completed, [CallOpen true; CallWrite [1; 2; 3; 4] true; CallWrite [5] true; CallComplete])
  /\ summary 7 (receive env_xor 1 exu_files None 7 6 (wire_pkts_rs xor_rep no_rsrc (exr_cfg RS28US 1 true) exr_content 7))
  = (Completed, [CallOpen true; CallWrite [1; 2] true; CallWrite [3; 4] true; CallWrite [5] true; CallComplete])
  /\ forallb (rs_genuine_pkt exr_oti exr_content (rx_rep xor_rep (exr_cfg RS28 2 true) exr_content))
             (wire_pkts_rs xor_rep no_rsrc (exr_cfg RS28 2 true) exr_content 7) = true
  /\ forallb (rs_genuine_pkt exu_oti exr_content (rx_rep xor_rep (exr_cfg RS28US 1 true) exr_content))
             (wire_pkts_rs xor_rep no_rsrc (exr_cfg RS28US 1 true) exr_content 7) = true.
Proof. vm_compute. repeat split. Qed.

(* late join at every offset of a carousel cycle (source and repair symbols interleaved), then a whole cycle; a
   suffix alone that lacks block 0 is not delivered *)
Example exr_late_join_computed :
  let w := wire_pkts_rs xor_rep no_rsrc (exr_cfg RS28 2 false) exr_content 7 in
  forallb (fun j => match summary 7 (receive env_xor 1 exr_files None 7 1000 (skipn j w ++ w)) with
                    | (Completed, [CallOpen true; CallWrite [1; 2; 3; 4] true; CallWrite [5] true; CallComplete]) => true
                    | _ => false end) [0; 1; 2; 3; 4; 5; 6]%nat = true
  /\ summary 7 (receive env_xor 1 exr_files None 7 1000 (skipn 3 w)) = (Receiving, [CallOpen true]).
Proof. vm_compute. split; reflexivity. Qed.

Lemma xor_rep_len : rep_len_ok xor_rep.
Proof. intros f sbn buf k p. unfold xor_rep, lenN. rewrite firstn_length. cbn [length]. lia. Qed.

(* the receiver-side view of xor_rep on this object is the encoder exr_rep / exu_rep of Proofs/C02RS.v, for which the
   XOR decoder satisfies the oracle hypothesis *)
Lemma xor_mds_5 closable : rs_oracle_mds env_xor exr_oti exr_content (rx_rep xor_rep (exr_cfg RS28 2 closable) exr_content) 7.
Proof.
  apply (rs_oracle_mds_ext env_xor exr_oti exr_content exr_rep); [|exact xor_dec_mds].
  intros s i Hs Hi. replace (nb_blocks_of exr_oti (lenN_ exr_content)) with 2 in Hs by (vm_compute; reflexivity).
  assert (Hs' : s = 0 \/ s = 1) by lia. destruct Hs' as [-> | ->].
  - replace (rs_k exr_oti (lenN_ exr_content) 0) with 2 in Hi by (vm_compute; reflexivity).
    replace (ro_parity exr_oti) with 1 in Hi by reflexivity. assert (i = 2) by lia. subst i. vm_compute. reflexivity.
  - replace (rs_k exr_oti (lenN_ exr_content) 1) with 1 in Hi by (vm_compute; reflexivity).
    replace (ro_parity exr_oti) with 1 in Hi by reflexivity. assert (i = 1) by lia. subst i. vm_compute. reflexivity.
Qed.

Lemma xor_mds_129 closable : rs_oracle_mds env_xor exu_oti exr_content (rx_rep xor_rep (exr_cfg RS28US 1 closable) exr_content) 7.
Proof.
  apply (rs_oracle_mds_ext env_xor exu_oti exr_content exu_rep); [|exact xor_dec_mds_129].
  intros s i Hs Hi. replace (nb_blocks_of exu_oti (lenN_ exr_content)) with 3 in Hs by (vm_compute; reflexivity).
  assert (Hs' : s = 0 \/ s = 1 \/ s = 2) by lia. destruct Hs' as [-> | [-> | ->]].
  all: match type of Hi with ?x <= _ < _ => replace x with 1 in Hi by (vm_compute; reflexivity) end.
  all: replace (ro_parity exu_oti) with 1 in Hi by reflexivity; assert (i = 1) by lia; subst i; vm_compute; reflexivity.
Qed.

Lemma xor_fold_len l : forall acc, (length (fold_left xor_bytes l acc) <= length acc)%nat.
Proof.
  induction l as [|x l IH]; intros acc; cbn [fold_left]; [lia|]. etransitivity; [apply IH|].
  unfold xor_bytes. rewrite map_length, combine_length. lia.
Qed.
Lemma in_firstn_in {A} (x : A) : forall m l, In x (firstn m l) -> In x l.
Proof. induction m as [|m IH]; intros [|y l]; cbn [firstn In]; try tauto. intros [H|H]; [left; exact H|right; apply IH; exact H]. Qed.
Lemma xor_rep_sym_ok_gen c content : 2 <= c_e c -> rs_rep_sym_ok xor_rep c content.
Proof.
  intros He s x Hin. unfold blk_parity in Hin.
  destruct (block_partitioning (c_b c) (c_tlen c) (c_e c)) as [[[al as_] nal] n].
  unfold xor_rep in Hin. apply in_firstn_in in Hin.
  destruct Hin as [<-|[]]. unfold lenN.
  match goal with |- N.of_nat (length (fold_left xor_bytes ?l ?a)) <= _ => pose proof (xor_fold_len l a) as H end.
  cbn [length] in H. lia.
Qed.
Lemma xor_rep_sym_ok f b closable content : rs_rep_sym_ok xor_rep (exr_cfg f b closable) content.
Proof. apply xor_rep_sym_ok_gen. cbn [exr_cfg c_e]. lia. Qed.

(* the premises of the theorems are satisfiable: they apply to these instances *)
Example exr_clean_channel_by_theorem closable :
  delivered env_xor 1 exr_files None 7 1000 exr_content (wire_pkts_rs xor_rep no_rsrc (exr_cfg RS28 2 closable) exr_content 7).
Proof.
  apply (rs_clean_channel_delivered xor_rep no_rsrc (exr_cfg RS28 2 closable) exr_content exr_oti env_xor 7 1000 1 exr_files None None).
  - reflexivity.
  - destruct closable; vm_compute; reflexivity.
  - reflexivity.
  - reflexivity.
  - cbn [exr_cfg c_window]. lia.
  - exact xor_rep_len.
  - apply xor_rep_sym_ok.
  - reflexivity.
  - repeat split.
  - exists (mk_ff 7 CNull (Some exr_oti) 5 None None false). repeat split.
  - split; reflexivity.
  - intros i. reflexivity.
  - exact I.
  - apply xor_mds_5.
  - vm_compute. discriminate.
  - vm_compute. discriminate.
Qed.

Example exu_clean_channel_by_theorem closable :
  delivered env_xor 1 exu_files None 7 6 exr_content (wire_pkts_rs xor_rep no_rsrc (exr_cfg RS28US 1 closable) exr_content 7).
Proof.
  apply (rs_clean_channel_delivered xor_rep no_rsrc (exr_cfg RS28US 1 closable) exr_content exu_oti env_xor 7 6 1 exu_files None None).
  - reflexivity.
  - destruct closable; vm_compute; reflexivity.
  - reflexivity.
  - reflexivity.
  - cbn [exr_cfg c_window]. lia.
  - exact xor_rep_len.
  - apply xor_rep_sym_ok.
  - reflexivity.
  - repeat split.
  - exists (mk_ff 7 CNull (Some exu_oti) 5 None None false). repeat split.
  - split; reflexivity.
  - intros i. reflexivity.
  - exact I.
  - apply xor_mds_129.
  - vm_compute. discriminate.
  - vm_compute. discriminate.
Qed.

Example exr_late_join_by_theorem j :
  let w := wire_pkts_rs xor_rep no_rsrc (exr_cfg RS28 2 false) exr_content 7 in
  delivered env_xor 1 exr_files None 7 1000 exr_content (skipn j w ++ w).
Proof.
  apply (rs_late_join_delivered xor_rep no_rsrc (exr_cfg RS28 2 false) exr_content exr_oti env_xor 7 1000 1 exr_files None None).
  - reflexivity.
  - vm_compute; reflexivity.
  - reflexivity.
  - reflexivity.
  - cbn [exr_cfg c_window]. lia.
  - exact xor_rep_len.
  - apply xor_rep_sym_ok.
  - reflexivity.
  - repeat split.
  - exists (mk_ff 7 CNull (Some exr_oti) 5 None None false). repeat split.
  - split; reflexivity.
  - intros i. reflexivity.
  - exact I.
  - apply xor_mds_5.
  - vm_compute. discriminate.
  - vm_compute. discriminate.
  - reflexivity.
Qed.

(* ================= 6. the session level: a Reed-Solomon object in a No-Code session ================= *)
(* Composition, as Proofs/C01Session.v, of (a) the sender's data plane (above), (b) the sender's FDT content
   (Model/FdtInst.v fdt_xml), (c) the receiver as a whole (Model/Recv.v; Proofs/C02SessionRS.v), (d) the receiver's
   FDT oracle instantiated by C01Session.fdt_oracle (reference XML parser + extraction of Model/FdtRecv.v), and
   of the metadata handed to the writer builder.  The FDT instance itself stays No-Code coded (session OTI No-Code,
   one packet); the object has its own Reed-Solomon OTI (TransferConfig.oti: FEC 5 or 129). *)
From FluteV Require Import Model.Ntp Proofs.AlcProofs.
From FluteV Require Import Model.Xml Model.SenderCtl Model.FdtInst Model.FdtRecv Spec.C10Spec Proofs.XmlProofs Proofs.FdtProofs.
From FluteV Require Import Model.Recv Proofs.C02Session Proofs.C02SessionRS Proofs.C01Esi Proofs.C01Session.
From Coq Require Import Ascii.
Open Scope bool_scope.
Open Scope N_scope.
Arguments Z.add : simpl never. Arguments Z.sub : simpl never. Arguments Z.mul : simpl never.
Arguments Z.div : simpl never. Arguments Z.modulo : simpl never.
Arguments Z.ltb : simpl never. Arguments Z.leb : simpl never.

Definition rs_id (id : N) : Prop := id = 5 \/ id = 129.
Definition fec_of_id (id : N) : fec := if id =? 129 then RS28US else RS28.

(* the data-plane configuration of the object described by [m]: the OTI it is sent with, its transfer length *)
Definition obj_ecfg_rs (cfg : fdt_cfg) (m : fmeta) (window : nat) (closable debug : bool) : ecfg :=
  let o := the_oti (c_oti cfg) m in
  mk_ecfg (fec_of_id (fec_id o)) (esl o) (max_sbl o) (parity o) window closable (FdtInst.m_tlen m) debug.

(* the receiver's view of a Reed-Solomon OTI (no scheme-specific information for FEC 5 / 129) *)
Definition rs_roti (o : FdtInst.oti) : roti :=
  mk_roti (rfec_of (fec_of_id (fec_id o))) (esl o) (max_sbl o) (parity o) None.

(* what the receiver model's instance is for the published document *)
Definition sess_ff_rs (m : fmeta) : fdtfile :=
  mk_ff (m_toi m) CNull (match FdtInst.m_oti m with Some o => Some (rs_roti o) | None => None end) (FdtInst.m_tlen m)
        (option_map bytes_of_str (FdtInst.m_md5 m)) (Some (FdtInst.m_clen m))
        (match FdtInst.m_cache m with Some CCNoCache => true | _ => false end).
Definition sess_inst_rs (cfg : fdt_cfg) (now : Z) (m : fmeta) : fdtinst :=
  mk_fi [sess_ff_rs m] (Some (nocode_roti (c_oti cfg))) (Some (expiry_ns cfg now)).

Lemma wf_rs_sch o : oti_wf o -> rs_id (fec_id o) -> sch o = SchNone.
Proof.
  intros (_ & _ & _ & _ & _ & Hs) H0. destruct (sch o) as [|a b|a b d|a b d]; [reflexivity| | |];
    destruct Hs as (E & _); destruct H0 as [H0|H0]; rewrite H0 in E; discriminate.
Qed.

Lemma roti_of_rs o : oti_wf o -> rs_id (fec_id o) -> roti_of o = Some (rs_roti o).
Proof.
  intros Hw H0. unfold roti_of, rs_roti. rewrite (wf_rs_sch o Hw H0). destruct H0 as [H0|H0]; rewrite H0; reflexivity.
Qed.

Lemma used_oti_rs cfg m : rs_id (fec_id (the_oti (c_oti cfg) m)) -> used_oti cfg m = the_oti (c_oti cfg) m.
Proof.
  intros H0. unfold used_oti, filedesc_oti. unfold the_oti in *.
  destruct (FdtInst.m_oti m) as [o|]; destruct H0 as [H0|H0]; rewrite H0; reflexivity.
Qed.

Section DocRS.
  Variable cfg : fdt_cfg.
  Variable complete : bool.
  Variable now : Z.
  Variable m : fmeta.
  (* a No-Code session, a Reed-Solomon object without content encoding; OTIs as oti.rs builds them *)
  Hypothesis Hs0 : fec_id (c_oti cfg) = 0.
  Hypothesis Hws : oti_wf (c_oti cfg).
  Hypothesis Ho : rs_id (fec_id (the_oti (c_oti cfg) m)).
  Hypothesis Hwo : oti_wf (the_oti (c_oti cfg) m).
  Hypothesis Hce : m_cenc m = 0.
  Hypothesis Hcl : FdtInst.m_clen m < FdtRecv.U64.
  Hypothesis Htl : FdtInst.m_tlen m < FdtRecv.U64.
  Hypothesis Ht : time_in_era now.
  Hypothesis Hexp : spec_expires now (c_dur cfg) < 4294967296.

  Lemma inst_of_model_rs : inst_of_xfdt (get_fdt_instance cfg complete now [m]) = Some (sess_inst_rs cfg now m).
  Proof.
    unfold inst_of_xfdt, get_fdt_instance, instance_gen.
    cbn [xi_expires xi_complete xi_full xi_oti xi_files xi_groups map all_some].
    rewrite Hs0. change (0 =? 6) with false. change (0 =? 1) with false. cbn [orb].
    rewrite (oti_field_attributes _ Hws), (roti_of_nocode _ Hws Hs0).
    rewrite (expiration_model now (c_dur cfg) Ht Hexp).
    rewrite (used_oti_rs cfg m Ho).
    unfold file_entry, to_file_xml.
    cbn [xf_loc xf_toi xf_clen xf_tlen xf_ctype xf_cenc xf_md5 xf_oti xf_etag xf_cache xf_groups].
    assert (H61 : (fec_id (the_oti (c_oti cfg) m) =? 6) || (fec_id (the_oti (c_oti cfg) m) =? 1) = false)
      by (destruct Ho as [H|H]; rewrite H; reflexivity).
    rewrite H61.
    rewrite !num_attr_dec by assumption. rewrite toi_of_dec, Hce.
    assert (Hfo : oti_field (match FdtInst.m_oti m with Some o => get_attributes o | None => empty_xoti end)
                  = Some (match FdtInst.m_oti m with Some o => Some (rs_roti o) | None => None end)).
    { unfold the_oti in Ho, Hwo. destruct (FdtInst.m_oti m) as [o|].
      - rewrite (oti_field_attributes _ Hwo), (roti_of_rs _ Hwo Ho). reflexivity.
      - rewrite Hs0 in Ho. destruct Ho; discriminate. }
    rewrite Hfo.
    assert (Hc : exists rc, cache_of (match FdtInst.m_cache m with Some c => Some (cache_xml c now) | None => None end)
                                     (Some ((spec_expires now (c_dur cfg) - 2208988800) * 1000000)) = Some rc
                            /\ match rc with RNoCache => true | _ => false end
                               = match FdtInst.m_cache m with Some CCNoCache => true | _ => false end).
    { assert (Hx : forall v, exists rc,
                 cache_of (Some (XExpires (dec (v mod 4294967296)))) (Some ((spec_expires now (c_dur cfg) - 2208988800) * 1000000))
                 = Some rc /\ match rc with RNoCache => true | _ => false end = false).
      { intros v. cbn [cache_of]. rewrite parse_dec_dec.
        assert (v mod 4294967296 <? 4294967296 = true) as -> by (apply N.ltb_lt; apply N.mod_lt; lia).
        destruct (v mod 4294967296 <? 2208988800); eexists; split; reflexivity. }
      destruct (FdtInst.m_cache m) as [[| |dd|tt]|]; cbn [cache_xml].
      - eexists. split; reflexivity.
      - eexists. split; reflexivity.
      - apply Hx.
      - apply Hx.
      - eexists. split; reflexivity. }
    destruct Hc as (rc & Erc & Hrc). rewrite Erc, Hrc. reflexivity.
  Qed.

  Lemma oracle_on_model_doc_rs : fdt_oracle (fdt_doc cfg complete now m) = Some (sess_inst_rs cfg now m).
  Proof. unfold fdt_doc, fdt_xml. rewrite oracle_printed. exact inst_of_model_rs. Qed.
End DocRS.

(* ---------- the composition ---------- *)
Definition obj_roti_rs (cfg : fdt_cfg) (m : fmeta) : roti := rs_roti (the_oti (c_oti cfg) m).
(* the wire packets of one uninterrupted transfer of the object (source and repair symbols), with EXT_FTI on every
   packet or on none *)
Definition obj_wire_rs rep raptor_src (cfg : fdt_cfg) (m : fmeta) (window : nat) (closable debug : bool) (content : list N)
  (fti : bool) : list apkt :=
  let w := wire_pkts_rs rep raptor_src (obj_ecfg_rs cfg m window closable debug) content (m_toi m) in
  if fti then map (add_fti (obj_roti_rs cfg m) (lenN_ content)) w else w.
(* the receiver-side view of the sender's encoder for this object *)
Definition obj_rep_rs rep (cfg : fdt_cfg) (m : fmeta) (content : list N) : N -> N -> list N :=
  rx_rep rep (obj_ecfg_rs cfg m 1 false false) content.

(* the sender side: a No-Code session OTI, one accepted non-empty Reed-Solomon object (FEC 5 or 129) without content
   encoding, published at [now] *)
Definition sender_ok_rs (cfg : fdt_cfg) (now : Z) (m : fmeta) (content : list N) : Prop :=
  fec_id (c_oti cfg) = 0 /\ oti_wf (c_oti cfg) /\ 0 < max_sbl (c_oti cfg)
  /\ rs_id (fec_id (the_oti (c_oti cfg) m)) /\ oti_wf (the_oti (c_oti cfg) m) /\ m_cenc m = 0
  /\ filedesc_accepts (obj_ecfg_rs cfg m 1 false false) = true
  /\ FdtInst.m_tlen m = lenN content /\ 0 < FdtInst.m_tlen m /\ m_toi m <> 0 /\ FdtInst.m_clen m < FdtRecv.U64
  /\ time_in_era now /\ spec_expires now (c_dur cfg) < 4294967296 /\ meta_ok cfg now m.

(* the receiver side: the environment of rs_recoverable_delivers (memory: rs_mem_need - for FEC 129 the length rounded
   up to a whole number of symbols), THE DECODER ORACLE is MDS for the symbols the sender's encoder [rep] produced, and
   the instance is not expired when it arrives *)
Definition receiver_ok_rs rep (E : env) (rcfg : rconfig) (nowr : Z) (sct : option Z) (cfg : fdt_cfg) (now : Z) (m : fmeta)
  (content : list N) : Prop :=
  writer_accepts E (m_toi m) /\ writes_succeed E (m_toi m) /\ md5_good E content (obj_md5 m)
  /\ rs_oracle_mds E (obj_roti_rs cfg m) content (obj_rep_rs rep cfg m content) (m_toi m)
  /\ rs_mem_need (obj_roti_rs cfg m) (lenN_ content) <= cf_max_cache rcfg
  /\ nb_blocks_of (obj_roti_rs cfg m) (lenN_ content) <= 4097
  /\ (cf_exp_check rcfg = false \/ (match sct with Some t => t | None => nowr end <= expiry_ns cfg now)%Z).

(* the conclusion: C01Session.session_meta_delivered with the Reed-Solomon instance [sess_inst_rs] *)
Definition session_meta_delivered_rs (cfg : fdt_cfg) (complete : bool) (now : Z) (m : fmeta) (content : list N)
  (rcfg : rconfig) (r : recv) (cx : ObjRecv.ctx) : Prop :=
  session_delivered rcfg (sess_inst_rs cfg now m) content (m_toi m) r cx
  /\ Xml.parse_fdt (str_of_bytes (fdt_doc cfg complete now m)) = Some (get_fdt_instance cfg complete now [m])
  /\ fdt_oracle (fdt_doc cfg complete now m) = Some (sess_inst_rs cfg now m)
  /\ exists rm,
       recv_meta b64_decode (get_fdt_instance cfg complete now [m]) (to_file_xml (used_oti cfg m) m now) = MOk rm
       /\ P_C10_meta cfg false now m rm = true
       /\ ometa_of_rmeta rm = ometa_given cfg now m
       /\ P_C01_object (ometa_given cfg now m) content 1
                       [(ometa_of_rmeta rm, calls_of (m_toi m, 0%nat) (c_log cx))] = true.

Lemma add_fti_rs_pid oti o L p : rs_pid oti (add_fti o L p) = rs_pid oti p.
Proof. reflexivity. Qed.
Lemma add_fti_rs_genuine oti content rp o L p : rs_genuine_pkt oti content rp (add_fti o L p) = rs_genuine_pkt oti content rp p.
Proof. unfold rs_genuine_pkt. destruct (partition_of oti (lenN_ content)) as [[[al as_] nal] n]. reflexivity. Qed.
Lemma to_apkt_rs_toi f toi p : a_toi (to_apkt_rs f toi p) = toi.
Proof. destruct f; reflexivity. Qed.
Lemma rs_recoverable_pids oti L l l' : map (rs_pid oti) l = map (rs_pid oti) l' -> rs_recoverable oti L l = rs_recoverable oti L l'.
Proof. unfold rs_recoverable. intros ->. reflexivity. Qed.

Section ComposeSessRS.
  Variable rep : fec -> N -> list N -> N -> N -> list (list N).
  Variable raptor_src : list N -> N -> option (list (list N)).
  Variable cfg : fdt_cfg.
  Variable complete : bool.
  Variable now : Z.
  Variable m : fmeta.
  Variable content : list N.
  Variable E : env.
  Variable rcfg : rconfig.
  Variable nowr : Z.
  Variable id : N.
  Variable sct : option Z.
  Hypothesis HS : sender_ok_rs cfg now m content.
  Hypothesis HD : doc_fits cfg complete now m.
  Hypothesis HL : rep_len_ok rep.
  Hypothesis HZ : rs_rep_sym_ok rep (obj_ecfg_rs cfg m 1 false false) content.
  Hypothesis HR : receiver_ok_rs rep E rcfg nowr sct cfg now m content.

  Notation toi := (m_toi m).
  Notation oti := (obj_roti_rs cfg m).
  Notation L := (lenN_ content).
  Notation pf := (sess_fdt_pkt cfg complete now m id sct).
  Notation rep' := (obj_rep_rs rep cfg m content).

  Lemma is_rs_id i : rs_id i -> is_rs (fec_of_id i) = true.
  Proof. intros [-> | ->]; reflexivity. Qed.

  (* ---- the object's packets ---- *)
  Lemma obj_wire_facts_rs window closable debug fti : (1 <= window)%nat ->
    let w := obj_wire_rs rep raptor_src cfg m window closable debug content fti in
    rs_scheme_ok oti L /\ rs_blocks_ok oti L
    /\ Forall (fun p => a_toi p = toi) w
    /\ Forall (fun p => rs_genuine_pkt oti content rep' p = true) w
    /\ (forall pre, rs_recoverable oti L (pre ++ w) = true)
    /\ exists body lst, w = body ++ [lst] /\ Forall (fun q => a_close_obj q = false) body /\ a_close_obj lst = closable.
  Proof.
    intros Hw. destruct HS as (_ & _ & _ & Ho & Hwo & _ & Hacc & Hlen & Hl & _).
    set (c := obj_ecfg_rs cfg m window closable debug).
    assert (Hrs : is_rs (c_fec c) = true) by (apply is_rs_id; exact Ho).
    assert (Hacc' : filedesc_accepts c = true) by exact Hacc.
    assert (Hlen' : c_tlen c = lenN content) by exact Hlen.
    assert (Hl' : 0 < c_tlen c) by exact Hl.
    assert (Hw' : (1 <= c_window c)%nat) by exact Hw.
    assert (He16 : c_e c < 65536) by (destruct Hwo as (_ & _ & _ & He & _); exact He).
    assert (Hoti : oti_matches_rs c oti) by (repeat split).
    pose proof (scheme_ok_rs c content oti Hrs Hacc' Hlen' Hl' He16 Hoti) as Hsok.
    pose proof (blocks_ok_rs c content oti Hrs Hacc' Hlen' Hl' Hoti) as Hbok.
    destruct (wire_facts_rs rep raptor_src c content oti toi Hrs Hacc' Hlen' Hl' Hw' HL Hoti) as (G & Rec & body & lst & Ew & Fb & Cl).
    change (rx_rep rep c content) with rep' in G.
    assert (T : Forall (fun p => a_toi p = toi) (wire_pkts_rs rep raptor_src c content toi)).
    { unfold wire_pkts_rs. apply Forall_forall. intros p Hp. apply in_map_iff in Hp. destruct Hp as (q & <- & _).
      apply to_apkt_rs_toi. }
    cbv zeta. split; [exact Hsok|]. split; [exact Hbok|]. unfold obj_wire_rs. fold c. destruct fti.
    - split; [|split; [|split]].
      + apply Forall_forall. intros p Hp. apply in_map_iff in Hp. destruct Hp as (q & <- & Hq).
        rewrite Forall_forall in T. exact (T q Hq).
      + apply Forall_forall. intros p Hp. apply in_map_iff in Hp. destruct Hp as (q & <- & Hq).
        rewrite add_fti_rs_genuine. rewrite Forall_forall in G. exact (G q Hq).
      + intros pre. rewrite (rs_recoverable_pids oti L _ (pre ++ wire_pkts_rs rep raptor_src c content toi)).
        * apply Rec. apply incl_appr, incl_refl.
        * rewrite !map_app, map_map. f_equal.
      + exists (map (add_fti oti L) body), (add_fti oti L lst). split; [rewrite Ew, map_app; reflexivity|]. split; [|exact Cl].
        apply Forall_forall. intros p Hp. apply in_map_iff in Hp. destruct Hp as (q & <- & Hq).
        rewrite Forall_forall in Fb. exact (Fb q Hq).
    - split; [exact T|]. split; [exact G|]. split; [intros pre; apply Rec; apply incl_appr, incl_refl|].
      exists body, lst. repeat split; assumption.
  Qed.

  Lemma sess_rep_sized : rs_rep_sized oti rep'.
  Proof. apply rx_rep_sized; [reflexivity|exact HZ]. Qed.

  (* ---- the FDT side ---- *)
  Lemma tlen_u64_rs : FdtInst.m_tlen m < FdtRecv.U64.
  Proof.
    destruct (obj_wire_facts_rs 1 false false false (le_n 1)) as ((_ & _ & _ & _ & Hu) & _).
    destruct HS as (_ & _ & _ & _ & _ & _ & _ & Hlen & _). rewrite Hlen.
    change (lenN content) with (lenN_ content). unfold Partition.U64 in Hu. unfold FdtRecv.U64. lia.
  Qed.

  Lemma sess_oracle_rs : fdt_oracle (fdt_doc cfg complete now m) = Some (sess_inst_rs cfg now m).
  Proof.
    pose proof tlen_u64_rs as Htl.
    destruct HS as (Hs0 & Hws & _ & Ho0 & Hwo & Hce & _ & _ & _ & _ & Hcl & Ht & Hexp & _).
    apply oracle_on_model_doc_rs; assumption.
  Qed.

  Lemma sess_pf_ok_rs : fdt_pkt_ok pf id (nocode_roti (c_oti cfg)) (fdt_doc cfg complete now m).
  Proof.
    destruct HS as (_ & Hws & Hb & _). destruct HD as [D1 D2]. destruct Hws as (_ & _ & _ & He & _).
    apply fdt_pkt_is_ok; try assumption; [reflexivity|apply fdt_doc_nonempty].
  Qed.

  Lemma sess_live_rs : fdt_live rcfg (sess_inst_rs cfg now m) pf nowr.
  Proof.
    destruct HR as (_ & _ & _ & _ & _ & _ & [Hc|Hx]); [left; exact Hc|right].
    exists (expiry_ns cfg now). split; [reflexivity|]. unfold sess_fdt_pkt, fdt_pkt. cbn [a_sct]. apply Z.ltb_ge. exact Hx.
  Qed.

  Lemma sess_entry_rs : fdt_entry_for (fi_files (sess_inst_rs cfg now m)) (fi_oti (sess_inst_rs cfg now m)) toi oti L (obj_md5 m).
  Proof.
    destruct HS as (Hs0 & _ & _ & Ho & _ & _ & _ & Hlen & _).
    exists (sess_ff_rs m). cbn [sess_inst_rs fi_files fi_oti find sess_ff_rs ff_toi]. rewrite N.eqb_refl.
    split; [reflexivity|]. split; [reflexivity|]. split; [|split; [exact Hlen|reflexivity]].
    unfold sess_ff_rs, obj_roti_rs, the_oti in *. cbn [ff_oti]. destruct (FdtInst.m_oti m); [reflexivity|].
    rewrite Hs0 in Ho. destruct Ho; discriminate.
  Qed.

  (* ---- the metadata ---- *)
  Lemma sess_meta_rs (cx : ObjRecv.ctx) :
    (forall mm, complete_exact content (mm, calls_of (toi, 0%nat) (c_log cx)) = true) ->
    Xml.parse_fdt (str_of_bytes (fdt_doc cfg complete now m)) = Some (get_fdt_instance cfg complete now [m])
    /\ exists rm,
       recv_meta b64_decode (get_fdt_instance cfg complete now [m]) (to_file_xml (used_oti cfg m) m now) = MOk rm
       /\ P_C10_meta cfg false now m rm = true
       /\ ometa_of_rmeta rm = ometa_given cfg now m
       /\ P_C01_object (ometa_given cfg now m) content 1
                       [(ometa_of_rmeta rm, calls_of (toi, 0%nat) (c_log cx))] = true.
  Proof.
    intros Hex. pose proof tlen_u64_rs as Htl.
    destruct HS as (Hs0 & Hws & _ & Ho0 & Hwo & Hce & _ & _ & _ & _ & Hcl & Ht & Hexp & Hmeta).
    split; [unfold fdt_doc, fdt_xml; rewrite str_bytes_roundtrip; apply xml_roundtrip|].
    destruct (receiver_meta_from_fdt b64_decode b64_decode_b64 cfg complete now [m] m Ht Hexp Hmeta Hws Hwo Hcl Htl)
      as (rm & E1 & E2).
    exists rm. split; [exact E1|]. split; [exact E2|]. pose proof (meta_given_eq cfg now m rm E2) as E3.
    split; [exact E3|]. rewrite E3. apply exact_once. apply Hex.
  Qed.

  (* R3 (C01, session level): the FDT packet, then one whole transfer of the Reed-Solomon object *)
  Theorem rs_session_clean_channel window closable debug fti : (1 <= window)%nat ->
    let '(_, r, cx) := recv_run E fdt_oracle rcfg recv0
                         (map (fun p => RvPush p nowr) (pf :: obj_wire_rs rep raptor_src cfg m window closable debug content fti)) ctx0 in
    session_meta_delivered_rs cfg complete now m content rcfg r cx.
  Proof.
    intros Hw. destruct (obj_wire_facts_rs window closable debug fti Hw) as (Hsok & Hbok & T & G & Rec & body & lst & Ew & Fb & Cl).
    cbv zeta in T, G, Rec, Ew. set (w := obj_wire_rs rep raptor_src cfg m window closable debug content fti) in *.
    pose proof HS as (_ & _ & _ & _ & _ & _ & _ & _ & _ & Htoi & _).
    pose proof HR as (Hwa & Hws & Hmd5 & Hmds & Hmax & Hnb & _).
    pose proof (rs_session_fdt_first_delivers E fdt_oracle rcfg oti content rep' toi (obj_md5 m) nowr pf id (nocode_roti (c_oti cfg))
                  (fdt_doc cfg complete now m) (sess_inst_rs cfg now m) w Hsok Hbok Htoi sess_pf_ok_rs sess_oracle_rs sess_live_rs
                  sess_entry_rs Hwa Hws Hmd5 Hmds sess_rep_sized Hmax Hnb T G) as D.
    assert (Cf : rs_close_flag_ok oti L w).
    { rewrite Ew. apply rs_close_flag_ok_last; [exact Fb|]. rewrite <- Ew. exact (Rec []). }
    specialize (D Cf (Rec [])).
    destruct (recv_run E fdt_oracle rcfg recv0 (map (fun p => RvPush p nowr) (pf :: w)) ctx0) as [[xs r] cx].
    split; [exact D|]. destruct D as (_ & Hex & _). destruct (sess_meta_rs cx Hex) as [P M].
    split; [exact P|]. split; [exact sess_oracle_rs|exact M].
  Qed.

  (* C16, session level: any genuine packets of the object (source or repair) carrying EXT_FTI, no EXT_CENC, no
     close-object flag, then the FDT packet, then one whole transfer *)
  Theorem rs_session_late_join_general window closable debug fti pre : (1 <= window)%nat ->
    Forall (fun p => a_toi p = toi) pre ->
    Forall (fun p => rs_genuine_pkt oti content rep' p = true) pre ->
    Forall (fun p => a_oti p = Some (oti, L) /\ a_cenc p = None /\ a_close_obj p = false) pre ->
    let '(_, r, cx) := recv_run E fdt_oracle rcfg recv0
                         (map (fun p => RvPush p nowr)
                              (pre ++ pf :: obj_wire_rs rep raptor_src cfg m window closable debug content fti)) ctx0 in
    session_meta_delivered_rs cfg complete now m content rcfg r cx.
  Proof.
    intros Hw Tp Gp Pp. destruct (obj_wire_facts_rs window closable debug fti Hw) as (Hsok & Hbok & T & G & Rec & body & lst & Ew & Fb & Cl).
    cbv zeta in T, G, Rec, Ew. set (w := obj_wire_rs rep raptor_src cfg m window closable debug content fti) in *.
    pose proof HS as (_ & _ & _ & _ & _ & _ & _ & _ & _ & Htoi & _).
    pose proof HR as (Hwa & Hws & Hmd5 & Hmds & Hmax & Hnb & _).
    assert (Fp : Forall (fun q => a_close_obj q = false) pre).
    { rewrite Forall_forall in *. intros q Hq. apply (Pp q Hq). }
    assert (Cf : rs_close_flag_ok oti L (pre ++ w)).
    { rewrite Ew, app_assoc. apply rs_close_flag_ok_last; [apply Forall_app; split; assumption|].
      rewrite <- app_assoc, <- Ew. exact (Rec pre). }
    pose proof (rs_session_fdt_late_delivers E fdt_oracle rcfg oti content rep' toi (obj_md5 m) nowr pf id (nocode_roti (c_oti cfg))
                  (fdt_doc cfg complete now m) (sess_inst_rs cfg now m) pre w Hsok Hbok Htoi sess_pf_ok_rs sess_oracle_rs sess_live_rs
                  sess_entry_rs Hwa Hws Hmd5 Hmds sess_rep_sized Hmax Hnb (proj2 (Forall_app _ _ _) (conj Tp T)) (proj2 (Forall_app _ _ _) (conj Gp G))
                  Pp Cf (Rec pre)) as D.
    destruct (recv_run E fdt_oracle rcfg recv0 (map (fun p => RvPush p nowr) (pre ++ pf :: w)) ctx0) as [[xs r] cx].
    split; [exact D|]. destruct D as (_ & Hex & _). destruct (sess_meta_rs cx Hex) as [P M].
    split; [exact P|]. split; [exact sess_oracle_rs|exact M].
  Qed.

  (* C16 corollary: the receiver joins at ANY packet offset j of a carousel transfer (in-band FTI, no close flag),
     receives the rest of it, then the FDT packet, then one whole further transfer *)
  Theorem rs_session_late_join window1 debug1 (j : nat) window closable debug fti : (1 <= window1)%nat -> (1 <= window)%nat ->
    let '(_, r, cx) := recv_run E fdt_oracle rcfg recv0
                         (map (fun p => RvPush p nowr)
                              (skipn j (obj_wire_rs rep raptor_src cfg m window1 false debug1 content true)
                               ++ pf :: obj_wire_rs rep raptor_src cfg m window closable debug content fti)) ctx0 in
    session_meta_delivered_rs cfg complete now m content rcfg r cx.
  Proof.
    intros Hw1 Hw. destruct (obj_wire_facts_rs window1 false debug1 true Hw1) as (_ & _ & T & G & _ & body & lst & Ew & Fb & Cl).
    cbv zeta in T, G, Ew. set (w1 := obj_wire_rs rep raptor_src cfg m window1 false debug1 content true) in *.
    assert (Sub : forall P : apkt -> Prop, Forall P w1 -> Forall P (skipn j w1)).
    { intros P F. rewrite <- (firstn_skipn j w1) in F. apply Forall_app in F. apply F. }
    apply rs_session_late_join_general; [exact Hw|apply Sub; exact T|apply Sub; exact G|apply Sub].
    assert (Fc : Forall (fun q => a_close_obj q = false) w1).
    { rewrite Ew. apply Forall_app. split; [exact Fb|]. constructor; [exact Cl|constructor]. }
    unfold w1, obj_wire_rs in Fc |- *. apply Forall_forall. intros p Hp. apply in_map_iff in Hp. destruct Hp as (q & <- & Hq).
    split; [reflexivity|]. rewrite Forall_forall in Fc. split; [|apply (Fc (add_fti oti L q)); apply in_map; exact Hq].
    unfold wire_pkts_rs in Hq. apply in_map_iff in Hq. destruct Hq as (q0 & <- & _).
    unfold to_apkt_rs. destruct (c_fec _); reflexivity.
  Qed.

  (* D44: the same without the premise "no close-object flag before the FDT packet" *)
  Theorem rs_session_late_join_general_any_flag_before_fdt window closable debug fti pre : (1 <= window)%nat ->
    Forall (fun p => a_toi p = toi) pre ->
    Forall (fun p => rs_genuine_pkt oti content rep' p = true) pre ->
    Forall (fun p => a_oti p = Some (oti, L) /\ a_cenc p = None) pre ->
    let '(_, r, cx) := recv_run E fdt_oracle rcfg recv0
                         (map (fun p => RvPush p nowr)
                              (pre ++ pf :: obj_wire_rs rep raptor_src cfg m window closable debug content fti)) ctx0 in
    session_meta_delivered_rs cfg complete now m content rcfg r cx.
  Proof.
    intros Hw Tp Gp Pp. destruct (obj_wire_facts_rs window closable debug fti Hw) as (Hsok & Hbok & T & G & Rec & body & lst & Ew & Fb & Cl).
    cbv zeta in T, G, Rec, Ew. set (w := obj_wire_rs rep raptor_src cfg m window closable debug content fti) in *.
    pose proof HS as (_ & _ & _ & _ & _ & _ & _ & _ & _ & Htoi & _).
    pose proof HR as (Hwa & Hws & Hmd5 & Hmds & Hmax & Hnb & _).
    assert (Cf : close_flag_ok_after (rs_recoverable oti L) pre w).
    { rewrite Ew. apply close_flag_ok_after_last; [exact Fb|]. rewrite <- Ew. exact (Rec pre). }
    pose proof (rs_session_fdt_late_delivers_any_flag_before_fdt E fdt_oracle rcfg oti content rep' toi (obj_md5 m) nowr pf id (nocode_roti (c_oti cfg))
                  (fdt_doc cfg complete now m) (sess_inst_rs cfg now m) pre w Hsok Hbok Htoi sess_pf_ok_rs sess_oracle_rs sess_live_rs
                  sess_entry_rs Hwa Hws Hmd5 Hmds sess_rep_sized Hmax Hnb (proj2 (Forall_app _ _ _) (conj Tp T)) (proj2 (Forall_app _ _ _) (conj Gp G))
                  Pp Cf (Rec pre)) as D.
    destruct (recv_run E fdt_oracle rcfg recv0 (map (fun p => RvPush p nowr) (pre ++ pf :: w)) ctx0) as [[xs r] cx].
    split; [exact D|]. destruct D as (_ & Hex & _). destruct (sess_meta_rs cx Hex) as [P M].
    split; [exact P|]. split; [exact sess_oracle_rs|exact M].
  Qed.

  (* the receiver joins at ANY packet offset j of a transfer with in-band FTI - carousel or LAST (closable1) -, then the
     FDT packet, then one whole further transfer *)
  Theorem rs_session_late_join_any_flag_before_fdt window1 closable1 debug1 (j : nat) window closable debug fti :
    (1 <= window1)%nat -> (1 <= window)%nat ->
    let '(_, r, cx) := recv_run E fdt_oracle rcfg recv0
                         (map (fun p => RvPush p nowr)
                              (skipn j (obj_wire_rs rep raptor_src cfg m window1 closable1 debug1 content true)
                               ++ pf :: obj_wire_rs rep raptor_src cfg m window closable debug content fti)) ctx0 in
    session_meta_delivered_rs cfg complete now m content rcfg r cx.
  Proof.
    intros Hw1 Hw. destruct (obj_wire_facts_rs window1 closable1 debug1 true Hw1) as (_ & _ & T & G & _).
    cbv zeta in T, G. set (w1 := obj_wire_rs rep raptor_src cfg m window1 closable1 debug1 content true) in *.
    assert (Sub : forall P : apkt -> Prop, Forall P w1 -> Forall P (skipn j w1)).
    { intros P F. rewrite <- (firstn_skipn j w1) in F. apply Forall_app in F. apply F. }
    apply rs_session_late_join_general_any_flag_before_fdt; [exact Hw|apply Sub; exact T|apply Sub; exact G|apply Sub].
    unfold w1, obj_wire_rs. apply Forall_forall. intros p Hp. apply in_map_iff in Hp. destruct Hp as (q & <- & Hq).
    split; [reflexivity|].
    unfold wire_pkts_rs in Hq. apply in_map_iff in Hq. destruct Hq as (q0 & <- & _).
    unfold to_apkt_rs. destruct (c_fec _); reflexivity.
  Qed.
End ComposeSessRS.

Print Assumptions rs_session_clean_channel.
Print Assumptions rs_session_late_join_general_any_flag_before_fdt.
Print Assumptions rs_session_late_join_any_flag_before_fdt.
Print Assumptions rs_session_late_join_general.
Print Assumptions rs_session_late_join.

(* ---------- the concrete session: the session of C01Session (No-Code session OTI E = 1400 B = 64, real XML bytes),
   the 5-byte object as TOI 7 with its own Reed-Solomon OTI (FEC 5, E = 2, B = 2, one parity symbol per block),
   XOR toy code on both sides, MD5 check on ---------- *)
Definition exsr_m : fmeta :=
  mk_fmeta 7 (lit "file:///a&b.bin") 5 5 (lit "application/octet-stream") 0 (Some exs_md5)
           (Some (mk_oti 5 0 2 2 1 SchNone)) (Some (CCExpires 10000000000)) (Some (lit """e1""")) (Some [lit "g<1>"]).
Definition exsr_env : env :=
  mk_env false true (fun _ _ => WStore) (fun _ => true) (fun _ _ => true)
         xor_dec (fun _ => bytes_of_str exs_md5) (fun _ _ _ => None).
Definition exsr_doc : list N := fdt_doc exs_cfg false exs_now exsr_m.
Definition exsr_pf : apkt := sess_fdt_pkt exs_cfg false exs_now exsr_m 1 exs_sct.
Definition exsr_wire (closable fti : bool) : list apkt := obj_wire_rs xor_rep no_rsrc exs_cfg exsr_m 2 closable true exr_content fti.
Definition exsr_run (evs : list apkt) :=
  let '(xs, r, c) := recv_run exsr_env fdt_oracle exs_rcfg recv0 (map (fun p => RvPush p exs_nowr) evs) ctx0 in
  (xs, map fst (rv_objects r), rv_completed r, rv_error r, c_log c).

Example exsr_computed :
  (lenN_ exsr_doc <=? 1400) = true
  /\ fdt_oracle exsr_doc = Some (sess_inst_rs exs_cfg exs_now exsr_m)
  /\ obj_roti_rs exs_cfg exsr_m = exr_oti
  /\ map (rs_pid exr_oti) (exsr_wire false false) = [(0, 0); (1, 0); (0, 1); (1, 1); (0, 2)]
  /\ exsr_run (exsr_pf :: exsr_wire true false) = ([POk; POk; POk; POk; POk; POk], [], [7], [], exs_log)
  /\ exsr_run (exsr_pf :: exsr_wire false true) = ([POk; POk; POk; POk; POk; POk], [], [7], [], exs_log)
  /\ forallb (fun j => match exsr_run (skipn j (exsr_wire false true) ++ exsr_pf :: exsr_wire false false) with
                       | (_, [], [7], [], l) => list_eqb (fun a b => match a, b with
                                                                    | EvWrite _ x _, EvWrite _ y _ => eqb_bytes x y
                                                                    | EvBuilder _ _, EvBuilder _ _ | EvOpen _ _, EvOpen _ _
                                                                    | EvComplete _, EvComplete _ => true
                                                                    | _, _ => false end) l exs_log
                       | _ => false end) [0; 1; 2; 3; 4; 5; 6]%nat = true.
Proof. vm_compute. repeat split. Qed.

Lemma exsr_sender_ok : sender_ok_rs exs_cfg exs_now exsr_m exr_content.
Proof.
  assert (W1 : oti_wf exs_session) by (vm_compute; repeat split; discriminate).
  assert (W2 : oti_wf (mk_oti 5 0 2 2 1 SchNone)) by (vm_compute; repeat split; discriminate).
  assert (T : forall t, (0 <= t)%Z -> (t < 2000000000000000000)%Z -> time_in_era t).
  { intros t H0 H1. split; [exact H0|]. unfold NTP_UNIX_OFFSET, TWO32.
    assert (Z.to_N t / 1000000000 < 2000000000); [|lia].
    apply N.div_lt_upper_bound; [lia|]. lia. }
  unfold sender_ok_rs. split; [reflexivity|]. split; [exact W1|]. split; [reflexivity|]. split; [left; reflexivity|].
  split; [exact W2|]. split; [reflexivity|]. split; [vm_compute; reflexivity|]. split; [reflexivity|].
  split; [reflexivity|]. split; [discriminate|]. split; [reflexivity|].
  split; [apply T; vm_compute; [discriminate|reflexivity]|]. split; [vm_compute; reflexivity|].
  split; [vm_compute; discriminate|]. split; [vm_compute; discriminate|].
  cbn [exsr_m FdtInst.m_cache]. apply T; vm_compute; [discriminate|reflexivity].
Qed.

Lemma exsr_doc_fits : doc_fits exs_cfg false exs_now exsr_m.
Proof. split; vm_compute; discriminate. Qed.

Lemma exsr_receiver_ok : receiver_ok_rs xor_rep exsr_env exs_rcfg exs_nowr exs_sct exs_cfg exs_now exsr_m exr_content.
Proof.
  split; [split; reflexivity|]. split; [intros i; reflexivity|]. split; [vm_compute; reflexivity|].
  split; [exact (xor_mds_5 false)|].
  split; [vm_compute; discriminate|]. split; [vm_compute; discriminate|]. right.
  replace (expiry_ns exs_cfg exs_now) with 1700003600000000000%Z by (vm_compute; reflexivity). vm_compute. discriminate.
Qed.

Lemma exsr_rep_sym_ok : rs_rep_sym_ok xor_rep (obj_ecfg_rs exs_cfg exsr_m 1 false false) exr_content.
Proof. apply xor_rep_sym_ok_gen. vm_compute. discriminate. Qed.

(* the premises of the session theorems are satisfiable: the session above by the theorems *)
Example exsr_by_theorem closable fti :
  let '(_, r, cx) := recv_run exsr_env fdt_oracle exs_rcfg recv0
                       (map (fun p => RvPush p exs_nowr)
                            (sess_fdt_pkt exs_cfg false exs_now exsr_m 1 exs_sct
                             :: obj_wire_rs xor_rep no_rsrc exs_cfg exsr_m 2 closable true exr_content fti)) ctx0 in
  session_meta_delivered_rs exs_cfg false exs_now exsr_m exr_content exs_rcfg r cx.
Proof.
  exact (rs_session_clean_channel xor_rep no_rsrc exs_cfg false exs_now exsr_m exr_content exsr_env exs_rcfg
           exs_nowr 1 exs_sct exsr_sender_ok exsr_doc_fits xor_rep_len exsr_rep_sym_ok exsr_receiver_ok 2 closable true fti le_1_2).
Qed.

Example exsr_late_by_theorem j closable fti :
  let '(_, r, cx) := recv_run exsr_env fdt_oracle exs_rcfg recv0
                       (map (fun p => RvPush p exs_nowr)
                            (skipn j (obj_wire_rs xor_rep no_rsrc exs_cfg exsr_m 2 false true exr_content true)
                             ++ sess_fdt_pkt exs_cfg false exs_now exsr_m 1 exs_sct
                                :: obj_wire_rs xor_rep no_rsrc exs_cfg exsr_m 2 closable true exr_content fti)) ctx0 in
  session_meta_delivered_rs exs_cfg false exs_now exsr_m exr_content exs_rcfg r cx.
Proof.
  exact (rs_session_late_join xor_rep no_rsrc exs_cfg false exs_now exsr_m exr_content exsr_env exs_rcfg
           exs_nowr 1 exs_sct exsr_sender_ok exsr_doc_fits xor_rep_len exsr_rep_sym_ok exsr_receiver_ok 2 true j 2 closable true fti le_1_2 le_1_2).
Qed.


(* THE MEMORY PREMISE rs_mem_need <= max (not: transfer length <= max) IS NEEDED for FEC 129, on a clean channel, in
   order: 9 bytes, E = 2, B = 2 (blocks of 2, 2, 1 symbols), one parity symbol, three interleaved blocks.  The receiver
   accounts k * E bytes per block (the source block length of the payload id): 4 + 4 + 2 = 10 > 9 when the third
   block is allocated while the first two are incomplete.  With max_size_allocated = 9 = the transfer length the object
   is Errored; with 10 = rs_mem_need it is delivered; the same object sent with FEC 5 is delivered with 9
   (class of C02RS.rs129_memory_limit_refuted, here for the packets of the sender model in emission order) *)
Definition ex9_content : list N := [1; 2; 3; 4; 5; 6; 7; 8; 9].
Definition ex9_cfg (f : fec) : ecfg := mk_ecfg f 2 2 1 3 true 9 true.
Definition ex9_oti (f : rfec) : roti := mk_roti f 2 2 1 None.
Definition ex9_files (f : rfec) : list fdtfile := [mk_ff 7 CNull (Some (ex9_oti f)) 9 None None false].
Example rs129_clean_channel_limit_refuted :
  filedesc_accepts (ex9_cfg RS28US) = true /\ rs_mem_need (ex9_oti FRS28US) 9 = 10
  /\ map (rs_pid (ex9_oti FRS28US)) (wire_pkts_rs xor_rep no_rsrc (ex9_cfg RS28US) ex9_content 7)
     = [(0, 0); (1, 0); (2, 0); (0, 1); (1, 1); (2, 1); (0, 2); (1, 2)]
  /\ summary 7 (receive env_xor 1 (ex9_files FRS28US) None 7 9 (wire_pkts_rs xor_rep no_rsrc (ex9_cfg RS28US) ex9_content 7))
     = (Errored, [CallOpen true; CallError])
  /\ summary 7 (receive env_xor 1 (ex9_files FRS28US) None 7 10 (wire_pkts_rs xor_rep no_rsrc (ex9_cfg RS28US) ex9_content 7))
     = (Completed, [CallOpen true; CallWrite [1; 2; 3; 4] true; CallWrite [5; 6; 7; 8] true; CallWrite [9] true; CallComplete])
  /\ summary 7 (receive env_xor 1 (ex9_files FRS28) None 7 9 (wire_pkts_rs xor_rep no_rsrc (ex9_cfg RS28) ex9_content 7))
     = (Completed, [CallOpen true; CallWrite [1; 2; 3; 4] true; CallWrite [5; 6; 7; 8] true; CallWrite [9] true; CallComplete]).
Proof. vm_compute. repeat split. Qed.

(* the vocabulary of the session theorems, unfolded once *)
Lemma rs_session_statements rep cfg complete now m content E rcfg nowr sct r cx :
  (sender_ok_rs cfg now m content <->
   fec_id (c_oti cfg) = 0 /\ oti_wf (c_oti cfg) /\ 0 < max_sbl (c_oti cfg)
   /\ (fec_id (the_oti (c_oti cfg) m) = 5 \/ fec_id (the_oti (c_oti cfg) m) = 129)
   /\ oti_wf (the_oti (c_oti cfg) m) /\ m_cenc m = 0
   /\ filedesc_accepts (mk_ecfg (if fec_id (the_oti (c_oti cfg) m) =? 129 then RS28US else RS28)
                                (esl (the_oti (c_oti cfg) m)) (max_sbl (the_oti (c_oti cfg) m))
                                (parity (the_oti (c_oti cfg) m)) 1 false (FdtInst.m_tlen m) false) = true
   /\ FdtInst.m_tlen m = lenN content /\ 0 < FdtInst.m_tlen m /\ m_toi m <> 0 /\ FdtInst.m_clen m < 18446744073709551616
   /\ time_in_era now /\ spec_expires now (c_dur cfg) < 4294967296 /\ meta_ok cfg now m)
  /\ (obj_roti_rs cfg m = mk_roti (match (if fec_id (the_oti (c_oti cfg) m) =? 129 then RS28US else RS28) with
                                   | RS28US => FRS28US | _ => FRS28 end)
                                  (esl (the_oti (c_oti cfg) m)) (max_sbl (the_oti (c_oti cfg) m))
                                  (parity (the_oti (c_oti cfg) m)) None)
  /\ (receiver_ok_rs rep E rcfg nowr sct cfg now m content <->
      writer_accepts E (m_toi m) /\ writes_succeed E (m_toi m)
      /\ md5_good E content (option_map bytes_of_str (FdtInst.m_md5 m))
      /\ rs_oracle_mds E (obj_roti_rs cfg m) content
           (rx_rep rep (mk_ecfg (if fec_id (the_oti (c_oti cfg) m) =? 129 then RS28US else RS28)
                                (esl (the_oti (c_oti cfg) m)) (max_sbl (the_oti (c_oti cfg) m))
                                (parity (the_oti (c_oti cfg) m)) 1 false (FdtInst.m_tlen m) false) content) (m_toi m)
      /\ rs_mem_need (obj_roti_rs cfg m) (lenN_ content) <= cf_max_cache rcfg
      /\ nb_blocks_of (obj_roti_rs cfg m) (lenN_ content) <= 4097
      /\ (cf_exp_check rcfg = false
          \/ (match sct with Some t => t | None => nowr end
              <= Z.of_N ((spec_expires now (c_dur cfg) - 2208988800) * 1000000) * 1000)%Z))
  /\ (session_meta_delivered_rs cfg complete now m content rcfg r cx <->
      session_delivered rcfg (sess_inst_rs cfg now m) content (m_toi m) r cx
      /\ Xml.parse_fdt (str_of_bytes (fdt_doc cfg complete now m)) = Some (get_fdt_instance cfg complete now [m])
      /\ fdt_oracle (fdt_doc cfg complete now m) = Some (sess_inst_rs cfg now m)
      /\ exists rm,
           recv_meta b64_decode (get_fdt_instance cfg complete now [m]) (to_file_xml (used_oti cfg m) m now) = MOk rm
           /\ P_C10_meta cfg false now m rm = true
           /\ ometa_of_rmeta rm = ometa_given cfg now m
           /\ P_C01_object (ometa_given cfg now m) content 1
                           [(ometa_of_rmeta rm, calls_of (m_toi m, 0%nat) (c_log cx))] = true).
Proof. split; [reflexivity|]. split; [reflexivity|]. split; reflexivity. Qed.
